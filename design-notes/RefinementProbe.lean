/-! DESIGN-STAGE PROBE — not part of the verification framework.

    A reduced zog engine: flags (`CanCatch`, `Exit`) on ONE child context shared by all siblings,
    per-loop reset behaviour taken from a `Facts` record, order oracle `ω`, PostTransform gating on
    the issue sink; a flag-free `Spec`; and the refinement theorem `Engine.proc_refines`.
    Checked with plain `lean RefinementProbe.lean` (core only); axioms: propext, Quot.sound.
    With the pinned tree's facts (`buggy`) the executable model reproduces the real `[99 99 99]`. -/

structure Flags where
  canCatch : Bool
  exit : Bool
deriving DecidableEq, Repr

structure Facts where
  structResetCatch : Bool
  structResetExit : Bool
  sliceResetCatch : Bool
  sliceResetExit : Bool
deriving DecidableEq, Repr

structure Issue where
  code : String
  path : List String
deriving DecidableEq, Repr

abbrev Sink := List Issue

inductive Val where
  | nil | num (n : Int) | bad
  | list (xs : List Val)
  | obj (kv : List (String × Val))

inductive DVal where
  | num (n : Int)
  | slice (xs : List DVal)
  | struct (kv : List (String × DVal))

structure Test where
  code : String
  pred : Int → Bool

structure STest where
  code : String
  pred : DVal → Bool

structure Post where
  f : Int → Int
  err : Int → Bool

mutual
inductive Sch where
  | prim (req : Bool) (dflt : Option Int) (ctch : Option Int) (tests : List Test) (posts : List Post)
  | slice (elem : Sch) (req : Bool) (tests : List STest)
  | struct (fs : Flds) (tests : List STest)
inductive Flds where
  | nil
  | cons (k : String) (s : Sch) (rest : Flds)
end

def Val.get (v : Val) (k : String) : Val :=
  match v with
  | .obj kv => (kv.lookup k).getD .nil
  | _ => .nil

def DVal.get (d : DVal) (k : String) : DVal :=
  match d with
  | .struct kv => (kv.lookup k).getD (.num 0)
  | _ => .num 0

def DVal.set (d : DVal) (k : String) (x : DVal) : DVal :=
  match d with
  | .struct kv => .struct ((k, x) :: kv.filter (fun p => p.1 != k))
  | _ => .struct [(k, x)]

/-! ## Engine (mechanism model) -/
namespace Engine

def addIssue (fl : Flags) (sink : Sink) (i : Issue) : Flags × Sink :=
  if fl.canCatch then ({ fl with exit := true }, sink) else (fl, sink ++ [i])

def testLoop (ctch : Option Int) (path : List String) :
    List Test → Int → Flags → Sink → Flags × DVal × Sink
  | [], x, fl, sink => (fl, .num x, sink)
  | t :: ts, x, fl, sink =>
    let r := if t.pred x then (fl, sink) else addIssue fl sink ⟨t.code, path⟩
    if r.1.exit && r.1.canCatch then (r.1, .num (ctch.getD 0), r.2)
    else testLoop ctch path ts x r.1 r.2

def postLoop (path : List String) : List Post → Int → Flags → Sink → Flags × DVal × Sink
  | [], x, fl, sink => (fl, .num x, sink)
  | p :: ps, x, fl, sink =>
    if p.err x then
      let r := addIssue fl sink ⟨"post", path⟩
      (r.1, .num x, r.2)
    else postLoop path ps (p.f x) fl sink

def runPosts (path : List String) (posts : List Post) (r : Flags × DVal × Sink) : Flags × DVal × Sink :=
  if r.2.2.isEmpty then
    match r.2.1 with
    | .num x => postLoop path posts x r.1 r.2.2
    | _ => r
  else r

def prim (req : Bool) (dflt ctch : Option Int) (tests : List Test) (posts : List Post)
    (fl0 : Flags) (path : List String) (v : Val) (d : DVal) (sink : Sink) : Flags × DVal × Sink :=
  let fl : Flags := { fl0 with canCatch := ctch.isSome }
  let body : Flags × DVal × Sink :=
    match v with
    | .nil =>
      match dflt with
      | some x => testLoop ctch path tests x fl sink
      | none =>
        if !req then (fl, d, sink)
        else match ctch with
          | some c => (fl, .num c, sink)
          | none => let r := addIssue fl sink ⟨"required", path⟩; (r.1, d, r.2)
    | .num x => testLoop ctch path tests x fl sink
    | _ =>
      match ctch with
      | some c => (fl, .num c, sink)
      | none => let r := addIssue fl sink ⟨"coerce", path⟩; (r.1, d, r.2)
  runPosts path posts body

def stestLoop (path : List String) : List STest → DVal → Flags → Sink → Flags × Sink
  | [], _, fl, sink => (fl, sink)
  | t :: ts, x, fl, sink =>
    let r := if t.pred x then (fl, sink) else addIssue fl sink ⟨t.code, path⟩
    if r.1.exit then r else stestLoop path ts x r.1 r.2

def resetSlice (f : Facts) (fl : Flags) : Flags :=
  { canCatch := if f.sliceResetCatch then false else fl.canCatch,
    exit := if f.sliceResetExit then false else fl.exit }

def resetStruct (f : Facts) (fl : Flags) : Flags :=
  { canCatch := if f.structResetCatch then false else fl.canCatch,
    exit := if f.structResetExit then false else fl.exit }

/-- visit order: stable sort of keys by rank given by the oracle; always a permutation -/
def orderOf (ranks : List Nat) (keys : List String) : List String :=
  ((keys.zipIdx).mergeSort (fun a b => ranks.getD a.2 0 ≤ ranks.getD b.2 0)).map (·.1)

def keysOf : Flds → List String
  | .nil => []
  | .cons k _ rest => k :: keysOf rest

abbrev Child := Flags → List String → Val → DVal → Sink → Flags × DVal × Sink

/-- slice element loop over ONE shared child context `sub` -/
def sliceLoop (f : Facts) (child : Child) (path : List String) :
    List (Val × Nat) → Flags → List DVal → Sink → Flags × List DVal × Sink
  | [], sub, ds, sink => (sub, ds, sink)
  | xi :: rest, sub, ds, sink =>
    let sub := resetSlice f sub
    let c := child sub (path ++ [toString xi.2]) xi.1 (.num 0) sink
    sliceLoop f child path rest c.1 (ds ++ [c.2.1]) c.2.2

/-- struct field loop over ONE shared child context `sub` -/
def fieldLoop (f : Facts) (step : String → Flags → DVal → Sink → Flags × DVal × Sink) :
    List String → Flags → DVal → Sink → Flags × DVal × Sink
  | [], sub, d, sink => (sub, d, sink)
  | k :: ks, sub, d, sink =>
    let sub := resetStruct f sub
    let c := step k sub d sink
    fieldLoop f step ks c.1 c.2.1 c.2.2

mutual
def proc (f : Facts) (ω : List String → List Nat) : Sch → Child
  | .prim req dflt ctch tests posts, fl, path, v, d, sink => prim req dflt ctch tests posts fl path v d sink
  | .slice elem req tests, fl, path, v, d, sink =>
    match v with
    | .nil =>
      if req then let r := addIssue fl sink ⟨"required", path⟩; (r.1, d, r.2) else (fl, d, sink)
    | .list xs =>
      let r := sliceLoop f (proc f ω elem) path xs.zipIdx ⟨false, false⟩ [] sink
      let dest := DVal.slice r.2.1
      let t := stestLoop path tests dest fl r.2.2
      (t.1, dest, t.2)
    | _ => let r := addIssue fl sink ⟨"coerce", path⟩; (r.1, d, r.2)
  | .struct fs tests, fl, path, v, d, sink =>
    let r := fieldLoop f (fun k sub d sink => procKey f ω fs k sub path v d sink)
               (orderOf (ω path) (keysOf fs)) ⟨false, false⟩ d sink
    let t := stestLoop path tests r.2.1 fl r.2.2
    (t.1, r.2.1, t.2)
def procKey (f : Facts) (ω : List String → List Nat) :
    Flds → String → Flags → List String → Val → DVal → Sink → Flags × DVal × Sink
  | .nil, _, sub, _, _, d, sink => (sub, d, sink)
  | .cons k s rest, key, sub, path, v, d, sink =>
    if k == key then
      let c := proc f ω s sub (path ++ [k]) (v.get k) (d.get k) sink
      (c.1, d.set k c.2.1, c.2.2)
    else procKey f ω rest key sub path v d sink
end

end Engine

/-! ## Spec (no flags) -/
namespace Spec

def testIssues (path : List String) (tests : List Test) (x : Int) : Sink :=
  (tests.filter (fun t => !t.pred x)).map (fun t => ⟨t.code, path⟩)

def stestIssues (path : List String) (tests : List STest) (x : DVal) : Sink :=
  (tests.filter (fun t => !t.pred x)).map (fun t => ⟨t.code, path⟩)

/-- PostTransforms: run in order, stop at first error; `quiet` mirrors the pinned tree (error swallowed
    when the node has a catch — defect D23; the real Spec reports it) -/
def postLoop (quiet : Bool) (path : List String) : List Post → Int → Sink → DVal × Sink
  | [], x, sink => (.num x, sink)
  | p :: ps, x, sink =>
    if p.err x then (.num x, if quiet then sink else sink ++ [⟨"post", path⟩])
    else postLoop quiet path ps (p.f x) sink

def runPosts (quiet : Bool) (path : List String) (posts : List Post) (r : DVal × Sink) : DVal × Sink :=
  if r.2.isEmpty then
    match r.1 with
    | .num x => postLoop quiet path posts x r.2
    | _ => r
  else r

def tested (ctch : Option Int) (path : List String) (tests : List Test) (x : Int) (sink : Sink) : DVal × Sink :=
  match ctch with
  | some c => if tests.all (fun t => t.pred x) then (.num x, sink) else (.num c, sink)
  | none => (.num x, sink ++ testIssues path tests x)

def prim (req : Bool) (dflt ctch : Option Int) (tests : List Test) (posts : List Post)
    (path : List String) (v : Val) (d : DVal) (sink : Sink) : DVal × Sink :=
  let body : DVal × Sink :=
    match v with
    | .nil =>
      match dflt with
      | some x => tested ctch path tests x sink
      | none =>
        if !req then (d, sink)
        else match ctch with
          | some c => (.num c, sink)
          | none => (d, sink ++ [⟨"required", path⟩])
    | .num x => tested ctch path tests x sink
    | _ =>
      match ctch with
      | some c => (.num c, sink)
      | none => (d, sink ++ [⟨"coerce", path⟩])
  runPosts ctch.isSome path posts body

abbrev Child := List String → Val → DVal → Sink → DVal × Sink

def sliceLoop (child : Child) (path : List String) : List (Val × Nat) → List DVal → Sink → List DVal × Sink
  | [], ds, sink => (ds, sink)
  | xi :: rest, ds, sink =>
    let c := child (path ++ [toString xi.2]) xi.1 (.num 0) sink
    sliceLoop child path rest (ds ++ [c.1]) c.2

def fieldLoop (step : String → DVal → Sink → DVal × Sink) : List String → DVal → Sink → DVal × Sink
  | [], d, sink => (d, sink)
  | k :: ks, d, sink => let c := step k d sink; fieldLoop step ks c.1 c.2

mutual
def proc (ω : List String → List Nat) : Sch → Child
  | .prim req dflt ctch tests posts, path, v, d, sink => prim req dflt ctch tests posts path v d sink
  | .slice elem req tests, path, v, d, sink =>
    match v with
    | .nil => if req then (d, sink ++ [⟨"required", path⟩]) else (d, sink)
    | .list xs =>
      let r := sliceLoop (proc ω elem) path xs.zipIdx [] sink
      let dest := DVal.slice r.1
      (dest, r.2 ++ stestIssues path tests dest)
    | _ => (d, sink ++ [⟨"coerce", path⟩])
  | .struct fs tests, path, v, d, sink =>
    let r := fieldLoop (fun k d sink => procKey ω fs k path v d sink)
               (Engine.orderOf (ω path) (Engine.keysOf fs)) d sink
    (r.1, r.2 ++ stestIssues path tests r.1)
def procKey (ω : List String → List Nat) :
    Flds → String → List String → Val → DVal → Sink → DVal × Sink
  | .nil, _, _, _, d, sink => (d, sink)
  | .cons k s rest, key, path, v, d, sink =>
    if k == key then
      let c := proc ω s (path ++ [k]) (v.get k) (d.get k) sink
      (d.set k c.1, c.2)
    else procKey ω rest key path v d sink
end

end Spec

/-! ## Refinement -/

def FactsOK (f : Facts) : Prop :=
  f.structResetCatch = true ∧ f.structResetExit = true ∧ f.sliceResetCatch = true ∧ f.sliceResetExit = true

def Sch.isPrim : Sch → Bool
  | .prim .. => true
  | _ => false

namespace Engine

theorem addIssue_canCatch (fl : Flags) (sink : Sink) (i : Issue) : (addIssue fl sink i).1.canCatch = fl.canCatch := by
  unfold addIssue; split <;> rfl

theorem testLoop_nocatch (path : List String) (tests : List Test) (x : Int) (fl : Flags) (sink : Sink)
    (hc : fl.canCatch = false) :
    testLoop none path tests x fl sink = (fl, .num x, sink ++ Spec.testIssues path tests x) := by
  induction tests generalizing sink with
  | nil => simp [testLoop, Spec.testIssues]
  | cons t ts ih =>
    unfold testLoop
    by_cases hp : t.pred x
    · simp [hp, hc, ih, Spec.testIssues]
    · simp [hp, addIssue, hc, ih, Spec.testIssues]

theorem testLoop_catch (path : List String) (tests : List Test) (x c : Int) (fl : Flags) (sink : Sink)
    (hc : fl.canCatch = true) (he : fl.exit = false) :
    (testLoop (some c) path tests x fl sink).2 =
      (if tests.all (fun t => t.pred x) then (DVal.num x, sink) else (DVal.num c, sink)) := by
  induction tests with
  | nil => simp [testLoop]
  | cons t ts ih =>
    unfold testLoop
    by_cases hp : t.pred x
    · simp [hp, hc, he, ih]
    · simp [hp, addIssue, hc]

theorem testLoop_canCatch (ctch : Option Int) (path : List String) (tests : List Test) (x : Int) (fl : Flags) (sink : Sink) :
    (testLoop ctch path tests x fl sink).1.canCatch = fl.canCatch := by
  induction tests generalizing fl sink with
  | nil => simp [testLoop]
  | cons t ts ih =>
    unfold testLoop
    generalize hr : (if t.pred x = true then (fl, sink) else addIssue fl sink ⟨t.code, path⟩) = r
    have h1 : r.1.canCatch = fl.canCatch := by
      subst hr; split
      · rfl
      · exact addIssue_canCatch _ _ _
    simp only
    split
    · exact h1
    · rw [ih]; exact h1

theorem postLoop_spec (path : List String) (posts : List Post) (x : Int) (fl : Flags) (sink : Sink) :
    (postLoop path posts x fl sink).2 = Spec.postLoop fl.canCatch path posts x sink := by
  induction posts generalizing x with
  | nil => simp [postLoop, Spec.postLoop]
  | cons p ps ih =>
    unfold postLoop Spec.postLoop
    by_cases hp : p.err x
    · simp [hp, addIssue]; split <;> simp_all
    · simp [hp, ih]

theorem runPosts_spec (path : List String) (posts : List Post) (r : Flags × DVal × Sink) :
    (runPosts path posts r).2 = Spec.runPosts r.1.canCatch path posts r.2 := by
  unfold runPosts Spec.runPosts
  split
  · split <;> simp_all [postLoop_spec]
  · rfl

theorem tested_refines (ctch : Option Int) (path : List String) (tests : List Test) (x : Int)
    (fl0 : Flags) (sink : Sink) (he : fl0.exit = false) :
    (testLoop ctch path tests x { fl0 with canCatch := ctch.isSome } sink).2 = Spec.tested ctch path tests x sink := by
  cases ctch with
  | none => simp [Spec.tested, testLoop_nocatch]
  | some c =>
    show (testLoop (some c) path tests x ⟨true, fl0.exit⟩ sink).2 = _
    rw [testLoop_catch path tests x c ⟨true, fl0.exit⟩ sink rfl he]; rfl

theorem prim_refines (req : Bool) (dflt ctch : Option Int) (tests : List Test) (posts : List Post)
    (fl0 : Flags) (path : List String) (v : Val) (d : DVal) (sink : Sink) (he : fl0.exit = false) :
    (prim req dflt ctch tests posts fl0 path v d sink).2 = Spec.prim req dflt ctch tests posts path v d sink := by
  unfold prim Spec.prim
  rw [runPosts_spec]
  cases v with
  | nil =>
    cases dflt with
    | some x => simp only [tested_refines _ _ _ _ _ _ he, testLoop_canCatch]
    | none =>
      by_cases hr : req
      · cases ctch <;> simp [hr, addIssue]
      · simp [hr]
  | num x => simp only [tested_refines _ _ _ _ _ _ he, testLoop_canCatch]
  | bad => cases ctch <;> simp [addIssue]
  | list xs => cases ctch <;> simp [addIssue]
  | obj kv => cases ctch <;> simp [addIssue]

theorem stestLoop_clean (path : List String) (tests : List STest) (x : DVal) (fl : Flags) (sink : Sink)
    (hc : fl.canCatch = false) (he : fl.exit = false) :
    stestLoop path tests x fl sink = (fl, sink ++ Spec.stestIssues path tests x) := by
  induction tests generalizing sink with
  | nil => simp [stestLoop, Spec.stestIssues]
  | cons t ts ih =>
    unfold stestLoop
    by_cases hp : t.pred x
    · simp [hp, he, ih, Spec.stestIssues]
    · simp [hp, addIssue, hc, he, ih, Spec.stestIssues]

theorem resetStruct_ok (f : Facts) (h : FactsOK f) (fl : Flags) : resetStruct f fl = ⟨false, false⟩ := by
  simp [resetStruct, h.1, h.2.1]

theorem resetSlice_ok (f : Facts) (h : FactsOK f) (fl : Flags) : resetSlice f fl = ⟨false, false⟩ := by
  simp [resetSlice, h.2.2.1, h.2.2.2]

/-- a child "refines" when, started on a clean shared context, it agrees with the spec child -/
def ChildRefines (c : Child) (s : Spec.Child) : Prop :=
  ∀ path v d sink, (c ⟨false, false⟩ path v d sink).2 = s path v d sink

theorem sliceLoop_refines (f : Facts) (hf : FactsOK f) (c : Child) (s : Spec.Child) (h : ChildRefines c s)
    (path : List String) :
    ∀ (xs : List (Val × Nat)) (sub : Flags) (ds : List DVal) (sink : Sink),
      (sliceLoop f c path xs sub ds sink).2 = Spec.sliceLoop s path xs ds sink
  | [], _, _, _ => rfl
  | xi :: rest, sub, ds, sink => by
    unfold sliceLoop Spec.sliceLoop
    simp only [resetSlice_ok f hf]
    have hh := h (path ++ [toString xi.2]) xi.1 (.num 0) sink
    rw [← hh]
    exact sliceLoop_refines f hf c s h path rest _ _ _

theorem fieldLoop_refines (f : Facts) (hf : FactsOK f)
    (step : String → Flags → DVal → Sink → Flags × DVal × Sink) (sstep : String → DVal → Sink → DVal × Sink)
    (h : ∀ k d sink, (step k ⟨false, false⟩ d sink).2 = sstep k d sink) :
    ∀ (ks : List String) (sub : Flags) (d : DVal) (sink : Sink),
      (fieldLoop f step ks sub d sink).2 = Spec.fieldLoop sstep ks d sink
  | [], _, _, _ => rfl
  | k :: ks, sub, d, sink => by
    unfold fieldLoop Spec.fieldLoop
    simp only [resetStruct_ok f hf]
    rw [← h k d sink]
    exact fieldLoop_refines f hf step sstep h ks _ _ _

mutual
theorem proc_refines (f : Facts) (hf : FactsOK f) (ω : List String → List Nat) :
    ∀ (s : Sch) (fl : Flags) (path : List String) (v : Val) (d : DVal) (sink : Sink),
      fl.exit = false → (s.isPrim = true ∨ fl.canCatch = false) →
      (proc f ω s fl path v d sink).2 = Spec.proc ω s path v d sink
  | .prim req dflt ctch tests posts, fl, path, v, d, sink, he, _ => by
      simp only [proc, Spec.proc]; exact prim_refines _ _ _ _ _ _ _ _ _ _ he
  | .slice elem req tests, fl, path, v, d, sink, he, hc => by
      have hc : fl.canCatch = false := by simpa [Sch.isPrim] using hc
      cases v with
      | nil => by_cases hr : req <;> simp [proc, Spec.proc, hr, addIssue, hc]
      | num n => simp [proc, Spec.proc, addIssue, hc]
      | bad => simp [proc, Spec.proc, addIssue, hc]
      | obj kv => simp [proc, Spec.proc, addIssue, hc]
      | list xs =>
        have cr : ChildRefines (proc f ω elem) (Spec.proc ω elem) :=
          fun p v d s => proc_refines f hf ω elem ⟨false, false⟩ p v d s rfl (Or.inr rfl)
        have sl := sliceLoop_refines f hf _ _ cr path xs.zipIdx ⟨false, false⟩ [] sink
        simp only [proc, Spec.proc]
        rw [stestLoop_clean _ _ _ _ _ hc he, ← sl]
  | .struct fs tests, fl, path, v, d, sink, he, hc => by
      have hc : fl.canCatch = false := by simpa [Sch.isPrim] using hc
      have fl' := fieldLoop_refines f hf
        (fun k sub d sink => procKey f ω fs k sub path v d sink)
        (fun k d sink => Spec.procKey ω fs k path v d sink)
        (fun k d sink => procKey_refines f hf ω fs k ⟨false, false⟩ path v d sink rfl rfl)
        (orderOf (ω path) (keysOf fs)) ⟨false, false⟩ d sink
      simp only [proc, Spec.proc]
      rw [stestLoop_clean _ _ _ _ _ hc he, ← fl']
theorem procKey_refines (f : Facts) (hf : FactsOK f) (ω : List String → List Nat) :
    ∀ (fs : Flds) (key : String) (sub : Flags) (path : List String) (v : Val) (d : DVal) (sink : Sink),
      sub.exit = false → sub.canCatch = false →
      (procKey f ω fs key sub path v d sink).2 = Spec.procKey ω fs key path v d sink
  | .nil, _, _, _, _, _, _, _, _ => by simp [procKey, Spec.procKey]
  | .cons k s rest, key, sub, path, v, d, sink, he, hc => by
      unfold procKey Spec.procKey
      by_cases hk : (k == key) = true
      · have ih := proc_refines f hf ω s sub (path ++ [k]) (v.get k) (d.get k) sink he (Or.inr hc)
        simp only [hk, if_true, ← ih]
      · simp only [hk]; exact procKey_refines f hf ω rest key sub path v d sink he hc
end

end Engine

#print axioms Engine.proc_refines

/-! ## The facts as they are on the pinned tree: the refinement is FALSE; a concrete witness -/
def buggy : Facts := ⟨false, false, false, false⟩
def fixed : Facts := ⟨true, true, true, true⟩

def gt5 : Test := ⟨"gt", fun n => decide (n > 5)⟩
def sliceCatch : Sch := .slice (.prim false none (some 99) [gt5] []) false []
def input : Val := .list [.num 1, .num 10, .num 20]

def showD : DVal → String
  | .num n => toString n
  | .slice xs => "[" ++ " ".intercalate (xs.map fun x => match x with | .num n => toString n | _ => "?") ++ "]"
  | .struct _ => "{..}"

#eval showD (Engine.proc buggy (fun _ => []) sliceCatch ⟨false, false⟩ [] input (.num 0) []).2.1   -- [99 99 99] like the real code
#eval showD (Engine.proc fixed (fun _ => []) sliceCatch ⟨false, false⟩ [] input (.num 0) []).2.1   -- [99 10 20]
#eval showD (Spec.proc (fun _ => []) sliceCatch [] input (.num 0) []).1
