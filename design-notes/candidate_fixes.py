#!/usr/bin/env python3
"""Candidate repairs for the defects listed in DESIGN.md section 9 -- NOT applied to /repo.

Design-stage note, not part of the verification framework. Each function is the minimal
edit tried on a scratch copy of the pinned tree during the design round:
  * all of them together: `go build ./...` ok, the unedited suite passes 413/413 (3 runs),
  * each one cures the failure observed for its defect (same scratch experiments).
In the repair stage each becomes its own `fix:` commit in /repo (after the corresponding
check has re-found the defect), possibly reworded.

usage: candidate_fixes.py <tree> [D1 D2 ...]      (default: all)
"""
import sys


def sub(tree, path, old, new, n=1):
    p = f"{tree}/{path}"
    s = open(p).read()
    assert s.count(old) == n, (path, old[:60], s.count(old))
    open(p, "w").write(s.replace(old, new))


def D1(t):  # struct field loops: reset catch state of the shared child ctx per field
    sub(t, "struct.go", "\t\tsubCtx.DType = processor.getType()\n\t\tsubCtx.Exit = false\n",
        "\t\tsubCtx.DType = processor.getType()\n\t\tsubCtx.Exit = false\n\t\tsubCtx.CanCatch = false\n")
    sub(t, "struct.go", "\t\tsubCtx.DType = schema.getType()\n\t\tschema.validate(subCtx)",
        "\t\tsubCtx.DType = schema.getType()\n\t\tsubCtx.Exit = false\n\t\tsubCtx.CanCatch = false\n\t\tschema.validate(subCtx)")


def D2(t):  # slice element loops: same
    sub(t, "slices.go", "\t\tsubCtx.Path.Push(&k)\n\t\tsubCtx.Exit = false\n\t\tv.schema.validate(subCtx)",
        "\t\tsubCtx.Path.Push(&k)\n\t\tsubCtx.Exit = false\n\t\tsubCtx.CanCatch = false\n\t\tv.schema.validate(subCtx)")
    sub(t, "slices.go", "\t\tsubCtx.Path.Push(&k)\n\t\tv.schema.process(subCtx)",
        "\t\tsubCtx.Path.Push(&k)\n\t\tsubCtx.Exit = false\n\t\tsubCtx.CanCatch = false\n\t\tv.schema.process(subCtx)")


def D3(t):  # recycled ExecCtx keeps WithCtxValue map
    sub(t, "internals/contexts.go", "\tc.Fmter = fmter\n\tc.Errors = errs\n\treturn c",
        "\tc.Fmter = fmter\n\tc.Errors = errs\n\tc.m = nil\n\treturn c")


def D4(t):  # recycled issue keeps Params in IssueFromCoerce
    sub(t, "internals/contexts.go", "\te.Value = c.Data\n\te.Err = err\n\treturn e",
        "\te.Value = c.Data\n\te.Params = nil\n\te.Err = err\n\treturn e")


def D5(t):  # nil provider ({} json) -> empty provider
    sub(t, "struct.go", "\t// 3. Process / validate struct fields\n",
        "\tif dataProv == nil {\n\t\tdataProv = &p.EmptyDataProvider{}\n\t}\n\n\t// 3. Process / validate struct fields\n")


def D6(t):  # keys longer than the 32-byte buffer
    old = "\t\t\tvar b [32]byte // Use a size that fits your max key length\n\t\t\tcopy(b[:], key)\n\t\t\tb[0] -= 32\n\t\t\tkey = string(b[:len(key)])\n"
    new = ("\t\t\tif len(key) <= 32 {\n\t\t\t\tvar b [32]byte // fast path without allocation for short keys\n\t\t\t\tcopy(b[:], key)\n"
           "\t\t\t\tb[0] -= 32\n\t\t\t\tkey = string(b[:len(key)])\n\t\t\t} else {\n\t\t\t\tkey = string(key[0]-32) + key[1:]\n\t\t\t}\n")
    sub(t, "struct.go", old, new, n=2)


def D7(t):  # named map types / maps of named element types
    sub(t, "internals/DataProviders.go", """		switch valTyp.Kind() { // TODO: add more types
		case reflect.String:
			return NewSafeMapDataProvider(x.Interface().(map[string]string)), nil
		case reflect.Int:
			return NewSafeMapDataProvider(x.Interface().(map[string]int)), nil
		case reflect.Float64:
			return NewSafeMapDataProvider(x.Interface().(map[string]float64)), nil
		case reflect.Bool:
			return NewSafeMapDataProvider(x.Interface().(map[string]bool)), nil
		case reflect.Interface:
			return NewSafeMapDataProvider(x.Interface().(map[string]any)), nil
		default:
""", """		// named map types (type M map[string]any) are converted to their unnamed form; maps whose key or
		// element type is itself a named type cannot be converted and are reported as an error
		mapTyp := x.Type()
		switch { // TODO: add more types
		case mapTyp.ConvertibleTo(mapStringString):
			return NewSafeMapDataProvider(x.Convert(mapStringString).Interface().(map[string]string)), nil
		case mapTyp.ConvertibleTo(mapStringInt):
			return NewSafeMapDataProvider(x.Convert(mapStringInt).Interface().(map[string]int)), nil
		case mapTyp.ConvertibleTo(mapStringFloat64):
			return NewSafeMapDataProvider(x.Convert(mapStringFloat64).Interface().(map[string]float64)), nil
		case mapTyp.ConvertibleTo(mapStringBool):
			return NewSafeMapDataProvider(x.Convert(mapStringBool).Interface().(map[string]bool)), nil
		case mapTyp.ConvertibleTo(mapStringAny):
			return NewSafeMapDataProvider(x.Convert(mapStringAny).Interface().(map[string]any)), nil
		default:
""")
    sub(t, "internals/DataProviders.go", "type DpFactory = func() (DataProvider, *ZogIssue)\n",
        "type DpFactory = func() (DataProvider, *ZogIssue)\n\nvar (\n\tmapStringString  = reflect.TypeOf(map[string]string(nil))\n"
        "\tmapStringInt     = reflect.TypeOf(map[string]int(nil))\n\tmapStringFloat64 = reflect.TypeOf(map[string]float64(nil))\n"
        "\tmapStringBool    = reflect.TypeOf(map[string]bool(nil))\n\tmapStringAny     = reflect.TypeOf(map[string]any(nil))\n)\n")


def D8(t):  # struct input with unexported field of the looked-up name
    sub(t, "internals/DataProviders.go",
        "\tfield := s.value.FieldByName(key)\n\tif !field.IsValid() {\n\t\treturn nil\n\t}\n\treturn field.Interface()",
        "\tfield := s.value.FieldByName(key)\n\tif !field.IsValid() || !field.CanInterface() {\n\t\treturn nil\n\t}\n\treturn field.Interface()")
    sub(t, "internals/DataProviders.go",
        "\tfield := s.value.FieldByName(key)\n\tif !field.IsValid() {\n\t\treturn nil\n\t}\n\tdataProvider, _",
        "\tfield := s.value.FieldByName(key)\n\tif !field.IsValid() || !field.CanInterface() {\n\t\treturn nil\n\t}\n\tdataProvider, _")


def D9(t):  # empty path segment (empty tag)
    sub(t, "internals/PathBuilder.go", "if i > 0 && (*p)[i-1] != \"\" && v[0] != '[' {",
        "if i > 0 && (*p)[i-1] != \"\" && (v == \"\" || v[0] != '[') {")


def D10(t):  # numeric range checks
    sub(t, "conf/Coercers.go", "\t\tcase float64:\n\t\t\treturn int(v), nil\n\t\tcase bool:",
        "\t\tcase float64:\n\t\t\t// NaN, Inf and values outside the int range have no int representation\n"
        "\t\t\tif math.IsNaN(v) || v >= float64(math.MaxInt) || v < float64(math.MinInt) {\n"
        "\t\t\t\treturn nil, fmt.Errorf(\"failed to coerce float64 to int: %v is out of range\", v)\n\t\t\t}\n"
        "\t\t\treturn int(v), nil\n\t\tcase bool:")
    sub(t, "conf/Coercers.go", "import (\n\t\"fmt\"\n", "import (\n\t\"fmt\"\n\t\"math\"\n")
    sub(t, "numbers.go", "\t\t\tif n, ok := x.(int); ok {\n\t\t\t\treturn int32(n), nil\n\t\t\t}",
        "\t\t\tif n, ok := x.(int); ok {\n\t\t\t\tif n < math.MinInt32 || n > math.MaxInt32 {\n"
        "\t\t\t\t\treturn nil, fmt.Errorf(\"failed to coerce to int32: %d is out of range\", n)\n\t\t\t\t}\n\t\t\t\treturn int32(n), nil\n\t\t\t}")
    sub(t, "numbers.go", "\t\t\tif n, ok := x.(float64); ok {\n\t\t\t\treturn float32(n), nil\n\t\t\t}",
        "\t\t\tif n, ok := x.(float64); ok {\n\t\t\t\tf := float32(n)\n\t\t\t\tif math.IsInf(float64(f), 0) && !math.IsInf(n, 0) {\n"
        "\t\t\t\t\treturn nil, fmt.Errorf(\"failed to coerce to float32: %v is out of range\", n)\n\t\t\t\t}\n\t\t\t\treturn f, nil\n\t\t\t}")
    sub(t, "numbers.go", "import (\n", "import (\n\t\"fmt\"\n\t\"math\"\n\n")


def D11(t):  # Time.Format / FormatFunc are no-ops
    sub(t, "time.go", "\t\t// s.setCoercer(conf.TimeCoercerFactory(format))", "\t\ts.setCoercer(conf.TimeCoercerFactory(format))")


def D12(t):  # number one_of template placeholder
    sub(t, "i18n/en/en.go", "number must be one of {{options}}", "number must be one of {{one_of_options}}")
    sub(t, "i18n/es/es.go", "Número debe ser uno de los siguientes: {{options}}", "Número debe ser uno de los siguientes: {{one_of_options}}")


def D13(t):  # decode issues have no dtype => empty message
    sub(t, "struct.go", "\t\tif err != nil {\n\t\t\tctx.AddIssue(ctx.IssueFromUnknownError(err))\n\t\t\treturn\n\t\t}\n\t\tdataProv = newDp\n\t} else {",
        "\t\tif err != nil {\n\t\t\tif err.Dtype == \"\" {\n\t\t\t\terr.Dtype = v.getType()\n\t\t\t}\n\t\t\tctx.AddIssue(ctx.IssueFromUnknownError(err))\n\t\t\treturn\n\t\t}\n\t\tdataProv = newDp\n\t} else {")
    sub(t, "pointers.go", "\t\tif err != nil {\n\t\t\tctx.AddIssue(subCtx.IssueFromUnknownError(err))\n\t\t\treturn\n\t\t}",
        "\t\tif err != nil {\n\t\t\tif err.Dtype == \"\" {\n\t\t\t\terr.Dtype = v.schema.getType()\n\t\t\t}\n\t\t\tctx.AddIssue(subCtx.IssueFromUnknownError(err))\n\t\t\treturn\n\t\t}")


def D14(t):  # cloneShallow shares tests / postTransforms backing arrays
    sub(t, "struct_helpers.go", "\t\tpostTransforms: v.postTransforms,\n\t\ttests:          v.tests,\n\t\trequired:       v.required,\n\t\tschema:         v.schema,",
        "\t\tpostTransforms: append([]p.PostTransform(nil), v.postTransforms...),\n\t\ttests:          append([]p.Test(nil), v.tests...),\n\t\trequired:       v.required,\n\t\tschema:         v.schema,")


def D15(t):  # slices.validate aliases the schema default
    sub(t, "slices.go", "\t\t\trefVal.Set(reflect.ValueOf(v.defaultVal))",
        "\t\t\tdef := reflect.ValueOf(v.defaultVal)\n\t\t\tcp := reflect.MakeSlice(refVal.Type(), def.Len(), def.Len())\n\t\t\treflect.Copy(cp, def)\n\t\t\trefVal.Set(cp)")


def D16(t):  # struct.validate hands ctx.Data (nil under slice/ptr) to callbacks
    sub(t, "struct.go", "\t\t\t\terr := fn(ctx.Data, ctx)", "\t\t\t\terr := fn(ctx.ValPtr, ctx)")
    sub(t, "struct.go", "\t\ttest.Func(ctx.Data, ctx)\n\t\tif ctx.Exit {\n\t\t\t// catch", "\t\ttest.Func(ctx.ValPtr, ctx)\n\t\tif ctx.Exit {\n\t\t\t// catch")


def D18(t):  # struct.process wraps a returned *ZogIssue, struct.validate passes it through
    sub(t, "struct.go", "\t\t\t\t\tctx.AddIssue(ctx.Issue().SetError(err))", "\t\t\t\t\tctx.AddIssue(ctx.IssueFromUnknownError(err))")


def D19(t):  # deterministic field visit order
    sub(t, "struct.go", "type StructSchema struct {\n\tschema         Schema\n",
        "type StructSchema struct {\n\tschema         Schema\n\tkeys           []string // schema keys in sorted order: fields are always visited in this order\n")
    sub(t, "struct.go", "\tfor key, processor := range v.schema {\n\t\toriginalKey := key\n",
        "\tfor _, key := range v.sortedKeys() {\n\t\tprocessor := v.schema[key]\n\t\toriginalKey := key\n")
    sub(t, "struct.go", "\tfor key, schema := range v.schema {\n\t\tfieldKey := key\n",
        "\tfor _, key := range v.sortedKeys() {\n\t\tschema := v.schema[key]\n\t\tfieldKey := key\n")
    sub(t, "struct.go", "// Returns the type of the schema\nfunc (v *StructSchema) getType() zconst.ZogType {\n\treturn zconst.TypeStruct\n}\n",
        """// Returns the type of the schema
func (v *StructSchema) getType() zconst.ZogType {
	return zconst.TypeStruct
}

// Returns the schema keys in a fixed (sorted) order so that results never depend on map iteration order
func (v *StructSchema) sortedKeys() []string {
	if len(v.keys) != len(v.schema) {
		return sortedSchemaKeys(v.schema)
	}
	return v.keys
}

func sortedSchemaKeys(s Schema) []string {
	keys := make([]string, 0, len(s))
	for k := range s {
		keys = append(keys, k)
	}
	sort.Strings(keys)
	return keys
}
""")
    sub(t, "struct.go", "\treturn &StructSchema{\n\t\tschema: schema,\n\t}", "\treturn &StructSchema{\n\t\tschema: schema,\n\t\tkeys:   sortedSchemaKeys(schema),\n\t}")
    sub(t, "struct.go", "import (\n\t\"fmt\"\n\t\"reflect\"\n", "import (\n\t\"fmt\"\n\t\"reflect\"\n\t\"sort\"\n")
    p = f"{t}/struct_helpers.go"
    s = open(p).read()
    s = s.replace("\tfor _, o := range others {\n\t\tnew = new.Merge(o)\n\t}\n\treturn new",
                  "\tnew.keys = sortedSchemaKeys(new.schema)\n\tfor _, o := range others {\n\t\tnew = new.Merge(o)\n\t}\n\treturn new")
    parts = s.split("func (v *StructSchema) ")
    out = [parts[0]]
    for part in parts[1:]:
        if part.split("(")[0] in ("Omit", "Pick", "Extend"):
            i = part.rindex("\treturn new")
            part = part[:i] + "\tnew.keys = sortedSchemaKeys(new.schema)\n" + part[i:]
        out.append(part)
    open(p, "w").write("func (v *StructSchema) ".join(out))


def D20(t):  # CollectMap frees the $first issue twice
    sub(t, "utils.go", "\tfor _, list := range issues {\n\t\ti.CollectList(list)\n\t}",
        "\tfor key, list := range issues {\n\t\tif key == zconst.ISSUE_KEY_FIRST {\n\t\t\t// the first issue is also stored under its own path; free it once\n\t\t\tcontinue\n\t\t}\n\t\ti.CollectList(list)\n\t}")
    sub(t, "utils.go", "\tp \"github.com/Oudwins/zog/internals\"\n)", "\tp \"github.com/Oudwins/zog/internals\"\n\t\"github.com/Oudwins/zog/zconst\"\n)")


def D21(t):  # Ptr(Struct) calls the decoder factory twice
    sub(t, "pointers.go", "\t\tctx.Data = val\n", "\t\tctx.Data = val\n\t\tsubCtx.Data = val\n")


def D22(t):  # typed maps: missing key is absent, not a present zero
    sub(t, "internals/DataProviders.go", "func (m *MapDataProvider[T]) Get(key string) any {\n\treturn any(m.M[key])\n}",
        "func (m *MapDataProvider[T]) Get(key string) any {\n\tv, ok := m.M[key]\n\tif !ok {\n\t\treturn nil\n\t}\n\treturn any(v)\n}")


def D23(t):  # PostTransform errors are swallowed on catching nodes
    old = "\t\t// only run posttransforms on success\n\t\tif !ctx.HasErrored() {\n\t\t\tfor _, fn := range postTransforms {"
    new = "\t\t// only run posttransforms on success\n\t\tif !ctx.HasErrored() {\n\t\t\t// posttransform errors are never caught\n\t\t\tctx.CanCatch = false\n\t\t\tfor _, fn := range postTransforms {"
    sub(t, "zogSchema.go", old, new, n=2)


ORDER = ["D1", "D2", "D3", "D4", "D5", "D6", "D7", "D8", "D9", "D10", "D11", "D12", "D13", "D14", "D15",
         "D16", "D18", "D19", "D20", "D21", "D22", "D23"]   # D17: no small repair found (known finding)

if __name__ == "__main__":
    tree = sys.argv[1]
    for d in (sys.argv[2:] or ORDER):
        globals()[d](tree)
        print("applied", d)
