-- Root of the `Zog` library: the model, the generated tables/facts, the property theorems.
import Zog.Basic
import Zog.Sexp
import Zog.Schema
import Zog.Zero
import Zog.Path
import Zog.Msg
import Zog.Coerce
import Zog.Preds
import Zog.Engine
import Zog.Wire
import Zog.Gen.Tables
import Zog.Gen.Facts
import Zog.Gen.Catalogue
