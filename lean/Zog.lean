-- This module serves as the root of the `Zog` library.
-- Import modules here that should be built as part of the library.
import Zog.Basic
