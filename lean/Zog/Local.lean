import Zog.Mono

/-!
# Locality of PostTransform-free schemas (helper)
For a schema without PostTransforms, a node's result does not depend on the issues and log
entries recorded before it: the destination is the same and its own issues / events are appended.
(With PostTransforms this is false: they are gated on "no issue so far" — known finding D19.)
-/

namespace Zog

mutual
def Schema.postFree : Schema → Bool
  | .prim p => p.posts.isEmpty
  | .slice elem sm => sm.posts.isEmpty && elem.postFree
  | .ptr elem _ _ => elem.postFree
  | .pre _ inner => inner.postFree
  | .struct fs _ posts => posts.isEmpty && fs.postFree
  | .custom _ => true
def Fields.postFree : Fields → Bool
  | .nil => true
  | .cons _ _ s rest => s.postFree && rest.postFree
end

/-- state concatenation -/
def St.app (a b : St) : St := ⟨a.sink ++ b.sink, a.log ++ b.log⟩

@[simp] theorem St.app_sink (a b : St) : (a.app b).sink = a.sink ++ b.sink := rfl
@[simp] theorem St.app_log (a b : St) : (a.app b).log = a.log ++ b.log := rfl
theorem St.app_empty (a : St) : a.app {} = a := by simp [St.app]
theorem St.empty_app (a : St) : St.app {} a = a := by simp [St.app]
theorem St.app_assoc (a b c : St) : (a.app b).app c = a.app (b.app c) := by simp [St.app, List.append_assoc]

namespace Spec

/-- `f` is local: run on any state = run on the empty state, with the state prepended -/
def Local (f : St → Out) : Prop := ∀ st, f st = ((f {}).1, st.app (f {}).2)

theorem local_const (d : DVal) : Local (fun st => (d, st)) := fun st => by simp [St.app]

theorem local_emit (d : DVal) (i : Issue) : Local (fun st => (d, emit st i)) := fun st => by
  simp [St.app, emit]

theorem testAll_local (env : Env) (dt ps : String) (tests : List Test) (x : DVal) :
    ∀ st, testAll env dt ps tests x st = st.app (testAll env dt ps tests x {}) := by
  intro st
  have h1 := testAll_sink env dt ps tests x st
  have h2 := testAll_log env dt ps tests x st
  have h3 := testAll_sink env dt ps tests x {}
  have h4 := testAll_log env dt ps tests x {}
  cases h : testAll env dt ps tests x st with
  | mk s l =>
    rw [h] at h1 h2
    simp only at h1 h2
    simp only [St.app, h3, h4, List.nil_append]
    rw [h1, h2]

theorem testCatch_local (ps : String) (c : DVal) (tests : List Test) (x : DVal) :
    Local (fun st => testCatch ps c tests x st) := by
  intro st
  induction tests generalizing st with
  | nil => simp [testCatch, St.app]
  | cons t ts ih =>
    simp only [testCatch]
    by_cases hp : t.pred x = true
    · simp only [hp, ↓reduceIte]
      have ih' : ∀ st, testCatch ps c ts x st = ((testCatch ps c ts x {}).1, st.app (testCatch ps c ts x {}).2) :=
        fun st => ih st
      rw [ih' (logIf t.cb st _), ih' (logIf t.cb {} _)]
      by_cases hc : t.cb = true <;> simp [logIf, hc, St.app, List.append_assoc]
    · simp only [hp, Bool.false_eq_true, ↓reduceIte]
      by_cases hc : t.cb = true <;> simp [logIf, hc, St.app]

theorem tested_local (env : Env) (dt ps : String) (ctch : Option DVal) (tests : List Test) (x : DVal) :
    Local (fun st => tested env dt ps ctch tests x st) := by
  intro st
  unfold tested
  cases ctch with
  | some c => exact testCatch_local ps c tests x st
  | none => simp only; rw [testAll_local env dt ps tests x st]

theorem primBody_local (env : Env) (m : Mode) (p : Prim) (path : List String) (v : Val) (d : DVal) :
    Local (fun st => primBody env m p path v d st) := by
  intro st
  unfold primBody
  cases Engine.primAbsent m v d
  · simp only [Bool.false_eq_true, ↓reduceIte]
    cases m <;> simp only
    · cases p.coerce v with
      | none => cases p.ctch <;> simp [St.app, emit]
      | some x => exact tested_local _ _ _ _ _ _ st
    · exact tested_local _ _ _ _ _ _ st
  · simp only [↓reduceIte]
    cases p.dflt with
    | some x => exact tested_local _ _ _ _ _ _ st
    | none =>
      cases p.required with
      | none => simp [St.app]
      | some r => cases p.ctch <;> simp [St.app, emit]

/-- a loop over local children is local -/
theorem sliceLoop_local (child : Child) (path : List String)
    (hc : ∀ p v d, Local (fun st => child p v d st)) :
    ∀ (xs : List (Val × DVal × Nat)) (ds : List DVal) (st : St),
      sliceLoop child path xs ds st = ((sliceLoop child path xs ds {}).1, st.app (sliceLoop child path xs ds {}).2)
  | [], ds, st => by simp [sliceLoop, St.app]
  | x :: rest, ds, st => by
    unfold sliceLoop
    have h1 := hc (path ++ ["[" ++ toString x.2.2 ++ "]"]) x.1 x.2.1 st
    simp only at h1
    rw [h1]
    rw [sliceLoop_local child path hc rest _ (st.app _)]
    rw [sliceLoop_local child path hc rest _ ((child _ x.1 x.2.1 {}).2)]
    simp [St.app_assoc]

theorem fieldLoop_local (step : String → DVal → St → Out)
    (hs : ∀ k d, Local (fun st => step k d st)) :
    ∀ (ks : List String) (d : DVal) (st : St),
      fieldLoop step ks d st = ((fieldLoop step ks d {}).1, st.app (fieldLoop step ks d {}).2)
  | [], d, st => by simp [fieldLoop, St.app]
  | k :: ks, d, st => by
    unfold fieldLoop
    have h1 := hs k d st
    simp only at h1
    rw [h1]
    rw [fieldLoop_local step hs ks _ (st.app _)]
    rw [fieldLoop_local step hs ks _ ((step k d {}).2)]
    simp [St.app_assoc]

mutual
theorem proc_local (env : Env) (m : Mode) :
    ∀ (s : Schema), s.postFree = true → ∀ (tag : Option String) (path : List String) (v : Val) (d : DVal),
      Local (fun st => proc env m s tag path v d st)
  | .prim p, hp, tag, path, v, d => by
    intro st
    have hp' : p.posts = [] := by simpa [Schema.postFree] using hp
    simp only [proc, prim, hp', runPosts_nil]
    exact primBody_local env m p path v d st
  | .slice elem sm, hp, tag, path, v, d => by
    intro st
    simp only [Schema.postFree, Bool.and_eq_true, List.isEmpty_iff] at hp
    have ih := fun p v d => proc_local env m elem hp.2 none p v d
    have sl := sliceLoop_local (proc env m elem none) path ih
    unfold proc
    simp only [hp.1, runPosts_nil]
    cases m <;> simp only
    · by_cases ha : isParseZero v = true
      · simp only [ha, ↓reduceIte]
        cases sm.dfltIn with
        | some xs =>
          simp only
          rw [sl _ _ st, testAll_local, testAll_local env "slice" (render path) sm.tests _ (sliceLoop _ _ _ _ {}).2]
          simp [St.app_assoc]
        | none => cases sm.required <;> simp [St.app, emit]
      · simp only [ha, ↓reduceIte, Bool.false_eq_true]
        cases sm.coerce v with
        | none => simp [St.app, emit]
        | some xs =>
          simp only
          rw [sl _ _ st, testAll_local, testAll_local env "slice" (render path) sm.tests _ (sliceLoop _ _ _ _ {}).2]
          simp [St.app_assoc]
    · by_cases hce : d.elems.isEmpty = true
      · simp only [hce, ↓reduceIte]
        cases sm.dfltD with
        | some ds =>
          simp only
          rw [sl _ _ st, testAll_local, testAll_local env "slice" (render path) sm.tests _ (sliceLoop _ _ _ _ {}).2]
          simp [St.app_assoc]
        | none => cases sm.required <;> simp [St.app, emit]
      · simp only [hce, ↓reduceIte, Bool.false_eq_true]
        rw [sl _ _ st, testAll_local, testAll_local env "slice" (render path) sm.tests _ (sliceLoop _ _ _ _ {}).2]
        simp [St.app_assoc]
  | .ptr elem zp nn, hp, tag, path, v, d => by
    intro st
    simp only [Schema.postFree] at hp
    unfold proc
    cases Engine.ptrAbsent m v d
    · simp only [Bool.false_eq_true, ↓reduceIte]
      have ih := proc_local env m elem hp tag path v (d.pointee zp) st
      simp only at ih
      rw [ih]
    · simp only [↓reduceIte]
      cases nn <;> simp [St.app, emit]
  | .struct fs tests posts, hp, tag, path, v, d => by
    intro st
    simp only [Schema.postFree, Bool.and_eq_true, List.isEmpty_iff] at hp
    have fl := fun prov => fieldLoop_local (fun k d st => procKey env m fs k tag prov path d st)
      (fun k d => procKey_local env m fs hp.2 k tag prov path d)
    unfold proc
    simp only [hp.1, runPosts_nil]
    cases m <;> simp only
    · cases Engine.provOf v with
      | none => simp [St.app, emit]
      | some prov =>
        simp only
        rw [fl prov _ _ st, testAll_local, testAll_local env "struct" (render path) tests _ (fieldLoop _ _ _ {}).2]
        simp [St.app_assoc]
    · rw [fl .empty _ _ st, testAll_local, testAll_local env "struct" (render path) tests _ (fieldLoop _ _ _ {}).2]
      simp [St.app_assoc]
  | .custom c, _, tag, path, v, d => by
    intro st
    unfold proc
    cases m <;> simp only
    · cases c.accept v with
      | none => simp [St.app, emit]
      | some x => by_cases hp : c.test.pred x = true <;> simp [hp, St.app, emit]
    · by_cases hp : c.test.pred d = true <;> simp [hp, St.app, emit]
  | .pre ps inner, hp, tag, path, v, d => by
    intro st
    simp only [Schema.postFree] at hp
    unfold proc
    cases m <;> simp only
    · cases ps.accept v
      · simp [St.app, emit]
      · simp only [↓reduceIte]
        rcases hr : ps.run v with ⟨v', e⟩
        cases e with
        | none =>
          simp only
          have ih : ∀ s, proc env .parse inner tag path v' d s =
              ((proc env .parse inner tag path v' d {}).1, s.app (proc env .parse inner tag path v' d {}).2) :=
            proc_local env .parse inner hp tag path v' d
          rw [ih { st with log := st.log ++ [⟨.pre, ps.id, render path, .custom v⟩] },
              ih { log := ([] : List Event) ++ [⟨.pre, ps.id, render path, .custom v⟩] }]
          simp [St.app, List.append_assoc]
        | some e => simp [St.app, emit]
    · rcases hr : ps.runD d with ⟨d', e⟩
      cases e with
      | none =>
        simp only
        have ih : ∀ s, proc env .validate inner tag path v d' s =
            ((proc env .validate inner tag path v d' {}).1, s.app (proc env .validate inner tag path v d' {}).2) :=
          proc_local env .validate inner hp tag path v d'
        rw [ih { st with log := st.log ++ [⟨.pre, ps.id, render path, d⟩] },
            ih { log := ([] : List Event) ++ [⟨.pre, ps.id, render path, d⟩] }]
        simp [St.app, List.append_assoc]
      | some e => simp [St.app, emit]
theorem procKey_local (env : Env) (m : Mode) :
    ∀ (fs : Fields), fs.postFree = true → ∀ (key : String) (tag : Option String) (prov : Engine.Prov) (path : List String) (d : DVal),
      Local (fun st => procKey env m fs key tag prov path d st)
  | .nil, _, _, _, _, _, _ => by intro st; simp [procKey, St.app]
  | .cons k fm s rest, hp, key, tag, prov, path, d => by
    intro st
    simp only [Fields.postFree, Bool.and_eq_true] at hp
    unfold procKey
    by_cases hk : (k == key) = true
    · simp only [hk, ↓reduceIte]
      have ih := proc_local env m s hp.1 none
      simp only [Local] at ih
      rw [ih]
    · simp only [hk, Bool.false_eq_true, ↓reduceIte]
      exact procKey_local env m rest hp.2 key tag prov path d st
end

end Spec
end Zog
