import Zog.Order
import Zog.Context

/-!
# "Success means valid" at every depth (helper for C01)
`Valid` is written independently of the traversal's bookkeeping: it says, node by node, what a
successful execution must have established.  `valid_of_clean` proves it from "no issue was
recorded", for every PostTransform-free well-formed schema.
-/

namespace Zog
namespace Spec
open Engine (Prov)

/-- what "valid" means at one primitive node once it has been visited: the documented exemptions
    are an absent optional node (left untouched, not tested) and a node holding its catch value -/
def PrimSat (m : Mode) (p : Prim) (v : Val) (d out : DVal) : Prop :=
  (Engine.primAbsent m v d = true ∧ p.dflt = none ∧ p.required = none ∧ out = d)
  ∨ p.ctch = some out
  ∨ ((Engine.primAbsent m v d = true → p.dflt.isSome) ∧ p.tests.all (fun t => t.pred out) = true)

theorem failing_nil_all {tests : List Test} {x : DVal} (h : failing tests x = []) :
    tests.all (fun t => t.pred x) = true := by
  unfold failing at h
  rw [List.filter_eq_nil_iff] at h
  rw [List.all_eq_true]
  intro t ht
  have := h t ht
  simpa using this

theorem testAll_clean_all (env : Env) (dt ps : String) (tests : List Test) (x : DVal) (st : St)
    (h : (testAll env dt ps tests x st).sink = st.sink) : tests.all (fun t => t.pred x) = true := by
  rw [testAll_sink] at h
  have : (failing tests x).map (issueOfTest env ps dt) = [] := by simpa using h
  exact failing_nil_all (List.map_eq_nil_iff.mp this)

theorem tested_sat (env : Env) (dt ps : String) (ctch : Option DVal) (tests : List Test) (x : DVal) (st : St)
    (h : (tested env dt ps ctch tests x st).2.sink = st.sink) :
    ctch = some (tested env dt ps ctch tests x st).1 ∨
      tests.all (fun t => t.pred (tested env dt ps ctch tests x st).1) = true := by
  unfold tested at *
  cases ctch with
  | some c =>
    simp only [testCatch_dest]
    by_cases ha : tests.all (fun t => t.pred x) = true
    · right; simp [ha]
    · left; simp [ha]
  | none =>
    right
    simp only at h ⊢
    exact testAll_clean_all env dt ps tests x st h

theorem primBody_sat (env : Env) (m : Mode) (p : Prim) (path : List String) (v : Val) (d : DVal) (st : St)
    (h : (primBody env m p path v d st).2.sink = st.sink) :
    PrimSat m p v d (primBody env m p path v d st).1 := by
  unfold primBody at *
  unfold PrimSat
  cases hab : Engine.primAbsent m v d
  · simp only [hab, Bool.false_eq_true, ↓reduceIte] at h ⊢
    cases m <;> simp only at h ⊢
    · cases hco : p.coerce v with
      | none =>
        simp only [hco] at h ⊢
        cases hc : p.ctch with
        | some c => right; left; simp [hc]
        | none => simp [hc, emit] at h
      | some x =>
        simp only [hco] at h ⊢
        rcases tested_sat _ _ _ _ _ _ _ h with h1 | h1
        · right; left; exact h1
        · right; right; exact ⟨by simp, h1⟩
    · rcases tested_sat _ _ _ _ _ _ _ h with h1 | h1
      · right; left; exact h1
      · right; right; exact ⟨by simp, h1⟩
  · simp only [hab, ↓reduceIte] at h ⊢
    cases hd : p.dflt with
    | some x =>
      simp only [hd] at h ⊢
      rcases tested_sat _ _ _ _ _ _ _ h with h1 | h1
      · right; left; exact h1
      · right; right; exact ⟨by simp, h1⟩
    | none =>
      simp only [hd] at h ⊢
      cases hr : p.required with
      | none => left; simp [hr]
      | some r =>
        simp only [hr] at h ⊢
        cases hc : p.ctch with
        | some c => right; left; simp [hc]
        | none => simp [hc, emit] at h

/-! ## where a slice node takes its elements from -/

inductive SliceSrc where
  /-- absent, no default, optional: the node is skipped -/
  | skipped
  /-- absent and required, or not coercible: one issue -/
  | failed
  | items (ins : List Val) (ds : List DVal)

def sliceSrc (m : Mode) (sm : SliceMods) (v : Val) (d : DVal) : SliceSrc :=
  match m with
  | .parse =>
    if isParseZero v then
      match sm.dfltIn with
      | some xs => .items xs (xs.map (fun _ => sm.zeroElem))
      | none => if sm.required.isSome then .failed else .skipped
    else
      match sm.coerce v with
      | none => .failed
      | some xs => .items xs (xs.map (fun _ => sm.zeroElem))
  | .validate =>
    if d.elems.isEmpty then
      match sm.dfltD with
      | some ds => .items (ds.map (fun _ => Val.nil)) ds
      | none => if sm.required.isSome then .failed else .skipped
    else .items (d.elems.map (fun _ => Val.nil)) d.elems

def fieldKeyOf (m : Mode) (tag : Option String) (prov : Prov) (fm : FieldMeta) (k : String) : String :=
  match m with
  | .parse => prov.keyFor tag fm k
  | .validate => Engine.keyFor none fm k

def fieldInput (m : Mode) (prov : Prov) (fieldKey : String) : Val :=
  match m with
  | .parse => prov.get fieldKey
  | .validate => Val.nil

mutual
/-- every declared constraint holds at this node and below, on the values the schema placed or
    found in the destination (`d` is the destination the node started from) -/
def Valid (env : Env) (m : Mode) : Schema → Option String → List String → Val → DVal → Prop
  | .prim p, _, path, v, d => PrimSat m p v d (primBody env m p path v d {}).1
  | .custom c, _, _, v, d =>
    match m with
    | .validate => c.test.pred d = true
    | .parse => ∃ x, c.accept v = some x ∧ c.test.pred x = true
  | .ptr elem zp nn, tag, path, v, d =>
    if Engine.ptrAbsent m v d then nn = none   -- NotNil had a present value, or the pointer is optional
    else Valid env m elem tag path v (d.pointee zp)
  | .pre ps inner, tag, path, v, d =>
    -- the Preprocess function accepted the value and the wrapped schema is valid on its result
    match m with
    | .parse => ps.accept v = true ∧ ∃ v', ps.run v = (v', none) ∧ Valid env m inner tag path v' d
    | .validate => ∃ d', ps.runD d = (d', none) ∧ Valid env m inner tag path v d'
  | .slice elem sm, tag, path, v, d =>
    match sliceSrc m sm v d with
    | .skipped => True
    | .failed => False
    | .items ins ds =>
      (∀ x ∈ Engine.zipIdx3 ins ds 0, Valid env m elem none (path ++ ["[" ++ toString x.2.2 ++ "]"]) x.1 x.2.1) ∧
      sm.tests.all (fun t => t.pred (proc env m (.slice elem sm) tag path v d {}).1) = true
  | .struct fs tests posts, tag, path, v, d =>
    (match m with
     | .validate => ValidFields env m tag .empty path d fs
     | .parse => ∃ prov, Engine.provOf v = some prov ∧ ValidFields env m tag prov path d fs) ∧
    tests.all (fun t => t.pred (proc env m (.struct fs tests posts) tag path v d {}).1) = true
def ValidFields (env : Env) (m : Mode) (tag : Option String) (prov : Prov) (path : List String) (d : DVal) : Fields → Prop
  | .nil => True
  | .cons k fm s rest =>
    Valid env m s none (path ++ [fieldKeyOf m tag prov fm k]) (fieldInput m prov (fieldKeyOf m tag prov fm k)) (d.get fm.goName) ∧
    ValidFields env m tag prov path d rest
end

/-! ## loops whose total contribution is empty have only empty contributions -/

theorem app_sink_nil {a b : St} (h : (a.app b).sink = []) : a.sink = [] ∧ b.sink = [] := by
  simpa [St.app] using h

theorem sliceLoop_clean (child : Child) (path : List String) (hc : ∀ p v d, Local (fun st => child p v d st)) :
    ∀ (xs : List (Val × DVal × Nat)) (ds : List DVal), (sliceLoop child path xs ds {}).2.sink = [] →
      ∀ x ∈ xs, (child (path ++ ["[" ++ toString x.2.2 ++ "]"]) x.1 x.2.1 {}).2.sink = []
  | [], _, _, x, hx => by simp at hx
  | y :: rest, ds, h, x, hx => by
    rw [sliceLoop_cons_local child path hc] at h
    simp only at h
    obtain ⟨h1, h2⟩ := app_sink_nil h
    rcases List.mem_cons.mp hx with rfl | hx
    · exact h1
    · exact sliceLoop_clean child path hc rest _ h2 x hx

/-- frame: after visiting other fields, a field's own contribution is what it is on the original
    destination -/
theorem fieldLoop_clean (env : Env) (m : Mode) (fs : Fields) (tag : Option String) (prov : Prov) (path : List String)
    (hinj : fs.GoNamesInj)
    (hl : ∀ k d, Local (fun st => procKey env m fs k tag prov path d st)) (d0 : DVal) :
    ∀ (ks : List String) (d : DVal), ks.Nodup →
      (∀ k ∈ ks, (fieldStep env m fs tag prov path k d).2 = (fieldStep env m fs tag prov path k d0).2) →
      (fieldLoop (fun k d st => procKey env m fs k tag prov path d st) ks d {}).2.sink = [] →
      ∀ k ∈ ks, (fieldStep env m fs tag prov path k d0).2.sink = []
  | [], _, _, _, _, k, hk => by simp at hk
  | a :: ks, d, hnd, hfr, h, k, hk => by
    rw [fieldLoop_cons _ hl] at h
    simp only [procKey_eq_fieldStep] at h
    obtain ⟨h1, h2⟩ := app_sink_nil h
    obtain ⟨hna, hnd'⟩ := List.nodup_cons.mp hnd
    rcases List.mem_cons.mp hk with rfl | hk
    · rw [← hfr k List.mem_cons_self]; exact h1
    · refine fieldLoop_clean env m fs tag prov path hinj hl d0 ks _ hnd' ?_ h2 k hk
      intro b hb
      have hab : a ≠ b := fun e => hna (e ▸ hb)
      rw [(fieldStep_comm env m fs tag prov path hinj a b d hab).2]
      exact hfr b (List.mem_cons_of_mem _ hb)

theorem keys_append : ∀ (pre rest : Fields), (pre.append rest).keys = pre.keys ++ rest.keys
  | .nil, _ => rfl
  | .cons k fm s r, rest => by simp [Fields.append, Fields.keys, keys_append r rest]

theorem find_of_split : ∀ (pre : Fields) (k : String) (fm : FieldMeta) (s : Schema) (rest : Fields), k ∉ pre.keys →
    (pre.append (.cons k fm s rest)).find k = some (k, fm, s)
  | .nil, k, fm, s, rest, _ => by simp [Fields.append, Fields.find]
  | .cons k' fm' s' r, k, fm, s, rest, h => by
    simp only [Fields.keys, List.mem_cons, not_or] at h
    have hk : (k' == k) = false := by
      have : k' ≠ k := fun e => h.1 e.symm
      simp [this]
    simp only [Fields.append, Fields.find, hk, Bool.false_eq_true, ↓reduceIte]
    exact find_of_split r k fm s rest h.2

/-- the snoc of a prefix: `pre ++ [x]` as Fields -/
def snoc (pre : Fields) (k : String) (fm : FieldMeta) (s : Schema) : Fields := pre.append (.cons k fm s .nil)

theorem snoc_append : ∀ (pre : Fields) (k : String) (fm : FieldMeta) (s : Schema) (rest : Fields),
    (snoc pre k fm s).append rest = pre.append (.cons k fm s rest)
  | .nil, _, _, _, _ => rfl
  | .cons k' fm' s' r, k, fm, s, rest => by
    simp only [snoc, Fields.append]
    have := snoc_append r k fm s rest
    simp only [snoc] at this
    rw [this]

theorem snoc_keys (pre : Fields) (k : String) (fm : FieldMeta) (s : Schema) : (snoc pre k fm s).keys = pre.keys ++ [k] := by
  simp [snoc, keys_append, Fields.keys]

mutual
/-- **Success means valid, at every depth.** For a PostTransform-free, well-formed schema: if the
    execution of a node from the empty state records no issue, every declared constraint at that
    node and below holds on the values placed or found in the destination. -/
theorem valid_of_clean (env : Env) (m : Mode) :
    ∀ (s : Schema), s.postFree = true → s.WF → ∀ (tag : Option String) (path : List String) (v : Val) (d : DVal),
      (proc env m s tag path v d {}).2.sink = [] → Valid env m s tag path v d
  | .prim p, hp, _, tag, path, v, d, h => by
    have hp' : p.posts = [] := by simpa [Schema.postFree] using hp
    simp only [proc, prim, hp', runPosts_nil] at h
    simp only [Valid]
    exact primBody_sat env m p path v d {} h
  | .custom c, _, _, tag, path, v, d, h => by
    unfold proc at h
    simp only [Valid]
    cases m <;> simp only at h ⊢
    · cases hc : c.accept v with
      | none => simp [hc, emit] at h
      | some x =>
        simp only [hc] at h
        by_cases hp : c.test.pred x = true
        · exact ⟨x, rfl, hp⟩
        · simp [hp, emit] at h
    · by_cases hp : c.test.pred d = true
      · exact hp
      · simp [hp, emit] at h
  | .ptr elem zp nn, hp, hw, tag, path, v, d, h => by
    simp only [Schema.postFree] at hp
    simp only [Schema.WF] at hw
    unfold proc at h
    simp only [Valid]
    cases ha : Engine.ptrAbsent m v d
    · simp only [ha, Bool.false_eq_true, ↓reduceIte] at h ⊢
      exact valid_of_clean env m elem hp hw tag path v (d.pointee zp) h
    · simp only [ha, ↓reduceIte] at h ⊢
      cases nn with
      | none => rfl
      | some t => simp [emit] at h
  | .slice elem sm, hp, hw, tag, path, v, d, h => by
    simp only [Schema.postFree, Bool.and_eq_true, List.isEmpty_iff] at hp
    simp only [Schema.WF] at hw
    have l := fun p v d => proc_local env m elem hp.2 none p v d
    have items : ∀ (ins : List Val) (ds : List DVal),
        (testAll env "slice" (render path) sm.tests (DVal.slice (sliceLoop (proc env m elem none) path (Engine.zipIdx3 ins ds 0) [] {}).1)
          (sliceLoop (proc env m elem none) path (Engine.zipIdx3 ins ds 0) [] {}).2).sink = [] →
        (∀ x ∈ Engine.zipIdx3 ins ds 0, Valid env m elem none (path ++ ["[" ++ toString x.2.2 ++ "]"]) x.1 x.2.1) ∧
        sm.tests.all (fun t => t.pred (DVal.slice (sliceLoop (proc env m elem none) path (Engine.zipIdx3 ins ds 0) [] {}).1)) = true := by
      intro ins ds hs
      rw [testAll_local] at hs
      obtain ⟨h1, h2⟩ := app_sink_nil hs
      constructor
      · intro x hx
        exact valid_of_clean env m elem hp.2 hw none _ x.1 x.2.1 (sliceLoop_clean _ path l _ [] h1 x hx)
      · exact testAll_clean_all env "slice" (render path) sm.tests _ {} (by simpa using h2)
    have hres := h
    unfold proc at h
    simp only [hp.1, runPosts_nil] at h
    simp only [Valid, sliceSrc]
    -- the destination mentioned by `Valid` is the one `proc` computes
    have hd : ∀ (ins : List Val) (ds : List DVal) (o : Out),
        proc env m (.slice elem sm) tag path v d {} = o → True := fun _ _ _ _ => trivial
    cases m <;> simp only at h ⊢
    · by_cases ha : isParseZero v = true
      · simp only [ha, ↓reduceIte] at h ⊢
        cases hdf : sm.dfltIn with
        | some xs =>
          simp only [hdf] at h ⊢
          have := items xs (xs.map (fun _ => sm.zeroElem)) h
          refine ⟨this.1, ?_⟩
          have e : (proc env .parse (.slice elem sm) tag path v d {}).1 =
              DVal.slice (sliceLoop (proc env .parse elem none) path (Engine.zipIdx3 xs (xs.map (fun _ => sm.zeroElem)) 0) [] {}).1 := by
            unfold proc; simp [ha, hdf, hp.1, runPosts_nil]
          rw [e]; exact this.2
        | none =>
          simp only [hdf] at h ⊢
          cases hr : sm.required with
          | none => simp
          | some r => simp [hr, emit] at h
      · simp only [ha, Bool.false_eq_true, ↓reduceIte] at h ⊢
        cases hco : sm.coerce v with
        | none => simp [hco, emit] at h
        | some xs =>
          simp only [hco] at h ⊢
          have := items xs (xs.map (fun _ => sm.zeroElem)) h
          refine ⟨this.1, ?_⟩
          have e : (proc env .parse (.slice elem sm) tag path v d {}).1 =
              DVal.slice (sliceLoop (proc env .parse elem none) path (Engine.zipIdx3 xs (xs.map (fun _ => sm.zeroElem)) 0) [] {}).1 := by
            unfold proc; simp [ha, hco, hp.1, runPosts_nil]
          rw [e]; exact this.2
    · by_cases hce : d.elems.isEmpty = true
      · simp only [hce, ↓reduceIte] at h ⊢
        cases hdf : sm.dfltD with
        | some ds =>
          simp only [hdf] at h ⊢
          have := items (ds.map (fun _ => Val.nil)) ds h
          refine ⟨this.1, ?_⟩
          have e : (proc env .validate (.slice elem sm) tag path v d {}).1 =
              DVal.slice (sliceLoop (proc env .validate elem none) path (Engine.zipIdx3 (ds.map (fun _ => Val.nil)) ds 0) [] {}).1 := by
            unfold proc; simp [hce, hdf, hp.1, runPosts_nil]
          rw [e]; exact this.2
        | none =>
          simp only [hdf] at h ⊢
          cases hr : sm.required with
          | none => simp
          | some r => simp [hr, emit] at h
      · simp only [hce, Bool.false_eq_true, ↓reduceIte] at h ⊢
        have := items (d.elems.map (fun _ => Val.nil)) d.elems h
        refine ⟨this.1, ?_⟩
        have e : (proc env .validate (.slice elem sm) tag path v d {}).1 =
            DVal.slice (sliceLoop (proc env .validate elem none) path (Engine.zipIdx3 (d.elems.map (fun _ => Val.nil)) d.elems 0) [] {}).1 := by
          unfold proc; simp [hce, hp.1, runPosts_nil]
        rw [e]; exact this.2
  | .struct fs tests posts, hp, hw, tag, path, v, d, h => by
    simp only [Schema.postFree, Bool.and_eq_true, List.isEmpty_iff] at hp
    simp only [Schema.WF] at hw
    obtain ⟨hkeys, hinj, hwf⟩ := hw
    have fields : ∀ prov : Prov,
        (testAll env "struct" (render path) tests
          (fieldLoop (fun k d st => procKey env m fs k tag prov path d st) (Engine.orderOf (env.ω (render path)) fs.keys) d {}).1
          (fieldLoop (fun k d st => procKey env m fs k tag prov path d st) (Engine.orderOf (env.ω (render path)) fs.keys) d {}).2).sink = [] →
        ValidFields env m tag prov path d fs ∧
        tests.all (fun t => t.pred (fieldLoop (fun k d st => procKey env m fs k tag prov path d st) (Engine.orderOf (env.ω (render path)) fs.keys) d {}).1) = true := by
      intro prov hs
      rw [testAll_local] at hs
      obtain ⟨h1, h2⟩ := app_sink_nil hs
      have hl := fun k d => procKey_local env m fs hp.2 k tag prov path d
      have hperm := orderOf_perm (env.ω (render path)) fs.keys
      have hclean := fieldLoop_clean env m fs tag prov path hinj hl d _ d (hperm.nodup_iff.mpr hkeys) (fun _ _ => rfl) h1
      constructor
      · exact validFields_of_clean env m fs tag prov path d
          (fun k hk => hclean k (hperm.mem_iff.mpr hk)) .nil fs rfl hp.2 hwf (by simpa [Fields.keys] using hkeys)
      · exact testAll_clean_all env "struct" (render path) tests _ {} (by simpa using h2)
    unfold proc at h
    simp only [hp.1, runPosts_nil] at h
    simp only [Valid]
    cases m <;> simp only at h ⊢
    · cases hpv : Engine.provOf v with
      | none => simp [hpv, emit] at h
      | some prov =>
        simp only [hpv] at h
        have := fields prov h
        refine ⟨⟨prov, rfl, this.1⟩, ?_⟩
        have e : (proc env .parse (.struct fs tests posts) tag path v d {}).1 =
            (fieldLoop (fun k d st => procKey env .parse fs k tag prov path d st) (Engine.orderOf (env.ω (render path)) fs.keys) d {}).1 := by
          unfold proc; simp [hpv, hp.1, runPosts_nil]
        rw [e]; exact this.2
    · have := fields .empty h
      refine ⟨this.1, ?_⟩
      have e : (proc env .validate (.struct fs tests posts) tag path v d {}).1 =
          (fieldLoop (fun k d st => procKey env .validate fs k tag .empty path d st) (Engine.orderOf (env.ω (render path)) fs.keys) d {}).1 := by
        unfold proc; simp [hp.1, runPosts_nil]
      rw [e]; exact this.2
  | .pre ps inner, hp, hw, tag, path, v, d, h => by
    simp only [Schema.postFree] at hp
    simp only [Schema.WF] at hw
    have loc : ∀ v d s, proc env m inner tag path v d s =
        ((proc env m inner tag path v d {}).1, s.app (proc env m inner tag path v d {}).2) :=
      fun v d => proc_local env m inner hp tag path v d
    unfold proc at h
    simp only [Valid]
    cases m <;> simp only at h ⊢
    · cases ha : ps.accept v
      · simp [ha, emit] at h
      · simp only [ha, ↓reduceIte] at h
        rcases hr : ps.run v with ⟨v', e⟩
        cases e with
        | none =>
          simp only [hr] at h
          rw [loc] at h
          refine ⟨rfl, v', rfl, valid_of_clean env .parse inner hp hw tag path v' d ?_⟩
          simpa [St.app] using h
        | some e => simp [hr, emit] at h
    · rcases hr : ps.runD d with ⟨d', e⟩
      cases e with
      | none =>
        simp only [hr] at h
        rw [loc] at h
        refine ⟨d', rfl, valid_of_clean env .validate inner hp hw tag path v d' ?_⟩
        simpa [St.app] using h
      | some e => simp [hr, emit] at h
theorem validFields_of_clean (env : Env) (m : Mode) (fs : Fields) (tag : Option String) (prov : Prov) (path : List String) (d : DVal)
    (hclean : ∀ k ∈ fs.keys, (fieldStep env m fs tag prov path k d).2.sink = []) :
    ∀ (pre rest : Fields), fs = pre.append rest → rest.postFree = true → rest.WF → (pre.keys ++ rest.keys).Nodup →
      ValidFields env m tag prov path d rest
  | _, .nil, _, _, _, _ => by simp [ValidFields]
  | pre, .cons k fm s rest, hfs, hp, hw, hnd => by
    simp only [Fields.postFree, Bool.and_eq_true] at hp
    simp only [Fields.WF] at hw
    simp only [ValidFields]
    have hk : k ∉ pre.keys := by
      simp only [Fields.keys] at hnd
      have := (List.nodup_append.mp hnd).2.2
      intro hmem
      exact this k hmem k List.mem_cons_self rfl
    have hfind : fs.find k = some (k, fm, s) := by rw [hfs]; exact find_of_split pre k fm s rest hk
    have hkin : k ∈ fs.keys := by rw [hfs, keys_append]; simp [Fields.keys]
    have hc := hclean k hkin
    unfold fieldStep at hc
    simp only [hfind] at hc
    constructor
    · apply valid_of_clean env m s hp.1 hw.1 none
      cases m <;> exact hc
    · refine validFields_of_clean env m fs tag prov path d hclean (snoc pre k fm s) rest ?_ hp.2 hw.2 ?_
      · rw [hfs, snoc_append]
      · rw [snoc_keys]; simpa [Fields.keys, List.append_assoc] using hnd
end

end Spec
end Zog
