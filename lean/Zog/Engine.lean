import Zog.Schema
import Zog.Zero
import Zog.Path

/-!
# Engine — the mechanism model

Mirrors `primitiveProcessor/primitiveValidator`, `SliceSchema.process/validate`,
`StructSchema.process/validate`, `PointerSchema.process/validate`, `Custom.process/validate`
step by step, *including* what makes the real code go wrong when a line is dropped:

* `CanCatch` / `Exit` live on ONE child context shared by all fields of a struct visit and by
  all elements of a slice visit; whether a loop resets them before each child is a `Facts` bit;
* PostTransforms are gated on the execution-wide issue sink;
* issues go through the catching `AddIssue`.

`process` returns the flags it leaves on the context it was handed, because the caller's loop
keeps using that context for the next sibling.  The field visit order of every struct visit is
an explicit oracle `ω : path ↦ observed key order` (Go randomises it per `range`).
-/

namespace Zog

structure Flags where
  canCatch : Bool
  exit : Bool
deriving DecidableEq, Repr, Inhabited

/-- code-shape facts (regenerated from the source by `extract`, see `Zog/Gen/Facts.lean`) -/
structure Facts where
  structParseResetCatch : Bool
  structParseResetExit : Bool
  structValResetCatch : Bool
  structValResetExit : Bool
  sliceParseResetCatch : Bool
  sliceParseResetExit : Bool
  sliceValResetCatch : Bool
  sliceValResetExit : Bool
  /-- the deferred PostTransform block of the primitive processor clears `CanCatch` -/
  primParsePostClearsCatch : Bool
  primValPostClearsCatch : Bool
deriving DecidableEq, Repr, Inhabited

/-- per-execution constants -/
structure Env where
  /-- the formatter in force for this execution: code → dtype → params → message -/
  fmt : String → String → List (String × String) → String
  /-- struct node path ↦ key order observed for that visit -/
  ω : String → List String

structure St where
  sink : List Issue := []
  log : List Event := []
deriving Inhabited

abbrev Out := Flags × DVal × St

/-! ## issues -/

def issueOfTest (env : Env) (path dtype : String) (t : Test) : Issue :=
  { code := t.code, path := t.issuePath.getD path, dtype := dtype, params := t.params,
    message := if t.msg != "" then t.msg else env.fmt t.code dtype t.params }

def coerceIssue (env : Env) (path dtype : String) : Issue :=
  { code := "coerce", path := path, dtype := dtype, params := [],
    message := env.fmt "coerce" dtype [] }

/-- `IssueFromUnknownError`: a plain error is wrapped at the node's path; a ZogIssue is kept -/
def issueOfPostErr (env : Env) (path dtype : String) : PostErr → Issue
  | .plain => { code := "", path := path, dtype := dtype, params := [], message := env.fmt "" dtype [] }
  | .issue i => if i.message != "" then i else { i with message := env.fmt i.code i.dtype i.params }

/-- `ctx.Issue().SetMessage(err.Error())` of `PreprocessSchema.validate` (an empty message is
    formatted like any other issue without one) -/
def preErrIssue (env : Env) (path dtype msg : String) : Issue :=
  { code := "", path := path, dtype := dtype, params := [],
    message := if msg != "" then msg else env.fmt "" dtype [] }

namespace Engine

/-- `SchemaCtx.AddIssue` -/
def addIssue (fl : Flags) (st : St) (i : Issue) : Flags × St :=
  if fl.canCatch then ({ fl with exit := true }, st) else (fl, { st with sink := st.sink ++ [i] })

def logIf (c : Bool) (st : St) (e : Event) : St :=
  if c then { st with log := st.log ++ [e] } else st

/-- primitive test loop -/
def testLoop (env : Env) (dtype path : String) (ctch : Option DVal) :
    List Test → DVal → Flags → St → Out
  | [], x, fl, st => (fl, x, st)
  | t :: ts, x, fl, st =>
    let st1 := logIf t.cb st ⟨.test, t.id, path, x⟩
    let r := if t.pred x then (fl, st1) else addIssue fl st1 (issueOfTest env path dtype t)
    if r.1.exit && r.1.canCatch then (r.1, ctch.getD x, r.2)
    else testLoop env dtype path ctch ts x r.1 r.2

/-- test loop of struct / slice nodes: `if ctx.Exit { return }` -/
def stestLoop (env : Env) (dtype path : String) : List Test → DVal → Flags → St → Flags × St
  | [], _, fl, st => (fl, st)
  | t :: ts, x, fl, st =>
    let st1 := logIf t.cb st ⟨.test, t.id, path, x⟩
    let r := if t.pred x then (fl, st1) else addIssue fl st1 (issueOfTest env path dtype t)
    if r.1.exit then r else stestLoop env dtype path ts x r.1 r.2

def postLoop (env : Env) (dtype path : String) : List Post → DVal → Flags → St → Out
  | [], x, fl, st => (fl, x, st)
  | p :: ps, x, fl, st =>
    let st1 : St := { st with log := st.log ++ [⟨.post, p.id, path, x⟩] }
    match p.run x with
    | (x', none) => postLoop env dtype path ps x' fl st1
    | (x', some e) =>
      let r := addIssue fl st1 (issueOfPostErr env path dtype e)
      (r.1, x', r.2)

/-- the deferred PostTransform block: only when no issue exists in this execution -/
def runPosts (env : Env) (clears : Bool) (dtype path : String) (posts : List Post) (o : Out) : Out :=
  if o.2.2.sink.isEmpty then
    let fl : Flags := if clears then { o.1 with canCatch := false } else o.1
    postLoop env dtype path posts o.2.1 fl o.2.2
  else o

def primClears (f : Facts) : Mode → Bool
  | .parse => f.primParsePostClearsCatch
  | .validate => f.primValPostClearsCatch

/-- is the primitive node's value absent? (Parse: nil / blank string; Validate: Go zero value) -/
def primAbsent (m : Mode) (v : Val) (d : DVal) : Bool :=
  match m with
  | .parse => isParseZero v
  | .validate => isZeroD d

/-- the primitive pipeline up to (not including) the deferred PostTransform block -/
def primBody (env : Env) (m : Mode) (p : Prim) (fl0 : Flags) (path : List String)
    (v : Val) (d : DVal) (st : St) : Out :=
  let fl : Flags := { fl0 with canCatch := p.ctch.isSome }
  let ps := render path
  let dt := p.kind.dtype
  if primAbsent m v d then
    match p.dflt with
    | some x => testLoop env dt ps p.ctch p.tests x fl st
    | none =>
      match p.required with
      | none => (fl, d, st)
      | some r =>
        match p.ctch with
        | some c => (fl, c, st)
        | none => let a := addIssue fl st (issueOfTest env ps dt r); (a.1, d, a.2)
  else
    match m with
    | .validate => testLoop env dt ps p.ctch p.tests d fl st
    | .parse =>
      match p.coerce v with
      | none =>
        match p.ctch with
        | some c => (fl, c, st)
        | none => let a := addIssue fl st (coerceIssue env ps dt); (a.1, d, a.2)
      | some x => testLoop env dt ps p.ctch p.tests x fl st

def prim (env : Env) (f : Facts) (m : Mode) (p : Prim) (fl0 : Flags) (path : List String)
    (v : Val) (d : DVal) (st : St) : Out :=
  runPosts env (primClears f m) p.kind.dtype (render path) p.posts (primBody env m p fl0 path v d st)

def resetSlice (f : Facts) (m : Mode) (fl : Flags) : Flags :=
  match m with
  | .parse => { canCatch := if f.sliceParseResetCatch then false else fl.canCatch,
                exit := if f.sliceParseResetExit then false else fl.exit }
  | .validate => { canCatch := if f.sliceValResetCatch then false else fl.canCatch,
                   exit := if f.sliceValResetExit then false else fl.exit }

def resetStruct (f : Facts) (m : Mode) (fl : Flags) : Flags :=
  match m with
  | .parse => { canCatch := if f.structParseResetCatch then false else fl.canCatch,
                exit := if f.structParseResetExit then false else fl.exit }
  | .validate => { canCatch := if f.structValResetCatch then false else fl.canCatch,
                   exit := if f.structValResetExit then false else fl.exit }

def keyRank (obs : List String) (k : String) : Nat := obs.idxOf k

/-- insert `k` before the first key whose rank is not smaller (stable) -/
def insertRank (obs : List String) (k : String) : List String → List String
  | [] => [k]
  | x :: xs => if keyRank obs k ≤ keyRank obs x then k :: x :: xs else x :: insertRank obs k xs

/-- visit order of a struct's fields: the declared keys, stably sorted by their position in
    the observed order (insertion sort, structural) — a permutation of the keys for EVERY oracle -/
def orderOf (obs : List String) : List String → List String
  | [] => []
  | k :: ks => insertRank obs k (orderOf obs ks)

/-- a child processor: flags of the shared context, path, source tag, input, dest, state -/
abbrev Child := Flags → List String → Val → DVal → St → Out

/-- slice element loop over ONE shared child context; items are (input, current dest, index) -/
def sliceLoop (f : Facts) (m : Mode) (child : Child) (path : List String) :
    List (Val × DVal × Nat) → Flags → List DVal → St → Flags × List DVal × St
  | [], sub, ds, st => (sub, ds, st)
  | x :: rest, sub, ds, st =>
    let sub := resetSlice f m sub
    let c := child sub (path ++ ["[" ++ toString x.2.2 ++ "]"]) x.1 x.2.1 st
    sliceLoop f m child path rest c.1 (ds ++ [c.2.1]) c.2.2

/-- struct field loop over ONE shared child context -/
def fieldLoop (f : Facts) (m : Mode) (step : String → Flags → DVal → St → Out) :
    List String → Flags → DVal → St → Out
  | [], sub, d, st => (sub, d, st)
  | k :: ks, sub, d, st =>
    let sub := resetStruct f m sub
    let c := step k sub d st
    fieldLoop f m step ks c.1 c.2.1 c.2.2

/-! ## data providers (what `struct.process` reads fields from) -/

inductive Prov where
  | empty
  | map (kvs : List (String × Val))
  /-- flat string source: a missing key reads as `""` -/
  | flat (kvs : List (String × Val))

/-- `TryNewAnyDataProvider`; `none` = "could not convert … to a data provider" -/
def provOf : Val → Option Prov
  | .nil => some .empty
  | .obj kvs => some (if kvs.isEmpty then .empty else .map kvs)
  | .flat kvs => some (.flat kvs)
  | _ => none

def Prov.get : Prov → String → Val
  | .empty, _ => .nil
  | .map kvs, k => (lookupD kvs k).getD .nil
  | .flat kvs, k =>
    -- urlDataProvider.Get: a missing key reads as "", a missing list key (`k[]`) as nil
    (lookupD kvs k).getD (if k.length > 2 && k.endsWith "[]" then .nil else .str "")

/-- the name part of a source tag: what precedes the first comma (`json:"name,omitempty"`) -/
def tagName (v : String) : String := String.ofList (v.toList.takeWhile (fun c => c != ','))

/-- `GetKeyFromField`: the name in the source tag (if the tag is there and names something), else the
    `zog` tag, else the schema key -/
def keyFor (tag : Option String) (fm : FieldMeta) (schemaKey : String) : String :=
  match (tag.bind (fun t => lookupD fm.tags t)).map tagName with
  | some k => if k != "" then k else (lookupD fm.tags "zog").getD schemaKey
  | none => (lookupD fm.tags "zog").getD schemaKey

/-- `GetByField`'s key: the empty provider (nil input, empty map, `{}`) has no source tag of its
    own — it answers with the `zog` tag, else the schema key (for `{}` through zjson the json tag is
    therefore not used: known finding D40 (b), which S-front reports by comparing the front ends) -/
def Prov.keyFor (p : Prov) (tag : Option String) (fm : FieldMeta) (schemaKey : String) : String :=
  match p with
  | .empty => Zog.Engine.keyFor none fm schemaKey
  | _ => Zog.Engine.keyFor tag fm schemaKey

/-- is the pointer node's value absent? -/
def ptrAbsent (m : Mode) (v : Val) (d : DVal) : Bool :=
  match m with
  | .parse => isParseZero v
  | .validate => d.isNilPtr

def zipIdx3 : List Val → List DVal → Nat → List (Val × DVal × Nat)
  | v :: vs, d :: ds, i => (v, d, i) :: zipIdx3 vs ds (i + 1)
  | _, _, _ => []

mutual
/-- `tag`: the struct tag name of the provider this node reads from (top level only: nested
    structs re-derive their provider from the raw value and lose it — known finding D17) -/
def proc (env : Env) (f : Facts) (m : Mode) : Schema → Option String → Child
  | .prim p, _, fl, path, v, d, st => prim env f m p fl path v d st
  | .slice elem sm, _, fl, path, v, d, st =>
    let ps := render path
    let body : Out :=
      -- inputs and initial destination elements, or an early return
      let src : Sum Out (List Val × List DVal) :=
        match m with
        | .parse =>
          if isParseZero v then
            match sm.dfltIn with
            | some xs => .inr (xs, xs.map (fun _ => sm.zeroElem))
            | none =>
              match sm.required with
              | none => .inl (fl, d, st)
              | some r => let a := addIssue fl st (issueOfTest env ps "slice" r); .inl (a.1, d, a.2)
          else
            match sm.coerce v with
            | none => let a := addIssue fl st (coerceIssue env ps "slice"); .inl (a.1, d, a.2)
            | some xs => .inr (xs, xs.map (fun _ => sm.zeroElem))
        | .validate =>
          let cur := d.elems
          if cur.isEmpty then
            match sm.dfltD with
            | some ds => .inr (ds.map (fun _ => Val.nil), ds)
            | none =>
              match sm.required with
              | none => .inl (fl, d, st)
              | some r => let a := addIssue fl st (issueOfTest env ps "slice" r); .inl (a.1, d, a.2)
          else .inr (cur.map (fun _ => Val.nil), cur)
      match src with
      | .inl o => o
      | .inr (ins, ds) =>
        let r := sliceLoop f m (proc env f m elem none) path (zipIdx3 ins ds 0) ⟨false, false⟩ [] st
        let dest := DVal.slice r.2.1
        let t := stestLoop env "slice" ps sm.tests dest fl r.2.2
        (t.1, dest, t.2)
    runPosts env false "slice" ps sm.posts body
  | .ptr elem zp notNil, tag, fl, path, v, d, st =>
    if ptrAbsent m v d then
      match notNil with
      | some t => let a := addIssue fl st (issueOfTest env (render path) elem.dtype t); (a.1, d, a.2)
      | none => (fl, d, st)
    else
      let inner := d.pointee zp
      let c := proc env f m elem tag ⟨false, false⟩ path v inner st
      (fl, .ptr (some c.2.1), c.2.2)
  | .struct fs tests posts, tag, fl, path, v, d, st =>
    let ps := render path
    let fields (prov : Prov) : Out :=
      let r := fieldLoop f m (fun k sub d st => procKey env f m fs k tag prov sub path d st)
                 (orderOf (env.ω ps) fs.keys) ⟨false, false⟩ d st
      let t := stestLoop env "struct" ps tests r.2.1 fl r.2.2
      (t.1, r.2.1, t.2)
    let body : Out :=
      match m with
      | .validate => fields .empty
      | .parse =>
        match provOf v with
        | none => let a := addIssue fl st (coerceIssue env ps "struct"); (a.1, d, a.2)
        | some prov => fields prov
    runPosts env false "struct" ps posts body
  | .custom c, _, fl, path, v, d, st =>
    let ps := render path
    let run (x : DVal) : Out :=
      let st1 : St := { st with log := st.log ++ [⟨.custom, c.test.id, ps, x⟩] }
      if c.test.pred x then (fl, x, st1)
      else let a := addIssue fl st1 (issueOfTest env ps "custom" c.test); (a.1, x, a.2)
    match m with
    | .validate => run d
    | .parse =>
      match c.accept v with
      | none => let a := addIssue fl st (coerceIssue env ps "custom"); (a.1, d, a.2)
      | some x => run x
  | .pre ps inner, tag, fl, path, v, d, st =>
    let p := render path
    match m with
    | .parse =>
      if ps.accept v then
        let st1 : St := { st with log := st.log ++ [⟨.pre, ps.id, p, .custom v⟩] }
        match ps.run v with
        | (_, some e) => let a := addIssue fl st1 (issueOfPostErr env p inner.dtype e); (a.1, d, a.2)
        | (v', none) => proc env f m inner tag fl path v' d st1
      else let a := addIssue fl st (coerceIssue env p inner.dtype); (a.1, d, a.2)
    | .validate =>
      let st1 : St := { st with log := st.log ++ [⟨.pre, ps.id, p, d⟩] }
      match ps.runD d with
      | (_, some msg) => let a := addIssue fl st1 (preErrIssue env p inner.dtype msg); (a.1, d, a.2)
      | (d', none) => proc env f m inner tag fl path v d' st1
/-- process the field with schema key `key` (looked up in `fs`) on the shared context `sub` -/
def procKey (env : Env) (f : Facts) (m : Mode) :
    Fields → String → Option String → Prov → Flags → List String → DVal → St → Out
  | .nil, _, _, _, sub, _, d, st => (sub, d, st)
  | .cons k fm s rest, key, tag, prov, sub, path, d, st =>
    if k == key then
      let fieldKey := match m with
        | .parse => prov.keyFor tag fm k
        | .validate => keyFor none fm k
      let sv := match m with
        | .parse => prov.get fieldKey
        | .validate => Val.nil
      let c := proc env f m s none sub (path ++ [fieldKey]) sv (d.get fm.goName) st
      (c.1, d.set fm.goName c.2.1, c.2.2)
    else procKey env f m rest key tag prov sub path d st
end

/-- a whole execution: fresh top-level context, empty sink -/
def run (env : Env) (f : Facts) (m : Mode) (s : Schema) (tag : Option String) (v : Val) (d : DVal) :
    DVal × St :=
  (proc env f m s tag ⟨false, false⟩ [] v d {}).2

end Engine
end Zog
