import Zog.Spec

/-!
# Refinement: `Engine` (flags on a shared child context) = `Spec` (no flags), given `FactsOK`

`FactsOK f` says: every child loop resets `CanCatch` and `Exit` on the shared child context
before each child, and the primitive PostTransform block clears `CanCatch`.  These are exactly the
facts `extract` regenerates from the source (`Zog.Gen.facts`).
-/

namespace Zog

def FactsOK (f : Facts) : Prop :=
  f.structParseResetCatch = true ∧ f.structParseResetExit = true ∧
  f.structValResetCatch = true ∧ f.structValResetExit = true ∧
  f.sliceParseResetCatch = true ∧ f.sliceParseResetExit = true ∧
  f.sliceValResetCatch = true ∧ f.sliceValResetExit = true ∧
  f.primParsePostClearsCatch = true ∧ f.primValPostClearsCatch = true

instance (f : Facts) : Decidable (FactsOK f) := by unfold FactsOK; infer_instance

def clean : Flags := ⟨false, false⟩

namespace Engine

theorem addIssue_clean (fl : Flags) (st : St) (i : Issue) (hc : fl.canCatch = false) :
    addIssue fl st i = (fl, Spec.emit st i) := by
  simp [addIssue, hc, Spec.emit]

theorem logIf_eq (c : Bool) (st : St) (e : Event) : logIf c st e = Spec.logIf c st e := rfl

theorem testLoop_nocatch (env : Env) (dt ps : String) (ctch : Option DVal) (tests : List Test) (x : DVal)
    (fl : Flags) (st : St) (hc : fl.canCatch = false) :
    testLoop env dt ps ctch tests x fl st = (fl, x, Spec.testAll env dt ps tests x st) := by
  induction tests generalizing st with
  | nil => simp [testLoop, Spec.testAll]
  | cons t ts ih =>
    unfold testLoop Spec.testAll
    by_cases hp : t.pred x = true
    · simp only [hp, ↓reduceIte, hc, Bool.and_false, logIf_eq, Bool.false_eq_true]
      exact ih _
    · simp only [hp, ↓reduceIte, addIssue_clean _ _ _ hc, hc, Bool.and_false, logIf_eq, Bool.false_eq_true]
      exact ih _

theorem testLoop_catch (env : Env) (dt ps : String) (c : DVal) (tests : List Test) (x : DVal)
    (fl : Flags) (st : St) (hc : fl.canCatch = true) (he : fl.exit = false) :
    (testLoop env dt ps (some c) tests x fl st).2 = Spec.testCatch ps c tests x st := by
  induction tests generalizing st with
  | nil => simp [testLoop, Spec.testCatch]
  | cons t ts ih =>
    unfold testLoop Spec.testCatch
    by_cases hp : t.pred x = true
    · simp only [hp, ↓reduceIte, hc, he, Bool.false_and, logIf_eq, Bool.false_eq_true]
      exact ih _
    · simp [hp, addIssue, hc, logIf_eq]

theorem postLoop_clean (env : Env) (dt ps : String) (posts : List Post) (x : DVal) (fl : Flags) (st : St)
    (hc : fl.canCatch = false) :
    postLoop env dt ps posts x fl st = (fl, Spec.postLoop env dt ps posts x st) := by
  induction posts generalizing x st with
  | nil => simp [postLoop, Spec.postLoop]
  | cons p ps' ih =>
    unfold postLoop Spec.postLoop
    cases hr : p.run x with
    | mk x' e =>
      cases e with
      | none => simp only [ih]
      | some e => simp only [addIssue_clean _ _ _ hc]

theorem runPosts_refines (env : Env) (clears : Bool) (dt ps : String) (posts : List Post) (o : Out)
    (h : clears = true ∨ o.1.canCatch = false) :
    (runPosts env clears dt ps posts o).2 = Spec.runPosts env dt ps posts o.2 := by
  unfold runPosts Spec.runPosts
  by_cases hs : o.2.2.sink.isEmpty = true
  · simp only [hs, if_true]
    rw [postLoop_clean]
    cases h with
    | inl h => simp [h]
    | inr h => cases clears <;> simp [h]
  · simp [hs]

theorem primClears_ok (f : Facts) (hf : FactsOK f) (m : Mode) : primClears f m = true := by
  cases m
  · exact hf.2.2.2.2.2.2.2.2.1
  · exact hf.2.2.2.2.2.2.2.2.2

theorem tested_refines (env : Env) (dt ps : String) (ctch : Option DVal) (tests : List Test) (x : DVal)
    (fl0 : Flags) (st : St) (he : fl0.exit = false) :
    (testLoop env dt ps ctch tests x { fl0 with canCatch := ctch.isSome } st).2
      = Spec.tested env dt ps ctch tests x st := by
  cases ctch with
  | none =>
    rw [testLoop_nocatch _ _ _ _ _ _ _ _ (by rfl)]
    rfl
  | some c =>
    exact testLoop_catch env dt ps c tests x _ st rfl he

theorem primBody_refines (env : Env) (m : Mode) (p : Prim) (fl0 : Flags)
    (path : List String) (v : Val) (d : DVal) (st : St) (he : fl0.exit = false) :
    (primBody env m p fl0 path v d st).2 = Spec.primBody env m p path v d st := by
  unfold primBody Spec.primBody
  obtain ⟨kind, tests, posts, required, dflt, ctch, coerce⟩ := p
  simp only
  cases primAbsent m v d
  · simp only [Bool.false_eq_true, ↓reduceIte]
    cases m <;> simp only
    · cases hco : coerce v with
      | none => cases ctch <;> simp [addIssue, Spec.emit]
      | some x => exact tested_refines _ _ _ _ _ _ _ _ he
    · exact tested_refines _ _ _ _ _ _ _ _ he
  · simp only [↓reduceIte]
    cases dflt with
    | some x => exact tested_refines _ _ _ _ _ _ _ _ he
    | none =>
      cases required with
      | none => rfl
      | some r => cases ctch <;> simp [addIssue, Spec.emit]

theorem prim_refines (env : Env) (f : Facts) (hf : FactsOK f) (m : Mode) (p : Prim) (fl0 : Flags)
    (path : List String) (v : Val) (d : DVal) (st : St) (he : fl0.exit = false) :
    (prim env f m p fl0 path v d st).2 = Spec.prim env m p path v d st := by
  unfold prim Spec.prim
  rw [runPosts_refines _ _ _ _ _ _ (Or.inl (primClears_ok f hf m)), primBody_refines _ _ _ _ _ _ _ _ he]

theorem stestLoop_clean (env : Env) (dt ps : String) (tests : List Test) (x : DVal) (fl : Flags) (st : St)
    (hc : fl.canCatch = false) (he : fl.exit = false) :
    stestLoop env dt ps tests x fl st = (fl, Spec.testAll env dt ps tests x st) := by
  induction tests generalizing st with
  | nil => simp [stestLoop, Spec.testAll]
  | cons t ts ih =>
    unfold stestLoop Spec.testAll
    by_cases hp : t.pred x = true
    · simp only [hp, ↓reduceIte, he, logIf_eq, Bool.false_eq_true]
      exact ih _
    · simp only [hp, ↓reduceIte, addIssue_clean _ _ _ hc, he, logIf_eq, Bool.false_eq_true]
      exact ih _

theorem resetStruct_ok (f : Facts) (hf : FactsOK f) (m : Mode) (fl : Flags) : resetStruct f m fl = clean := by
  obtain ⟨h1, h2, h3, h4, _⟩ := hf
  cases m <;> simp [resetStruct, clean, h1, h2, h3, h4]

theorem resetSlice_ok (f : Facts) (hf : FactsOK f) (m : Mode) (fl : Flags) : resetSlice f m fl = clean := by
  obtain ⟨_, _, _, _, h5, h6, h7, h8, _⟩ := hf
  cases m <;> simp [resetSlice, clean, h5, h6, h7, h8]

/-- a child refines when, started on a clean shared context, it agrees with the spec child -/
def ChildRefines (c : Child) (s : Spec.Child) : Prop :=
  ∀ path v d st, (c clean path v d st).2 = s path v d st

theorem sliceLoop_refines (f : Facts) (hf : FactsOK f) (m : Mode) (c : Child) (s : Spec.Child)
    (h : ChildRefines c s) (path : List String) :
    ∀ (xs : List (Val × DVal × Nat)) (sub : Flags) (ds : List DVal) (st : St),
      (sliceLoop f m c path xs sub ds st).2 = Spec.sliceLoop s path xs ds st
  | [], _, _, _ => rfl
  | x :: rest, sub, ds, st => by
    unfold sliceLoop Spec.sliceLoop
    simp only [resetSlice_ok f hf]
    rw [← h]
    exact sliceLoop_refines f hf m c s h path rest _ _ _

theorem fieldLoop_refines (f : Facts) (hf : FactsOK f) (m : Mode)
    (step : String → Flags → DVal → St → Out) (sstep : String → DVal → St → Spec.Out)
    (h : ∀ k d st, (step k clean d st).2 = sstep k d st) :
    ∀ (ks : List String) (sub : Flags) (d : DVal) (st : St),
      (fieldLoop f m step ks sub d st).2 = Spec.fieldLoop sstep ks d st
  | [], _, _, _ => rfl
  | k :: ks, sub, d, st => by
    unfold fieldLoop Spec.fieldLoop
    simp only [resetStruct_ok f hf]
    rw [← h k d st]
    exact fieldLoop_refines f hf m step sstep h ks _ _ _

theorem runPosts_clean (env : Env) (dt ps : String) (posts : List Post) (fl : Flags) (o : Spec.Out)
    (hc : fl.canCatch = false) :
    (runPosts env false dt ps posts (fl, o)).2 = Spec.runPosts env dt ps posts o :=
  runPosts_refines env false dt ps posts (fl, o) (Or.inr hc)

mutual
theorem proc_refines (env : Env) (f : Facts) (hf : FactsOK f) (m : Mode) :
    ∀ (s : Schema) (tag : Option String) (fl : Flags) (path : List String) (v : Val) (d : DVal) (st : St),
      fl.exit = false → (s.isPrim = true ∨ fl.canCatch = false) →
      (proc env f m s tag fl path v d st).2 = Spec.proc env m s tag path v d st
  | .prim p, tag, fl, path, v, d, st, he, _ => by
      simp only [proc, Spec.proc]; exact prim_refines env f hf m p fl path v d st he
  | .slice elem sm, tag, fl, path, v, d, st, he, hc => by
      have hc : fl.canCatch = false := by simpa [Schema.isPrim] using hc
      have cr : ChildRefines (proc env f m elem none) (Spec.proc env m elem none) :=
        fun p v d s => proc_refines env f hf m elem none clean p v d s rfl (Or.inr rfl)
      have sl := fun xs ds st => sliceLoop_refines f hf m _ _ cr path xs clean ds st
      unfold proc Spec.proc
      simp only [addIssue_clean _ _ _ hc, stestLoop_clean _ _ _ _ _ _ _ hc he]
      -- both bodies have the shape `(fl, specBody)`
      have key : ∀ (o : Spec.Out) (e : Out), e = (fl, o) →
          (runPosts env false "slice" (render path) sm.posts e).2 = Spec.runPosts env "slice" (render path) sm.posts o := by
        intro o e h; subst h; exact runPosts_clean _ _ _ _ _ _ hc
      apply key
      cases m <;> simp only
      · by_cases ha : isParseZero v = true
        · simp only [ha, ↓reduceIte]
          cases sm.dfltIn with
          | some xs => simp only [← sl, clean]
          | none => cases sm.required <;> rfl
        · simp only [ha, ↓reduceIte, Bool.false_eq_true]
          cases sm.coerce v with
          | none => rfl
          | some xs => simp only [← sl, clean]
      · generalize d.elems = cur
        by_cases hce : cur.isEmpty = true
        · simp only [hce, ↓reduceIte]
          cases sm.dfltD with
          | some ds => simp only [← sl, clean]
          | none => cases sm.required <;> rfl
        · simp only [hce, ↓reduceIte, Bool.false_eq_true, ← sl, clean]
  | .ptr elem zp notNil, tag, fl, path, v, d, st, he, hc => by
      have hc : fl.canCatch = false := by simpa [Schema.isPrim] using hc
      have ih := fun v d st => proc_refines env f hf m elem tag clean path v d st rfl (Or.inr rfl)
      unfold proc Spec.proc
      simp only [addIssue_clean _ _ _ hc]
      cases ptrAbsent m v d
      · simp only [Bool.false_eq_true, ↓reduceIte, ← ih, clean]
      · cases notNil <;> rfl
  | .struct fs tests posts, tag, fl, path, v, d, st, he, hc => by
      have hc : fl.canCatch = false := by simpa [Schema.isPrim] using hc
      have fl' := fun prov d st => fieldLoop_refines f hf m
        (fun k sub d st => procKey env f m fs k tag prov sub path d st)
        (fun k d st => Spec.procKey env m fs k tag prov path d st)
        (fun k d st => procKey_refines env f hf m fs k tag prov clean path d st rfl rfl)
        (orderOf (env.ω (render path)) fs.keys) clean d st
      unfold proc Spec.proc
      simp only [addIssue_clean _ _ _ hc, stestLoop_clean _ _ _ _ _ _ _ hc he]
      have key : ∀ (o : Spec.Out) (e : Out), e = (fl, o) →
          (runPosts env false "struct" (render path) posts e).2 = Spec.runPosts env "struct" (render path) posts o := by
        intro o e h; subst h; exact runPosts_clean _ _ _ _ _ _ hc
      apply key
      cases m <;> simp only
      · cases provOf v with
        | none => rfl
        | some prov => simp only [← fl', clean]
      · simp only [← fl', clean]
  | .custom c, tag, fl, path, v, d, st, he, hc => by
      have hc : fl.canCatch = false := by simpa [Schema.isPrim] using hc
      unfold proc Spec.proc
      simp only [addIssue_clean _ _ _ hc]
      cases m <;> simp only
      · cases c.accept v with
        | none => rfl
        | some x => by_cases hp : c.test.pred x = true <;> simp [hp]
      · by_cases hp : c.test.pred d = true <;> simp [hp]
  | .pre ps inner, tag, fl, path, v, d, st, he, hc => by
      have hc : fl.canCatch = false := by simpa [Schema.isPrim] using hc
      have ih := fun v d st => proc_refines env f hf m inner tag fl path v d st he (Or.inr hc)
      unfold proc Spec.proc
      simp only [addIssue_clean _ _ _ hc]
      cases m <;> simp only
      · cases ps.accept v
        · rfl
        · simp only [↓reduceIte]
          rcases hr : ps.run v with ⟨v', e⟩
          cases e with
          | none => simp only [ih]
          | some e => rfl
      · rcases hr : ps.runD d with ⟨d', e⟩
        cases e with
        | none => simp only [ih]
        | some e => rfl
theorem procKey_refines (env : Env) (f : Facts) (hf : FactsOK f) (m : Mode) :
    ∀ (fs : Fields) (key : String) (tag : Option String) (prov : Prov) (sub : Flags) (path : List String)
      (d : DVal) (st : St),
      sub.exit = false → sub.canCatch = false →
      (procKey env f m fs key tag prov sub path d st).2 = Spec.procKey env m fs key tag prov path d st
  | .nil, _, _, _, _, _, _, _, _, _ => by simp [procKey, Spec.procKey]
  | .cons k fm s rest, key, tag, prov, sub, path, d, st, he, hc => by
      unfold procKey Spec.procKey
      by_cases hk : (k == key) = true
      · have ih := fun pth v d => proc_refines env f hf m s none sub pth v d st he (Or.inr hc)
        simp only [hk, ↓reduceIte, ← ih]
        cases m <;> rfl
      · simp only [hk, ↓reduceIte, Bool.false_eq_true]
        exact procKey_refines env f hf m rest key tag prov sub path d st he hc
end

/-- **Refinement.** For every schema, mode, input, destination and visit-order oracle, the
    mechanism model with the current facts computes exactly the reference semantics. -/
theorem run_refines (env : Env) (f : Facts) (hf : FactsOK f) (m : Mode) (s : Schema) (tag : Option String)
    (v : Val) (d : DVal) : run env f m s tag v d = Spec.run env m s tag v d :=
  proc_refines env f hf m s tag clean [] v d {} rfl (Or.inr rfl)

end Engine
end Zog
