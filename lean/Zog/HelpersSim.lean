import Zog.Helpers

/-!
# Simulation: heap machine (with copying clone) ≡ pure specification, for every program and growth policy
-/

namespace Zog
namespace Helpers

structure Inv (h : Heap) : Prop where
  fresh : ∀ o ∈ h.objs, o.tests.arr < h.next
  nodup : (h.objs.map (·.tests.arr)).Nodup
  lenOK : ∀ o ∈ h.objs, o.tests.len ≤ (h.arrays o.tests.arr).length

theorem nodup_getElem_ne (l : List Nat) (h : l.Nodup) (i j : Nat) (hi : i < l.length) (hj : j < l.length)
    (hne : i ≠ j) : l[i] ≠ l[j] := by
  have hp := (List.pairwise_iff_getElem.mp (List.nodup_iff_pairwise_ne.mp h))
  rcases Nat.lt_or_gt_of_ne hne with hlt | hgt
  · exact hp i j hi hj hlt
  · exact fun e => hp j i hj hi hgt e.symm

theorem nodup_of_getElem_ne (l : List Nat) (h : ∀ i j (hi : i < l.length) (hj : j < l.length), i < j → l[i] ≠ l[j]) :
    l.Nodup := List.nodup_iff_pairwise_ne.mpr (List.pairwise_iff_getElem.mpr h)

theorem take_succ_append (xs : List Nat) (t : Nat) (ys : List Nat) :
    List.take (xs.length + 1) (xs ++ t :: ys) = xs ++ [t] := by
  rw [List.take_append]
  simp [List.take_of_length_le]

theorem upd_same (f : Nat → List Nat) (a : Nat) (v : List Nat) : upd f a v a = v := by simp [upd]
theorem upd_other (f : Nat → List Nat) (a b : Nat) (v : List Nat) (h : b ≠ a) : upd f a v b = f b := by simp [upd, h]

theorem read_alloc_new (h : Heap) (xs : List Nat) (sp : Nat) : (h.alloc xs sp).1.read (h.alloc xs sp).2 = xs := by
  simp [Heap.alloc, Heap.read, upd_same]

theorem read_alloc_old (h : Heap) (xs : List Nat) (sp : Nat) (s : Slice) (hs : s.arr < h.next) :
    (h.alloc xs sp).1.read s = h.read s := by
  simp only [Heap.alloc, Heap.read]
  rw [upd_other _ _ _ _ (by omega)]

theorem alloc_objs (h : Heap) (xs : List Nat) (sp : Nat) : (h.alloc xs sp).1.objs = h.objs := rfl
theorem alloc_next (h : Heap) (xs : List Nat) (sp : Nat) : (h.alloc xs sp).1.next = h.next + 1 := rfl
theorem alloc_slice (h : Heap) (xs : List Nat) (sp : Nat) : (h.alloc xs sp).2 = ⟨h.next, xs.length⟩ := rfl

/-- objects of the old heap read the same after an allocation -/
theorem abs_alloc (h : Heap) (hi : Inv h) (xs : List Nat) (sp : Nat) :
    (h.alloc xs sp).1.objs.map (fun o => (⟨o.fields, (h.alloc xs sp).1.read o.tests⟩ : PObj)) = h.abs := by
  unfold Heap.abs
  rw [alloc_objs]
  apply List.map_congr_left
  intro o ho
  rw [read_alloc_old h xs sp o.tests (hi.fresh o ho)]

/-- allocating a fresh array and adding an object that owns it keeps the invariant -/
theorem inv_alloc_push (h : Heap) (hi : Inv h) (xs : List Nat) (sp : Nat) (f : FieldMap) :
    Inv { (h.alloc xs sp).1 with objs := (h.alloc xs sp).1.objs ++ [⟨f, (h.alloc xs sp).2⟩] } := by
  constructor
  · intro o ho
    simp only [alloc_objs, alloc_next, List.mem_append, List.mem_singleton] at ho ⊢
    rcases ho with ho | rfl
    · have := hi.fresh o ho; omega
    · simp [alloc_slice]
  · simp only [alloc_objs, List.map_append, List.map_cons, List.map_nil, alloc_slice]
    rw [List.nodup_append]
    refine ⟨hi.nodup, by simp, ?_⟩
    intro a ha b hb
    simp only [List.mem_singleton] at hb
    subst hb
    obtain ⟨o, ho, rfl⟩ := List.mem_map.mp ha
    have := hi.fresh o ho
    omega
  · intro o ho
    simp only [alloc_objs, List.mem_append, List.mem_singleton] at ho
    rcases ho with ho | rfl
    · simp only [Heap.alloc]
      rw [upd_other _ _ _ _ (by have := hi.fresh o ho; omega)]
      exact hi.lenOK o ho
    · simp [Heap.alloc, upd_same]

theorem abs_alloc_push (h : Heap) (hi : Inv h) (xs : List Nat) (sp : Nat) (f : FieldMap) :
    Heap.abs { (h.alloc xs sp).1 with objs := (h.alloc xs sp).1.objs ++ [⟨f, (h.alloc xs sp).2⟩] } = h.abs ++ [⟨f, xs⟩] := by
  unfold Heap.abs
  simp only [List.map_append, List.map_cons, List.map_nil]
  congr 1
  · exact abs_alloc h hi xs sp
  · simp only [Heap.read, Heap.alloc, upd_same]
    simp

theorem abs_getElem? (h : Heap) (i : Nat) : h.abs[i]? = (h.objs[i]?).map (fun o => ⟨o.fields, h.read o.tests⟩) := by
  simp [Heap.abs]

/-- in-place or reallocating, `append` yields the old contents plus the new element, and leaves every
    other object's reading unchanged -/
theorem step_test (grow : Nat → Nat) (h : Heap) (hi : Inv h) (i t : Nat) (o : HObj) (ho : h.objs[i]? = some o) :
    let r := h.append grow o.tests t
    let h' : Heap := { r.1 with objs := r.1.objs.set i { o with tests := r.2 } }
    Inv h' ∧ h'.abs = h.abs.set i ⟨o.fields, h.read o.tests ++ [t]⟩ := by
  have hiLt : i < h.objs.length := by
    rcases List.getElem?_eq_some_iff.mp ho with ⟨hlt, _⟩; exact hlt
  have hoEq : h.objs[i] = o := by
    rcases List.getElem?_eq_some_iff.mp ho with ⟨_, he⟩; exact he
  have homem : o ∈ h.objs := hoEq ▸ List.getElem_mem hiLt
  -- other objects own other arrays
  have hother : ∀ j (hj : j < h.objs.length), j ≠ i → (h.objs[j]).tests.arr ≠ o.tests.arr := by
    intro j hj hne heq
    have := nodup_getElem_ne _ hi.nodup j i (by simpa using hj) (by simpa using hiLt) hne
    simp only [List.getElem_map, hoEq] at this
    exact this heq
  unfold Heap.append
  by_cases hcap : o.tests.len < (h.arrays o.tests.arr).length
  · simp only [hcap, ↓reduceIte]
    refine ⟨?_, ?_⟩
    · constructor
      · intro x hx
        rcases List.mem_or_eq_of_mem_set hx with hx | rfl
        · exact hi.fresh x hx
        · exact hi.fresh o homem
      · simp only [List.map_set]
        have : (h.objs.map (·.tests.arr)).set i o.tests.arr = h.objs.map (·.tests.arr) := by
          apply List.ext_getElem (by simp)
          intro n h1 h2
          by_cases hn : i = n
          · subst hn; simp [hoEq]
          · simp [List.getElem_set_ne hn]
        simp only [this]
        exact hi.nodup
      · intro x hx
        rcases List.mem_or_eq_of_mem_set hx with hx | rfl
        · by_cases ha : x.tests.arr = o.tests.arr
          · simp only [ha, upd_same, List.length_set]
            rw [← ha]; exact hi.lenOK x hx
          · simp only [upd_other _ _ _ _ ha]; exact hi.lenOK x hx
        · simp only [upd_same, List.length_set]; omega
    · unfold Heap.abs
      simp only [List.map_set]
      apply List.ext_getElem (by simp)
      intro n h1 h2
      by_cases hn : i = n
      · subst hn
        simp only [List.getElem_set_self, Heap.read, upd_same]
        congr 1
        rw [List.take_succ, List.take_set_of_le (by omega)]
        simp [List.getElem?_set_self hcap]
      · simp only [List.getElem_set_ne hn, List.getElem_map, Heap.read]
        have hn' : n < h.objs.length := by simpa using h1
        rw [upd_other _ _ _ _ (hother n hn' (Ne.symm hn))]
  · simp only [hcap, ↓reduceIte]
    have hlen : o.tests.len = (h.arrays o.tests.arr).length := by
      have := hi.lenOK o homem; omega
    refine ⟨?_, ?_⟩
    · constructor
      · intro x hx
        simp only [alloc_objs, alloc_next] at hx ⊢
        rcases List.mem_or_eq_of_mem_set hx with hx | rfl
        · have := hi.fresh x hx; omega
        · simp [alloc_slice]
      · simp only [alloc_objs, List.map_set, alloc_slice]
        -- replacing one id by a fresh one keeps the ids distinct
        apply nodup_of_getElem_ne
        intro a b ha hb hab heq
        simp only [List.length_set, List.length_map] at ha hb
        simp only [List.getElem_set, List.getElem_map] at heq
        by_cases hai : i = a
        · have hbi : i ≠ b := by omega
          rw [if_pos hai, if_neg hbi] at heq
          have := hi.fresh _ (List.getElem_mem hb); omega
        · by_cases hbi : i = b
          · rw [if_neg hai, if_pos hbi] at heq
            have := hi.fresh _ (List.getElem_mem ha); omega
          · rw [if_neg hai, if_neg hbi] at heq
            have := nodup_getElem_ne _ hi.nodup a b (by simpa using ha) (by simpa using hb) (by omega)
            simp only [List.getElem_map] at this
            exact this heq
      · intro x hx
        simp only [alloc_objs] at hx
        rcases List.mem_or_eq_of_mem_set hx with hx | rfl
        · simp only [Heap.alloc]
          rw [upd_other _ _ _ _ (by have := hi.fresh x hx; omega)]
          exact hi.lenOK x hx
        · simp [Heap.alloc, upd_same]
    · unfold Heap.abs
      simp only [alloc_objs, List.map_set]
      apply List.ext_getElem (by simp)
      intro n h1 h2
      by_cases hn : i = n
      · subst hn
        simp only [List.getElem_set_self]
        congr 1
        simp only [Heap.read, Heap.alloc, upd_same, List.length_append, List.length_cons, List.length_nil, List.append_assoc,
          List.singleton_append]
        exact take_succ_append _ _ _
      · simp only [List.getElem_set_ne hn, List.getElem_map]
        have hn' : n < h.objs.length := by simpa using h1
        congr 1
        exact read_alloc_old h _ _ _ (hi.fresh _ (List.getElem_mem hn'))

/-- **One step.** With a copying clone, every operation of the heap machine is the pure operation,
    and the ownership invariant is kept — for every growth policy. -/
theorem step_sim (grow : Nat → Nat) (h : Heap) (hi : Inv h) (op : Op) :
    Inv (h.step true grow op) ∧ (h.step true grow op).abs = Pure.step h.abs op := by
  cases op with
  | mk f =>
    simp only [Heap.step, Pure.step]
    exact ⟨inv_alloc_push h hi [] 0 f, abs_alloc_push h hi [] 0 f⟩
  | test i t =>
    simp only [Heap.step, Pure.step, abs_getElem?]
    cases ho : h.objs[i]? with
    | none => exact ⟨hi, rfl⟩
    | some o => simpa using step_test grow h hi i t o ho
  | pick i keys =>
    simp only [Heap.step, Pure.step, abs_getElem?, Heap.clone, ↓reduceIte]
    cases ho : h.objs[i]? with
    | none => exact ⟨hi, rfl⟩
    | some o => exact ⟨inv_alloc_push h hi _ _ _, by simpa using abs_alloc_push h hi _ _ _⟩
  | omitKeys i keys =>
    simp only [Heap.step, Pure.step, abs_getElem?, Heap.clone, ↓reduceIte]
    cases ho : h.objs[i]? with
    | none => exact ⟨hi, rfl⟩
    | some o => exact ⟨inv_alloc_push h hi _ _ _, by simpa using abs_alloc_push h hi _ _ _⟩
  | extend i f =>
    simp only [Heap.step, Pure.step, abs_getElem?, Heap.clone, ↓reduceIte]
    cases ho : h.objs[i]? with
    | none => exact ⟨hi, rfl⟩
    | some o => exact ⟨inv_alloc_push h hi _ _ _, by simpa using abs_alloc_push h hi _ _ _⟩
  | merge a b =>
    simp only [Heap.step, Pure.step, abs_getElem?]
    cases ha : h.objs[a]? with
    | none => exact ⟨hi, rfl⟩
    | some x =>
      cases hb : h.objs[b]? with
      | none => exact ⟨hi, rfl⟩
      | some y => exact ⟨inv_alloc_push h hi _ _ _, by simpa using abs_alloc_push h hi _ _ _⟩

theorem inv_init : Inv Heap.init := ⟨by simp [Heap.init], by simp [Heap.init], by simp [Heap.init]⟩

theorem run_sim_aux (grow : Nat → Nat) (ops : List Op) :
    ∀ (h : Heap), Inv h → Inv (ops.foldl (Heap.step true grow) h) ∧
      (ops.foldl (Heap.step true grow) h).abs = ops.foldl Pure.step h.abs := by
  induction ops with
  | nil => intro h hi; exact ⟨hi, rfl⟩
  | cons op rest ih =>
    intro h hi
    obtain ⟨hi', ha⟩ := step_sim grow h hi op
    have := ih (h.step true grow op) hi'
    simpa [ha] using this

end Helpers
end Zog
