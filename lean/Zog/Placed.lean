import Zog.Valid
import Zog.Agree

/-!
# What a clean Parse leaves in the destination, at every depth  (C03)

`Placed s tag v d out` says — without mentioning paths, issues, states or visit order — what the
destination `out` must be after a successful Parse of input `v` into the destination `d`:
leaves hold the coercion of the input at the corresponding key or index (or the Default of an
absent leaf, or the node's Catch value), slices have the input's length and order, absent optional
nodes are untouched (nil pointers stay nil), present pointers are allocated, and struct fields the
schema does not name are not written.  `placed_of_clean` proves it for every PostTransform-free,
well-formed schema by mutual structural recursion.
-/

namespace Zog

def DVal.has (d : DVal) (g : String) : Bool :=
  match d with
  | .struct fs => (lookupD fs g).isSome
  | _ => false

theorem lookupD_setD_self (fs : List (String × DVal)) (g : String) (c : DVal) :
    lookupD (setD fs g c) g = if (lookupD fs g).isSome then some c else none := by
  induction fs with
  | nil => rfl
  | cons p rest ih =>
    obtain ⟨pk, pv⟩ := p
    by_cases h : (pk == g) = true
    · simp [setD, lookupD, h]
    · simp [setD, lookupD, h, ih]

theorem DVal.get_set_self (d : DVal) (g : String) (c : DVal) :
    (d.set g c).get g = if d.has g then c else d.get g := by
  cases d <;> simp only [DVal.set, DVal.get, DVal.has, Bool.false_eq_true, ↓reduceIte]
  rename_i fs
  rw [lookupD_setD_self]
  by_cases h : (lookupD fs g).isSome = true
  · simp [h]
  · have hn : lookupD fs g = none := by simpa using h
    simp [hn]

theorem lookupD_setD_isSome (fs : List (String × DVal)) (g g' : String) (c : DVal) :
    (lookupD (setD fs g' c) g).isSome = (lookupD fs g).isSome := by
  induction fs with
  | nil => rfl
  | cons p rest ih =>
    obtain ⟨pk, pv⟩ := p
    by_cases h : (pk == g') = true
    · by_cases h2 : (pk == g) = true <;> simp [setD, lookupD, h, h2]
    · by_cases h2 : (pk == g) = true <;> simp [setD, lookupD, h, h2, ih]

theorem DVal.has_set (d : DVal) (g g' : String) (c : DVal) : (d.set g' c).has g = d.has g := by
  cases d <;> simp only [DVal.set, DVal.has]
  exact lookupD_setD_isSome _ _ _ _

namespace Spec
open Engine (Prov)

/-- a primitive leaf after a clean Parse -/
def PrimPlaced (p : Prim) (v : Val) (d out : DVal) : Prop :=
  p.ctch = some out ∨
  (isParseZero v = true ∧ (p.dflt = some out ∨ (p.dflt = none ∧ p.required = none ∧ out = d))) ∨
  (isParseZero v = false ∧ p.coerce v = some out)

mutual
def Placed : Schema → Option String → Val → DVal → DVal → Prop
  | .prim p, _, v, d, out => PrimPlaced p v d out
  | .custom c, _, v, _, out => c.accept v = some out
  | .ptr elem zp nn, tag, v, d, out =>
      if isParseZero v then out = d ∧ nn = none
      else ∃ o, out = .ptr (some o) ∧ Placed elem tag v (d.pointee zp) o
  | .pre ps inner, tag, v, d, out =>
      ps.accept v = true ∧ ∃ v', ps.run v = (v', none) ∧ Placed inner tag v' d out
  | .slice elem sm, _, v, d, out =>
      match sliceSrc .parse sm v d with
      | .skipped => out = d
      | .failed => False
      | .items ins _ =>
        ∃ outs, out = .slice outs ∧ outs.length = ins.length ∧ ∀ x ∈ ins.zip outs, Placed elem none x.1 sm.zeroElem x.2
  | .struct fs _ _, tag, v, d, out =>
      ∃ prov, Engine.provOf v = some prov ∧ (∀ n, n ∉ fs.goNames → out.get n = d.get n) ∧
        (∀ n, out.has n = d.has n) ∧ PlacedFields tag prov d out fs
def PlacedFields (tag : Option String) (prov : Prov) (d out : DVal) : Fields → Prop
  | .nil => True
  | .cons k fm s rest =>
      (∃ c, Placed s none (prov.get (prov.keyFor tag fm k)) (d.get fm.goName) c ∧
            out.get fm.goName = if d.has fm.goName then c else d.get fm.goName) ∧
      PlacedFields tag prov d out rest
end

/-! ## leaves -/

theorem tested_dest_cases (env : Env) (dt ps : String) (ctch : Option DVal) (tests : List Test) (x : DVal) (st : St) :
    (tested env dt ps ctch tests x st).1 = x ∨ ctch = some (tested env dt ps ctch tests x st).1 := by
  unfold tested
  cases ctch with
  | none => left; rfl
  | some c =>
    simp only [testCatch_dest]
    by_cases h : tests.all (fun t => t.pred x) = true
    · left; simp [h]
    · right; simp [h]

theorem primBody_placed (env : Env) (p : Prim) (path : List String) (v : Val) (d : DVal) (st : St)
    (h : (primBody env .parse p path v d st).2.sink = st.sink) :
    PrimPlaced p v d (primBody env .parse p path v d st).1 := by
  unfold primBody at *
  unfold PrimPlaced
  cases hab : isParseZero v
  · simp only [Engine.primAbsent, hab, Bool.false_eq_true, ↓reduceIte] at h ⊢
    cases hco : p.coerce v with
    | none =>
      simp only [hco] at h ⊢
      cases hc : p.ctch with
      | some c => left; simp [hc]
      | none => simp [hc, emit] at h
    | some x =>
      simp only [hco] at h ⊢
      rcases tested_dest_cases env p.kind.dtype (render path) p.ctch p.tests x st with h1 | h1
      · right; right; exact ⟨trivial, by rw [h1]⟩
      · left; exact h1
  · simp only [Engine.primAbsent, hab, ↓reduceIte] at h ⊢
    cases hd : p.dflt with
    | some x =>
      simp only [hd] at h ⊢
      rcases tested_dest_cases env p.kind.dtype (render path) p.ctch p.tests x st with h1 | h1
      · right; left; exact ⟨trivial, Or.inl (by rw [h1])⟩
      · left; exact h1
    | none =>
      simp only [hd] at h ⊢
      cases hr : p.required with
      | none => right; left; refine ⟨trivial, Or.inr ⟨?_, ?_, ?_⟩⟩ <;> first | rfl | trivial
      | some r =>
        simp only [hr] at h ⊢
        cases hc : p.ctch with
        | some c => left; simp [hc]
        | none => simp [hc, emit] at h

/-! ## the destination of a slice loop -/

theorem sliceLoop_dest (child : Child) (path : List String) (hc : ∀ p v d, Local (fun st => child p v d st)) :
    ∀ (xs : List (Val × DVal × Nat)) (acc : List DVal),
      (sliceLoop child path xs acc {}).1 =
        acc ++ xs.map (fun x => (child (path ++ ["[" ++ toString x.2.2 ++ "]"]) x.1 x.2.1 {}).1)
  | [], acc => by simp [sliceLoop]
  | x :: rest, acc => by
    rw [sliceLoop_cons_local child path hc]
    simp only [List.map_cons]
    rw [sliceLoop_dest child path hc rest _]
    simp [List.append_assoc]

theorem zipIdx3_map_length (f : Val × DVal × Nat → DVal) (z : DVal) :
    ∀ (ins : List Val) (i : Nat), ((Engine.zipIdx3 ins (ins.map (fun _ => z)) i).map f).length = ins.length
  | [], _ => by simp [Engine.zipIdx3]
  | x :: xs, i => by simp [Engine.zipIdx3, zipIdx3_map_length f z xs (i + 1)]

theorem zip_zipIdx3 (f : Val × DVal × Nat → DVal) (z : DVal) :
    ∀ (ins : List Val) (i : Nat) (x : Val × DVal), x ∈ ins.zip ((Engine.zipIdx3 ins (ins.map (fun _ => z)) i).map f) →
      ∃ y ∈ Engine.zipIdx3 ins (ins.map (fun _ => z)) i, y.1 = x.1 ∧ y.2.1 = z ∧ x.2 = f y
  | [], _, x, h => by simp at h
  | a :: xs, i, x, h => by
    simp only [List.map_cons, Engine.zipIdx3, List.zip_cons_cons, List.mem_cons] at h
    rcases h with rfl | h
    · exact ⟨(a, z, i), by simp [Engine.zipIdx3], rfl, rfl, rfl⟩
    · obtain ⟨y, hy, h1, h2, h3⟩ := zip_zipIdx3 f z xs (i + 1) x h
      exact ⟨y, by simp [Engine.zipIdx3, hy], h1, h2, h3⟩

/-! ## the destination of a field loop -/

/-- destination after visiting `ks` in order, each step taken from the empty state -/
def destLoop (env : Env) (m : Mode) (fs : Fields) (tag : Option String) (prov : Prov) (path : List String) :
    List String → DVal → DVal
  | [], d => d
  | k :: ks, d => destLoop env m fs tag prov path ks (fieldStep env m fs tag prov path k d).1

theorem fieldLoop_dest (env : Env) (m : Mode) (fs : Fields) (tag : Option String) (prov : Prov) (path : List String)
    (hl : ∀ k d, Local (fun st => procKey env m fs k tag prov path d st)) :
    ∀ (ks : List String) (d : DVal),
      (fieldLoop (fun k d st => procKey env m fs k tag prov path d st) ks d {}).1 = destLoop env m fs tag prov path ks d
  | [], _ => rfl
  | k :: ks, d => by
    rw [fieldLoop_cons _ hl]
    simp only [procKey_eq_fieldStep, destLoop]
    exact fieldLoop_dest env m fs tag prov path hl ks _

theorem fieldStep_get_other (env : Env) (m : Mode) (fs : Fields) (tag : Option String) (prov : Prov) (path : List String)
    (k : String) (d : DVal) (n : String)
    (hn : ∀ k' fm s, fs.find k = some (k', fm, s) → fm.goName ≠ n) :
    (fieldStep env m fs tag prov path k d).1.get n = d.get n := by
  unfold fieldStep
  cases hf : fs.find k with
  | none => rfl
  | some found =>
    obtain ⟨k', fm, s⟩ := found
    simp only
    exact DVal.get_set_other _ _ _ _ (fun e => hn k' fm s hf e.symm)

theorem fieldStep_has (env : Env) (m : Mode) (fs : Fields) (tag : Option String) (prov : Prov) (path : List String)
    (k : String) (d : DVal) (n : String) : (fieldStep env m fs tag prov path k d).1.has n = d.has n := by
  unfold fieldStep
  cases hf : fs.find k with
  | none => rfl
  | some found =>
    obtain ⟨k', fm, s⟩ := found
    simp only
    exact DVal.has_set _ _ _ _

theorem destLoop_get_other (env : Env) (m : Mode) (fs : Fields) (tag : Option String) (prov : Prov) (path : List String) (n : String) :
    ∀ (ks : List String) (d : DVal), (∀ k ∈ ks, ∀ k' fm s, fs.find k = some (k', fm, s) → fm.goName ≠ n) →
      (destLoop env m fs tag prov path ks d).get n = d.get n
  | [], _, _ => rfl
  | k :: ks, d, h => by
    simp only [destLoop]
    rw [destLoop_get_other env m fs tag prov path n ks _ (fun k2 hk2 => h k2 (by simp [hk2]))]
    exact fieldStep_get_other env m fs tag prov path k d n (h k (by simp))

theorem destLoop_has (env : Env) (m : Mode) (fs : Fields) (tag : Option String) (prov : Prov) (path : List String) (n : String) :
    ∀ (ks : List String) (d : DVal), (destLoop env m fs tag prov path ks d).has n = d.has n
  | [], _ => rfl
  | k :: ks, d => by
    simp only [destLoop]
    rw [destLoop_has env m fs tag prov path n ks _, fieldStep_has]

/-- what a visited field holds at the end: the child's output computed on the ORIGINAL destination -/
theorem destLoop_get_own (env : Env) (m : Mode) (fs : Fields) (tag : Option String) (prov : Prov) (path : List String)
    (hinj : fs.GoNamesInj) (k k' : String) (fm : FieldMeta) (s : Schema) (hf : fs.find k = some (k', fm, s)) :
    ∀ (ks : List String) (d : DVal), ks.Nodup → k ∈ ks →
      (destLoop env m fs tag prov path ks d).get fm.goName =
        (fieldStep env m fs tag prov path k d).1.get fm.goName
  | [], _, _, h => by simp at h
  | a :: ks, d, hnd, hk => by
    simp only [List.nodup_cons] at hnd
    simp only [destLoop]
    by_cases hak : a = k
    · subst hak
      apply destLoop_get_other
      intro k2 hk2 k2' fm2 s2 hf2
      have hne : k2 ≠ a := fun e => hnd.1 (e ▸ hk2)
      exact hinj k2 a k2' fm2 s2 k' fm s hf2 hf hne
    · have hk' : k ∈ ks := by
        simp only [List.mem_cons] at hk
        rcases hk with rfl | hk
        · exact absurd rfl hak
        · exact hk
      rw [destLoop_get_own env m fs tag prov path hinj k k' fm s hf ks _ hnd.2 hk']
      -- the step for `a` does not touch `k`'s Go field, so `k`'s step sees the same input
      have hother : ∀ a' fma sa, fs.find a = some (a', fma, sa) → fma.goName ≠ fm.goName :=
        fun a' fma sa hfa => hinj a k a' fma sa k' fm s hfa hf hak
      have hget := fieldStep_get_other env m fs tag prov path a d fm.goName hother
      have hhas := fieldStep_has env m fs tag prov path a d fm.goName
      unfold fieldStep
      simp only [hf]
      rw [DVal.get_set_self, DVal.get_set_self]
      unfold fieldStep at hget hhas
      rw [hget, hhas]

theorem find_goName_mem : ∀ (fs : Fields) (key k : String) (fm : FieldMeta) (s : Schema), fs.find key = some (k, fm, s) →
    fm.goName ∈ fs.goNames
  | .nil, _, _, _, _, h => by simp [Fields.find] at h
  | .cons k' fm' s' rest, key, k, fm, s, h => by
    simp only [Fields.find] at h
    simp only [Fields.goNames, List.mem_cons]
    by_cases hk : (k' == key) = true
    · simp only [hk, ↓reduceIte, Option.some.injEq, Prod.mk.injEq] at h
      obtain ⟨_, rfl, _⟩ := h
      exact Or.inl rfl
    · simp only [hk, Bool.false_eq_true, ↓reduceIte] at h
      exact Or.inr (find_goName_mem rest key k fm s h)

/-- `PlacedFields` from a statement about every field found through its key -/
theorem placedFields_of_found (tag : Option String) (prov : Prov) (d out : DVal) (fs : Fields)
    (hall : ∀ k fm s, fs.find k = some (k, fm, s) →
      ∃ c, Placed s none (prov.get (prov.keyFor tag fm k)) (d.get fm.goName) c ∧
           out.get fm.goName = if d.has fm.goName then c else d.get fm.goName) :
    ∀ (pre rest : Fields), fs = pre.append rest → (pre.keys ++ rest.keys).Nodup → PlacedFields tag prov d out rest
  | _, .nil, _, _ => by simp [PlacedFields]
  | pre, .cons k fm s rest, hfs, hnd => by
    simp only [PlacedFields]
    have hk : k ∉ pre.keys := by
      simp only [Fields.keys] at hnd
      have := (List.nodup_append.mp hnd).2.2
      intro hmem
      exact this k hmem k List.mem_cons_self rfl
    have hfind : fs.find k = some (k, fm, s) := by rw [hfs]; exact find_of_split pre k fm s rest hk
    refine ⟨hall k fm s hfind, placedFields_of_found tag prov d out fs hall (snoc pre k fm s) rest ?_ ?_⟩
    · rw [hfs, snoc_append]
    · rw [snoc_keys]; simpa [Fields.keys, List.append_assoc] using hnd

theorem find_key_eq : ∀ (fs : Fields) (key k : String) (fm : FieldMeta) (s : Schema), fs.find key = some (k, fm, s) → k = key
  | .nil, _, _, _, _, h => by simp [Fields.find] at h
  | .cons k' fm' s' rest, key, k, fm, s, h => by
    simp only [Fields.find] at h
    by_cases hk : (k' == key) = true
    · simp only [hk, ↓reduceIte, Option.some.injEq, Prod.mk.injEq] at h
      obtain ⟨rfl, _, _⟩ := h
      simpa using hk
    · simp only [hk, Bool.false_eq_true, ↓reduceIte] at h
      exact find_key_eq rest key k fm s h

theorem find_mem_keys : ∀ (fs : Fields) (key k : String) (fm : FieldMeta) (s : Schema), fs.find key = some (k, fm, s) → key ∈ fs.keys
  | .nil, _, _, _, _, h => by simp [Fields.find] at h
  | .cons k' fm' s' rest, key, k, fm, s, h => by
    simp only [Fields.find] at h
    simp only [Fields.keys, List.mem_cons]
    by_cases hk : (k' == key) = true
    · left; exact (by simpa using hk : k' = key).symm
    · simp only [hk, Bool.false_eq_true, ↓reduceIte] at h
      exact Or.inr (find_mem_keys rest key k fm s h)

/-! ## the theorem -/

mutual
/-- **C03 at every depth.**  For a PostTransform-free, well-formed schema: if Parse records no
    issue, the destination is `Placed`. -/
theorem placed_of_clean (env : Env) :
    ∀ (s : Schema), s.postFree = true → s.WF → ∀ (tag : Option String) (path : List String) (v : Val) (d : DVal),
      (proc env .parse s tag path v d {}).2.sink = [] → Placed s tag v d (proc env .parse s tag path v d {}).1
  | .prim p, hp, _, tag, path, v, d, h => by
    have hp' : p.posts = [] := by simpa [Schema.postFree] using hp
    simp only [proc, prim, hp', runPosts_nil] at h ⊢
    simp only [Placed]
    exact primBody_placed env p path v d {} h
  | .custom c, _, _, tag, path, v, d, h => by
    unfold proc at h ⊢
    simp only [Placed]
    simp only at h ⊢
    cases hc : c.accept v with
    | none => simp [hc, emit] at h
    | some x =>
      simp only [hc] at h ⊢
      by_cases hp : c.test.pred x = true
      · simp [hp]
      · simp [hp]
  | .ptr elem zp nn, hp, hw, tag, path, v, d, h => by
    simp only [Schema.postFree] at hp
    simp only [Schema.WF] at hw
    unfold proc at h ⊢
    simp only [Placed]
    cases ha : isParseZero v
    · simp only [Engine.ptrAbsent, ha, Bool.false_eq_true, ↓reduceIte] at h ⊢
      exact ⟨_, rfl, placed_of_clean env elem hp hw tag path v (d.pointee zp) h⟩
    · simp only [Engine.ptrAbsent, ha, ↓reduceIte] at h ⊢
      cases nn with
      | none => exact ⟨rfl, rfl⟩
      | some t => simp [emit] at h
  | .slice elem sm, hp, hw, tag, path, v, d, h => by
    simp only [Schema.postFree, Bool.and_eq_true, List.isEmpty_iff] at hp
    simp only [Schema.WF] at hw
    have l := fun p v d => proc_local env .parse elem hp.2 none p v d
    have items : ∀ (ins : List Val),
        (testAll env "slice" (render path) sm.tests
          (DVal.slice (sliceLoop (proc env .parse elem none) path (Engine.zipIdx3 ins (ins.map (fun _ => sm.zeroElem)) 0) [] {}).1)
          (sliceLoop (proc env .parse elem none) path (Engine.zipIdx3 ins (ins.map (fun _ => sm.zeroElem)) 0) [] {}).2).sink = [] →
        ∃ outs, DVal.slice (sliceLoop (proc env .parse elem none) path (Engine.zipIdx3 ins (ins.map (fun _ => sm.zeroElem)) 0) [] {}).1 = .slice outs ∧
          outs.length = ins.length ∧ ∀ x ∈ ins.zip outs, Placed elem none x.1 sm.zeroElem x.2 := by
      intro ins hs
      rw [testAll_local] at hs
      obtain ⟨h1, _⟩ := app_sink_nil hs
      have hclean := sliceLoop_clean _ path l _ [] h1
      rw [sliceLoop_dest _ path l]
      refine ⟨_, rfl, ?_, ?_⟩
      · simp only [List.nil_append]
        exact zipIdx3_map_length _ sm.zeroElem ins 0
      · intro x hx
        simp only [List.nil_append] at hx
        obtain ⟨y, hy, e1, e2, e3⟩ := zip_zipIdx3 _ sm.zeroElem ins 0 x hx
        have := placed_of_clean env elem hp.2 hw none (path ++ ["[" ++ toString y.2.2 ++ "]"]) y.1 y.2.1 (hclean y hy)
        rw [e3, ← e1, ← e2]
        exact this
    unfold proc at h ⊢
    simp only [hp.1, runPosts_nil] at h ⊢
    simp only [Placed, sliceSrc]
    by_cases ha : isParseZero v = true
    · simp only [ha, ↓reduceIte] at h ⊢
      cases hdf : sm.dfltIn with
      | some xs =>
        simp only [hdf] at h ⊢
        exact items xs h
      | none =>
        simp only [hdf] at h ⊢
        cases hr : sm.required with
        | none => simp
        | some r => simp [hr, emit] at h
    · simp only [ha, Bool.false_eq_true, ↓reduceIte] at h ⊢
      cases hco : sm.coerce v with
      | none => simp [hco, emit] at h
      | some xs =>
        simp only [hco] at h ⊢
        exact items xs h
  | .struct fs tests posts, hp, hw, tag, path, v, d, h => by
    simp only [Schema.postFree, Bool.and_eq_true, List.isEmpty_iff] at hp
    simp only [Schema.WF] at hw
    obtain ⟨hkeys, hinj, hwf⟩ := hw
    unfold proc at h ⊢
    simp only [hp.1, runPosts_nil] at h ⊢
    simp only [Placed]
    cases hpv : Engine.provOf v with
    | none => simp [hpv, emit] at h
    | some prov =>
      simp only [hpv] at h ⊢
      rw [testAll_local] at h
      obtain ⟨h1, _⟩ := app_sink_nil h
      have hl := fun k d => procKey_local env .parse fs hp.2 k tag prov path d
      have hperm := orderOf_perm (env.ω (render path)) fs.keys
      have hnd := hperm.nodup_iff.mpr hkeys
      have hclean := fieldLoop_clean env .parse fs tag prov path hinj hl d _ d hnd (fun _ _ => rfl) h1
      rw [fieldLoop_dest env .parse fs tag prov path hl]
      refine ⟨prov, rfl, ?_, ?_, ?_⟩
      · intro n hn
        apply destLoop_get_other
        intro k _ k' fm s hf e
        exact hn (e ▸ find_goName_mem fs k k' fm s hf)
      · intro n; exact destLoop_has env .parse fs tag prov path n _ d
      · refine placedFields_of_found tag prov d _ fs ?_ .nil fs rfl (by simpa [Fields.keys] using hkeys)
        intro k fm s hf
        have hk : k ∈ Engine.orderOf (env.ω (render path)) fs.keys := hperm.mem_iff.mpr (find_mem_keys fs k k fm s hf)
        have hc := hclean k hk
        rw [destLoop_get_own env .parse fs tag prov path hinj k k fm s hf _ d hnd hk]
        unfold fieldStep at hc ⊢
        simp only [hf] at hc ⊢
        refine ⟨_, placedFound_of_clean env fs hp.2 hwf k k fm s hf _ _ _ hc, ?_⟩
        exact DVal.get_set_self _ _ _
  | .pre ps inner, hp, hw, tag, path, v, d, h => by
    simp only [Schema.postFree] at hp
    simp only [Schema.WF] at hw
    have loc : ∀ v d s, proc env .parse inner tag path v d s =
        ((proc env .parse inner tag path v d {}).1, s.app (proc env .parse inner tag path v d {}).2) :=
      fun v d => proc_local env .parse inner hp tag path v d
    unfold proc at h ⊢
    simp only [Placed]
    simp only at h ⊢
    cases ha : ps.accept v
    · simp [ha, emit] at h
    · simp only [ha, ↓reduceIte] at h ⊢
      rcases hr : ps.run v with ⟨v', e⟩
      cases e with
      | none =>
        simp only [hr] at h ⊢
        rw [loc] at h ⊢
        refine ⟨trivial, v', rfl, placed_of_clean env inner hp hw tag path v' d ?_⟩
        simpa [St.app] using h
      | some e => simp [hr, emit] at h
theorem placedFound_of_clean (env : Env) :
    ∀ (fs : Fields), fs.postFree = true → fs.WF → ∀ (key k : String) (fm : FieldMeta) (s : Schema), fs.find key = some (k, fm, s) →
      ∀ (path : List String) (v : Val) (d : DVal),
      (proc env .parse s none path v d {}).2.sink = [] → Placed s none v d (proc env .parse s none path v d {}).1
  | .nil, _, _, _, _, _, _, h => by simp [Fields.find] at h
  | .cons k' fm' s' rest, hp, hw, key, k, fm, s, h => by
    simp only [Fields.find] at h
    simp only [Fields.postFree, Bool.and_eq_true] at hp
    simp only [Fields.WF] at hw
    by_cases hk : (k' == key) = true
    · simp only [hk, ↓reduceIte, Option.some.injEq, Prod.mk.injEq] at h
      obtain ⟨_, _, rfl⟩ := h
      exact placed_of_clean env s' hp.1 hw.1 none
    · simp only [hk, Bool.false_eq_true, ↓reduceIte] at h
      exact placedFound_of_clean env rest hp.2 hw.2 key k fm s h
end

end Spec
end Zog
