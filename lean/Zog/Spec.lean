import Zog.Engine

/-!
# Spec — the reference semantics

The same traversal as `Engine`, with **no flags**: a node's contribution depends on that node,
its own input and destination, and (for PostTransform gating only) on whether any issue exists so
far.  There is no shared child context, so nothing a sibling did can leak.
`Zog.Refine` proves `Engine.run facts = Spec.run` whenever `FactsOK facts`.
-/

namespace Zog
namespace Spec

abbrev Out := DVal × St

def emit (st : St) (i : Issue) : St := { st with sink := st.sink ++ [i] }

def logIf (c : Bool) (st : St) (e : Event) : St :=
  if c then { st with log := st.log ++ [e] } else st

/-- a non-catching node runs every test and reports every failure -/
def testAll (env : Env) (dtype path : String) : List Test → DVal → St → St
  | [], _, st => st
  | t :: ts, x, st =>
    let st1 := logIf t.cb st ⟨.test, t.id, path, x⟩
    let st2 := if t.pred x then st1 else emit st1 (issueOfTest env path dtype t)
    testAll env dtype path ts x st2

/-- a catching node runs tests up to the first failure, reports nothing, and then holds `c` -/
def testCatch (path : String) (c : DVal) : List Test → DVal → St → Out
  | [], x, st => (x, st)
  | t :: ts, x, st =>
    let st1 := logIf t.cb st ⟨.test, t.id, path, x⟩
    if t.pred x then testCatch path c ts x st1 else (c, st1)

def tested (env : Env) (dtype path : String) (ctch : Option DVal) (tests : List Test) (x : DVal) (st : St) : Out :=
  match ctch with
  | some c => testCatch path c tests x st
  | none => (x, testAll env dtype path tests x st)

/-- PostTransforms in declaration order; the first error stops the rest and is reported -/
def postLoop (env : Env) (dtype path : String) : List Post → DVal → St → Out
  | [], x, st => (x, st)
  | p :: ps, x, st =>
    let st1 : St := { st with log := st.log ++ [⟨.post, p.id, path, x⟩] }
    match p.run x with
    | (x', none) => postLoop env dtype path ps x' st1
    | (x', some e) => (x', emit st1 (issueOfPostErr env path dtype e))

/-- only when no issue exists in this execution -/
def runPosts (env : Env) (dtype path : String) (posts : List Post) (o : Out) : Out :=
  if o.2.sink.isEmpty then postLoop env dtype path posts o.1 o.2 else o

/-- the primitive pipeline up to (not including) PostTransforms:
    absent → Default (then tested) > Required (one issue, or the catch value) > skipped;
    present → coerced (Parse) then tested; a catching node never emits an issue -/
def primBody (env : Env) (m : Mode) (p : Prim) (path : List String) (v : Val) (d : DVal) (st : St) : Out :=
  let ps := render path
  let dt := p.kind.dtype
  if Engine.primAbsent m v d then
    match p.dflt with
    | some x => tested env dt ps p.ctch p.tests x st
    | none =>
      match p.required with
      | none => (d, st)
      | some r =>
        match p.ctch with
        | some c => (c, st)
        | none => (d, emit st (issueOfTest env ps dt r))
  else
    match m with
    | .validate => tested env dt ps p.ctch p.tests d st
    | .parse =>
      match p.coerce v with
      | none =>
        match p.ctch with
        | some c => (c, st)
        | none => (d, emit st (coerceIssue env ps dt))
      | some x => tested env dt ps p.ctch p.tests x st

def prim (env : Env) (m : Mode) (p : Prim) (path : List String) (v : Val) (d : DVal) (st : St) : Out :=
  runPosts env p.kind.dtype (render path) p.posts (primBody env m p path v d st)

abbrev Child := List String → Val → DVal → St → Out

def sliceLoop (child : Child) (path : List String) :
    List (Val × DVal × Nat) → List DVal → St → List DVal × St
  | [], ds, st => (ds, st)
  | x :: rest, ds, st =>
    let c := child (path ++ ["[" ++ toString x.2.2 ++ "]"]) x.1 x.2.1 st
    sliceLoop child path rest (ds ++ [c.1]) c.2

def fieldLoop (step : String → DVal → St → Out) : List String → DVal → St → Out
  | [], d, st => (d, st)
  | k :: ks, d, st =>
    let c := step k d st
    fieldLoop step ks c.1 c.2

open Engine (Prov provOf orderOf keyFor zipIdx3)

mutual
def proc (env : Env) (m : Mode) : Schema → Option String → Child
  | .prim p, _, path, v, d, st => prim env m p path v d st
  | .slice elem sm, _, path, v, d, st =>
    let ps := render path
    let body : Out :=
      let src : Sum Out (List Val × List DVal) :=
        match m with
        | .parse =>
          if isParseZero v then
            match sm.dfltIn with
            | some xs => .inr (xs, xs.map (fun _ => sm.zeroElem))
            | none =>
              match sm.required with
              | none => .inl (d, st)
              | some r => .inl (d, emit st (issueOfTest env ps "slice" r))
          else
            match sm.coerce v with
            | none => .inl (d, emit st (coerceIssue env ps "slice"))
            | some xs => .inr (xs, xs.map (fun _ => sm.zeroElem))
        | .validate =>
          let cur := d.elems
          if cur.isEmpty then
            match sm.dfltD with
            | some ds => .inr (ds.map (fun _ => Val.nil), ds)
            | none =>
              match sm.required with
              | none => .inl (d, st)
              | some r => .inl (d, emit st (issueOfTest env ps "slice" r))
          else .inr (cur.map (fun _ => Val.nil), cur)
      match src with
      | .inl o => o
      | .inr (ins, ds) =>
        let r := sliceLoop (proc env m elem none) path (zipIdx3 ins ds 0) [] st
        let dest := DVal.slice r.1
        (dest, testAll env "slice" ps sm.tests dest r.2)
    runPosts env "slice" ps sm.posts body
  | .ptr elem zp notNil, tag, path, v, d, st =>
    if Engine.ptrAbsent m v d then
      match notNil with
      | some t => (d, emit st (issueOfTest env (render path) elem.dtype t))
      | none => (d, st)
    else
      let inner := d.pointee zp
      let c := proc env m elem tag path v inner st
      (.ptr (some c.1), c.2)
  | .struct fs tests posts, tag, path, v, d, st =>
    let ps := render path
    let fields (prov : Prov) : Out :=
      let r := fieldLoop (fun k d st => procKey env m fs k tag prov path d st)
                 (orderOf (env.ω ps) fs.keys) d st
      (r.1, testAll env "struct" ps tests r.1 r.2)
    let body : Out :=
      match m with
      | .validate => fields .empty
      | .parse =>
        match provOf v with
        | none => (d, emit st (coerceIssue env ps "struct"))
        | some prov => fields prov
    runPosts env "struct" ps posts body
  | .custom c, _, path, v, d, st =>
    let ps := render path
    let run (x : DVal) : Out :=
      let st1 : St := { st with log := st.log ++ [⟨.custom, c.test.id, ps, x⟩] }
      if c.test.pred x then (x, st1) else (x, emit st1 (issueOfTest env ps "custom" c.test))
    match m with
    | .validate => run d
    | .parse =>
      match c.accept v with
      | none => (d, emit st (coerceIssue env ps "custom"))
      | some x => run x
  | .pre ps inner, tag, path, v, d, st =>
    let p := render path
    match m with
    | .parse =>
      if ps.accept v then
        let st1 : St := { st with log := st.log ++ [⟨.pre, ps.id, p, .custom v⟩] }
        match ps.run v with
        | (_, some e) => (d, emit st1 (issueOfPostErr env p inner.dtype e))
        | (v', none) => proc env m inner tag path v' d st1
      else (d, emit st (coerceIssue env p inner.dtype))
    | .validate =>
      let st1 : St := { st with log := st.log ++ [⟨.pre, ps.id, p, d⟩] }
      match ps.runD d with
      | (_, some msg) => (d, emit st1 (preErrIssue env p inner.dtype msg))
      | (d', none) => proc env m inner tag path v d' st1
def procKey (env : Env) (m : Mode) :
    Fields → String → Option String → Prov → List String → DVal → St → Out
  | .nil, _, _, _, _, d, st => (d, st)
  | .cons k fm s rest, key, tag, prov, path, d, st =>
    if k == key then
      let fieldKey := match m with
        | .parse => prov.keyFor tag fm k
        | .validate => keyFor none fm k
      let sv := match m with
        | .parse => prov.get fieldKey
        | .validate => Val.nil
      let c := proc env m s none (path ++ [fieldKey]) sv (d.get fm.goName) st
      (d.set fm.goName c.1, c.2)
    else procKey env m rest key tag prov path d st
end

def run (env : Env) (m : Mode) (s : Schema) (tag : Option String) (v : Val) (d : DVal) : DVal × St :=
  proc env m s tag [] v d {}

end Spec
end Zog
