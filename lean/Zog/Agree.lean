import Zog.Order

/-!
# Parse / Validate agreement on the whole tree  (C13)

`Pres s v d d0`: the input `v` is the map presentation of the fully populated value `d` for the
schema `s`, and `d0` is the fresh destination Parse starts from.  `agree` proves, by mutual
structural recursion over the schema, that parsing `v` into `d0` and validating `d` in place
produce the *same* destination, the *same* issue list and the *same* callback log — at every
depth, with tests, Default/Catch, PostTransforms and struct/slice level tests included.
-/

namespace Zog

def Fields.goNames : Fields → List String
  | .nil => []
  | .cons _ fm _ rest => fm.goName :: rest.goNames

namespace Spec
open Engine (Prov)

mutual
/-- `v` presents the populated value `d` (Parse starts from `d0`) -/
def Pres : Schema → Val → DVal → DVal → Prop
  | .prim p, v, d, _ => isParseZero v = false ∧ isZeroD d = false ∧ p.coerce v = some d
  | .slice elem sm, v, d, _ =>
      isParseZero v = false ∧ ∃ xs ds, sm.coerce v = some xs ∧ d = .slice ds ∧ ds ≠ [] ∧ xs.length = ds.length ∧
        ∀ p ∈ xs.zip ds, Pres elem p.1 p.2 sm.zeroElem
  | .ptr elem zp _, v, d, d0 => isParseZero v = false ∧ ∃ x, d = .ptr (some x) ∧ Pres elem v x (d0.pointee zp)
  | .struct fs _ _, v, d, d0 =>
      ∃ kvs fsd fs0, v = .obj kvs ∧ kvs ≠ [] ∧ d = .struct fsd ∧ d0 = .struct fs0 ∧
        fs0.map Prod.fst = fsd.map Prod.fst ∧ (fsd.map Prod.fst).Nodup ∧ (∀ n ∈ fsd.map Prod.fst, n ∈ fs.goNames) ∧
        PresFields fs kvs d d0
  | .custom c, v, d, _ => c.accept v = some d
  /- a Preprocess function is written for ONE mode (Parse: `F` is the input's type; Validate: `F` is a
     pointer to the destination), so a Preprocess node is outside "the same schema in both modes" -/
  | .pre _ _, _, _, _ => False
def PresFields : Fields → List (String × Val) → DVal → DVal → Prop
  | .nil, _, _, _ => True
  | .cons k fm s rest, kvs, d, d0 =>
      Pres s ((lookupD kvs (Engine.keyFor none fm k)).getD .nil) (d.get fm.goName) (d0.get fm.goName) ∧
      PresFields rest kvs d d0
end

theorem presFields_find (kvs : List (String × Val)) (d d0 : DVal) :
    ∀ (fs : Fields) (key k : String) (fm : FieldMeta) (s : Schema), PresFields fs kvs d d0 → fs.find key = some (k, fm, s) →
      Pres s ((lookupD kvs (Engine.keyFor none fm k)).getD .nil) (d.get fm.goName) (d0.get fm.goName)
  | .nil, _, _, _, _, _, h => by simp [Fields.find] at h
  | .cons k' fm' s' rest, key, k, fm, s, hp, h => by
    simp only [Fields.find] at h
    simp only [PresFields] at hp
    by_cases hk : (k' == key) = true
    · simp only [hk, ↓reduceIte, Option.some.injEq, Prod.mk.injEq] at h
      obtain ⟨rfl, rfl, rfl⟩ := h
      exact hp.1
    · simp only [hk, Bool.false_eq_true, ↓reduceIte] at h
      exact presFields_find kvs d d0 rest key k fm s hp.2 h

/-! ## one field visit, with the state threaded -/

def fieldStepSt (env : Env) (m : Mode) (fs : Fields) (tag : Option String) (prov : Prov) (path : List String)
    (key : String) (d : DVal) (st : St) : Out :=
  match fs.find key with
  | none => (d, st)
  | some (k, fm, s) =>
    let fieldKey := match m with
      | .parse => prov.keyFor tag fm k
      | .validate => Engine.keyFor none fm k
    let sv := match m with
      | .parse => prov.get fieldKey
      | .validate => Val.nil
    let c := proc env m s none (path ++ [fieldKey]) sv (d.get fm.goName) st
    (d.set fm.goName c.1, c.2)

theorem procKey_eq_fieldStepSt (env : Env) (m : Mode) (tag : Option String) (prov : Prov) (path : List String) (key : String) (d : DVal) (st : St) :
    ∀ fs : Fields, procKey env m fs key tag prov path d st = fieldStepSt env m fs tag prov path key d st
  | .nil => by simp [procKey, fieldStepSt, Fields.find]
  | .cons k fm s rest => by
    unfold procKey
    by_cases hk : (k == key) = true
    · simp only [hk, ↓reduceIte, fieldStepSt, Fields.find]
      cases m <;> rfl
    · have := procKey_eq_fieldStepSt env m tag prov path key d st rest
      simp only [hk, Bool.false_eq_true, ↓reduceIte, this, fieldStepSt, Fields.find]

/-! ## the two destinations during the field loop -/

/-- same field names position by position; equal values on the fields already visited -/
inductive Rel (done : List String) : List (String × DVal) → List (String × DVal) → Prop
  | nil : Rel done [] []
  | cons {a b : String × DVal} {fp fv : List (String × DVal)} :
      (a.1 = b.1 ∧ (a.1 ∈ done → a.2 = b.2)) → Rel done fp fv → Rel done (a :: fp) (b :: fv)

theorem rel_init : ∀ (fp fv : List (String × DVal)), fp.map Prod.fst = fv.map Prod.fst → Rel [] fp fv
  | [], [], _ => Rel.nil
  | [], _ :: _, h => by simp at h
  | _ :: _, [], h => by simp at h
  | a :: fp, b :: fv, h => by
    simp only [List.map_cons, List.cons.injEq] at h
    exact Rel.cons ⟨h.1, fun hm => by simp at hm⟩ (rel_init fp fv h.2)

theorem rel_names {done : List String} {fp fv : List (String × DVal)} (h : Rel done fp fv) :
    fp.map Prod.fst = fv.map Prod.fst := by
  induction h with
  | nil => rfl
  | cons hab _ ih => simp [hab.1, ih]

theorem rel_add_absent {done : List String} {fp fv : List (String × DVal)} (g : String) (h : Rel done fp fv)
    (hg : g ∉ fv.map Prod.fst) : Rel (g :: done) fp fv := by
  induction h with
  | nil => exact Rel.nil
  | @cons a b fp' fv' hab _ ih =>
    simp only [List.map_cons, List.mem_cons, not_or] at hg
    refine Rel.cons ⟨hab.1, fun hm => ?_⟩ (ih hg.2)
    simp only [List.mem_cons] at hm
    rcases hm with hm | hm
    · exact absurd (hab.1 ▸ hm).symm hg.1
    · exact hab.2 hm

theorem rel_set {done : List String} {fp fv : List (String × DVal)} (g : String) (c : DVal) (h : Rel done fp fv)
    (hn : (fv.map Prod.fst).Nodup) : Rel (g :: done) (setD fp g c) (setD fv g c) := by
  induction h with
  | nil => exact Rel.nil
  | @cons a b fp' fv' hab htl ih =>
    obtain ⟨ak, av⟩ := a
    obtain ⟨bk, bv⟩ := b
    have hk : ak = bk := hab.1
    subst hk
    simp only [List.map_cons, List.nodup_cons] at hn
    by_cases hg : (ak == g) = true
    · have e : ak = g := by simpa using hg
      simp only [setD, hg, ↓reduceIte]
      refine Rel.cons ⟨rfl, fun _ => rfl⟩ (rel_add_absent g htl ?_)
      rw [← e]; exact hn.1
    · have e : ak ≠ g := by simpa using hg
      simp only [setD, hg, Bool.false_eq_true, ↓reduceIte]
      refine Rel.cons ⟨rfl, fun hm => ?_⟩ (ih hn.2)
      simp only [List.mem_cons] at hm
      rcases hm with hm | hm
      · exact absurd hm e
      · exact hab.2 hm

theorem rel_final {done : List String} {fp fv : List (String × DVal)} (h : Rel done fp fv)
    (hall : ∀ n ∈ fv.map Prod.fst, n ∈ done) : fp = fv := by
  induction h with
  | nil => rfl
  | @cons a b fp' fv' hab _ ih =>
    obtain ⟨ak, av⟩ := a
    obtain ⟨bk, bv⟩ := b
    have hk : ak = bk := hab.1
    subst hk
    have hv : av = bv := hab.2 (hall ak (by simp))
    subst hv
    rw [ih (fun n hn => hall n (by simp [hn]))]

theorem setD_names (fs : List (String × DVal)) (k : String) (x : DVal) : (setD fs k x).map Prod.fst = fs.map Prod.fst := by
  induction fs with
  | nil => rfl
  | cons p rest ih =>
    obtain ⟨pk, pv⟩ := p
    by_cases h : (pk == k) = true
    · simp [setD, h]
    · simp [setD, h, ih]

/-- loop invariant relating the Parse destination `dp` and the Validate destination `dv` -/
def Inv (D D0 : DVal) (done : List String) (dp dv : DVal) : Prop :=
  ∃ fp fv, dp = .struct fp ∧ dv = .struct fv ∧ Rel done fp fv ∧ (fv.map Prod.fst).Nodup ∧
    (∀ fd, D = .struct fd → fv.map Prod.fst = fd.map Prod.fst) ∧
    ∀ n, n ∉ done → dp.get n = D0.get n ∧ dv.get n = D.get n

theorem inv_set {D D0 : DVal} {done : List String} {dp dv : DVal} (g : String) (c : DVal) (h : Inv D D0 done dp dv) :
    Inv D D0 (g :: done) (dp.set g c) (dv.set g c) := by
  obtain ⟨fp, fv, rfl, rfl, hrel, hnd, hnm, hget⟩ := h
  refine ⟨setD fp g c, setD fv g c, rfl, rfl, rel_set g c hrel hnd, by rw [setD_names]; exact hnd,
    fun fd e => by rw [setD_names]; exact hnm fd e, ?_⟩
  intro n hn
  simp only [List.mem_cons, not_or] at hn
  have := hget n hn.2
  have e1 := DVal.get_set_other (.struct fp) n g c hn.1
  have e2 := DVal.get_set_other (.struct fv) n g c hn.1
  rw [e1, e2]
  exact this

/-- the field loop keeps the two destinations in step and produces the same state -/
theorem fieldLoop_agree (env : Env) (fs : Fields) (kvs : List (String × Val)) (path : List String) (D D0 : DVal)
    (hinj : fs.GoNamesInj)
    (hag : ∀ key k fm s, fs.find key = some (k, fm, s) → ∀ st,
      proc env .parse s none (path ++ [Engine.keyFor none fm k]) ((lookupD kvs (Engine.keyFor none fm k)).getD .nil) (D0.get fm.goName) st =
      proc env .validate s none (path ++ [Engine.keyFor none fm k]) .nil (D.get fm.goName) st) :
    ∀ (ks : List String) (done : List String) (dp dv : DVal) (st : St), ks.Nodup →
      (∀ k ∈ ks, ∀ k' fm s, fs.find k = some (k', fm, s) → fm.goName ∉ done) →
      Inv D D0 done dp dv →
      ∃ dp' dv' st' done',
        fieldLoop (fun k d st => procKey env .parse fs k none (.map kvs) path d st) ks dp st = (dp', st') ∧
        fieldLoop (fun k d st => procKey env .validate fs k none .empty path d st) ks dv st = (dv', st') ∧
        Inv D D0 done' dp' dv' ∧
        (∀ k ∈ ks, ∀ k' fm s, fs.find k = some (k', fm, s) → fm.goName ∈ done') ∧ (∀ n ∈ done, n ∈ done')
  | [], done, dp, dv, st, _, _, hinv => ⟨dp, dv, st, done, rfl, rfl, hinv, by simp, fun _ h => h⟩
  | k :: ks, done, dp, dv, st, hnd, hfresh, hinv => by
    simp only [List.nodup_cons] at hnd
    simp only [fieldLoop, procKey_eq_fieldStepSt]
    cases hf : fs.find k with
    | none =>
      simp only [fieldStepSt, hf]
      obtain ⟨dp', dv', st', done', h1, h2, h3, h4, h5⟩ :=
        fieldLoop_agree env fs kvs path D D0 hinj hag ks done dp dv st hnd.2
          (fun k2 hk2 => hfresh k2 (by simp [hk2])) hinv
      simp only [procKey_eq_fieldStepSt] at h1 h2
      refine ⟨dp', dv', st', done', h1, h2, h3, ?_, h5⟩
      intro k2 hk2 k' fm s hfind
      simp only [List.mem_cons] at hk2
      rcases hk2 with rfl | hk2
      · rw [hf] at hfind; cases hfind
      · exact h4 k2 hk2 k' fm s hfind
    | some found =>
      obtain ⟨k', fm, s⟩ := found
      have hg : fm.goName ∉ done := hfresh k (by simp) k' fm s hf
      obtain ⟨fp, fv, edp, edv, hrel, hndn, hnm, hget⟩ := hinv
      have hgp := (hget fm.goName hg).1
      have hgv := (hget fm.goName hg).2
      have hchild := hag k k' fm s hf st
      simp only [fieldStepSt, hf]
      have ekey : (Prov.map kvs).keyFor none fm k' = Engine.keyFor none fm k' := rfl
      have eget : (Prov.map kvs).get (Engine.keyFor none fm k') = (lookupD kvs (Engine.keyFor none fm k')).getD .nil := rfl
      simp only [ekey, eget, hgp, hgv, hchild]
      have hinv' := inv_set (D := D) (D0 := D0) fm.goName
        (proc env .validate s none (path ++ [Engine.keyFor none fm k']) .nil (D.get fm.goName) st).1
        ⟨fp, fv, edp, edv, hrel, hndn, hnm, hget⟩
      obtain ⟨dp', dv', st', done', h1, h2, h3, h4, h5⟩ :=
        fieldLoop_agree env fs kvs path D D0 hinj hag ks (fm.goName :: done) _ _
          (proc env .validate s none (path ++ [Engine.keyFor none fm k']) .nil (D.get fm.goName) st).2 hnd.2
          (by
            intro k2 hk2 k2' fm2 s2 hf2
            simp only [List.mem_cons, not_or]
            refine ⟨?_, hfresh k2 (by simp [hk2]) k2' fm2 s2 hf2⟩
            have hne : k2 ≠ k := fun e => hnd.1 (e ▸ hk2)
            exact hinj k2 k k2' fm2 s2 k' fm s hf2 hf hne)
          hinv'
      simp only [procKey_eq_fieldStepSt] at h1 h2
      refine ⟨dp', dv', st', done', h1, h2, h3, ?_, fun n hn => h5 n (by simp [hn])⟩
      intro k2 hk2 k2' fm2 s2 hf2
      simp only [List.mem_cons] at hk2
      rcases hk2 with rfl | hk2
      · rw [hf] at hf2
        simp only [Option.some.injEq, Prod.mk.injEq] at hf2
        obtain ⟨_, rfl, _⟩ := hf2
        exact h5 _ (by simp)
      · exact h4 k2 hk2 k2' fm2 s2 hf2

/-- every Go field a struct schema names is reached through one of its keys -/
theorem goNames_find : ∀ (fs : Fields) (n : String), fs.keys.Nodup → n ∈ fs.goNames →
    ∃ key k fm s, key ∈ fs.keys ∧ fs.find key = some (k, fm, s) ∧ fm.goName = n
  | .nil, _, _, h => by simp [Fields.goNames] at h
  | .cons k fm s rest, n, hnd, h => by
    simp only [Fields.keys, List.nodup_cons] at hnd
    simp only [Fields.goNames, List.mem_cons] at h
    rcases h with rfl | h
    · exact ⟨k, k, fm, s, by simp [Fields.keys], by simp [Fields.find], rfl⟩
    · obtain ⟨key, k2, fm2, s2, hk, hf, hg⟩ := goNames_find rest n hnd.2 h
      have hne : (k == key) = false := by
        have : k ≠ key := fun e => hnd.1 (e ▸ hk)
        simpa using this
      exact ⟨key, k2, fm2, s2, by simp [Fields.keys, hk], by simp [Fields.find, hne, hf], hg⟩

/-! ## slices -/

theorem sliceLoop_agree (c₁ c₂ : Child) (path : List String) :
    ∀ (xs : List Val) (ds : List DVal) (z : DVal) (i : Nat) (acc : List DVal) (st : St), xs.length = ds.length →
      (∀ p ∈ xs.zip ds, ∀ pa st, c₁ pa p.1 z st = c₂ pa .nil p.2 st) →
      sliceLoop c₁ path (Engine.zipIdx3 xs (xs.map (fun _ => z)) i) acc st =
      sliceLoop c₂ path (Engine.zipIdx3 (ds.map (fun _ => Val.nil)) ds i) acc st
  | [], [], _, _, _, _, _, _ => by simp [Engine.zipIdx3, sliceLoop]
  | [], _ :: _, _, _, _, _, h, _ => by simp at h
  | _ :: _, [], _, _, _, _, h, _ => by simp at h
  | x :: xs, d :: ds, z, i, acc, st, hl, hc => by
    simp only [List.map_cons, Engine.zipIdx3, sliceLoop]
    have h0 := hc (x, d) (by simp) (path ++ ["[" ++ toString i ++ "]"]) st
    simp only at h0
    rw [h0]
    exact sliceLoop_agree c₁ c₂ path xs ds z (i + 1) _ _ (by simpa using hl)
      (fun p hp => hc p (by simp only [List.zip_cons_cons, List.mem_cons]; exact Or.inr hp))

/-! ## the theorem -/

mutual
/-- **Parse / Validate agreement** at every depth -/
theorem agree (env : Env) : ∀ (s : Schema), s.WF → ∀ (v v' : Val) (d d0 : DVal) (path : List String) (st : St),
    Pres s v d d0 → proc env .parse s none path v d0 st = proc env .validate s none path v' d st
  | .prim p, _, v, v', d, d0, path, st, h => by
    simp only [Pres] at h
    obtain ⟨h1, h2, h3⟩ := h
    simp only [proc, prim, primBody, Engine.primAbsent, h1, h2, h3, Bool.false_eq_true, ↓reduceIte]
  | .custom c, _, v, v', d, d0, path, st, h => by
    simp only [Pres] at h
    unfold proc
    simp only [h]
  | .pre ps inner, _, v, v', d, d0, path, st, h => by
    simp only [Pres] at h
  | .ptr elem zp nn, hw, v, v', d, d0, path, st, h => by
    simp only [Pres] at h
    simp only [Schema.WF] at hw
    obtain ⟨h1, x, rfl, hx⟩ := h
    unfold proc
    simp only [Engine.ptrAbsent, h1, DVal.isNilPtr, Bool.false_eq_true, ↓reduceIte]
    have e : (DVal.ptr (some x)).pointee zp = x := rfl
    rw [e, agree env elem hw v v' x (d0.pointee zp) path st hx]
  | .slice elem sm, hw, v, v', d, d0, path, st, h => by
    simp only [Pres] at h
    simp only [Schema.WF] at hw
    obtain ⟨h1, xs, ds, hco, rfl, hne, hlen, hall⟩ := h
    have hemp : (DVal.slice ds).elems.isEmpty = false := by
      cases ds with
      | nil => exact absurd rfl hne
      | cons _ _ => rfl
    have hloop := sliceLoop_agree (proc env .parse elem none) (proc env .validate elem none) path xs ds sm.zeroElem 0 [] st hlen
      (fun p hp pa st' => agree env elem hw p.1 .nil p.2 sm.zeroElem pa st' (hall p hp))
    unfold proc
    simp only [h1, hco, hemp, Bool.false_eq_true, ↓reduceIte]
    have e : (DVal.slice ds).elems = ds := rfl
    rw [e, hloop]
  | .struct fs tests posts, hw, v, v', d, d0, path, st, h => by
    simp only [Pres] at h
    simp only [Schema.WF] at hw
    obtain ⟨kvs, fsd, fs0, rfl, hkv, rfl, rfl, hnames, hnd, hcover, hpf⟩ := h
    have hprov : Engine.provOf (.obj kvs) = some (.map kvs) := by
      cases kvs with
      | nil => exact absurd rfl hkv
      | cons _ _ => rfl
    have hag : ∀ key k fm s, fs.find key = some (k, fm, s) → ∀ st,
        proc env .parse s none (path ++ [Engine.keyFor none fm k]) ((lookupD kvs (Engine.keyFor none fm k)).getD .nil) ((DVal.struct fs0).get fm.goName) st =
        proc env .validate s none (path ++ [Engine.keyFor none fm k]) .nil ((DVal.struct fsd).get fm.goName) st :=
      fun key k fm s hf st' => agreeFields env fs hw.2.2 key k fm s hf _ _ _ _ _ st'
        (presFields_find kvs _ _ fs key k fm s hpf hf)
    have hks : (Engine.orderOf (env.ω (render path)) fs.keys).Nodup :=
      (orderOf_perm _ _).nodup_iff.mpr hw.1
    obtain ⟨dp', dv', st', done', e1, e2, hinv, hdone, _⟩ :=
      fieldLoop_agree env fs kvs path (.struct fsd) (.struct fs0) hw.2.1 hag
        (Engine.orderOf (env.ω (render path)) fs.keys) [] (.struct fs0) (.struct fsd) st hks
        (fun _ _ _ _ _ _ => by simp)
        ⟨fs0, fsd, rfl, rfl, rel_init fs0 fsd hnames, hnd, fun fd e => by cases e; rfl, fun n _ => ⟨rfl, rfl⟩⟩
    have heq : dp' = dv' := by
      obtain ⟨fp, fv, rfl, rfl, hrel, _, hnm, _⟩ := hinv
      have hn2 : fv.map Prod.fst = fsd.map Prod.fst := hnm fsd rfl
      rw [rel_final hrel]
      intro n hn
      rw [hn2] at hn
      obtain ⟨key, k, fm, s, hk, hf, hg⟩ := goNames_find fs n hw.1 (hcover n hn)
      have hmem : key ∈ Engine.orderOf (env.ω (render path)) fs.keys := (orderOf_perm _ _).mem_iff.mpr hk
      exact hg ▸ hdone key hmem k fm s hf
    unfold proc
    simp only [hprov, e1, e2, heq]
theorem agreeFields (env : Env) : ∀ (fs : Fields), fs.WF → ∀ (key k : String) (fm : FieldMeta) (s : Schema), fs.find key = some (k, fm, s) →
    ∀ (v v' : Val) (d d0 : DVal) (path : List String) (st : St),
    Pres s v d d0 → proc env .parse s none path v d0 st = proc env .validate s none path v' d st
  | .nil, _, _, _, _, _, h => by simp [Fields.find] at h
  | .cons k' fm' s' rest, hw, key, k, fm, s, h => by
    simp only [Fields.find] at h
    simp only [Fields.WF] at hw
    by_cases hk : (k' == key) = true
    · simp only [hk, ↓reduceIte, Option.some.injEq, Prod.mk.injEq] at h
      obtain ⟨_, _, rfl⟩ := h
      exact agree env s' hw.1
    · simp only [hk, Bool.false_eq_true, ↓reduceIte] at h
      exact agreeFields env rest hw.2 key k fm s h
end

end Spec
end Zog
