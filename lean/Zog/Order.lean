import Zog.Local

/-!
# Order independence of PostTransform-free schemas (helper for C09)
For a schema without PostTransforms whose struct fields map to distinct Go fields, the result of an
execution does not depend on the field visit oracle: same destination, same issues and the same
callback events up to order.
-/

namespace Zog

/-- same issues and same events, in possibly different order -/
def StEq (a b : St) : Prop := a.sink.Perm b.sink ∧ a.log.Perm b.log

theorem StEq.refl (a : St) : StEq a a := ⟨List.Perm.refl _, List.Perm.refl _⟩
theorem StEq.trans {a b c : St} (h1 : StEq a b) (h2 : StEq b c) : StEq a c := ⟨h1.1.trans h2.1, h1.2.trans h2.2⟩
theorem StEq.symm {a b : St} (h : StEq a b) : StEq b a := ⟨h.1.symm, h.2.symm⟩
theorem StEq.app {a b c d : St} (h1 : StEq a b) (h2 : StEq c d) : StEq (a.app c) (b.app d) :=
  ⟨List.Perm.append h1.1 h2.1, List.Perm.append h1.2 h2.2⟩
theorem StEq.app_comm (a b : St) : StEq (a.app b) (b.app a) := ⟨List.perm_append_comm, List.perm_append_comm⟩

def OutEq (o₁ o₂ : Spec.Out) : Prop := o₁.1 = o₂.1 ∧ StEq o₁.2 o₂.2

theorem OutEq.refl (o : Spec.Out) : OutEq o o := ⟨rfl, StEq.refl _⟩
theorem OutEq.trans {a b c : Spec.Out} (h1 : OutEq a b) (h2 : OutEq b c) : OutEq a c := ⟨h1.1.trans h2.1, h1.2.trans h2.2⟩

/-! ## destination updates on different Go fields commute -/

theorem setD_comm (fs : List (String × DVal)) (a b : String) (x y : DVal) (h : a ≠ b) :
    setD (setD fs a x) b y = setD (setD fs b y) a x := by
  induction fs with
  | nil => rfl
  | cons p rest ih =>
    obtain ⟨k, v⟩ := p
    by_cases ha : (k == a) = true
    · have hka : k = a := by simpa using ha
      have hb : (k == b) = false := by simp [hka, h]
      simp [setD, ha, hb]
    · by_cases hb : (k == b) = true
      · simp [setD, ha, hb]
      · simp [setD, ha, hb, ih]

theorem DVal.set_comm (d : DVal) (a b : String) (x y : DVal) (h : a ≠ b) :
    (d.set a x).set b y = (d.set b y).set a x := by
  cases d <;> simp [DVal.set, setD_comm _ _ _ _ _ h]

theorem lookupD_setD_other (fs : List (String × DVal)) (k k' : String) (x : DVal) (h : k ≠ k') :
    lookupD (setD fs k' x) k = lookupD fs k := by
  induction fs with
  | nil => rfl
  | cons p rest ih =>
    obtain ⟨pk, pv⟩ := p
    by_cases h1 : (pk == k') = true
    · have e1 : pk = k' := by simpa using h1
      have hk : (pk == k) = false := by simp [e1, Ne.symm h]
      simp [setD, h1, lookupD, hk]
    · simp [setD, h1, lookupD, ih]

theorem DVal.get_set_other (d : DVal) (k k' : String) (x : DVal) (h : k ≠ k') : (d.set k' x).get k = d.get k := by
  cases d <;> simp [DVal.set, DVal.get, lookupD_setD_other _ _ _ _ h]

/-! ## the field found for a key -/

def Fields.find : Fields → String → Option (String × FieldMeta × Schema)
  | .nil, _ => none
  | .cons k fm s rest, key => if k == key then some (k, fm, s) else rest.find key

/-- distinct schema keys address distinct Go fields -/
def Fields.GoNamesInj (fs : Fields) : Prop :=
  ∀ a b ka fma sa kb fmb sb, fs.find a = some (ka, fma, sa) → fs.find b = some (kb, fmb, sb) → a ≠ b → fma.goName ≠ fmb.goName

mutual
def Schema.WF : Schema → Prop
  | .prim _ => True
  | .slice elem _ => elem.WF
  | .ptr elem _ _ => elem.WF
  | .pre _ inner => inner.WF
  | .struct fs _ _ => fs.keys.Nodup ∧ fs.GoNamesInj ∧ fs.WF
  | .custom _ => True
def Fields.WF : Fields → Prop
  | .nil => True
  | .cons _ _ s rest => s.WF ∧ rest.WF
end

namespace Spec
open Engine (Prov)

/-- what visiting field `key` does to the destination struct and which issues / events it adds -/
def fieldStep (env : Env) (m : Mode) (fs : Fields) (tag : Option String) (prov : Prov) (path : List String)
    (key : String) (d : DVal) : Out :=
  match fs.find key with
  | none => (d, {})
  | some (k, fm, s) =>
    let fieldKey := match m with
      | .parse => prov.keyFor tag fm k
      | .validate => Engine.keyFor none fm k
    let sv := match m with
      | .parse => prov.get fieldKey
      | .validate => Val.nil
    let c := proc env m s none (path ++ [fieldKey]) sv (d.get fm.goName) {}
    (d.set fm.goName c.1, c.2)

theorem procKey_eq_fieldStep (env : Env) (m : Mode) (tag : Option String) (prov : Prov) (path : List String) (key : String) (d : DVal) :
    ∀ fs : Fields, procKey env m fs key tag prov path d {} = fieldStep env m fs tag prov path key d
  | .nil => by simp [procKey, fieldStep, Fields.find]
  | .cons k fm s rest => by
    unfold procKey
    by_cases hk : (k == key) = true
    · simp only [hk, ↓reduceIte, fieldStep, Fields.find]
      cases m <;> rfl
    · have := procKey_eq_fieldStep env m tag prov path key d rest
      simp only [hk, Bool.false_eq_true, ↓reduceIte, this, fieldStep, Fields.find]

theorem Fields.find_wf : ∀ (fs : Fields) (key k : String) (fm : FieldMeta) (s : Schema), fs.WF → fs.find key = some (k, fm, s) → s.WF
  | .nil, _, _, _, _, _, h => by simp [Fields.find] at h
  | .cons k' fm' s' rest, key, k, fm, s, hw, h => by
    simp only [Fields.find] at h
    simp only [Fields.WF] at hw
    by_cases hk : (k' == key) = true
    · simp only [hk, ↓reduceIte, Option.some.injEq, Prod.mk.injEq] at h
      obtain ⟨_, _, rfl⟩ := h
      exact hw.1
    · simp only [hk, Bool.false_eq_true, ↓reduceIte] at h
      exact Fields.find_wf rest key k fm s hw.2 h

theorem Fields.find_postFree : ∀ (fs : Fields) (key k : String) (fm : FieldMeta) (s : Schema), fs.postFree = true → fs.find key = some (k, fm, s) → s.postFree = true
  | .nil, _, _, _, _, _, h => by simp [Fields.find] at h
  | .cons k' fm' s' rest, key, k, fm, s, hw, h => by
    simp only [Fields.find] at h
    simp only [Fields.postFree, Bool.and_eq_true] at hw
    by_cases hk : (k' == key) = true
    · simp only [hk, ↓reduceIte, Option.some.injEq, Prod.mk.injEq] at h
      obtain ⟨_, _, rfl⟩ := h
      exact hw.1
    · simp only [hk, Bool.false_eq_true, ↓reduceIte] at h
      exact Fields.find_postFree rest key k fm s hw.2 h

/-- a fold of local steps, in terms of what each step contributes from the empty state -/
theorem fieldLoop_cons (step : String → DVal → St → Out) (hs : ∀ k d, Local (fun st => step k d st))
    (k : String) (ks : List String) (d : DVal) :
    fieldLoop step (k :: ks) d {} =
      ((fieldLoop step ks (step k d {}).1 {}).1, (step k d {}).2.app (fieldLoop step ks (step k d {}).1 {}).2) := by
  show fieldLoop step ks (step k d {}).1 (step k d {}).2 = _
  rw [fieldLoop_local step hs ks _ _]

/-- same key list, pointwise equivalent steps ⇒ equivalent folds -/
theorem fieldLoop_congr (s₁ s₂ : String → DVal → St → Out)
    (h1 : ∀ k d, Local (fun st => s₁ k d st)) (h2 : ∀ k d, Local (fun st => s₂ k d st))
    (he : ∀ k d, OutEq (s₁ k d {}) (s₂ k d {})) :
    ∀ (ks : List String) (d : DVal), OutEq (fieldLoop s₁ ks d {}) (fieldLoop s₂ ks d {})
  | [], d => OutEq.refl _
  | k :: ks, d => by
    rw [fieldLoop_cons s₁ h1, fieldLoop_cons s₂ h2]
    obtain ⟨hd, hst⟩ := he k d
    have ih := fieldLoop_congr s₁ s₂ h1 h2 he ks (s₁ k d {}).1
    rw [← hd]
    exact ⟨ih.1, StEq.app hst ih.2⟩

/-- steps that commute (on the destination) and whose contributions do not depend on each other's
    updates: a permutation of the key list gives an equivalent fold -/
theorem fieldLoop_perm (step : String → DVal → St → Out) (hs : ∀ k d, Local (fun st => step k d st))
    (hcomm : ∀ a b d, a ≠ b →
      (step b (step a d {}).1 {}).1 = (step a (step b d {}).1 {}).1 ∧
      (step b (step a d {}).1 {}).2 = (step b d {}).2)
    {ks₁ ks₂ : List String} (hp : ks₁.Perm ks₂) : ∀ d, OutEq (fieldLoop step ks₁ d {}) (fieldLoop step ks₂ d {}) := by
  induction hp with
  | nil => intro d; exact OutEq.refl _
  | cons k _ ih =>
    intro d
    rw [fieldLoop_cons step hs, fieldLoop_cons step hs]
    have := ih (step k d {}).1
    exact ⟨this.1, StEq.app (StEq.refl _) this.2⟩
  | swap a b l =>
    intro d
    by_cases hab : a = b
    · subst hab; exact OutEq.refl _
    · rw [fieldLoop_cons step hs, fieldLoop_cons step hs, fieldLoop_cons step hs, fieldLoop_cons step hs]
      have c1 := hcomm b a d (Ne.symm hab)
      have c2 := hcomm a b d hab
      simp only
      rw [c1.1, c1.2, c2.2]
      refine ⟨rfl, ?_⟩
      -- (cb ++ (ca ++ R)) ~ (ca ++ (cb ++ R))
      constructor
      · simp only [St.app_sink]
        rw [← List.append_assoc, ← List.append_assoc]
        exact List.Perm.append_right _ List.perm_append_comm
      · simp only [St.app_log]
        rw [← List.append_assoc, ← List.append_assoc]
        exact List.Perm.append_right _ List.perm_append_comm
  | trans _ _ ih1 ih2 => intro d; exact (ih1 d).trans (ih2 d)

theorem sliceLoop_cons_local (child : Child) (path : List String) (hc : ∀ p v d, Local (fun st => child p v d st))
    (x : Val × DVal × Nat) (rest : List (Val × DVal × Nat)) (ds : List DVal) :
    sliceLoop child path (x :: rest) ds {} =
      let c := child (path ++ ["[" ++ toString x.2.2 ++ "]"]) x.1 x.2.1 {}
      ((sliceLoop child path rest (ds ++ [c.1]) {}).1, c.2.app (sliceLoop child path rest (ds ++ [c.1]) {}).2) := by
  show sliceLoop child path rest _ _ = _
  rw [sliceLoop_local child path hc rest _ _]

theorem sliceLoop_congr (c₁ c₂ : Child) (path : List String)
    (h1 : ∀ p v d, Local (fun st => c₁ p v d st)) (h2 : ∀ p v d, Local (fun st => c₂ p v d st))
    (he : ∀ p v d, OutEq (c₁ p v d {}) (c₂ p v d {})) :
    ∀ (xs : List (Val × DVal × Nat)) (ds : List DVal),
      (sliceLoop c₁ path xs ds {}).1 = (sliceLoop c₂ path xs ds {}).1 ∧ StEq (sliceLoop c₁ path xs ds {}).2 (sliceLoop c₂ path xs ds {}).2
  | [], ds => ⟨rfl, StEq.refl _⟩
  | x :: rest, ds => by
    rw [sliceLoop_cons_local c₁ path h1, sliceLoop_cons_local c₂ path h2]
    obtain ⟨hd, hst⟩ := he (path ++ ["[" ++ toString x.2.2 ++ "]"]) x.1 x.2.1
    simp only
    rw [← hd]
    have ih := sliceLoop_congr c₁ c₂ path h1 h2 he rest (ds ++ [(c₁ (path ++ ["[" ++ toString x.2.2 ++ "]"]) x.1 x.2.1 {}).1])
    exact ⟨ih.1, StEq.app hst ih.2⟩

theorem testAll_fmt (env₁ env₂ : Env) (hf : env₁.fmt = env₂.fmt) (dt ps : String) (tests : List Test) (x : DVal) :
    ∀ st, testAll env₁ dt ps tests x st = testAll env₂ dt ps tests x st := by
  induction tests with
  | nil => intro st; rfl
  | cons t ts ih => intro st; simp only [testAll, issueOfTest, hf, ih]

theorem testAll_stEq (env₁ env₂ : Env) (hf : env₁.fmt = env₂.fmt) (dt ps : String) (tests : List Test) (x : DVal) :
    testAll env₁ dt ps tests x {} = testAll env₂ dt ps tests x {} := testAll_fmt env₁ env₂ hf dt ps tests x {}

/-- a primitive node without PostTransforms looks at the environment only through the formatter -/
theorem prim_fmt (env₁ env₂ : Env) (hf : env₁.fmt = env₂.fmt) (m : Mode) (p : Prim) (hp : p.posts = [])
    (path : List String) (v : Val) (d : DVal) (st : St) :
    prim env₁ m p path v d st = prim env₂ m p path v d st := by
  unfold prim primBody tested
  simp only [hp, runPosts_nil, issueOfTest, coerceIssue, hf, testAll_fmt env₁ env₂ hf]

theorem insertRank_perm (obs : List String) (k : String) (xs : List String) :
    (Engine.insertRank obs k xs).Perm (k :: xs) := by
  induction xs with
  | nil => exact List.Perm.refl _
  | cons x xs ih =>
    unfold Engine.insertRank
    split
    · exact List.Perm.refl _
    · exact (List.Perm.cons x ih).trans (List.Perm.swap k x xs)

theorem orderOf_perm (obs keys : List String) : (Engine.orderOf obs keys).Perm keys := by
  induction keys with
  | nil => exact List.Perm.refl _
  | cons k ks ih =>
    unfold Engine.orderOf
    exact (insertRank_perm obs k _).trans (List.Perm.cons k ih)

/-- visiting two different fields in either order gives the same destination, and neither field's
    issues depend on the other's update -/
theorem fieldStep_comm (env : Env) (m : Mode) (fs : Fields) (tag : Option String) (prov : Prov) (path : List String)
    (hinj : fs.GoNamesInj) (a b : String) (d : DVal) (hab : a ≠ b) :
    (fieldStep env m fs tag prov path b (fieldStep env m fs tag prov path a d).1).1 =
      (fieldStep env m fs tag prov path a (fieldStep env m fs tag prov path b d).1).1 ∧
    (fieldStep env m fs tag prov path b (fieldStep env m fs tag prov path a d).1).2 =
      (fieldStep env m fs tag prov path b d).2 := by
  unfold fieldStep
  cases ha : fs.find a with
  | none => cases hb : fs.find b <;> simp
  | some ra =>
    obtain ⟨ka, fma, sa⟩ := ra
    cases hb : fs.find b with
    | none => simp
    | some rb =>
      obtain ⟨kb, fmb, sb⟩ := rb
      have hg : fma.goName ≠ fmb.goName := hinj a b ka fma sa kb fmb sb ha hb hab
      simp only
      rw [DVal.get_set_other _ _ _ _ (Ne.symm hg), DVal.get_set_other _ _ _ _ hg]
      exact ⟨DVal.set_comm _ _ _ _ _ hg, rfl⟩

mutual
/-- **Order independence.** For a PostTransform-free, well-formed schema the destination is the same
    and the issues / callback events are the same up to order, whatever the two visit oracles are. -/
theorem proc_order_indep (fmt : String → String → List (String × String) → String) (ω₁ ω₂ : String → List String) (m : Mode) :
    ∀ (s : Schema), s.postFree = true → s.WF → ∀ (tag : Option String) (path : List String) (v : Val) (d : DVal),
      OutEq (proc ⟨fmt, ω₁⟩ m s tag path v d {}) (proc ⟨fmt, ω₂⟩ m s tag path v d {})
  | .prim p, hp, _, tag, path, v, d => by
    have hp' : p.posts = [] := by simpa [Schema.postFree] using hp
    simp only [proc]
    rw [prim_fmt ⟨fmt, ω₁⟩ ⟨fmt, ω₂⟩ rfl m p hp']
    exact OutEq.refl _
  | .custom c, _, _, tag, path, v, d => by
    have : proc ⟨fmt, ω₁⟩ m (.custom c) tag path v d {} = proc ⟨fmt, ω₂⟩ m (.custom c) tag path v d {} := by
      unfold proc; rfl
    rw [this]; exact OutEq.refl _
  | .ptr elem zp nn, hp, hw, tag, path, v, d => by
    simp only [Schema.postFree] at hp
    simp only [Schema.WF] at hw
    unfold proc
    cases Engine.ptrAbsent m v d
    · simp only [Bool.false_eq_true, ↓reduceIte]
      obtain ⟨h1, h2⟩ := proc_order_indep fmt ω₁ ω₂ m elem hp hw tag path v (d.pointee zp)
      exact ⟨by rw [h1], h2⟩
    · simp only [↓reduceIte]
      cases nn <;> exact OutEq.refl _
  | .slice elem sm, hp, hw, tag, path, v, d => by
    simp only [Schema.postFree, Bool.and_eq_true, List.isEmpty_iff] at hp
    simp only [Schema.WF] at hw
    have l1 := fun p v d => proc_local ⟨fmt, ω₁⟩ m elem hp.2 none p v d
    have l2 := fun p v d => proc_local ⟨fmt, ω₂⟩ m elem hp.2 none p v d
    have sl := sliceLoop_congr (proc ⟨fmt, ω₁⟩ m elem none) (proc ⟨fmt, ω₂⟩ m elem none) path l1 l2
      (fun p v d => proc_order_indep fmt ω₁ ω₂ m elem hp.2 hw none p v d)
    -- both sides: loop, then the slice's own tests on the (equal) destination
    have fin : ∀ (xs : List (Val × DVal × Nat)),
        OutEq
          (DVal.slice (sliceLoop (proc ⟨fmt, ω₁⟩ m elem none) path xs [] {}).1,
            testAll ⟨fmt, ω₁⟩ "slice" (render path) sm.tests (DVal.slice (sliceLoop (proc ⟨fmt, ω₁⟩ m elem none) path xs [] {}).1)
              (sliceLoop (proc ⟨fmt, ω₁⟩ m elem none) path xs [] {}).2)
          (DVal.slice (sliceLoop (proc ⟨fmt, ω₂⟩ m elem none) path xs [] {}).1,
            testAll ⟨fmt, ω₂⟩ "slice" (render path) sm.tests (DVal.slice (sliceLoop (proc ⟨fmt, ω₂⟩ m elem none) path xs [] {}).1)
              (sliceLoop (proc ⟨fmt, ω₂⟩ m elem none) path xs [] {}).2) := by
      intro xs
      obtain ⟨h1, h2⟩ := sl xs []
      rw [testAll_local, testAll_local ⟨fmt, ω₂⟩]
      rw [h1, testAll_stEq ⟨fmt, ω₁⟩ ⟨fmt, ω₂⟩ rfl]
      exact ⟨rfl, StEq.app h2 (StEq.refl _)⟩
    unfold proc
    simp only [hp.1, runPosts_nil]
    cases m <;> simp only
    · by_cases ha : isParseZero v = true
      · simp only [ha, ↓reduceIte]
        cases sm.dfltIn with
        | some xs => exact fin _
        | none => cases sm.required <;> exact OutEq.refl _
      · simp only [ha, ↓reduceIte, Bool.false_eq_true]
        cases sm.coerce v with
        | none => exact OutEq.refl _
        | some xs => exact fin _
    · by_cases hce : d.elems.isEmpty = true
      · simp only [hce, ↓reduceIte]
        cases sm.dfltD with
        | some ds => exact fin _
        | none => cases sm.required <;> exact OutEq.refl _
      · simp only [hce, ↓reduceIte, Bool.false_eq_true]
        exact fin _
  | .struct fs tests posts, hp, hw, tag, path, v, d => by
    simp only [Schema.postFree, Bool.and_eq_true, List.isEmpty_iff] at hp
    simp only [Schema.WF] at hw
    have fin : ∀ prov : Prov,
        OutEq
          ((fieldLoop (fun k d st => procKey ⟨fmt, ω₁⟩ m fs k tag prov path d st) (Engine.orderOf (ω₁ (render path)) fs.keys) d {}).1,
            testAll ⟨fmt, ω₁⟩ "struct" (render path) tests
              (fieldLoop (fun k d st => procKey ⟨fmt, ω₁⟩ m fs k tag prov path d st) (Engine.orderOf (ω₁ (render path)) fs.keys) d {}).1
              (fieldLoop (fun k d st => procKey ⟨fmt, ω₁⟩ m fs k tag prov path d st) (Engine.orderOf (ω₁ (render path)) fs.keys) d {}).2)
          ((fieldLoop (fun k d st => procKey ⟨fmt, ω₂⟩ m fs k tag prov path d st) (Engine.orderOf (ω₂ (render path)) fs.keys) d {}).1,
            testAll ⟨fmt, ω₂⟩ "struct" (render path) tests
              (fieldLoop (fun k d st => procKey ⟨fmt, ω₂⟩ m fs k tag prov path d st) (Engine.orderOf (ω₂ (render path)) fs.keys) d {}).1
              (fieldLoop (fun k d st => procKey ⟨fmt, ω₂⟩ m fs k tag prov path d st) (Engine.orderOf (ω₂ (render path)) fs.keys) d {}).2) := by
      intro prov
      have l1 := fun k d => procKey_local ⟨fmt, ω₁⟩ m fs hp.2 k tag prov path d
      have l2 := fun k d => procKey_local ⟨fmt, ω₂⟩ m fs hp.2 k tag prov path d
      -- (A) same key list, the two environments
      have hA := fieldLoop_congr _ _ l1 l2
        (fun k d => procKey_order_indep fmt ω₁ ω₂ m fs hp.2 hw.2.2 k tag prov path d)
        (Engine.orderOf (ω₁ (render path)) fs.keys) d
      -- (B) one environment, the two key orders
      have hperm : (Engine.orderOf (ω₁ (render path)) fs.keys).Perm (Engine.orderOf (ω₂ (render path)) fs.keys) :=
        (orderOf_perm _ _).trans (orderOf_perm _ _).symm
      have hB := fieldLoop_perm (fun k d st => procKey ⟨fmt, ω₂⟩ m fs k tag prov path d st) l2
        (by
          intro a b d hab
          simp only [procKey_eq_fieldStep]
          exact fieldStep_comm ⟨fmt, ω₂⟩ m fs tag prov path hw.2.1 a b d hab)
        hperm d
      obtain ⟨hd, hst⟩ := hA.trans hB
      rw [testAll_local, testAll_local ⟨fmt, ω₂⟩]
      rw [hd, testAll_stEq ⟨fmt, ω₁⟩ ⟨fmt, ω₂⟩ rfl]
      exact ⟨rfl, StEq.app hst (StEq.refl _)⟩
    unfold proc
    simp only [hp.1, runPosts_nil]
    cases m <;> simp only
    · cases Engine.provOf v with
      | none => exact OutEq.refl _
      | some prov => exact fin prov
    · exact fin .empty
  | .pre ps inner, hp, hw, tag, path, v, d => by
    simp only [Schema.postFree] at hp
    simp only [Schema.WF] at hw
    have loc : ∀ (ω : String → List String) (m : Mode) v d s, proc ⟨fmt, ω⟩ m inner tag path v d s =
        ((proc ⟨fmt, ω⟩ m inner tag path v d {}).1, s.app (proc ⟨fmt, ω⟩ m inner tag path v d {}).2) :=
      fun ω m v d => proc_local ⟨fmt, ω⟩ m inner hp tag path v d
    unfold proc
    cases m <;> simp only
    · cases ps.accept v
      · exact OutEq.refl _
      · simp only [↓reduceIte]
        rcases hr : ps.run v with ⟨v', e⟩
        cases e with
        | none =>
          simp only
          rw [loc ω₁, loc ω₂]
          obtain ⟨h1, h2⟩ := proc_order_indep fmt ω₁ ω₂ .parse inner hp hw tag path v' d
          exact ⟨h1, StEq.app (StEq.refl _) h2⟩
        | some e => exact OutEq.refl _
    · rcases hr : ps.runD d with ⟨d', e⟩
      cases e with
      | none =>
        simp only
        rw [loc ω₁, loc ω₂]
        obtain ⟨h1, h2⟩ := proc_order_indep fmt ω₁ ω₂ .validate inner hp hw tag path v d'
        exact ⟨h1, StEq.app (StEq.refl _) h2⟩
      | some e => exact OutEq.refl _
theorem procKey_order_indep (fmt : String → String → List (String × String) → String) (ω₁ ω₂ : String → List String) (m : Mode) :
    ∀ (fs : Fields), fs.postFree = true → fs.WF → ∀ (key : String) (tag : Option String) (prov : Prov) (path : List String) (d : DVal),
      OutEq (procKey ⟨fmt, ω₁⟩ m fs key tag prov path d {}) (procKey ⟨fmt, ω₂⟩ m fs key tag prov path d {})
  | .nil, _, _, _, _, _, _, _ => by simp only [procKey]; exact OutEq.refl _
  | .cons k fm s rest, hp, hw, key, tag, prov, path, d => by
    simp only [Fields.postFree, Bool.and_eq_true] at hp
    simp only [Fields.WF] at hw
    unfold procKey
    by_cases hk : (k == key) = true
    · simp only [hk, ↓reduceIte]
      have ih := proc_order_indep fmt ω₁ ω₂ m s hp.1 hw.1 none
      cases m <;> exact ⟨congrArg (d.set fm.goName) (ih _ _ _).1, (ih _ _ _).2⟩
    · simp only [hk, Bool.false_eq_true, ↓reduceIte]
      exact procKey_order_indep fmt ω₁ ω₂ m rest hp.2 hw.2 key tag prov path d
end

end Spec
end Zog
