import Zog.Refine

/-!
# Helper lemmas about `Spec` (used by the property files; no property statements here)
-/

namespace Zog
namespace Spec

def failing (tests : List Test) (x : DVal) : List Test := tests.filter (fun t => !t.pred x)

@[simp] theorem emit_sink (st : St) (i : Issue) : (emit st i).sink = st.sink ++ [i] := rfl
@[simp] theorem emit_log (st : St) (i : Issue) : (emit st i).log = st.log := rfl
@[simp] theorem logIf_sink (c : Bool) (st : St) (e : Event) : (logIf c st e).sink = st.sink := by
  unfold logIf; split <;> rfl

/-- a non-catching node reports every failing test, once, in declaration order, and nothing else -/
theorem testAll_sink (env : Env) (dt ps : String) (tests : List Test) (x : DVal) (st : St) :
    (testAll env dt ps tests x st).sink = st.sink ++ (failing tests x).map (issueOfTest env ps dt) := by
  induction tests generalizing st with
  | nil => simp [testAll, failing]
  | cons t ts ih =>
    unfold testAll
    rw [ih]
    by_cases hp : t.pred x = true
    · simp [hp, failing]
    · simp [hp, failing, List.append_assoc]

/-- every test of a non-catching node runs (each callback is logged), in order -/
theorem testAll_log (env : Env) (dt ps : String) (tests : List Test) (x : DVal) (st : St) :
    (testAll env dt ps tests x st).log =
      st.log ++ (tests.filter (·.cb)).map (fun t => (⟨.test, t.id, ps, x⟩ : Event)) := by
  induction tests generalizing st with
  | nil => simp [testAll]
  | cons t ts ih =>
    unfold testAll
    rw [ih]
    by_cases hp : t.pred x = true <;> by_cases hc : t.cb = true <;> simp [hp, hc, logIf, List.append_assoc]

theorem testCatch_sink (ps : String) (c : DVal) (tests : List Test) (x : DVal) (st : St) :
    (testCatch ps c tests x st).2.sink = st.sink := by
  induction tests generalizing st with
  | nil => rfl
  | cons t ts ih =>
    unfold testCatch
    by_cases hp : t.pred x = true
    · simp only [hp, ↓reduceIte]; rw [ih]; simp
    · simp [hp]

theorem testCatch_dest (ps : String) (c : DVal) (tests : List Test) (x : DVal) (st : St) :
    (testCatch ps c tests x st).1 = if tests.all (fun t => t.pred x) then x else c := by
  induction tests generalizing st with
  | nil => rfl
  | cons t ts ih =>
    unfold testCatch
    by_cases hp : t.pred x = true
    · simp only [hp, ↓reduceIte]; rw [ih]; simp [hp]
    · simp [hp]

/-- PostTransforms leave earlier issues in place -/
theorem postLoop_sink_prefix (env : Env) (dt ps : String) (posts : List Post) (x : DVal) (st : St) :
    ∃ extra, (postLoop env dt ps posts x st).2.sink = st.sink ++ extra ∧ extra.length ≤ 1 := by
  induction posts generalizing x st with
  | nil => exact ⟨[], by simp [postLoop]⟩
  | cons p ps' ih =>
    unfold postLoop
    cases hr : p.run x with
    | mk x' e =>
      cases e with
      | none =>
        obtain ⟨extra, h1, h2⟩ := ih x' { st with log := st.log ++ [⟨.post, p.id, ps, x⟩] }
        exact ⟨extra, by simpa using h1, h2⟩
      | some e => exact ⟨[issueOfPostErr env ps dt e], by simp, by simp⟩

theorem runPosts_of_nonempty (env : Env) (dt ps : String) (posts : List Post) (o : Out)
    (h : o.2.sink ≠ []) : runPosts env dt ps posts o = o := by
  unfold runPosts
  have : o.2.sink.isEmpty = false := by
    cases hs : o.2.sink with
    | nil => exact absurd hs h
    | cons a b => rfl
  simp [this]

theorem runPosts_nil (env : Env) (dt ps : String) (o : Out) : runPosts env dt ps [] o = o := by
  unfold runPosts postLoop; split <;> rfl

end Spec
end Zog
