import Zog.Spec
import Zog.Coerce

/-!
# Front ends as views of one record   — C14
Part 1: the decimal rendering of an integer parses back to it (`strconv.Atoi ∘ strconv.Itoa`),
for every 64-bit integer.
-/

namespace Zog

/-! ## `atoi (toString n) = n` -/

theorem digitVal_of_isDigit {c : Char} (h : c.isDigit = true) : digitVal c = some (c.toNat - '0'.toNat) := by
  unfold digitVal
  have : '0' ≤ c ∧ c ≤ '9' := by
    simp only [Char.isDigit, Bool.and_eq_true, decide_eq_true_eq] at h
    exact ⟨by simpa [Char.le_def] using h.1, by simpa [Char.le_def] using h.2⟩
  simp [this]

theorem digitsVal_eq_ofDigitChars (cs : List Char) (acc : Nat) (h : ∀ c ∈ cs, c.isDigit = true) :
    digitsVal cs acc = some (Nat.ofDigitChars 10 cs acc) := by
  induction cs generalizing acc with
  | nil => simp [digitsVal]
  | cons c cs ih =>
    have hc := digitVal_of_isDigit (h c List.mem_cons_self)
    simp only [digitsVal, hc]
    rw [ih _ (fun x hx => h x (List.mem_cons_of_mem _ hx))]
    simp [Nat.ofDigitChars, Nat.mul_comm]

theorem digitsVal_toDigits (n : Nat) : digitsVal (Nat.toDigits 10 n) 0 = some n := by
  rw [digitsVal_eq_ofDigitChars _ _ (fun c hc => Nat.isDigit_of_mem_toDigits (by decide) (by decide) hc)]
  simp

end Zog

namespace Zog

theorem atoi_digits (s : String) (cs : List Char) (hs : s.toList = cs) (hd : ∀ c ∈ cs, c.isDigit = true) :
    atoi s = atoiBody false cs := by
  unfold atoi
  rw [hs]
  split
  · have := hd '+' (by simp)
    simp [Char.isDigit] at this
  · have := hd '-' (by simp)
    simp [Char.isDigit] at this
  · rfl

theorem atoi_natRepr (n : Nat) (h : (n : Int) ≤ maxInt64) : atoi (Nat.repr n) = some (n : Int) := by
  rw [atoi_digits _ _ Nat.toList_repr (fun c hc => Nat.isDigit_of_mem_toDigits (by decide) (by decide) hc)]
  unfold atoiBody
  have hne : (Nat.toDigits 10 n).isEmpty = false := by
    cases h' : Nat.toDigits 10 n with
    | nil => exact absurd h' Nat.toDigits_ne_nil
    | cons _ _ => rfl
  simp only [hne, Bool.false_eq_true, ↓reduceIte, digitsVal_toDigits]
  have : minInt64 ≤ (n : Int) := by
    unfold minInt64 pow2; omega
  simp [this, h]

theorem atoi_neg_natRepr (n : Nat) (h : minInt64 ≤ -(n : Int)) : atoi ("-" ++ Nat.repr n) = some (-(n : Int)) := by
  unfold atoi
  have hl : ("-" ++ Nat.repr n).toList = '-' :: Nat.toDigits 10 n := by
    simp [String.toList_append, Nat.toList_repr]
  rw [hl]
  simp only
  unfold atoiBody
  have hne : (Nat.toDigits 10 n).isEmpty = false := by
    cases h' : Nat.toDigits 10 n with
    | nil => exact absurd h' Nat.toDigits_ne_nil
    | cons _ _ => rfl
  simp only [hne, Bool.false_eq_true, ↓reduceIte, digitsVal_toDigits]
  have : -(n : Int) ≤ maxInt64 := by
    unfold maxInt64 pow2; omega
  simp [this, h]

/-- **`strconv.Atoi (strconv.Itoa n) = n`** for every 64-bit integer: the decimal rendering a form,
    query string or environment variable carries parses back to the number a Go map or JSON document
    would have supplied. -/
theorem atoi_toString (n : Int) (hlo : minInt64 ≤ n) (hhi : n ≤ maxInt64) : atoi (toString n) = some n := by
  rw [Int.toString_eq_repr]
  cases n with
  | ofNat m => exact atoi_natRepr m hhi
  | negSucc m =>
    have : Int.negSucc m = -((m + 1 : Nat) : Int) := by omega
    show atoi ("-" ++ Nat.repr (m + 1)) = _
    rw [atoi_neg_natRepr (m + 1) (by rw [← this]; exact hlo), this]

end Zog

/-!
Part 2: two input values are *views of the same datum* for a schema node when the node cannot
tell them apart — whatever the formatter, the path, the destination it starts from and the state.
The lemmas below establish it leaf by leaf (how a value is absent, string-typed leaves) and lift
it through slices and through the fields of a struct read from two different providers.
-/

namespace Zog
namespace Spec
open Engine (Prov zipIdx3)

/-- `v₁` and `v₂` are indistinguishable to the node `s` -/
def ViewEq (s : Schema) (v₁ v₂ : Val) : Prop :=
  ∀ (env : Env) (path : List String) (d : DVal) (st : St),
    proc env .parse s none path v₁ d st = proc env .parse s none path v₂ d st

theorem ViewEq.refl (s : Schema) (v : Val) : ViewEq s v v := fun _ _ _ _ => rfl

theorem ViewEq.symm {s : Schema} {v₁ v₂ : Val} (h : ViewEq s v₁ v₂) : ViewEq s v₂ v₁ :=
  fun env path d st => (h env path d st).symm

theorem ViewEq.trans {s : Schema} {v₁ v₂ v₃ : Val} (h₁ : ViewEq s v₁ v₂) (h₂ : ViewEq s v₂ v₃) : ViewEq s v₁ v₃ :=
  fun env path d st => (h₁ env path d st).trans (h₂ env path d st)

/-- a primitive node: both absent (nil, missing key, blank string — it cannot tell how), or both
    present with the same coercion result -/
theorem viewEq_prim (p : Prim) (v₁ v₂ : Val)
    (h : (isParseZero v₁ = true ∧ isParseZero v₂ = true) ∨
         (isParseZero v₁ = false ∧ isParseZero v₂ = false ∧ p.coerce v₁ = p.coerce v₂)) :
    ViewEq (.prim p) v₁ v₂ := by
  intro env path d st
  unfold proc prim primBody
  rcases h with ⟨h1, h2⟩ | ⟨h1, h2, h3⟩
  · simp [Engine.primAbsent, h1, h2]
  · simp [Engine.primAbsent, h1, h2, h3]

/-- a pointer node passes the question on to the pointed-to node -/
theorem viewEq_ptr (elem : Schema) (zp : DVal) (nn : Option Test) (v₁ v₂ : Val)
    (habs : isParseZero v₁ = isParseZero v₂) (h : ViewEq elem v₁ v₂) :
    ViewEq (.ptr elem zp nn) v₁ v₂ := by
  intro env path d st
  unfold proc
  cases hz : isParseZero v₂ <;> simp [Engine.ptrAbsent, habs, hz, h env path (d.pointee zp) st]

/-- pairwise relation of two lists of the same length -/
inductive Pairwise₂ (R : Val → Val → Prop) : List Val → List Val → Prop
  | nil : Pairwise₂ R [] []
  | cons {a b : Val} {as bs : List Val} : R a b → Pairwise₂ R as bs → Pairwise₂ R (a :: as) (b :: bs)

theorem sliceLoop_views (env : Env) (elem : Schema) (path : List String) (xs₁ xs₂ : List Val) (z : DVal)
    (h : Pairwise₂ (ViewEq elem) xs₁ xs₂) (i : Nat) (acc : List DVal) (st : St) :
    sliceLoop (proc env .parse elem none) path (zipIdx3 xs₁ (xs₁.map (fun _ => z)) i) acc st =
    sliceLoop (proc env .parse elem none) path (zipIdx3 xs₂ (xs₂.map (fun _ => z)) i) acc st := by
  induction h generalizing i acc st with
  | nil => rfl
  | cons hx _ ih =>
    simp only [List.map_cons, zipIdx3, sliceLoop]
    rw [hx env _ z st]
    exact ih _ _ _

/-- a slice node: both absent, or both coerced to lists of the same length whose elements are
    pairwise views of the same datum for the element schema -/
theorem viewEq_slice (elem : Schema) (sm : SliceMods) (v₁ v₂ : Val)
    (h : (isParseZero v₁ = true ∧ isParseZero v₂ = true) ∨
         (isParseZero v₁ = false ∧ isParseZero v₂ = false ∧
           ((sm.coerce v₁ = none ∧ sm.coerce v₂ = none) ∨
            ∃ xs₁ xs₂, sm.coerce v₁ = some xs₁ ∧ sm.coerce v₂ = some xs₂ ∧ Pairwise₂ (ViewEq elem) xs₁ xs₂))) :
    ViewEq (.slice elem sm) v₁ v₂ := by
  intro env path d st
  unfold proc
  rcases h with ⟨h1, h2⟩ | ⟨h1, h2, h3⟩
  · simp [h1, h2]
  · rcases h3 with ⟨c1, c2⟩ | ⟨xs₁, xs₂, c1, c2, hf⟩
    · simp [h1, h2, c1, c2]
    · simp only [h1, h2, c1, c2, Bool.false_eq_true, ↓reduceIte]
      rw [sliceLoop_views env elem path xs₁ xs₂ sm.zeroElem hf 0 [] st]

/-- **Two providers, one record.** If two data providers name every field of a struct schema by
    the same key and present, for every field, views of the same datum, the struct's field loop
    cannot tell them apart — for every visit order, destination and state. -/
theorem procKey_views (env : Env) (tag₁ tag₂ : Option String) (prov₁ prov₂ : Prov) (path : List String) :
    (fs : Fields) →
    (∀ k fm s, (k, fm, s) ∈ fs.toList →
      prov₁.keyFor tag₁ fm k = prov₂.keyFor tag₂ fm k ∧
      ViewEq s (prov₁.get (prov₁.keyFor tag₁ fm k)) (prov₂.get (prov₂.keyFor tag₂ fm k))) →
    ∀ (key : String) (d : DVal) (st : St),
      procKey env .parse fs key tag₁ prov₁ path d st = procKey env .parse fs key tag₂ prov₂ path d st
  | .nil, _, _, _, _ => by simp [procKey]
  | .cons k fm s rest, h, key, d, st => by
    unfold procKey
    have hk := h k fm s (by simp [Fields.toList])
    split
    · simp only
      rw [hk.2 env _ _ st, hk.1]
    · exact procKey_views env tag₁ tag₂ prov₁ prov₂ path rest
        (fun k' fm' s' hm => h k' fm' s' (by simp [Fields.toList, hm])) key d st

theorem fieldLoop_views (env : Env) (fs : Fields) (tag₁ tag₂ : Option String) (prov₁ prov₂ : Prov) (path : List String)
    (h : ∀ k fm s, (k, fm, s) ∈ fs.toList →
      prov₁.keyFor tag₁ fm k = prov₂.keyFor tag₂ fm k ∧
      ViewEq s (prov₁.get (prov₁.keyFor tag₁ fm k)) (prov₂.get (prov₂.keyFor tag₂ fm k)))
    (order : List String) (d : DVal) (st : St) :
    fieldLoop (fun k d st => procKey env .parse fs k tag₁ prov₁ path d st) order d st =
    fieldLoop (fun k d st => procKey env .parse fs k tag₂ prov₂ path d st) order d st := by
  induction order generalizing d st with
  | nil => rfl
  | cons k ks ih =>
    simp only [fieldLoop]
    rw [procKey_views env tag₁ tag₂ prov₁ prov₂ path fs h k d st]
    exact ih _ _

end Spec
end Zog

/-!
Part 3: the concrete front ends. One logical record, presented (a) as a Go map / decoded JSON
object — native leaves, a missing key reads nil — and (b) as a form / query string / environment —
string-typed leaves, a single value is a string and a repeated one a list, a missing key reads "".
-/

namespace Zog
namespace Spec
open Engine (Prov)

/-- a leaf of a logical record -/
inductive Leaf where
  | str (s : String)
  | int (n : Int)
  | bool (b : Bool)
  /-- a repeated value -/
  | strs (xs : List String)
  /-- any other leaf given by its two presentations (e.g. a time: `time.Time` in a Go map, its
      RFC3339 / layout rendering in a flat source) -/
  | dual (native flat : Val)

def boolStr (b : Bool) : String := if b then "true" else "false"

/-- the leaf as a Go map (or a JSON document decoded into one) presents it -/
def Leaf.native : Leaf → Val
  | .str s => .str s
  | .int n => .int .int n
  | .bool b => .bool b
  | .strs xs => .list (xs.map Val.str)
  | .dual nv _ => nv

/-- the leaf as a url.Values / environment source presents it (`urlDataProvider.Get`) -/
def Leaf.flat : Leaf → Val
  | .str s => .str s
  | .int n => .str (toString n)
  | .bool b => .str (boolStr b)
  | .strs xs => if xs.length > 1 then .list (xs.map Val.str) else .str (xs.headD "")
  | .dual _ fv => fv

abbrev Record := List (String × Leaf)

def mapView (r : Record) : List (String × Val) := r.map (fun p => (p.1, p.2.native))
def flatView (r : Record) : List (String × Val) := r.map (fun p => (p.1, p.2.flat))

theorem lookupD_map {α β : Type} (f : α → β) (kvs : List (String × α)) (k : String) :
    lookupD (kvs.map (fun p => (p.1, f p.2))) k = (lookupD kvs k).map f := by
  induction kvs with
  | nil => rfl
  | cons p rest ih =>
    simp only [List.map_cons, lookupD]
    split <;> simp [ih]

/-! ### the rendering of a number is never blank -/

theorem not_space_of_isDigit {c : Char} (h : c.isDigit = true) : isGoSpace c = false := by
  simp only [Char.isDigit, Bool.and_eq_true, decide_eq_true_eq] at h
  have h1 : 48 ≤ c.toNat := by simpa [Char.le_def, UInt32.le_iff_toNat_le] using h.1
  have h2 : c.toNat ≤ 57 := by simpa [Char.le_def, UInt32.le_iff_toNat_le] using h.2
  simp only [isGoSpace]
  generalize c.toNat = n at h1 h2
  simp only [Bool.or_eq_false_iff, Bool.and_eq_false_iff, beq_eq_false_iff_ne, decide_eq_false_iff_not]
  omega

theorem natRepr_not_blank (n : Nat) : isBlank (Nat.repr n) = false := by
  unfold isBlank
  rw [Nat.toList_repr]
  cases h : Nat.toDigits 10 n with
  | nil => exact absurd h Nat.toDigits_ne_nil
  | cons c cs =>
    have hc : c.isDigit = true := Nat.isDigit_of_mem_toDigits (b := 10) (n := n) (by decide) (by decide) (by simp [h])
    simp [not_space_of_isDigit hc]

theorem intRepr_not_blank (n : Int) : isBlank (toString n) = false := by
  rw [Int.toString_eq_repr]
  cases n with
  | ofNat m => exact natRepr_not_blank m
  | negSucc m =>
    show isBlank ("-" ++ Nat.repr (m + 1)) = false
    unfold isBlank
    simp [String.toList_append, isGoSpace]

/-! ### which schema node may read which leaf -/

/-- the node `s` reads the leaf `l` the same way from both sources -/
def LeafOK : Schema → Leaf → Prop
  | _, .str _ => True
  | .prim p, .int n => minInt64 ≤ n ∧ n ≤ maxInt64 ∧ p.coerce (.str (toString n)) = p.coerce (.int .int n)
  | .prim p, .bool b => p.coerce (.str (boolStr b)) = p.coerce (.bool b)
  | .slice _ sm, .strs xs =>
    sm.coerce = coerceSlice ∧ (xs.length > 1 ∨ ∃ x, xs = [x] ∧ isBlank x = false)
  | .ptr (.prim p) _ _, .int n => minInt64 ≤ n ∧ n ≤ maxInt64 ∧ p.coerce (.str (toString n)) = p.coerce (.int .int n)
  | .ptr (.prim p) _ _, .bool b => p.coerce (.str (boolStr b)) = p.coerce (.bool b)
  | .prim p, .dual nv fv => isParseZero fv = false ∧ isParseZero nv = false ∧ p.coerce fv = p.coerce nv
  | _, _ => False

/-- a missing key reads nil from a map and "" from a flat source: primitives, slices and pointers
    cannot tell (nested struct schemas can — known finding D17) -/
def absentBlind : Schema → Bool
  | .prim _ => true
  | .slice .. => true
  | .ptr .. => true
  | _ => false

theorem viewEq_absent (s : Schema) (hs : absentBlind s = true) (v₁ v₂ : Val)
    (h1 : isParseZero v₁ = true) (h2 : isParseZero v₂ = true) : ViewEq s v₁ v₂ := by
  cases s with
  | prim p => exact viewEq_prim p v₁ v₂ (.inl ⟨h1, h2⟩)
  | slice elem sm => exact viewEq_slice elem sm v₁ v₂ (.inl ⟨h1, h2⟩)
  | ptr elem zp nn =>
    intro env path d st
    unfold proc
    simp [Engine.ptrAbsent, h1, h2]
  | struct fs tests posts => simp [absentBlind] at hs
  | custom c => simp [absentBlind] at hs
  | pre ps inner => simp [absentBlind] at hs

theorem boolStr_not_blank (b : Bool) : isBlank (boolStr b) = false := by cases b <;> decide

theorem viewEq_leaf (s : Schema) (l : Leaf) (h : LeafOK s l) : ViewEq s l.flat l.native := by
  cases l with
  | str x => exact ViewEq.refl _ _
  | int n =>
    cases s with
    | prim p =>
      obtain ⟨_, _, hc⟩ := h
      exact viewEq_prim p _ _ (.inr ⟨intRepr_not_blank n, rfl, hc⟩)
    | ptr elem zp nn =>
      cases elem with
      | prim p =>
        obtain ⟨_, _, hc⟩ := h
        refine viewEq_ptr _ zp nn _ _ ((intRepr_not_blank n).trans rfl) ?_
        exact viewEq_prim p _ _ (.inr ⟨intRepr_not_blank n, rfl, hc⟩)
      | _ => simp [LeafOK] at h
    | _ => simp [LeafOK] at h
  | bool b =>
    cases s with
    | prim p =>
      exact viewEq_prim p _ _ (.inr ⟨boolStr_not_blank b, rfl, h⟩)
    | ptr elem zp nn =>
      cases elem with
      | prim p =>
        refine viewEq_ptr _ zp nn _ _ ((boolStr_not_blank b).trans rfl) ?_
        exact viewEq_prim p _ _ (.inr ⟨boolStr_not_blank b, rfl, h⟩)
      | _ => simp [LeafOK] at h
    | _ => simp [LeafOK] at h
  | dual nv fv =>
    cases s with
    | prim p => exact viewEq_prim p _ _ (.inr h)
    | _ => simp [LeafOK] at h
  | strs xs =>
    cases s with
    | slice elem sm =>
      obtain ⟨hco, hlen⟩ := h
      rcases hlen with hl | ⟨x, rfl, hx⟩
      · simp only [Leaf.flat, hl, ↓reduceIte, Leaf.native]
        exact ViewEq.refl _ _
      · -- a single value: the flat source hands over the string, the slice coercer boxes it
        refine viewEq_slice elem sm _ _ (.inr ⟨by simp [Leaf.flat, isParseZero, hx], by simp [Leaf.native, isParseZero], .inr ⟨[.str x], [.str x], ?_, ?_, ?_⟩⟩)
        · simp [Leaf.flat, hco, coerceSlice]
        · simp [Leaf.native, hco, coerceSlice]
        · exact .cons (ViewEq.refl _ _) .nil
    | _ => simp [LeafOK] at h

end Spec
end Zog

/-!
Part 4: the whole record. A struct schema whose fields are read either from the flat source
(`form`/`query`/`env`: tag `tag`) or from the map source — every field named by the same key in
both, every datum a leaf its node reads the same way, every missing key under a node that cannot
tell nil from "" — produces the same destination, the same issues and the same callback log.
-/

namespace Zog
namespace Spec
open Engine (Prov provOf orderOf)

/-- what is required of the field `(k, fm, s)` of the schema, given the record -/
def FieldOK (r : Record) (tag : Option String) (k : String) (fm : FieldMeta) (s : Schema) : Prop :=
  Engine.keyFor tag fm k = Engine.keyFor none fm k ∧
  ¬ ((Engine.keyFor none fm k).length > 2 ∧ (Engine.keyFor none fm k).endsWith "[]" = true) ∧
  match lookupD r (Engine.keyFor none fm k) with
  | some l => LeafOK s l
  | none => absentBlind s = true

theorem flat_get (r : Record) (k : String) (hk : ¬ (k.length > 2 ∧ k.endsWith "[]" = true)) :
    (Prov.flat (flatView r)).get k = ((lookupD r k).map Leaf.flat).getD (.str "") := by
  have : (decide (k.length > 2) && k.endsWith "[]") = false := by
    cases h1 : decide (k.length > 2) <;> cases h2 : k.endsWith "[]" <;> simp_all
    omega
  simp [Prov.get, flatView, lookupD_map, this]

theorem map_get (r : Record) (k : String) :
    (Prov.map (mapView r)).get k = ((lookupD r k).map Leaf.native).getD .nil := by
  simp [Prov.get, mapView, lookupD_map]

/-- **All front ends are views of the same record (whole record, depth 1).**
    For every struct schema, every record, every source tag, every visit order, destination and
    state: parsing the record's flat rendering and parsing its map rendering give the same result. -/
theorem flat_and_map_views_agree (env : Env) (r : Record) (hr : r ≠ []) (tag : Option String)
    (fs : Fields) (tests : List Test) (posts : List Post)
    (hfs : ∀ k fm s, (k, fm, s) ∈ fs.toList → FieldOK r tag k fm s)
    (path : List String) (d : DVal) (st : St) :
    proc env .parse (.struct fs tests posts) tag path (.flat (flatView r)) d st =
    proc env .parse (.struct fs tests posts) none path (.obj (mapView r)) d st := by
  unfold proc
  have hne : (mapView r).isEmpty = false := by
    cases r with
    | nil => exact absurd rfl hr
    | cons _ _ => rfl
  simp only [provOf, hne, Bool.false_eq_true, ↓reduceIte]
  have key : ∀ k fm s, (k, fm, s) ∈ fs.toList →
      (Prov.flat (flatView r)).keyFor tag fm k = (Prov.map (mapView r)).keyFor none fm k ∧
      ViewEq s ((Prov.flat (flatView r)).get ((Prov.flat (flatView r)).keyFor tag fm k))
               ((Prov.map (mapView r)).get ((Prov.map (mapView r)).keyFor none fm k)) := by
    intro k fm s hm
    obtain ⟨hk, hsuf, hl⟩ := hfs k fm s hm
    refine ⟨by simp [Prov.keyFor, hk], ?_⟩
    simp only [Prov.keyFor, hk]
    rw [flat_get r _ hsuf, map_get]
    cases hlk : lookupD r (Engine.keyFor none fm k) with
    | none =>
      rw [hlk] at hl
      simpa using viewEq_absent s hl (.str "") .nil (by decide) rfl
    | some l =>
      rw [hlk] at hl
      simpa using viewEq_leaf s l hl
  rw [fieldLoop_views env fs tag none _ _ path key]

/-! ### the default coercers satisfy the leaf conditions -/

theorem default_int_reads_rendering (ext : Ext) (k : NKind) (hk : k = .int ∨ k = .i64 ∨ k = .i32) (n : Int)
    (hlo : minInt64 ≤ n) (hhi : n ≤ maxInt64) :
    coerceNum ext k (.str (toString n)) = coerceNum ext k (.int .int n) := by
  have ha : atoi n.repr = some n := by simpa using atoi_toString n hlo hhi
  rcases hk with rfl | rfl | rfl <;> simp [coerceNum, coerceInt, ha]

theorem default_bool_reads_rendering (b : Bool) : coerceBool (.str (boolStr b)) = coerceBool (.bool b) := by
  cases b <;> decide

/-- the String coercer reads a number's `%v` rendering, which is its decimal rendering -/
theorem default_string_reads_rendering (ext : Ext) (n : Int) (hd : ext.display (.int .int n) = toString n) :
    coerceString ext (.str (toString n)) = coerceString ext (.int .int n) := by
  simp [coerceString, hd]

end Spec
end Zog
