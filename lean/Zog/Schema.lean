import Zog.Basic

/-!
# Schema trees

A schema is a value (the Go schema objects are only read during execution — tie: F-write /
S-builder).  User callbacks, coercers and predicates are *functions*, universally quantified
in every theorem; the driver instantiates them from small named tables.
-/

namespace Zog

/-- a test (built-in or custom).  `pred` already includes negation (`Not()`), `code` the
    `not_` flip, `msg` the result of the test's own `Message`/`MessageFunc` (`""` = none). -/
structure Test where
  id : Nat
  code : String
  issuePath : Option String := none
  params : List (String × String) := []
  msg : String := ""
  /-- user callback (recorded in the event log) vs built-in predicate -/
  cb : Bool := false
  pred : DVal → Bool

inductive PostErr where
  /-- an ordinary `error` -/
  | plain
  /-- a `*ZogIssue` returned as error: reported as is -/
  | issue (i : Issue)

/-- a PostTransform: may rewrite the destination and/or fail -/
structure Post where
  id : Nat
  run : DVal → DVal × Option PostErr

inductive PKind where
  | str | num (k : NKind) | bool | time
deriving DecidableEq, Repr, Inhabited

def PKind.dtype : PKind → String
  | .str => "string"
  | .num _ => "number"
  | .bool => "bool"
  | .time => "time"

structure Prim where
  kind : PKind
  tests : List Test := []
  posts : List Post := []
  required : Option Test := none
  dflt : Option DVal := none
  ctch : Option DVal := none
  /-- the coercer in force for this schema (default, `WithCoercer`, `Time.Format`, global override) -/
  coerce : Val → Option DVal

structure SliceMods where
  tests : List Test := []
  posts : List Post := []
  required : Option Test := none
  /-- `Default(xs)`: as input data (Parse processes its elements) and as destination (Validate copies it) -/
  dfltIn : Option (List Val) := none
  dfltD : Option (List DVal) := none
  /-- slice coercer: `none` = error -/
  coerce : Val → Option (List Val)
  /-- zero value of the destination element type -/
  zeroElem : DVal

structure CustomSpec where
  /-- the `Data.(T)` type assertion -/
  accept : Val → Option DVal
  test : Test

/-- `Preprocess(fn, schema)`: Parse asserts the input's type (`Data.(F)`), calls `fn` on it and hands
    `UnwrapPtr(out)` to the wrapped schema; Validate calls `fn` on (a pointer to) the destination and
    stores its result before validating -/
structure PreSpec where
  id : Nat
  accept : Val → Bool
  run : Val → Val × Option PostErr
  /-- Validate: (new destination value, error message) -/
  runD : DVal → DVal × Option String

structure FieldMeta where
  goName : String
  /-- struct tags of the destination field: (tag name, value) -/
  tags : List (String × String) := []
deriving Inhabited

mutual
inductive Schema where
  | prim (p : Prim)
  | slice (elem : Schema) (m : SliceMods)
  | ptr (elem : Schema) (zeroPointee : DVal) (notNil : Option Test)
  | struct (fs : Fields) (tests : List Test) (posts : List Post)
  | custom (c : CustomSpec)
  | pre (ps : PreSpec) (inner : Schema)
inductive Fields where
  | nil
  | cons (key : String) (fm : FieldMeta) (s : Schema) (rest : Fields)
end

def Schema.dtype : Schema → String
  | .prim p => p.kind.dtype
  | .slice .. => "slice"
  | .ptr e _ _ => e.dtype
  | .struct .. => "struct"
  | .custom _ => "custom"
  | .pre _ inner => inner.dtype

def Schema.isPrim : Schema → Bool
  | .prim _ => true
  | _ => false

def Fields.keys : Fields → List String
  | .nil => []
  | .cons k _ _ rest => k :: rest.keys

def Fields.toList : Fields → List (String × FieldMeta × Schema)
  | .nil => []
  | .cons k m s rest => (k, m, s) :: rest.toList

end Zog
