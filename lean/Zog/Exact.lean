import Zog.Valid

/-!
# "The result is nil iff there is no violation" at every depth (helper for C02)
`NoViol` says, node by node and without mentioning issues, that nothing at the node is wrong:
the value is present or the node may be absent, it coerces, every test declared on the node holds
(or the node's Catch swallows its own failures), and the same below. `clean_iff` proves that a
PostTransform-free well-formed schema records no issue **iff** `NoViol` holds — completeness as
well as soundness of the reported issues, for every visit order.
-/

namespace Zog
namespace Spec
open Engine (Prov)

/-- nothing is wrong at a primitive node (a catching node swallows its own failures) -/
def PrimOK (m : Mode) (p : Prim) (v : Val) (d : DVal) : Prop :=
  p.ctch.isSome = true ∨
  (if Engine.primAbsent m v d = true then
     (match p.dflt with
      | some x => p.tests.all (fun t => t.pred x) = true
      | none => p.required = none)
   else
     (match m with
      | .validate => p.tests.all (fun t => t.pred d) = true
      | .parse => ∃ x, p.coerce v = some x ∧ p.tests.all (fun t => t.pred x) = true))

theorem all_iff_failing_nil (tests : List Test) (x : DVal) :
    tests.all (fun t => t.pred x) = true ↔ failing tests x = [] := by
  unfold failing
  rw [List.filter_eq_nil_iff, List.all_eq_true]
  constructor
  · intro h t ht; simp [h t ht]
  · intro h t ht; simpa using h t ht

theorem testAll_clean_iff (env : Env) (dt ps : String) (tests : List Test) (x : DVal) (st : St) :
    (testAll env dt ps tests x st).sink = st.sink ↔ tests.all (fun t => t.pred x) = true := by
  rw [testAll_sink, all_iff_failing_nil]
  constructor
  · intro h
    have : (failing tests x).map (issueOfTest env ps dt) = [] := by simpa using h
    exact List.map_eq_nil_iff.mp this
  · intro h; simp [h]

theorem tested_clean_iff (env : Env) (dt ps : String) (ctch : Option DVal) (tests : List Test) (x : DVal) (st : St) :
    (tested env dt ps ctch tests x st).2.sink = st.sink ↔ (ctch.isSome = true ∨ tests.all (fun t => t.pred x) = true) := by
  unfold tested
  cases ctch with
  | some c => simp [testCatch_sink]
  | none => simp [testAll_clean_iff]

/-- a primitive node adds no issue iff nothing is wrong at it -/
theorem primBody_clean_iff (env : Env) (m : Mode) (p : Prim) (path : List String) (v : Val) (d : DVal) (st : St) :
    (primBody env m p path v d st).2.sink = st.sink ↔ PrimOK m p v d := by
  unfold primBody PrimOK
  cases hab : Engine.primAbsent m v d
  · simp only [Bool.false_eq_true, ↓reduceIte]
    cases m <;> simp only
    · cases hco : p.coerce v with
      | none =>
        cases hc : p.ctch with
        | some c => simp
        | none => simp [emit]
      | some x => simp [tested_clean_iff]
    · simp [tested_clean_iff]
  · simp only [↓reduceIte]
    cases hd : p.dflt with
    | some x => simp [tested_clean_iff]
    | none =>
      cases hr : p.required with
      | none => simp
      | some r =>
        cases hc : p.ctch with
        | some c => simp
        | none => simp [emit]

mutual
/-- nothing is wrong at this node or below -/
def NoViol (env : Env) (m : Mode) : Schema → Option String → List String → Val → DVal → Prop
  | .prim p, _, _, v, d => PrimOK m p v d
  | .custom c, _, _, v, d =>
    match m with
    | .validate => c.test.pred d = true
    | .parse => ∃ x, c.accept v = some x ∧ c.test.pred x = true
  | .ptr elem zp nn, tag, path, v, d =>
    if Engine.ptrAbsent m v d then nn = none
    else NoViol env m elem tag path v (d.pointee zp)
  | .pre ps inner, tag, path, v, d =>
    match m with
    | .parse => ps.accept v = true ∧ ∃ v', ps.run v = (v', none) ∧ NoViol env m inner tag path v' d
    | .validate => ∃ d', ps.runD d = (d', none) ∧ NoViol env m inner tag path v d'
  | .slice elem sm, tag, path, v, d =>
    match sliceSrc m sm v d with
    | .skipped => True
    | .failed => False
    | .items ins ds =>
      (∀ x ∈ Engine.zipIdx3 ins ds 0, NoViol env m elem none (path ++ ["[" ++ toString x.2.2 ++ "]"]) x.1 x.2.1) ∧
      sm.tests.all (fun t => t.pred (proc env m (.slice elem sm) tag path v d {}).1) = true
  | .struct fs tests posts, tag, path, v, d =>
    (match m with
     | .validate => NoViolFields env m tag .empty path d fs
     | .parse => ∃ prov, Engine.provOf v = some prov ∧ NoViolFields env m tag prov path d fs) ∧
    tests.all (fun t => t.pred (proc env m (.struct fs tests posts) tag path v d {}).1) = true
def NoViolFields (env : Env) (m : Mode) (tag : Option String) (prov : Prov) (path : List String) (d : DVal) : Fields → Prop
  | .nil => True
  | .cons k fm s rest =>
    NoViol env m s none (path ++ [fieldKeyOf m tag prov fm k]) (fieldInput m prov (fieldKeyOf m tag prov fm k)) (d.get fm.goName) ∧
    NoViolFields env m tag prov path d rest
end

/-! ## loops: the total contribution is empty iff every contribution is -/

theorem app_sink_nil_iff (a b : St) : (a.app b).sink = [] ↔ a.sink = [] ∧ b.sink = [] := by
  simp [St.app]

theorem sliceLoop_clean_iff (child : Child) (path : List String) (hc : ∀ p v d, Local (fun st => child p v d st)) :
    ∀ (xs : List (Val × DVal × Nat)) (ds : List DVal), (sliceLoop child path xs ds {}).2.sink = [] ↔
      ∀ x ∈ xs, (child (path ++ ["[" ++ toString x.2.2 ++ "]"]) x.1 x.2.1 {}).2.sink = []
  | [], _ => by simp [sliceLoop]
  | y :: rest, ds => by
    rw [sliceLoop_cons_local child path hc]
    simp only
    rw [app_sink_nil_iff, sliceLoop_clean_iff child path hc rest _]
    simp

theorem fieldLoop_clean_iff (env : Env) (m : Mode) (fs : Fields) (tag : Option String) (prov : Prov) (path : List String)
    (hinj : fs.GoNamesInj)
    (hl : ∀ k d, Local (fun st => procKey env m fs k tag prov path d st)) (d0 : DVal) :
    ∀ (ks : List String) (d : DVal), ks.Nodup →
      (∀ k ∈ ks, (fieldStep env m fs tag prov path k d).2 = (fieldStep env m fs tag prov path k d0).2) →
      ((fieldLoop (fun k d st => procKey env m fs k tag prov path d st) ks d {}).2.sink = [] ↔
       ∀ k ∈ ks, (fieldStep env m fs tag prov path k d0).2.sink = [])
  | [], _, _, _ => by simp [fieldLoop]
  | a :: ks, d, hnd, hfr => by
    rw [fieldLoop_cons _ hl]
    simp only [procKey_eq_fieldStep]
    obtain ⟨hna, hnd'⟩ := List.nodup_cons.mp hnd
    rw [app_sink_nil_iff]
    have ih := fieldLoop_clean_iff env m fs tag prov path hinj hl d0 ks (fieldStep env m fs tag prov path a d).1 hnd' (by
      intro b hb
      have hab : a ≠ b := fun e => hna (e ▸ hb)
      rw [(fieldStep_comm env m fs tag prov path hinj a b d hab).2]
      exact hfr b (List.mem_cons_of_mem _ hb))
    rw [ih, hfr a List.mem_cons_self]
    simp

end Spec
end Zog

namespace Zog
namespace Spec
open Engine (Prov)

mutual
/-- **No issue iff no violation, at every depth.** -/
theorem clean_iff (env : Env) (m : Mode) :
    ∀ (s : Schema), s.postFree = true → s.WF → ∀ (tag : Option String) (path : List String) (v : Val) (d : DVal),
      ((proc env m s tag path v d {}).2.sink = [] ↔ NoViol env m s tag path v d)
  | .prim p, hp, _, tag, path, v, d => by
    have hp' : p.posts = [] := by simpa [Schema.postFree] using hp
    simp only [proc, prim, hp', runPosts_nil, NoViol]
    exact primBody_clean_iff env m p path v d {}
  | .custom c, _, _, tag, path, v, d => by
    unfold proc
    simp only [NoViol]
    cases m <;> simp only
    · cases hc : c.accept v with
      | none => simp [emit]
      | some x =>
        by_cases hp : c.test.pred x = true <;> simp [hp, emit]
    · by_cases hp : c.test.pred d = true <;> simp [hp, emit]
  | .ptr elem zp nn, hp, hw, tag, path, v, d => by
    simp only [Schema.postFree] at hp
    simp only [Schema.WF] at hw
    unfold proc
    simp only [NoViol]
    cases ha : Engine.ptrAbsent m v d
    · simp only [Bool.false_eq_true, ↓reduceIte]
      exact clean_iff env m elem hp hw tag path v (d.pointee zp)
    · simp only [↓reduceIte]
      cases nn with
      | none => simp
      | some t => simp [emit]
  | .pre ps inner, hp, hw, tag, path, v, d => by
    simp only [Schema.postFree] at hp
    simp only [Schema.WF] at hw
    have loc : ∀ v d s, proc env m inner tag path v d s =
        ((proc env m inner tag path v d {}).1, s.app (proc env m inner tag path v d {}).2) :=
      fun v d => proc_local env m inner hp tag path v d
    unfold proc
    simp only [NoViol]
    cases m <;> simp only
    · cases ha : ps.accept v
      · simp [emit]
      · simp only [↓reduceIte, true_and]
        rcases hr : ps.run v with ⟨v', e⟩
        cases e with
        | none =>
          simp only
          rw [loc]
          have ih := clean_iff env .parse inner hp hw tag path v' d
          constructor
          · intro h
            exact ⟨v', rfl, ih.mp (by simpa [St.app] using h)⟩
          · rintro ⟨v'', hv, hn⟩
            have : v'' = v' := by simpa using (Prod.mk.inj hv).1.symm
            subst this
            simpa [St.app] using ih.mpr hn
        | some e => simp [emit]
    · rcases hr : ps.runD d with ⟨d', e⟩
      cases e with
      | none =>
        simp only
        rw [loc]
        have ih := clean_iff env .validate inner hp hw tag path v d'
        constructor
        · intro h
          exact ⟨d', rfl, ih.mp (by simpa [St.app] using h)⟩
        · rintro ⟨d'', hv, hn⟩
          have : d'' = d' := by simpa using (Prod.mk.inj hv).1.symm
          subst this
          simpa [St.app] using ih.mpr hn
      | some e => simp [emit]
  | .slice elem sm, hp, hw, tag, path, v, d => by
    simp only [Schema.postFree, Bool.and_eq_true, List.isEmpty_iff] at hp
    simp only [Schema.WF] at hw
    have l := fun p v d => proc_local env m elem hp.2 none p v d
    have items : ∀ (ins : List Val) (ds : List DVal),
        ((testAll env "slice" (render path) sm.tests (DVal.slice (sliceLoop (proc env m elem none) path (Engine.zipIdx3 ins ds 0) [] {}).1)
          (sliceLoop (proc env m elem none) path (Engine.zipIdx3 ins ds 0) [] {}).2).sink = [] ↔
        ((∀ x ∈ Engine.zipIdx3 ins ds 0, NoViol env m elem none (path ++ ["[" ++ toString x.2.2 ++ "]"]) x.1 x.2.1) ∧
        sm.tests.all (fun t => t.pred (DVal.slice (sliceLoop (proc env m elem none) path (Engine.zipIdx3 ins ds 0) [] {}).1)) = true)) := by
      intro ins ds
      rw [testAll_local, app_sink_nil_iff, sliceLoop_clean_iff _ path l]
      have ht := testAll_clean_iff env "slice" (render path) sm.tests
        (DVal.slice (sliceLoop (proc env m elem none) path (Engine.zipIdx3 ins ds 0) [] {}).1) {}
      simp only at ht
      rw [ht]
      constructor
      · rintro ⟨h1, h2⟩
        exact ⟨fun x hx => (clean_iff env m elem hp.2 hw none _ x.1 x.2.1).mp (h1 x hx), h2⟩
      · rintro ⟨h1, h2⟩
        exact ⟨fun x hx => (clean_iff env m elem hp.2 hw none _ x.1 x.2.1).mpr (h1 x hx), h2⟩
    simp only [NoViol, sliceSrc]
    cases m <;> simp only
    · by_cases ha : isParseZero v = true
      · cases hdf : sm.dfltIn with
        | some xs =>
          have e : proc env .parse (.slice elem sm) tag path v d {} =
              (DVal.slice (sliceLoop (proc env .parse elem none) path (Engine.zipIdx3 xs (xs.map (fun _ => sm.zeroElem)) 0) [] {}).1,
               testAll env "slice" (render path) sm.tests (DVal.slice (sliceLoop (proc env .parse elem none) path (Engine.zipIdx3 xs (xs.map (fun _ => sm.zeroElem)) 0) [] {}).1)
                 (sliceLoop (proc env .parse elem none) path (Engine.zipIdx3 xs (xs.map (fun _ => sm.zeroElem)) 0) [] {}).2) := by
            unfold proc; simp [ha, hdf, hp.1, runPosts_nil]
          simp only [ha, ↓reduceIte, e]
          exact items xs (xs.map (fun _ => sm.zeroElem))
        | none =>
          unfold proc
          cases hr : sm.required with
          | none => simp [ha, hdf, hp.1, runPosts_nil]
          | some r => simp [ha, hdf, hp.1, runPosts_nil, emit]
      · cases hco : sm.coerce v with
        | none =>
          unfold proc
          simp [ha, hco, hp.1, runPosts_nil, emit]
        | some xs =>
          have e : proc env .parse (.slice elem sm) tag path v d {} =
              (DVal.slice (sliceLoop (proc env .parse elem none) path (Engine.zipIdx3 xs (xs.map (fun _ => sm.zeroElem)) 0) [] {}).1,
               testAll env "slice" (render path) sm.tests (DVal.slice (sliceLoop (proc env .parse elem none) path (Engine.zipIdx3 xs (xs.map (fun _ => sm.zeroElem)) 0) [] {}).1)
                 (sliceLoop (proc env .parse elem none) path (Engine.zipIdx3 xs (xs.map (fun _ => sm.zeroElem)) 0) [] {}).2) := by
            unfold proc; simp [ha, hco, hp.1, runPosts_nil]
          simp only [ha, Bool.false_eq_true, ↓reduceIte, e]
          exact items xs (xs.map (fun _ => sm.zeroElem))
    · by_cases hce : d.elems.isEmpty = true
      · cases hdf : sm.dfltD with
        | some ds =>
          have e : proc env .validate (.slice elem sm) tag path v d {} =
              (DVal.slice (sliceLoop (proc env .validate elem none) path (Engine.zipIdx3 (ds.map (fun _ => Val.nil)) ds 0) [] {}).1,
               testAll env "slice" (render path) sm.tests (DVal.slice (sliceLoop (proc env .validate elem none) path (Engine.zipIdx3 (ds.map (fun _ => Val.nil)) ds 0) [] {}).1)
                 (sliceLoop (proc env .validate elem none) path (Engine.zipIdx3 (ds.map (fun _ => Val.nil)) ds 0) [] {}).2) := by
            unfold proc; simp [hce, hdf, hp.1, runPosts_nil]
          simp only [hce, ↓reduceIte, e]
          exact items (ds.map (fun _ => Val.nil)) ds
        | none =>
          unfold proc
          cases hr : sm.required with
          | none => simp [hce, hdf, hp.1, runPosts_nil]
          | some r => simp [hce, hdf, hp.1, runPosts_nil, emit]
      · have e : proc env .validate (.slice elem sm) tag path v d {} =
            (DVal.slice (sliceLoop (proc env .validate elem none) path (Engine.zipIdx3 (d.elems.map (fun _ => Val.nil)) d.elems 0) [] {}).1,
             testAll env "slice" (render path) sm.tests (DVal.slice (sliceLoop (proc env .validate elem none) path (Engine.zipIdx3 (d.elems.map (fun _ => Val.nil)) d.elems 0) [] {}).1)
               (sliceLoop (proc env .validate elem none) path (Engine.zipIdx3 (d.elems.map (fun _ => Val.nil)) d.elems 0) [] {}).2) := by
          unfold proc; simp [hce, hp.1, runPosts_nil]
        simp only [hce, Bool.false_eq_true, ↓reduceIte, e]
        exact items (d.elems.map (fun _ => Val.nil)) d.elems
  | .struct fs tests posts, hp, hw, tag, path, v, d => by
    simp only [Schema.postFree, Bool.and_eq_true, List.isEmpty_iff] at hp
    simp only [Schema.WF] at hw
    obtain ⟨hkeys, hinj, hwf⟩ := hw
    have fields : ∀ prov : Prov,
        ((testAll env "struct" (render path) tests
          (fieldLoop (fun k d st => procKey env m fs k tag prov path d st) (Engine.orderOf (env.ω (render path)) fs.keys) d {}).1
          (fieldLoop (fun k d st => procKey env m fs k tag prov path d st) (Engine.orderOf (env.ω (render path)) fs.keys) d {}).2).sink = [] ↔
        (NoViolFields env m tag prov path d fs ∧
        tests.all (fun t => t.pred (fieldLoop (fun k d st => procKey env m fs k tag prov path d st) (Engine.orderOf (env.ω (render path)) fs.keys) d {}).1) = true)) := by
      intro prov
      have hl := fun k d => procKey_local env m fs hp.2 k tag prov path d
      have hperm := orderOf_perm (env.ω (render path)) fs.keys
      rw [testAll_local, app_sink_nil_iff,
        fieldLoop_clean_iff env m fs tag prov path hinj hl d _ d (hperm.nodup_iff.mpr hkeys) (fun _ _ => rfl)]
      have ht := testAll_clean_iff env "struct" (render path) tests
        (fieldLoop (fun k d st => procKey env m fs k tag prov path d st) (Engine.orderOf (env.ω (render path)) fs.keys) d {}).1 {}
      simp only at ht
      rw [ht]
      have hf := noViolFields_iff env m fs tag prov path d .nil fs rfl hp.2 hwf (by simpa [Fields.keys] using hkeys)
      rw [← hf]
      constructor
      · rintro ⟨h1, h2⟩
        exact ⟨fun k hk => h1 k (hperm.mem_iff.mpr hk), h2⟩
      · rintro ⟨h1, h2⟩
        exact ⟨fun k hk => h1 k (hperm.mem_iff.mp hk), h2⟩
    simp only [NoViol]
    cases m <;> simp only
    · cases hpv : Engine.provOf v with
      | none =>
        unfold proc
        simp [hpv, hp.1, runPosts_nil, emit]
      | some prov =>
        have e : proc env .parse (.struct fs tests posts) tag path v d {} =
            ((fieldLoop (fun k d st => procKey env .parse fs k tag prov path d st) (Engine.orderOf (env.ω (render path)) fs.keys) d {}).1,
             testAll env "struct" (render path) tests
              (fieldLoop (fun k d st => procKey env .parse fs k tag prov path d st) (Engine.orderOf (env.ω (render path)) fs.keys) d {}).1
              (fieldLoop (fun k d st => procKey env .parse fs k tag prov path d st) (Engine.orderOf (env.ω (render path)) fs.keys) d {}).2) := by
          unfold proc; simp [hpv, hp.1, runPosts_nil]
        rw [e]
        simp only [Option.some.injEq, exists_eq_left']
        exact fields prov
    · have e : proc env .validate (.struct fs tests posts) tag path v d {} =
          ((fieldLoop (fun k d st => procKey env .validate fs k tag .empty path d st) (Engine.orderOf (env.ω (render path)) fs.keys) d {}).1,
           testAll env "struct" (render path) tests
            (fieldLoop (fun k d st => procKey env .validate fs k tag .empty path d st) (Engine.orderOf (env.ω (render path)) fs.keys) d {}).1
            (fieldLoop (fun k d st => procKey env .validate fs k tag .empty path d st) (Engine.orderOf (env.ω (render path)) fs.keys) d {}).2) := by
        unfold proc; simp [hp.1, runPosts_nil]
      rw [e]
      exact fields .empty
theorem noViolFields_iff (env : Env) (m : Mode) (fs : Fields) (tag : Option String) (prov : Prov) (path : List String) (d : DVal) :
    ∀ (pre rest : Fields), fs = pre.append rest → rest.postFree = true → rest.WF → (pre.keys ++ rest.keys).Nodup →
      ((∀ k ∈ rest.keys, (fieldStep env m fs tag prov path k d).2.sink = []) ↔ NoViolFields env m tag prov path d rest)
  | _, .nil, _, _, _, _ => by simp [NoViolFields, Fields.keys]
  | pre, .cons k fm s rest, hfs, hp, hw, hnd => by
    simp only [Fields.postFree, Bool.and_eq_true] at hp
    simp only [Fields.WF] at hw
    simp only [NoViolFields, Fields.keys, List.forall_mem_cons]
    have hk : k ∉ pre.keys := by
      simp only [Fields.keys] at hnd
      have := (List.nodup_append.mp hnd).2.2
      intro hmem
      exact this k hmem k List.mem_cons_self rfl
    have hfind : fs.find k = some (k, fm, s) := by rw [hfs]; exact find_of_split pre k fm s rest hk
    have ih := noViolFields_iff env m fs tag prov path d (snoc pre k fm s) rest (by rw [hfs, snoc_append]) hp.2 hw.2
      (by rw [snoc_keys]; simpa [Fields.keys, List.append_assoc] using hnd)
    rw [ih]
    have hs : (fieldStep env m fs tag prov path k d).2.sink = [] ↔
        NoViol env m s none (path ++ [fieldKeyOf m tag prov fm k]) (fieldInput m prov (fieldKeyOf m tag prov fm k)) (d.get fm.goName) := by
      unfold fieldStep
      simp only [hfind]
      rw [← clean_iff env m s hp.1 hw.1 none]
      cases m <;> rfl
    rw [hs]
end

end Spec
end Zog
