import Zog.Basic
import Zog.Regex

/-!
# Built-in predicates   — C20
Executable models of the predicate inside every built-in test, written to mirror the Go
expression (operator and operand order); `Zog/Props/C20.lean` proves each equal to an
independently stated specification.
-/

namespace Zog

/-! ## equality (reflect.DeepEqual / `==` on the destination types) -/

/-- Go `==` on floats: NaN ≠ NaN, +0 = -0 -/
def FVal.goEq : FVal → FVal → Bool
  | .nan, _ => false
  | _, .nan => false
  | .nzero, .nzero => true
  | .nzero, .fin 0 _ => true
  | .fin 0 _, .nzero => true
  | a, b => a == b

/-- compare `m₁·2^e₁ < m₂·2^e₂` exactly -/
def dyLt (m1 e1 m2 e2 : Int) : Bool :=
  let e := min e1 e2
  decide (m1 * (2 : Int) ^ (e1 - e).toNat < m2 * (2 : Int) ^ (e2 - e).toNat)

/-- Go `<` on floats (NaN unordered) -/
def FVal.goLt : FVal → FVal → Bool
  | .nan, _ => false
  | _, .nan => false
  | .inf true, .inf true => false
  | .inf true, _ => true
  | _, .inf true => false
  | .inf false, _ => false
  | _, .inf false => true
  | .nzero, .nzero => false
  | .nzero, .fin m _ => decide (0 < m)
  | .fin m _, .nzero => decide (m < 0)
  | .fin m1 e1, .fin m2 e2 => dyLt m1 e1 m2 e2

mutual
def Val.beq : Val → Val → Bool
  | .nil, .nil => true
  | .str a, .str b => a == b
  | .int k a, .int k' b => k == k' && a == b
  | .bool a, .bool b => a == b
  | .f64 a, .f64 b => a.goEq b
  | .f32 a, .f32 b => a.goEq b
  | .time a u, .time b u' => a == b && u == u'
  | .list xs, .list ys => Val.beqList xs ys
  | .obj xs, .obj ys => Val.beqKVs xs ys
  | .flat xs, .flat ys => Val.beqKVs xs ys
  | .other a, .other b => a == b
  | _, _ => false
def Val.beqList : List Val → List Val → Bool
  | [], [] => true
  | x :: xs, y :: ys => x.beq y && Val.beqList xs ys
  | _, _ => false
def Val.beqKVs : List (String × Val) → List (String × Val) → Bool
  | [], [] => true
  | (k, x) :: xs, (k', y) :: ys => k == k' && x.beq y && Val.beqKVs xs ys
  | _, _ => false
end

mutual
/-- `reflect.DeepEqual` on destination values of one Go type -/
def DVal.beq : DVal → DVal → Bool
  | .str a, .str b => a == b
  | .int k a, .int k' b => k == k' && a == b
  | .flt k a, .flt k' b => k == k' && a.goEq b
  | .bool a, .bool b => a == b
  | .time a u, .time b u' => a == b && u == u'
  | .slice xs, .slice ys => DVal.beqList xs ys
  | .struct xs, .struct ys => DVal.beqFields xs ys
  | .ptr none, .ptr none => true
  | .ptr (some a), .ptr (some b) => a.beq b
  | .custom a, .custom b => a.beq b
  | _, _ => false
def DVal.beqList : List DVal → List DVal → Bool
  | [], [] => true
  | x :: xs, y :: ys => x.beq y && DVal.beqList xs ys
  | _, _ => false
def DVal.beqFields : List (String × DVal) → List (String × DVal) → Bool
  | [], [] => true
  | (k, x) :: xs, (k', y) :: ys => k == k' && x.beq y && DVal.beqFields xs ys
  | _, _ => false
end

/-! ## lengths -/

/-- Go `len(s)`: bytes -/
def goLen (s : String) : Nat := s.utf8ByteSize

def DVal.len : DVal → Nat
  | .str s => goLen s
  | .slice xs => xs.length
  | _ => 0

/-- `LenMin`: `len(*x) >= n`; Go ints are signed, a negative bound always holds -/
def lenMin (n : Int) (d : DVal) : Bool := decide ((d.len : Int) ≥ n)
def lenMax (n : Int) (d : DVal) : Bool := decide ((d.len : Int) ≤ n)
def lenEq (n : Int) (d : DVal) : Bool := decide ((d.len : Int) = n)

/-! ## ordered comparisons on numbers (`*v <op> n`) -/

inductive CmpOp where
  | eq | lt | lte | gt | gte
deriving DecidableEq, Repr, Inhabited

def cmpInt (op : CmpOp) (v n : Int) : Bool :=
  match op with
  | .eq => v == n
  | .lt => decide (v < n)
  | .lte => decide (v ≤ n)
  | .gt => decide (v > n)
  | .gte => decide (v ≥ n)

def cmpFlt (op : CmpOp) (v n : FVal) : Bool :=
  match op with
  | .eq => v.goEq n
  | .lt => v.goLt n
  | .lte => v.goLt n || v.goEq n
  | .gt => n.goLt v
  | .gte => n.goLt v || v.goEq n

/-- `EQ/LT/LTE/GT/GTE(n)` on a number destination; the type assertion `val.(*T)` fails (false) on a
    different kind -/
def cmpNum (op : CmpOp) (n : DVal) (v : DVal) : Bool :=
  match v, n with
  | .int k a, .int k' b => k == k' && cmpInt op a b
  | .flt k a, .flt k' b => k == k' && cmpFlt op a b
  | _, _ => false

def boolEq (b : Bool) : DVal → Bool
  | .bool x => x == b
  | _ => false

/-- `In(values)`: membership by DeepEqual -/
def oneOf (opts : List DVal) (v : DVal) : Bool := opts.any (fun o => v.beq o)

/-- slice `Contains(value)` -/
def sliceContains (x : DVal) : DVal → Bool
  | .slice xs => xs.any (fun e => e.beq x)
  | _ => false

/-! ## strings -/

def isInfixOfChars (pat s : List Char) : Bool :=
  match s with
  | [] => pat.isEmpty
  | c :: cs => pat.isPrefixOf (c :: cs) || isInfixOfChars pat cs

def strPred (p : String → Bool) : DVal → Bool
  | .str s => p s
  | _ => false

def hasPrefix (pre : String) : DVal → Bool := strPred (fun s => pre.toList.isPrefixOf s.toList)
def hasSuffix (suf : String) : DVal → Bool := strPred (fun s => suf.toList.isSuffixOf s.toList)
def containsStr (sub : String) : DVal → Bool := strPred (fun s => isInfixOfChars sub.toList s.toList)

/-- rune ranges as they appear in string.go (regenerated into `Gen.Facts`, see C20) -/
def inRanges (rs : List (Nat × Nat)) (c : Char) : Bool := rs.any (fun r => r.1 ≤ c.toNat && c.toNat ≤ r.2)

def upperRanges : List (Nat × Nat) := [(65, 90)]
def digitRanges : List (Nat × Nat) := [(48, 57)]
def specialRanges : List (Nat × Nat) := [(33, 47), (58, 64), (91, 96), (123, 126)]

def containsInRanges (rs : List (Nat × Nat)) : DVal → Bool := strPred (fun s => s.toList.any (inRanges rs))

/-! ## the two shipped regular expressions
The model of `UUID()` IS the UUID grammar (`Rx.uuidGrammar`: 8-4-4-4-12 hexadecimal digits); the
model of `Email()` is the backtracking semantics (`Rx.Re.search`) of the e-mail pattern as written in
`Zog/Regex.lean`. `Zog/Props/C20.lean` proves that the patterns REGENERATED from string.go
(`Gen.uuidRegex`, `Gen.emailRegex`) are these patterns, that the UUID pattern decides exactly
`uuidGrammar` and that the e-mail pattern decides exactly the stated grammar `Rx.IsEmail`. -/

def isUUIDChars (cs : List Char) : Bool := Rx.uuidGrammar cs

def isUUID (s : String) : Bool := isUUIDChars s.toList

def isEmailChars (cs : List Char) : Bool := Rx.emailRe.search cs

def isEmail (s : String) : Bool := isEmailChars s.toList

/-! ## times: instants, zone ignored -/

def timeCmp (op : CmpOp) (t : Int) : DVal → Bool
  | .time ns _ => cmpInt op ns t
  | _ => false

end Zog
