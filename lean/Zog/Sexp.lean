/-!
# S-expressions: the wire format of the correspondence protocol

One case per line. Atoms are bare tokens (no whitespace, no parentheses).
An atom starting with `#` carries hex-encoded UTF-8 bytes (`#` alone = empty string), so
arbitrary strings travel without quoting.  Core-only: this file is linked into the driver.
-/

namespace Zog

inductive Sexp where
  | atom (s : String)
  | list (xs : List Sexp)
deriving Inhabited, Repr

namespace Sexp

partial def toStr : Sexp → String
  | .atom s => s
  | .list xs => "(" ++ " ".intercalate (xs.map toStr) ++ ")"

instance : ToString Sexp := ⟨toStr⟩

/-- Tokeniser + parser with an explicit stack; returns `none` on unbalanced input. -/
def parse (line : String) : Option Sexp := Id.run do
  let mut stack : List (List Sexp) := []
  let mut cur : List Sexp := []
  let mut tok : String := ""
  let mut bad := false
  for c in line.toList do
    if c == '(' then
      if tok != "" then cur := Sexp.atom tok :: cur; tok := ""
      stack := cur :: stack
      cur := []
    else if c == ')' then
      if tok != "" then cur := Sexp.atom tok :: cur; tok := ""
      match stack with
      | [] => bad := true
      | top :: rest =>
        cur := Sexp.list cur.reverse :: top
        stack := rest
    else if c == ' ' || c == '\t' || c == '\n' || c == '\r' then
      if tok != "" then cur := Sexp.atom tok :: cur; tok := ""
    else
      tok := tok.push c
  if tok != "" then cur := Sexp.atom tok :: cur
  if bad || !stack.isEmpty then return none
  match cur with
  | [x] => return some x
  | _ => return none

def hexVal (c : Char) : Option Nat :=
  if '0' ≤ c ∧ c ≤ '9' then some (c.toNat - '0'.toNat)
  else if 'a' ≤ c ∧ c ≤ 'f' then some (c.toNat - 'a'.toNat + 10)
  else if 'A' ≤ c ∧ c ≤ 'F' then some (c.toNat - 'A'.toNat + 10)
  else none

def hexBytes : List Char → Option (List UInt8)
  | [] => some []
  | [_] => none
  | a :: b :: rest => do
    let x ← hexVal a
    let y ← hexVal b
    let r ← hexBytes rest
    pure (UInt8.ofNat (x * 16 + y) :: r)

/-- decode a `#hex` atom to a string; `none` if not hex or not valid UTF-8 -/
def unhex (s : String) : Option String :=
  match s.toList with
  | '#' :: rest => do
    let bs ← hexBytes rest
    String.fromUTF8? (ByteArray.mk bs.toArray)
  | _ => none

def hexDigit (n : Nat) : Char :=
  if n < 10 then Char.ofNat ('0'.toNat + n) else Char.ofNat ('a'.toNat + (n - 10))

def hex (s : String) : String := Id.run do
  let mut out := "#"
  for b in s.toUTF8.toList do
    out := (out.push (hexDigit (b.toNat / 16))).push (hexDigit (b.toNat % 16))
  return out

def str? : Sexp → Option String
  | .atom s => unhex s
  | _ => none

def atom? : Sexp → Option String
  | .atom s => some s
  | _ => none

def int? : Sexp → Option Int
  | .atom s => s.toInt?
  | _ => none

def nat? : Sexp → Option Nat
  | .atom s => s.toNat?
  | _ => none

def list? : Sexp → Option (List Sexp)
  | .list xs => some xs
  | _ => none

/-- `(tag a b c)` ↦ `some ("tag", [a,b,c])` -/
def tagged? : Sexp → Option (String × List Sexp)
  | .list (.atom t :: rest) => some (t, rest)
  | _ => none

def mkStr (s : String) : Sexp := .atom (hex s)
def mkInt (n : Int) : Sexp := .atom (toString n)
def mkNat (n : Nat) : Sexp := .atom (toString n)
def mkBool (b : Bool) : Sexp := .atom (if b then "1" else "0")
def node (tag : String) (xs : List Sexp) : Sexp := .list (.atom tag :: xs)

end Sexp
end Zog
