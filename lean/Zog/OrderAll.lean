import Zog.ValidAll

/-!
# On success nothing depends on the visit order — every well-formed schema (helper for C09)
-/

namespace Zog
namespace Spec
open Engine (Prov provOf orderOf zipIdx3)

/-- if the first run is clean, so is the second, with the same result and the same events up to order -/
def CleanEq {α : Type} (o₁ o₂ : α × St) : Prop :=
  o₁.2.sink = [] → (o₂.2.sink = [] ∧ o₁.1 = o₂.1 ∧ o₁.2.log.Perm o₂.2.log)

theorem CleanEq.refl {α : Type} (o : α × St) : CleanEq o o := fun h => ⟨h, rfl, List.Perm.refl _⟩

theorem CleanEq.trans {α : Type} {a b c : α × St} (h1 : CleanEq a b) (h2 : CleanEq b c) : CleanEq a c := by
  intro h
  obtain ⟨hb, e1, p1⟩ := h1 h
  obtain ⟨hc, e2, p2⟩ := h2 hb
  exact ⟨hc, e1.trans e2, p1.trans p2⟩

/-- one step of a slice loop, when the loop (or the step and the rest) is clean -/
theorem sliceLoop_cons_clean (child : Child) (path : List String)
    (hc : ∀ p v d, CleanLocal (fun st => child p v d st))
    (hext : ∀ p v d st, Extends st (child p v d st).2)
    (x : Val × DVal × Nat) (rest : List (Val × DVal × Nat)) (ds : List DVal)
    (h : (sliceLoop child path (x :: rest) ds {}).2.sink = [] ∨
         ((child (path ++ ["[" ++ toString x.2.2 ++ "]"]) x.1 x.2.1 {}).2.sink = [] ∧
          (sliceLoop child path rest (ds ++ [(child (path ++ ["[" ++ toString x.2.2 ++ "]"]) x.1 x.2.1 {}).1]) {}).2.sink = [])) :
    sliceLoop child path (x :: rest) ds {} =
      ((sliceLoop child path rest (ds ++ [(child (path ++ ["[" ++ toString x.2.2 ++ "]"]) x.1 x.2.1 {}).1]) {}).1,
       (child (path ++ ["[" ++ toString x.2.2 ++ "]"]) x.1 x.2.1 {}).2.app
         (sliceLoop child path rest (ds ++ [(child (path ++ ["[" ++ toString x.2.2 ++ "]"]) x.1 x.2.1 {}).1]) {}).2) ∧
    (child (path ++ ["[" ++ toString x.2.2 ++ "]"]) x.1 x.2.1 {}).2.sink = [] ∧
    (sliceLoop child path rest (ds ++ [(child (path ++ ["[" ++ toString x.2.2 ++ "]"]) x.1 x.2.1 {}).1]) {}).2.sink = [] := by
  have ih := sliceLoop_cleanLocal child path hc hext rest (ds ++ [(child (path ++ ["[" ++ toString x.2.2 ++ "]"]) x.1 x.2.1 {}).1])
  have step : sliceLoop child path (x :: rest) ds {} =
      sliceLoop child path rest (ds ++ [(child (path ++ ["[" ++ toString x.2.2 ++ "]"]) x.1 x.2.1 {}).1])
        (child (path ++ ["[" ++ toString x.2.2 ++ "]"]) x.1 x.2.1 {}).2 := rfl
  have facts : (child (path ++ ["[" ++ toString x.2.2 ++ "]"]) x.1 x.2.1 {}).2.sink = [] ∧
      (sliceLoop child path rest (ds ++ [(child (path ++ ["[" ++ toString x.2.2 ++ "]"]) x.1 x.2.1 {}).1]) {}).2.sink = [] := by
    rcases h with h | h
    · rw [step] at h
      have h0 := extends_clean (sliceLoop_extends child path hext rest _ _) h
      exact ⟨h0, (ih.both _ h0 (.inl h)).2⟩
    · exact h
  refine ⟨?_, facts.1, facts.2⟩
  rw [step]
  exact ih _ facts.1 (.inr facts.2)

theorem sliceLoop_cleanEq (c₁ c₂ : Child) (path : List String)
    (h1 : ∀ p v d, CleanLocal (fun st => c₁ p v d st)) (h2 : ∀ p v d, CleanLocal (fun st => c₂ p v d st))
    (e1 : ∀ p v d st, Extends st (c₁ p v d st).2) (e2 : ∀ p v d st, Extends st (c₂ p v d st).2)
    (he : ∀ p v d, CleanEq (c₁ p v d {}) (c₂ p v d {})) :
    ∀ (xs : List (Val × DVal × Nat)) (ds : List DVal), CleanEq (sliceLoop c₁ path xs ds {}) (sliceLoop c₂ path xs ds {})
  | [], ds => CleanEq.refl _
  | x :: rest, ds => by
    intro h
    obtain ⟨d1, hx1, hr1⟩ := sliceLoop_cons_clean c₁ path h1 e1 x rest ds (.inl h)
    obtain ⟨hx2, hxe, hxp⟩ := he _ x.1 x.2.1 hx1
    rw [hxe] at d1 hr1
    obtain ⟨hr2, hre, hrp⟩ := sliceLoop_cleanEq c₁ c₂ path h1 h2 e1 e2 he rest _ hr1
    obtain ⟨d2, _, _⟩ := sliceLoop_cons_clean c₂ path h2 e2 x rest ds (.inr ⟨hx2, hr2⟩)
    rw [d1, d2]
    refine ⟨?_, hre, ?_⟩
    · show _ ++ _ = []
      rw [hx2, hr2]; rfl
    · show List.Perm (_ ++ _) (_ ++ _)
      exact List.Perm.append hxp hrp

theorem fieldLoop_cons_clean (step : String → DVal → St → Out)
    (hs : ∀ k d, CleanLocal (fun st => step k d st))
    (hext : ∀ k d st, Extends st (step k d st).2)
    (k : String) (ks : List String) (d : DVal)
    (h : (fieldLoop step (k :: ks) d {}).2.sink = [] ∨
         ((step k d {}).2.sink = [] ∧ (fieldLoop step ks (step k d {}).1 {}).2.sink = [])) :
    fieldLoop step (k :: ks) d {} =
      ((fieldLoop step ks (step k d {}).1 {}).1, (step k d {}).2.app (fieldLoop step ks (step k d {}).1 {}).2) ∧
    (step k d {}).2.sink = [] ∧ (fieldLoop step ks (step k d {}).1 {}).2.sink = [] := by
  have ih := fieldLoop_cleanLocal step hs hext ks (step k d {}).1
  have stp : fieldLoop step (k :: ks) d {} = fieldLoop step ks (step k d {}).1 (step k d {}).2 := rfl
  have facts : (step k d {}).2.sink = [] ∧ (fieldLoop step ks (step k d {}).1 {}).2.sink = [] := by
    rcases h with h | h
    · rw [stp] at h
      have h0 := extends_clean (fieldLoop_extends step hext ks _ _) h
      exact ⟨h0, (ih.both _ h0 (.inl h)).2⟩
    · exact h
  refine ⟨?_, facts.1, facts.2⟩
  rw [stp]
  exact ih _ facts.1 (.inr facts.2)

/-- same key list, two step functions that agree on clean runs -/
theorem fieldLoop_cleanEq (s₁ s₂ : String → DVal → St → Out)
    (h1 : ∀ k d, CleanLocal (fun st => s₁ k d st)) (h2 : ∀ k d, CleanLocal (fun st => s₂ k d st))
    (e1 : ∀ k d st, Extends st (s₁ k d st).2) (e2 : ∀ k d st, Extends st (s₂ k d st).2)
    (he : ∀ k d, CleanEq (s₁ k d {}) (s₂ k d {})) :
    ∀ (ks : List String) (d : DVal), CleanEq (fieldLoop s₁ ks d {}) (fieldLoop s₂ ks d {})
  | [], d => CleanEq.refl _
  | k :: ks, d => by
    intro h
    obtain ⟨d1, hk1, hr1⟩ := fieldLoop_cons_clean s₁ h1 e1 k ks d (.inl h)
    obtain ⟨hk2, hke, hkp⟩ := he k d hk1
    rw [hke] at d1 hr1
    obtain ⟨hr2, hre, hrp⟩ := fieldLoop_cleanEq s₁ s₂ h1 h2 e1 e2 he ks _ hr1
    obtain ⟨d2, _, _⟩ := fieldLoop_cons_clean s₂ h2 e2 k ks d (.inr ⟨hk2, hr2⟩)
    rw [d1, d2]
    refine ⟨?_, hre, ?_⟩
    · show _ ++ _ = []
      rw [hk2, hr2]; rfl
    · show List.Perm (_ ++ _) (_ ++ _)
      exact List.Perm.append hkp hrp

/-- one step function whose steps commute: a permutation of the key list, on clean runs -/
theorem fieldLoop_perm_clean (step : String → DVal → St → Out)
    (hs : ∀ k d, CleanLocal (fun st => step k d st))
    (hext : ∀ k d st, Extends st (step k d st).2)
    (hcomm : ∀ a b d, a ≠ b →
      (step b (step a d {}).1 {}).1 = (step a (step b d {}).1 {}).1 ∧
      (step b (step a d {}).1 {}).2 = (step b d {}).2)
    {ks₁ ks₂ : List String} (hp : ks₁.Perm ks₂) : ∀ d, CleanEq (fieldLoop step ks₁ d {}) (fieldLoop step ks₂ d {}) := by
  induction hp with
  | nil => intro d; exact CleanEq.refl _
  | cons k _ ih =>
    intro d h
    obtain ⟨d1, hk, hr1⟩ := fieldLoop_cons_clean step hs hext k _ d (.inl h)
    obtain ⟨hr2, hre, hrp⟩ := ih (step k d {}).1 hr1
    obtain ⟨d2, _, _⟩ := fieldLoop_cons_clean step hs hext k _ d (.inr ⟨hk, hr2⟩)
    rw [d1, d2]
    refine ⟨?_, hre, ?_⟩
    · show _ ++ _ = []
      rw [hk, hr2]; rfl
    · show List.Perm (_ ++ _) (_ ++ _)
      exact List.Perm.append_left _ hrp
  | swap a b l =>
    intro d h
    by_cases hab : a = b
    · subst hab; exact CleanEq.refl _ h
    · -- left: b then a then l ; right: a then b then l
      obtain ⟨d1, hb, hr1⟩ := fieldLoop_cons_clean step hs hext b (a :: l) d (.inl h)
      obtain ⟨d1', ha', hl1⟩ := fieldLoop_cons_clean step hs hext a l (step b d {}).1 (.inl hr1)
      have c1 := hcomm b a d (Ne.symm hab)   -- a after b
      have c2 := hcomm a b d hab             -- b after a
      have ha : (step a d {}).2.sink = [] := by rw [← c1.2]; exact ha'
      have hb' : (step b (step a d {}).1 {}).2.sink = [] := by rw [c2.2]; exact hb
      have hl2 : (fieldLoop step l (step b (step a d {}).1 {}).1 {}).2.sink = [] := by rw [c2.1]; exact hl1
      obtain ⟨d2', _, _⟩ := fieldLoop_cons_clean step hs hext b l (step a d {}).1 (.inr ⟨hb', hl2⟩)
      have hr2 : (fieldLoop step (b :: l) (step a d {}).1 {}).2.sink = [] := by
        rw [d2']
        show _ ++ _ = []
        rw [hb', hl2]; rfl
      obtain ⟨d2, _, _⟩ := fieldLoop_cons_clean step hs hext a (b :: l) d (.inr ⟨ha, hr2⟩)
      rw [d1, d1', d2, d2']
      simp only
      rw [c1.2, c2.2, c2.1]
      refine ⟨?_, rfl, ?_⟩
      · show _ ++ (_ ++ _) = []
        rw [ha, hb, hl1]; rfl
      · show List.Perm (_ ++ (_ ++ _)) (_ ++ (_ ++ _))
        rw [← List.append_assoc, ← List.append_assoc]
        exact List.Perm.append_right _ List.perm_append_comm
  | trans _ _ ih1 ih2 => intro d; exact (ih1 d).trans (ih2 d)

end Spec
end Zog

namespace Zog
namespace Spec
open Engine (Prov provOf orderOf zipIdx3)

theorem postLoop_fmt (env₁ env₂ : Env) (hf : env₁.fmt = env₂.fmt) (dt ps : String) : ∀ (posts : List Post) (x : DVal) (st : St),
    postLoop env₁ dt ps posts x st = postLoop env₂ dt ps posts x st
  | [], _, _ => rfl
  | p :: rest, x, st => by
    simp only [postLoop]
    rcases p.run x with ⟨x', e⟩
    cases e with
    | none => exact postLoop_fmt env₁ env₂ hf dt ps rest x' _
    | some e => cases e <;> simp [issueOfPostErr, hf]

/-- a primitive node (PostTransforms included) looks at the environment only through the formatter -/
theorem prim_env (env₁ env₂ : Env) (hf : env₁.fmt = env₂.fmt) (m : Mode) (p : Prim)
    (path : List String) (v : Val) (d : DVal) (st : St) :
    prim env₁ m p path v d st = prim env₂ m p path v d st := by
  have hb : primBody env₁ m p path v d st = primBody env₂ m p path v d st := by
    unfold primBody tested
    simp only [issueOfTest, coerceIssue, hf, testAll_fmt env₁ env₂ hf]
  unfold prim runPosts
  rw [hb]
  split
  · exact postLoop_fmt env₁ env₂ hf _ _ _ _ _
  · rfl

/-- the deferred PostTransform block preserves agreement on clean runs -/
theorem runPosts_cleanEq (env₁ env₂ : Env) (hf : env₁.fmt = env₂.fmt) (dt ps : String) (posts : List Post) (b₁ b₂ : Out)
    (h : CleanEq b₁ b₂) : CleanEq (runPosts env₁ dt ps posts b₁) (runPosts env₂ dt ps posts b₂) := by
  intro hc
  have hb1 := extends_clean (runPosts_extends env₁ dt ps posts b₁) hc
  obtain ⟨hb2, he, hp⟩ := h hb1
  simp only [runPosts, hb1, hb2, List.isEmpty_nil, ↓reduceIte] at hc ⊢
  rw [postLoop_local env₁ dt ps posts b₁.1 b₁.2] at hc ⊢
  rw [postLoop_local env₂ dt ps posts b₂.1 b₂.2, ← he, ← postLoop_fmt env₁ env₂ hf]
  have hP : (postLoop env₁ dt ps posts b₁.1 {}).2.sink = [] := by
    have : (b₁.2.app (postLoop env₁ dt ps posts b₁.1 {}).2).sink = [] := hc
    simpa [St.app, hb1] using this
  refine ⟨?_, rfl, ?_⟩
  · show _ ++ _ = []
    rw [hb2, hP]; rfl
  · show List.Perm (_ ++ _) (_ ++ _)
    exact List.Perm.append_right _ hp

/-- a local continuation (the node's own tests) preserves agreement on clean runs -/
theorem CleanEq.bind {α β : Type} (r₁ r₂ : α × St) (h₁ h₂ : α → St → β × St) (h : CleanEq r₁ r₂)
    (l1 : ∀ a st, h₁ a st = ((h₁ a {}).1, st.app (h₁ a {}).2))
    (l2 : ∀ a st, h₂ a st = ((h₂ a {}).1, st.app (h₂ a {}).2))
    (heq : ∀ a, h₁ a {} = h₂ a {}) (hext : ∀ a st, Extends st (h₁ a st).2) :
    CleanEq (h₁ r₁.1 r₁.2) (h₂ r₂.1 r₂.2) := by
  intro hc
  have hr1 := extends_clean (hext _ _) hc
  obtain ⟨hr2, he, hp⟩ := h hr1
  rw [l1] at hc ⊢
  rw [l2, ← he, ← heq]
  have hT : (h₁ r₁.1 {}).2.sink = [] := by
    have : (r₁.2.app (h₁ r₁.1 {}).2).sink = [] := hc
    simpa [St.app, hr1] using this
  refine ⟨?_, rfl, ?_⟩
  · show _ ++ _ = []
    rw [hr2, hT]; rfl
  · show List.Perm (_ ++ _) (_ ++ _)
    exact List.Perm.append_right _ hp

theorem CleanEq.map {α β : Type} (r₁ r₂ : α × St) (F : α → β) (h : CleanEq r₁ r₂) : CleanEq (F r₁.1, r₁.2) (F r₂.1, r₂.2) := by
  intro hc
  obtain ⟨h2, he, hp⟩ := h hc
  exact ⟨h2, by simp [he], hp⟩

/-- starting both runs from the same clean state instead of the empty one -/
theorem CleanEq.fromClean (g₁ g₂ : St → Out) (c1 : CleanLocal g₁) (c2 : CleanLocal g₂) (h : CleanEq (g₁ {}) (g₂ {}))
    (st : St) (hs : st.sink = []) : CleanEq (g₁ st) (g₂ st) := by
  intro hc
  obtain ⟨_, h10⟩ := c1.both st hs (.inl hc)
  obtain ⟨h20, he, hp⟩ := h h10
  rw [c1 st hs (.inr h10), c2 st hs (.inr h20)]
  refine ⟨?_, he, ?_⟩
  · show _ ++ _ = []
    rw [hs, h20]; rfl
  · show List.Perm (_ ++ _) (_ ++ _)
    exact List.Perm.append_left _ hp

end Spec
end Zog

namespace Zog
namespace Spec
open Engine (Prov provOf orderOf zipIdx3)

mutual
/-- **On success nothing depends on the visit order — every well-formed schema, PostTransforms
    included.** If the execution under one visit oracle records no issue, the execution under any
    other oracle records none either, leaves the same destination and runs the same callbacks (up
    to order). -/
theorem proc_success_order_indep (fmt : String → String → List (String × String) → String) (ω₁ ω₂ : String → List String) (m : Mode) :
    ∀ (s : Schema), s.WF → ∀ (tag : Option String) (path : List String) (v : Val) (d : DVal),
      CleanEq (proc ⟨fmt, ω₁⟩ m s tag path v d {}) (proc ⟨fmt, ω₂⟩ m s tag path v d {})
  | .prim p, _, tag, path, v, d => by
    simp only [proc]
    rw [prim_env ⟨fmt, ω₁⟩ ⟨fmt, ω₂⟩ rfl m p]
    exact CleanEq.refl _
  | .custom c, _, tag, path, v, d => by
    have : proc ⟨fmt, ω₁⟩ m (.custom c) tag path v d {} = proc ⟨fmt, ω₂⟩ m (.custom c) tag path v d {} := by
      unfold proc; rfl
    rw [this]; exact CleanEq.refl _
  | .ptr elem zp nn, hw, tag, path, v, d => by
    simp only [Schema.WF] at hw
    unfold proc
    cases Engine.ptrAbsent m v d
    · simp only [Bool.false_eq_true, ↓reduceIte]
      exact CleanEq.map _ _ (fun x => DVal.ptr (some x)) (proc_success_order_indep fmt ω₁ ω₂ m elem hw tag path v (d.pointee zp))
    · simp only [↓reduceIte]
      cases nn <;> exact CleanEq.refl _
  | .pre ps inner, hw, tag, path, v, d => by
    simp only [Schema.WF] at hw
    unfold proc
    cases m <;> simp only
    · cases ps.accept v
      · exact CleanEq.refl _
      · simp only [↓reduceIte]
        rcases hr : ps.run v with ⟨v', e⟩
        cases e with
        | none =>
          simp only
          exact CleanEq.fromClean _ _ (proc_cleanLocal ⟨fmt, ω₁⟩ .parse inner tag path v' d) (proc_cleanLocal ⟨fmt, ω₂⟩ .parse inner tag path v' d)
            (proc_success_order_indep fmt ω₁ ω₂ .parse inner hw tag path v' d) _ rfl
        | some e => exact CleanEq.refl _
    · rcases hr : ps.runD d with ⟨d', e⟩
      cases e with
      | none =>
        simp only
        exact CleanEq.fromClean _ _ (proc_cleanLocal ⟨fmt, ω₁⟩ .validate inner tag path v d') (proc_cleanLocal ⟨fmt, ω₂⟩ .validate inner tag path v d')
          (proc_success_order_indep fmt ω₁ ω₂ .validate inner hw tag path v d') _ rfl
      | some e => exact CleanEq.refl _
  | .slice elem sm, hw, tag, path, v, d => by
    simp only [Schema.WF] at hw
    rw [proc_slice_eq, proc_slice_eq]
    refine runPosts_cleanEq ⟨fmt, ω₁⟩ ⟨fmt, ω₂⟩ rfl "slice" (render path) sm.posts _ _ ?_
    have items : ∀ (ins : List Val) (ds : List DVal),
        CleanEq (sliceItems ⟨fmt, ω₁⟩ m elem sm path ins ds {}) (sliceItems ⟨fmt, ω₂⟩ m elem sm path ins ds {}) := by
      intro ins ds
      have sl := sliceLoop_cleanEq (proc ⟨fmt, ω₁⟩ m elem none) (proc ⟨fmt, ω₂⟩ m elem none) path
        (fun p v d => proc_cleanLocal ⟨fmt, ω₁⟩ m elem none p v d) (fun p v d => proc_cleanLocal ⟨fmt, ω₂⟩ m elem none p v d)
        (fun p v d st => proc_extends ⟨fmt, ω₁⟩ m elem none p v d st) (fun p v d st => proc_extends ⟨fmt, ω₂⟩ m elem none p v d st)
        (fun p v d => proc_success_order_indep fmt ω₁ ω₂ m elem hw none p v d) (zipIdx3 ins ds 0) []
      exact CleanEq.bind _ _
        (fun r st => (DVal.slice r, testAll ⟨fmt, ω₁⟩ "slice" (render path) sm.tests (DVal.slice r) st))
        (fun r st => (DVal.slice r, testAll ⟨fmt, ω₂⟩ "slice" (render path) sm.tests (DVal.slice r) st)) sl
        (fun r st => by simp only; rw [testAll_local ⟨fmt, ω₁⟩ "slice" (render path) sm.tests (DVal.slice r) st])
        (fun r st => by simp only; rw [testAll_local ⟨fmt, ω₂⟩ "slice" (render path) sm.tests (DVal.slice r) st])
        (fun r => by rw [testAll_fmt ⟨fmt, ω₁⟩ ⟨fmt, ω₂⟩ rfl])
        (fun r st => testAll_extends _ _ _ _ _ _)
    unfold sliceBody
    cases m <;> simp only
    · by_cases ha : isParseZero v = true
      · simp only [ha, ↓reduceIte]
        cases sm.dfltIn with
        | some xs => exact items xs _
        | none => cases sm.required <;> exact CleanEq.refl _
      · simp only [ha, Bool.false_eq_true, ↓reduceIte]
        cases sm.coerce v with
        | none => exact CleanEq.refl _
        | some xs => exact items xs _
    · by_cases hce : d.elems.isEmpty = true
      · simp only [hce, ↓reduceIte]
        cases sm.dfltD with
        | some ds => exact items _ ds
        | none => cases sm.required <;> exact CleanEq.refl _
      · simp only [hce, Bool.false_eq_true, ↓reduceIte]
        exact items _ _
  | .struct fs tests posts, hw, tag, path, v, d => by
    simp only [Schema.WF] at hw
    obtain ⟨hkeys, hinj, hwf⟩ := hw
    rw [proc_struct_eq, proc_struct_eq]
    refine runPosts_cleanEq ⟨fmt, ω₁⟩ ⟨fmt, ω₂⟩ rfl "struct" (render path) posts _ _ ?_
    have fields : ∀ prov : Prov,
        CleanEq (structFields ⟨fmt, ω₁⟩ m fs tests tag prov path d {}) (structFields ⟨fmt, ω₂⟩ m fs tests tag prov path d {}) := by
      intro prov
      have c1 := fun k d => procKey_cleanLocal ⟨fmt, ω₁⟩ m fs k tag prov path d
      have c2 := fun k d => procKey_cleanLocal ⟨fmt, ω₂⟩ m fs k tag prov path d
      have x1 := fun k d st => procKey_extends ⟨fmt, ω₁⟩ m fs k tag prov path d st
      have x2 := fun k d st => procKey_extends ⟨fmt, ω₂⟩ m fs k tag prov path d st
      -- (A) same key list, the two environments
      have hA := fieldLoop_cleanEq _ _ c1 c2 x1 x2
        (fun k d => procKey_success_order_indep fmt ω₁ ω₂ m fs hwf k tag prov path d)
        (orderOf (ω₁ (render path)) fs.keys) d
      -- (B) one environment, the two key orders
      have hperm : (orderOf (ω₁ (render path)) fs.keys).Perm (orderOf (ω₂ (render path)) fs.keys) :=
        (orderOf_perm _ _).trans (orderOf_perm _ _).symm
      have hB := fieldLoop_perm_clean (fun k d st => procKey ⟨fmt, ω₂⟩ m fs k tag prov path d st) c2 x2
        (by
          intro a b d hab
          simp only [procKey_eq_fieldStep]
          exact fieldStep_comm ⟨fmt, ω₂⟩ m fs tag prov path hinj a b d hab)
        hperm d
      have hAB := hA.trans hB
      exact CleanEq.bind _ _
        (fun r st => (r, testAll ⟨fmt, ω₁⟩ "struct" (render path) tests r st))
        (fun r st => (r, testAll ⟨fmt, ω₂⟩ "struct" (render path) tests r st)) hAB
        (fun r st => by simp only; rw [testAll_local ⟨fmt, ω₁⟩ "struct" (render path) tests r st])
        (fun r st => by simp only; rw [testAll_local ⟨fmt, ω₂⟩ "struct" (render path) tests r st])
        (fun r => by rw [testAll_fmt ⟨fmt, ω₁⟩ ⟨fmt, ω₂⟩ rfl])
        (fun r st => testAll_extends _ _ _ _ _ _)
    unfold structBody
    cases m <;> simp only
    · cases provOf v with
      | none => exact CleanEq.refl _
      | some prov => exact fields prov
    · exact fields .empty
theorem procKey_success_order_indep (fmt : String → String → List (String × String) → String) (ω₁ ω₂ : String → List String) (m : Mode) :
    ∀ (fs : Fields), fs.WF → ∀ (key : String) (tag : Option String) (prov : Prov) (path : List String) (d : DVal),
      CleanEq (procKey ⟨fmt, ω₁⟩ m fs key tag prov path d {}) (procKey ⟨fmt, ω₂⟩ m fs key tag prov path d {})
  | .nil, _, _, _, _, _, _ => by simp only [procKey]; exact CleanEq.refl _
  | .cons k fm s rest, hw, key, tag, prov, path, d => by
    simp only [Fields.WF] at hw
    unfold procKey
    by_cases hk : (k == key) = true
    · simp only [hk, ↓reduceIte]
      have ih := proc_success_order_indep fmt ω₁ ω₂ m s hw.1 none
      cases m <;> exact CleanEq.map _ _ (fun x => d.set fm.goName x) (ih _ _ _)
    · simp only [hk, Bool.false_eq_true, ↓reduceIte]
      exact procKey_success_order_indep fmt ω₁ ω₂ m rest hw.2 key tag prov path d
end

end Spec
end Zog
