import Zog.Valid

/-!
# Clean runs are local — for EVERY schema, PostTransforms included
With PostTransforms a node's behaviour depends on the issues recorded before it (they are gated on
"no issue so far"), so `Local` (Zog/Local.lean) fails. But a run that starts from a clean state and
ends clean never sees a closed gate: it behaves exactly as it does from the empty state. That is all
the statements about SUCCESSFUL executions need, and it holds for every schema.
-/

namespace Zog
namespace Spec
open Engine (Prov)

/-- a run from a clean state that ends clean — or whose run from the empty state ends clean — is
    the run from the empty state with the start state prepended -/
def CleanLocal {α : Type} (f : St → α × St) : Prop :=
  ∀ st, st.sink = [] → ((f st).2.sink = [] ∨ (f {}).2.sink = []) → f st = ((f {}).1, st.app (f {}).2)

theorem CleanLocal.of_local {α : Type} {f : St → α × St} (h : ∀ st, f st = ((f {}).1, st.app (f {}).2)) : CleanLocal f :=
  fun st _ _ => h st

theorem extends_clean {a b : St} (h : Extends a b) (hb : b.sink = []) : a.sink = [] := by
  obtain ⟨e, he⟩ := h
  rw [he] at hb
  exact (List.append_eq_nil_iff.mp hb).1

/-- both runs are clean once one of them is -/
theorem CleanLocal.both {α : Type} {f : St → α × St} (h : CleanLocal f) (st : St) (hs : st.sink = [])
    (hc : (f st).2.sink = [] ∨ (f {}).2.sink = []) : (f st).2.sink = [] ∧ (f {}).2.sink = [] := by
  have e := h st hs hc
  rcases hc with hc | hc
  · refine ⟨hc, ?_⟩
    rw [e] at hc
    simpa [St.app, hs] using hc
  · refine ⟨?_, hc⟩
    rw [e]
    simp [St.app, hs, hc]

theorem postLoop_local (env : Env) (dt ps : String) : ∀ (posts : List Post) (x : DVal) (st : St),
    postLoop env dt ps posts x st = ((postLoop env dt ps posts x {}).1, st.app (postLoop env dt ps posts x {}).2)
  | [], x, st => by simp [postLoop, St.app]
  | p :: rest, x, st => by
    simp only [postLoop]
    rcases hr : p.run x with ⟨x', e⟩
    cases e with
    | none =>
      simp only
      rw [postLoop_local env dt ps rest x' { st with log := st.log ++ [⟨.post, p.id, ps, x⟩] },
          postLoop_local env dt ps rest x' { log := ([] : List Event) ++ [⟨.post, p.id, ps, x⟩] }]
      simp [St.app, List.append_assoc]
    | some e => simp [St.app, emit]

/-- the deferred PostTransform block after a clean-local body -/
theorem runPosts_cleanLocal (env : Env) (dt ps : String) (posts : List Post) (body : St → Out)
    (hb : CleanLocal body) :
    CleanLocal (fun st => runPosts env dt ps posts (body st)) := by
  intro st hs hc
  have hbc : (body st).2.sink = [] ∨ (body {}).2.sink = [] := by
    rcases hc with hc | hc
    · exact .inl (extends_clean (runPosts_extends env dt ps posts (body st)) hc)
    · exact .inr (extends_clean (runPosts_extends env dt ps posts (body {})) hc)
  have e := hb st hs hbc
  obtain ⟨hb1, hb0⟩ := hb.both st hs hbc
  simp only [runPosts, hb1, hb0, List.isEmpty_nil, ↓reduceIte]
  rw [e]
  simp only
  rw [postLoop_local env dt ps posts (body {}).1 (st.app (body {}).2), postLoop_local env dt ps posts (body {}).1 (body {}).2]
  simp [St.app_assoc]

/-- a loop over clean-local children is clean-local -/
theorem sliceLoop_cleanLocal (child : Child) (path : List String)
    (hc : ∀ p v d, CleanLocal (fun st => child p v d st))
    (hext : ∀ p v d st, Extends st (child p v d st).2) :
    ∀ (xs : List (Val × DVal × Nat)) (ds : List DVal), CleanLocal (fun st => sliceLoop child path xs ds st)
  | [], ds => fun st _ _ => by simp [sliceLoop, St.app]
  | x :: rest, ds => by
    intro st hs hcl
    simp only [sliceLoop] at hcl ⊢
    -- the first child's own run is clean, whichever of the two loop runs is
    have hch : (child (path ++ ["[" ++ toString x.2.2 ++ "]"]) x.1 x.2.1 st).2.sink = [] ∨
        (child (path ++ ["[" ++ toString x.2.2 ++ "]"]) x.1 x.2.1 {}).2.sink = [] := by
      rcases hcl with h | h
      · exact .inl (extends_clean (sliceLoop_extends child path hext rest _ _) h)
      · exact .inr (extends_clean (sliceLoop_extends child path hext rest _ _) h)
    have e := hc _ x.1 x.2.1 st hs hch
    obtain ⟨_, h0⟩ := (hc _ x.1 x.2.1).both st hs hch
    simp only at e h0
    rw [e] at hcl ⊢
    simp only at hcl ⊢
    have hst1 : (st.app (child (path ++ ["[" ++ toString x.2.2 ++ "]"]) x.1 x.2.1 {}).2).sink = [] := by
      show st.sink ++ _ = []
      rw [hs, h0]; rfl
    have ih := sliceLoop_cleanLocal child path hc hext rest (ds ++ [(child (path ++ ["[" ++ toString x.2.2 ++ "]"]) x.1 x.2.1 {}).1])
    -- the rest of the loop, run from the empty state, is clean
    have hrest0 : (sliceLoop child path rest (ds ++ [(child (path ++ ["[" ++ toString x.2.2 ++ "]"]) x.1 x.2.1 {}).1]) {}).2.sink = [] := by
      rcases hcl with h | h
      · exact (ih.both _ hst1 (.inl h)).2
      · exact (ih.both _ h0 (.inl h)).2
    have e1 := ih _ hst1 (.inr hrest0)
    have e2 := ih _ h0 (.inr hrest0)
    simp only at e1 e2
    rw [e1, e2]
    simp [St.app_assoc]

theorem fieldLoop_cleanLocal (step : String → DVal → St → Out)
    (hs : ∀ k d, CleanLocal (fun st => step k d st))
    (hext : ∀ k d st, Extends st (step k d st).2) :
    ∀ (ks : List String) (d : DVal), CleanLocal (fun st => fieldLoop step ks d st)
  | [], d => fun st _ _ => by simp [fieldLoop, St.app]
  | k :: ks, d => by
    intro st hst hcl
    simp only [fieldLoop] at hcl ⊢
    have hch : (step k d st).2.sink = [] ∨ (step k d {}).2.sink = [] := by
      rcases hcl with h | h
      · exact .inl (extends_clean (fieldLoop_extends step hext ks _ _) h)
      · exact .inr (extends_clean (fieldLoop_extends step hext ks _ _) h)
    have e := hs k d st hst hch
    obtain ⟨_, h0⟩ := (hs k d).both st hst hch
    simp only at e h0
    rw [e] at hcl ⊢
    simp only at hcl ⊢
    have hst1 : (st.app (step k d {}).2).sink = [] := by
      show st.sink ++ _ = []
      rw [hst, h0]; rfl
    have ih := fieldLoop_cleanLocal step hs hext ks (step k d {}).1
    have hrest0 : (fieldLoop step ks (step k d {}).1 {}).2.sink = [] := by
      rcases hcl with h | h
      · exact (ih.both _ hst1 (.inl h)).2
      · exact (ih.both _ h0 (.inl h)).2
    have e1 := ih _ hst1 (.inr hrest0)
    have e2 := ih _ h0 (.inr hrest0)
    simp only at e1 e2
    rw [e1, e2]
    simp [St.app_assoc]

end Spec
end Zog

namespace Zog
namespace Spec
open Engine (Prov provOf orderOf zipIdx3)

theorem CleanLocal.bind {α β : Type} (g : St → α × St) (h : α → St → β × St) (hg : CleanLocal g)
    (hh : ∀ a st, h a st = ((h a {}).1, st.app (h a {}).2)) (hext : ∀ a st, Extends st (h a st).2) :
    CleanLocal (fun st => h (g st).1 (g st).2) := by
  intro st hs hc
  have hgc : (g st).2.sink = [] ∨ (g {}).2.sink = [] := by
    rcases hc with hc | hc
    · exact .inl (extends_clean (hext _ _) hc)
    · exact .inr (extends_clean (hext _ _) hc)
  have e := hg st hs hgc
  simp only
  rw [e]
  simp only
  rw [hh _ (st.app (g {}).2), hh _ (g {}).2]
  simp [St.app_assoc]

theorem CleanLocal.map {α β : Type} (g : St → α × St) (F : α → β) (hg : CleanLocal g) :
    CleanLocal (fun st => (F (g st).1, (g st).2)) :=
  CleanLocal.bind g (fun a st => (F a, st)) hg (fun a st => by simp [St.app]) (fun _ st => Extends.refl st)

/-- running from a state that only has one more log entry -/
theorem CleanLocal.afterLog (g : St → Out) (e : Event) (hg : CleanLocal g) :
    CleanLocal (fun st => g { st with log := st.log ++ [e] }) := by
  intro st hs hc
  simp only at hc ⊢
  have hs1 : ({ st with log := st.log ++ [e] } : St).sink = [] := hs
  have hs0 : ({ ({} : St) with log := ({} : St).log ++ [e] } : St).sink = [] := rfl
  have h0 : (g {}).2.sink = [] := by
    rcases hc with hc | hc
    · exact (hg.both _ hs1 (.inl hc)).2
    · exact (hg.both _ hs0 (.inl hc)).2
  rw [hg _ hs1 (.inr h0), hg _ hs0 (.inr h0)]
  simp [St.app, List.append_assoc]

/-- the body of a slice node (everything before its own PostTransforms) -/
def sliceBody (env : Env) (m : Mode) (elem : Schema) (sm : SliceMods) (path : List String) (v : Val) (d : DVal) (st : St) : Out :=
  let ps := render path
  let src : Sum Out (List Val × List DVal) :=
    match m with
    | .parse =>
      if isParseZero v then
        match sm.dfltIn with
        | some xs => .inr (xs, xs.map (fun _ => sm.zeroElem))
        | none =>
          match sm.required with
          | none => .inl (d, st)
          | some r => .inl (d, emit st (issueOfTest env ps "slice" r))
      else
        match sm.coerce v with
        | none => .inl (d, emit st (coerceIssue env ps "slice"))
        | some xs => .inr (xs, xs.map (fun _ => sm.zeroElem))
    | .validate =>
      let cur := d.elems
      if cur.isEmpty then
        match sm.dfltD with
        | some ds => .inr (ds.map (fun _ => Val.nil), ds)
        | none =>
          match sm.required with
          | none => .inl (d, st)
          | some r => .inl (d, emit st (issueOfTest env ps "slice" r))
      else .inr (cur.map (fun _ => Val.nil), cur)
  match src with
  | .inl o => o
  | .inr (ins, ds) =>
    let r := sliceLoop (proc env m elem none) path (zipIdx3 ins ds 0) [] st
    let dest := DVal.slice r.1
    (dest, testAll env "slice" ps sm.tests dest r.2)

theorem proc_slice_eq (env : Env) (m : Mode) (elem : Schema) (sm : SliceMods) (tag : Option String) (path : List String)
    (v : Val) (d : DVal) (st : St) :
    proc env m (.slice elem sm) tag path v d st =
      runPosts env "slice" (render path) sm.posts (sliceBody env m elem sm path v d st) := by
  unfold proc sliceBody
  rfl

/-- the items branch of a slice body -/
def sliceItems (env : Env) (m : Mode) (elem : Schema) (sm : SliceMods) (path : List String) (ins : List Val) (ds : List DVal) (st : St) : Out :=
  let r := sliceLoop (proc env m elem none) path (zipIdx3 ins ds 0) [] st
  (DVal.slice r.1, testAll env "slice" (render path) sm.tests (DVal.slice r.1) r.2)

theorem sliceItems_cleanLocal (env : Env) (m : Mode) (elem : Schema) (sm : SliceMods) (path : List String)
    (ih : ∀ p v d, CleanLocal (fun st => proc env m elem none p v d st)) (ins : List Val) (ds : List DVal) :
    CleanLocal (fun st => sliceItems env m elem sm path ins ds st) :=
  CleanLocal.bind (fun st => sliceLoop (proc env m elem none) path (zipIdx3 ins ds 0) [] st)
    (fun r st => (DVal.slice r, testAll env "slice" (render path) sm.tests (DVal.slice r) st))
    (sliceLoop_cleanLocal _ path ih (fun p v d st => proc_extends env m elem none p v d st) _ _)
    (fun r st => by
      simp only
      rw [testAll_local env "slice" (render path) sm.tests (DVal.slice r) st])
    (fun r st => testAll_extends _ _ _ _ _ _)

theorem sliceBody_cleanLocal (env : Env) (m : Mode) (elem : Schema) (sm : SliceMods) (path : List String) (v : Val) (d : DVal)
    (ih : ∀ p v d, CleanLocal (fun st => proc env m elem none p v d st)) :
    CleanLocal (fun st => sliceBody env m elem sm path v d st) := by
  have items := sliceItems_cleanLocal env m elem sm path ih
  unfold sliceBody
  cases m <;> simp only
  · by_cases ha : isParseZero v = true
    · simp only [ha, ↓reduceIte]
      cases sm.dfltIn with
      | some xs => exact items xs _
      | none =>
        cases sm.required with
        | none => exact CleanLocal.of_local (fun st => by simp [St.app])
        | some r => exact CleanLocal.of_local (fun st => by simp [St.app, emit])
    · simp only [ha, Bool.false_eq_true, ↓reduceIte]
      cases sm.coerce v with
      | none => exact CleanLocal.of_local (fun st => by simp [St.app, emit])
      | some xs => exact items xs _
  · by_cases hce : d.elems.isEmpty = true
    · simp only [hce, ↓reduceIte]
      cases sm.dfltD with
      | some ds => exact items _ ds
      | none =>
        cases sm.required with
        | none => exact CleanLocal.of_local (fun st => by simp [St.app])
        | some r => exact CleanLocal.of_local (fun st => by simp [St.app, emit])
    · simp only [hce, Bool.false_eq_true, ↓reduceIte]
      exact items _ _

end Spec
end Zog

namespace Zog
namespace Spec
open Engine (Prov provOf orderOf zipIdx3)

/-- the fields-and-tests part of a struct node for a given provider -/
def structFields (env : Env) (m : Mode) (fs : Fields) (tests : List Test) (tag : Option String) (prov : Prov)
    (path : List String) (d : DVal) (st : St) : Out :=
  let r := fieldLoop (fun k d st => procKey env m fs k tag prov path d st) (orderOf (env.ω (render path)) fs.keys) d st
  (r.1, testAll env "struct" (render path) tests r.1 r.2)

/-- the body of a struct node (everything before its own PostTransforms) -/
def structBody (env : Env) (m : Mode) (fs : Fields) (tests : List Test) (tag : Option String) (path : List String)
    (v : Val) (d : DVal) (st : St) : Out :=
  match m with
  | .validate => structFields env m fs tests tag .empty path d st
  | .parse =>
    match provOf v with
    | none => (d, emit st (coerceIssue env (render path) "struct"))
    | some prov => structFields env m fs tests tag prov path d st

theorem proc_struct_eq (env : Env) (m : Mode) (fs : Fields) (tests : List Test) (posts : List Post) (tag : Option String)
    (path : List String) (v : Val) (d : DVal) (st : St) :
    proc env m (.struct fs tests posts) tag path v d st =
      runPosts env "struct" (render path) posts (structBody env m fs tests tag path v d st) := by
  unfold proc structBody structFields
  cases m <;> rfl

theorem structFields_cleanLocal (env : Env) (m : Mode) (fs : Fields) (tests : List Test) (tag : Option String) (prov : Prov)
    (path : List String) (d : DVal)
    (ih : ∀ k d, CleanLocal (fun st => procKey env m fs k tag prov path d st)) :
    CleanLocal (fun st => structFields env m fs tests tag prov path d st) :=
  CleanLocal.bind (fun st => fieldLoop (fun k d st => procKey env m fs k tag prov path d st) (orderOf (env.ω (render path)) fs.keys) d st)
    (fun r st => (r, testAll env "struct" (render path) tests r st))
    (fieldLoop_cleanLocal _ ih (fun k d st => procKey_extends env m fs k tag prov path d st) _ _)
    (fun r st => by
      simp only
      rw [testAll_local env "struct" (render path) tests r st])
    (fun r st => testAll_extends _ _ _ _ _ _)

mutual
/-- **Clean runs are local, for every schema.** -/
theorem proc_cleanLocal (env : Env) (m : Mode) :
    ∀ (s : Schema) (tag : Option String) (path : List String) (v : Val) (d : DVal),
      CleanLocal (fun st => proc env m s tag path v d st)
  | .prim p, tag, path, v, d => by
    simp only [proc, prim]
    exact runPosts_cleanLocal env p.kind.dtype (render path) p.posts _
      (CleanLocal.of_local (primBody_local env m p path v d))
  | .slice elem sm, tag, path, v, d => by
    simp only [proc_slice_eq]
    exact runPosts_cleanLocal env "slice" (render path) sm.posts _
      (sliceBody_cleanLocal env m elem sm path v d (fun p v d => proc_cleanLocal env m elem none p v d))
  | .ptr elem zp nn, tag, path, v, d => by
    unfold proc
    cases Engine.ptrAbsent m v d
    · simp only [Bool.false_eq_true, ↓reduceIte]
      exact CleanLocal.map _ (fun x => DVal.ptr (some x)) (proc_cleanLocal env m elem tag path v (d.pointee zp))
    · simp only [↓reduceIte]
      cases nn with
      | none => exact CleanLocal.of_local (fun st => by simp [St.app])
      | some t => exact CleanLocal.of_local (fun st => by simp [St.app, emit])
  | .struct fs tests posts, tag, path, v, d => by
    simp only [proc_struct_eq]
    refine runPosts_cleanLocal env "struct" (render path) posts _ ?_
    unfold structBody
    cases m <;> simp only
    · cases provOf v with
      | none => exact CleanLocal.of_local (fun st => by simp [St.app, emit])
      | some prov =>
        exact structFields_cleanLocal env .parse fs tests tag prov path d (fun k d => procKey_cleanLocal env .parse fs k tag prov path d)
    · exact structFields_cleanLocal env .validate fs tests tag .empty path d (fun k d => procKey_cleanLocal env .validate fs k tag .empty path d)
  | .custom c, tag, path, v, d => by
    refine CleanLocal.of_local (fun st => ?_)
    unfold proc
    cases m <;> simp only
    · cases c.accept v with
      | none => simp [St.app, emit]
      | some x => by_cases hp : c.test.pred x = true <;> simp [hp, St.app, emit]
    · by_cases hp : c.test.pred d = true <;> simp [hp, St.app, emit]
  | .pre ps inner, tag, path, v, d => by
    unfold proc
    cases m <;> simp only
    · cases ps.accept v
      · exact CleanLocal.of_local (fun st => by simp [St.app, emit])
      · simp only [↓reduceIte]
        rcases hr : ps.run v with ⟨v', e⟩
        cases e with
        | none =>
          simp only
          exact CleanLocal.afterLog _ ⟨.pre, ps.id, render path, .custom v⟩ (proc_cleanLocal env .parse inner tag path v' d)
        | some e => exact CleanLocal.of_local (fun st => by simp [St.app, emit])
    · rcases hr : ps.runD d with ⟨d', e⟩
      cases e with
      | none =>
        simp only
        exact CleanLocal.afterLog _ ⟨.pre, ps.id, render path, d⟩ (proc_cleanLocal env .validate inner tag path v d')
      | some e => exact CleanLocal.of_local (fun st => by simp [St.app, emit])
theorem procKey_cleanLocal (env : Env) (m : Mode) :
    ∀ (fs : Fields) (key : String) (tag : Option String) (prov : Prov) (path : List String) (d : DVal),
      CleanLocal (fun st => procKey env m fs key tag prov path d st)
  | .nil, _, _, _, _, _ => CleanLocal.of_local (fun st => by simp [procKey, St.app])
  | .cons k fm s rest, key, tag, prov, path, d => by
    unfold procKey
    by_cases hk : (k == key) = true
    · simp only [hk, ↓reduceIte]
      exact CleanLocal.map _ (fun x => d.set fm.goName x) (proc_cleanLocal env m s none _ _ _)
    · simp only [hk, Bool.false_eq_true, ↓reduceIte]
      exact procKey_cleanLocal env m rest key tag prov path d
end

end Spec
end Zog
