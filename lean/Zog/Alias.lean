/-!
# Aliasing: copies of a slice Default   — C19
Go values with reference identity, as far as slices go: a value is a leaf or a slice whose
backing array lives at an ADDRESS and holds further values. Two values alias when they mention
the same address; an in-place write at an address changes every value that mentions it.
`deepCopy` (what `SliceSchema.validate` does with its Default since the D29 repair) relabels every
array with a fresh address; `shallowCopy` (what it did before) relabels the outer array only.
Core-only.
-/

namespace Zog
namespace Alias

/-- a Go value unfolded from the heap, every array annotated with its address -/
inductive HV where
  | leaf (n : Int)
  | arr (addr : Nat) (cells : List HV)

mutual
/-- addresses mentioned by a value -/
def addrs : HV → List Nat
  | .leaf _ => []
  | .arr a cs => a :: addrsL cs
def addrsL : List HV → List Nat
  | [] => []
  | c :: cs => addrs c ++ addrsL cs
end

mutual
/-- the abstract value: addresses forgotten (what `reflect.DeepEqual` compares) -/
def sameShape : HV → HV → Bool
  | .leaf a, .leaf b => a == b
  | .arr _ cs, .arr _ ds => sameShapeL cs ds
  | _, _ => false
def sameShapeL : List HV → List HV → Bool
  | [], [] => true
  | c :: cs, d :: ds => sameShape c d && sameShapeL cs ds
  | _, _ => false
end

mutual
/-- `internals.DeepCopy`: every array gets a fresh address (`next` is the allocator) -/
def deepCopy (next : Nat) : HV → HV × Nat
  | .leaf n => (.leaf n, next)
  | .arr _ cs =>
    let r := deepCopyL (next + 1) cs
    (.arr next r.1, r.2)
def deepCopyL (next : Nat) : List HV → List HV × Nat
  | [] => ([], next)
  | c :: cs =>
    let r := deepCopy next c
    let rs := deepCopyL r.2 cs
    (r.1 :: rs.1, rs.2)
end

/-- `reflect.Copy` into a fresh slice: a new outer array, the cells are the same values -/
def shallowCopy (next : Nat) : HV → HV × Nat
  | .leaf n => (.leaf n, next)
  | .arr _ cs => (.arr next cs, next + 1)

def setCell : List HV → Nat → HV → List HV
  | [], _, _ => []
  | _ :: cs, 0, x => x :: cs
  | c :: cs, i + 1, x => c :: setCell cs i x

mutual
/-- an in-place write `array(addr)[i] = x`, as seen by a value: every mention of `addr` changes -/
def write (addr i : Nat) (x : HV) : HV → HV
  | .leaf n => .leaf n
  | .arr a cs =>
    let cs' := writeL addr i x cs
    if a = addr then .arr a (setCell cs' i x) else .arr a cs'
def writeL (addr i : Nat) (x : HV) : List HV → List HV
  | [] => []
  | c :: cs => write addr i x c :: writeL addr i x cs
end

/-! ## copying preserves the value and allocates only fresh addresses -/

mutual
theorem deepCopy_shape (next : Nat) : ∀ v : HV, sameShape (deepCopy next v).1 v = true
  | .leaf n => by simp [deepCopy, sameShape]
  | .arr a cs => by simp [deepCopy, sameShape, deepCopyL_shape (next + 1) cs]
theorem deepCopyL_shape (next : Nat) : ∀ cs : List HV, sameShapeL (deepCopyL next cs).1 cs = true
  | [] => by simp [deepCopyL, sameShapeL]
  | c :: cs => by simp [deepCopyL, sameShapeL, deepCopy_shape next c, deepCopyL_shape _ cs]
end

mutual
theorem deepCopy_mono (next : Nat) : ∀ v : HV, next ≤ (deepCopy next v).2
  | .leaf _ => by simp [deepCopy]
  | .arr _ cs => by
    have := deepCopyL_mono (next + 1) cs
    simp only [deepCopy]; omega
theorem deepCopyL_mono (next : Nat) : ∀ cs : List HV, next ≤ (deepCopyL next cs).2
  | [] => by simp [deepCopyL]
  | c :: cs => by
    have h1 := deepCopy_mono next c
    have h2 := deepCopyL_mono (deepCopy next c).2 cs
    simp only [deepCopyL]; omega
end

mutual
/-- every address of the copy was allocated by the copy -/
theorem deepCopy_fresh (next : Nat) : ∀ (v : HV) (b : Nat), b ∈ addrs (deepCopy next v).1 → next ≤ b ∧ b < (deepCopy next v).2
  | .leaf _, b, h => by simp [deepCopy, addrs] at h
  | .arr _ cs, b, h => by
    simp only [deepCopy, addrs, List.mem_cons] at h ⊢
    have hm := deepCopyL_mono (next + 1) cs
    rcases h with rfl | h
    · omega
    · have := deepCopyL_fresh (next + 1) cs b h
      omega
theorem deepCopyL_fresh (next : Nat) : ∀ (cs : List HV) (b : Nat), b ∈ addrsL (deepCopyL next cs).1 → next ≤ b ∧ b < (deepCopyL next cs).2
  | [], b, h => by simp [deepCopyL, addrsL] at h
  | c :: cs, b, h => by
    simp only [deepCopyL, addrsL, List.mem_append] at h ⊢
    have h1 := deepCopy_mono next c
    have h2 := deepCopyL_mono (deepCopy next c).2 cs
    rcases h with h | h
    · have := deepCopy_fresh next c b h; omega
    · have := deepCopyL_fresh _ cs b h; omega
end

/-! ## a write only reaches values that mention its address -/

mutual
theorem write_frame (addr i : Nat) (x : HV) : ∀ v : HV, addr ∉ addrs v → write addr i x v = v
  | .leaf _, _ => by simp [write]
  | .arr a cs, h => by
    simp only [addrs, List.mem_cons, not_or] at h
    have hl := writeL_frame addr i x cs h.2
    have hne : ¬ a = addr := fun e => h.1 e.symm
    simp [write, hl, hne]
theorem writeL_frame (addr i : Nat) (x : HV) : ∀ cs : List HV, addr ∉ addrsL cs → writeL addr i x cs = cs
  | [], _ => by simp [writeL]
  | c :: cs, h => by
    simp only [addrsL, List.mem_append, not_or] at h
    simp [writeL, write_frame addr i x c h.1, writeL_frame addr i x cs h.2]
end

/-- a sequence of in-place writes -/
def writes (ws : List (Nat × Nat × HV)) (v : HV) : HV :=
  ws.foldl (fun acc w => write w.1 w.2.1 w.2.2 acc) v

/-- **The schema's default is out of reach of the destination.** The validated value is a deep copy
    allocated at `next`, above every address the default mentions; then NO sequence of in-place
    writes to arrays of the copy (or to arrays allocated later) changes the default — whatever is
    written, at whatever depth. -/
theorem default_out_of_reach (dflt : HV) (next : Nat) (hd : ∀ a ∈ addrs dflt, a < next)
    (ws : List (Nat × Nat × HV)) (hw : ∀ w ∈ ws, next ≤ w.1) :
    writes ws dflt = dflt := by
  induction ws with
  | nil => rfl
  | cons w ws ih =>
    have h1 : w.1 ∉ addrs dflt := fun hm => by
      have := hd w.1 hm
      have := hw w List.mem_cons_self
      omega
    simp only [writes, List.foldl_cons]
    rw [write_frame w.1 w.2.1 w.2.2 dflt h1]
    exact ih (fun w' hw' => hw w' (List.mem_cons_of_mem _ hw'))

/-- every array of the copy lies in the region those writes are allowed to touch, and the copy has
    the default's value -/
theorem copy_is_fresh_and_equal (dflt : HV) (next : Nat) :
    (∀ b ∈ addrs (deepCopy next dflt).1, next ≤ b) ∧ sameShape (deepCopy next dflt).1 dflt = true :=
  ⟨fun b hb => (deepCopy_fresh next dflt b hb).1, deepCopy_shape next dflt⟩

/-! ## the one-level copy does share (defect D29, repaired) -/

def leafAt : HV → List Nat → Option Int
  | .leaf n, [] => some n
  | .arr _ cs, i :: rest => match cs[i]? with
    | some c => leafAt c rest
    | none => none
  | _, _ => none

/-- a nested default `[[1, 2]]` at addresses 0 (outer) and 1 (inner); the validated value is a
    ONE-LEVEL copy (new outer array 2, same inner array 1); the PostTransform writes
    `value[0][0] = 9`, i.e. into array 1 — and the default now reads 9 -/
theorem shallow_copy_shares :
    let dflt := HV.arr 0 [HV.arr 1 [.leaf 1, .leaf 2]]
    let copy := (shallowCopy 2 dflt).1
    1 ∈ addrs copy ∧ leafAt dflt [0, 0] = some 1 ∧ leafAt (write 1 0 (.leaf 9) dflt) [0, 0] = some 9 := by
  decide

/-- the same scenario with the deep copy: the write goes to the copy's own inner array (address 3) -/
theorem deep_copy_does_not_share :
    let dflt := HV.arr 0 [HV.arr 1 [.leaf 1, .leaf 2]]
    let copy := (deepCopy 2 dflt).1
    addrs copy = [2, 3] ∧ leafAt (write 3 0 (.leaf 9) dflt) [0, 0] = some 1 ∧
      leafAt (write 3 0 (.leaf 9) copy) [0, 0] = some 9 := by
  decide

end Alias
end Zog
