import Zog.HelpersSim
import Zog.Gen.Facts
import Zog.Props.FactsOK

/-!
# C16 — Pick, Omit, Extend and Merge build independent schemas with set semantics
-/

namespace Zog.Props.C16
open Zog Helpers

/-- regenerated fact: `cloneShallow` copies the `tests` and `postTransforms` backing arrays -/
theorem clone_copies : Gen.cloneCopies = true := by decide

/-- the helpers never assign to a field or element of their receiver or of an operand (regenerated go/ast
    fact over every function of struct_helpers.go): they build new schemas and only READ the ones they are
    given — so a base schema may be derived from while other goroutines execute it -/
theorem helpers_write_no_operand : Gen.helperOperandWrites = [] := by decide

/-- **Refinement.** For every program over Struct / Test / Pick / Omit / Extend / Merge — all
    orders in which derived schemas are created and extended — and every slice growth policy, every
    schema object of the heap machine (Go slice headers with spare capacity, in-place `append`)
    is observed to be exactly its value in the pure specification. -/
theorem heap_refines_pure (grow : Nat → Nat) (ops : List Op) :
    (Heap.run Gen.cloneCopies grow ops).abs = Pure.run ops := by
  rw [clone_copies]
  exact (run_sim_aux grow ops Heap.init inv_init).2

/-- operands are never modified, and schemas derived from a common base never influence one
    another or the base: in the pure specification an operation changes at most the object it is
    applied to (`Test` on object `i`) and otherwise only adds a new object -/
theorem pure_step_frame (s : Pure) (op : Op) (j : Nat) (hj : j < s.length)
    (hne : ∀ i t, op = .test i t → i ≠ j) : (Pure.step s op)[j]? = s[j]? := by
  cases op with
  | mk f => simp [Pure.step, List.getElem?_append_left hj]
  | test i t =>
    simp only [Pure.step]
    cases s[i]? with
    | none => rfl
    | some o => simp [List.getElem?_set_ne (hne i t rfl)]
  | pick i keys => simp only [Pure.step]; cases s[i]? <;> simp [List.getElem?_append_left hj]
  | omitKeys i keys => simp only [Pure.step]; cases s[i]? <;> simp [List.getElem?_append_left hj]
  | extend i f => simp only [Pure.step]; cases s[i]? <;> simp [List.getElem?_append_left hj]
  | merge a b => simp only [Pure.step]; cases s[a]? <;> cases s[b]? <;> simp [List.getElem?_append_left hj]

/-- …hence the same holds for the real layout: an operation leaves every other object's fields and
    tests as they were -/
theorem heap_step_frame (grow : Nat → Nat) (h : Heap) (hi : Inv h) (op : Op) (j : Nat) (hj : j < h.objs.length)
    (hne : ∀ i t, op = .test i t → i ≠ j) : (h.step true grow op).abs[j]? = h.abs[j]? := by
  rw [(step_sim grow h hi op).2]
  exact pure_step_frame h.abs op j (by simpa [Heap.abs] using hj) hne

/-! ## set semantics of the field selection -/

theorem pick_fields (fm : FieldMap) (keys : List String) (k : String) (v : Nat) :
    (k, v) ∈ fmPick fm keys ↔ (k, v) ∈ fm ∧ k ∈ keys := by simp [fmPick, List.mem_filter]

theorem omit_fields (fm : FieldMap) (keys : List String) (k : String) (v : Nat) :
    (k, v) ∈ fmOmit fm keys ↔ (k, v) ∈ fm ∧ k ∉ keys := by simp [fmOmit, List.mem_filter]

/-- Extend / Merge: the union, later operand wins on conflicts -/
theorem union_fields (a b : FieldMap) (k : String) (v : Nat) :
    (k, v) ∈ fmUnion a b ↔ (k, v) ∈ b ∨ ((k, v) ∈ a ∧ ∀ w, (k, w) ∉ b) := by
  simp only [fmUnion, List.mem_append, List.mem_filter, List.contains_eq_mem, List.mem_map, Bool.not_eq_eq_eq_not, Bool.not_true,
    decide_eq_false_iff_not, not_exists, not_and]
  constructor
  · rintro (⟨h1, h2⟩ | h)
    · right; exact ⟨h1, fun w hw => h2 (k, w) hw rfl⟩
    · left; exact h
  · rintro (h | ⟨h1, h2⟩)
    · right; exact h
    · left; exact ⟨h1, fun p hp hk => by obtain ⟨pk, pw⟩ := p; simp only at hk; subst hk; exact h2 pw hp⟩

/-- Merge keeps struct-level tests of both operands, concatenated in operand order; Pick / Omit /
    Extend keep the operand's -/
theorem merge_tests (s : Pure) (a b : Nat) (x y : PObj) (ha : s[a]? = some x) (hb : s[b]? = some y) :
    (Pure.step s (.merge a b)) = s ++ [⟨fmUnion x.fields y.fields, x.tests ++ y.tests⟩] := by
  simp [Pure.step, ha, hb]

/-- Merge is associative on the fields: folding three operands left to right or right to left selects the
    same schema for every key (this is what `x.Merge(y, z)` in one call must agree with) -/
theorem union_assoc (a b c : FieldMap) (k : String) (v : Nat) :
    (k, v) ∈ fmUnion (fmUnion a b) c ↔ (k, v) ∈ fmUnion a (fmUnion b c) := by
  simp only [union_fields]
  constructor
  · rintro (h | ⟨h | ⟨h1, h2⟩, h3⟩)
    · exact Or.inl (Or.inl h)
    · exact Or.inl (Or.inr ⟨h, h3⟩)
    · refine Or.inr ⟨h1, fun w hw => ?_⟩
      rcases hw with hw | ⟨hw, _⟩
      · exact h3 w hw
      · exact h2 w hw
  · rintro (h | ⟨h1, h2⟩)
    · rcases h with h | ⟨h, h3⟩
      · exact Or.inl h
      · exact Or.inr ⟨Or.inl h, h3⟩
    · have hc : ∀ w, (k, w) ∉ c := fun w hw => h2 w (Or.inl hw)
      have hb : ∀ w, (k, w) ∉ b := fun w hw => h2 w (Or.inr ⟨hw, hc⟩)
      exact Or.inr ⟨Or.inr ⟨h1, hb⟩, hc⟩

/-- a three-operand Merge as the model folds it: fields by `union_assoc`, tests in operand order -/
theorem merge3_tests (s : Pure) (a b c : Nat) (x y z : PObj) (ha : s[a]? = some x) (hb : s[b]? = some y) (hc : s[c]? = some z)
    (hca : c < s.length) :
    (Pure.step (Pure.step s (.merge a b)) (.merge s.length c)) =
      s ++ [⟨fmUnion x.fields y.fields, x.tests ++ y.tests⟩, ⟨fmUnion (fmUnion x.fields y.fields) z.fields, x.tests ++ y.tests ++ z.tests⟩] := by
  rw [merge_tests s a b x y ha hb]
  have h1 : (s ++ [(⟨fmUnion x.fields y.fields, x.tests ++ y.tests⟩ : PObj)])[s.length]? = some ⟨fmUnion x.fields y.fields, x.tests ++ y.tests⟩ := by simp
  have h2 : (s ++ [(⟨fmUnion x.fields y.fields, x.tests ++ y.tests⟩ : PObj)])[c]? = some z := by
    rw [List.getElem?_append_left hca]; exact hc
  rw [merge_tests _ s.length c _ z h1 h2]
  simp

/-! ## the defect this property is about, reproduced by the model when the clone shares (D14) -/

def d14 : List Op := [.mk [("a", 0), ("b", 1)], .test 0 10, .test 0 11, .test 0 12,   -- base with spare capacity
  .pick 0 ["a"], .test 1 100,                                                        -- A := base.Pick(a).Test(tA)
  .pick 0 ["b"], .test 2 200]                                                        -- B := base.Pick(b).Test(tB)

def grow2 : Nat → Nat := fun n => n + 1   -- leaves spare cells, as Go's doubling does

/-- with a sharing clone, schema A ends up running B's test: exactly the real-code observation -/
example : ((Heap.run false grow2 d14).abs[1]?).map (·.tests) = some [10, 11, 12, 200] := by decide
/-- with the copying clone (current code) A keeps its own test -/
example : ((Heap.run true grow2 d14).abs[1]?).map (·.tests) = some [10, 11, 12, 100] := by decide
example : ((Pure.run d14)[1]?).map (·.tests) = some [10, 11, 12, 100] := by decide

end Zog.Props.C16
