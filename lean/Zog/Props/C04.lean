import Zog.Props.FactsOK
import Zog.Laws

/-!
# C04 — Required, Optional and Default decide what an absent value means
-/

namespace Zog.Props.C04
open Zog Spec

/-! ## (a) what "absent" is -/

/-- Parse: absent iff nil (a missing key reads as nil, see `missing_key_nil`) or a string that is
    empty after trimming whitespace -/
theorem parse_absent_iff (v : Val) :
    isParseZero v = true ↔ v = .nil ∨ ∃ s, v = .str s ∧ isBlank s = true := by
  cases v <;> simp [isParseZero]

/-- 0, false, 0.0 and the zero time are present in Parse -/
theorem parse_falsy_present (k : IKind) (u : Bool) :
    isParseZero (.int k 0) = false ∧ isParseZero (.bool false) = false ∧
    isParseZero (.f64 (.fin 0 0)) = false ∧ isParseZero (.time zeroTimeNs u) = false ∧
    isParseZero (.list []) = false := ⟨rfl, rfl, rfl, rfl, rfl⟩

/-- a string is blank iff every character is in Go's white-space set -/
theorem blank_iff (s : String) : isBlank s = true ↔ ∀ c ∈ s.toList, isGoSpace c = true := by
  simp [isBlank, List.all_eq_true]

/-- a missing key yields nil from the map provider and from the empty provider -/
theorem missing_key_nil (kvs : List (String × Val)) (k : String) (h : lookupD kvs k = none) :
    (Engine.Prov.map kvs).get k = .nil ∧ Engine.Prov.empty.get k = .nil := by
  simp [Engine.Prov.get, h]

/-- Validate: absent iff the Go zero value — empty slice and nil pointer included -/
theorem validate_absent_table (k : NKind) :
    isZeroD (.str "") = true ∧ isZeroD (.int k 0) = true ∧ isZeroD (.bool false) = true ∧
    isZeroD (.flt k (.fin 0 0)) = true ∧ isZeroD (.time zeroTimeNs true) = true ∧
    isZeroD (.slice []) = true ∧ isZeroD (.ptr none) = true ∧
    isZeroD (.int k 1) = false ∧ isZeroD (.bool true) = false ∧ isZeroD (.str "a") = false ∧
    isZeroD (.flt k .nzero) = true := by
  refine ⟨rfl, rfl, rfl, rfl, by decide, rfl, rfl, rfl, rfl, by decide, rfl⟩

/-! ## (b) the decision table: Default > Required > Optional -/

/-- absent + Default: the default is used and then tested like any other value — whether or not
    the node is Required -/
theorem absent_default (env : Env) (m : Mode) (p : Prim) (x : DVal) (path : List String) (v : Val) (d : DVal) (st : St)
    (habs : Engine.primAbsent m v d = true) (hd : p.dflt = some x) :
    primBody env m p path v d st = tested env p.kind.dtype (render path) p.ctch p.tests x st := by
  unfold primBody; simp [habs, hd]

/-- absent + no Default + Required: exactly one issue carrying the Required test's code; no test
    runs; the destination is not written -/
theorem absent_required (env : Env) (m : Mode) (p : Prim) (r : Test) (path : List String) (v : Val) (d : DVal) (st : St)
    (habs : Engine.primAbsent m v d = true) (hd : p.dflt = none) (hr : p.required = some r) (hc : p.ctch = none) :
    primBody env m p path v d st = (d, emit st (issueOfTest env (render path) p.kind.dtype r)) := by
  unfold primBody; simp [habs, hd, hr, hc]

/-- absent + no Default + Optional: the node is skipped — no issue, no test event, destination untouched -/
theorem absent_optional (env : Env) (m : Mode) (p : Prim) (path : List String) (v : Val) (d : DVal) (st : St)
    (habs : Engine.primAbsent m v d = true) (hd : p.dflt = none) (hr : p.required = none) :
    primBody env m p path v d st = (d, st) := by
  unfold primBody; simp [habs, hd, hr]

/-- slices, Parse: absent + Required ⇒ one issue, no element visited, destination untouched -/
theorem slice_absent_required (env : Env) (elem : Schema) (sm : SliceMods) (r : Test) (path : List String) (v : Val) (d : DVal) (st : St)
    (habs : isParseZero v = true) (hd : sm.dfltIn = none) (hr : sm.required = some r) (hp : sm.posts = []) :
    proc env .parse (.slice elem sm) none path v d st = (d, emit st (issueOfTest env (render path) "slice" r)) := by
  unfold proc; simp [habs, hd, hr, hp, runPosts_nil]

/-- slices, Parse: absent + Optional ⇒ skipped -/
theorem slice_absent_optional (env : Env) (elem : Schema) (sm : SliceMods) (path : List String) (v : Val) (d : DVal) (st : St)
    (habs : isParseZero v = true) (hd : sm.dfltIn = none) (hr : sm.required = none) (hp : sm.posts = []) :
    proc env .parse (.slice elem sm) none path v d st = (d, st) := by
  unfold proc; simp [habs, hd, hr, hp, runPosts_nil]

/-- slices, Validate: an empty (or nil) slice is absent -/
theorem slice_validate_empty_required (env : Env) (elem : Schema) (sm : SliceMods) (r : Test) (path : List String) (st : St)
    (hd : sm.dfltD = none) (hr : sm.required = some r) (hp : sm.posts = []) :
    proc env .validate (.slice elem sm) none path .nil (.slice []) st =
      (.slice [], emit st (issueOfTest env (render path) "slice" r)) := by
  unfold proc; simp [DVal.elems, hd, hr, hp, runPosts_nil]

/-- pointers: absent + NotNil ⇒ exactly one `not_nil` issue typed as the pointed-to schema; the
    pointer stays nil and the inner schema does not run -/
theorem ptr_absent_notnil (env : Env) (m : Mode) (elem : Schema) (zp : DVal) (t : Test) (tag : Option String)
    (path : List String) (v : Val) (d : DVal) (st : St) (habs : Engine.ptrAbsent m v d = true) :
    proc env m (.ptr elem zp (some t)) tag path v d st = (d, emit st (issueOfTest env (render path) elem.dtype t)) := by
  unfold proc; simp [habs]

/-- pointers: absent + optional ⇒ nothing happens (the destination pointer is left as it is: nil) -/
theorem ptr_absent_optional (env : Env) (m : Mode) (elem : Schema) (zp : DVal) (tag : Option String)
    (path : List String) (v : Val) (d : DVal) (st : St) (habs : Engine.ptrAbsent m v d = true) :
    proc env m (.ptr elem zp none) tag path v d st = (d, st) := by
  unfold proc; simp [habs]

/-- present pointer input allocates -/
theorem ptr_present_allocates (env : Env) (m : Mode) (elem : Schema) (zp : DVal) (nn : Option Test) (tag : Option String)
    (path : List String) (v : Val) (d : DVal) (st : St) (hpres : Engine.ptrAbsent m v d = false) :
    ∃ x, (proc env m (.ptr elem zp nn) tag path v d st).1 = .ptr (some x) := by
  unfold proc; simp [hpres]

/-- (c) every depth: the mechanism model with the current code facts is the reference semantics -/
theorem at_every_depth (env : Env) (m : Mode) (s : Schema) (tag : Option String) (v : Val) (d : DVal) :
    Engine.run env Gen.facts m s tag v d = Spec.run env m s tag v d := engine_is_spec env m s tag v d

/-- in Validate a Slice node installs its Default through a deep copy: the validated value is the Default,
    equal to it part by part — pointees, struct fields, map values, what interface fields hold — (behavioural
    probe of the working tree over nine default shapes; the engine model takes the copy to be the value) -/
theorem validated_default_is_the_default : Gen.sliceDefaultDeep = true := by decide

end Zog.Props.C04
