import Zog.Pool
import Zog.Gen.Facts

/-!
# C07 — each execution is isolated from every other execution
-/

namespace Zog.Props.C07
open Zog Pool

/-! ## contents: constructors re-initialise every live field (regenerated assignment sets) -/

def assignedBy (ctor : String) : List String := ((Gen.ctorAssigns.find? (fun p => p.1 == ctor)).map (·.2)).getD []
def fieldsOf (ty : String) : List String := ((Gen.typeFields.find? (fun p => p.1 == ty)).map (·.2)).getD []

/-- fields that are written before they are read on every path (`Test`: set by each test loop before
    `test.Func` reads it; `HasCaught`: never read) -/
def deadBeforeWritten : List String := ["Test", "HasCaught"]

def coversAll (ctor ty : String) : Bool :=
  !(fieldsOf ty).isEmpty && (fieldsOf ty).all (fun f => (assignedBy ctor).contains f || deadBeforeWritten.contains f)

/-- **Constructor completeness** over the regenerated tables: every constructor that takes an object
    from a pool assigns every live field of that object's type — so a new field that is not reset,
    or a dropped reset, fails here. -/
theorem constructors_complete :
    coversAll "NewExecCtx" "ExecCtx" = true ∧
    coversAll "NewZogIssue" "ZogIssue" = true ∧ coversAll "IssueFromTest" "ZogIssue" = true ∧
    coversAll "IssueFromCoerce" "ZogIssue" = true ∧
    coversAll "NewErrsList" "ErrsList" = true ∧ coversAll "NewErrsMap" "ErrsMap" = true ∧
    coversAll "NewSchemaCtx" "SchemaCtx" = true ∧ coversAll "NewValidateSchemaCtx" "SchemaCtx" = true ∧
    (assignedBy "NewPathBuilder").contains "reslice[:1]" = true := by
  decide

/-- a constructor that assigns every live field makes the object's live contents independent of
    what the previous user left in it — for ALL previous contents -/
theorem reinit_independent_of_dirt (assigned live : List String) (h : ∀ f ∈ live, assigned.contains f = true)
    (dirt₁ dirt₂ fresh : Record) : ∀ f ∈ live, reinit assigned dirt₁ fresh f = reinit assigned dirt₂ fresh f := by
  intro f hf
  unfold reinit
  rw [h f hf]
  rfl

/-- …and carries exactly this call's values -/
theorem reinit_is_fresh (assigned : List String) (dirt fresh : Record) (f : String) (h : assigned.contains f = true) :
    reinit assigned dirt fresh f = fresh f := by
  unfold reinit; rw [h]; rfl

/-! ## identity: ownership over every history -/

theorem skips_first : Gen.collectMapSkipsFirst = true := by decide

/-- ownership while a call is acquiring: `acc` are the objects it already holds -/
def OwnedAcc (s : State) (acc : List Nat) : Prop :=
  (acc ++ s.pool ++ s.live.flatten).Nodup ∧ ∀ id ∈ acc ++ s.pool ++ s.live.flatten, id < s.next

theorem acquire_ownedAcc (s : State) (b : Bool) (acc : List Nat) (ho : OwnedAcc s acc) :
    OwnedAcc (acquire s b).1 ((acquire s b).2 :: acc) ∧ (acquire s b).1.live = s.live := by
  obtain ⟨hnd, hlt⟩ := ho
  have fresh : OwnedAcc { s with next := s.next + 1 } (s.next :: acc) := by
    constructor
    · simp only [List.cons_append]
      exact List.nodup_cons.mpr ⟨fun hmem => Nat.lt_irrefl _ (hlt _ hmem), hnd⟩
    · intro id hid
      simp only [List.cons_append, List.mem_cons] at hid
      rcases hid with rfl | hid
      · exact Nat.lt_succ_self _
      · exact Nat.lt_succ_of_lt (hlt id hid)
  unfold acquire
  cases b with
  | false => exact ⟨fresh, rfl⟩
  | true =>
    cases hp : s.pool with
    | nil =>
      simp only [hp]
      have f2 := fresh
      simp only [hp] at f2
      exact ⟨f2, trivial⟩
    | cons id rest =>
      simp only [hp]
      rw [hp] at hnd hlt
      refine ⟨⟨?_, ?_⟩, trivial⟩
      · have : (id :: acc ++ rest ++ s.live.flatten).Perm (acc ++ id :: rest ++ s.live.flatten) := by
          simp only [List.cons_append, List.append_assoc]
          exact List.perm_middle.symm
        exact (this.nodup_iff).mpr hnd
      · intro x hx
        apply hlt x
        simp only [List.cons_append, List.append_assoc, List.mem_cons, List.mem_append] at hx ⊢
        rcases hx with h | h | h | h <;> simp [h]

theorem acquireMany_ownedAcc : ∀ (k : Nat) (s : State) (takes : List Bool) (acc : List Nat), OwnedAcc s acc →
    OwnedAcc (acquireMany s k takes acc).1 (acquireMany s k takes acc).2.reverse ∧ (acquireMany s k takes acc).1.live = s.live
  | 0, s, _, acc, ho => by simpa [acquireMany] using ho
  | k + 1, s, takes, acc, ho => by
    unfold acquireMany
    obtain ⟨h1, h2⟩ := acquire_ownedAcc s (takes.headD false) acc ho
    obtain ⟨h3, h4⟩ := acquireMany_ownedAcc k _ takes.tail _ h1
    exact ⟨h3, h4.trans h2⟩

theorem flatten_set_nil_perm : ∀ (live : List (List Nat)) (r : Nat) (ids : List Nat), live[r]? = some ids →
    ((live.set r []).flatten ++ ids).Perm live.flatten
  | [], r, ids, h => by simp at h
  | l :: rest, 0, ids, h => by
    simp only [List.getElem?_cons_zero, Option.some.injEq] at h
    subst h
    simp only [List.set_cons_zero, List.flatten_cons, List.nil_append]
    exact List.perm_append_comm
  | l :: rest, r + 1, ids, h => by
    simp only [List.getElem?_cons_succ] at h
    simp only [List.set_cons_succ, List.flatten_cons, List.append_assoc]
    exact List.Perm.append_left l (flatten_set_nil_perm rest r ids h)

theorem flatten_set_snoc_perm : ∀ (live : List (List Nat)) (r : Nat) (ids : List Nat) (x : Nat), live[r]? = some ids →
    ((live.set r (ids ++ [x])).flatten).Perm (x :: live.flatten)
  | [], r, ids, x, h => by simp at h
  | l :: rest, 0, ids, x, h => by
    simp only [List.getElem?_cons_zero, Option.some.injEq] at h
    subst h
    simp only [List.set_cons_zero, List.flatten_cons, List.append_assoc, List.singleton_append]
    exact List.perm_middle
  | l :: rest, r + 1, ids, x, h => by
    simp only [List.getElem?_cons_succ] at h
    simp only [List.set_cons_succ, List.flatten_cons]
    exact (List.Perm.append_left l (flatten_set_snoc_perm rest r ids x h)).trans List.perm_middle

/-- **One operation keeps ownership** (with the current code's CollectMap) -/
theorem step_owned (s : State) (op : Op) (ho : Owned s) : Owned (step true s op) := by
  cases op with
  | call k takes =>
    have h0 : OwnedAcc s [] := by simpa [OwnedAcc, Owned] using ho
    obtain ⟨⟨hnd, hlt⟩, hl⟩ := acquireMany_ownedAcc k s takes [] h0
    simp only [step]
    generalize acquireMany s k takes [] = r at *
    constructor
    · simp only [List.flatten_append, List.flatten_cons, List.flatten_nil, List.append_nil]
      have : (r.1.pool ++ (r.1.live.flatten ++ r.2)).Perm (r.2.reverse ++ r.1.pool ++ r.1.live.flatten) := by
        have h1 : (r.2.reverse ++ r.1.pool ++ r.1.live.flatten).Perm (r.2 ++ (r.1.pool ++ r.1.live.flatten)) := by
          rw [List.append_assoc]; exact List.Perm.append_right _ (List.reverse_perm _)
        refine List.Perm.trans ?_ h1.symm
        rw [← List.append_assoc]
        exact List.perm_append_comm
      exact (this.nodup_iff).mpr hnd
    · intro id hid
      apply hlt id
      simp only [List.flatten_append, List.flatten_cons, List.flatten_nil, List.append_nil, List.mem_append, List.mem_reverse] at hid ⊢
      rcases hid with h | h | h <;> simp [h]
  | start =>
    simpa [step, Owned] using ho
  | acq r b =>
    simp only [step]
    cases hr : s.live[r]? with
    | none => exact ho
    | some ids =>
      simp only
      have h0 : OwnedAcc s [] := by simpa [OwnedAcc, Owned] using ho
      obtain ⟨⟨hnd, hlt⟩, hl⟩ := acquire_ownedAcc s b [] h0
      generalize acquire s b = a at *
      have hr' : a.1.live[r]? = some ids := by rw [hl]; exact hr
      have hp := flatten_set_snoc_perm a.1.live r ids a.2 hr'
      constructor
      · have : (a.1.pool ++ (a.1.live.set r (ids ++ [a.2])).flatten).Perm ([a.2] ++ a.1.pool ++ a.1.live.flatten) := by
          refine (List.Perm.append_left _ hp).trans ?_
          simp only [List.singleton_append, List.cons_append]
          exact List.perm_middle
        exact (this.nodup_iff).mpr hnd
      · intro id hid
        apply hlt id
        have := hp.mem_iff (a := id)
        simp only [List.mem_append, List.mem_cons] at hid this
        have goal : id = a.2 ∨ id ∈ a.1.pool ∨ id ∈ a.1.live.flatten := by
          rcases hid with h | h
          · exact Or.inr (Or.inl h)
          · rcases this.mp h with h | h
            · exact Or.inl h
            · exact Or.inr (Or.inr h)
        rcases goal with h | h | h <;> simp [h]
  | collect r =>
    simp only [step]
    cases hr : s.live[r]? with
    | none => exact ho
    | some ids =>
      simp only [↓reduceIte]
      obtain ⟨hnd, hlt⟩ := ho
      have hp := flatten_set_nil_perm s.live r ids hr
      constructor
      · have : (s.pool ++ ids ++ (s.live.set r []).flatten).Perm (s.pool ++ s.live.flatten) := by
          rw [List.append_assoc]
          exact List.Perm.append_left _ (List.perm_append_comm.trans hp)
        exact (this.nodup_iff).mpr hnd
      · intro id hid
        apply hlt id
        have := hp.mem_iff (a := id)
        simp only [List.mem_append] at hid this ⊢
        rcases hid with (h | h) | h
        · exact Or.inl h
        · exact Or.inr (this.mp (Or.inr h))
        · exact Or.inr (this.mp (Or.inl h))

/-- **Ownership invariant over every history.** Whatever sequence of calls and Collect* hand-backs
    happened before (each result handed back at most once is not even needed: a second hand-back of
    an emptied result frees nothing) and whatever `sync.Pool` chose to hand out, no issue object is
    in the pool twice, and none is both in the pool and in a result the caller still holds — so the
    objects a later call acquires are pairwise distinct and exclusively its own. -/
theorem ownership_invariant (ops : List Op) : Owned (run Gen.collectMapSkipsFirst ops) := by
  rw [skips_first]
  unfold run
  have : ∀ (s : State), Owned s → Owned (ops.foldl (step true) s) := by
    induction ops with
    | nil => intro s hs; exact hs
    | cons op rest ih => intro s hs; exact ih _ (step_owned s op hs)
  exact this {} ⟨by simp, by simp⟩

/-- the double free of defect D20, reproduced by the model when CollectMap does not skip `$first`:
    after one collected result the pool holds the first issue twice -/
example : (run false [.call 2 [], .collect 0]).pool = [0, 1, 0] := by decide
example : (run true [.call 2 [], .collect 0]).pool = [0, 1] := by decide

/-- nothing a call could leave behind on the SCHEMA either: executions write no schema object and no
    package-level variable, and the closures a schema is made of keep no state (regenerated go/ast facts) -/
theorem schemas_carry_nothing_over : Gen.schemaWrites = [] ∧ Gen.closureWrites = [] := by decide

end Zog.Props.C07
