import Zog.Props.FactsOK
import Zog.Mono

/-!
# C01 — success means valid: no issues implies every declared constraint holds
-/

namespace Zog.Props.C01
open Zog Spec

/-- what "valid" means at one primitive node once it has been visited: the documented exemptions
    are an absent optional node (left untouched, not tested) and a node holding its catch value -/
def PrimSat (m : Mode) (p : Prim) (v : Val) (d out : DVal) : Prop :=
  (Engine.primAbsent m v d = true ∧ p.dflt = none ∧ p.required = none ∧ out = d)
  ∨ p.ctch = some out
  ∨ ((Engine.primAbsent m v d = true → p.dflt.isSome) ∧ p.tests.all (fun t => t.pred out) = true)

theorem failing_nil_all {tests : List Test} {x : DVal} (h : failing tests x = []) :
    tests.all (fun t => t.pred x) = true := by
  unfold failing at h
  rw [List.filter_eq_nil_iff] at h
  rw [List.all_eq_true]
  intro t ht
  have := h t ht
  simpa using this

theorem tested_sat (env : Env) (dt ps : String) (ctch : Option DVal) (tests : List Test) (x : DVal) (st : St)
    (h : (tested env dt ps ctch tests x st).2.sink = st.sink) :
    ctch = some (tested env dt ps ctch tests x st).1 ∨
      tests.all (fun t => t.pred (tested env dt ps ctch tests x st).1) = true := by
  unfold tested at *
  cases ctch with
  | some c =>
    simp only [testCatch_dest]
    by_cases ha : tests.all (fun t => t.pred x) = true
    · right; simp [ha]
    · left; simp [ha]
  | none =>
    right
    simp only at h ⊢
    rw [testAll_sink] at h
    have : (failing tests x).map (issueOfTest env ps dt) = [] := by simpa using h
    exact failing_nil_all (List.map_eq_nil_iff.mp this)

/-- **Node law.** If visiting a primitive node added no issue, the node is valid: a Required node
    had a present value (or a default), and every test declared on it holds on the value placed in
    the destination — both modes, every input. No test is skipped. -/
theorem prim_no_issue_sat (env : Env) (m : Mode) (p : Prim) (path : List String) (v : Val) (d : DVal) (st : St)
    (h : (primBody env m p path v d st).2.sink = st.sink) :
    PrimSat m p v d (primBody env m p path v d st).1 := by
  unfold primBody at *
  unfold PrimSat
  cases hab : Engine.primAbsent m v d
  · simp only [hab, Bool.false_eq_true, ↓reduceIte] at h ⊢
    cases m <;> simp only at h ⊢
    · cases hco : p.coerce v with
      | none =>
        simp only [hco] at h ⊢
        cases hc : p.ctch with
        | some c => right; left; simp [hc]
        | none => simp [hc, emit] at h
      | some x =>
        simp only [hco] at h ⊢
        rcases tested_sat _ _ _ _ _ _ _ h with h1 | h1
        · right; left; exact h1
        · right; right; exact ⟨by simp, h1⟩
    · rcases tested_sat _ _ _ _ _ _ _ h with h1 | h1
      · right; left; exact h1
      · right; right; exact ⟨by simp, h1⟩
  · simp only [hab, ↓reduceIte] at h ⊢
    cases hd : p.dflt with
    | some x =>
      simp only [hd] at h ⊢
      rcases tested_sat _ _ _ _ _ _ _ h with h1 | h1
      · right; left; exact h1
      · right; right; exact ⟨by simp, h1⟩
    | none =>
      simp only [hd] at h ⊢
      cases hr : p.required with
      | none => left; simp [hr]
      | some r =>
        simp only [hr] at h ⊢
        cases hc : p.ctch with
        | some c => right; left; simp [hc]
        | none => simp [hc, emit] at h

/-- struct- and slice-level tests: if none was reported, all of them hold on the node's value -/
theorem complex_tests_hold (env : Env) (dt ps : String) (tests : List Test) (x : DVal) (st : St)
    (h : (testAll env dt ps tests x st).sink = st.sink) : tests.all (fun t => t.pred x) = true := by
  rw [testAll_sink] at h
  have : (failing tests x).map (issueOfTest env ps dt) = [] := by simpa using h
  exact failing_nil_all (List.map_eq_nil_iff.mp this)

/-- **No constraint is skipped because of a sibling, an earlier element or an earlier node.**
    If a whole execution ends without issues then no visit at any depth added one: the state every
    node started from and the state it left have the same (empty) sink — so each node's law above
    applies to each visit. (Stated for the two loop shapes and lifted by `proc_extends`.) -/
theorem success_means_every_visit_clean (env : Env) (m : Mode) (s : Schema) (tag : Option String)
    (path : List String) (v : Val) (d : DVal) (st mid : St)
    (h1 : Extends st mid) (h2 : Extends mid (proc env m s tag path v d mid).2)
    (h : (proc env m s tag path v d mid).2.sink = st.sink) : mid.sink = st.sink :=
  Extends.squeeze h1 h2 h

/-- every node extends the sink it was given (for all schemas, modes, inputs, visit orders) -/
theorem visits_only_append (env : Env) (m : Mode) (s : Schema) (tag : Option String) (path : List String)
    (v : Val) (d : DVal) (st : St) : Extends st (proc env m s tag path v d st).2 :=
  proc_extends env m s tag path v d st

/-- the mechanism model (flags on the shared child context, current code facts) succeeds exactly
    when the reference semantics does, with the same destination — for every field visit order -/
theorem engine_success_iff (env : Env) (m : Mode) (s : Schema) (tag : Option String) (v : Val) (d : DVal) :
    (Engine.run env Gen.facts m s tag v d).2.sink = [] ↔ (Spec.run env m s tag v d).2.sink = [] := by
  rw [engine_is_spec]

/-! ### non-vacuity -/
example : PrimSat .parse { kind := .num .int, coerce := fun _ => none } .nil (.int .int 0) (.int .int 0) :=
  Or.inl ⟨rfl, rfl, rfl, rfl⟩

end Zog.Props.C01
