import Zog.Props.FactsOK
import Zog.Valid
import Zog.ValidAll

/-!
# C01 — success means valid: no issues implies every declared constraint holds
`Spec.Valid` (Zog/Valid.lean) states, node by node and at every depth, what a successful execution
must have established; it is written independently of the traversal's bookkeeping (flags, sink,
visit order).
-/

namespace Zog.Props.C01
open Zog Spec

/-- **C01 (reference semantics), every depth.** For every PostTransform-free schema whose struct
    fields address distinct Go fields, every input, destination, mode and field visit order: if the
    execution reports no issue, then at every node reached — through structs, slices and non-nil
    pointers — every test declared on the node holds on the value placed or found in the
    destination, every Required / NotNil node had a present value (or a default), and the only
    exemptions are an absent optional node and a node holding its catch value. -/
theorem success_means_valid_spec (env : Env) (m : Mode) (s : Schema) (hp : s.postFree = true) (hw : s.WF)
    (tag : Option String) (v : Val) (d : DVal) (h : (Spec.run env m s tag v d).2.sink = []) :
    Valid env m s tag [] v d :=
  valid_of_clean env m s hp hw tag [] v d h

/-- **C01 (mechanism model, current code facts).** The same for the engine with `CanCatch`/`Exit` on
    the shared child context: no constraint is skipped because of what happened at a sibling field
    or an earlier slice element, whatever the visit order. -/
theorem success_means_valid (env : Env) (m : Mode) (s : Schema) (hp : s.postFree = true) (hw : s.WF)
    (tag : Option String) (v : Val) (d : DVal) (h : (Engine.run env Gen.facts m s tag v d).2.sink = []) :
    Valid env m s tag [] v d := by
  rw [engine_is_spec] at h
  exact success_means_valid_spec env m s hp hw tag v d h

/-- **C01 for EVERY well-formed schema — PostTransforms included.** If the execution reports no
    issue then, at every depth, every declared test held on the value its node had when the tests
    ran (`ValidU`: a node's own PostTransforms run after its tests and may rewrite the value; those
    of its children have already run), every Required / NotNil node had a present value (or a
    Default), the only exemptions being absent optional nodes and nodes holding their Catch value.
    Proved for the reference semantics by "clean runs are local" (Zog/Clean.lean) — on a successful
    run no PostTransform gate is ever closed — and carried to the mechanism model with the
    `CanCatch`/`Exit` flags on shared contexts by the refinement, for every field visit order. -/
theorem success_means_valid_all (env : Env) (m : Mode) (s : Schema) (hw : s.WF)
    (tag : Option String) (v : Val) (d : DVal) (h : (Engine.run env Gen.facts m s tag v d).2.sink = []) :
    ValidU env m s tag [] v d := by
  rw [engine_is_spec] at h
  exact validU_of_clean env m s hw tag [] v d h

/-- what `ValidU` says at a primitive node that has PostTransforms: the tests hold on the value the
    node had BEFORE its PostTransforms ran (`primBody`), unless the node was absent and optional or
    holds its Catch value -/
theorem validU_at_prim (env : Env) (m : Mode) (p : Prim) (tag : Option String) (path : List String) (v : Val) (d : DVal) :
    ValidU env m (.prim p) tag path v d ↔ PrimSat m p v d (primBody env m p path v d {}).1 := by
  simp [ValidU]

/-- **Node law (all schemas, also with PostTransforms).** If visiting a primitive node added no
    issue, the node is valid: a Required node had a present value (or a default), and every test
    declared on it holds on the value placed in the destination. No test is skipped. -/
theorem prim_no_issue_sat (env : Env) (m : Mode) (p : Prim) (path : List String) (v : Val) (d : DVal) (st : St)
    (h : (primBody env m p path v d st).2.sink = st.sink) :
    PrimSat m p v d (primBody env m p path v d st).1 :=
  primBody_sat env m p path v d st h

/-- struct- and slice-level tests: if none was reported, all of them hold on the node's value -/
theorem complex_tests_hold (env : Env) (dt ps : String) (tests : List Test) (x : DVal) (st : St)
    (h : (testAll env dt ps tests x st).sink = st.sink) : tests.all (fun t => t.pred x) = true :=
  testAll_clean_all env dt ps tests x st h

/-- with PostTransforms too: if a whole execution ends without issues then no visit at any depth
    added one (issues are only ever appended) -/
theorem success_means_every_visit_clean (env : Env) (m : Mode) (s : Schema) (tag : Option String)
    (path : List String) (v : Val) (d : DVal) (st mid : St)
    (h1 : Extends st mid) (h2 : Extends mid (proc env m s tag path v d mid).2)
    (h : (proc env m s tag path v d mid).2.sink = st.sink) : mid.sink = st.sink :=
  Extends.squeeze h1 h2 h

theorem visits_only_append (env : Env) (m : Mode) (s : Schema) (tag : Option String) (path : List String)
    (v : Val) (d : DVal) (st : St) : Extends st (proc env m s tag path v d st).2 :=
  proc_extends env m s tag path v d st

theorem engine_success_iff (env : Env) (m : Mode) (s : Schema) (tag : Option String) (v : Val) (d : DVal) :
    (Engine.run env Gen.facts m s tag v d).2.sink = [] ↔ (Spec.run env m s tag v d).2.sink = [] := by
  rw [engine_is_spec]

/-! ### non-vacuity -/
example : PrimSat .parse { kind := .num .int, coerce := fun _ => none } .nil (.int .int 0) (.int .int 0) :=
  Or.inl ⟨rfl, rfl, rfl, rfl⟩

/-- a concrete successful execution meeting every hypothesis of `success_means_valid_spec` -/
def intCoerce (v : Val) : Option DVal :=
  match v with
  | .int _ n => some (.int .int n)
  | _ => none
def gt5 (d : DVal) : Bool :=
  match d with
  | .int _ n => decide (n > 5)
  | _ => false
def okField : Prim := { kind := .num .int, coerce := intCoerce, tests := [{ id := 1, code := "gt", pred := gt5 }] }
def okSchema : Schema := .struct (.cons "n" ⟨"N", []⟩ (.prim okField) .nil) [] []
def okEnv : Env := { fmt := fun _ _ _ => "m", ω := fun _ => [] }
example : (Spec.run okEnv .parse okSchema none (.obj [("n", .int .int 7)]) (.struct [("N", .int .int 0)])).2.sink = [] := by decide
example : okSchema.postFree = true := by decide

end Zog.Props.C01
