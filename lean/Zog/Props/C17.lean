import Zog.Builder
import Zog.Gen.Catalogue
import Zog.Gen.Facts

/-!
# C17 — builder methods act locally and mean what they say
-/

namespace Zog.Props.C17
open Zog Builder

theorem run_append (a b : List Call) (s : State) : run (a ++ b) s = run b (run a s) := by
  simp [run, List.foldl_append]

/-- **Not() negates exactly the next string test and nothing after it.** For every prefix `pre`
    that leaves `isNot` clear and every continuation `post`: the test added right after `Not()` is
    the negated test (fails precisely when the plain test passes, `not_`-flipped code), `isNot` is
    clear again, and everything built by `post` is what it would have been without the `Not()`. -/
theorem not_is_local (pre post : List Call) (t : Test) (o : Test → Test) (s0 : State) (h : (run pre s0).isNot = false) :
    run (pre ++ [.not, .test t o] ++ post) s0 =
      run post { run pre s0 with tests := (run pre s0).tests ++ [o (negate t)] } := by
  rw [run_append, run_append]
  congr 1
  have h' : (List.foldl step s0 pre).isNot = false := h
  simp [run, step, h']

theorem negated_test_semantics (t : Test) (d : DVal) :
    (negate t).pred d = !t.pred d ∧ (negate t).code = notCode t.code ∧
    (negate t).params = t.params ∧ (negate t).id = t.id ∧ (negate t).msg = t.msg := ⟨rfl, rfl, rfl, rfl, rfl⟩

/-- without a pending `Not()`, a test is added unchanged -/
theorem plain_test_unchanged (s : State) (t : Test) (o : Test → Test) (h : s.isNot = false) :
    step s (.test t o) = { s with tests := s.tests ++ [o t] } := by simp [step, h]

/-- a well-formed fluent chain: every `Not()` is immediately followed by a negatable test (that is
    all the `NotStringSchema` return type allows) -/
def WellFormed : List Call → Bool
  | [] => true
  | [.not] => false
  | .not :: .test _ _ :: rest => WellFormed rest
  | .not :: _ => false
  | _ :: rest => WellFormed rest

/-- after every well-formed chain `isNot` is clear: a negation never leaks into a later test -/
theorem wellformed_isNot_clear : ∀ (calls : List Call) (s : State), s.isNot = false → WellFormed calls = true →
    (run calls s).isNot = false
  | [], s, h, _ => by simpa [run] using h
  | [.not], _, _, hw => by simp [WellFormed] at hw
  | .not :: .test t o :: rest, s, h, hw => by
    have : run (.not :: .test t o :: rest) s = run rest (step (step s .not) (.test t o)) := by simp [run]
    rw [this]
    exact wellformed_isNot_clear rest _ (by simp [step]) (by simpa [WellFormed] using hw)
  | .not :: .not :: rest, _, _, hw => by simp [WellFormed] at hw
  | .not :: .testFunc _ :: rest, _, _, hw => by simp [WellFormed] at hw
  | .not :: .required _ :: rest, _, _, hw => by simp [WellFormed] at hw
  | .not :: .optional :: rest, _, _, hw => by simp [WellFormed] at hw
  | .not :: .default _ :: rest, _, _, hw => by simp [WellFormed] at hw
  | .not :: .catch_ _ :: rest, _, _, hw => by simp [WellFormed] at hw
  | .not :: .post _ :: rest, _, _, hw => by simp [WellFormed] at hw
  | .test t o :: rest, s, h, hw => by
    have : run (.test t o :: rest) s = run rest (step s (.test t o)) := by simp [run]
    rw [this]; exact wellformed_isNot_clear rest _ (by simp [step, h]) (by simpa [WellFormed] using hw)
  | .testFunc t :: rest, s, h, hw => by
    have : run (.testFunc t :: rest) s = run rest (step s (.testFunc t)) := by simp [run]
    rw [this]; exact wellformed_isNot_clear rest _ (by simp [step, h]) (by simpa [WellFormed] using hw)
  | .required r :: rest, s, h, hw => by
    have : run (.required r :: rest) s = run rest (step s (.required r)) := by simp [run]
    rw [this]; exact wellformed_isNot_clear rest _ (by simp [step, h]) (by simpa [WellFormed] using hw)
  | .optional :: rest, s, h, hw => by
    have : run (.optional :: rest) s = run rest (step s .optional) := by simp [run]
    rw [this]; exact wellformed_isNot_clear rest _ (by simp [step, h]) (by simpa [WellFormed] using hw)
  | .default d :: rest, s, h, hw => by
    have : run (.default d :: rest) s = run rest (step s (.default d)) := by simp [run]
    rw [this]; exact wellformed_isNot_clear rest _ (by simp [step, h]) (by simpa [WellFormed] using hw)
  | .catch_ d :: rest, s, h, hw => by
    have : run (.catch_ d :: rest) s = run rest (step s (.catch_ d)) := by simp [run]
    rw [this]; exact wellformed_isNot_clear rest _ (by simp [step, h]) (by simpa [WellFormed] using hw)
  | .post p :: rest, s, h, hw => by
    have : run (.post p :: rest) s = run rest (step s (.post p)) := by simp [run]
    rw [this]; exact wellformed_isNot_clear rest _ (by simp [step, h]) (by simpa [WellFormed] using hw)

/-! ## last call wins -/

def isReqCall : Call → Bool
  | .required _ => true
  | .optional => true
  | _ => false

/-- Required/Optional: a call that is followed by no other Required/Optional call decides -/
theorem required_last_wins (pre post : List Call) (r : Test) (s : State)
    (h : post.all (fun c => !isReqCall c) = true) :
    (run (pre ++ [.required r] ++ post) s).required = some r := by
  rw [run_append, run_append]
  have : ∀ (cs : List Call) (st : State), cs.all (fun c => !isReqCall c) = true → (run cs st).required = st.required := by
    intro cs
    induction cs with
    | nil => intro st _; rfl
    | cons c rest ih =>
      intro st hc
      simp only [List.all_cons, Bool.and_eq_true] at hc
      have : run (c :: rest) st = run rest (step st c) := by simp [run]
      rw [this, ih _ hc.2]
      cases c <;> simp_all [step, isReqCall] <;> split <;> rfl
  rw [this post _ h]
  simp [run, step]

theorem optional_last_wins (pre post : List Call) (s : State)
    (h : post.all (fun c => !isReqCall c) = true) :
    (run (pre ++ [.optional] ++ post) s).required = none := by
  rw [run_append, run_append]
  have : ∀ (cs : List Call) (st : State), cs.all (fun c => !isReqCall c) = true → (run cs st).required = st.required := by
    intro cs
    induction cs with
    | nil => intro st _; rfl
    | cons c rest ih =>
      intro st hc
      simp only [List.all_cons, Bool.and_eq_true] at hc
      have : run (c :: rest) st = run rest (step st c) := by simp [run]
      rw [this, ih _ hc.2]
      cases c <;> simp_all [step, isReqCall] <;> split <;> rfl
  rw [this post _ h]
  simp [run, step]

def isDefaultCall : Call → Bool
  | .default _ => true
  | _ => false

def isCatchCall : Call → Bool
  | .catch_ _ => true
  | _ => false

theorem default_last_wins (pre post : List Call) (d : DVal) (s : State)
    (h : post.all (fun c => !isDefaultCall c) = true) :
    (run (pre ++ [.default d] ++ post) s).dflt = some d := by
  rw [run_append, run_append]
  have : ∀ (cs : List Call) (st : State), cs.all (fun c => !isDefaultCall c) = true → (run cs st).dflt = st.dflt := by
    intro cs
    induction cs with
    | nil => intro st _; rfl
    | cons c rest ih =>
      intro st hc
      simp only [List.all_cons, Bool.and_eq_true] at hc
      have : run (c :: rest) st = run rest (step st c) := by simp [run]
      rw [this, ih _ hc.2]
      cases c <;> simp_all [step, isDefaultCall] <;> split <;> rfl
  rw [this post _ h]
  simp [run, step]

theorem catch_last_wins (pre post : List Call) (d : DVal) (s : State)
    (h : post.all (fun c => !isCatchCall c) = true) :
    (run (pre ++ [.catch_ d] ++ post) s).ctch = some d := by
  rw [run_append, run_append]
  have : ∀ (cs : List Call) (st : State), cs.all (fun c => !isCatchCall c) = true → (run cs st).ctch = st.ctch := by
    intro cs
    induction cs with
    | nil => intro st _; rfl
    | cons c rest ih =>
      intro st hc
      simp only [List.all_cons, Bool.and_eq_true] at hc
      have : run (c :: rest) st = run rest (step st c) := by simp [run]
      rw [this, ih _ hc.2]
      cases c <;> simp_all [step, isCatchCall] <;> split <;> rfl
  rw [this post _ h]
  simp [run, step]

/-- test options reach only the test they were passed to: adding a test never changes the tests
    already present (their codes, paths, params, messages, predicates) -/
theorem tests_only_appended (s : State) (c : Call) : ∃ extra, (step s c).tests = s.tests ++ extra := by
  cases c <;> simp [step] <;> try (split <;> simp)

/-- modifiers do not touch tests, tests do not touch modifiers -/
theorem modifier_leaves_tests (s : State) (r : Test) (d : DVal) :
    (step s (.required r)).tests = s.tests ∧ (step s .optional).tests = s.tests ∧
    (step s (.default d)).tests = s.tests ∧ (step s (.catch_ d)).tests = s.tests := ⟨rfl, rfl, rfl, rfl⟩

/-- `WithCoercer` replaces coercion for its own schema only: the built node uses exactly the coercer given -/
theorem coercer_is_the_given_one (k : PKind) (c : Val → Option DVal) (s : State) : (toPrim k c s).coerce = c := rfl

/-! ## the `not_` code flip on the regenerated catalogue -/

/-- every negatable built-in string test reports the `not_`-prefixed code of its plain form
    (checked on the catalogue dumped from the compiled library on this run; 12 methods) -/
theorem not_codes_flip :
    Gen.notPairs.all (fun p => p.2 == ['n', 'o', 't', '_'] ++ p.1 && !p.1.isEmpty) = true ∧ Gen.notPairs.length = 12 := by
  decide

/-- the engine never writes a schema (regenerated go/ast fact), so one schema object used at several
    places behaves at each place as an independent copy would -/
theorem shared_schema_is_read_only : Gen.schemaWrites = [] := by decide

/-- a shared schema's Default is never handed out: every use of the schema gets its own deep copy, so a write
    through one destination cannot change what the next use of the same schema object starts from
    (regenerated behavioural fact: six default shapes, each validated twice with an in-place write) -/
theorem shared_default_is_copied : Gen.sliceDefaultDeep = true := by decide

end Zog.Props.C17
