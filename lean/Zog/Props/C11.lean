import Zog.Msg
import Zog.Engine
import Zog.IssueInv
import Zog.Props.FactsOK
import Zog.Gen.Tables
import Zog.Gen.Catalogue

/-!
# C11 — every issue is fully described and its message is chosen most-specific-first
The catalogue (every built-in test of every type, dumped from the compiled library by `extract`)
and the language tables are REGENERATED on every run; the completeness theorems are `decide`
over those tables — a finite quantifier, checked exhaustively by the kernel.
-/

namespace Zog.Props.C11
open Zog

abbrev CMap := List (List Char × List (List Char × List Char))

def lookupC {α : Type} (kvs : List (List Char × α)) (k : List Char) : Option α :=
  match kvs with
  | [] => none
  | (k', v) :: rest => if k' = k then some v else lookupC rest k

def templateC (m : CMap) (dtype code : List Char) : Option (List Char) :=
  (lookupC m dtype).bind (fun t => lookupC t code)

/-- names between `{{` and `}}`, scanning left to right -/
def takeName : List Char → List Char → Option (List Char × List Char)
  | [], _ => none
  | '}' :: '}' :: rest, acc => some (acc.reverse, rest)
  | c :: rest, acc => takeName rest (c :: acc)

def placeholdersFuel : Nat → List Char → List (List Char)
  | 0, _ => []
  | _, [] => []
  | fuel + 1, '{' :: '{' :: rest =>
    match takeName rest [] with
    | some (name, rest') => name :: placeholdersFuel fuel rest'
    | none => []
  | fuel + 1, _ :: rest => placeholdersFuel fuel rest

def placeholders (t : List Char) : List (List Char) := placeholdersFuel (t.length + 1) t

def fallbackCode : List Char := "fallback".toList

/-- the message the default formatter will produce for this entry is non-empty and every
    placeholder of the template it picks (exact entry, else the type's fallback) is one of the
    test's parameters -/
def entryOK (m : CMap) (e : Gen.CatEntry) : Bool :=
  match templateC m e.dtype e.code with
  | some t => !t.isEmpty && (placeholders t).all (fun k => e.paramKeys.contains k)
  | none =>
    match templateC m e.dtype fallbackCode with
    | some t => !t.isEmpty && (placeholders t).isEmpty
    | none => false

def entryDescribed (e : Gen.CatEntry) : Bool := !e.dtype.isEmpty && !e.code.isEmpty

/-- **Catalogue completeness, English.** -/
theorem catalogue_complete_en : Gen.catalogue.all (entryOK Gen.enMapC) = true := by decide
/-- **Catalogue completeness, Spanish.** -/
theorem catalogue_complete_es : Gen.catalogue.all (entryOK Gen.esMapC) = true := by decide
/-- the default (global) table -/
theorem catalogue_complete_default : Gen.catalogue.all (entryOK Gen.defaultMapC) = true := by decide

/-- every issue of the catalogue carries a code and the schema node's type (incl. the front-end
    decode failures `invalid_json` / `invalid_form`) -/
theorem catalogue_described : Gen.catalogue.all entryDescribed = true := by decide

/-- the catalogue dump met no surprise (every builder produced exactly one issue) -/
theorem catalogue_well_formed : Gen.catalogue.all (fun e => e.ok) = true ∧ Gen.catalogue.length ≥ 60 := by decide

/-- **User-defined tests and custom schemas.** A test with the user's own issue code (which no language
    table can list) on every schema type, and `z.CustomFunc` schemas (failing test, type mismatch): the
    type's fallback template exists, is non-empty and has no placeholder — in every shipped language. -/
theorem user_tests_complete_en : Gen.userCatalogue.all (entryOK Gen.enMapC) = true := by decide
theorem user_tests_complete_es : Gen.userCatalogue.all (entryOK Gen.esMapC) = true := by decide
theorem user_tests_complete_default : Gen.userCatalogue.all (entryOK Gen.defaultMapC) = true := by decide
theorem user_tests_described :
    Gen.userCatalogue.all (fun e => e.ok && entryDescribed e) = true ∧ Gen.userCatalogue.length ≥ 10 := by decide

def allTemplates (m : CMap) : List (List Char) := m.flatMap (fun p => p.2.map (·.2))

/-- no shipped template mentions `{{value}}`: the message does not depend on the `%v` rendering of
    the offending value (which is why `defaultFmt` does not take it) -/
theorem no_value_placeholder :
    ((allTemplates Gen.enMapC ++ allTemplates Gen.esMapC ++ allTemplates Gen.defaultMapC).all
      (fun t => !(placeholders t).contains "value".toList)) = true := by decide

/-! ## precedence: most specific first -/

theorem test_message_wins (msg : String) (h : msg ≠ "") (ef : Option (String → String → List (String × String) → String))
    (gf : String → String → List (String × String) → String) (code dtype : String) (params : List (String × String)) :
    pickMessage msg ef gf code dtype params = msg := by
  simp [pickMessage, h]

theorem exec_formatter_next (f gf : String → String → List (String × String) → String) (code dtype : String)
    (params : List (String × String)) : pickMessage "" (some f) gf code dtype params = f code dtype params := by
  simp [pickMessage]

theorem global_formatter_last (gf : String → String → List (String × String) → String) (code dtype : String)
    (params : List (String × String)) : pickMessage "" none gf code dtype params = gf code dtype params := by
  simp [pickMessage]

/-- the engine attaches code, type, params of the failing test, and the message by that precedence
    (`env.fmt` is the execution's formatter if one was given, else the global one) -/
theorem issue_of_test_described (env : Env) (ps dt : String) (t : Test) :
    (issueOfTest env ps dt t).code = t.code ∧ (issueOfTest env ps dt t).dtype = dt ∧
    (issueOfTest env ps dt t).params = t.params ∧
    (issueOfTest env ps dt t).message = (if t.msg != "" then t.msg else env.fmt t.code dt t.params) := ⟨rfl, rfl, rfl, rfl⟩

/-- i18n: the language is the one named in THIS execution's context, else the default language -/
theorem i18n_uses_ctx_lang (langs : List (String × LangMap)) (dl l : String) (m : LangMap) (code dtype : String)
    (params : List (String × String)) (h : lookupD langs l = some m) :
    i18nFmt langs dl (some l) code dtype params = defaultFmt m code dtype params := by
  simp [i18nFmt, h]

theorem i18n_default_lang (langs : List (String × LangMap)) (dl : String) (code dtype : String)
    (params : List (String × String)) :
    i18nFmt langs dl none code dtype params = defaultFmt ((lookupD langs dl).getD []) code dtype params := by
  simp [i18nFmt]

/-- **Only the last installation counts.** After ANY history of `SetLanguagesErrsMap` calls (with or
    without `WithLangKey`, any tables, any default language) the global formatter is the one the last
    call describes: it reads the language under that call's key from this execution's context. -/
theorem last_installation_wins (base : String → String → List (String × String) → String)
    (hist : List Install) (i : Install) (ctx : List (String × Option String)) :
    installedFmt base (hist ++ [i]) ctx = i18nFmt i.langs i.dflt (lookupD ctx i.langKey).join := by
  simp [installedFmt]

/-- an installation without `WithLangKey` reads the documented key `lang`, whatever keys earlier
    installations configured -/
theorem reinstall_resets_lang_key (base : String → String → List (String × String) → String)
    (hist : List Install) (i : Install) (ctx : List (String × Option String)) (hk : i.key = none) :
    installedFmt base (hist ++ [i]) ctx = i18nFmt i.langs i.dflt (lookupD ctx "lang").join := by
  simp [installedFmt, Install.langKey, hk]

/-- premises satisfiable / not vacuous: after `WithLangKey("locale")` and then a plain installation, a
    context naming Spanish under `lang` (and English under the stale key) gets the Spanish table -/
example : installedFmt (fun _ _ _ => "base")
    [{ langs := [("en", [("string", [("required", "is required")])]), ("es", [("string", [("required", "es obligatorio")])])], dflt := "en", key := some "locale" },
     { langs := [("en", [("string", [("required", "is required")])]), ("es", [("string", [("required", "es obligatorio")])])], dflt := "en" }]
    [("lang", some "es"), ("locale", some "en")] "required" "string" [] = "es obligatorio" := by decide +kernel

/-- a language value that is not a string names no language: the default language is used -/
theorem lang_value_not_a_string (base : String → String → List (String × String) → String)
    (hist : List Install) (i : Install) (ctx : List (String × Option String))
    (h : lookupD ctx i.langKey = some none) :
    installedFmt base (hist ++ [i]) ctx = i18nFmt i.langs i.dflt none := by
  simp [installedFmt, h]

/-- **Constructor invariants hold of every issue of every execution.** Every issue is built by one
    of four constructors (failing test / Required / NotNil, coercion failure, callback error,
    Preprocess error in Validate); whatever holds of all they can build holds of every issue in the
    result — for every schema, input, mode, visit order, at every depth. -/
theorem issue_invariants_lift (env : Env) (m : Mode) (P : Issue → Prop) (h : Spec.CtorInv env P)
    (s : Schema) (tag : Option String) (v : Val) (d : DVal) :
    ∀ i ∈ (Engine.run env Gen.facts m s tag v d).2.sink, P i := by
  rw [engine_is_spec]
  exact Spec.run_inv env m P h s tag v d

/-- **Every issue carries a message** whenever the formatter in force never returns the empty string
    (which `catalogue_complete_*` / `user_tests_complete_*` establish for the shipped languages on
    every (type, code) the library and user-coded tests can produce): the test's own message if it has
    one, else the formatter's. -/
theorem every_issue_has_a_message (env : Env) (hf : Spec.FmtTotal env) (m : Mode)
    (s : Schema) (tag : Option String) (v : Val) (d : DVal) :
    ∀ i ∈ (Engine.run env Gen.facts m s tag v d).2.sink, i.message ≠ "" :=
  issue_invariants_lift env m _ (Spec.message_ctorInv env hf) s tag v d

/-- every top-level entry point (the `Parse` / `Validate` of every schema kind, eighteen call sites) starts its
    execution context from the GLOBAL formatter variable — the one `i18n.SetLanguagesErrsMap` and the user
    replace —, not from the built-in default (regenerated go/ast fact) -/
theorem entry_points_start_from_global_formatter : ∀ f ∈ Gen.execCtxFormatters, f = "conf.IssueFormatter" := by decide

example : Gen.execCtxFormatters ≠ [] := by decide

end Zog.Props.C11
