import Zog.Preds
import Zog.Gen.Regex

/-!
# C20 — built-in tests decide exactly their documented predicate
Each executable predicate of `Zog.Preds` (what the driver runs against the real tests in the
S-preds stream) is proved equal to an independently stated specification.
-/

namespace Zog.Props.C20
open Zog

/-! ## lengths: inclusive comparisons on `len()` -/

theorem lenMin_spec (n : Int) (d : DVal) : lenMin n d = true ↔ n ≤ (d.len : Int) := by simp [lenMin]
theorem lenMax_spec (n : Int) (d : DVal) : lenMax n d = true ↔ (d.len : Int) ≤ n := by simp [lenMax]
theorem lenEq_spec (n : Int) (d : DVal) : lenEq n d = true ↔ (d.len : Int) = n := by simp [lenEq]

/-- `len` of a string is its UTF-8 byte length, of a slice its number of elements -/
theorem len_spec (s : String) (xs : List DVal) : (DVal.str s).len = s.utf8ByteSize ∧ (DVal.slice xs).len = xs.length := ⟨rfl, rfl⟩

/-- boundary classification n-1 / n / n+1 -/
theorem len_boundaries (d : DVal) (n : Int) (h : (d.len : Int) = n) :
    lenMin n d = true ∧ lenMin (n + 1) d = false ∧ lenMax n d = true ∧ lenMax (n - 1) d = false ∧
    lenEq n d = true ∧ lenEq (n + 1) d = false ∧ lenEq (n - 1) d = false := by
  simp [lenMin, lenMax, lenEq, h]; omega

/-! ## ordered comparisons are the comparisons of the destination type -/

theorem cmpInt_spec (v n : Int) :
    (cmpInt .eq v n = true ↔ v = n) ∧ (cmpInt .lt v n = true ↔ v < n) ∧ (cmpInt .lte v n = true ↔ v ≤ n) ∧
    (cmpInt .gt v n = true ↔ v > n) ∧ (cmpInt .gte v n = true ↔ v ≥ n) := by
  simp [cmpInt]

/-- a number test on a value of another Go type is false (the type assertion fails) -/
theorem cmp_other_type (op : CmpOp) (k k' : NKind) (a b : Int) (h : k ≠ k') : cmpNum op (.int k' b) (.int k a) = false := by
  simp [cmpNum, h]

/-- NaN is unordered and unequal to everything; -0 equals +0 -/
theorem float_specials (x : FVal) :
    cmpFlt .eq .nan x = false ∧ cmpFlt .lt .nan x = false ∧ cmpFlt .gt .nan x = false ∧
    cmpFlt .lte .nan x = false ∧ cmpFlt .gte .nan x = false ∧
    cmpFlt .eq .nzero (.fin 0 0) = true ∧ cmpFlt .lt .nzero (.fin 0 0) = false := by
  cases x <;> simp [cmpFlt, FVal.goEq, FVal.goLt]

/-! ## membership by deep equality -/

theorem oneOf_spec (opts : List DVal) (v : DVal) : oneOf opts v = true ↔ ∃ o ∈ opts, v.beq o = true := by
  simp [oneOf, List.any_eq_true]

theorem sliceContains_spec (x : DVal) (xs : List DVal) :
    sliceContains x (.slice xs) = true ↔ ∃ e ∈ xs, e.beq x = true := by
  simp [sliceContains, List.any_eq_true]

/-! ## strings functions -/

theorem hasPrefix_spec (pre s : String) : hasPrefix pre (.str s) = true ↔ ∃ t, s.toList = pre.toList ++ t := by
  simp only [hasPrefix, strPred, List.isPrefixOf_iff_prefix]
  constructor
  · rintro ⟨t, h⟩; exact ⟨t, h.symm⟩
  · rintro ⟨t, h⟩; exact ⟨t, h.symm⟩

theorem hasSuffix_spec (suf s : String) : hasSuffix suf (.str s) = true ↔ ∃ t, s.toList = t ++ suf.toList := by
  simp only [hasSuffix, strPred, List.isSuffixOf_iff_suffix]
  constructor
  · rintro ⟨t, h⟩; exact ⟨t, h.symm⟩
  · rintro ⟨t, h⟩; exact ⟨t, h.symm⟩

theorem isInfixOfChars_spec (pat : List Char) : ∀ s : List Char, isInfixOfChars pat s = true ↔ ∃ a b, s = a ++ pat ++ b
  | [] => by
    simp only [isInfixOfChars, List.isEmpty_iff]
    constructor
    · intro h; exact ⟨[], [], by simp [h]⟩
    · rintro ⟨a, b, h⟩
      have := congrArg List.length h
      simp at this
      exact List.eq_nil_of_length_eq_zero (by omega)
  | c :: cs => by
    unfold isInfixOfChars
    simp only [Bool.or_eq_true, List.isPrefixOf_iff_prefix, isInfixOfChars_spec pat cs]
    constructor
    · rintro (⟨t, h⟩ | ⟨a, b, h⟩)
      · exact ⟨[], t, by simp [h]⟩
      · exact ⟨c :: a, b, by simp [h]⟩
    · rintro ⟨a, b, h⟩
      cases a with
      | nil => left; exact ⟨b, by simpa using h.symm⟩
      | cons a0 as =>
        right
        simp only [List.cons_append, List.cons.injEq] at h
        exact ⟨as, b, h.2⟩

theorem contains_spec (sub s : String) : containsStr sub (.str s) = true ↔ ∃ a b, s.toList = a ++ sub.toList ++ b := by
  simp only [containsStr, strPred]; exact isInfixOfChars_spec _ _

/-! ## character classes: ASCII upper-case letter, digit, punctuation -/

theorem containsUpper_spec (s : String) :
    containsInRanges upperRanges (.str s) = true ↔ ∃ c ∈ s.toList, 'A'.toNat ≤ c.toNat ∧ c.toNat ≤ 'Z'.toNat := by
  simp [containsInRanges, strPred, List.any_eq_true, inRanges, upperRanges]

theorem containsDigit_spec (s : String) :
    containsInRanges digitRanges (.str s) = true ↔ ∃ c ∈ s.toList, '0'.toNat ≤ c.toNat ∧ c.toNat ≤ '9'.toNat := by
  simp [containsInRanges, strPred, List.any_eq_true, inRanges, digitRanges]

/-- the 32 ASCII punctuation characters -/
def punct : List Nat := "!\"#$%&'()*+,-./:;<=>?@[\\]^_`{|}~".toList.map Char.toNat

/-- the four rune ranges of `ContainsSpecial` are exactly the 32 ASCII punctuation characters -/
theorem special_ranges_are_punct (n : Nat) :
    (specialRanges.any (fun r => r.1 ≤ n && n ≤ r.2)) = true ↔ n ∈ [33,34,35,36,37,38,39,40,41,42,43,44,45,46,47,58,59,60,61,62,63,64,91,92,93,94,95,96,123,124,125,126] := by
  simp only [specialRanges, List.any_cons, List.any_nil, Bool.or_false, Bool.or_eq_true, Bool.and_eq_true, decide_eq_true_eq,
    List.mem_cons, List.not_mem_nil, or_false]
  omega

theorem containsSpecial_spec (s : String) :
    containsInRanges specialRanges (.str s) = true ↔
      ∃ c ∈ s.toList, c.toNat ∈ [33,34,35,36,37,38,39,40,41,42,43,44,45,46,47,58,59,60,61,62,63,64,91,92,93,94,95,96,123,124,125,126] := by
  simp only [containsInRanges, strPred]
  rw [List.any_eq_true]
  constructor
  · rintro ⟨c, hc, h⟩; exact ⟨c, hc, (special_ranges_are_punct c.toNat).mp h⟩
  · rintro ⟨c, hc, h⟩; exact ⟨c, hc, (special_ranges_are_punct c.toNat).mpr h⟩

/-- multi-byte runes are never upper-case letters, digits or punctuation -/
theorem non_ascii_not_special (c : Char) (h : 128 ≤ c.toNat) :
    inRanges upperRanges c = false ∧ inRanges digitRanges c = false ∧ inRanges specialRanges c = false := by
  simp [inRanges, upperRanges, digitRanges, specialRanges]; omega

/-! ## times: instants, zone ignored -/

theorem time_zone_ignored (op : CmpOp) (t ns : Int) (u u' : Bool) :
    timeCmp op t (.time ns u) = timeCmp op t (.time ns u') := rfl

theorem time_spec (t ns : Int) (u : Bool) :
    (timeCmp .gt t (.time ns u) = true ↔ ns > t) ∧ (timeCmp .lt t (.time ns u) = true ↔ ns < t) ∧
    (timeCmp .eq t (.time ns u) = true ↔ ns = t) := by
  simp [timeCmp, cmpInt]

/-! ## UUID and e-mail: the shipped regular expressions decide exactly the stated grammars
`Gen.uuidRegex` / `Gen.emailRegex` are REGENERATED from string.go on every run (the string literals
given to `regexp.MustCompile`, parsed with `regexp/syntax`). `Rx.Re.search` is a backtracking
semantics of that fragment of RE2 (validated against Go's `regexp` by the exhaustive S-preds
stream, where it is the model of `UUID()` / `Email()`). -/

open Rx in
/-- the pattern in the source is `^H{8}\b-H{4}\b-H{4}\b-H{4}\b-H{12}$` with `H = [0-9A-Fa-f]` -/
theorem uuid_pattern_regenerated : Gen.uuidRegex = some (Re.cat .bot (chainRe hexRanges [8, 4, 4, 4, 12])) := by decide

open Rx in
/-- the pattern in the source is the e-mail pattern the model runs -/
theorem email_pattern_regenerated : Gen.emailRegex = some emailRe := by decide

/-- **UUID.** On every text, the shipped pattern matches iff the text is 8-4-4-4-12 hexadecimal
    digits separated by dashes and nothing else (which is also the model of the `UUID()` test). -/
theorem uuid_regex_is_grammar (r : Rx.Re) (hr : Gen.uuidRegex = some r) (cs : List Char) :
    r.search cs = isUUIDChars cs := by
  rw [uuid_pattern_regenerated] at hr
  cases hr
  exact Rx.uuid_regex_is_grammar cs

/-- **E-mail.** On every text, the shipped pattern matches iff the text is a non-empty local part of
    letters, digits and ``.!#$%&'*+/=?^_`{|}~-``, an `@`, and one or more dot-separated labels, each
    1 to 63 letters, digits or hyphens that neither starts nor ends with a hyphen (`Rx.IsEmail`). -/
theorem email_regex_is_grammar (r : Rx.Re) (hr : Gen.emailRegex = some r) (cs : List Char) :
    r.search cs = true ↔ Rx.IsEmail cs := by
  rw [email_pattern_regenerated] at hr
  cases hr
  exact Rx.email_regex_is_grammar cs

/-- the model of `Email()` is the semantics of that pattern, hence the grammar -/
theorem email_model_is_grammar (s : String) : isEmail s = true ↔ Rx.IsEmail s.toList :=
  Rx.email_regex_is_grammar s.toList

theorem takeN_length (p : Char → Bool) : ∀ (n : Nat) (pos q : Rx.Pos), Rx.takeN p n pos = some q → pos.2.length = n + q.2.length
  | 0, pos, q, h => by simp only [Rx.takeN, Option.some.injEq] at h; subst h; simp
  | n + 1, (_, []), q, h => by simp [Rx.takeN] at h
  | n + 1, (_, c :: cs), q, h => by
    simp only [Rx.takeN] at h
    by_cases hc : p c = true
    · simp only [hc, ↓reduceIte] at h
      have := takeN_length p n (some c, cs) q h
      simp only [List.length_cons] at this ⊢
      omega
    · simp [hc] at h

/-- a UUID has exactly 36 characters -/
theorem uuid_length (s : String) (h : isUUID s = true) : s.toList.length = 36 := by
  simp only [isUUID, isUUIDChars, Rx.uuidGrammar, Rx.segs] at h
  split at h
  · rename_i _ r1 h1
    have l1 := takeN_length _ _ _ _ h1
    split at h
    · rename_i _ r2 h2
      have l2 := takeN_length _ _ _ _ h2
      split at h
      · rename_i _ r3 h3
        have l3 := takeN_length _ _ _ _ h3
        split at h
        · rename_i _ r4 h4
          have l4 := takeN_length _ _ _ _ h4
          split at h
          · rename_i _ h5
            have l5 := takeN_length _ _ _ _ h5
            simp only [List.length_cons, List.length_nil] at l1 l2 l3 l4 l5
            omega
          · simp at h
        · simp at h
      · simp at h
    · simp at h
  · simp at h

example : isUUID "123e4567-e89b-12d3-a456-426614174000" = true := by decide
example : isUUID "123e4567-e89b-12d3-a456-42661417400" = false := by decide
example : isUUID "123e4567-e89b-12d3-a456_426614174000" = false := by decide
example : isEmail "a@b.co" = true := by decide +kernel
example : isEmail "a@b..co" = false := by decide +kernel
example : isEmail "@b.co" = false := by decide +kernel
example : Rx.IsEmail "a@b.co".toList :=
  ⟨['a'], ['b'], [['c', 'o']], by decide, by decide, by decide,
    ⟨'b', [], rfl, by decide, .inl rfl⟩, fun l hl => by
      simp only [List.mem_singleton] at hl; subst hl
      exact ⟨'c', ['o'], rfl, by decide, .inr ⟨[], 'o', rfl, by decide, by simp, by decide⟩⟩⟩

end Zog.Props.C20
