import Zog.Path
import Zog.Engine
import Zog.IssuePaths
import Zog.Props.FactsOK
import Zog.Props.C15

/-!
# C10 — the issue map is well-formed and addresses every issue by its path
-/

namespace Zog.Props.C10
open Zog

/-! ## (i) the issue map, for every sequence of issues -/

theorem get_append (m : IssueMap) (k k' : String) (i : Issue) :
    (IssueMap.append m k i).get k' = if k' == k then m.get k' ++ [i] else m.get k' := by
  induction m with
  | nil =>
    unfold IssueMap.append
    by_cases h : (k == k') = true
    · have : k = k' := by simpa using h
      subst this; simp [IssueMap.get]
    · have h2 : (k' == k) = false := by
        have : k ≠ k' := by simpa using h
        simp [Ne.symm this]
      simp [IssueMap.get, h, h2]
  | cons p rest ih =>
    obtain ⟨pk, pis⟩ := p
    unfold IssueMap.append
    by_cases hpk : (pk == k) = true
    · have e : pk = k := by simpa using hpk
      subst e
      simp only [beq_self_eq_true, ↓reduceIte, IssueMap.get]
      by_cases hk' : (pk == k') = true
      · have : pk = k' := by simpa using hk'
        subst this; simp
      · have h2 : (k' == pk) = false := by
          have : pk ≠ k' := by simpa using hk'
          simp [Ne.symm this]
        simp [hk', h2]
    · simp only [hpk, Bool.false_eq_true, ↓reduceIte, IssueMap.get]
      by_cases hk' : (pk == k') = true
      · have e : pk = k' := by simpa using hk'
        subst e
        have : (pk == k) = false := by simpa using hpk
        simp [this]
      · simp only [hk', Bool.false_eq_true, ↓reduceIte]
        exact ih

def filed (is : List Issue) (k : String) : List Issue := is.filter (fun i => keyOf i.path == k)

/-- invariant of `ErrsMap.Add` over a whole sequence -/
structure Inv (m : IssueMap) (seen : List Issue) : Prop where
  empty_iff : m = [] ↔ seen = []
  byKey : ∀ k, k ≠ firstKey → m.get k = filed seen k
  first : ∀ i rest, seen = i :: rest → m.get firstKey = [i]

theorem inv_add (m : IssueMap) (seen : List Issue) (i : Issue) (h : Inv m seen) (hk : keyOf i.path ≠ firstKey) :
    Inv (IssueMap.add m i) (seen ++ [i]) := by
  have hne : (firstKey == keyOf i.path) = false := by simp [Ne.symm hk]
  constructor
  · constructor
    · intro he
      exfalso
      unfold IssueMap.add at he
      have : ∀ (m : IssueMap) (k : String) (i : Issue), IssueMap.append m k i ≠ [] := by
        intro m k i; cases m with
        | nil => simp [IssueMap.append]
        | cons a as => unfold IssueMap.append; split <;> simp
      exact this _ _ _ he
    · intro he; simp at he
  · intro k hkf
    unfold IssueMap.add
    rw [get_append]
    by_cases hm : m.isEmpty = true
    · have hm' : m = [] := by simpa using hm
      have hs : seen = [] := h.empty_iff.mp hm'
      subst hm' hs
      have hkf' : (firstKey == k) = false := by simp [Ne.symm hkf]
      by_cases hkk : (k == keyOf i.path) = true
      · simp [IssueMap.get, hkk, filed, hkf']
        have : keyOf i.path = k := by simpa using (by simpa using hkk : k = keyOf i.path).symm
        simp [this]
      · have : (keyOf i.path == k) = false := by
          have : k ≠ keyOf i.path := by simpa using hkk
          simp [Ne.symm this]
        simp [IssueMap.get, hkk, filed, hkf', this]
    · simp only [hm, Bool.false_eq_true, ↓reduceIte]
      rw [h.byKey k hkf]
      by_cases hkk : (k == keyOf i.path) = true
      · have e : k = keyOf i.path := by simpa using hkk
        simp [filed, hkk, e]
      · have : (keyOf i.path == k) = false := by
          have : k ≠ keyOf i.path := by simpa using hkk
          simp [Ne.symm this]
        simp [filed, hkk, this]
  · intro j rest hj
    unfold IssueMap.add
    rw [get_append]
    simp only [hne, Bool.false_eq_true, ↓reduceIte]
    by_cases hm : m.isEmpty = true
    · have hm' : m = [] := by simpa using hm
      have hs : seen = [] := h.empty_iff.mp hm'
      subst hm' hs
      simp at hj
      simp [IssueMap.get, hj.1]
    · simp only [hm, Bool.false_eq_true, ↓reduceIte]
      cases seen with
      | nil => exact absurd (h.empty_iff.mpr rfl) (by simpa using hm)
      | cons s0 ss =>
        simp at hj
        rw [h.first s0 ss rfl, hj.1]

theorem inv_foldl (is : List Issue) (hk : ∀ i ∈ is, keyOf i.path ≠ firstKey) :
    ∀ (m : IssueMap) (seen : List Issue), Inv m seen → Inv (is.foldl IssueMap.add m) (seen ++ is) := by
  induction is with
  | nil => intro m seen h; simpa using h
  | cons i rest ih =>
    intro m seen h
    have := ih (fun j hj => hk j (List.mem_cons_of_mem _ hj)) (IssueMap.add m i) (seen ++ [i])
      (inv_add m seen i h (hk i List.mem_cons_self))
    simpa using this

/-- **Well-formedness for every issue sequence** (no issue addressed to the reserved key `$first`):
    under every key other than `$first` the map holds exactly the issues whose path has that key
    (`""` is keyed `$root`), in arrival order — so every issue appears exactly once outside `$first`
    — and `$first` holds exactly the first issue recorded. -/
theorem issue_map_well_formed (is : List Issue) (hk : ∀ i ∈ is, keyOf i.path ≠ firstKey) :
    (∀ k, k ≠ firstKey → (toIssueMap is).get k = filed is k) ∧
    (∀ i rest, is = i :: rest → (toIssueMap is).get firstKey = [i]) ∧
    (toIssueMap is = [] ↔ is = []) := by
  have h := inv_foldl is hk [] [] ⟨by simp, by intro k _; simp [IssueMap.get, filed], by intro i r h; simp at h⟩
  simp only [List.nil_append] at h
  exact ⟨h.byKey, h.first, h.empty_iff⟩

theorem root_key : keyOf "" = rootKey ∧ rootKey = "$root" ∧ firstKey = "$first" := ⟨rfl, rfl, rfl⟩
theorem nonroot_key (p : String) (h : p ≠ "") : keyOf p = p := by simp [keyOf, h]

/-! ## (ii) path rendering: keys joined by '.', slice positions `[i]` appended without a dot -/

def sep (seg : String) : String := if startsWithBracket seg then seg else "." ++ seg

def joinSpec : List String → String
  | [] => ""
  | s :: rest => s ++ String.join (rest.map sep)

theorem renderAux_nonempty (prev : String) (hp : prev ≠ "") (segs : List String) (h : ∀ s ∈ segs, s ≠ "") :
    renderAux prev segs = String.join (segs.map sep) := by
  induction segs generalizing prev with
  | nil => rfl
  | cons v rest ih =>
    unfold renderAux
    have hv : v ≠ "" := h v List.mem_cons_self
    rw [ih v hv (fun s hs => h s (List.mem_cons_of_mem _ hs))]
    simp only [List.map_cons, String.join_cons, sep]
    by_cases hb : startsWithBracket v = true <;> simp [hp, hb, String.append_assoc]

/-- the rendered path of a node is the chain of keys / indices from the root in the documented grammar -/
theorem render_is_joinSpec (segs : List String) (h : ∀ s ∈ segs, s ≠ "") : render segs = joinSpec segs := by
  cases segs with
  | nil => rfl
  | cons s rest =>
    unfold render renderAux joinSpec
    have hs : s ≠ "" := h s List.mem_cons_self
    rw [renderAux_nonempty s hs rest (fun x hx => h x (List.mem_cons_of_mem _ hx))]
    simp

example : render ["users", "[3]", "name"] = "users[3].name" := by decide
example : render ["[0]"] = "[0]" := by decide
example : render [] = "" := by decide

/-! ## (iii) key resolution by tag priority -/

/-- the source tag names the key: the part before its first comma (options such as `,omitempty` are not
    part of the name) -/
theorem key_source_tag_first (t k key : String) (fm : FieldMeta) (h : lookupD fm.tags t = some k)
    (hn : Engine.tagName k ≠ "") :
    Engine.keyFor (some t) fm key = Engine.tagName k := by simp [Engine.keyFor, h, hn]

/-- a tag without options names the key as it stands -/
theorem tagName_plain (k : String) (h : ',' ∉ k.toList) : Engine.tagName k = k := by
  unfold Engine.tagName
  have : ∀ l : List Char, ',' ∉ l → l.takeWhile (fun c => c != ',') = l := by
    intro l
    induction l with
    | nil => intro _; rfl
    | cons c cs ih =>
      intro hl
      have hc : c ≠ ',' := fun e => hl (e ▸ List.mem_cons_self)
      have hcs : ',' ∉ cs := fun m => hl (List.mem_cons_of_mem _ m)
      simp [List.takeWhile_cons, hc, ih hcs]
  rw [this _ h]; simp

/-- the name part of a tag never contains a comma, and taking it twice changes nothing -/
theorem tagName_no_comma (k : String) : ',' ∉ (Engine.tagName k).toList := by
  unfold Engine.tagName
  simp only [String.toList_ofList]
  have : ∀ l : List Char, ',' ∉ l.takeWhile (fun c => c != ',') := by
    intro l
    induction l with
    | nil => simp
    | cons c cs ih =>
      rw [List.takeWhile_cons]
      by_cases hc : c = ','
      · simp [hc]
      · have : (c != ',') = true := by simpa using hc
        simp only [this, ↓reduceIte, List.mem_cons, not_or]
        exact ⟨fun e => hc e.symm, ih⟩
  exact this _

theorem tagName_idem (k : String) : Engine.tagName (Engine.tagName k) = Engine.tagName k :=
  tagName_plain _ (tagName_no_comma k)

/-- a source tag that names nothing (`json:",omitempty"`, `json:""`) does not name the key -/
theorem key_source_tag_without_name (t k key : String) (fm : FieldMeta) (h : lookupD fm.tags t = some k)
    (hn : Engine.tagName k = "") :
    Engine.keyFor (some t) fm key = (lookupD fm.tags "zog").getD key := by simp [Engine.keyFor, h, hn]

example : Engine.tagName "name,omitempty" = "name" ∧ Engine.tagName ",omitempty" = "" ∧ Engine.tagName "j_name" = "j_name" := by decide

theorem key_zog_tag_next (t z key : String) (fm : FieldMeta) (h : lookupD fm.tags t = none) (hz : lookupD fm.tags "zog" = some z) :
    Engine.keyFor (some t) fm key = z := by simp [Engine.keyFor, h, hz]

theorem key_schema_key_last (t key : String) (fm : FieldMeta) (h : lookupD fm.tags t = none) (hz : lookupD fm.tags "zog" = none) :
    Engine.keyFor (some t) fm key = key := by simp [Engine.keyFor, h, hz]

/-- Validate (and a plain Go map): `zog` tag, else the schema key -/
theorem key_validate (key : String) (fm : FieldMeta) :
    Engine.keyFor none fm key = (lookupD fm.tags "zog").getD key := by simp [Engine.keyFor]

/-- a test's IssuePath overrides the path -/
theorem issue_path_override (env : Env) (ps dt : String) (t : Test) (p : String) (h : t.issuePath = some p) :
    (issueOfTest env ps dt t).path = p := by simp [issueOfTest, h]

/-! ## (v) sanitizers keep keys and order and carry only the messages -/

def sanitizeList (l : List Issue) : List String := l.map (·.message)
def sanitizeMap (m : IssueMap) : List (String × List String) := m.map (fun p => (p.1, sanitizeList p.2))

theorem sanitize_keys (m : IssueMap) : (sanitizeMap m).map (·.1) = m.map (·.1) := by
  simp [sanitizeMap, List.map_map, Function.comp_def]

theorem sanitize_list_length (l : List Issue) : (sanitizeList l).length = l.length := by simp [sanitizeList]

theorem sanitize_get (l : List Issue) (n : Nat) (h : n < l.length) :
    (sanitizeList l)[n]'(by simpa [sanitizeList] using h) = (l[n]).message := by simp [sanitizeList]

/-- **At every nesting depth, every issue is addressed by a chain from the root.** For every schema
    whose callbacks return ordinary errors (a ZogIssue returned by a PostTransform keeps the path its
    author gave it), every input, mode and visit order: the `Path` of every issue of the result is
    the rendering of a chain of keys and slice positions — the node that filed it, reached from the
    root — or the `IssuePath` declared on one of the schema's tests. (Each node files under
    `path ++ [its key]`: `Spec.proc_at`, by induction over the schema tree; the key itself is
    `key_source_tag_first` … `key_validate`, the rendering `render_is_joinSpec`.) -/
theorem issues_addressed_at_every_depth (env : Env) (m : Mode) (s : Schema) (hpl : Spec.PlainCallbacks s)
    (tag : Option String) (v : Val) (d : DVal) :
    ∀ i ∈ (Engine.run env Gen.facts m s tag v d).2.sink,
      (∃ chain : List String, i.path = render chain) ∨ i.path ∈ Spec.overrides s := by
  rw [engine_is_spec]
  exact Spec.run_issue_paths env m s hpl tag v d

/-- the same, locally: a node run at path `p` only files issues at or below `p` (or at declared
    IssuePaths) — whatever state it starts from -/
theorem node_files_below_itself (env : Env) (m : Mode) (s : Schema) (hpl : Spec.PlainCallbacks s)
    (tag : Option String) (path : List String) (v : Val) (d : DVal) (st : St) :
    ∃ extra, (Spec.proc env m s tag path v d st).2.sink = st.sink ++ extra ∧
      ∀ i ∈ extra, (∃ suffix : List String, i.path = render (path ++ suffix)) ∨ i.path ∈ Spec.overrides s :=
  Spec.proc_at env m (Spec.overrides s) s hpl (fun _ h => h) tag path v d st

/-- the source tag that keys the issues of a request is the one of the documented source: `query` for GET and
    HEAD, `json` / `form` by media type (regenerated dispatch tables of zhttp.Request) -/
theorem request_source_as_documented :
    Gen.httpMethods = [("GET".toList, .query), ("HEAD".toList, .query)] ∧
    Gen.httpTypes = [("application/json".toList, .json), ("application/x-www-form-urlencoded".toList, .form)] ∧
    Gen.httpDefault = .query ∧ Gen.httpCutSep = [';'] ∧ Gen.httpUniform = true := C15.tables_as_documented

end Zog.Props.C10
