import Zog.Coerce

/-!
# C18 — numeric coercion never silently changes a number
The numeric coercers of `Zog.Coerce` (`coerceInt`, the Int32/Int64/Float32 adapters) against exact
arithmetic on `Int` / dyadic values.  `strconv.ParseFloat` is external (`ext.parseFloat`).
-/

namespace Zog.Props.C18
open Zog

theorem pow2_pos (n : Nat) : 0 < pow2 n := by unfold pow2; exact Int.pow_pos (by decide)

/-- integers of the accepted Go kinds are passed through unchanged -/
theorem int_identity (n : Int) :
    coerceInt (.int .int n) = some n ∧ coerceInt (.int .i64 n) = some n ∧ coerceInt (.int .i32 n) = some n :=
  ⟨rfl, rfl, rfl⟩

/-- `strconv.Atoi`: an accepted string denotes a number in the 64-bit range (no wrap) -/
theorem atoiBody_in_range (neg : Bool) (cs : List Char) (n : Int) (h : atoiBody neg cs = some n) :
    minInt64 ≤ n ∧ n ≤ maxInt64 := by
  unfold atoiBody at h
  split at h
  · exact absurd h (by simp)
  · cases hd : digitsVal cs 0 with
    | none => simp [hd] at h
    | some k =>
      simp only [hd] at h
      cases neg <;> simp only [Bool.false_eq_true, ↓reduceIte] at h <;>
      · split at h
        · rename_i hr
          simp only [Option.some.injEq] at h
          subst h
          exact hr
        · exact absurd h (by simp)

theorem atoi_in_range (s : String) (n : Int) (h : atoi s = some n) : minInt64 ≤ n ∧ n ≤ maxInt64 := by
  unfold atoi at h
  split at h <;> exact atoiBody_in_range _ _ _ h

/-- NaN and ±Inf never become integers -/
theorem nan_inf_rejected :
    coerceInt (.f64 .nan) = none ∧ coerceInt (.f64 (.inf false)) = none ∧ coerceInt (.f64 (.inf true)) = none := by
  refine ⟨rfl, rfl, rfl⟩

/-- a float that is accepted as an integer is finite and its truncation toward zero lies in the
    64-bit range: the result is exactly `trunc(x)`, never a wrapped or saturated value -/
theorem float_to_int_exact (f : FVal) (n : Int) (h : coerceInt (.f64 f) = some n) :
    f.trunc? = some n ∧ minInt64 ≤ n ∧ n ≤ maxInt64 := by
  unfold coerceInt at h
  cases f with
  | nan => simp at h
  | inf neg => cases neg <;> simp [FVal.geTwo63, FVal.ltNegTwo63] at h
  | nzero =>
    simp [FVal.geTwo63, FVal.ltNegTwo63, FVal.trunc?] at h
    subst h
    exact ⟨rfl, by decide, by decide⟩
  | fin m e =>
    simp only at h
    split at h
    · exact absurd h (by simp)
    · rename_i hr
      refine ⟨h, ?_⟩
      simp only [Bool.or_eq_true, not_or, Bool.not_eq_true] at hr
      obtain ⟨h1, h2⟩ := hr
      simp only [FVal.trunc?, Option.some.injEq] at h
      unfold FVal.geTwo63 at h1
      unfold FVal.ltNegTwo63 at h2
      unfold minInt64 maxInt64
      by_cases he : e ≥ 0
      · simp only [he, ↓reduceIte, decide_eq_false_iff_not] at h1 h2 h
        subst h
        omega
      · simp only [he, ↓reduceIte, decide_eq_false_iff_not] at h1 h2 h
        have hD := pow2_pos (-e).toNat
        have hP := pow2_pos 63
        generalize pow2 (-e).toNat = D at *
        generalize pow2 63 = P at *
        subst h
        by_cases hm : 0 ≤ m
        · rw [Int.tdiv_eq_ediv_of_nonneg hm]
          have hq : m / D < P := Int.ediv_lt_of_lt_mul hD (by omega)
          have hq0 : 0 ≤ m / D := Int.ediv_nonneg hm (by omega)
          omega
        · have hm' : 0 ≤ -m := by omega
          have e1 : m.tdiv D = -((-m).tdiv D) := by rw [Int.neg_tdiv]; omega
          rw [e1, Int.tdiv_eq_ediv_of_nonneg hm']
          have hq0 : 0 ≤ (-m) / D := Int.ediv_nonneg hm' (by omega)
          have hq : (-m) / D ≤ P := by
            have : (-m) / D < P + 1 := Int.ediv_lt_of_lt_mul hD (by
              have : -m ≤ P * D := by
                have := h2
                rw [Int.neg_mul] at this
                omega
              have hd : (P + 1) * D = P * D + D := by rw [Int.add_mul]; omega
              omega)
            omega
          omega

/-- Int32: whatever the representation, an accepted value is in the int32 range -/
theorem int32_in_range (ext : Ext) (v : Val) (k : NKind) (n : Int) (h : coerceNum ext .i32 v = some (.int k n)) :
    minInt32 ≤ n ∧ n ≤ maxInt32 := by
  unfold coerceNum at h
  simp only [Option.bind_eq_some_iff] at h
  obtain ⟨x, _, hx⟩ := h
  split at hx
  · exact absurd hx (by simp)
  · rename_i hr
    simp only [Option.some.injEq, DVal.int.injEq] at hx
    obtain ⟨_, rfl⟩ := hx
    omega

/-- Int32 holds exactly the number the Int coercer produced (no `int32(n)` wrap) -/
theorem int32_same_number (ext : Ext) (v : Val) (k : NKind) (n : Int) (h : coerceNum ext .i32 v = some (.int k n)) :
    coerceInt v = some n := by
  unfold coerceNum at h
  simp only [Option.bind_eq_some_iff] at h
  obtain ⟨x, hx1, hx⟩ := h
  split at hx
  · exact absurd hx (by simp)
  · simp only [Option.some.injEq, DVal.int.injEq] at hx
    obtain ⟨_, rfl⟩ := hx
    exact hx1

/-- Float32: a finite number is never turned into ±Inf -/
theorem float32_no_overflow (ext : Ext) (v : Val) (k : NKind) (y x : FVal)
    (hx : coerceF64 ext v = some x) (h : coerceNum ext .f32 v = some (.flt k y)) :
    y = toF32 x ∧ (y.isInf = true → x.isInf = true) := by
  unfold coerceNum at h
  simp only [hx, Option.bind_some] at h
  split at h
  · exact absurd h (by simp)
  · rename_i hr
    simp only [Option.some.injEq, DVal.flt.injEq] at h
    obtain ⟨_, rfl⟩ := h
    refine ⟨rfl, ?_⟩
    intro hy
    simp only [hy, Bool.true_and, Bool.not_eq_true', Bool.not_eq_true] at hr
    cases hxi : x.isInf <;> simp_all

/-- the examples named by the property -/
theorem named_examples (ext : Ext) :
    coerceNum ext .i32 (.str "3000000000") = none ∧
    coerceNum ext .i32 (.f64 (.fin 3000000000 0)) = none ∧
    coerceNum ext .int (.f64 (.fin 10000000000000000000 0)) = none ∧
    coerceNum ext .i64 (.f64 (.fin (-10000000000000000000) 0)) = none ∧
    coerceNum ext .int (.f64 .nan) = none ∧ coerceNum ext .i64 (.f64 (.inf false)) = none ∧
    coerceNum ext .int (.f64 (.fin 5 (-1))) = some (.int .int 2) ∧
    coerceNum ext .int (.f64 (.fin (-5) (-1))) = some (.int .int (-2)) ∧
    coerceNum ext .i32 (.str "2147483647") = some (.int .i32 2147483647) := by
  refine ⟨by rfl, by rfl, by rfl, by rfl, rfl, rfl, by rfl, by rfl, by rfl⟩

end Zog.Props.C18
