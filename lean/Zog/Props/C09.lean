import Zog.Props.FactsOK
import Zog.Order
import Zog.OrderAll
import Zog.ParamsOrder

/-!
# C09 — results do not depend on map iteration or key insertion order
The field visit order of every struct visit is the oracle `env.ω`; theorems quantify over it.
The FULL statement is false of model and code alike (known finding D19): its negation is proved
below with a concrete witness, next to what does hold.
-/

namespace Zog.Props.C09
open Zog Spec

/-- whatever the runtime's iteration order, every declared field is visited exactly once: the
    visit order is a permutation of the declared keys for EVERY oracle -/
theorem visit_order_is_permutation (obs keys : List String) : (Engine.orderOf obs keys).Perm keys :=
  Spec.orderOf_perm obs keys

theorem visit_order_same_length (obs keys : List String) : (Engine.orderOf obs keys).length = keys.length :=
  (visit_order_is_permutation obs keys).length_eq

/-- insertion order is not an input of the model at all: a schema's field set enters only through
    `Fields.keys`, and the order actually used is `orderOf (ω path) keys` -/
theorem visit_order_mem (obs keys : List String) (k : String) : k ∈ Engine.orderOf obs keys ↔ k ∈ keys :=
  (visit_order_is_permutation obs keys).mem_iff

/-- for every oracle the mechanism model agrees with the reference semantics run under that oracle:
    no order can make the engine skip a constraint or leak catch state -/
theorem engine_is_spec_for_every_order (fmt : String → String → List (String × String) → String)
    (ω : String → List String) (m : Mode) (s : Schema) (tag : Option String) (v : Val) (d : DVal) :
    Engine.run ⟨fmt, ω⟩ Gen.facts m s tag v d = Spec.run ⟨fmt, ω⟩ m s tag v d :=
  engine_is_spec ⟨fmt, ω⟩ m s tag v d

/-- a struct with a single field does not depend on the oracle at all -/
theorem single_field_order_independent (obs₁ obs₂ : List String) (k : String) :
    Engine.orderOf obs₁ [k] = Engine.orderOf obs₂ [k] := by
  simp [Engine.orderOf, Engine.insertRank]

/-! ## what holds: order independence of every PostTransform-free schema -/

/-- **C09_partial (reference semantics).** For EVERY schema without PostTransforms (whose struct
    fields address distinct Go fields), every input, destination and mode, and EVERY two field
    visit oracles: the destination is the same, and the issues — hence every key of the issue map
    with its multiset of issues — and the callback events are the same up to order. -/
theorem C09_partial_spec (fmt : String → String → List (String × String) → String) (ω₁ ω₂ : String → List String)
    (m : Mode) (s : Schema) (hp : s.postFree = true) (hw : s.WF) (tag : Option String) (v : Val) (d : DVal) :
    (Spec.run ⟨fmt, ω₁⟩ m s tag v d).1 = (Spec.run ⟨fmt, ω₂⟩ m s tag v d).1 ∧
    (Spec.run ⟨fmt, ω₁⟩ m s tag v d).2.sink.Perm (Spec.run ⟨fmt, ω₂⟩ m s tag v d).2.sink ∧
    (Spec.run ⟨fmt, ω₁⟩ m s tag v d).2.log.Perm (Spec.run ⟨fmt, ω₂⟩ m s tag v d).2.log := by
  obtain ⟨h1, h2, h3⟩ := Spec.proc_order_indep fmt ω₁ ω₂ m s hp hw tag [] v d
  exact ⟨h1, h2, h3⟩

/-- **C09_partial (mechanism model, current code facts).** The same for the engine with the flags
    on the shared child context: no field visit order changes the destination or the set of issues. -/
theorem C09_partial (fmt : String → String → List (String × String) → String) (ω₁ ω₂ : String → List String)
    (m : Mode) (s : Schema) (hp : s.postFree = true) (hw : s.WF) (tag : Option String) (v : Val) (d : DVal) :
    (Engine.run ⟨fmt, ω₁⟩ Gen.facts m s tag v d).1 = (Engine.run ⟨fmt, ω₂⟩ Gen.facts m s tag v d).1 ∧
    (Engine.run ⟨fmt, ω₁⟩ Gen.facts m s tag v d).2.sink.Perm (Engine.run ⟨fmt, ω₂⟩ Gen.facts m s tag v d).2.sink := by
  rw [engine_is_spec, engine_is_spec]
  obtain ⟨h1, h2, _⟩ := C09_partial_spec fmt ω₁ ω₂ m s hp hw tag v d
  exact ⟨h1, h2⟩

/-- success is order independent (corollary): if one order reports no issue, none does -/
theorem success_order_independent (fmt : String → String → List (String × String) → String) (ω₁ ω₂ : String → List String)
    (m : Mode) (s : Schema) (hp : s.postFree = true) (hw : s.WF) (tag : Option String) (v : Val) (d : DVal)
    (h : (Spec.run ⟨fmt, ω₁⟩ m s tag v d).2.sink = []) : (Spec.run ⟨fmt, ω₂⟩ m s tag v d).2.sink = [] := by
  have := (C09_partial_spec fmt ω₁ ω₂ m s hp hw tag v d).2.1
  rw [h] at this
  exact List.Perm.eq_nil this.symm

/-- **On success nothing depends on the visit order — EVERY well-formed schema, PostTransforms
    included.** If the execution under one field-visit oracle reports no issue, then under every
    other oracle it reports none either, the destination is the same and the same callbacks ran
    (as a multiset). PostTransform gating (D19) can only bite on executions that fail somewhere. -/
theorem success_order_independent_all (fmt : String → String → List (String × String) → String) (ω₁ ω₂ : String → List String)
    (m : Mode) (s : Schema) (hw : s.WF) (tag : Option String) (v : Val) (d : DVal)
    (h : (Engine.run ⟨fmt, ω₁⟩ Gen.facts m s tag v d).2.sink = []) :
    (Engine.run ⟨fmt, ω₂⟩ Gen.facts m s tag v d).2.sink = [] ∧
    (Engine.run ⟨fmt, ω₁⟩ Gen.facts m s tag v d).1 = (Engine.run ⟨fmt, ω₂⟩ Gen.facts m s tag v d).1 ∧
    (Engine.run ⟨fmt, ω₁⟩ Gen.facts m s tag v d).2.log.Perm (Engine.run ⟨fmt, ω₂⟩ Gen.facts m s tag v d).2.log := by
  rw [engine_is_spec] at h ⊢
  rw [engine_is_spec]
  exact proc_success_order_indep fmt ω₁ ω₂ m s hw tag [] v d h

/-! ## the full statement is false: PostTransform gating (known finding D19)

`{a: String.PostTransform(upper), b: Int.GT(5)}` with a struct-level test reading `a`:
visiting `a` first runs its PostTransform (no issue yet); visiting `b` first records `gt`, and
`a`'s PostTransform is skipped — the struct-level test then sees a different value. -/

def upperRun (d : DVal) : DVal × Option PostErr :=
  match d with
  | .str _ => (.str "X", none)
  | d => (d, none)
def strCoerce (v : Val) : Option DVal :=
  match v with
  | .str s => some (.str s)
  | _ => none
def intCoerce (v : Val) : Option DVal :=
  match v with
  | .int _ n => some (.int .int n)
  | _ => none
def gt5 (d : DVal) : Bool :=
  match d with
  | .int _ n => decide (n > 5)
  | _ => false
def aIsXPred (d : DVal) : Bool :=
  match d.get "A" with
  | .str s => s == "X"
  | _ => false
def upperA : Post := { id := 1, run := upperRun }
def fieldA : Prim := { kind := .str, posts := [upperA], coerce := strCoerce }
def fieldB : Prim := { kind := .num .int, coerce := intCoerce, tests := [{ id := 2, code := "gt", pred := gt5 }] }
def aIsX : Test := { id := 3, code := "a_upper", pred := aIsXPred }
def witness : Schema :=
  .struct (.cons "a" ⟨"A", []⟩ (.prim fieldA) (.cons "b" ⟨"B", []⟩ (.prim fieldB) .nil)) [aIsX] []
def witnessIn : Val := .obj [("a", .str "x"), ("b", .int .int 1)]
def witnessDest : DVal := .struct [("A", .str ""), ("B", .int .int 0)]
def envAB : Env := { fmt := fun _ _ _ => "m", ω := fun _ => ["a", "b"] }
def envBA : Env := { fmt := fun _ _ _ => "m", ω := fun _ => ["b", "a"] }

/-- **Negation of the full statement, by witness**: the two visit orders report different issues -/
theorem full_statement_false :
    ((Spec.run envAB .parse witness none witnessIn witnessDest).2.sink.map (·.code)) = ["gt"] ∧
    ((Spec.run envBA .parse witness none witnessIn witnessDest).2.sink.map (·.code)) = ["gt", "a_upper"] := by
  constructor <;> decide

/-! ### non-vacuity: the hypotheses of `C09_partial` are met by a concrete two-field schema -/
def witnessNoPost : Schema :=
  .struct (.cons "a" ⟨"A", []⟩ (.prim { fieldA with posts := [] }) (.cons "b" ⟨"B", []⟩ (.prim fieldB) .nil)) [aIsX] []

example : witnessNoPost.postFree = true := by decide

example : witnessNoPost.WF := by
  refine ⟨by decide, ?_, trivial, trivial, trivial⟩
  intro a b ka fma sa kb fmb sb ha hb hab
  simp only [Fields.find] at ha hb
  split at ha
  · split at hb
    · rename_i h1 h2
      exact absurd ((by simpa using h1 : "a" = a).symm.trans (by simpa using h2 : "a" = b)) hab
    · split at hb
      · simp only [Option.some.injEq, Prod.mk.injEq] at ha hb
        rw [← ha.2.1, ← hb.2.1]; decide
      · simp at hb
  · split at ha
    · split at hb
      · simp only [Option.some.injEq, Prod.mk.injEq] at ha hb
        rw [← ha.2.1, ← hb.2.1]; decide
      · split at hb
        · rename_i h1 _ h2
          exact absurd ((by simpa using h1 : "b" = a).symm.trans (by simpa using h2 : "b" = b)) hab
        · simp at hb
    · simp at ha

/-- **Messages do not depend on the enumeration order of an issue's Params map**: any two
    enumerations of one map (permutations of each other, keys distinct) give the same message under the
    default formatter, for every language table, code and type — also when a parameter's value holds
    another parameter's placeholder (defect D35 before its repair). -/
theorem message_independent_of_param_order (m : LangMap) (code dtype : String) (ps qs : List (String × String))
    (h : ps.Perm qs) (hk : (ps.map (·.1)).Nodup) :
    defaultFmt m code dtype ps = defaultFmt m code dtype qs :=
  defaultFmt_perm m code dtype ps qs h hk

end Zog.Props.C09
