import Zog.Props.FactsOK
import Zog.Mono

/-!
# C09 — results do not depend on map iteration or key insertion order
The field visit order of every struct visit is the oracle `env.ω`; theorems quantify over it.
The FULL statement is false of model and code alike (known finding D19): its negation is proved
below with a concrete witness, next to what does hold.
-/

namespace Zog.Props.C09
open Zog Spec

/-- whatever the runtime's iteration order, every declared field is visited exactly once: the
    visit order is a permutation of the declared keys for EVERY oracle -/
theorem insertRank_perm (obs : List String) (k : String) (xs : List String) :
    (Engine.insertRank obs k xs).Perm (k :: xs) := by
  induction xs with
  | nil => exact List.Perm.refl _
  | cons x xs ih =>
    unfold Engine.insertRank
    split
    · exact List.Perm.refl _
    · exact (List.Perm.cons x ih).trans (List.Perm.swap k x xs)

theorem visit_order_is_permutation (obs keys : List String) : (Engine.orderOf obs keys).Perm keys := by
  induction keys with
  | nil => exact List.Perm.refl _
  | cons k ks ih =>
    unfold Engine.orderOf
    exact (insertRank_perm obs k _).trans (List.Perm.cons k ih)

theorem visit_order_same_length (obs keys : List String) : (Engine.orderOf obs keys).length = keys.length :=
  (visit_order_is_permutation obs keys).length_eq

/-- insertion order is not an input of the model at all: a schema's field set enters only through
    `Fields.keys`, and the order actually used is `orderOf (ω path) keys` -/
theorem visit_order_mem (obs keys : List String) (k : String) : k ∈ Engine.orderOf obs keys ↔ k ∈ keys :=
  (visit_order_is_permutation obs keys).mem_iff

/-- for every oracle the mechanism model agrees with the reference semantics run under that oracle:
    no order can make the engine skip a constraint or leak catch state -/
theorem engine_is_spec_for_every_order (fmt : String → String → List (String × String) → String)
    (ω : String → List String) (m : Mode) (s : Schema) (tag : Option String) (v : Val) (d : DVal) :
    Engine.run ⟨fmt, ω⟩ Gen.facts m s tag v d = Spec.run ⟨fmt, ω⟩ m s tag v d :=
  engine_is_spec ⟨fmt, ω⟩ m s tag v d

/-- a struct with a single field does not depend on the oracle at all -/
theorem single_field_order_independent (obs₁ obs₂ : List String) (k : String) :
    Engine.orderOf obs₁ [k] = Engine.orderOf obs₂ [k] := by
  simp [Engine.orderOf, Engine.insertRank]

/-! ## the full statement is false: PostTransform gating (known finding D19)

`{a: String.PostTransform(upper), b: Int.GT(5)}` with a struct-level test reading `a`:
visiting `a` first runs its PostTransform (no issue yet); visiting `b` first records `gt`, and
`a`'s PostTransform is skipped — the struct-level test then sees a different value. -/

def upperRun (d : DVal) : DVal × Option PostErr :=
  match d with
  | .str _ => (.str "X", none)
  | d => (d, none)
def strCoerce (v : Val) : Option DVal :=
  match v with
  | .str s => some (.str s)
  | _ => none
def intCoerce (v : Val) : Option DVal :=
  match v with
  | .int _ n => some (.int .int n)
  | _ => none
def gt5 (d : DVal) : Bool :=
  match d with
  | .int _ n => decide (n > 5)
  | _ => false
def aIsXPred (d : DVal) : Bool :=
  match d.get "A" with
  | .str s => s == "X"
  | _ => false
def upperA : Post := { id := 1, run := upperRun }
def fieldA : Prim := { kind := .str, posts := [upperA], coerce := strCoerce }
def fieldB : Prim := { kind := .num .int, coerce := intCoerce, tests := [{ id := 2, code := "gt", pred := gt5 }] }
def aIsX : Test := { id := 3, code := "a_upper", pred := aIsXPred }
def witness : Schema :=
  .struct (.cons "a" ⟨"A", []⟩ (.prim fieldA) (.cons "b" ⟨"B", []⟩ (.prim fieldB) .nil)) [aIsX] []
def witnessIn : Val := .obj [("a", .str "x"), ("b", .int .int 1)]
def witnessDest : DVal := .struct [("A", .str ""), ("B", .int .int 0)]
def envAB : Env := { fmt := fun _ _ _ => "m", ω := fun _ => ["a", "b"] }
def envBA : Env := { fmt := fun _ _ _ => "m", ω := fun _ => ["b", "a"] }

/-- **Negation of the full statement, by witness**: the two visit orders report different issues -/
theorem full_statement_false :
    ((Spec.run envAB .parse witness none witnessIn witnessDest).2.sink.map (·.code)) = ["gt"] ∧
    ((Spec.run envBA .parse witness none witnessIn witnessDest).2.sink.map (·.code)) = ["gt", "a_upper"] := by
  constructor <;> decide

end Zog.Props.C09
