import Zog.Props.C07

/-!
# C08 — schemas are safe to share between goroutines   (partial: see DESIGN.md §11)
What is proved here is schedule-independence in the ownership model: every interleaving of the
acquire / release steps of any number of concurrent calls is just another operation list, so the
ownership invariant of C07 covers it. Data-race freedom in the sense of the Go memory model is
not expressible in this model; the race-detector stream is supporting evidence.
-/

namespace Zog.Props.C08
open Zog Pool

/-- for EVERY interleaving of `start` / single-object `acq` / `collect` / whole `call` steps of any
    number of concurrent executions, no pooled object is owned twice -/
theorem every_interleaving_owned (ops : List Op) : Owned (run Gen.collectMapSkipsFirst ops) :=
  C07.ownership_invariant ops

theorem flatten_disjoint : ∀ (live : List (List Nat)) (i j : Nat) (a b : List Nat), live.flatten.Nodup →
    i < j → live[i]? = some a → live[j]? = some b → ∀ x, x ∈ a → x ∉ b
  | [], _, _, _, _, _, _, h, _ => by simp at h
  | l :: rest, 0, j + 1, a, b, hnd, _, ha, hb => by
    simp only [List.getElem?_cons_zero, Option.some.injEq] at ha
    simp only [List.getElem?_cons_succ] at hb
    subst ha
    intro x hxa hxb
    simp only [List.flatten_cons] at hnd
    have hdis := (List.nodup_append.mp hnd).2.2
    have : x ∈ rest.flatten := List.mem_flatten.mpr ⟨b, List.mem_of_getElem? hb, hxb⟩
    exact hdis x hxa x this rfl
  | l :: rest, i + 1, j + 1, a, b, hnd, hij, ha, hb => by
    simp only [List.getElem?_cons_succ] at ha hb
    simp only [List.flatten_cons] at hnd
    exact flatten_disjoint rest i j a b (List.nodup_append.mp hnd).2.1 (by omega) ha hb

/-- at every point of every interleaving, two different running calls hold disjoint sets of pooled
    objects: an object handed to one call is handed to no other until it is released -/
theorem concurrent_calls_hold_disjoint_objects (ops : List Op) (i j : Nat) (a b : List Nat) (hij : i < j)
    (ha : (run Gen.collectMapSkipsFirst ops).live[i]? = some a) (hb : (run Gen.collectMapSkipsFirst ops).live[j]? = some b) :
    ∀ x, x ∈ a → x ∉ b := by
  have h := (every_interleaving_owned ops).1
  exact flatten_disjoint _ i j a b (List.nodup_append.mp h).2.1 hij ha hb

/-- the sugar helpers read the messages before they hand the issues to the pool (regenerated go/ast fact) -/
theorem helpers_read_before_free : Gen.helpersReadBeforeFree = true := by decide

/-- …so, at every point of every interleaving, every object `Sanitize…AndCollect` reads is still owned by
    the caller when it is read: no concurrent call can have been handed it -/
theorem helpers_read_only_owned_objects (ops : List Op) (r : Nat) :
    ∀ p ∈ (sanitizeAndCollect Gen.collectMapSkipsFirst Gen.helpersReadBeforeFree (run Gen.collectMapSkipsFirst ops) r).2, p.2 = true := by
  rw [helpers_read_before_free]
  intro p hp
  have hown := (every_interleaving_owned ops).1
  generalize run Gen.collectMapSkipsFirst ops = s at hp hown
  simp only [sanitizeAndCollect, if_true, List.mem_map] at hp
  obtain ⟨id, hid, rfl⟩ := hp
  cases hl : s.live[r]? with
  | none => simp [hl] at hid
  | some ids =>
    simp only [hl, Option.getD_some] at hid
    have hflat : id ∈ s.live.flatten := List.mem_flatten.mpr ⟨ids, List.mem_of_getElem? hl, hid⟩
    have hdis := (List.nodup_append.mp hown).2.2
    have hnot : id ∉ s.pool := fun hin => hdis id hin id hflat rfl
    simp [hnot]

/-- the other order is wrong: a helper that frees first reads ONLY objects that are already in the pool -/
theorem free_then_read_reads_pooled_objects (skips : Bool) (s : State) (r : Nat) :
    ∀ p ∈ (sanitizeAndCollect skips false s r).2, p.2 = false := by
  intro p hp
  simp only [sanitizeAndCollect, Bool.false_eq_true, if_false, List.mem_map] at hp
  obtain ⟨id, hid, rfl⟩ := hp
  cases hl : s.live[r]? with
  | none => simp [hl] at hid
  | some ids =>
    simp only [hl, Option.getD_some] at hid
    simp only [step, hl]
    cases skips <;> simp [hid]

example : (sanitizeAndCollect true true { pool := [], live := [[0, 1]], next := 2 } 0).2 = [(0, true), (1, true)] ∧
    (sanitizeAndCollect true false { pool := [], live := [[0, 1]], next := 2 } 0).2 = [(0, false), (1, false)] := by decide

/-- executions never write the schema object or a package-level variable (regenerated go/ast fact):
    a shared schema is only read -/
theorem shared_schema_only_read : Gen.schemaWrites = [] := by decide

/-- the closures a schema is made of (tests, transforms, options, coercers, formatters: every function
    literal of the library that outlives the function building it) write no captured or package-level
    variable (regenerated go/ast fact): they keep no state between calls, so there is nothing for two
    concurrent calls of a shared schema to race on inside them -/
theorem closures_keep_no_state : Gen.closureWrites = [] := by decide

/-- what a call computes does not depend on the previous contents of the objects it was handed
    (every live field is re-initialised): together with exclusive ownership, a call running
    concurrently with others computes what it computes alone -/
theorem result_independent_of_recycled_contents :
    C07.coversAll "NewExecCtx" "ExecCtx" = true ∧ C07.coversAll "NewSchemaCtx" "SchemaCtx" = true ∧
    C07.coversAll "IssueFromTest" "ZogIssue" = true ∧ C07.coversAll "IssueFromCoerce" "ZogIssue" = true := by
  have h := C07.constructors_complete
  exact ⟨h.1, h.2.2.2.2.2.2.1, h.2.2.1, h.2.2.2.1⟩

end Zog.Props.C08
