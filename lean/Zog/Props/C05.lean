import Zog.Props.FactsOK
import Zog.Context
import Zog.Props.C07

/-!
# C05 — Catch replaces any failure of its own node, and only of its own node
Property theorems only (helpers live in `Zog.Laws`, `Zog.Context`, `Zog.Refine`).
-/

namespace Zog.Props.C05
open Zog Spec

/-- **Local law 1.** A node with `Catch(c)` never contributes an issue for a missing required
    value, a coercion failure or a failed test (both modes, any input, any destination). -/
theorem catch_no_issue (env : Env) (m : Mode) (p : Prim) (c : DVal) (hc : p.ctch = some c)
    (path : List String) (v : Val) (d : DVal) (st : St) :
    (primBody env m p path v d st).2.sink = st.sink := by
  unfold primBody
  simp only [hc, tested]
  cases Engine.primAbsent m v d
  · simp only [Bool.false_eq_true, ↓reduceIte]
    cases m <;> simp only
    · cases p.coerce v <;> simp [testCatch_sink]
    · simp [testCatch_sink]
  · simp only [↓reduceIte]
    cases p.dflt with
    | some x => simp [testCatch_sink]
    | none => cases p.required <;> rfl

/-- the value a catching node ends up with, case by case -/
theorem catch_dest (env : Env) (m : Mode) (p : Prim) (c : DVal) (hc : p.ctch = some c)
    (path : List String) (v : Val) (d : DVal) (st : St) :
    (primBody env m p path v d st).1 =
      if Engine.primAbsent m v d then
        match p.dflt with
        | some x => if p.tests.all (fun t => t.pred x) then x else c   -- default is tested like any value
        | none => if p.required.isSome then c else d                    -- required & missing ⇒ c ; optional ⇒ untouched
      else
        match m with
        | .validate => if p.tests.all (fun t => t.pred d) then d else c
        | .parse =>
          match p.coerce v with
          | none => c                                                    -- coercion failure ⇒ c
          | some x => if p.tests.all (fun t => t.pred x) then x else c   -- a failed test ⇒ c, else the parsed value
    := by
  unfold primBody
  simp only [hc, tested]
  cases Engine.primAbsent m v d
  · simp only [Bool.false_eq_true, ↓reduceIte]
    cases m <;> simp only
    · cases p.coerce v <;> simp [testCatch_dest]
    · simp [testCatch_dest]
  · simp only [↓reduceIte]
    cases p.dflt with
    | some x => simp [testCatch_dest]
    | none => cases p.required <;> rfl

/-- **Local law 2.** Whenever nothing fails, the destination is the parsed value, not `c`. -/
theorem catch_keeps_good_value (env : Env) (p : Prim) (c x : DVal) (hc : p.ctch = some c)
    (path : List String) (v : Val) (d : DVal) (st : St)
    (hpresent : Engine.primAbsent .parse v d = false) (hco : p.coerce v = some x)
    (hall : p.tests.all (fun t => t.pred x) = true) :
    (primBody env .parse p path v d st).1 = x := by
  rw [catch_dest env .parse p c hc]; simp [hpresent, hco, hall]

/-- **Confinement (reference semantics).** In every context — struct field, slice element, behind
    pointers, at any depth, next to any siblings — two nodes that behave alike are interchangeable:
    the rest of the schema reports its issues and keeps its values exactly as before. -/
theorem catch_confined_spec (env : Env) (m : Mode) (s₁ s₂ : Schema) (h : SpecEquiv env m s₁ s₂) (c : Ctx)
    (tag : Option String) (v : Val) (d : DVal) :
    Spec.run env m (c.fill s₁) tag v d = Spec.run env m (c.fill s₂) tag v d :=
  (fill_congr env m s₁ s₂ h c).2 tag [] v d {}

/-- **Confinement (mechanism model, current code facts).** The same for the engine with the flags on
    the shared child context, for every field visit order `env.ω`: whatever a catching node did to
    `CanCatch`/`Exit` is invisible to every other node. -/
theorem catch_confined (env : Env) (m : Mode) (s₁ s₂ : Schema) (h : SpecEquiv env m s₁ s₂) (c : Ctx)
    (tag : Option String) (v : Val) (d : DVal) :
    Engine.run env Gen.facts m (c.fill s₁) tag v d = Engine.run env Gen.facts m (c.fill s₂) tag v d := by
  rw [engine_is_spec, engine_is_spec]; exact catch_confined_spec env m s₁ s₂ h c tag v d

/-- a catching primitive whose PostTransforms are absent adds no issue at all, in the engine -/
theorem engine_catch_no_issue (env : Env) (m : Mode) (p : Prim) (c : DVal) (hc : p.ctch = some c)
    (hp : p.posts = []) (tag : Option String) (v : Val) (d : DVal) :
    (Engine.run env Gen.facts m (.prim p) tag v d).2.sink = [] := by
  rw [engine_is_spec]
  simp only [Spec.run, Spec.proc, Spec.prim, hp, runPosts_nil]
  exact catch_no_issue env m p c hc [] v d {}

/-! ### non-vacuity: the hypotheses are met by concrete schemas -/

def intGT5Catch99 : Prim :=
  { kind := .num .int, ctch := some (.int .int 99), coerce := fun v => match v with | .int _ n => some (.int .int n) | _ => none,
    tests := [{ id := 1, code := "gt", pred := fun d => match d with | .int _ n => decide (n > 5) | _ => false }] }

def env0 : Env := { fmt := fun _ _ _ => "m", ω := fun _ => [] }

def coerceSliceId : Val → Option (List Val) := fun v => match v with | .list xs => some xs | _ => none

/-- the real-code counterexample of defect D2 (`[1,10,20] ↦ [99 99 99]`) in the model: with the
    current facts the engine yields `[99 10 20]` -/
example : (Engine.run env0 Gen.facts .parse
    (.slice (.prim intGT5Catch99) { coerce := coerceSliceId, zeroElem := .int .int 0 }) none
    (.list [.int .int 1, .int .int 10, .int .int 20]) (.slice [])).1
    = .slice [.int .int 99, .int .int 10, .int .int 20] := by
  rfl

example : SpecEquiv env0 .parse (.prim intGT5Catch99) (.prim intGT5Catch99) := ⟨rfl, fun _ _ _ _ _ => rfl⟩

/-- catch state does not travel in recycled contexts: both constructors that take a node context from
    the pool assign every live field — `CanCatch` and `Exit` among them (regenerated go/ast fact) — so a
    catch that fired in an earlier node or an earlier call cannot reach a node through the pool -/
theorem recycled_context_has_no_catch_state :
    C07.coversAll "NewSchemaCtx" "SchemaCtx" = true ∧ C07.coversAll "NewValidateSchemaCtx" "SchemaCtx" = true := by
  decide

end Zog.Props.C05
