import Zog.Props.FactsOK
import Zog.Mono

/-!
# C12 — user callbacks run at the documented times with the node's own value
The event log records every callback invocation: kind, identity, node path, argument.
-/

namespace Zog.Props.C12
open Zog Spec

/-- tests of a non-catching node: every callback test runs exactly once, in declaration order,
    at the node's path, with the node's own value -/
theorem tests_run_once_in_order (env : Env) (dt ps : String) (tests : List Test) (x : DVal) (st : St) :
    (testAll env dt ps tests x st).log =
      st.log ++ (tests.filter (·.cb)).map (fun t => (⟨.test, t.id, ps, x⟩ : Event)) :=
  testAll_log env dt ps tests x st

/-- the events of a PostTransform loop: a prefix of the declared list -/
def postEvents (ps : String) : List Post → DVal → List Event
  | [], _ => []
  | p :: rest, x =>
    ⟨.post, p.id, ps, x⟩ ::
      (match p.run x with
       | (x', none) => postEvents ps rest x'
       | (_, some _) => [])

/-- PostTransforms run in declaration order, each at most once, each on the value the previous one
    left; the first error stops the rest -/
theorem posts_in_order_stop_at_first_error (env : Env) (dt ps : String) (posts : List Post) (x : DVal) (st : St) :
    (postLoop env dt ps posts x st).2.log = st.log ++ postEvents ps posts x := by
  induction posts generalizing x st with
  | nil => simp [postLoop, postEvents]
  | cons p rest ih =>
    unfold postLoop postEvents
    cases hr : p.run x with
    | mk x' e =>
      cases e with
      | none => simp only [ih]; simp
      | some e => simp [emit]

/-- …and the first error is reported as exactly one issue at the node's path (a returned ZogIssue
    is reported as is); without an error nothing is reported -/
theorem post_error_one_issue (env : Env) (dt ps : String) (posts : List Post) (x : DVal) (st : St) :
    ∃ extra, (postLoop env dt ps posts x st).2.sink = st.sink ++ extra ∧ extra.length ≤ 1 :=
  postLoop_sink_prefix env dt ps posts x st

theorem plain_error_issue_at_node_path (env : Env) (ps dt : String) :
    (issueOfPostErr env ps dt .plain).path = ps ∧ (issueOfPostErr env ps dt .plain).dtype = dt := ⟨rfl, rfl⟩

/-- PostTransforms run only if no issue exists at that moment -/
theorem posts_gated_on_no_issue (env : Env) (dt ps : String) (posts : List Post) (o : Spec.Out) (h : o.2.sink ≠ []) :
    runPosts env dt ps posts o = o := runPosts_of_nonempty env dt ps posts o h

theorem posts_run_when_clean (env : Env) (dt ps : String) (posts : List Post) (o : Spec.Out) (h : o.2.sink = []) :
    runPosts env dt ps posts o = postLoop env dt ps posts o.1 o.2 := by
  unfold runPosts; simp [h]

/-- a PostTransform error on a node that has Catch is still reported (the catch does not swallow it) -/
theorem post_error_not_caught (env : Env) (m : Mode) (p : Prim) (q : Post) (path : List String) (v : Val) (d : DVal)
    (hp : p.posts = [q]) (hclean : (primBody env m p path v d {}).2.sink = [])
    (herr : (q.run (primBody env m p path v d {}).1).2 = some .plain) :
    (prim env m p path v d {}).2.sink = [issueOfPostErr env (render path) p.kind.dtype .plain] := by
  unfold prim
  rw [posts_run_when_clean _ _ _ _ _ hclean, hp]
  unfold postLoop
  cases hr : q.run (primBody env m p path v d {}).1 with
  | mk x' e =>
    rw [hr] at herr
    simp only at herr
    subst herr
    simp [emit, hclean]

/-- a custom schema's function receives the node's own value, once -/
theorem custom_called_with_value (env : Env) (c : CustomSpec) (x : DVal) (path : List String) (v : Val) (d : DVal) (st : St)
    (h : c.accept v = some x) :
    (proc env .parse (.custom c) none path v d st).2.log = st.log ++ [⟨.custom, c.test.id, render path, x⟩] := by
  unfold proc; simp only [h]; split <;> simp [emit]

/-- a type mismatch at a custom schema yields one issue and no call -/
theorem custom_mismatch_no_call (env : Env) (c : CustomSpec) (path : List String) (v : Val) (d : DVal) (st : St)
    (h : c.accept v = none) :
    proc env .parse (.custom c) none path v d st = (d, emit st (coerceIssue env (render path) "custom")) := by
  unfold proc; simp [h]

/-- the mechanism model records exactly the reference log: same callbacks, same order, same
    arguments, for every schema, nesting, mode and visit order -/
theorem engine_log_is_spec_log (env : Env) (m : Mode) (s : Schema) (tag : Option String) (v : Val) (d : DVal) :
    (Engine.run env Gen.facts m s tag v d).2.log = (Spec.run env m s tag v d).2.log := by
  rw [engine_is_spec]

end Zog.Props.C12
