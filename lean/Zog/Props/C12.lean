import Zog.Props.FactsOK
import Zog.Mono
import Zog.EventPaths
import Zog.CtxVals
import Zog.Props.C16

/-!
# C12 — user callbacks run at the documented times with the node's own value
The event log records every callback invocation: kind, identity, node path, argument.
-/

namespace Zog.Props.C12
open Zog Spec

/-- tests of a non-catching node: every callback test runs exactly once, in declaration order,
    at the node's path, with the node's own value -/
theorem tests_run_once_in_order (env : Env) (dt ps : String) (tests : List Test) (x : DVal) (st : St) :
    (testAll env dt ps tests x st).log =
      st.log ++ (tests.filter (·.cb)).map (fun t => (⟨.test, t.id, ps, x⟩ : Event)) :=
  testAll_log env dt ps tests x st

/-- the events of a PostTransform loop: a prefix of the declared list -/
def postEvents (ps : String) : List Post → DVal → List Event
  | [], _ => []
  | p :: rest, x =>
    ⟨.post, p.id, ps, x⟩ ::
      (match p.run x with
       | (x', none) => postEvents ps rest x'
       | (_, some _) => [])

/-- PostTransforms run in declaration order, each at most once, each on the value the previous one
    left; the first error stops the rest -/
theorem posts_in_order_stop_at_first_error (env : Env) (dt ps : String) (posts : List Post) (x : DVal) (st : St) :
    (postLoop env dt ps posts x st).2.log = st.log ++ postEvents ps posts x := by
  induction posts generalizing x st with
  | nil => simp [postLoop, postEvents]
  | cons p rest ih =>
    unfold postLoop postEvents
    cases hr : p.run x with
    | mk x' e =>
      cases e with
      | none => simp only [ih]; simp
      | some e => simp [emit]

/-- …and the first error is reported as exactly one issue at the node's path (a returned ZogIssue
    is reported as is); without an error nothing is reported -/
theorem post_error_one_issue (env : Env) (dt ps : String) (posts : List Post) (x : DVal) (st : St) :
    ∃ extra, (postLoop env dt ps posts x st).2.sink = st.sink ++ extra ∧ extra.length ≤ 1 :=
  postLoop_sink_prefix env dt ps posts x st

theorem plain_error_issue_at_node_path (env : Env) (ps dt : String) :
    (issueOfPostErr env ps dt .plain).path = ps ∧ (issueOfPostErr env ps dt .plain).dtype = dt := ⟨rfl, rfl⟩

/-- PostTransforms run only if no issue exists at that moment -/
theorem posts_gated_on_no_issue (env : Env) (dt ps : String) (posts : List Post) (o : Spec.Out) (h : o.2.sink ≠ []) :
    runPosts env dt ps posts o = o := runPosts_of_nonempty env dt ps posts o h

theorem posts_run_when_clean (env : Env) (dt ps : String) (posts : List Post) (o : Spec.Out) (h : o.2.sink = []) :
    runPosts env dt ps posts o = postLoop env dt ps posts o.1 o.2 := by
  unfold runPosts; simp [h]

/-- a PostTransform error on a node that has Catch is still reported (the catch does not swallow it) -/
theorem post_error_not_caught (env : Env) (m : Mode) (p : Prim) (q : Post) (path : List String) (v : Val) (d : DVal)
    (hp : p.posts = [q]) (hclean : (primBody env m p path v d {}).2.sink = [])
    (herr : (q.run (primBody env m p path v d {}).1).2 = some .plain) :
    (prim env m p path v d {}).2.sink = [issueOfPostErr env (render path) p.kind.dtype .plain] := by
  unfold prim
  rw [posts_run_when_clean _ _ _ _ _ hclean, hp]
  unfold postLoop
  cases hr : q.run (primBody env m p path v d {}).1 with
  | mk x' e =>
    rw [hr] at herr
    simp only at herr
    subst herr
    simp [emit, hclean]

/-- a custom schema's function receives the node's own value, once -/
theorem custom_called_with_value (env : Env) (c : CustomSpec) (x : DVal) (path : List String) (v : Val) (d : DVal) (st : St)
    (h : c.accept v = some x) :
    (proc env .parse (.custom c) none path v d st).2.log = st.log ++ [⟨.custom, c.test.id, render path, x⟩] := by
  unfold proc; simp only [h]; split <;> simp [emit]

/-- a type mismatch at a custom schema yields one issue and no call -/
theorem custom_mismatch_no_call (env : Env) (c : CustomSpec) (path : List String) (v : Val) (d : DVal) (st : St)
    (h : c.accept v = none) :
    proc env .parse (.custom c) none path v d st = (d, emit st (coerceIssue env (render path) "custom")) := by
  unfold proc; simp [h]

/-! ## Preprocess -/

/-- Parse: a type mismatch at a Preprocess node becomes ONE coerce issue at the node's path; the
    function is not called and the wrapped schema is skipped (destination and log untouched) -/
theorem pre_mismatch_skips (env : Env) (ps : PreSpec) (inner : Schema) (tag : Option String) (path : List String)
    (v : Val) (d : DVal) (st : St) (h : ps.accept v = false) :
    proc env .parse (.pre ps inner) tag path v d st = (d, emit st (coerceIssue env (render path) inner.dtype)) := by
  unfold proc; simp [h]

/-- Parse: the function is called once, with the node's own input value; its error becomes ONE issue
    wrapping it at the node's path (a returned ZogIssue is reported as it is) and the wrapped schema
    is skipped -/
theorem pre_error_skips (env : Env) (ps : PreSpec) (inner : Schema) (tag : Option String) (path : List String)
    (v v' : Val) (e : PostErr) (d : DVal) (st : St) (h : ps.accept v = true) (hr : ps.run v = (v', some e)) :
    proc env .parse (.pre ps inner) tag path v d st =
      (d, emit { st with log := st.log ++ [⟨.pre, ps.id, render path, .custom v⟩] }
            (issueOfPostErr env (render path) inner.dtype e)) := by
  unfold proc; simp [h, hr]

/-- Parse: on success the wrapped schema processes the function's result at the same path, into the
    same destination, after exactly one logged call with the node's own value -/
theorem pre_ok_runs_inner (env : Env) (ps : PreSpec) (inner : Schema) (tag : Option String) (path : List String)
    (v v' : Val) (d : DVal) (st : St) (h : ps.accept v = true) (hr : ps.run v = (v', none)) :
    proc env .parse (.pre ps inner) tag path v d st =
      proc env .parse inner tag path v' d { st with log := st.log ++ [⟨.pre, ps.id, render path, .custom v⟩] } := by
  conv => lhs; unfold proc
  simp [h, hr]

/-- Validate: the function is called with the destination's own value; an error is one issue carrying
    the error text and skips the wrapped schema; otherwise its result is stored and then validated -/
theorem pre_validate (env : Env) (ps : PreSpec) (inner : Schema) (tag : Option String) (path : List String)
    (v : Val) (d : DVal) (st : St) :
    proc env .validate (.pre ps inner) tag path v d st =
      (match ps.runD d with
       | (_, some msg) => (d, emit { st with log := st.log ++ [⟨.pre, ps.id, render path, d⟩] }
                                (preErrIssue env (render path) inner.dtype msg))
       | (d', none) => proc env .validate inner tag path v d' { st with log := st.log ++ [⟨.pre, ps.id, render path, d⟩] }) := by
  conv => lhs; unfold proc
  rcases hr : ps.runD d with ⟨d', e⟩
  cases e <;> rfl

/-- the mechanism model records exactly the reference log: same callbacks, same order, same
    arguments, for every schema, nesting, mode and visit order -/
theorem engine_log_is_spec_log (env : Env) (m : Mode) (s : Schema) (tag : Option String) (v : Val) (d : DVal) :
    (Engine.run env Gen.facts m s tag v d).2.log = (Spec.run env m s tag v d).2.log := by
  rw [engine_is_spec]

/-- **Every callback sees the path of the node it is attached to — at every nesting depth.** For
    every schema, input, mode and visit order: each callback invocation recorded during the
    execution (test, PostTransform, custom schema function, Preprocess function) was handed a
    context whose path is the rendering of a chain of keys and slice positions from the root, i.e.
    the callback's own node (`Spec.proc_ev`: a node run at path `p` only invokes callbacks at or below
    `p`; the argument it hands over is its own value by construction of `testAll`/`postLoop`). -/
theorem callbacks_see_their_own_path (env : Env) (m : Mode) (s : Schema) (tag : Option String) (v : Val) (d : DVal) :
    ∀ e ∈ (Engine.run env Gen.facts m s tag v d).2.log, ∃ chain : List String, e.path = render chain := by
  rw [engine_is_spec]
  obtain ⟨extra, h1, h2⟩ := proc_ev env m s tag [] v d {}
  intro e he
  simp only [Spec.run] at he
  rw [h1] at he
  obtain ⟨suffix, hs⟩ := h2 e (by simpa using he)
  exact ⟨suffix, by simpa using hs⟩

/-! ## context values -/

/-- regenerated fact (go/ast, `NewExecCtx`): the constructor that takes an `ExecCtx` from the pool
    assigns EVERY field of the type — the value map among them, whatever it is called -/
theorem exec_ctx_resets_values :
    (let fields := ((Gen.typeFields.find? (fun p => p.1 == "ExecCtx")).map (·.2)).getD []
     let assigned := ((Gen.ctorAssigns.find? (fun p => p.1 == "NewExecCtx")).map (·.2)).getD []
     !fields.isEmpty && fields.all (fun f => assigned.contains f)) = true := by decide

/-- **`ctx.Get` returns exactly the values passed to THIS call through `WithCtxValue`**: the last value
    given for the key, nil for a key this call did not pass — whatever ANY sequence of earlier
    executions (with any context values of their own) left in the pooled context object. -/
theorem ctx_get_exactly_passed (dirt : CtxVals.M) (earlier : List (List (String × String)))
    (opts : List (String × String)) (k : String) :
    CtxVals.get (CtxVals.exec true (CtxVals.history true dirt earlier) opts) k = CtxVals.passed opts k :=
  CtxVals.get_after_history dirt earlier opts k

/-- a key this call did not pass reads nil -/
theorem ctx_get_absent_key (dirt : CtxVals.M) (earlier : List (List (String × String)))
    (opts : List (String × String)) (k : String) (h : ∀ kv ∈ opts, kv.1 ≠ k) :
    CtxVals.get (CtxVals.exec true (CtxVals.history true dirt earlier) opts) k = none := by
  rw [ctx_get_exactly_passed]
  unfold CtxVals.passed
  have : List.find? (fun kv => kv.1 == k) opts.reverse = none := by
    rw [List.find?_eq_none]
    intro x hx
    have := h x (List.mem_reverse.mp hx)
    simpa using this
  rw [this]; rfl

/-- the last of several values given for one key is the one the callbacks see -/
theorem ctx_last_value_wins (opts : List (String × String)) (k v : String) :
    CtxVals.passed (opts ++ [(k, v)]) k = some v := by
  simp [CtxVals.passed]

/-- a value given for another key changes nothing for this one -/
theorem ctx_other_key_untouched (opts : List (String × String)) (k k' v : String) (h : (k' == k) = false) :
    CtxVals.passed (opts ++ [(k', v)]) k = CtxVals.passed opts k := by
  simp [CtxVals.passed, h]

/-- the reset is what the claim rests on: without it a value of an earlier execution shows through -/
theorem ctx_without_reset_leaks :
    CtxVals.get (CtxVals.exec false (CtxVals.history false none [[("k", "old")]]) []) "k" = some "old" :=
  CtxVals.no_reset_leaks

end Zog.Props.C12
