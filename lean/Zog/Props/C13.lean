import Zog.Props.FactsOK
import Zog.Laws
import Zog.Coerce

/-!
# C13 — Parse and Validate agree on fully populated values
-/

namespace Zog.Props.C13
open Zog Spec

/-- a primitive node: if the input `v` is present and coerces to `x`, and `x` is not the Go zero
    value, then parsing `v` into any destination and validating `x` in place do the same thing —
    same issues (path, code, type, message), same resulting value, same callback log -/
theorem prim_modes_agree (env : Env) (p : Prim) (path : List String) (v : Val) (x d0 : DVal) (st : St)
    (hpres : isParseZero v = false) (hco : p.coerce v = some x) (hnz : isZeroD x = false) :
    primBody env .parse p path v d0 st = primBody env .validate p path .nil x st := by
  unfold primBody
  simp [Engine.primAbsent, hpres, hco, hnz]

theorem prim_modes_agree_with_posts (env : Env) (p : Prim) (path : List String) (v : Val) (x d0 : DVal) (st : St)
    (hpres : isParseZero v = false) (hco : p.coerce v = some x) (hnz : isZeroD x = false) :
    prim env .parse p path v d0 st = prim env .validate p path .nil x st := by
  unfold prim; rw [prim_modes_agree env p path v x d0 st hpres hco hnz]

/-- pointers: a non-nil pointer to a populated value, presented as that value -/
theorem ptr_modes_agree (env : Env) (elem : Schema) (zp : DVal) (nn : Option Test) (path : List String)
    (v : Val) (x : DVal) (st : St) (hpres : isParseZero v = false)
    (ih : proc env .parse elem none path v zp st = proc env .validate elem none path .nil x st) :
    proc env .parse (.ptr elem zp nn) none path v (.ptr none) st =
    proc env .validate (.ptr elem zp nn) none path .nil (.ptr (some x)) st := by
  unfold proc
  simp [Engine.ptrAbsent, hpres, DVal.isNilPtr, DVal.pointee, ih]

/-- the keys under which a struct's fields are looked up and reported are the same in both modes
    when the source has no tag of its own (a plain map): `zog` tag, else the schema key -/
theorem same_field_keys (fm : FieldMeta) (k : String) (kvs : List (String × Val)) :
    (Engine.Prov.map kvs).keyFor none fm k = Engine.keyFor none fm k := rfl

/-- custom schemas: given the value itself, both modes run the function on it -/
theorem custom_modes_agree (env : Env) (c : CustomSpec) (path : List String) (v : Val) (x d0 : DVal) (st : St)
    (h : c.accept v = some x) :
    proc env .parse (.custom c) none path v d0 st = proc env .validate (.custom c) none path .nil x st := by
  unfold proc; simp [h]

/-- the default coercers are the identity on values of their own destination type, which is what
    `hco` above needs for each primitive kind -/
theorem coerce_own_type :
    (∀ n : Int, coerceInt (.int .int n) = some n) ∧ (∀ b : Bool, coerceBool (.bool b) = some b) ∧
    (∀ (ext : Ext) (s : String), coerceString ext (.str s) = s) ∧
    (∀ (ext : Ext) (f : FVal), coerceF64 ext (.f64 f) = some f) ∧
    (∀ (ext : Ext) (l : String) (ns : Int) (u : Bool), coerceTime ext l (.time ns u) = some (ns, u)) :=
  ⟨fun _ => rfl, fun _ => rfl, fun _ _ => rfl, fun _ _ => rfl, fun _ _ _ _ => rfl⟩

theorem both_modes_refine (env : Env) (s : Schema) (tag : Option String) (v : Val) (d : DVal) :
    Engine.run env Gen.facts .parse s tag v d = Spec.run env .parse s tag v d ∧
    Engine.run env Gen.facts .validate s tag v d = Spec.run env .validate s tag v d :=
  ⟨engine_is_spec _ _ _ _ _ _, engine_is_spec _ _ _ _ _ _⟩

end Zog.Props.C13
