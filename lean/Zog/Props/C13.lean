import Zog.Props.FactsOK
import Zog.Laws
import Zog.Coerce
import Zog.Agree

/-!
# C13 — Parse and Validate agree on fully populated values
-/

namespace Zog.Props.C13
open Zog Spec

/-- a primitive node: if the input `v` is present and coerces to `x`, and `x` is not the Go zero
    value, then parsing `v` into any destination and validating `x` in place do the same thing —
    same issues (path, code, type, message), same resulting value, same callback log -/
theorem prim_modes_agree (env : Env) (p : Prim) (path : List String) (v : Val) (x d0 : DVal) (st : St)
    (hpres : isParseZero v = false) (hco : p.coerce v = some x) (hnz : isZeroD x = false) :
    primBody env .parse p path v d0 st = primBody env .validate p path .nil x st := by
  unfold primBody
  simp [Engine.primAbsent, hpres, hco, hnz]

theorem prim_modes_agree_with_posts (env : Env) (p : Prim) (path : List String) (v : Val) (x d0 : DVal) (st : St)
    (hpres : isParseZero v = false) (hco : p.coerce v = some x) (hnz : isZeroD x = false) :
    prim env .parse p path v d0 st = prim env .validate p path .nil x st := by
  unfold prim; rw [prim_modes_agree env p path v x d0 st hpres hco hnz]

/-- pointers: a non-nil pointer to a populated value, presented as that value -/
theorem ptr_modes_agree (env : Env) (elem : Schema) (zp : DVal) (nn : Option Test) (path : List String)
    (v : Val) (x : DVal) (st : St) (hpres : isParseZero v = false)
    (ih : proc env .parse elem none path v zp st = proc env .validate elem none path .nil x st) :
    proc env .parse (.ptr elem zp nn) none path v (.ptr none) st =
    proc env .validate (.ptr elem zp nn) none path .nil (.ptr (some x)) st := by
  unfold proc
  simp [Engine.ptrAbsent, hpres, DVal.isNilPtr, DVal.pointee, ih]

/-- the keys under which a struct's fields are looked up and reported are the same in both modes
    when the source has no tag of its own (a plain map): `zog` tag, else the schema key -/
theorem same_field_keys (fm : FieldMeta) (k : String) (kvs : List (String × Val)) :
    (Engine.Prov.map kvs).keyFor none fm k = Engine.keyFor none fm k := rfl

/-- custom schemas: given the value itself, both modes run the function on it -/
theorem custom_modes_agree (env : Env) (c : CustomSpec) (path : List String) (v : Val) (x d0 : DVal) (st : St)
    (h : c.accept v = some x) :
    proc env .parse (.custom c) none path v d0 st = proc env .validate (.custom c) none path .nil x st := by
  unfold proc; simp [h]

/-- the default coercers are the identity on values of their own destination type, which is what
    `hco` above needs for each primitive kind -/
theorem coerce_own_type :
    (∀ n : Int, coerceInt (.int .int n) = some n) ∧ (∀ b : Bool, coerceBool (.bool b) = some b) ∧
    (∀ (ext : Ext) (s : String), coerceString ext (.str s) = s) ∧
    (∀ (ext : Ext) (f : FVal), coerceF64 ext (.f64 f) = some f) ∧
    (∀ (ext : Ext) (l : String) (ns : Int) (u : Bool), coerceTime ext l (.time ns u) = some (ns, u)) :=
  ⟨fun _ => rfl, fun _ => rfl, fun _ _ => rfl, fun _ _ => rfl, fun _ _ _ _ => rfl⟩

theorem both_modes_refine (env : Env) (s : Schema) (tag : Option String) (v : Val) (d : DVal) :
    Engine.run env Gen.facts .parse s tag v d = Spec.run env .parse s tag v d ∧
    Engine.run env Gen.facts .validate s tag v d = Spec.run env .validate s tag v d :=
  ⟨engine_is_spec _ _ _ _ _ _, engine_is_spec _ _ _ _ _ _⟩

/-! ## the whole tree -/

/-- **C13 at every depth** (reference semantics).  If `v` is the map presentation of the fully
    populated value `d` (`Spec.Pres`: every leaf present, non-zero and coerced to itself, every slice
    non-empty with element-wise presentation, every pointer non-nil, every struct a non-empty map
    whose destination has exactly the schema's fields), then parsing `v` into the fresh destination
    `d0` and validating `d` in place return the same destination, the same issues in the same order
    and the same callback log — Default, Catch, tests, struct/slice tests and PostTransforms included. -/
theorem parse_validate_agree_spec (env : Env) (s : Schema) (hw : s.WF) (v v' : Val) (d d0 : DVal)
    (h : Pres s v d d0) :
    Spec.run env .parse s none v d0 = Spec.run env .validate s none v' d :=
  agree env s hw v v' d d0 [] {} h

/-- the same for the mechanism model under the regenerated facts -/
theorem parse_validate_agree (env : Env) (s : Schema) (hw : s.WF) (v v' : Val) (d d0 : DVal)
    (h : Pres s v d d0) :
    Engine.run env Gen.facts .parse s none v d0 = Engine.run env Gen.facts .validate s none v' d := by
  rw [engine_is_spec, engine_is_spec]
  exact parse_validate_agree_spec env s hw v v' d d0 h

/-- in particular the issue maps handed to the caller are equal -/
theorem parse_validate_same_issue_map (env : Env) (s : Schema) (hw : s.WF) (v v' : Val) (d d0 : DVal)
    (h : Pres s v d d0) :
    toIssueMap (Engine.run env Gen.facts .parse s none v d0).2.sink =
    toIssueMap (Engine.run env Gen.facts .validate s none v' d).2.sink := by
  rw [parse_validate_agree env s hw v v' d d0 h]

/-- leaves: an input of the node's own type, non-blank and non-zero, presents itself under the
    default coercers (`coerce_own_type`) -/
theorem pres_prim_own (p : Prim) (v : Val) (x d0 : DVal) (hp : isParseZero v = false) (hz : isZeroD x = false)
    (hc : p.coerce v = some x) : Pres (.prim p) v x d0 := by
  simp only [Pres]; exact ⟨hp, hz, hc⟩

/-! non-vacuity: a three-field struct (string leaf with a failing test and a PostTransform, slice of
    ints, pointer to bool) satisfies the hypotheses, and the two runs do report an issue -/
section witness
def strP : Prim := { kind := .str, coerce := fun v => match v with | .str s => some (.str s) | _ => none,
                     tests := [{ id := 1, code := "min", pred := fun _ => false }],
                     posts := [{ id := 2, run := fun x => (x, none) }] }
def intP : Prim := { kind := .num .int, coerce := fun v => match v with | .int _ n => some (.int .int n) | _ => none }
def boolP : Prim := { kind := .bool, coerce := fun v => match v with | .bool b => some (.bool b) | _ => none }
def sliceM : SliceMods := { coerce := fun v => match v with | .list xs => some xs | _ => none, zeroElem := .int .int 0 }
def wS : Schema := .struct
  (.cons "name" ⟨"Name", []⟩ (.prim strP)
    (.cons "tags" ⟨"Tags", []⟩ (.slice (.prim intP) sliceM)
      (.cons "on" ⟨"On", []⟩ (.ptr (.prim boolP) (.bool false) none) .nil))) [] []
def wV : Val := .obj [("name", .str "x"), ("tags", .list [.int .int 3, .int .int 4]), ("on", .bool true)]
def wD : DVal := .struct [("Name", .str "x"), ("Tags", .slice [.int .int 3, .int .int 4]), ("On", .ptr (some (.bool true)))]
def wD0 : DVal := .struct [("Name", .str ""), ("Tags", .slice []), ("On", .ptr none)]

example : Pres wS wV wD wD0 := by
  simp only [wS, Pres]
  refine ⟨_, _, _, rfl, by simp, rfl, rfl, by decide, by decide, by decide, ?_⟩
  simp only [PresFields, Pres, and_true]
  refine ⟨⟨by decide, by decide, rfl⟩, ⟨by decide, [.int .int 3, .int .int 4], [.int .int 3, .int .int 4], rfl, rfl, by simp, rfl, ?_⟩,
    ⟨by decide, .bool true, rfl, by decide, by decide, rfl⟩⟩
  intro p hp
  simp only [List.zip_cons_cons, List.zip_nil_right, List.mem_cons, List.not_mem_nil, or_false] at hp
  rcases hp with rfl | rfl <;> exact ⟨by decide, by decide, rfl⟩

example : wS.WF := by
  simp only [wS, Schema.WF, Fields.WF, Fields.keys, and_true, true_and]
  refine ⟨by decide, ?_⟩
  intro a b ka fma sa kb fmb sb ha hb hab
  simp only [Fields.find] at ha hb
  by_cases a1 : ("name" == a) = true <;> by_cases a2 : ("tags" == a) = true <;> by_cases a3 : ("on" == a) = true <;>
  by_cases b1 : ("name" == b) = true <;> by_cases b2 : ("tags" == b) = true <;> by_cases b3 : ("on" == b) = true <;>
  simp only [a1, a2, a3, b1, b2, b3, ↓reduceIte, Bool.false_eq_true, Option.some.injEq, Prod.mk.injEq, reduceCtorEq] at ha hb <;>
  (try (obtain ⟨_, rfl, _⟩ := ha; obtain ⟨_, rfl, _⟩ := hb)) <;>
  first
    | decide
    | (exfalso; apply hab; have e1 := beq_iff_eq.mp ‹_›; simp_all)

example : (Spec.run ⟨fun _ _ _ => "m", fun _ => []⟩ .validate wS none .nil wD).2.sink.length = 1 := by decide
end witness

end Zog.Props.C13
