import Zog.Http
import Zog.Zero
import Zog.Engine
import Zog.Gen.Facts

/-!
# C15 — zhttp picks the documented source and reports undecodable requests as one issue
-/

namespace Zog.Props.C15
open Zog Http

/-- the dispatch of the CURRENT source (regenerated switch tables) -/
def dispatchNow (method ct : List Char) : Source := dispatch Gen.httpMethods Gen.httpTypes method ct

/-- the regenerated tables are the documented ones: GET and HEAD read the query; otherwise
    `application/json` ↦ JSON body, `application/x-www-form-urlencoded` ↦ form, anything else ↦ query;
    the media type is cut at `;` -/
theorem tables_as_documented :
    Gen.httpMethods = [("GET".toList, .query), ("HEAD".toList, .query)] ∧
    Gen.httpTypes = [("application/json".toList, .json), ("application/x-www-form-urlencoded".toList, .form)] ∧
    Gen.httpDefault = .query ∧ Gen.httpCutSep = [';'] ∧ Gen.httpUniform = true := by decide

/-- GET and HEAD read the query string whatever the Content-Type says -/
theorem get_head_read_query (ct : List Char) :
    dispatchNow "GET".toList ct = .query ∧ dispatchNow "HEAD".toList ct = .query := by
  constructor <;> rfl

theorem takeWhile_all (mt : List Char) (h : ∀ c ∈ mt, c ≠ ';') : mt.takeWhile (· != ';') = mt := by
  induction mt with
  | nil => rfl
  | cons c cs ih =>
    have hc : c ≠ ';' := h c List.mem_cons_self
    simp [List.takeWhile_cons, hc, ih (fun x hx => h x (List.mem_cons_of_mem _ hx))]

theorem takeWhile_append_sep (mt p : List Char) (h : ∀ c ∈ mt, c ≠ ';') :
    (mt ++ ';' :: p).takeWhile (· != ';') = mt := by
  induction mt with
  | nil => simp
  | cons c cs ih =>
    have hc : c ≠ ';' := h c List.mem_cons_self
    simp only [List.cons_append, List.takeWhile_cons]
    simp [hc, ih (fun x hx => h x (List.mem_cons_of_mem _ hx))]

/-- **Parameters such as charset are ignored**: for every method, every `;`-free media type and
    every parameter string, the source is the one chosen for the bare media type -/
theorem params_ignored (method mt p : List Char) (h : ∀ c ∈ mt, c ≠ ';') :
    dispatchNow method (mt ++ ';' :: p) = dispatchNow method mt := by
  unfold dispatchNow dispatch mediaType
  rw [takeWhile_append_sep mt p h]
  rw [takeWhile_all mt h]

/-- every other method chooses by media type -/
theorem body_methods_by_media_type (method : List Char) (hm : lookupC Gen.httpMethods method = none) :
    dispatchNow method "application/json".toList = .json ∧
    dispatchNow method "application/x-www-form-urlencoded".toList = .form ∧
    dispatchNow method "text/plain".toList = .query ∧ dispatchNow method [] = .query ∧
    dispatchNow method "application/json; charset=utf-8".toList = .json := by
  unfold dispatchNow dispatch
  simp only [hm]
  refine ⟨by decide, by decide, by decide, by decide, by decide⟩

example : lookupC Gen.httpMethods "POST".toList = none ∧ lookupC Gen.httpMethods "DELETE".toList = none ∧
    lookupC Gen.httpMethods "PUT".toList = none ∧ lookupC Gen.httpMethods "PATCH".toList = none := by decide

/-! ## list / scalar / absent rule of `url.Values` -/

theorem repeated_is_list (data : List (String × List String)) (key : String) (vs : List String)
    (hk : (key.length > 2 && key.endsWith "[]") = false) (h : lookupD data key = some vs) (h2 : vs.length > 1) :
    urlGet data key = .list (vs.map Val.str) := by
  simp [urlGet, hk, h, h2]

theorem single_is_string (data : List (String × List String)) (key v : String)
    (hk : (key.length > 2 && key.endsWith "[]") = false) (h : lookupD data key = some [v]) :
    urlGet data key = .str v := by
  simp [urlGet, hk, h]

theorem bracket_suffix_is_list (data : List (String × List String)) (key : String) (vs : List String)
    (hk : (key.length > 2 && key.endsWith "[]") = true) (h : lookupD data key = some vs) :
    urlGet data key = .list (vs.map Val.str) := by
  simp [urlGet, hk, h]

/-- a missing parameter is absent — also when it is named with a `[]` suffix -/
theorem missing_is_absent (data : List (String × List String)) (key : String) (h : lookupD data key = none) :
    isParseZero (urlGet data key) = true := by
  unfold urlGet
  split <;> simp [h, isParseZero, isBlank]

/-! ## undecodable bodies and `{}` -/

/-- what `struct.process` does with the result of the data-provider factory -/
def afterDecode (env : Env) (decoded : Except String Val) (run : Val → DVal × St) (d : DVal) : DVal × St :=
  match decoded with
  | .error code => (d, { sink := [{ code := code, path := "", dtype := "struct", params := [], message := env.fmt code "struct" [] }], log := [] })
  | .ok v => run v

/-- an undecodable body yields exactly one top-level issue with the decoder's code; the schema does
    not run (empty callback log) and the destination is untouched -/
theorem decode_failure_contract (env : Env) (code : String) (run : Val → DVal × St) (d : DVal) :
    let r := afterDecode env (.error code) run d
    r.1 = d ∧ r.2.log = [] ∧ r.2.sink.length = 1 ∧ (r.2.sink.map (·.code)) = [code] ∧ (r.2.sink.map (·.path)) = [""] := by
  simp [afterDecode]

/-- an empty object decodes to a record in which every field is absent -/
theorem empty_object_all_absent (k : String) :
    Engine.provOf (.obj []) = some .empty ∧ isParseZero (Engine.Prov.empty.get k) = true := by
  simp [Engine.provOf, Engine.Prov.get, isParseZero]

end Zog.Props.C15
