import Zog.Props.FactsOK
import Zog.Laws
import Zog.Coerce
import Zog.Views
import Zog.Props.C15

/-!
# C14 — all input front ends are equivalent views of the same record   (partial: D17)
The front ends differ in (a) which struct tag names a key, (b) how a missing key reads (nil for
maps and JSON, "" for form / query / env), (c) string-typed leaves. The node lemmas below show
these differences are invisible to a node; `whole_record_flat_vs_map` lifts them to a whole flat
record (every field, every visit order, the struct's own tests and PostTransforms included);
`atoi_inverts_itoa` is the general round trip of decimal renderings. Below depth 1 the real code
re-derives the provider from the raw sub-value (known finding D17), which the model mirrors.
-/

namespace Zog.Props.C14
open Zog Spec

/-- (b) a primitive node cannot tell HOW a value is absent: nil (map / JSON) and "" or blanks
    (form / query / env) behave identically -/
theorem absent_inputs_equivalent_prim (env : Env) (p : Prim) (path : List String) (v₁ v₂ : Val) (d : DVal) (st : St)
    (h1 : isParseZero v₁ = true) (h2 : isParseZero v₂ = true) :
    prim env .parse p path v₁ d st = prim env .parse p path v₂ d st := by
  unfold prim primBody
  simp [Engine.primAbsent, h1, h2]

theorem absent_inputs_equivalent_slice (env : Env) (elem : Schema) (sm : SliceMods) (path : List String)
    (v₁ v₂ : Val) (d : DVal) (st : St) (h1 : isParseZero v₁ = true) (h2 : isParseZero v₂ = true) :
    proc env .parse (.slice elem sm) none path v₁ d st = proc env .parse (.slice elem sm) none path v₂ d st := by
  unfold proc
  simp [h1, h2]

theorem absent_inputs_equivalent_ptr (env : Env) (elem : Schema) (zp : DVal) (nn : Option Test) (tag : Option String)
    (path : List String) (v₁ v₂ : Val) (d : DVal) (st : St) (h1 : isParseZero v₁ = true) (h2 : isParseZero v₂ = true) :
    proc env .parse (.ptr elem zp nn) tag path v₁ d st = proc env .parse (.ptr elem zp nn) tag path v₂ d st := by
  unfold proc
  simp [Engine.ptrAbsent, h1, h2]

/-- the flat sources and the map source agree on every key they both have; on a missing key one
    reads "" and the other nil — both absent -/
theorem flat_vs_map_lookup (kvs : List (String × Val)) (k : String) :
    (∀ v, lookupD kvs k = some v → (Engine.Prov.flat kvs).get k = (Engine.Prov.map kvs).get k) ∧
    (lookupD kvs k = none → isParseZero ((Engine.Prov.flat kvs).get k) = true ∧ isParseZero ((Engine.Prov.map kvs).get k) = true) := by
  constructor
  · intro v h; simp [Engine.Prov.get, h]
  · intro h
    simp only [Engine.Prov.get, h, Option.getD_none]
    constructor
    · split <;> simp [isParseZero, isBlank]
    · rfl

/-- (a) each source names a field by the name in ITS tag (what precedes the first comma), falling back
    to the `zog` tag and then the schema key -/
theorem key_per_source (src : String) (fm : FieldMeta) (key : String) :
    Engine.keyFor (some src) fm key =
      match lookupD fm.tags src with
      | some k => if Engine.tagName k != "" then Engine.tagName k else (lookupD fm.tags "zog").getD key
      | none => (lookupD fm.tags "zog").getD key := by
  unfold Engine.keyFor
  cases h : lookupD fm.tags src <;> simp [h]

/-- (c) string-typed leaves: the rendering of a bool parses back to it -/
theorem bool_rendering (b : Bool) : coerceBool (.str (if b then "true" else "false")) = coerceBool (.bool b) := by
  cases b <;> decide

/-- a string leaf is itself under every front end -/
theorem string_rendering (ext : Ext) (s : String) : coerceString ext (.str s) = s := rfl

/-- **decimal renderings parse back**: `strconv.Atoi (strconv.Itoa n) = n` for every 64-bit integer -/
theorem atoi_inverts_itoa (n : Int) (hlo : minInt64 ≤ n) (hhi : n ≤ maxInt64) : atoi (toString n) = some n :=
  atoi_toString n hlo hhi

/-- …and the three integer schema kinds therefore read a number's rendering as the number -/
theorem int_schemas_read_renderings (ext : Ext) (k : NKind) (hk : k = .int ∨ k = .i64 ∨ k = .i32) (n : Int)
    (hlo : minInt64 ≤ n) (hhi : n ≤ maxInt64) :
    coerceNum ext k (.str (toString n)) = coerceNum ext k (.int .int n) :=
  default_int_reads_rendering ext k hk n hlo hhi

/-- **The whole record, at depth 1.** One logical record presented by a flat source (form, query
    string, environment: string leaves, `""` for a missing key, a list only when repeated) and by a
    map source (Go map, decoded JSON: native leaves, nil for a missing key): for EVERY struct schema
    whose fields are named alike by both sources and read leaves their coercer reads alike
    (`FieldOK`), every source tag, visit order and destination, the two executions return the same
    destination, the same issues (paths, codes, messages) and the same callback log. -/
theorem whole_record_flat_vs_map (env : Env) (r : Record) (hr : r ≠ []) (tag : Option String)
    (fs : Fields) (tests : List Test) (posts : List Post)
    (hfs : ∀ k fm s, (k, fm, s) ∈ fs.toList → FieldOK r tag k fm s) (d : DVal) :
    Spec.run env .parse (.struct fs tests posts) tag (.flat (flatView r)) d =
    Spec.run env .parse (.struct fs tests posts) none (.obj (mapView r)) d :=
  flat_and_map_views_agree env r hr tag fs tests posts hfs [] d {}

/-- the same for the mechanism model under the regenerated code facts -/
theorem whole_record_flat_vs_map_engine (env : Env) (r : Record) (hr : r ≠ []) (tag : Option String)
    (fs : Fields) (tests : List Test) (posts : List Post)
    (hfs : ∀ k fm s, (k, fm, s) ∈ fs.toList → FieldOK r tag k fm s) (d : DVal) :
    Engine.run env Gen.facts .parse (.struct fs tests posts) tag (.flat (flatView r)) d =
    Engine.run env Gen.facts .parse (.struct fs tests posts) none (.obj (mapView r)) d := by
  rw [engine_is_spec, engine_is_spec]
  exact whole_record_flat_vs_map env r hr tag fs tests posts hfs d

/-- non-vacuity: a two-field schema (a string and an int with the default coercers, the int field
    renamed by a `form` tag that both sources… do not share — so the zog tag names it) and a record
    with one of the fields missing meet the hypotheses -/
example (ext : Ext) :
    let age : Prim := { kind := .num .int, coerce := coerceNum ext .int }
    let name : Prim := { kind := .str, coerce := fun v => some (.str (coerceString ext v)) }
    let fs := Fields.cons "name" { goName := "Name" } (.prim name)
              (Fields.cons "age" { goName := "Age", tags := [("zog", "years")] } (.prim age)
              (Fields.cons "nick" { goName := "Nick" } (.ptr (.prim name) (.str "") none) Fields.nil))
    let r : Record := [("name", .str "Ann"), ("years", .int 41)]
    ∀ k fm s, (k, fm, s) ∈ fs.toList → FieldOK r (some "form") k fm s := by
  intro age name fs r k fm s hm
  simp only [fs, Fields.toList, List.mem_cons, Prod.mk.injEq, List.not_mem_nil, or_false] at hm
  rcases hm with ⟨rfl, rfl, rfl⟩ | ⟨rfl, rfl, rfl⟩ | ⟨rfl, rfl, rfl⟩
  · refine ⟨by decide, by decide +kernel, ?_⟩
    simp [r, Engine.keyFor, lookupD, LeafOK]
  · refine ⟨by decide, by decide +kernel, ?_⟩
    have h := default_int_reads_rendering ext .int (.inl rfl) 41 (by decide) (by decide)
    simp only [r, Engine.keyFor, lookupD, LeafOK, age]
    exact ⟨by decide, by decide, h⟩
  · refine ⟨by decide, by decide +kernel, ?_⟩
    simp [r, Engine.keyFor, lookupD, absentBlind]

/-- decimal renderings parse back (instances) -/
theorem int_rendering_examples :
    atoi "0" = some 0 ∧ atoi "42" = some 42 ∧ atoi "-7" = some (-7) ∧
    atoi "9223372036854775807" = some 9223372036854775807 ∧ atoi "-9223372036854775808" = some (-9223372036854775808) := by
  decide

/-- **Known finding D17, in the model**: a nested struct schema fed from a flat source receives the
    string "" instead of a nested provider and reports a coerce issue — the documented nested zenv
    example does not parse. The model mirrors the code, so the full statement of C14 is false below
    depth 1 and the theorems above are stated at the nodes where it holds. -/
theorem nested_flat_source_fails : Engine.provOf ((Engine.Prov.flat []).get "db") = none := by
  decide

theorem engine_mirrors (env : Env) (s : Schema) (tag : Option String) (v : Val) (d : DVal) :
    Engine.run env Gen.facts .parse s tag v d = Spec.run env .parse s tag v d := engine_is_spec env .parse s tag v d

/-- which source a request is read from — and therefore WHICH struct tag names its keys (`query` for GET and
    HEAD and for unknown media types, `json` / `form` for the two body types) — is as documented
    (regenerated dispatch tables of zhttp.Request) -/
theorem request_source_as_documented :
    Gen.httpMethods = [("GET".toList, .query), ("HEAD".toList, .query)] ∧
    Gen.httpTypes = [("application/json".toList, .json), ("application/x-www-form-urlencoded".toList, .form)] ∧
    Gen.httpDefault = .query ∧ Gen.httpCutSep = [';'] ∧ Gen.httpUniform = true := C15.tables_as_documented

end Zog.Props.C14
