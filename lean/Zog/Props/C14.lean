import Zog.Props.FactsOK
import Zog.Laws
import Zog.Coerce

/-!
# C14 — all input front ends are equivalent views of the same record   (partial: D17)
The front ends differ in (a) which struct tag names a key, (b) how a missing key reads (nil for
maps and JSON, "" for form / query / env), (c) string-typed leaves. The lemmas below show these
differences are invisible to the engine at depth 1; below depth 1 the real code re-derives the
provider from the raw sub-value (known finding D17), which the model mirrors.
-/

namespace Zog.Props.C14
open Zog Spec

/-- (b) a primitive node cannot tell HOW a value is absent: nil (map / JSON) and "" or blanks
    (form / query / env) behave identically -/
theorem absent_inputs_equivalent_prim (env : Env) (p : Prim) (path : List String) (v₁ v₂ : Val) (d : DVal) (st : St)
    (h1 : isParseZero v₁ = true) (h2 : isParseZero v₂ = true) :
    prim env .parse p path v₁ d st = prim env .parse p path v₂ d st := by
  unfold prim primBody
  simp [Engine.primAbsent, h1, h2]

theorem absent_inputs_equivalent_slice (env : Env) (elem : Schema) (sm : SliceMods) (path : List String)
    (v₁ v₂ : Val) (d : DVal) (st : St) (h1 : isParseZero v₁ = true) (h2 : isParseZero v₂ = true) :
    proc env .parse (.slice elem sm) none path v₁ d st = proc env .parse (.slice elem sm) none path v₂ d st := by
  unfold proc
  simp [h1, h2]

theorem absent_inputs_equivalent_ptr (env : Env) (elem : Schema) (zp : DVal) (nn : Option Test) (tag : Option String)
    (path : List String) (v₁ v₂ : Val) (d : DVal) (st : St) (h1 : isParseZero v₁ = true) (h2 : isParseZero v₂ = true) :
    proc env .parse (.ptr elem zp nn) tag path v₁ d st = proc env .parse (.ptr elem zp nn) tag path v₂ d st := by
  unfold proc
  simp [Engine.ptrAbsent, h1, h2]

/-- the flat sources and the map source agree on every key they both have; on a missing key one
    reads "" and the other nil — both absent -/
theorem flat_vs_map_lookup (kvs : List (String × Val)) (k : String) :
    (∀ v, lookupD kvs k = some v → (Engine.Prov.flat kvs).get k = (Engine.Prov.map kvs).get k) ∧
    (lookupD kvs k = none → isParseZero ((Engine.Prov.flat kvs).get k) = true ∧ isParseZero ((Engine.Prov.map kvs).get k) = true) := by
  constructor
  · intro v h; simp [Engine.Prov.get, h]
  · intro h
    simp only [Engine.Prov.get, h, Option.getD_none]
    constructor
    · split <;> simp [isParseZero, isBlank]
    · rfl

/-- (a) each source names a field by ITS tag, falling back to the `zog` tag and then the schema key -/
theorem key_per_source (src : String) (fm : FieldMeta) (key : String) :
    Engine.keyFor (some src) fm key =
      match lookupD fm.tags src with
      | some k => k
      | none => (lookupD fm.tags "zog").getD key := by
  unfold Engine.keyFor
  cases h : lookupD fm.tags src <;> simp [h]

/-- (c) string-typed leaves: the rendering of a bool parses back to it -/
theorem bool_rendering (b : Bool) : coerceBool (.str (if b then "true" else "false")) = coerceBool (.bool b) := by
  cases b <;> decide

/-- a string leaf is itself under every front end -/
theorem string_rendering (ext : Ext) (s : String) : coerceString ext (.str s) = s := rfl

/-- decimal renderings parse back (instances; the general statement `atoi (toString n) = n` is
    validated by the S-front and S-coerce streams, not proved) -/
theorem int_rendering_examples :
    atoi "0" = some 0 ∧ atoi "42" = some 42 ∧ atoi "-7" = some (-7) ∧
    atoi "9223372036854775807" = some 9223372036854775807 ∧ atoi "-9223372036854775808" = some (-9223372036854775808) := by
  decide

/-- **Known finding D17, in the model**: a nested struct schema fed from a flat source receives the
    string "" instead of a nested provider and reports a coerce issue — the documented nested zenv
    example does not parse. The model mirrors the code, so the full statement of C14 is false below
    depth 1 and the theorems above are stated at the nodes where it holds. -/
theorem nested_flat_source_fails : Engine.provOf ((Engine.Prov.flat []).get "db") = none := by
  decide

theorem engine_mirrors (env : Env) (s : Schema) (tag : Option String) (v : Val) (d : DVal) :
    Engine.run env Gen.facts .parse s tag v d = Spec.run env .parse s tag v d := engine_is_spec env .parse s tag v d

end Zog.Props.C14
