import Zog.Props.FactsOK
import Zog.Laws
import Zog.Exact
import Zog.ExactAll

/-!
# C02 — every violation is reported exactly once, where it occurred, and nothing else
`Spec` is the executable definition of "exactly the violations"; the theorems below state what it
reports node by node, and `engine_is_spec` carries them to the mechanism model for all visit orders.
`no_issue_iff_no_violation` is the whole-tree statement: the declarative predicate `NoViol`
(written without mentioning issues — Zog/Exact.lean) holds iff no issue is recorded, so a violation
anywhere in the tree is reported and a clean tree reports nothing.
-/

namespace Zog.Props.C02
open Zog Spec

/-- all failing tests of a (non-catching) node are reported — not only the first — each exactly
    once, with that test's code, at the test's `IssuePath` or else the node's path, in order -/
theorem all_failing_tests_reported (env : Env) (dt ps : String) (tests : List Test) (x : DVal) (st : St) :
    (testAll env dt ps tests x st).sink = st.sink ++ (failing tests x).map (issueOfTest env ps dt) :=
  testAll_sink env dt ps tests x st

theorem issue_code_and_path (env : Env) (dt ps : String) (t : Test) :
    (issueOfTest env ps dt t).code = t.code ∧ (issueOfTest env ps dt t).path = t.issuePath.getD ps ∧
    (issueOfTest env ps dt t).dtype = dt ∧ (issueOfTest env ps dt t).params = t.params := ⟨rfl, rfl, rfl, rfl⟩

/-- a value that satisfies its node yields no issue -/
theorem satisfied_no_issue (env : Env) (dt ps : String) (tests : List Test) (x : DVal) (st : St)
    (h : tests.all (fun t => t.pred x) = true) : (testAll env dt ps tests x st).sink = st.sink := by
  rw [testAll_sink]
  have : failing tests x = [] := by
    unfold failing
    rw [List.filter_eq_nil_iff]
    intro t ht
    have := List.all_eq_true.mp h t ht
    simp [this]
  simp [this]

/-- a missing required value yields exactly one `required` issue (the Required test's code) and
    suppresses only that node's own tests: no test ran, the destination is untouched -/
theorem missing_required_one_issue (env : Env) (m : Mode) (p : Prim) (r : Test) (path : List String)
    (v : Val) (d : DVal) (st : St)
    (habs : Engine.primAbsent m v d = true) (hd : p.dflt = none) (hr : p.required = some r) (hc : p.ctch = none) :
    primBody env m p path v d st = (d, emit st (issueOfTest env (render path) p.kind.dtype r)) := by
  unfold primBody; simp [habs, hd, hr, hc]

/-- an un-coercible value yields exactly one `coerce` issue and the node's tests do not run -/
theorem uncoercible_one_issue (env : Env) (p : Prim) (path : List String) (v : Val) (d : DVal) (st : St)
    (hpres : Engine.primAbsent .parse v d = false) (hco : p.coerce v = none) (hc : p.ctch = none) :
    primBody env .parse p path v d st = (d, emit st (coerceIssue env (render path) p.kind.dtype)) := by
  unfold primBody; simp [hpres, hco, hc]

/-- a slice whose input cannot be made a slice reports one `coerce` issue and its elements and tests
    are not visited (no PostTransform case) -/
theorem slice_uncoercible (env : Env) (elem : Schema) (sm : SliceMods) (path : List String) (v : Val) (d : DVal) (st : St)
    (hpres : isParseZero v = false) (hco : sm.coerce v = none) (hp : sm.posts = []) :
    proc env .parse (.slice elem sm) none path v d st = (d, emit st (coerceIssue env (render path) "slice")) := by
  unfold proc; simp [hpres, hco, hp, runPosts_nil]

/-- a struct whose input is not a record reports one `coerce` issue; no field is visited -/
theorem struct_uncoercible (env : Env) (fs : Fields) (tests : List Test) (path : List String) (v : Val) (d : DVal) (st : St)
    (hco : Engine.provOf v = none) :
    proc env .parse (.struct fs tests []) none path v d st = (d, emit st (coerceIssue env (render path) "struct")) := by
  unfold proc; simp [hco, runPosts_nil]

/-- the result map is nil exactly when there is no violation -/
theorem nil_iff_no_issue (sink : List Issue) : toIssueMap sink = [] ↔ sink = [] := by
  constructor
  · intro h
    cases sink with
    | nil => rfl
    | cons i is =>
      exfalso
      have : ∀ (l : List Issue) (m : IssueMap), m ≠ [] → l.foldl IssueMap.add m ≠ [] := by
        intro l
        induction l with
        | nil => intro m hm; simpa using hm
        | cons j js ih =>
          intro m hm
          apply ih
          unfold IssueMap.add
          cases m with
          | nil => exact absurd rfl hm
          | cons a as => simp only [List.isEmpty_cons, Bool.false_eq_true, ↓reduceIte]; unfold IssueMap.append; split <;> simp
      apply this is (IssueMap.add [] i) _ h
      unfold IssueMap.add IssueMap.append
      simp only [IssueMap.append, List.isEmpty_nil, ↓reduceIte]
      split <;> simp
  · intro h; subst h; rfl

/-- **The result is nil iff there is no violation — at every depth.** For every PostTransform-free
    schema whose struct fields sit on distinct Go fields, every input, destination, mode and visit
    order: the execution records no issue iff nothing is wrong at any node (`NoViol`: present or
    allowed to be absent, coercible, every declared test holding, Catch swallowing only its own
    node's failures). Soundness and completeness of the reported issues in one statement. -/
theorem no_issue_iff_no_violation_spec (env : Env) (m : Mode) (s : Schema) (hp : s.postFree = true) (hw : s.WF)
    (tag : Option String) (v : Val) (d : DVal) :
    (Spec.run env m s tag v d).2.sink = [] ↔ NoViol env m s tag [] v d :=
  clean_iff env m s hp hw tag [] v d

/-- the same for the mechanism model under the regenerated code facts, and for the map the caller
    receives -/
theorem no_issue_iff_no_violation (env : Env) (m : Mode) (s : Schema) (hp : s.postFree = true) (hw : s.WF)
    (tag : Option String) (v : Val) (d : DVal) :
    toIssueMap (Engine.run env Gen.facts m s tag v d).2.sink = [] ↔ NoViol env m s tag [] v d := by
  rw [nil_iff_no_issue, engine_is_spec]
  exact clean_iff env m s hp hw tag [] v d

/-- **…and for EVERY well-formed schema, PostTransforms included:** no issue iff nothing is wrong at
    any node AND every PostTransform that runs succeeds (`NoViolU`; a node's tests are judged on the
    value it has when they run, its PostTransforms on what the tests left). -/
theorem no_issue_iff_no_violation_all (env : Env) (m : Mode) (s : Schema) (hw : s.WF)
    (tag : Option String) (v : Val) (d : DVal) :
    toIssueMap (Engine.run env Gen.facts m s tag v d).2.sink = [] ↔ NoViolU env m s tag [] v d := by
  rw [nil_iff_no_issue, engine_is_spec]
  exact cleanU_iff env m s hw tag [] v d

/-- a violation anywhere ⇒ at least one issue (contrapositive reading) -/
theorem violation_is_reported (env : Env) (m : Mode) (s : Schema) (hp : s.postFree = true) (hw : s.WF)
    (tag : Option String) (v : Val) (d : DVal) (h : ¬ NoViol env m s tag [] v d) :
    (Engine.run env Gen.facts m s tag v d).2.sink ≠ [] := by
  intro hs
  rw [engine_is_spec] at hs
  exact h ((clean_iff env m s hp hw tag [] v d).mp hs)

/-- what `NoViol` says at a primitive node, read back: absent ⇒ Default tested / not required;
    present ⇒ coercible and every test holds; or the node has a Catch -/
theorem no_violation_at_prim (m : Mode) (p : Prim) (v : Val) (d : DVal) (hc : p.ctch = none) (env : Env) (tag : Option String) (path : List String) :
    NoViol env m (.prim p) tag path v d ↔
      (if Engine.primAbsent m v d = true then
        (match p.dflt with
          | some x => p.tests.all (fun t => t.pred x) = true
          | none => p.required = none)
       else
        (match m with
          | .validate => p.tests.all (fun t => t.pred d) = true
          | .parse => ∃ x, p.coerce v = some x ∧ p.tests.all (fun t => t.pred x) = true)) := by
  cases hab : Engine.primAbsent m v d <;> cases hd : p.dflt <;> cases m <;> simp [NoViol, PrimOK, hc, hab, hd]

/-- non-vacuity, both ways: a two-test string node on a passing and on a failing input -/
example :
    let t1 : Test := { id := 1, code := "min", pred := fun d => match d with | .str s => decide (s.length ≥ 2) | _ => false }
    let p : Prim := { kind := .str, tests := [t1], coerce := fun v => match v with | .str s => some (.str s) | _ => none }
    let env : Env := { fmt := fun _ _ _ => "m", ω := fun _ => [] }
    NoViol env .parse (.prim p) none [] (.str "ab") (.str "") ∧ ¬ NoViol env .parse (.prim p) none [] (.str "a") (.str "") := by
  intro t1 p env
  constructor
  · simp [NoViol, PrimOK, Engine.primAbsent, isParseZero, isBlank, p, t1]
    decide
  · simp [NoViol, PrimOK, Engine.primAbsent, isParseZero, isBlank, p, t1]
    decide

/-- the mechanism model reports exactly what the reference semantics reports, for every schema,
    input, destination, mode and field visit order -/
theorem engine_reports_spec_issues (env : Env) (m : Mode) (s : Schema) (tag : Option String) (v : Val) (d : DVal) :
    (Engine.run env Gen.facts m s tag v d).2.sink = (Spec.run env m s tag v d).2.sink := by
  rw [engine_is_spec]

end Zog.Props.C02
