import Zog.Props.FactsOK
import Zog.Laws

/-!
# C02 — every violation is reported exactly once, where it occurred, and nothing else
`Spec` is the executable definition of "exactly the violations"; the theorems below state what it
reports node by node, and `engine_is_spec` carries them to the mechanism model for all visit orders.
-/

namespace Zog.Props.C02
open Zog Spec

/-- all failing tests of a (non-catching) node are reported — not only the first — each exactly
    once, with that test's code, at the test's `IssuePath` or else the node's path, in order -/
theorem all_failing_tests_reported (env : Env) (dt ps : String) (tests : List Test) (x : DVal) (st : St) :
    (testAll env dt ps tests x st).sink = st.sink ++ (failing tests x).map (issueOfTest env ps dt) :=
  testAll_sink env dt ps tests x st

theorem issue_code_and_path (env : Env) (dt ps : String) (t : Test) :
    (issueOfTest env ps dt t).code = t.code ∧ (issueOfTest env ps dt t).path = t.issuePath.getD ps ∧
    (issueOfTest env ps dt t).dtype = dt ∧ (issueOfTest env ps dt t).params = t.params := ⟨rfl, rfl, rfl, rfl⟩

/-- a value that satisfies its node yields no issue -/
theorem satisfied_no_issue (env : Env) (dt ps : String) (tests : List Test) (x : DVal) (st : St)
    (h : tests.all (fun t => t.pred x) = true) : (testAll env dt ps tests x st).sink = st.sink := by
  rw [testAll_sink]
  have : failing tests x = [] := by
    unfold failing
    rw [List.filter_eq_nil_iff]
    intro t ht
    have := List.all_eq_true.mp h t ht
    simp [this]
  simp [this]

/-- a missing required value yields exactly one `required` issue (the Required test's code) and
    suppresses only that node's own tests: no test ran, the destination is untouched -/
theorem missing_required_one_issue (env : Env) (m : Mode) (p : Prim) (r : Test) (path : List String)
    (v : Val) (d : DVal) (st : St)
    (habs : Engine.primAbsent m v d = true) (hd : p.dflt = none) (hr : p.required = some r) (hc : p.ctch = none) :
    primBody env m p path v d st = (d, emit st (issueOfTest env (render path) p.kind.dtype r)) := by
  unfold primBody; simp [habs, hd, hr, hc]

/-- an un-coercible value yields exactly one `coerce` issue and the node's tests do not run -/
theorem uncoercible_one_issue (env : Env) (p : Prim) (path : List String) (v : Val) (d : DVal) (st : St)
    (hpres : Engine.primAbsent .parse v d = false) (hco : p.coerce v = none) (hc : p.ctch = none) :
    primBody env .parse p path v d st = (d, emit st (coerceIssue env (render path) p.kind.dtype)) := by
  unfold primBody; simp [hpres, hco, hc]

/-- a slice whose input cannot be made a slice reports one `coerce` issue and its elements and tests
    are not visited (no PostTransform case) -/
theorem slice_uncoercible (env : Env) (elem : Schema) (sm : SliceMods) (path : List String) (v : Val) (d : DVal) (st : St)
    (hpres : isParseZero v = false) (hco : sm.coerce v = none) (hp : sm.posts = []) :
    proc env .parse (.slice elem sm) none path v d st = (d, emit st (coerceIssue env (render path) "slice")) := by
  unfold proc; simp [hpres, hco, hp, runPosts_nil]

/-- a struct whose input is not a record reports one `coerce` issue; no field is visited -/
theorem struct_uncoercible (env : Env) (fs : Fields) (tests : List Test) (path : List String) (v : Val) (d : DVal) (st : St)
    (hco : Engine.provOf v = none) :
    proc env .parse (.struct fs tests []) none path v d st = (d, emit st (coerceIssue env (render path) "struct")) := by
  unfold proc; simp [hco, runPosts_nil]

/-- the result map is nil exactly when there is no violation -/
theorem nil_iff_no_issue (sink : List Issue) : toIssueMap sink = [] ↔ sink = [] := by
  constructor
  · intro h
    cases sink with
    | nil => rfl
    | cons i is =>
      exfalso
      have : ∀ (l : List Issue) (m : IssueMap), m ≠ [] → l.foldl IssueMap.add m ≠ [] := by
        intro l
        induction l with
        | nil => intro m hm; simpa using hm
        | cons j js ih =>
          intro m hm
          apply ih
          unfold IssueMap.add
          cases m with
          | nil => exact absurd rfl hm
          | cons a as => simp only [List.isEmpty_cons, Bool.false_eq_true, ↓reduceIte]; unfold IssueMap.append; split <;> simp
      apply this is (IssueMap.add [] i) _ h
      unfold IssueMap.add IssueMap.append
      simp only [IssueMap.append, List.isEmpty_nil, ↓reduceIte]
      split <;> simp
  · intro h; subst h; rfl

/-- the mechanism model reports exactly what the reference semantics reports, for every schema,
    input, destination, mode and field visit order -/
theorem engine_reports_spec_issues (env : Env) (m : Mode) (s : Schema) (tag : Option String) (v : Val) (d : DVal) :
    (Engine.run env Gen.facts m s tag v d).2.sink = (Spec.run env m s tag v d).2.sink := by
  rw [engine_is_spec]

end Zog.Props.C02
