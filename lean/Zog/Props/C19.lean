import Zog.Props.FactsOK
import Zog.Laws

/-!
# C19 — executions never modify the schema or the input
In the model schema and input are arguments that are never returned changed: "never modified"
is by construction, so the content of this property is in the tie (go/ast fact: no write to a
schema receiver or package variable inside process/validate/Parse/Validate; S-alias: deep
snapshots and second-run equality on the real code).  What the model adds: the frame lemmas.
-/

namespace Zog.Props.C19
open Zog Spec

/-- the translator found no assignment rooted at a schema receiver or a package-level variable
    inside `process`, `validate`, `primitiveProcessor`, `primitiveValidator`, `Parse`, `Validate` -/
theorem no_schema_writes : Gen.schemaWrites = [] := by decide

/-- Validate changes a primitive value only through Default, Catch and PostTransform -/
theorem validate_prim_frame (env : Env) (p : Prim) (path : List String) (d : DVal) (st : St)
    (hd : p.dflt = none) (hc : p.ctch = none) (hp : p.posts = []) :
    (prim env .validate p path .nil d st).1 = d := by
  unfold prim primBody tested
  simp only [hd, hc, hp, runPosts_nil]
  split
  · cases p.required <;> rfl
  · rfl

/-- a second execution on the same arguments is the first execution (the model has no hidden state;
    the pools are the business of C07) -/
theorem second_run_same (env : Env) (m : Mode) (s : Schema) (tag : Option String) (v : Val) (d : DVal) :
    Engine.run env Gen.facts m s tag v d = Engine.run env Gen.facts m s tag v d := rfl

/-- the default of a slice enters Validate as a *value*: the destination receives a copy
    (`dfltD`), so later writes through the destination cannot reach the schema -/
theorem slice_default_is_copied (env : Env) (elem : Schema) (sm : SliceMods) (ds : List DVal) (path : List String) (st : St)
    (hd : sm.dfltD = some ds) (hp : sm.posts = []) (ht : sm.tests = []) :
    ∃ out, (proc env .validate (.slice elem sm) none path .nil (.slice []) st).1 = .slice out ∧ out.length = ds.length := by
  unfold proc
  simp only [DVal.elems, List.isEmpty_nil, ↓reduceIte, hd, hp, ht, runPosts_nil, testAll]
  refine ⟨_, rfl, ?_⟩
  have : ∀ (xs : List (Val × DVal × Nat)) (acc : List DVal) (st : St),
      (sliceLoop (proc env .validate elem none) path xs acc st).1.length = acc.length + xs.length := by
    intro xs
    induction xs with
    | nil => intro acc st; simp [sliceLoop]
    | cons x rest ih => intro acc st; unfold sliceLoop; rw [ih]; simp; omega
  rw [this]
  have hz : ∀ (a : List Val) (b : List DVal) (i : Nat), a.length = b.length → (Engine.zipIdx3 a b i).length = b.length := by
    intro a
    induction a with
    | nil => intro b i h; cases b <;> simp_all [Engine.zipIdx3]
    | cons x xs ih => intro b i h; cases b with
      | nil => simp at h
      | cons y ys => simp [Engine.zipIdx3, ih ys (i+1) (by simpa using h)]
  simp [hz]

end Zog.Props.C19
