import Zog.Props.FactsOK
import Zog.Laws
import Zog.Alias

/-!
# C19 — executions never modify the schema or the input
In the value model (Engine / Spec) schema and input are arguments that are never returned changed:
"never modified" is by construction there, so the content of this property is (a) in the tie
(go/ast fact: no write to a schema receiver or package variable inside
process/validate/Parse/Validate; S-alias / S-front / engine `retype`, `nested`: deep snapshots and
second-run equality on the real code, one schema object across destination types and front ends),
and (b) in the ALIASING model `Zog/Alias.lean`: Go values with reference identity, in-place writes,
deep vs one-level copies. The theorems below say that the deep copy `SliceSchema.validate` makes of
its Default (fact `Gen.sliceDefaultDeep`, a behavioural probe of the working tree) puts the default
out of reach of every in-place write through the destination.
-/

namespace Zog.Props.C19
open Zog Spec

/-- the translator found no assignment rooted at a schema receiver or a package-level variable
    inside `process`, `validate`, `primitiveProcessor`, `primitiveValidator`, `Parse`, `Validate` -/
theorem no_schema_writes : Gen.schemaWrites = [] := by decide

/-- Validate changes a primitive value only through Default, Catch and PostTransform -/
theorem validate_prim_frame (env : Env) (p : Prim) (path : List String) (d : DVal) (st : St)
    (hd : p.dflt = none) (hc : p.ctch = none) (hp : p.posts = []) :
    (prim env .validate p path .nil d st).1 = d := by
  unfold prim primBody tested
  simp only [hd, hc, hp, runPosts_nil]
  split
  · cases p.required <;> rfl
  · rfl

/-- the working tree's `SliceSchema.validate` gives the validated value a deep copy of a nested
    Default (probe: nested default, in-place write through the validated value, second use) -/
theorem default_copy_is_deep : Gen.sliceDefaultDeep = true := by decide

/-- **The schema's default is out of reach of the destination.** The validated value is a deep copy
    (`Alias.deepCopy`) allocated above every address the default mentions: it has the default's
    value, all its arrays are fresh, and NO sequence of in-place writes to arrays of the copy — or to
    anything allocated later — changes what the default reads, at any depth. -/
theorem default_out_of_reach (dflt : Alias.HV) (next : Nat) (hd : ∀ a ∈ Alias.addrs dflt, a < next)
    (ws : List (Nat × Nat × Alias.HV)) (hw : ∀ w ∈ ws, next ≤ w.1) :
    Alias.writes ws dflt = dflt ∧
    (∀ b ∈ Alias.addrs (Alias.deepCopy next dflt).1, next ≤ b) ∧
    Alias.sameShape (Alias.deepCopy next dflt).1 dflt = true :=
  ⟨Alias.default_out_of_reach dflt next hd ws hw, (Alias.copy_is_fresh_and_equal dflt next).1, (Alias.copy_is_fresh_and_equal dflt next).2⟩

/-- a write only reaches values that mention its address (frame) -/
theorem write_frame (addr i : Nat) (x v : Alias.HV) (h : addr ∉ Alias.addrs v) : Alias.write addr i x v = v :=
  Alias.write_frame addr i x v h

/-- the one-level copy the code made before the D29 repair DOES share: the witness `[[1, 2]]`,
    `value[0][0] = 9` changes the default (and the deep copy does not) -/
theorem shallow_copy_shares_witness :
    (let dflt := Alias.HV.arr 0 [Alias.HV.arr 1 [.leaf 1, .leaf 2]]
     1 ∈ Alias.addrs (Alias.shallowCopy 2 dflt).1 ∧ Alias.leafAt (Alias.write 1 0 (.leaf 9) dflt) [0, 0] = some 9) ∧
    (let dflt := Alias.HV.arr 0 [Alias.HV.arr 1 [.leaf 1, .leaf 2]]
     Alias.addrs (Alias.deepCopy 2 dflt).1 = [2, 3] ∧ Alias.leafAt (Alias.write 3 0 (.leaf 9) dflt) [0, 0] = some 1) := by
  decide

/-- the default of a slice enters Validate as a *value*: the destination receives a copy
    (`dfltD`), so later writes through the destination cannot reach the schema -/
theorem slice_default_is_copied (env : Env) (elem : Schema) (sm : SliceMods) (ds : List DVal) (path : List String) (st : St)
    (hd : sm.dfltD = some ds) (hp : sm.posts = []) (ht : sm.tests = []) :
    ∃ out, (proc env .validate (.slice elem sm) none path .nil (.slice []) st).1 = .slice out ∧ out.length = ds.length := by
  unfold proc
  simp only [DVal.elems, List.isEmpty_nil, ↓reduceIte, hd, hp, ht, runPosts_nil, testAll]
  refine ⟨_, rfl, ?_⟩
  have : ∀ (xs : List (Val × DVal × Nat)) (acc : List DVal) (st : St),
      (sliceLoop (proc env .validate elem none) path xs acc st).1.length = acc.length + xs.length := by
    intro xs
    induction xs with
    | nil => intro acc st; simp [sliceLoop]
    | cons x rest ih => intro acc st; unfold sliceLoop; rw [ih]; simp; omega
  rw [this]
  have hz : ∀ (a : List Val) (b : List DVal) (i : Nat), a.length = b.length → (Engine.zipIdx3 a b i).length = b.length := by
    intro a
    induction a with
    | nil => intro b i h; cases b <;> simp_all [Engine.zipIdx3]
    | cons x xs ih => intro b i h; cases b with
      | nil => simp at h
      | cons y ys => simp [Engine.zipIdx3, ih ys (i+1) (by simpa using h)]
  simp [hz]

end Zog.Props.C19
