import Zog.Refine
import Zog.Gen.Facts
import Zog.Props.C07

/-!
# The regenerated code-shape facts satisfy `FactsOK`  (proof obligation of C01 C02 C04 C05 C09 C12 C13)
`Zog.Gen.facts` is rewritten by `extract` from /repo's working tree on every run; if a child loop
stops resetting `CanCatch`/`Exit`, this `decide` fails.
-/

namespace Zog.Props

theorem facts_ok : FactsOK Gen.facts := by decide

/-- the mechanism model under the current facts IS the reference semantics -/
theorem engine_is_spec (env : Env) (m : Mode) (s : Schema) (tag : Option String) (v : Val) (d : DVal) :
    Engine.run env Gen.facts m s tag v d = Spec.run env m s tag v d :=
  Engine.run_refines env Gen.facts facts_ok m s tag v d

/-! ## cross-cutting regenerated facts (obligations of every property whose clauses rely on them) -/

/-- every constructor that takes an object from a pool assigns every live field of it: nothing a previous
    call or node left in a recycled context, issue, issue collection or path builder can reach this one
    (catch flags, the current test, context values, messages, params, paths) -/
theorem recycled_objects_start_clean :
    C07.coversAll "NewExecCtx" "ExecCtx" = true ∧
    C07.coversAll "NewZogIssue" "ZogIssue" = true ∧ C07.coversAll "IssueFromTest" "ZogIssue" = true ∧
    C07.coversAll "IssueFromCoerce" "ZogIssue" = true ∧
    C07.coversAll "NewErrsList" "ErrsList" = true ∧ C07.coversAll "NewErrsMap" "ErrsMap" = true ∧
    C07.coversAll "NewSchemaCtx" "SchemaCtx" = true ∧ C07.coversAll "NewValidateSchemaCtx" "SchemaCtx" = true ∧
    (C07.assignedBy "NewPathBuilder").contains "reslice[:1]" = true := C07.constructors_complete

/-- the context that all children of a struct / slice node share carries only state the per-child loops
    manage (Data, ValPtr, DType, Exit, CanCatch re-initialised per child — `Gen.facts` —, Test set per test, the
    Path stack): no other field of SchemaCtx is assigned outside the two constructors, so nothing one child
    does (a caught failure, a Preprocess error) can reach the siblings visited after it through the context
    (regenerated go/ast fact) -/
theorem ctx_carries_only_managed_state : Gen.ctxStrayWrites = [] := by decide

/-- executions write no schema object and no package-level variable (assignments, inc/dec, in-place mutator
    calls in process / validate / Parse / Validate and everything of the schema files reachable from them) -/
theorem executions_write_no_schema : Gen.schemaWrites = [] := by decide

/-- the closures a schema is made of keep no state between calls -/
theorem closures_are_stateless : Gen.closureWrites = [] := by decide

end Zog.Props
