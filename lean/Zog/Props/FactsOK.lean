import Zog.Refine
import Zog.Gen.Facts

/-!
# The regenerated code-shape facts satisfy `FactsOK`  (proof obligation of C01 C02 C04 C05 C09 C12 C13)
`Zog.Gen.facts` is rewritten by `extract` from /repo's working tree on every run; if a child loop
stops resetting `CanCatch`/`Exit`, this `decide` fails.
-/

namespace Zog.Props

theorem facts_ok : FactsOK Gen.facts := by decide

/-- the mechanism model under the current facts IS the reference semantics -/
theorem engine_is_spec (env : Env) (m : Mode) (s : Schema) (tag : Option String) (v : Val) (d : DVal) :
    Engine.run env Gen.facts m s tag v d = Spec.run env m s tag v d :=
  Engine.run_refines env Gen.facts facts_ok m s tag v d

end Zog.Props
