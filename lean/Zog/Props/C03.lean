import Zog.Props.FactsOK
import Zog.Laws
import Zog.Coerce
import Zog.Placed

/-!
# C03 — on success the destination holds the documented coercion of the input
External functions (`time.Parse`, `strconv.ParseFloat`, `fmt %v`) are the parameters `ext`.
-/

namespace Zog.Props.C03
open Zog Spec

/-! ## the documented coercion table, stated outright -/

theorem bool_table :
    coerceBool (.str "on") = some true ∧ coerceBool (.str "off") = some false ∧
    coerceBool (.str "true") = some true ∧ coerceBool (.str "false") = some false ∧
    coerceBool (.str "1") = some true ∧ coerceBool (.str "0") = some false ∧
    coerceBool (.int .int 1) = some true ∧ coerceBool (.int .int 0) = some false ∧
    coerceBool (.bool true) = some true ∧ coerceBool (.int .int 2) = none ∧ coerceBool (.str "yes") = none := by
  decide

theorem int_from_string : coerceInt (.str "1") = some 1 ∧ coerceInt (.str "-12") = some (-12) ∧
    coerceInt (.str "+5") = some 5 ∧ coerceInt (.str "007") = some 7 ∧
    coerceInt (.str " 5") = none ∧ coerceInt (.str "1_0") = none ∧ coerceInt (.str "0x10") = none ∧
    coerceInt (.str "5.0") = none ∧ coerceInt (.str "") = none := by
  decide

/-- any value coerces to its `%v` rendering; a string to itself -/
theorem string_is_display (ext : Ext) (v : Val) :
    coerceString ext v = match v with | .str s => s | v => ext.display v := by
  cases v <;> rfl

/-- times: a `time.Time` is itself, a string goes through `time.Parse` with the schema's layout
    (RFC3339 by default, the one given with `Time.Format` otherwise), unix seconds become that instant -/
theorem time_table (ext : Ext) (layout s : String) (n ns : Int) (u : Bool) :
    coerceTime ext layout (.time ns u) = some (ns, u) ∧
    coerceTime ext layout (.str s) = ext.parseTime layout s ∧
    coerceTime ext layout (.int .int n) = some (n * 1000000000, false) ∧
    coerceTime ext layout (.int .i64 n) = some (n * 1000000000, false) := ⟨rfl, rfl, rfl, rfl⟩

/-- a scalar becomes a one-element slice, a slice stays itself -/
theorem slice_table (xs : List Val) (s : String) (n : Int) :
    coerceSlice (.list xs) = some xs ∧ coerceSlice (.str s) = some [.str s] ∧
    coerceSlice (.int .int n) = some [.int .int n] := ⟨rfl, rfl, rfl⟩

/-! ## slices keep length and element order -/

theorem sliceLoop_length (child : Child) (path : List String) :
    ∀ (xs : List (Val × DVal × Nat)) (acc : List DVal) (st : St),
      (sliceLoop child path xs acc st).1.length = acc.length + xs.length
  | [], acc, st => by simp [sliceLoop]
  | x :: rest, acc, st => by
    unfold sliceLoop
    rw [sliceLoop_length child path rest]
    simp; omega

theorem zipIdx3_length (d : DVal) : ∀ (xs : List Val) (i : Nat),
    (Engine.zipIdx3 xs (xs.map (fun _ => d)) i).length = xs.length
  | [], _ => rfl
  | x :: xs, i => by simp [Engine.zipIdx3, zipIdx3_length d xs (i + 1)]

/-- Parse of a coercible, present slice input: the destination slice has exactly the input's
    length (one destination element per input element, in order) -/
theorem slice_length_preserved (env : Env) (elem : Schema) (sm : SliceMods) (path : List String)
    (v : Val) (xs : List Val) (d : DVal) (st : St)
    (hpres : isParseZero v = false) (hco : sm.coerce v = some xs) (hp : sm.posts = []) :
    ∃ out, (proc env .parse (.slice elem sm) none path v d st).1 = .slice out ∧ out.length = xs.length := by
  unfold proc
  simp only [hpres, Bool.false_eq_true, ↓reduceIte, hco, hp, runPosts_nil]
  exact ⟨_, rfl, by rw [sliceLoop_length, zipIdx3_length]; simp⟩

/-! ## fields the schema does not name are never written -/

theorem setD_other (fs : List (String × DVal)) (k k' : String) (x : DVal) (h : (k == k') = false) :
    lookupD (setD fs k' x) k = lookupD fs k := by
  induction fs with
  | nil => rfl
  | cons p rest ih =>
    obtain ⟨pk, pv⟩ := p
    unfold setD
    by_cases h1 : (pk == k') = true
    · simp only [h1, ↓reduceIte, lookupD]
      have hk : (pk == k) = false := by
        have e1 : pk = k' := by simpa using h1
        have : k ≠ k' := by simpa using h
        simp [e1, Ne.symm this]
      simp [hk]
    · simp only [h1, Bool.false_eq_true, ↓reduceIte, lookupD, ih]

/-- writing destination field `k'` leaves every other Go field exactly as it was -/
theorem set_leaves_other_fields (d : DVal) (k k' : String) (x : DVal) (h : (k == k') = false) :
    (d.set k' x).get k = d.get k := by
  cases d <;> simp [DVal.set, DVal.get, setD_other _ _ _ _ h]

/-- an absent optional pointer input leaves the destination pointer nil; a present one allocates -/
theorem ptr_nil_stays_nil (env : Env) (elem : Schema) (zp : DVal) (path : List String) (st : St) :
    (proc env .parse (.ptr elem zp none) none path .nil (.ptr none) st).1 = .ptr none := by
  unfold proc; simp [Engine.ptrAbsent, isParseZero]

/-- options select the coercer: a primitive node uses exactly the coercer it carries -/
theorem coercer_selected (env : Env) (p : Prim) (path : List String) (v : Val) (x d : DVal) (st : St)
    (hpres : isParseZero v = false) (hco : p.coerce v = some x) (hc : p.ctch = none)
    (hall : p.tests.all (fun t => t.pred x) = true) (hp : p.posts = []) :
    (prim env .parse p path v d st).1 = x := by
  unfold prim primBody tested
  simp only [Engine.primAbsent, hpres, Bool.false_eq_true, ↓reduceIte, hco, hc, hp, runPosts_nil]

/-! ## the whole tree -/

/-- **C03 at every depth.**  For every PostTransform-free well-formed schema: when Parse reports no
    issue the destination is `Spec.Placed` — leaf = coercion of the input at the corresponding key or
    index (or the Default of an absent leaf, or the Catch value), slice length and order = the
    input's, absent optional nodes untouched, present pointers allocated, unnamed fields not written.
    (PostTransforms rewrite the destination by design, hence `postFree`.) -/
theorem clean_parse_is_placed (env : Env) (s : Schema) (hp : s.postFree = true) (hw : s.WF)
    (tag : Option String) (v : Val) (d : DVal)
    (h : (Engine.run env Gen.facts .parse s tag v d).2.sink = []) :
    Placed s tag v d (Engine.run env Gen.facts .parse s tag v d).1 := by
  rw [engine_is_spec] at h ⊢
  exact placed_of_clean env s hp hw tag [] v d h

/-! what `Placed` says, read back node kind by node kind -/

/-- a present leaf without Catch holds exactly the coercion of its input -/
theorem placed_leaf_present (p : Prim) (tag : Option String) (v : Val) (d out : DVal) (hc : p.ctch = none)
    (hv : isParseZero v = false) (h : Placed (.prim p) tag v d out) : p.coerce v = some out := by
  simp only [Placed, PrimPlaced, hc, hv, Bool.false_eq_true, false_and, false_or, true_and, reduceCtorEq] at h
  exact h

/-- an absent optional leaf without Default or Catch is left untouched -/
theorem placed_leaf_absent (p : Prim) (tag : Option String) (v : Val) (d out : DVal) (hc : p.ctch = none) (hd : p.dflt = none)
    (hv : isParseZero v = true) (h : Placed (.prim p) tag v d out) : out = d := by
  simp only [Placed, PrimPlaced, hc, hd, hv, Bool.true_eq_false, false_and, or_false, false_or, true_and, reduceCtorEq] at h
  exact h.2

/-- slices: the destination has the input's length, element i is placed from input element i -/
theorem placed_slice (elem : Schema) (sm : SliceMods) (tag : Option String) (v : Val) (d out : DVal) (xs : List Val)
    (hv : isParseZero v = false) (hco : sm.coerce v = some xs) (h : Placed (.slice elem sm) tag v d out) :
    ∃ outs, out = .slice outs ∧ outs.length = xs.length ∧ ∀ x ∈ xs.zip outs, Placed elem none x.1 sm.zeroElem x.2 := by
  simp only [Placed, sliceSrc, hv, Bool.false_eq_true, ↓reduceIte, hco] at h
  exact h

/-- pointers: absent input leaves the pointer as it was (nil stays nil); present input allocates -/
theorem placed_ptr_absent (elem : Schema) (zp : DVal) (nn : Option Test) (tag : Option String) (v : Val) (d out : DVal)
    (hv : isParseZero v = true) (h : Placed (.ptr elem zp nn) tag v d out) : out = d := by
  simp only [Placed, hv, ↓reduceIte] at h
  exact h.1

theorem placed_ptr_present (elem : Schema) (zp : DVal) (nn : Option Test) (tag : Option String) (v : Val) (d out : DVal)
    (hv : isParseZero v = false) (h : Placed (.ptr elem zp nn) tag v d out) :
    ∃ o, out = .ptr (some o) ∧ Placed elem tag v (d.pointee zp) o := by
  simp only [Placed, hv, Bool.false_eq_true, ↓reduceIte] at h
  exact h

/-- structs: fields the schema does not name are never written, and no field appears or disappears -/
theorem placed_struct_frame (fs : Fields) (tests : List Test) (posts : List Post) (tag : Option String) (v : Val) (d out : DVal)
    (h : Placed (.struct fs tests posts) tag v d out) :
    (∀ n, n ∉ fs.goNames → out.get n = d.get n) ∧ (∀ n, out.has n = d.has n) := by
  simp only [Placed] at h
  obtain ⟨_, _, h1, h2, _⟩ := h
  exact ⟨h1, h2⟩

/-! non-vacuity: a clean nested Parse exists (struct with a string leaf, a slice of ints, a pointer) -/
section witness
def strP : Prim := { kind := .str, coerce := fun v => match v with | .str s => some (.str s) | _ => none }
def intP : Prim := { kind := .num .int, coerce := fun v => match v with | .int _ n => some (.int .int n) | _ => none }
def sliceM : SliceMods := { coerce := fun v => match v with | .list xs => some xs | _ => none, zeroElem := .int .int 0 }
def wS : Schema := .struct
  (.cons "name" ⟨"Name", []⟩ (.prim strP)
    (.cons "tags" ⟨"Tags", []⟩ (.slice (.prim intP) sliceM)
      (.cons "on" ⟨"On", []⟩ (.ptr (.prim intP) (.int .int 0) none) .nil))) [] []
def wV : Val := .obj [("name", .str "x"), ("tags", .list [.int .int 3, .int .int 4])]
def wD0 : DVal := .struct [("Name", .str ""), ("Tags", .slice []), ("On", .ptr none), ("Extra", .int .int 7)]

example : (Spec.run ⟨fun _ _ _ => "m", fun _ => []⟩ .parse wS none wV wD0).2.sink = [] ∧
    (Spec.run ⟨fun _ _ _ => "m", fun _ => []⟩ .parse wS none wV wD0).1 =
      .struct [("Name", .str "x"), ("Tags", .slice [.int .int 3, .int .int 4]), ("On", .ptr none), ("Extra", .int .int 7)] :=
  ⟨by decide, by rfl⟩
example : wS.postFree = true := by decide
end witness

end Zog.Props.C03
