import Zog.Dyn
import Zog.Gen.Facts

/-!
# C06 — no input data can make Parse panic   (partial: see DESIGN.md §11)
Proved for the modelled glue over all inputs, key lengths, tags and dynamic-type descriptors.
Panics originating inside `reflect`, the standard library or user callbacks cannot be exhibited by
the model; they are covered only by the S-dyn stream (real code under `recover`).
-/

namespace Zog.Props.C06
open Zog Dyn

/-- the guards are all present in the current source (regenerated) -/
theorem dyn_facts_ok : FactsOK Gen.dynFacts := by decide

/-- valid configuration such as long field names never panics: any key length, any first letter -/
theorem long_keys_never_panic (firstIsLower : Bool) (keyLen : Nat) :
    (upperFirst Gen.dynFacts firstIsLower keyLen).isPanic = false := by
  have h := dyn_facts_ok.1
  simp [upperFirst, h, Outcome.isPanic]

theorem empty_object_never_panics (isNil : Bool) : (useProvider Gen.dynFacts isNil).isPanic = false := by
  have h := dyn_facts_ok.2.1
  simp [useProvider, h, Outcome.isPanic]

/-- structs with exported or unexported fields -/
theorem struct_input_never_panics (found exported : Bool) : (readStructField Gen.dynFacts found exported).isPanic = false := by
  have h := dyn_facts_ok.2.2.1
  simp [readStructField, h, Outcome.isPanic]

/-- any tag, including the empty one, at any position of the path -/
theorem any_segment_never_panics (segEmpty prevNonEmpty notFirst : Bool) :
    (renderSegment Gen.dynFacts segEmpty prevNonEmpty notFirst).isPanic = false := by
  have h := dyn_facts_ok.2.2.2.1
  simp [renderSegment, h, Outcome.isPanic]

/-- maps of named or unnamed types, with any key and element type -/
theorem any_map_never_panics (m : MapDesc) : (mapProvider Gen.dynFacts m).isPanic = false := by
  have h := dyn_facts_ok.2.2.2.2.1
  unfold mapProvider
  simp only [h, ↓reduceIte]
  split
  · rfl
  · split
    · rfl
    · split <;> rfl

/-- every dynamic kind — nil, typed nil, pointers of any depth, structs, maps, scalars, channels,
    functions, slices — becomes a record, or an issue, never a panic -/
theorem any_value_never_panics : ∀ k : Kind, (toProvider Gen.dynFacts k).isPanic = false
  | .nilValue => rfl
  | .nilPtr => rfl
  | .ptrTo k => by simpa [toProvider] using any_value_never_panics k
  | .struct_ => rfl
  | .map_ m => any_map_never_panics m
  | .scalar => rfl
  | .chan_ => rfl
  | .func_ => rfl
  | .slice_ => rfl

/-- whatever a Preprocess function returns — nil, a typed-nil pointer, pointers of any depth to
    anything — unwrapping it does not panic -/
theorem any_preprocess_result_never_panics : ∀ k : Kind, (unwrapPtr Gen.dynFacts k).isPanic = false
  | .nilPtr => by have h := dyn_facts_ok.2.2.2.2.2.1; simp [unwrapPtr, h, Outcome.isPanic]
  | .ptrTo k => by simpa [unwrapPtr] using any_preprocess_result_never_panics k
  | .nilValue => rfl
  | .struct_ => rfl
  | .map_ _ => rfl
  | .scalar => rfl
  | .chan_ => rfl
  | .func_ => rfl
  | .slice_ => rfl

/-- struct inputs with embedded pointers, nil or not -/
theorem promoted_field_never_panics (embeddedIsNil : Bool) : (readPromotedField Gen.dynFacts embeddedIsNil).isPanic = false := by
  have h := dyn_facts_ok.2.2.2.2.2.2.1
  simp [readPromotedField, h, Outcome.isPanic]

/-- requests with or without a body -/
theorem any_body_never_panics (bodyIsNil : Bool) : (decodeBody Gen.dynFacts bodyIsNil).isPanic = false := by
  have h := dyn_facts_ok.2.2.2.2.2.2.2
  cases bodyIsNil <;> simp [decodeBody, h, Outcome.isPanic]

/-- without the guards the model reproduces the defects D5–D9, D27, D33, D34 -/
def pinned : Dyn.Facts := ⟨false, false, false, false, false, false, false, false⟩
example : (unwrapPtr pinned (.ptrTo .nilPtr)).isPanic = true := by decide
example : (readPromotedField pinned true).isPanic = true := by decide
example : (decodeBody pinned true).isPanic = true := by decide
example : (upperFirst pinned true 40).isPanic = true := by decide
example : (useProvider pinned true).isPanic = true := by decide
example : (readStructField pinned true false).isPanic = true := by decide
example : (renderSegment pinned true true true).isPanic = true := by decide
example : (mapProvider pinned ⟨true, true, .iface, false⟩).isPanic = true := by decide

end Zog.Props.C06
