import Zog.Mono

/-!
# Every issue is addressed by the path of a node at or below the node that ran   — C10
`proc` at path `p` only adds issues whose `Path` is the rendering of `p` extended by a chain of
keys / slice positions (the node that filed it), or the `IssuePath` declared on one of the schema's
tests — at every depth, for every schema whose callbacks return ordinary errors.
-/

namespace Zog
namespace Spec
open Engine (Prov provOf orderOf zipIdx3)

/-- `b` extends `a` by issues that all satisfy `P` -/
def ExtendsP (P : Issue → Prop) (a b : St) : Prop := ∃ extra, b.sink = a.sink ++ extra ∧ ∀ i ∈ extra, P i

theorem ExtendsP.refl (P : Issue → Prop) (a : St) : ExtendsP P a a := ⟨[], by simp, by simp⟩

theorem ExtendsP.trans {P : Issue → Prop} {a b c : St} (h1 : ExtendsP P a b) (h2 : ExtendsP P b c) : ExtendsP P a c := by
  obtain ⟨e1, h1, p1⟩ := h1; obtain ⟨e2, h2, p2⟩ := h2
  refine ⟨e1 ++ e2, by rw [h2, h1, List.append_assoc], ?_⟩
  intro i hi
  rcases List.mem_append.mp hi with h | h
  · exact p1 i h
  · exact p2 i h

theorem ExtendsP.emit {P : Issue → Prop} (a : St) (i : Issue) (h : P i) : ExtendsP P a (emit a i) :=
  ⟨[i], rfl, by simpa using h⟩

theorem ExtendsP.mono {P Q : Issue → Prop} {a b : St} (h : ExtendsP P a b) (hpq : ∀ i, P i → Q i) : ExtendsP Q a b := by
  obtain ⟨e, h1, h2⟩ := h
  exact ⟨e, h1, fun i hi => hpq i (h2 i hi)⟩

theorem ExtendsP.logOnly {P : Issue → Prop} (a : St) (l : List Event) : ExtendsP P a { a with log := l } :=
  ⟨[], by simp, by simp⟩

/-- the issue is addressed to a node at or below `root`, or to a declared `IssuePath` -/
def AtOrBelow (root : List String) (ov : List String) (i : Issue) : Prop :=
  (∃ suffix : List String, i.path = render (root ++ suffix)) ∨ i.path ∈ ov

theorem AtOrBelow.here (root : List String) (ov : List String) (i : Issue) (h : i.path = render root) : AtOrBelow root ov i :=
  .inl ⟨[], by simpa using h⟩

theorem AtOrBelow.lift (root : List String) (k : String) (ov : List String) (i : Issue) (h : AtOrBelow (root ++ [k]) ov i) :
    AtOrBelow root ov i := by
  rcases h with ⟨suffix, h⟩ | h
  · exact .inl ⟨k :: suffix, by simpa [List.append_assoc] using h⟩
  · exact .inr h

def testOv (t : Test) : List String := t.issuePath.toList

mutual
/-- every `IssuePath` declared anywhere in the schema -/
def overrides : Schema → List String
  | .prim p => (p.required.toList ++ p.tests).flatMap testOv
  | .slice elem sm => (sm.required.toList ++ sm.tests).flatMap testOv ++ overrides elem
  | .ptr elem _ nn => nn.toList.flatMap testOv ++ overrides elem
  | .struct fs tests _ => tests.flatMap testOv ++ overridesF fs
  | .custom c => testOv c.test
  | .pre _ inner => overrides inner
def overridesF : Fields → List String
  | .nil => []
  | .cons _ _ s rest => overrides s ++ overridesF rest
end

/-- the PostTransforms return ordinary errors (not a ZogIssue of their own, whose path is theirs) -/
def postsPlain (posts : List Post) : Prop := ∀ p ∈ posts, ∀ x i, (p.run x).2 ≠ some (.issue i)

mutual
def PlainCallbacks : Schema → Prop
  | .prim p => postsPlain p.posts
  | .slice elem sm => postsPlain sm.posts ∧ PlainCallbacks elem
  | .ptr elem _ _ => PlainCallbacks elem
  | .struct fs _ posts => postsPlain posts ∧ PlainCallbacksF fs
  | .custom _ => True
  | .pre ps inner => (∀ v i, (ps.run v).2 ≠ some (.issue i)) ∧ PlainCallbacks inner
def PlainCallbacksF : Fields → Prop
  | .nil => True
  | .cons _ _ s rest => PlainCallbacks s ∧ PlainCallbacksF rest
end

theorem issueOfTest_at (env : Env) (path : List String) (dt : String) (t : Test) (ov : List String)
    (h : ∀ p ∈ testOv t, p ∈ ov) : AtOrBelow path ov (issueOfTest env (render path) dt t) := by
  unfold issueOfTest
  cases hp : t.issuePath with
  | none => exact AtOrBelow.here _ _ _ (by simp)
  | some p => exact .inr (h p (by simp [testOv, hp]))

theorem testAll_at (env : Env) (dt : String) (path : List String) (ov : List String) :
    ∀ (tests : List Test), (∀ t ∈ tests, ∀ p ∈ testOv t, p ∈ ov) → ∀ (x : DVal) (st : St),
      ExtendsP (AtOrBelow path ov) st (testAll env dt (render path) tests x st)
  | [], _, _, st => ExtendsP.refl _ _
  | t :: ts, h, x, st => by
    unfold testAll
    have ht := issueOfTest_at env path dt t ov (h t List.mem_cons_self)
    have ih := testAll_at env dt path ov ts (fun t' ht' => h t' (List.mem_cons_of_mem _ ht')) x
    by_cases hp : t.pred x = true
    · simp only [hp, ↓reduceIte]
      refine ExtendsP.trans ?_ (ih _)
      by_cases hc : t.cb = true <;> simp [logIf, hc] <;> first | exact ExtendsP.refl _ _ | exact ExtendsP.logOnly _ _
    · simp only [hp, Bool.false_eq_true, ↓reduceIte]
      refine ExtendsP.trans ?_ (ih _)
      refine ExtendsP.trans (b := logIf t.cb st ⟨.test, t.id, render path, x⟩) ?_ (ExtendsP.emit _ _ ht)
      by_cases hc : t.cb = true <;> simp [logIf, hc] <;> first | exact ExtendsP.refl _ _ | exact ExtendsP.logOnly _ _

end Spec
end Zog

namespace Zog
namespace Spec
open Engine (Prov provOf orderOf zipIdx3)

theorem tested_at (env : Env) (dt : String) (path : List String) (ov : List String) (ctch : Option DVal) (tests : List Test)
    (h : ∀ t ∈ tests, ∀ p ∈ testOv t, p ∈ ov) (x : DVal) (st : St) :
    ExtendsP (AtOrBelow path ov) st (tested env dt (render path) ctch tests x st).2 := by
  unfold tested
  cases ctch with
  | none => exact testAll_at env dt path ov tests h x st
  | some c => exact ⟨[], by simp [testCatch_sink], by simp⟩

theorem primBody_at (env : Env) (m : Mode) (p : Prim) (path : List String) (ov : List String)
    (h : ∀ q ∈ overrides (.prim p), q ∈ ov) (v : Val) (d : DVal) (st : St) :
    ExtendsP (AtOrBelow path ov) st (primBody env m p path v d st).2 := by
  have ht : ∀ t ∈ p.tests, ∀ q ∈ testOv t, q ∈ ov := by
    intro t ht q hq
    exact h q (by simp only [overrides, List.mem_flatMap, List.mem_append]; exact ⟨t, .inr ht, hq⟩)
  have hr : ∀ r, p.required = some r → ∀ q ∈ testOv r, q ∈ ov := by
    intro r hr q hq
    exact h q (by simp only [overrides, List.mem_flatMap, List.mem_append]; exact ⟨r, .inl (by simp [hr]), hq⟩)
  unfold primBody
  cases Engine.primAbsent m v d
  · simp only [Bool.false_eq_true, ↓reduceIte]
    cases m <;> simp only
    · cases p.coerce v with
      | none =>
        cases p.ctch with
        | some c => exact ExtendsP.refl _ _
        | none => exact ExtendsP.emit _ _ (AtOrBelow.here _ _ _ rfl)
      | some x => exact tested_at env _ path ov _ _ ht _ _
    · exact tested_at env _ path ov _ _ ht _ _
  · simp only [↓reduceIte]
    cases p.dflt with
    | some x => exact tested_at env _ path ov _ _ ht _ _
    | none =>
      cases hreq : p.required with
      | none => exact ExtendsP.refl _ _
      | some r =>
        cases p.ctch with
        | some c => exact ExtendsP.refl _ _
        | none => exact ExtendsP.emit _ _ (issueOfTest_at env path _ r ov (hr r hreq))

theorem postLoop_at (env : Env) (dt : String) (path : List String) (ov : List String) :
    ∀ (posts : List Post), postsPlain posts → ∀ (x : DVal) (st : St),
      ExtendsP (AtOrBelow path ov) st (postLoop env dt (render path) posts x st).2
  | [], _, _, st => ExtendsP.refl _ _
  | p :: rest, hp, x, st => by
    unfold postLoop
    rcases hr : p.run x with ⟨x', e⟩
    cases e with
    | none =>
      simp only
      exact ExtendsP.trans (ExtendsP.logOnly _ _) (postLoop_at env dt path ov rest (fun q hq => hp q (List.mem_cons_of_mem _ hq)) x' _)
    | some e =>
      simp only
      cases e with
      | plain => exact ExtendsP.trans (ExtendsP.logOnly _ _) (ExtendsP.emit _ _ (AtOrBelow.here _ _ _ rfl))
      | issue i =>
        exfalso
        exact hp p List.mem_cons_self x i (by rw [hr])

theorem runPosts_at (env : Env) (dt : String) (path : List String) (ov : List String) (posts : List Post)
    (hp : postsPlain posts) (o : Out) :
    ExtendsP (AtOrBelow path ov) o.2 (runPosts env dt (render path) posts o).2 := by
  unfold runPosts
  split
  · exact postLoop_at env dt path ov posts hp _ _
  · exact ExtendsP.refl _ _

theorem sliceLoop_at (child : Child) (path : List String) (ov : List String)
    (hc : ∀ p v d st, ExtendsP (AtOrBelow p ov) st (child p v d st).2) :
    ∀ (xs : List (Val × DVal × Nat)) (ds : List DVal) (st : St),
      ExtendsP (AtOrBelow path ov) st (sliceLoop child path xs ds st).2
  | [], _, st => ExtendsP.refl _ _
  | x :: rest, ds, st => by
    unfold sliceLoop
    exact ((hc _ _ _ _).mono (fun i hi => AtOrBelow.lift path _ ov i hi)).trans (sliceLoop_at child path ov hc rest _ _)

theorem fieldLoop_at (step : String → DVal → St → Out) (path : List String) (ov : List String)
    (hs : ∀ k d st, ExtendsP (AtOrBelow path ov) st (step k d st).2) :
    ∀ (ks : List String) (d : DVal) (st : St), ExtendsP (AtOrBelow path ov) st (fieldLoop step ks d st).2
  | [], _, st => ExtendsP.refl _ _
  | k :: ks, d, st => by
    unfold fieldLoop
    exact (hs _ _ _).trans (fieldLoop_at step path ov hs ks _ _)

end Spec
end Zog

namespace Zog
namespace Spec
open Engine (Prov provOf orderOf zipIdx3)

mutual
/-- **Every issue is addressed to a node at or below the node that ran (or to a declared IssuePath),
    at every depth.** -/
theorem proc_at (env : Env) (m : Mode) (ov : List String) :
    ∀ (s : Schema), PlainCallbacks s → (∀ q ∈ overrides s, q ∈ ov) →
      ∀ (tag : Option String) (path : List String) (v : Val) (d : DVal) (st : St),
        ExtendsP (AtOrBelow path ov) st (proc env m s tag path v d st).2
  | .prim p, hpl, hov, tag, path, v, d, st => by
    simp only [PlainCallbacks] at hpl
    simp only [proc, prim]
    exact (primBody_at env m p path ov hov v d st).trans (runPosts_at env _ path ov p.posts hpl _)
  | .slice elem sm, hpl, hov, tag, path, v, d, st => by
    simp only [PlainCallbacks] at hpl
    have hov_e : ∀ q ∈ overrides elem, q ∈ ov := fun q hq => hov q (by simp only [overrides, List.mem_append]; exact .inr hq)
    have ht : ∀ t ∈ sm.tests, ∀ q ∈ testOv t, q ∈ ov := by
      intro t ht q hq
      exact hov q (by simp only [overrides, List.mem_append, List.mem_flatMap]; exact .inl ⟨t, .inr ht, hq⟩)
    have hr : ∀ r, sm.required = some r → ∀ q ∈ testOv r, q ∈ ov := by
      intro r hr q hq
      exact hov q (by simp only [overrides, List.mem_append, List.mem_flatMap]; exact .inl ⟨r, .inl (by simp [hr]), hq⟩)
    unfold proc
    refine ExtendsP.trans ?_ (runPosts_at env "slice" path ov sm.posts hpl.1 _)
    have sl := fun xs ds st => sliceLoop_at (proc env m elem none) path ov
      (fun p v d st => proc_at env m ov elem hpl.2 hov_e none p v d st) xs ds st
    cases m <;> simp only
    · by_cases ha : isParseZero v = true
      · simp only [ha, ↓reduceIte]
        cases sm.dfltIn with
        | some xs => exact (sl _ _ _).trans (testAll_at env "slice" path ov sm.tests ht _ _)
        | none =>
          cases hreq : sm.required with
          | none => exact ExtendsP.refl _ _
          | some r => exact ExtendsP.emit _ _ (issueOfTest_at env path "slice" r ov (hr r hreq))
      · simp only [ha, ↓reduceIte, Bool.false_eq_true]
        cases sm.coerce v with
        | none => exact ExtendsP.emit _ _ (AtOrBelow.here _ _ _ rfl)
        | some xs => exact (sl _ _ _).trans (testAll_at env "slice" path ov sm.tests ht _ _)
    · by_cases hce : d.elems.isEmpty = true
      · simp only [hce, ↓reduceIte]
        cases sm.dfltD with
        | some ds => exact (sl _ _ _).trans (testAll_at env "slice" path ov sm.tests ht _ _)
        | none =>
          cases hreq : sm.required with
          | none => exact ExtendsP.refl _ _
          | some r => exact ExtendsP.emit _ _ (issueOfTest_at env path "slice" r ov (hr r hreq))
      · simp only [hce, ↓reduceIte, Bool.false_eq_true]
        exact (sl _ _ _).trans (testAll_at env "slice" path ov sm.tests ht _ _)
  | .ptr elem zp nn, hpl, hov, tag, path, v, d, st => by
    simp only [PlainCallbacks] at hpl
    unfold proc
    cases Engine.ptrAbsent m v d
    · simp only [Bool.false_eq_true, ↓reduceIte]
      exact proc_at env m ov elem hpl (fun q hq => hov q (by simp only [overrides, List.mem_append]; exact .inr hq)) tag path v _ st
    · simp only [↓reduceIte]
      cases hnn : nn with
      | none => exact ExtendsP.refl _ _
      | some t =>
        refine ExtendsP.emit _ _ (issueOfTest_at env path _ t ov ?_)
        intro q hq
        exact hov q (by simp only [overrides, List.mem_append, List.mem_flatMap]; exact .inl ⟨t, by simp [hnn], hq⟩)
  | .struct fs tests posts, hpl, hov, tag, path, v, d, st => by
    simp only [PlainCallbacks] at hpl
    have ht : ∀ t ∈ tests, ∀ q ∈ testOv t, q ∈ ov := by
      intro t ht q hq
      exact hov q (by simp only [overrides, List.mem_append, List.mem_flatMap]; exact .inl ⟨t, ht, hq⟩)
    have hov_f : ∀ q ∈ overridesF fs, q ∈ ov := fun q hq => hov q (by simp only [overrides, List.mem_append]; exact .inr hq)
    unfold proc
    refine ExtendsP.trans ?_ (runPosts_at env "struct" path ov posts hpl.1 _)
    have fl := fun prov ks d st => fieldLoop_at
      (fun k d st => procKey env m fs k tag prov path d st) path ov
      (fun k d st => procKey_at env m ov fs hpl.2 hov_f k tag prov path d st) ks d st
    cases m <;> simp only
    · cases Engine.provOf v with
      | none => exact ExtendsP.emit _ _ (AtOrBelow.here _ _ _ rfl)
      | some prov => exact (fl _ _ _ _).trans (testAll_at env "struct" path ov tests ht _ _)
    · exact (fl _ _ _ _).trans (testAll_at env "struct" path ov tests ht _ _)
  | .custom c, _, hov, tag, path, v, d, st => by
    have hc : ∀ q ∈ testOv c.test, q ∈ ov := fun q hq => hov q (by simpa [overrides] using hq)
    unfold proc
    cases m <;> simp only
    · cases c.accept v with
      | none => exact ExtendsP.emit _ _ (AtOrBelow.here _ _ _ rfl)
      | some x =>
        by_cases hp : c.test.pred x = true
        · simp only [hp, ↓reduceIte]; exact ExtendsP.logOnly _ _
        · simp only [hp, ↓reduceIte, Bool.false_eq_true]
          exact ExtendsP.trans (ExtendsP.logOnly _ _) (ExtendsP.emit _ _ (issueOfTest_at env path "custom" c.test ov hc))
    · by_cases hp : c.test.pred d = true
      · simp only [hp, ↓reduceIte]; exact ExtendsP.logOnly _ _
      · simp only [hp, ↓reduceIte, Bool.false_eq_true]
        exact ExtendsP.trans (ExtendsP.logOnly _ _) (ExtendsP.emit _ _ (issueOfTest_at env path "custom" c.test ov hc))
  | .pre ps inner, hpl, hov, tag, path, v, d, st => by
    simp only [PlainCallbacks] at hpl
    have hov_i : ∀ q ∈ overrides inner, q ∈ ov := fun q hq => hov q (by simpa [overrides] using hq)
    unfold proc
    cases m <;> simp only
    · cases ps.accept v
      · exact ExtendsP.emit _ _ (AtOrBelow.here _ _ _ rfl)
      · simp only [↓reduceIte]
        rcases hr : ps.run v with ⟨v', e⟩
        cases e with
        | none => exact ExtendsP.trans (ExtendsP.logOnly _ _) (proc_at env .parse ov inner hpl.2 hov_i tag path v' d _)
        | some e =>
          cases e with
          | plain => exact ExtendsP.trans (ExtendsP.logOnly _ _) (ExtendsP.emit _ _ (AtOrBelow.here _ _ _ rfl))
          | issue i => exact absurd (by rw [hr]) (hpl.1 v i)
    · rcases hr : ps.runD d with ⟨d', e⟩
      cases e with
      | none => exact ExtendsP.trans (ExtendsP.logOnly _ _) (proc_at env .validate ov inner hpl.2 hov_i tag path v d' _)
      | some e => exact ExtendsP.trans (ExtendsP.logOnly _ _) (ExtendsP.emit _ _ (AtOrBelow.here _ _ _ rfl))
theorem procKey_at (env : Env) (m : Mode) (ov : List String) :
    ∀ (fs : Fields), PlainCallbacksF fs → (∀ q ∈ overridesF fs, q ∈ ov) →
      ∀ (key : String) (tag : Option String) (prov : Prov) (path : List String) (d : DVal) (st : St),
        ExtendsP (AtOrBelow path ov) st (procKey env m fs key tag prov path d st).2
  | .nil, _, _, _, _, _, _, _, st => by unfold procKey; exact ExtendsP.refl _ _
  | .cons k fm s rest, hpl, hov, key, tag, prov, path, d, st => by
    simp only [PlainCallbacksF] at hpl
    unfold procKey
    split
    · exact (proc_at env m ov s hpl.1 (fun q hq => hov q (by simp only [overridesF, List.mem_append]; exact .inl hq)) none _ _ _ st).mono
        (fun i hi => AtOrBelow.lift path _ ov i hi)
    · exact procKey_at env m ov rest hpl.2 (fun q hq => hov q (by simp only [overridesF, List.mem_append]; exact .inr hq)) key tag prov path d st
end

/-- from the root: every issue's path is the rendering of a chain of keys and slice positions, or a
    declared IssuePath -/
theorem run_issue_paths (env : Env) (m : Mode) (s : Schema) (hpl : PlainCallbacks s) (tag : Option String) (v : Val) (d : DVal) :
    ∀ i ∈ (run env m s tag v d).2.sink, (∃ chain : List String, i.path = render chain) ∨ i.path ∈ overrides s := by
  obtain ⟨extra, h1, h2⟩ := proc_at env m (overrides s) s hpl (fun _ h => h) tag [] v d {}
  intro i hi
  simp only [run] at hi
  rw [h1] at hi
  have := h2 i (by simpa using hi)
  rcases this with ⟨suffix, h⟩ | h
  · exact .inl ⟨suffix, by simpa using h⟩
  · exact .inr h

end Spec
end Zog
