import Zog.Laws

/-!
# One-hole schema contexts and compositionality of `Spec`
`Spec.proc (C[s])` depends on `s` only through the function `Spec.proc s` (and its dtype): a parent
sees a child through nothing but the child's own output.  This is what "Catch has no effect
beyond its node" means once the flags are gone.
-/

namespace Zog

def Fields.append : Fields → Fields → Fields
  | .nil, gs => gs
  | .cons k fm s rest, gs => .cons k fm s (rest.append gs)

/-- a schema with one hole, at any depth below slices, pointers and struct fields -/
inductive Ctx where
  | hole
  | slice (c : Ctx) (sm : SliceMods)
  | ptr (c : Ctx) (zp : DVal) (notNil : Option Test)
  | pre (ps : PreSpec) (c : Ctx)
  | field (before : Fields) (key : String) (fm : FieldMeta) (c : Ctx) (after : Fields)
      (tests : List Test) (posts : List Post)

def Ctx.fill : Ctx → Schema → Schema
  | .hole, s => s
  | .slice c sm, s => .slice (c.fill s) sm
  | .ptr c zp nn, s => .ptr (c.fill s) zp nn
  | .pre ps c, s => .pre ps (c.fill s)
  | .field before k fm c after tests posts, s =>
    .struct (before.append (.cons k fm (c.fill s) after)) tests posts

/-- observational equivalence of two schemas in the reference semantics -/
def SpecEquiv (env : Env) (m : Mode) (s₁ s₂ : Schema) : Prop :=
  s₁.dtype = s₂.dtype ∧
  ∀ tag path v d st, Spec.proc env m s₁ tag path v d st = Spec.proc env m s₂ tag path v d st

namespace Spec

theorem fill_dtype (c : Ctx) (s₁ s₂ : Schema) (h : s₁.dtype = s₂.dtype) :
    (c.fill s₁).dtype = (c.fill s₂).dtype := by
  induction c with
  | hole => exact h
  | slice c sm ih => rfl
  | ptr c zp nn ih => simpa [Ctx.fill, Schema.dtype] using ih
  | pre ps c ih => simpa [Ctx.fill, Schema.dtype] using ih
  | field => rfl

theorem keys_append_cons (after : Fields) (k : String) (fm : FieldMeta) (s₁ s₂ : Schema) :
    ∀ before : Fields,
    (before.append (.cons k fm s₁ after)).keys = (before.append (.cons k fm s₂ after)).keys
  | .nil => rfl
  | .cons k' fm' s' rest => by
    simp [Fields.append, Fields.keys, keys_append_cons after k fm s₁ s₂ rest]

theorem procKey_congr (env : Env) (m : Mode) (after : Fields) (k : String) (fm : FieldMeta)
    (s₁ s₂ : Schema)
    (h : ∀ tag path v d st, proc env m s₁ tag path v d st = proc env m s₂ tag path v d st)
    (key : String) (tag : Option String) (prov : Engine.Prov) (path : List String) (d : DVal) (st : St) :
    ∀ before : Fields,
    procKey env m (before.append (.cons k fm s₁ after)) key tag prov path d st =
    procKey env m (before.append (.cons k fm s₂ after)) key tag prov path d st
  | .nil => by
    simp only [Fields.append]
    unfold procKey
    split
    · simp only [h]
    · rfl
  | .cons k' fm' s' rest => by
    simp only [Fields.append]
    unfold procKey
    split
    · rfl
    · exact procKey_congr env m after k fm s₁ s₂ h key tag prov path d st rest

/-- **Compositionality.** Equivalent nodes are interchangeable in every context. -/
theorem fill_congr (env : Env) (m : Mode) (s₁ s₂ : Schema) (h : SpecEquiv env m s₁ s₂) :
    ∀ c : Ctx, SpecEquiv env m (c.fill s₁) (c.fill s₂) := by
  intro c
  induction c with
  | hole => exact h
  | slice c sm ih =>
    refine ⟨rfl, ?_⟩
    intro tag path v d st
    have : proc env m (c.fill s₁) none = proc env m (c.fill s₂) none := by
      funext path v d st; exact ih.2 none path v d st
    simp only [Ctx.fill]
    unfold proc
    rw [this]
  | ptr c zp nn ih =>
    refine ⟨by simpa [Ctx.fill, Schema.dtype] using ih.1, ?_⟩
    intro tag path v d st
    simp only [Ctx.fill]
    unfold proc
    simp only [ih.2, ih.1]
  | pre ps c ih =>
    refine ⟨by simpa [Ctx.fill, Schema.dtype] using ih.1, ?_⟩
    intro tag path v d st
    simp only [Ctx.fill]
    unfold proc
    simp only [ih.2, ih.1]
  | field before k fm c after tests posts ih =>
    refine ⟨rfl, ?_⟩
    intro tag path v d st
    simp only [Ctx.fill]
    unfold proc
    have hk := keys_append_cons after k fm (c.fill s₁) (c.fill s₂) before
    have hp : ∀ key tag prov path d st,
        procKey env m (before.append (.cons k fm (c.fill s₁) after)) key tag prov path d st =
        procKey env m (before.append (.cons k fm (c.fill s₂) after)) key tag prov path d st :=
      fun key tag prov path d st => procKey_congr env m after k fm _ _ ih.2 key tag prov path d st before
    simp only [hk, hp]

end Spec
end Zog
