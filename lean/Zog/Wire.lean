import Zog.Sexp
import Zog.Schema
import Zog.Coerce
import Zog.Preds
import Zog.Engine

/-!
# Wire format ⇄ model values (driver side of the line protocol)
Not mentioned by any theorem; trusted as part of the correspondence check.
-/

namespace Zog
namespace Wire
open Sexp

/-! ## literals -/

def fval? : Sexp → Option FVal
  | .atom "nan" => some .nan
  | .atom "+inf" => some (.inf false)
  | .atom "-inf" => some (.inf true)
  | .atom "-0" => some .nzero
  | .list [m, e] => do pure (.fin (← m.int?) (← e.int?))
  | _ => none

def fvalS : FVal → Sexp
  | .nan => .atom "nan"
  | .inf false => .atom "+inf"
  | .inf true => .atom "-inf"
  | .nzero => .atom "-0"
  | .fin m e => .list [mkInt m, mkInt e]

def ikind? : Sexp → Option IKind
  | .atom "int" => some .int
  | .atom "i64" => some .i64
  | .atom "i32" => some .i32
  | .atom _ => some .other
  | _ => none

def nkind? : Sexp → Option NKind
  | .atom "int" => some .int
  | .atom "i32" => some .i32
  | .atom "i64" => some .i64
  | .atom "f32" => some .f32
  | .atom "f64" => some .f64
  | _ => none

def nkindS : NKind → Sexp
  | .int => .atom "int" | .i32 => .atom "i32" | .i64 => .atom "i64" | .f32 => .atom "f32" | .f64 => .atom "f64"

def bool? : Sexp → Option Bool
  | .atom "1" => some true
  | .atom "0" => some false
  | _ => none

partial def val? : Sexp → Option Val
  | .atom "nil" => some .nil
  | .list [.atom "s", h] => do pure (.str (← h.str?))
  | .list [.atom "i", k, n] => do pure (.int (← ikind? k) (← n.int?))
  | .list [.atom "b", b] => do pure (.bool (← bool? b))
  | .list [.atom "f64", f] => do pure (.f64 (← fval? f))
  | .list [.atom "f32", f] => do pure (.f32 (← fval? f))
  | .list [.atom "t", ns, u] => do pure (.time (← ns.int?) (← bool? u))
  | .list (.atom "l" :: xs) => do pure (.list (← xs.mapM val?))
  | .list (.atom "o" :: kvs) => do pure (.obj (← kvs.mapM kv?))
  | .list (.atom "fl" :: kvs) => do pure (.flat (← kvs.mapM kv?))
  | .list [.atom "x", d] => do pure (.other (← d.atom?))
  | _ => none
where
  kv? : Sexp → Option (String × Val)
    | .list [k, v] => do pure (← k.str?, ← val? v)
    | _ => none

partial def valS : Val → Sexp
  | .nil => .atom "nil"
  | .str s => node "s" [mkStr s]
  | .int k n => node "i" [.atom (match k with | .int => "int" | .i64 => "i64" | .i32 => "i32" | .other => "other"), mkInt n]
  | .bool b => node "b" [mkBool b]
  | .f64 f => node "f64" [fvalS f]
  | .f32 f => node "f32" [fvalS f]
  | .time ns u => node "t" [mkInt ns, mkBool u]
  | .list xs => node "l" (xs.map valS)
  | .obj kvs => node "o" (kvs.map fun (k, v) => .list [mkStr k, valS v])
  | .flat kvs => node "fl" (kvs.map fun (k, v) => .list [mkStr k, valS v])
  | .other d => node "x" [.atom d]

partial def dval? : Sexp → Option DVal
  | .list [.atom "s", h] => do pure (.str (← h.str?))
  | .list [.atom "i", k, n] => do pure (.int (← nkind? k) (← n.int?))
  | .list [.atom "f", k, f] => do pure (.flt (← nkind? k) (← fval? f))
  | .list [.atom "b", b] => do pure (.bool (← bool? b))
  | .list [.atom "t", ns, u] => do pure (.time (← ns.int?) (← bool? u))
  | .list (.atom "sl" :: xs) => do pure (.slice (← xs.mapM dval?))
  | .list (.atom "st" :: fs) => do pure (.struct (← fs.mapM fld?))
  | .list [.atom "p"] => some (.ptr none)
  | .list [.atom "p", x] => do pure (.ptr (some (← dval? x)))
  | .list [.atom "cu", v] => do pure (.custom (← val? v))
  | _ => none
where
  fld? : Sexp → Option (String × DVal)
    | .list [.atom k, v] => do pure (k, ← dval? v)
    | _ => none

/-- canonical form of an input value shown in a callback event: object keys sorted (the
    implementation side reads the value back from a Go map, which has no order) -/
partial def canonVal : Val → Val
  | .list xs => .list (xs.map canonVal)
  | .obj kvs =>
    let ins (kv : String × Val) : List (String × Val) → List (String × Val) := fun acc =>
      let rec go : List (String × Val) → List (String × Val)
        | [] => [kv]
        | x :: rest => if kv.1 < x.1 then kv :: x :: rest else x :: go rest
      go acc
    .obj ((kvs.map fun (k, v) => (k, canonVal v)).foldl (fun acc kv => ins kv acc) [])
  | v => v

partial def dvalS : DVal → Sexp
  | .str s => node "s" [mkStr s]
  | .int k n => node "i" [nkindS k, mkInt n]
  | .flt k f => node "f" [nkindS k, fvalS f]
  | .bool b => node "b" [mkBool b]
  | .time ns u => node "t" [mkInt ns, mkBool u]
  | .slice xs => node "sl" (xs.map dvalS)
  | .struct fs => node "st" (fs.map fun (k, v) => .list [.atom k, dvalS v])
  | .ptr none => node "p" []
  | .ptr (some x) => node "p" [dvalS x]
  | .custom v => node "cu" [valS (canonVal v)]

/-! ## external-function oracle supplied with a case -/

structure Oracle where
  pf : List (String × Option FVal) := []
  pt : List (String × String × Option (Int × Bool)) := []
  disp : List (String × String) := []   -- key: wire form of the Val

def Oracle.ext (o : Oracle) : Ext :=
  { parseFloat := fun s => (lookupD o.pf s).getD none,
    parseTime := fun layout s =>
      match o.pt.find? (fun e => e.1 == layout && e.2.1 == s) with
      | some e => e.2.2
      | none => none,
    display := fun v => nativeDisplay o v }
where
  nativeDisplay (o : Oracle) (v : Val) : String :=
    match v with
    | .nil => "<nil>"
    | .str s => s
    | .int _ n => toString n
    | .bool b => if b then "true" else "false"
    | v => (lookupD o.disp (toString (valS v))).getD "?"

def oracle? : Sexp → Option Oracle
  | .list (.atom "ext" :: items) => do
    let mut o : Oracle := {}
    for it in items do
      match it with
      | .list [.atom "pf", s, r] =>
        let s ← s.str?
        o := { o with pf := (s, fval? r) :: o.pf }
      | .list [.atom "pt", l, s, .atom "err"] =>
        o := { o with pt := (← l.str?, ← s.str?, none) :: o.pt }
      | .list [.atom "pt", l, s, ns, u] =>
        o := { o with pt := (← l.str?, ← s.str?, some (← ns.int?, ← bool? u)) :: o.pt }
      | .list [.atom "disp", v, d] =>
        o := { o with disp := (toString v, ← d.str?) :: o.disp }
      | _ => none
    pure o
  | _ => none

/-! ## display of parameters (`%v` of ints, strings, bools and slices of them) -/

partial def dvalDisplay (o : Oracle) : DVal → String
  | .str s => s
  | .int _ n => toString n
  | .bool b => if b then "true" else "false"
  | .slice xs => "[" ++ " ".intercalate (xs.map (dvalDisplay o)) ++ "]"
  | d => (lookupD o.disp (toString (dvalS d))).getD "?"

/-! ## tests -/

/-- measure used by the table-defined callback predicates `fn MOD REM` -/
partial def measure : DVal → Int
  | .str s => goLen s
  | .int _ n => Int.emod n 1009
  | .flt _ f => Int.emod ((f.trunc?).getD 0) 1009
  | .bool b => if b then 1 else 0
  | .time ns _ => ns / 1000000000
  | .slice xs => xs.length
  | .struct fs => fs.foldl (fun acc kv => acc + measure kv.2) 0
  | .ptr none => 0
  | .ptr (some x) => measure x
  | .custom v => match v with
    | .int _ n => Int.emod n 1009
    | .str s => goLen s
    | _ => 0

structure TOpts where
  code : Option String := none
  path : Option String := none
  msg : Option String := none
  params : Option (List (String × String)) := none

def topts? : Sexp → Option TOpts
  | .list (.atom "o" :: items) => do
    let mut t : TOpts := {}
    for it in items do
      match it with
      | .list [.atom "code", s] => t := { t with code := some (← s.str?) }
      | .list [.atom "path", s] => t := { t with path := some (← s.str?) }
      | .list [.atom "msg", s] => t := { t with msg := some (← s.str?) }
      | .list (.atom "params" :: kvs) =>
        let ps ← kvs.mapM fun kv => match kv with
          | .list [k, v] => do pure (← k.str?, ← v.str?)
          | _ => none
        t := { t with params := some ps }
      | _ => none
    pure t
  | _ => none

def applyOpts (t : Test) (o : TOpts) : Test :=
  { t with code := o.code.getD t.code,
           issuePath := match o.path with
             | some p => if p == "" then t.issuePath else some p
             | none => t.issuePath,
           msg := o.msg.getD t.msg,
           params := o.params.getD t.params }

def cmpOp? : String → Option CmpOp
  | "eq" => some .eq | "lt" => some .lt | "lte" => some .lte | "gt" => some .gt | "gte" => some .gte
  | _ => none

def _root_.Zog.CmpOp.toCode : CmpOp → String
  | .eq => "eq" | .lt => "lt" | .lte => "lte" | .gt => "gt" | .gte => "gte"

/-- `(t ID NOT NAME ARGS... OPTS)`: the test as the builder method makes it, and its options -/
def testParts? (o : Oracle) : Sexp → Option (Test × TOpts)
  | .list (.atom "t" :: id :: neg :: .atom name :: rest) => do
    let id ← id.nat?
    let neg ← bool? neg
    let (args, optsS) ← match rest.reverse with
      | last :: revArgs => some (revArgs.reverse, last)
      | [] => none
    let opts ← topts? optsS
    let mk (code : String) (params : List (String × String)) (pred : DVal → Bool) : Test :=
      { id := id, code := if neg then "not_" ++ code else code, params := params,
        pred := if neg then (fun d => !pred d) else pred }
    let base : Test ← match name, args with
      | "min", [n] => do let n ← n.int?; pure (mk "min" [("min", toString n)] (lenMin n))
      | "max", [n] => do let n ← n.int?; pure (mk "max" [("max", toString n)] (lenMax n))
      | "len", [n] => do let n ← n.int?; pure (mk "len" [("len", toString n)] (lenEq n))
      | "prefix", [s] => do let s ← s.str?; pure (mk "prefix" [("prefix", s)] (hasPrefix s))
      | "suffix", [s] => do let s ← s.str?; pure (mk "suffix" [("suffix", s)] (hasSuffix s))
      | "contains", [s] => do let s ← s.str?; pure (mk "contained" [("contained", s)] (containsStr s))
      | "upper", [] => pure (mk "contains_upper" [] (containsInRanges upperRanges))
      | "digit", [] => pure (mk "contains_digit" [] (containsInRanges digitRanges))
      | "special", [] => pure (mk "contains_special" [] (containsInRanges specialRanges))
      | "uuid", [] => pure (mk "uuid" [] (strPred isUUID))
      | "email", [] => pure (mk "email" [] (strPred isEmail))
      | "oneof", xs => do
        let ds ← xs.mapM dval?
        pure (mk "one_of_options" [("one_of_options", dvalDisplay o (.slice ds))] (oneOf ds))
      | "cmp", [.atom op, n] => do
        let op ← cmpOp? op
        let n ← dval? n
        pure (mk op.toCode [(op.toCode, dvalDisplay o n)] (cmpNum op n))
      | "booleq", [b] => do
        let b ← bool? b
        pure (mk "eq" [("eq", if b then "true" else "false")] (boolEq b))
      | "tcmp", [.atom op, ns, disp] => do
        let op ← cmpOp? op
        let code := match op with | .gt => "after" | .lt => "before" | _ => "eq"
        pure (mk code [(code, ← disp.str?)] (timeCmp op (← ns.int?)))
      | "slcontains", [x] => do
        let x ← dval? x
        pure (mk "contained" [("contained", dvalDisplay o x)] (sliceContains x))
      | "fn", [m, r] => do
        let m ← m.int?; let r ← r.int?
        pure { id := id, code := "", cb := true, pred := fun d => decide (Int.emod (measure d) m = r) }
      | _, _ => none
    pure (base, opts)
  | _ => none

def test? (o : Oracle) (s : Sexp) : Option Test := (testParts? o s).map (fun p => applyOpts p.1 p.2)

/-- `strings.TrimSpace` -/
def goTrim (s : String) : String :=
  String.ofList ((s.toList.dropWhile isGoSpace).reverse.dropWhile isGoSpace).reverse

/-- bump a value (the table PostTransform `inc`) -/
def bump : DVal → DVal
  | .str s => .str (s ++ "!")
  | .int k n => .int k (if n < 1000000 then n + 1 else n)
  | .bool b => .bool (!b)
  | .time ns u => .time (ns + 1000000000) u
  | .slice xs => .slice xs.dropLast
  | d => d

/-- modify the first leaf reachable through first elements / pointees (the table PostTransform `incdeep`) -/
def bumpDeep : DVal → DVal
  | .slice (x :: xs) => .slice (bumpDeep x :: xs)
  | .ptr (some x) => .ptr (some (bumpDeep x))
  | .slice [] => .slice []
  | .ptr none => .ptr none
  | .struct fs => .struct fs
  | .custom (.int .int n) => .custom (.int .int (if n < 1000000 then n + 1 else n))
  | .custom (.str s) => .custom (.str (s ++ "!"))
  | d => bump d

/-- `(p ID KIND ARGS...)` -/
def post? : Sexp → Option Post
  | .list [.atom "p", id, .atom "id"] => do pure { id := ← id.nat?, run := fun d => (d, none) }
  | .list [.atom "p", id, .atom "inc"] => do pure { id := ← id.nat?, run := fun d => (bump d, none) }
  | .list [.atom "p", id, .atom "incdeep"] => do pure { id := ← id.nat?, run := fun d => (bumpDeep d, none) }
  | .list [.atom "p", id, .atom "set", x] => do
    let x ← dval? x
    pure { id := ← id.nat?, run := fun _ => (x, none) }
  | .list [.atom "p", id, .atom "fail"] => do pure { id := ← id.nat?, run := fun d => (d, some .plain) }
  -- an ordinary error that WRAPS a ZogIssue is still an ordinary error
  | .list [.atom "p", id, .atom "failwrap"] => do pure { id := ← id.nat?, run := fun d => (d, some .plain) }
  | .list [.atom "p", id, .atom "incfail"] => do pure { id := ← id.nat?, run := fun d => (bump d, some .plain) }
  | .list [.atom "p", id, .atom "failissue", code, path, dtype, msg] => do
    let i : Issue := { code := ← code.str?, path := ← path.str?, dtype := ← dtype.str?, params := [], message := ← msg.str? }
    pure { id := ← id.nat?, run := fun d => (d, some (.issue i)) }
  | _ => none

def optItem (tag : String) (items : List Sexp) : Option (List Sexp) :=
  items.findSome? fun it => match it with
    | .list (.atom t :: rest) => if t == tag then some rest else none
    | _ => none

def pkind? : Sexp → Option PKind
  | .atom "str" => some .str
  | .atom "bool" => some .bool
  | .atom "time" => some .time
  | k => (nkind? k).map PKind.num

def requiredTest (id : Nat) (o : TOpts) : Test :=
  applyOpts { id := id, code := "required", pred := fun _ => true } o

/-- default coercer of a primitive kind (`layout` for time) -/
def defaultCoercer (ext : Ext) (k : PKind) (layout : String) : Val → Option DVal :=
  match k with
  | .str => fun v => some (.str (coerceString ext v))
  | .num nk => coerceNum ext nk
  | .bool => fun v => (coerceBool v).map DVal.bool
  | .time => fun v => (coerceTime ext layout v).map (fun p => DVal.time p.1 p.2)

/-- table of named custom coercers (`WithCoercer`), mirrored by `eng.NamedCoercer` in the harness -/
def namedCoercer : String → Option (Val → Option DVal)
  | "plus100" => some fun v => match v with
    | .int .int n => if -1000000000000 < n ∧ n < 1000000000000 then some (.int .int (n + 100)) else none
    | _ => none
  | "strlen" => some fun v => match v with
    | .str s => some (.int .int s.utf8ByteSize)
    | _ => none
  | "sfx" => some fun v => match v with
    | .str s => some (.str (s ++ "~"))
    | _ => none
  | "yn" => some fun v => match v with
    | .str "y" => some (.bool true)
    | .str "n" => some (.bool false)
    | _ => none
  -- one per remaining constructor (Int64, Int32, Float64 / Float, Float32, Time): a custom coercer REPLACES
  -- the constructor's own (range-checking) adapter and must hand over the destination type itself
  | "len64" => some fun v => match v with
    | .str s => some (.int .i64 s.utf8ByteSize)
    | _ => none
  | "len32" => some fun v => match v with
    | .str s => some (.int .i32 s.utf8ByteSize)
    | _ => none
  | "const25" => some fun v => match v with
    | .str _ => some (.flt .f64 (.fin 5 (-1)))
    | _ => none
  | "const25f" => some fun v => match v with
    | .str _ => some (.flt .f32 (.fin 5 (-1)))
    | _ => none
  | "epoch1" => some fun v => match v with
    | .str _ => some (.time 86400000000000 true)
    | _ => none
  | _ => none

/-- named slice coercers -/
def namedSliceCoercer : String → Option (Val → Option (List Val))
  | "csv" => some fun v => match v with
    | .str s => some ((s.splitOn ",").map Val.str)
    | .list xs => some xs
    | _ => none
  | _ => none

partial def schema? (o : Oracle) : Sexp → Option Schema
  | .list [.atom "prim", k, .list (.atom "mods" :: mods), .list tests, .list posts] => do
    let k ← pkind? k
    let tests ← tests.mapM (test? o)
    let posts ← posts.mapM post?
    let required ← match optItem "req" mods with
      | some [id, os] => do pure (some (requiredTest (← id.nat?) (← topts? os)))
      | some _ => none
      | none => pure none
    let dflt ← match optItem "dflt" mods with
      | some [x] => do pure (some (← dval? x))
      | some _ => none
      | none => pure none
    let ctch ← match optItem "catch" mods with
      | some [x] => do pure (some (← dval? x))
      | some _ => none
      | none => pure none
    let layout ← match optItem "layout" mods with
      | some [l] => l.str?
      | some _ => none
      | none => pure "RFC3339"
    let coerce ← match optItem "coercer" mods with
      | some [.atom name] => namedCoercer name
      | some _ => none
      | none => pure (defaultCoercer o.ext k layout)
    pure (.prim { kind := k, tests, posts, required, dflt, ctch, coerce })
  | .list [.atom "slice", elem, zero, .list (.atom "mods" :: mods), .list tests, .list posts] => do
    let elem ← schema? o elem
    let zero ← dval? zero
    let tests ← tests.mapM (test? o)
    let posts ← posts.mapM post?
    let required ← match optItem "req" mods with
      | some [id, os] => do pure (some (requiredTest (← id.nat?) (← topts? os)))
      | some _ => none
      | none => pure none
    let (dfltIn, dfltD) ← match optItem "dflt" mods with
      | some [vin, vd] => do
        let vin ← val? vin
        let vd ← dval? vd
        match vin, vd with
        | .list xs, .slice ds => pure (some xs, some ds)
        | _, _ => none
      | some _ => none
      | none => pure (none, none)
    let coerce ← match optItem "coercer" mods with
      | some [.atom name] => namedSliceCoercer name
      | some _ => none
      | none => pure coerceSlice
    pure (.slice elem { tests, posts, required, dfltIn, dfltD, coerce, zeroElem := zero })
  | .list [.atom "ptr", elem, zero, nn] => do
    let elem ← schema? o elem
    let zero ← dval? zero
    let notNil ← match nn with
      | .atom "-" => pure none
      | .list [.atom "nn", id, os] => do
        pure (some (applyOpts { id := ← id.nat?, code := "not_nil", pred := fun _ => true } (← topts? os)))
      | _ => none
    pure (.ptr elem zero notNil)
  | .list [.atom "struct", .list fields, .list tests, .list posts] => do
    let tests ← tests.mapM (test? o)
    let posts ← posts.mapM post?
    let fs ← fields.mapM fun f => match f with
      | .list [key, .atom goName, .list tags, s] => do
        let tags ← tags.mapM fun t => match t with
          | .list [.atom n, v] => do pure (n, ← v.str?)
          | _ => none
        pure (← key.str?, ({ goName, tags } : FieldMeta), ← schema? o s)
      | _ => none
    pure (.struct (fs.foldr (fun (k, fm, s) acc => Fields.cons k fm s acc) Fields.nil) tests posts)
  | .list [.atom "pre", id, .list (.atom kind :: args), inner] => do
    let id ← id.nat?
    let inner ← schema? o inner
    let nonNil : Val → Bool := fun v => match v with | .nil => false | _ => true
    let isStr : Val → Bool := fun v => match v with | .str _ => true | _ => false
    let mk (accept : Val → Bool) (run : Val → Val × Option PostErr) (runD : DVal → DVal × Option String) : Schema :=
      .pre { id, accept, run, runD } inner
    match kind, args with
    | "idany", [] => pure (mk nonNil (fun v => (v, none)) (fun d => (d, none)))
    | "fail", [] => pure (mk nonNil (fun v => (v, some .plain)) (fun d => (d, none)))
    | "failwrap", [] => pure (mk nonNil (fun v => (v, some .plain)) (fun d => (d, none)))
    | "failissue", [code, path, dtype, msg] => do
      let i : Issue := { code := ← code.str?, path := ← path.str?, dtype := ← dtype.str?, params := [], message := ← msg.str? }
      pure (mk nonNil (fun v => (v, some (.issue i))) (fun d => (d, none)))
    | "atoi", [] =>
      pure (mk isStr (fun v => match v with
        | .str s => (match atoi s with
          | some n => (.int .int n, none)
          | none => (v, some .plain))
        | _ => (v, some .plain)) (fun d => (d, none)))
    | "trim", [] =>
      pure (mk isStr (fun v => match v with
        | .str s => (.str (goTrim s), none)
        | _ => (v, none)) (fun d => (d, none)))
    | "mismatch", [] => pure (mk (fun _ => false) (fun v => (v, none)) (fun d => (d, none)))
    | "vid", [] => pure (mk (fun _ => false) (fun v => (v, none)) (fun d => (d, none)))
    | "vinc", [] => pure (mk (fun _ => false) (fun v => (v, none)) (fun d => (bump d, none)))
    | "vfail", [msg] => do
      let msg ← msg.str?
      pure (mk (fun _ => false) (fun v => (v, none)) (fun d => (d, some msg)))
    | _, _ => none
  | .list [.atom "custom", .atom ck, t] => do
    let t ← test? o t
    let accept : Val → Option DVal := match ck with
      | "int" => fun v => match v with | .int .int n => some (.custom (.int .int n)) | _ => none
      | "str" => fun v => match v with | .str s => some (.custom (.str s)) | _ => none
      | _ => fun _ => none
    pure (.custom { accept, test := t })
  | _ => none

/-! ## results -/

def issueS (i : Issue) : Sexp :=
  node "I" [mkStr i.code, mkStr i.path, mkStr i.dtype,
    .list ((sortParams i.params).map fun (k, v) => .list [mkStr k, mkStr v]), mkStr i.message]

def insertSorted (k : String) (v : List Issue) : List (String × List Issue) → List (String × List Issue)
  | [] => [(k, v)]
  | (k', v') :: rest => if k < k' then (k, v) :: (k', v') :: rest else (k', v') :: insertSorted k v rest

def issueMapS (m : IssueMap) : Sexp :=
  let sorted := m.foldl (fun acc kv => insertSorted kv.1 kv.2 acc) []
  node "issues" (sorted.map fun (k, is) => .list (mkStr k :: is.map issueS))

def evKindS : EvKind → String
  | .test => "test" | .post => "post" | .custom => "custom" | .pre => "pre"

def eventS (e : Event) : Sexp :=
  node "E" [.atom (evKindS e.kind), mkNat e.id, mkStr e.path, dvalS e.arg]

end Wire
end Zog
