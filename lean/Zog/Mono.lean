import Zog.Laws

/-!
# Issues are only ever appended (helper: monotonicity of the sink, all schemas, all modes)
-/

namespace Zog
namespace Spec

/-- `b` extends `a`: the issues recorded so far are kept, in order -/
def Extends (a b : St) : Prop := ∃ extra, b.sink = a.sink ++ extra

theorem Extends.refl (a : St) : Extends a a := ⟨[], by simp⟩
theorem Extends.trans {a b c : St} (h1 : Extends a b) (h2 : Extends b c) : Extends a c := by
  obtain ⟨e1, h1⟩ := h1; obtain ⟨e2, h2⟩ := h2
  exact ⟨e1 ++ e2, by rw [h2, h1, List.append_assoc]⟩

theorem Extends.emit (a : St) (i : Issue) : Extends a (emit a i) := ⟨[i], rfl⟩

/-- if the final sink equals the initial one, every intermediate one does too -/
theorem Extends.squeeze {a b c : St} (h1 : Extends a b) (h2 : Extends b c) (h : c.sink = a.sink) :
    b.sink = a.sink := by
  obtain ⟨e1, h1⟩ := h1; obtain ⟨e2, h2⟩ := h2
  rw [h2, h1, List.append_assoc] at h
  have : e1 ++ e2 = [] := by simpa using h
  have : e1 = [] := (List.append_eq_nil_iff.mp this).1
  rw [h1, this, List.append_nil]

theorem testAll_extends (env : Env) (dt ps : String) (tests : List Test) (x : DVal) (st : St) :
    Extends st (testAll env dt ps tests x st) := ⟨_, testAll_sink env dt ps tests x st⟩

theorem tested_extends (env : Env) (dt ps : String) (ctch : Option DVal) (tests : List Test) (x : DVal) (st : St) :
    Extends st (tested env dt ps ctch tests x st).2 := by
  unfold tested
  cases ctch with
  | none => exact testAll_extends _ _ _ _ _ _
  | some c => exact ⟨[], by simp [testCatch_sink]⟩

theorem primBody_extends (env : Env) (m : Mode) (p : Prim) (path : List String) (v : Val) (d : DVal) (st : St) :
    Extends st (primBody env m p path v d st).2 := by
  unfold primBody
  cases Engine.primAbsent m v d
  · simp only [Bool.false_eq_true, ↓reduceIte]
    cases m <;> simp only
    · cases p.coerce v with
      | none => cases p.ctch <;> first | exact Extends.refl _ | exact Extends.emit _ _
      | some x => exact tested_extends _ _ _ _ _ _ _
    · exact tested_extends _ _ _ _ _ _ _
  · simp only [↓reduceIte]
    cases p.dflt with
    | some x => exact tested_extends _ _ _ _ _ _ _
    | none =>
      cases p.required with
      | none => exact Extends.refl _
      | some r => cases p.ctch <;> first | exact Extends.refl _ | exact Extends.emit _ _

theorem runPosts_extends (env : Env) (dt ps : String) (posts : List Post) (o : Out) :
    Extends o.2 (runPosts env dt ps posts o).2 := by
  unfold runPosts
  split
  · obtain ⟨extra, h, _⟩ := postLoop_sink_prefix env dt ps posts o.1 o.2
    exact ⟨extra, h⟩
  · exact Extends.refl _

theorem sliceLoop_extends (child : Child) (path : List String)
    (hc : ∀ p v d st, Extends st (child p v d st).2) :
    ∀ (xs : List (Val × DVal × Nat)) (ds : List DVal) (st : St), Extends st (sliceLoop child path xs ds st).2
  | [], _, st => Extends.refl st
  | x :: rest, ds, st => by
    unfold sliceLoop
    exact (hc _ _ _ _).trans (sliceLoop_extends child path hc rest _ _)

theorem fieldLoop_extends (step : String → DVal → St → Out)
    (hs : ∀ k d st, Extends st (step k d st).2) :
    ∀ (ks : List String) (d : DVal) (st : St), Extends st (fieldLoop step ks d st).2
  | [], _, st => Extends.refl st
  | k :: ks, d, st => by
    unfold fieldLoop
    exact (hs _ _ _).trans (fieldLoop_extends step hs ks _ _)

mutual
/-- no node ever removes or reorders an issue recorded earlier -/
theorem proc_extends (env : Env) (m : Mode) :
    ∀ (s : Schema) (tag : Option String) (path : List String) (v : Val) (d : DVal) (st : St),
      Extends st (proc env m s tag path v d st).2
  | .prim p, tag, path, v, d, st => by
    simp only [proc, prim]
    exact (primBody_extends env m p path v d st).trans (runPosts_extends _ _ _ _ _)
  | .slice elem sm, tag, path, v, d, st => by
    unfold proc
    refine Extends.trans ?_ (runPosts_extends _ _ _ _ _)
    have sl := fun xs ds st => sliceLoop_extends (proc env m elem none) path
      (fun p v d st => proc_extends env m elem none p v d st) xs ds st
    cases m <;> simp only
    · by_cases ha : isParseZero v = true
      · simp only [ha, ↓reduceIte]
        cases sm.dfltIn with
        | some xs => exact (sl _ _ _).trans (testAll_extends _ _ _ _ _ _)
        | none => cases sm.required <;> first | exact Extends.refl _ | exact Extends.emit _ _
      · simp only [ha, ↓reduceIte, Bool.false_eq_true]
        cases sm.coerce v with
        | none => exact Extends.emit _ _
        | some xs => exact (sl _ _ _).trans (testAll_extends _ _ _ _ _ _)
    · by_cases hce : d.elems.isEmpty = true
      · simp only [hce, ↓reduceIte]
        cases sm.dfltD with
        | some ds => exact (sl _ _ _).trans (testAll_extends _ _ _ _ _ _)
        | none => cases sm.required <;> first | exact Extends.refl _ | exact Extends.emit _ _
      · simp only [hce, ↓reduceIte, Bool.false_eq_true]
        exact (sl _ _ _).trans (testAll_extends _ _ _ _ _ _)
  | .ptr elem zp nn, tag, path, v, d, st => by
    unfold proc
    cases Engine.ptrAbsent m v d
    · simp only [Bool.false_eq_true, ↓reduceIte]
      exact proc_extends env m elem tag path v _ st
    · simp only [↓reduceIte]
      cases nn <;> first | exact Extends.refl _ | exact Extends.emit _ _
  | .struct fs tests posts, tag, path, v, d, st => by
    unfold proc
    refine Extends.trans ?_ (runPosts_extends _ _ _ _ _)
    have fl := fun prov ks d st => fieldLoop_extends
      (fun k d st => procKey env m fs k tag prov path d st)
      (fun k d st => procKey_extends env m fs k tag prov path d st) ks d st
    cases m <;> simp only
    · cases Engine.provOf v with
      | none => exact Extends.emit _ _
      | some prov => exact (fl _ _ _ _).trans (testAll_extends _ _ _ _ _ _)
    · exact (fl _ _ _ _).trans (testAll_extends _ _ _ _ _ _)
  | .custom c, tag, path, v, d, st => by
    unfold proc
    cases m <;> simp only
    · cases c.accept v with
      | none => exact Extends.emit _ _
      | some x =>
        by_cases hp : c.test.pred x = true
        · simp only [hp, ↓reduceIte]; exact ⟨[], by simp⟩
        · simp only [hp, ↓reduceIte, Bool.false_eq_true]; exact ⟨[issueOfTest env (render path) "custom" c.test], by simp [emit]⟩
    · by_cases hp : c.test.pred d = true
      · simp only [hp, ↓reduceIte]; exact ⟨[], by simp⟩
      · simp only [hp, ↓reduceIte, Bool.false_eq_true]; exact ⟨[issueOfTest env (render path) "custom" c.test], by simp [emit]⟩
  | .pre ps inner, tag, path, v, d, st => by
    unfold proc
    cases m <;> simp only
    · cases ps.accept v
      · exact Extends.emit _ _
      · simp only [↓reduceIte]
        rcases hr : ps.run v with ⟨v', e⟩
        cases e with
        | none => exact Extends.trans ⟨[], by simp⟩ (proc_extends env .parse inner tag path v' d _)
        | some e => exact ⟨[issueOfPostErr env (render path) inner.dtype e], by simp [emit]⟩
    · rcases hr : ps.runD d with ⟨d', e⟩
      cases e with
      | none => exact Extends.trans ⟨[], by simp⟩ (proc_extends env .validate inner tag path v d' _)
      | some e => exact ⟨[preErrIssue env (render path) inner.dtype e], by simp [emit]⟩
theorem procKey_extends (env : Env) (m : Mode) :
    ∀ (fs : Fields) (key : String) (tag : Option String) (prov : Engine.Prov) (path : List String) (d : DVal) (st : St),
      Extends st (procKey env m fs key tag prov path d st).2
  | .nil, _, _, _, _, _, st => by unfold procKey; exact Extends.refl st
  | .cons k fm s rest, key, tag, prov, path, d, st => by
    unfold procKey
    split
    · exact proc_extends env m s none _ _ _ st
    · exact procKey_extends env m rest key tag prov path d st
end

end Spec
end Zog
