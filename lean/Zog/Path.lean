import Zog.Basic

/-!
# Paths and the issue map   — C10
`render` mirrors `PathBuilder.String`; `IssueMap.add` mirrors `ErrsMap.Add`.
-/

namespace Zog

def startsWithBracket (s : String) : Bool :=
  match s.toList with
  | '[' :: _ => true
  | _ => false

/-- `PathBuilder.String` with `prev` = the previous segment (`""` before the first) -/
def renderAux (prev : String) : List String → String
  | [] => ""
  | v :: rest =>
    (if prev != "" && !startsWithBracket v then "." else "") ++ v ++ renderAux v rest

/-- rendering of a segment stack (the pooled builder's leading `""` contributes nothing) -/
def render (segs : List String) : String := renderAux "" segs

def firstKey : String := "$first"
def rootKey : String := "$root"

/-- key under which an issue with path `p` is filed -/
def keyOf (p : String) : String := if p == "" then rootKey else p

abbrev IssueMap := List (String × List Issue)

def IssueMap.append (m : IssueMap) (k : String) (i : Issue) : IssueMap :=
  match m with
  | [] => [(k, [i])]
  | (k', is) :: rest => if k' == k then (k', is ++ [i]) :: rest else (k', is) :: IssueMap.append rest k i

/-- `ErrsMap.Add` -/
def IssueMap.add (m : IssueMap) (i : Issue) : IssueMap :=
  let m1 : IssueMap := if m.isEmpty then [(firstKey, [i])] else m
  IssueMap.append m1 (keyOf i.path) i

/-- the map an execution returns for the issues it recorded, in arrival order (`[]` = nil map) -/
def toIssueMap (sink : List Issue) : IssueMap := sink.foldl IssueMap.add []

def IssueMap.get (m : IssueMap) (k : String) : List Issue :=
  match m with
  | [] => []
  | (k', is) :: rest => if k' == k then is else IssueMap.get rest k

end Zog
