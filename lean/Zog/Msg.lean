import Zog.Basic

/-!
# Messages   — C11
`defaultFmt` mirrors `conf.NewDefaultFormatter`; the three-level precedence is `pickMessage`.
The language tables are a parameter (regenerated into `Zog.Gen.Tables`).
-/

namespace Zog

/-- dtype ↦ code ↦ template -/
abbrev LangMap := List (String × List (String × String))

def LangMap.template? (m : LangMap) (dtype code : String) : Option String :=
  (lookupD m dtype).bind (fun t => lookupD t code)

def substParams (msg : String) (params : List (String × String)) : String :=
  (sortParams params).foldl (fun acc kv => acc.replace ("{{" ++ kv.1 ++ "}}") kv.2) msg

/-- `conf.NewDefaultFormatter(m)` on an issue whose message is still empty.
    (`{{value}}` is substituted last in Go; no shipped template contains it — `Gen` obligation
    `no_value_placeholder` — so the value's `%v` rendering is not an input here.) -/
def defaultFmt (m : LangMap) (code dtype : String) (params : List (String × String)) : String :=
  match m.template? dtype code with
  | none => (m.template? dtype "fallback").getD ""
  | some t => substParams t params

/-- i18n formatter installed by `SetLanguagesErrsMap`: language from this execution's context -/
def i18nFmt (langs : List (String × LangMap)) (defaultLang : String) (ctxLang : Option String)
    (code dtype : String) (params : List (String × String)) : String :=
  match ctxLang.bind (fun l => lookupD langs l) with
  | some m => defaultFmt m code dtype params
  | none => defaultFmt ((lookupD langs defaultLang).getD []) code dtype params

/-- one call of `i18n.SetLanguagesErrsMap(langs, dflt, WithLangKey(key)?)` -/
structure Install where
  langs : List (String × LangMap)
  dflt : String
  key : Option String := none

/-- the context key an installation reads the language from (`i18n.LangKey` unless `WithLangKey`) -/
def Install.langKey (i : Install) : String := i.key.getD "lang"

/-- the global formatter after a HISTORY of installations, for an execution whose context holds `ctx`
    (`base`: the formatter before any installation; a context value that is not a string is `none`
    and names no language). Only the last installation counts. -/
def installedFmt (base : String → String → List (String × String) → String) (hist : List Install)
    (ctx : List (String × Option String)) : String → String → List (String × String) → String :=
  match hist.getLast? with
  | none => base
  | some i => i18nFmt i.langs i.dflt (lookupD ctx i.langKey).join

/-- most specific first: the test's own message, else the execution formatter, else the global one -/
def pickMessage (testMsg : String) (execFmt : Option (String → String → List (String × String) → String))
    (globalFmt : String → String → List (String × String) → String)
    (code dtype : String) (params : List (String × String)) : String :=
  if testMsg != "" then testMsg
  else match execFmt with
    | some f => f code dtype params
    | none => globalFmt code dtype params

end Zog
