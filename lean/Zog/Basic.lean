/-!
# Basic data of the zog model

`Val`   — input data as a data provider / Go value presents it (with the Go dynamic type where
          the coercers look at it),
`DVal`  — destination values,
`Issue` — what `ZogIssue` carries that the properties talk about,
`Event` — the callback log (C12).
Core-only (linked into the driver).
-/

namespace Zog

/-- exact value of a float: NaN, ±Inf, or `m * 2^e` -/
inductive FVal where
  | nan
  | inf (neg : Bool)
  /-- negative zero (`fin 0 _` is +0) -/
  | nzero
  | fin (m : Int) (e : Int)
deriving DecidableEq, Repr, Inhabited

/-- Go integer dynamic types the coercers distinguish -/
inductive IKind where
  | int | i64 | i32 | other
deriving DecidableEq, Repr, Inhabited

/-- destination number kinds -/
inductive NKind where
  | int | i32 | i64 | f32 | f64
deriving DecidableEq, Repr, Inhabited

/-- the Go zero `time.Time{}` as unix nanoseconds -/
def zeroTimeNs : Int := -62135596800 * 1000000000

inductive Val where
  | nil
  | str (s : String)
  | int (k : IKind) (n : Int)
  | bool (b : Bool)
  | f64 (f : FVal)
  | f32 (f : FVal)
  | time (ns : Int) (utc : Bool)
  | list (xs : List Val)
  | obj (kvs : List (String × Val))
  /-- flat string source (url.Values / environment): a missing key reads as `""` -/
  | flat (kvs : List (String × Val))
  /-- any other Go dynamic type; `desc` is only a label -/
  | other (desc : String)
deriving Inhabited

inductive DVal where
  | str (s : String)
  | int (k : NKind) (n : Int)
  | flt (k : NKind) (f : FVal)
  | bool (b : Bool)
  | time (ns : Int) (utc : Bool)
  | slice (xs : List DVal)
  | struct (fs : List (String × DVal))
  | ptr (p : Option DVal)
  /-- destination of a `Custom[T]` schema: holds the input value itself -/
  | custom (v : Val)
deriving Inhabited

structure Issue where
  code : String
  path : String
  dtype : String
  params : List (String × String)
  message : String
deriving DecidableEq, Repr, Inhabited

inductive EvKind where
  | test | post | custom | pre
deriving DecidableEq, Repr, Inhabited

/-- one callback invocation: which callback, at which node path, with which argument -/
structure Event where
  kind : EvKind
  id : Nat
  path : String
  arg : DVal
deriving Inhabited

inductive Mode where
  | parse | validate
deriving DecidableEq, Repr, Inhabited

/-! ## small accessors -/

def lookupD {α : Type} (kvs : List (String × α)) (k : String) : Option α :=
  match kvs with
  | [] => none
  | (k', v) :: rest => if k' == k then some v else lookupD rest k

def DVal.get (d : DVal) (k : String) : DVal :=
  match d with
  | .struct fs => (lookupD fs k).getD (.struct [])
  | _ => .struct []

/-- elements of a slice destination (anything else: none) -/
def DVal.elems : DVal → List DVal
  | .slice xs => xs
  | _ => []

/-- target of a non-nil pointer destination, else `dflt` (the freshly allocated zero value) -/
def DVal.pointee (d : DVal) (dflt : DVal) : DVal :=
  match d with
  | .ptr (some x) => x
  | _ => dflt

def DVal.isNilPtr : DVal → Bool
  | .ptr (some _) => false
  | _ => true

def setD (fs : List (String × DVal)) (k : String) (x : DVal) : List (String × DVal) :=
  match fs with
  | [] => []
  | (k', v) :: rest => if k' == k then (k', x) :: rest else (k', v) :: setD rest k x

/-- replace field `k` in place (a field the struct does not have is not created: Go would panic) -/
def DVal.set (d : DVal) (k : String) (x : DVal) : DVal :=
  match d with
  | .struct fs => .struct (setD fs k x)
  | _ => d

/-- Params is a Go map: the formatter substitutes in ascending key order (a value may itself hold
    another parameter's placeholder, so the order is observable) -/
def sortParams (params : List (String × String)) : List (String × String) :=
  params.mergeSort (fun a b => decide (a.1 ≤ b.1))


end Zog
