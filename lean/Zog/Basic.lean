def hello := "world"
