/-!
# Pick / Omit / Extend / Merge / Test on struct schemas   — C16

Two machines over the same programs:

* `Heap` — struct schema objects whose `tests` field is a Go slice header `(array, len)` into an
  array store with capacity; `append` writes in place while `len < cap` (the spare cells are what
  made derived schemas overwrite each other's tests — defect D14); whether `cloneShallow` copies
  the backing array is the fact `copies` (regenerated from struct_helpers.go).
* `Pure` — each schema is a value `(fields, tests)`; helpers are set operations.

(`postTransforms` are handled by the same code shape as `tests`; the model carries one list.)
Core-only.
-/

namespace Zog
namespace Helpers

/-- a struct schema's field map: key ↦ id of the field's schema (later entries win on lookup) -/
abbrev FieldMap := List (String × Nat)

def fmPick (fm : FieldMap) (keys : List String) : FieldMap := fm.filter (fun p => keys.contains p.1)
def fmOmit (fm : FieldMap) (keys : List String) : FieldMap := fm.filter (fun p => !keys.contains p.1)
/-- later operand wins on conflicts -/
def fmUnion (a b : FieldMap) : FieldMap := a.filter (fun p => !(b.map (·.1)).contains p.1) ++ b

inductive Op where
  | mk (fields : FieldMap)
  | test (obj : Nat) (t : Nat)
  | pick (obj : Nat) (keys : List String)
  | omitKeys (obj : Nat) (keys : List String)
  | extend (obj : Nat) (fields : FieldMap)
  | merge (a b : Nat)

/-! ## pure specification -/

structure PObj where
  fields : FieldMap
  tests : List Nat
deriving DecidableEq, Repr

abbrev Pure := List PObj

def Pure.step (s : Pure) : Op → Pure
  | .mk f => s ++ [⟨f, []⟩]
  | .test i t =>
    match s[i]? with
    | some o => s.set i { o with tests := o.tests ++ [t] }
    | none => s
  | .pick i keys =>
    match s[i]? with
    | some o => s ++ [⟨fmPick o.fields keys, o.tests⟩]
    | none => s
  | .omitKeys i keys =>
    match s[i]? with
    | some o => s ++ [⟨fmOmit o.fields keys, o.tests⟩]
    | none => s
  | .extend i f =>
    match s[i]? with
    | some o => s ++ [⟨fmUnion o.fields f, o.tests⟩]
    | none => s
  | .merge a b =>
    match s[a]?, s[b]? with
    | some x, some y => s ++ [⟨fmUnion x.fields y.fields, x.tests ++ y.tests⟩]
    | _, _ => s

def Pure.run (ops : List Op) : Pure := ops.foldl Pure.step []

/-! ## heap machine -/

structure Slice where
  arr : Nat
  len : Nat
deriving DecidableEq, Repr

structure HObj where
  fields : FieldMap
  tests : Slice
deriving Repr

structure Heap where
  /-- array store: id ↦ cells (capacity = number of cells) -/
  arrays : Nat → List Nat
  next : Nat
  objs : List HObj

def upd (f : Nat → List Nat) (a : Nat) (v : List Nat) : Nat → List Nat := fun b => if b = a then v else f b

def Heap.read (h : Heap) (s : Slice) : List Nat := (h.arrays s.arr).take s.len

/-- allocate a fresh array holding `xs` plus `spare` dead cells -/
def Heap.alloc (h : Heap) (xs : List Nat) (spare : Nat) : Heap × Slice :=
  ({ h with arrays := upd h.arrays h.next (xs ++ List.replicate spare 0), next := h.next + 1 }, ⟨h.next, xs.length⟩)

/-- Go `append(s, x)`: in place while there is capacity, else a new, larger array -/
def Heap.append (grow : Nat → Nat) (h : Heap) (s : Slice) (x : Nat) : Heap × Slice :=
  let cells := h.arrays s.arr
  if s.len < cells.length then
    ({ h with arrays := upd h.arrays s.arr (cells.set s.len x) }, { s with len := s.len + 1 })
  else
    h.alloc (cells.take s.len ++ [x]) (grow s.len)

/-- `cloneShallow`'s treatment of `tests`: a copy into a fresh array, or the same header -/
def Heap.clone (copies : Bool) (grow : Nat → Nat) (h : Heap) (s : Slice) : Heap × Slice :=
  if copies then h.alloc (h.read s) (grow s.len) else (h, s)

def Heap.step (copies : Bool) (grow : Nat → Nat) (h : Heap) : Op → Heap
  | .mk f =>
    let (h1, s) := h.alloc [] 0
    { h1 with objs := h1.objs ++ [⟨f, s⟩] }
  | .test i t =>
    match h.objs[i]? with
    | some o =>
      let (h1, s) := h.append grow o.tests t
      { h1 with objs := h1.objs.set i { o with tests := s } }
    | none => h
  | .pick i keys =>
    match h.objs[i]? with
    | some o =>
      let (h1, s) := h.clone copies grow o.tests
      { h1 with objs := h1.objs ++ [⟨fmPick o.fields keys, s⟩] }
    | none => h
  | .omitKeys i keys =>
    match h.objs[i]? with
    | some o =>
      let (h1, s) := h.clone copies grow o.tests
      { h1 with objs := h1.objs ++ [⟨fmOmit o.fields keys, s⟩] }
    | none => h
  | .extend i f =>
    match h.objs[i]? with
    | some o =>
      let (h1, s) := h.clone copies grow o.tests
      { h1 with objs := h1.objs ++ [⟨fmUnion o.fields f, s⟩] }
    | none => h
  | .merge a b =>
    match h.objs[a]?, h.objs[b]? with
    | some x, some y =>
      -- `make([]Test, 0)` then two appends: always a fresh array
      let (h1, s) := h.alloc (h.read x.tests ++ h.read y.tests) (grow (x.tests.len + y.tests.len))
      { h1 with objs := h1.objs ++ [⟨fmUnion x.fields y.fields, s⟩] }
    | _, _ => h

def Heap.init : Heap := ⟨fun _ => [], 0, []⟩

def Heap.run (copies : Bool) (grow : Nat → Nat) (ops : List Op) : Heap := ops.foldl (Heap.step copies grow) Heap.init

/-- what a schema object is observed to be: its fields and the tests it would run, in order -/
def Heap.abs (h : Heap) : Pure := h.objs.map (fun o => ⟨o.fields, h.read o.tests⟩)

end Helpers
end Zog
