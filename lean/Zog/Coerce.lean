import Zog.Basic
import Zog.Zero

/-!
# Coercers (conf/Coercers.go, numbers.go adapters)   — C03, C18

External functions are parameters (record `Ext`): `strconv.ParseFloat`, `strconv.ParseBool` is
modelled natively (its accepted forms are a fixed list), `time.Parse`, `fmt.Sprintf("%v")`,
and the hardware `float32(x)` / `float64(n)` conversions have executable models here
(`toF32`, `ofInt`) that the correspondence check validates against Go.
-/

namespace Zog

/-! ## exact arithmetic on `FVal` -/

def pow2 (n : Nat) : Int := (2 : Int) ^ n

/-- truncate toward zero -/
def FVal.trunc? : FVal → Option Int
  | .fin m e => some (if e ≥ 0 then m * pow2 e.toNat else Int.tdiv m (pow2 (-e).toNat))
  | .nzero => some 0
  | _ => none

def minInt64 : Int := -(pow2 63)
def maxInt64 : Int := pow2 63 - 1
def minInt32 : Int := -(pow2 31)
def maxInt32 : Int := pow2 31 - 1

/-- `x ≥ 2^63` for a finite dyadic -/
def FVal.geTwo63 : FVal → Bool
  | .fin m e => if e ≥ 0 then decide (m * pow2 e.toNat ≥ pow2 63) else decide (m ≥ pow2 63 * pow2 (-e).toNat)
  | .inf neg => !neg
  | _ => false

/-- `x < -2^63` -/
def FVal.ltNegTwo63 : FVal → Bool
  | .fin m e => if e ≥ 0 then decide (m * pow2 e.toNat < -(pow2 63)) else decide (m < -(pow2 63) * pow2 (-e).toNat)
  | .inf neg => neg
  | _ => false

/-! ## strconv.Atoi -/

def digitVal (c : Char) : Option Nat :=
  if '0' ≤ c ∧ c ≤ '9' then some (c.toNat - '0'.toNat) else none

def digitsVal : List Char → Nat → Option Nat
  | [], acc => some acc
  | c :: cs, acc => match digitVal c with
    | some d => digitsVal cs (acc * 10 + d)
    | none => none

/-- digits (at least one) with the sign applied, in the 64-bit range -/
def atoiBody (neg : Bool) (cs : List Char) : Option Int :=
  if cs.isEmpty then none else
  match digitsVal cs 0 with
  | none => none
  | some n =>
    let v : Int := if neg then -(n : Int) else (n : Int)
    if minInt64 ≤ v ∧ v ≤ maxInt64 then some v else none

/-- `strconv.Atoi` on a 64-bit platform: optional sign, one or more decimal digits, in range -/
def atoi (s : String) : Option Int :=
  match s.toList with
  | '+' :: cs => atoiBody false cs
  | '-' :: cs => atoiBody true cs
  | cs => atoiBody false cs

/-! ## float conversions (executable models of the hardware operations) -/

/-- number of bits of a natural -/
def bitLen (n : Nat) : Nat := if n = 0 then 0 else Nat.log2 n + 1

/-- round the positive dyadic `m * 2^e` (m > 0) to `p` significant bits with exponent floor `emin`
    (value = result.1 * 2^result.2), round-half-even -/
def roundPos (p : Nat) (emin : Int) (m : Nat) (e : Int) : Nat × Int :=
  let bl := bitLen m
  -- target exponent of the lsb
  let e' : Int := max (e + (bl : Int) - (p : Int)) emin
  if e' ≤ e then (m * (2 : Nat) ^ (e - e').toNat, e')
  else
    let sh := (e' - e).toNat
    let q := m / 2 ^ sh
    let r := m % 2 ^ sh
    let half := 2 ^ (sh - 1)
    let q' := if r > half || (r == half && q % 2 == 1) then q + 1 else q
    (q', e')

/-- normal form: odd mantissa (or 0 0) so that equal values are equal terms -/
def normFin (m : Int) (e : Int) : FVal :=
  if m == 0 then .fin 0 0 else
  let n := m.natAbs
  let tz : Nat := Id.run do
    let mut k : Nat := 0
    let mut x : Nat := n
    for _ in [0:bitLen n] do
      if x % 2 == 0 then x := x / 2; k := k + 1
    return k
  .fin (m / ((2 ^ tz : Nat) : Int)) (e + (tz : Int))

/-- `float32(x)` for a float64 `x` -/
def toF32 : FVal → FVal
  | .fin m e =>
    if m == 0 then .fin 0 0 else
    let r := roundPos 24 (-149) m.natAbs e
    -- overflow: ≥ 2^128
    if (r.1 : Int) * pow2 (r.2 + 149).toNat ≥ pow2 (128 + 149) then .inf (m < 0)
    else if r.1 == 0 then (if m < 0 then .nzero else .fin 0 0)
    else normFin (if m < 0 then -(r.1 : Int) else r.1) r.2
  | f => f

/-- `float64(n)` for an int -/
def ofInt (n : Int) : FVal :=
  if n == 0 then .fin 0 0 else
  let r := roundPos 53 (-1074) n.natAbs 0
  normFin (if n < 0 then -(r.1 : Int) else r.1) r.2

def FVal.isInf : FVal → Bool
  | .inf _ => true
  | _ => false

/-! ## the coercers -/

structure Ext where
  /-- `strconv.ParseFloat(s, 64)`; `none` = error (syntax or range) -/
  parseFloat : String → Option FVal
  /-- `time.Parse(layout, s)` ↦ (unix ns, utc?) -/
  parseTime : String → String → Option (Int × Bool)
  /-- `fmt.Sprintf("%v", v)` -/
  display : Val → String

/-- `conf.DefaultCoercers.Int` (result: a Go `int`) -/
def coerceInt : Val → Option Int
  | .int .int n => some n
  | .int .i64 n => some n
  | .int .i32 n => some n
  | .str s => atoi s
  | .f64 f =>
    match f with
    | .nan => none
    | _ => if f.geTwo63 || f.ltNegTwo63 then none else f.trunc?
  | .bool b => some (if b then 1 else 0)
  | _ => none

/-- `conf.DefaultCoercers.Float64` -/
def coerceF64 (ext : Ext) : Val → Option FVal
  | .int .int n => some (ofInt n)
  | .str s => ext.parseFloat s
  | .f64 f => some f
  | .f32 f => some f
  | _ => none

/-- the five numeric schema constructors' coercers -/
def coerceNum (ext : Ext) (k : NKind) (v : Val) : Option DVal :=
  match k with
  | .int => (coerceInt v).map (DVal.int .int)
  | .i64 => (coerceInt v).map (DVal.int .i64)
  | .i32 => (coerceInt v).bind (fun n => if n < minInt32 ∨ n > maxInt32 then none else some (DVal.int .i32 n))
  | .f64 => (coerceF64 ext v).map (DVal.flt .f64)
  | .f32 => (coerceF64 ext v).bind (fun x =>
      let y := toF32 x
      if y.isInf && !x.isInf then none else some (DVal.flt .f32 y))

/-- `strconv.ParseBool` accepted forms -/
def parseBool (s : String) : Option Bool :=
  if s == "1" || s == "t" || s == "T" || s == "TRUE" || s == "true" || s == "True" then some true
  else if s == "0" || s == "f" || s == "F" || s == "FALSE" || s == "false" || s == "False" then some false
  else none

/-- `conf.DefaultCoercers.Bool` -/
def coerceBool : Val → Option Bool
  | .bool b => some b
  | .str s => if s == "on" then some true else if s == "off" then some false else parseBool s
  | .int .int n => if n == 0 then some false else if n == 1 then some true else none
  | _ => none

/-- `conf.DefaultCoercers.String` -/
def coerceString (ext : Ext) : Val → String
  | .str s => s
  | v => ext.display v

/-- `conf.TimeCoercerFactory(format)`; `layout` names the format function -/
def coerceTime (ext : Ext) (layout : String) : Val → Option (Int × Bool)
  | .time ns utc => some (ns, utc)
  | .str s => ext.parseTime layout s
  | .int .int n => some (n * 1000000000, false)
  | .int .i64 n => some (n * 1000000000, false)
  | _ => none

/-- `conf.DefaultCoercers.Slice`: a slice is itself, anything else is boxed -/
def coerceSlice : Val → Option (List Val)
  | .list xs => some xs
  | .nil => none   -- unreachable from the engine (nil is absent); reflect.TypeOf(nil).Kind() would panic
  | v => some [v]

end Zog
