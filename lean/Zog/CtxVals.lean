import Zog.Pool

/-!
# Context values of an execution   — C12 ("Get returns exactly the values passed to this call")

`ExecCtx` objects are pooled. `NewExecCtx` takes one with whatever value map the previous execution
left in it; `WithCtxValue(k, v)` options call `Set` before the schema runs; callbacks call `Get`.
Whether the constructor resets the map is a regenerated fact (`m ∈ Gen.ctorAssigns NewExecCtx`).
Core-only.
-/

namespace Zog
namespace CtxVals

/-- the `m map[string]any` field: nil or a map (values are opaque strings here) -/
abbrev M := Option (List (String × String))

def get (m : M) (k : String) : Option String :=
  match m with
  | none => none
  | some l => (l.find? (fun kv => kv.1 == k)).map (·.2)

/-- `Set`: allocates the map if it is nil, then stores -/
def set (m : M) (k v : String) : M :=
  some ((k, v) :: (m.getD []).filter (fun kv => !(kv.1 == k)))

/-- `NewExecCtx` on a recycled object holding `dirt` -/
def newExecCtx (resetsM : Bool) (dirt : M) : M := if resetsM then none else dirt

/-- the context the callbacks of one execution see: constructor, then the options in order -/
def exec (resetsM : Bool) (dirt : M) (opts : List (String × String)) : M :=
  opts.foldl (fun m kv => set m kv.1 kv.2) (newExecCtx resetsM dirt)

/-- what THIS call passed for `k`: the last `WithCtxValue(k, ·)` among its options -/
def passed (opts : List (String × String)) (k : String) : Option String :=
  (opts.reverse.find? (fun kv => kv.1 == k)).map (·.2)

/-- a history of executions on ONE pooled object: each starts on what the previous one left -/
def history (resetsM : Bool) (dirt : M) : List (List (String × String)) → M
  | [] => dirt
  | opts :: rest => history resetsM (exec resetsM dirt opts) rest

theorem find_filter_ne (k k' : String) (hk : (k == k') = false) (l : List (String × String)) :
    (l.filter (fun kv => !(kv.1 == k))).find? (fun kv => kv.1 == k') = l.find? (fun kv => kv.1 == k') := by
  induction l with
  | nil => rfl
  | cons x xs ih =>
    rw [List.filter_cons]
    cases hx : (x.1 == k) with
    | true =>
      have hxk' : (x.1 == k') = false := by
        have := eq_of_beq hx
        rw [this]; exact hk
      simp only [Bool.not_true, Bool.false_eq_true, ↓reduceIte, List.find?_cons, hxk']
      exact ih
    | false =>
      simp only [Bool.not_false, ↓reduceIte, List.find?_cons]
      cases (x.1 == k') with
      | true => rfl
      | false => exact ih

theorem get_set (m : M) (k v k' : String) :
    get (set m k v) k' = if k == k' then some v else get m k' := by
  unfold set get
  cases hk : (k == k') with
  | true => simp [List.find?_cons, hk]
  | false =>
    simp only [List.find?_cons, hk, Bool.false_eq_true, ↓reduceIte]
    rw [find_filter_ne k k' hk]
    cases m with
    | none => rfl
    | some l => rfl

theorem get_foldl (opts : List (String × String)) (m : M) (k : String) :
    get (opts.foldl (fun m kv => set m kv.1 kv.2) m) k = (passed opts k).or (get m k) := by
  induction opts generalizing m with
  | nil => simp [passed]
  | cons o rest ih =>
    rw [List.foldl_cons, ih, get_set]
    unfold passed
    simp only [List.reverse_cons, List.find?_append]
    cases h : List.find? (fun kv => kv.1 == k) rest.reverse with
    | some x => simp
    | none =>
      by_cases ho : o.1 == k
      · simp [ho]
      · have : (o.1 == k) = false := by simpa using ho
        simp [this]

/-- **Exactly the values passed to this call.** When the constructor resets the map, a callback's
    `Get(k)` is the last value this call passed for `k`, or nil — for every key, every option list,
    and whatever ANY earlier execution left in the pooled object. -/
theorem get_exactly_passed (dirt : M) (opts : List (String × String)) (k : String) :
    get (exec true dirt opts) k = passed opts k := by
  unfold exec newExecCtx
  rw [get_foldl]
  simp [get]

/-- the same over histories: after any sequence of earlier executions on the same pooled object -/
theorem get_after_history (dirt : M) (earlier : List (List (String × String))) (opts : List (String × String)) (k : String) :
    get (exec true (history true dirt earlier) opts) k = passed opts k :=
  get_exactly_passed _ opts k

/-- without the reset the claim is false: a value of the previous execution shows through -/
theorem no_reset_leaks : get (exec false (history false none [[("k", "old")]]) []) "k" = some "old" := by decide

end CtxVals
end Zog
