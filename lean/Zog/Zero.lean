import Zog.Basic

/-!
# Absence: `IsParseZeroValue` (Parse) and `IsZeroValue` (Validate)   — C04(a)
-/

namespace Zog

/-- Go's `unicode.IsSpace` set (what `strings.TrimSpace` trims) -/
def isGoSpace (c : Char) : Bool :=
  let n := c.toNat
  n == 0x09 || n == 0x0A || n == 0x0B || n == 0x0C || n == 0x0D || n == 0x20 ||
  n == 0x85 || n == 0xA0 || n == 0x1680 || (0x2000 ≤ n && n ≤ 0x200A) ||
  n == 0x2028 || n == 0x2029 || n == 0x202F || n == 0x205F || n == 0x3000

/-- `strings.TrimSpace s == ""` -/
def isBlank (s : String) : Bool := s.toList.all isGoSpace

/-- internals.IsParseZeroValue -/
def isParseZero : Val → Bool
  | .nil => true
  | .str s => isBlank s
  | _ => false

/-- internals.IsZeroValue on the value a primitive / pointer node holds (reflect.Value.IsZero) -/
def isZeroD : DVal → Bool
  | .str s => s == ""
  | .int _ n => n == 0
  | .flt _ f => f == .fin 0 0 || f == .nzero   -- reflect.Value.IsZero: `v.Float() == 0`, so -0 is zero too
  | .bool b => b == false
  | .time ns utc => ns == zeroTimeNs && utc
  | .slice xs => xs.isEmpty
  | .ptr p => p.isNone
  | .struct _ => false
  | .custom _ => false

end Zog
