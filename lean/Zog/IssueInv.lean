import Zog.IssuePaths

/-!
# Issue invariants   — C11 (and a general tool)
Every issue an execution records is built by one of four constructors: `issueOfTest` (a failing
test, Required, NotNil), `coerceIssue`, `issueOfPostErr` (an error returned by a PostTransform or a
Preprocess function) and `preErrIssue`. A predicate that holds of whatever these constructors build
therefore holds of EVERY issue of EVERY execution — at every depth, for every schema and input.
-/

namespace Zog
namespace Spec
open Engine (Prov provOf orderOf zipIdx3)

/-- `P` holds of everything the four issue constructors can build under `env` -/
structure CtorInv (env : Env) (P : Issue → Prop) : Prop where
  test : ∀ (path dt : String) (t : Test), P (issueOfTest env path dt t)
  coerce : ∀ (path dt : String), P (coerceIssue env path dt)
  postErr : ∀ (path dt : String) (e : PostErr), P (issueOfPostErr env path dt e)
  preErr : ∀ (path dt msg : String), P (preErrIssue env path dt msg)

theorem testAll_inv (env : Env) (P : Issue → Prop) (h : CtorInv env P) (dt ps : String) :
    ∀ (tests : List Test) (x : DVal) (st : St), ExtendsP P st (testAll env dt ps tests x st)
  | [], _, st => ExtendsP.refl _ _
  | t :: ts, x, st => by
    unfold testAll
    have hl : ExtendsP P st (Spec.logIf t.cb st ⟨.test, t.id, ps, x⟩) := by
      by_cases hc : t.cb = true <;> simp [Spec.logIf, hc] <;> first | exact ExtendsP.refl _ _ | exact ExtendsP.logOnly _ _
    by_cases hp : t.pred x = true
    · simp only [hp, ↓reduceIte]
      exact hl.trans (testAll_inv env P h dt ps ts x _)
    · simp only [hp, Bool.false_eq_true, ↓reduceIte]
      exact (hl.trans (ExtendsP.emit _ _ (h.test ps dt t))).trans (testAll_inv env P h dt ps ts x _)

theorem tested_inv (env : Env) (P : Issue → Prop) (h : CtorInv env P) (dt ps : String) (ctch : Option DVal) (tests : List Test)
    (x : DVal) (st : St) : ExtendsP P st (tested env dt ps ctch tests x st).2 := by
  unfold tested
  cases ctch with
  | none => exact testAll_inv env P h dt ps tests x st
  | some c => exact ⟨[], by simp [testCatch_sink], by simp⟩

theorem primBody_inv (env : Env) (P : Issue → Prop) (h : CtorInv env P) (m : Mode) (p : Prim) (path : List String)
    (v : Val) (d : DVal) (st : St) : ExtendsP P st (primBody env m p path v d st).2 := by
  unfold primBody
  cases Engine.primAbsent m v d
  · simp only [Bool.false_eq_true, ↓reduceIte]
    cases m <;> simp only
    · cases p.coerce v with
      | none => cases p.ctch <;> first | exact ExtendsP.refl _ _ | exact ExtendsP.emit _ _ (h.coerce _ _)
      | some x => exact tested_inv env P h _ _ _ _ _ _
    · exact tested_inv env P h _ _ _ _ _ _
  · simp only [↓reduceIte]
    cases p.dflt with
    | some x => exact tested_inv env P h _ _ _ _ _ _
    | none =>
      cases p.required with
      | none => exact ExtendsP.refl _ _
      | some r => cases p.ctch <;> first | exact ExtendsP.refl _ _ | exact ExtendsP.emit _ _ (h.test _ _ r)

theorem postLoop_inv (env : Env) (P : Issue → Prop) (h : CtorInv env P) (dt ps : String) :
    ∀ (posts : List Post) (x : DVal) (st : St), ExtendsP P st (postLoop env dt ps posts x st).2
  | [], _, st => ExtendsP.refl _ _
  | p :: rest, x, st => by
    unfold postLoop
    rcases p.run x with ⟨x', e⟩
    cases e with
    | none => exact ExtendsP.trans (ExtendsP.logOnly _ _) (postLoop_inv env P h dt ps rest x' _)
    | some e => exact ExtendsP.trans (ExtendsP.logOnly _ _) (ExtendsP.emit _ _ (h.postErr _ _ e))

theorem runPosts_inv (env : Env) (P : Issue → Prop) (h : CtorInv env P) (dt ps : String) (posts : List Post) (o : Out) :
    ExtendsP P o.2 (runPosts env dt ps posts o).2 := by
  unfold runPosts
  split
  · exact postLoop_inv env P h dt ps posts _ _
  · exact ExtendsP.refl _ _

theorem sliceLoop_inv (child : Child) (path : List String) (P : Issue → Prop)
    (hc : ∀ p v d st, ExtendsP P st (child p v d st).2) :
    ∀ (xs : List (Val × DVal × Nat)) (ds : List DVal) (st : St), ExtendsP P st (sliceLoop child path xs ds st).2
  | [], _, st => ExtendsP.refl _ _
  | x :: rest, ds, st => by
    unfold sliceLoop
    exact (hc _ _ _ _).trans (sliceLoop_inv child path P hc rest _ _)

theorem fieldLoop_inv (step : String → DVal → St → Out) (P : Issue → Prop)
    (hs : ∀ k d st, ExtendsP P st (step k d st).2) :
    ∀ (ks : List String) (d : DVal) (st : St), ExtendsP P st (fieldLoop step ks d st).2
  | [], _, st => ExtendsP.refl _ _
  | k :: ks, d, st => by
    unfold fieldLoop
    exact (hs _ _ _).trans (fieldLoop_inv step P hs ks _ _)

mutual
/-- **Issue invariants lift to whole executions.** -/
theorem proc_inv (env : Env) (m : Mode) (P : Issue → Prop) (h : CtorInv env P) :
    ∀ (s : Schema) (tag : Option String) (path : List String) (v : Val) (d : DVal) (st : St),
      ExtendsP P st (proc env m s tag path v d st).2
  | .prim p, tag, path, v, d, st => by
    simp only [proc, prim]
    exact (primBody_inv env P h m p path v d st).trans (runPosts_inv env P h _ _ p.posts _)
  | .slice elem sm, tag, path, v, d, st => by
    unfold proc
    refine ExtendsP.trans ?_ (runPosts_inv env P h "slice" _ sm.posts _)
    have sl := fun xs ds st => sliceLoop_inv (proc env m elem none) path P
      (fun p v d st => proc_inv env m P h elem none p v d st) xs ds st
    cases m <;> simp only
    · by_cases ha : isParseZero v = true
      · simp only [ha, ↓reduceIte]
        cases sm.dfltIn with
        | some xs => exact (sl _ _ _).trans (testAll_inv env P h _ _ sm.tests _ _)
        | none => cases sm.required <;> first | exact ExtendsP.refl _ _ | exact ExtendsP.emit _ _ (h.test _ _ _)
      · simp only [ha, ↓reduceIte, Bool.false_eq_true]
        cases sm.coerce v with
        | none => exact ExtendsP.emit _ _ (h.coerce _ _)
        | some xs => exact (sl _ _ _).trans (testAll_inv env P h _ _ sm.tests _ _)
    · by_cases hce : d.elems.isEmpty = true
      · simp only [hce, ↓reduceIte]
        cases sm.dfltD with
        | some ds => exact (sl _ _ _).trans (testAll_inv env P h _ _ sm.tests _ _)
        | none => cases sm.required <;> first | exact ExtendsP.refl _ _ | exact ExtendsP.emit _ _ (h.test _ _ _)
      · simp only [hce, ↓reduceIte, Bool.false_eq_true]
        exact (sl _ _ _).trans (testAll_inv env P h _ _ sm.tests _ _)
  | .ptr elem zp nn, tag, path, v, d, st => by
    unfold proc
    cases Engine.ptrAbsent m v d
    · simp only [Bool.false_eq_true, ↓reduceIte]
      exact proc_inv env m P h elem tag path v _ st
    · simp only [↓reduceIte]
      cases nn <;> first | exact ExtendsP.refl _ _ | exact ExtendsP.emit _ _ (h.test _ _ _)
  | .struct fs tests posts, tag, path, v, d, st => by
    unfold proc
    refine ExtendsP.trans ?_ (runPosts_inv env P h "struct" _ posts _)
    have fl := fun prov ks d st => fieldLoop_inv
      (fun k d st => procKey env m fs k tag prov path d st) P
      (fun k d st => procKey_inv env m P h fs k tag prov path d st) ks d st
    cases m <;> simp only
    · cases Engine.provOf v with
      | none => exact ExtendsP.emit _ _ (h.coerce _ _)
      | some prov => exact (fl _ _ _ _).trans (testAll_inv env P h _ _ tests _ _)
    · exact (fl _ _ _ _).trans (testAll_inv env P h _ _ tests _ _)
  | .custom c, tag, path, v, d, st => by
    unfold proc
    cases m <;> simp only
    · cases c.accept v with
      | none => exact ExtendsP.emit _ _ (h.coerce _ _)
      | some x =>
        by_cases hp : c.test.pred x = true
        · simp only [hp, ↓reduceIte]; exact ExtendsP.logOnly _ _
        · simp only [hp, ↓reduceIte, Bool.false_eq_true]
          exact ExtendsP.trans (ExtendsP.logOnly _ _) (ExtendsP.emit _ _ (h.test _ _ _))
    · by_cases hp : c.test.pred d = true
      · simp only [hp, ↓reduceIte]; exact ExtendsP.logOnly _ _
      · simp only [hp, ↓reduceIte, Bool.false_eq_true]
        exact ExtendsP.trans (ExtendsP.logOnly _ _) (ExtendsP.emit _ _ (h.test _ _ _))
  | .pre ps inner, tag, path, v, d, st => by
    unfold proc
    cases m <;> simp only
    · cases ps.accept v
      · exact ExtendsP.emit _ _ (h.coerce _ _)
      · simp only [↓reduceIte]
        rcases ps.run v with ⟨v', e⟩
        cases e with
        | none => exact ExtendsP.trans (ExtendsP.logOnly _ _) (proc_inv env .parse P h inner tag path v' d _)
        | some e => exact ExtendsP.trans (ExtendsP.logOnly _ _) (ExtendsP.emit _ _ (h.postErr _ _ e))
    · rcases ps.runD d with ⟨d', e⟩
      cases e with
      | none => exact ExtendsP.trans (ExtendsP.logOnly _ _) (proc_inv env .validate P h inner tag path v d' _)
      | some e => exact ExtendsP.trans (ExtendsP.logOnly _ _) (ExtendsP.emit _ _ (h.preErr _ _ e))
theorem procKey_inv (env : Env) (m : Mode) (P : Issue → Prop) (h : CtorInv env P) :
    ∀ (fs : Fields) (key : String) (tag : Option String) (prov : Prov) (path : List String) (d : DVal) (st : St),
      ExtendsP P st (procKey env m fs key tag prov path d st).2
  | .nil, _, _, _, _, _, st => by unfold procKey; exact ExtendsP.refl _ _
  | .cons k fm s rest, key, tag, prov, path, d, st => by
    unfold procKey
    split
    · exact proc_inv env m P h s none _ _ _ st
    · exact procKey_inv env m P h rest key tag prov path d st
end

/-- every issue of an execution satisfies every constructor invariant -/
theorem run_inv (env : Env) (m : Mode) (P : Issue → Prop) (h : CtorInv env P) (s : Schema) (tag : Option String) (v : Val) (d : DVal) :
    ∀ i ∈ (run env m s tag v d).2.sink, P i := by
  obtain ⟨extra, h1, h2⟩ := proc_inv env m P h s tag [] v d {}
  intro i hi
  simp only [run] at hi
  rw [h1] at hi
  exact h2 i (by simpa using hi)

/-- a formatter that always produces a message -/
def FmtTotal (env : Env) : Prop := ∀ code dt params, env.fmt code dt params ≠ ""

/-- with a total formatter every constructor yields a non-empty message (its own if it has one,
    else the formatter's) -/
theorem message_ctorInv (env : Env) (hf : FmtTotal env) : CtorInv env (fun i => i.message ≠ "") where
  test := fun path dt t => by
    simp only [issueOfTest]
    by_cases h : t.msg = ""
    · simp only [h, bne_self_eq_false, Bool.false_eq_true, ↓reduceIte]; exact hf _ _ _
    · simp [h]
  coerce := fun path dt => by simp only [coerceIssue]; exact hf _ _ _
  postErr := fun path dt e => by
    cases e with
    | plain => simp only [issueOfPostErr]; exact hf _ _ _
    | issue i =>
      simp only [issueOfPostErr]
      by_cases h : i.message = ""
      · simp only [h, bne_self_eq_false, Bool.false_eq_true, ↓reduceIte]; exact hf _ _ _
      · simp [h]
  preErr := fun path dt msg => by
    simp only [preErrIssue]
    by_cases h : msg = ""
    · simp only [h, bne_self_eq_false, Bool.false_eq_true, ↓reduceIte]; exact hf _ _ _
    · simp [h]

end Spec
end Zog
