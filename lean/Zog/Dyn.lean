/-!
# Glue that can panic in Go   — C06
Every piece of glue between arbitrary input data and the engine that can panic in Go is modelled
with an explicit `panic` outcome; whether the guard that prevents it is present is a fact
regenerated from the source (`Gen.dynFacts`). Core-only.
-/

namespace Zog
namespace Dyn

structure Facts where
  /-- struct.go: the fixed-size key buffer is only used for keys that fit (or there is none) -/
  keyBufGuard : Bool
  /-- struct.process replaces a nil data provider (`{}`) before using it -/
  nilProvGuard : Bool
  /-- StructDataProvider checks CanInterface before reading a field -/
  unexportedGuard : Bool
  /-- PathBuilder.String does not index into an empty segment -/
  emptySegGuard : Bool
  /-- TryNewAnyDataProvider converts named map types instead of type-asserting them -/
  mapConvert : Bool
  /-- UnwrapPtr (Preprocess) stops at a nil pointer instead of dereferencing it -/
  unwrapNilGuard : Bool
  /-- StructDataProvider reads fields with FieldByIndexErr: a field promoted through a nil embedded
      pointer is absent -/
  embeddedNilGuard : Bool
  /-- zjson.Decode checks for a nil reader (a request built without a body) -/
  nilBodyGuard : Bool
deriving DecidableEq, Repr

inductive Outcome where
  | ok
  /-- reported as an issue -/
  | issue
  | panic (why : String)
deriving DecidableEq, Repr

def Outcome.isPanic : Outcome → Bool
  | .panic _ => true
  | _ => false

/-- upper-casing the first letter of a schema key through the 32-byte buffer -/
def upperFirst (f : Facts) (firstIsLower : Bool) (keyLen : Nat) : Outcome :=
  if firstIsLower && !(keyLen ≤ 32) && !f.keyBufGuard then .panic "slice bounds out of range (key buffer)" else .ok

/-- using the provider a factory returned (nil for `{}`) -/
def useProvider (f : Facts) (isNil : Bool) : Outcome :=
  if isNil && !f.nilProvGuard then .panic "nil data provider" else .ok

/-- reading a field of an input struct -/
def readStructField (f : Facts) (found exported : Bool) : Outcome :=
  if found && !exported && !f.unexportedGuard then .panic "Interface() on unexported field" else .ok

/-- rendering one path segment -/
def renderSegment (f : Facts) (segEmpty prevNonEmpty notFirst : Bool) : Outcome :=
  if notFirst && prevNonEmpty && segEmpty && !f.emptySegGuard then .panic "index out of range v[0]" else .ok

inductive ElemKind where
  | str | int | f64 | bool | iface | other
deriving DecidableEq, Repr

/-- a Go map type as `TryNewAnyDataProvider` sees it -/
structure MapDesc where
  named : Bool
  keyIsString : Bool
  elem : ElemKind
  elemNamed : Bool
deriving DecidableEq, Repr

/-- turning a map value into a data provider -/
def mapProvider (f : Facts) (m : MapDesc) : Outcome :=
  if !m.keyIsString then .issue
  else if m.elem == .other then .issue
  else if f.mapConvert then (if m.elemNamed then .issue else .ok)
  else if m.named || m.elemNamed then .panic "interface conversion (named map type)" else .ok

/-- every other dynamic kind: nil / typed nil pointer ↦ empty record; struct ↦ struct provider;
    pointer ↦ recurse; anything else ↦ an issue -/
inductive Kind where
  | nilValue | nilPtr | ptrTo (k : Kind) | struct_ | map_ (m : MapDesc) | scalar | chan_ | func_ | slice_
deriving Repr

def toProvider (f : Facts) : Kind → Outcome
  | .nilValue => .ok
  | .nilPtr => .ok
  | .ptrTo k => toProvider f k
  | .struct_ => .ok
  | .map_ m => mapProvider f m
  | .scalar => .issue
  | .chan_ => .issue
  | .func_ => .issue
  | .slice_ => .issue

/-- `Preprocess`: the function's result goes through `UnwrapPtr` before the wrapped schema sees it -/
def unwrapPtr (f : Facts) : Kind → Outcome
  | .nilPtr => if f.unwrapNilGuard then .ok else .panic "Interface() on the zero Value (nil pointer unwrapped)"
  | .ptrTo k => unwrapPtr f k
  | _ => .ok

/-- reading a field of an input struct that is promoted through an embedded pointer -/
def readPromotedField (f : Facts) (embeddedIsNil : Bool) : Outcome :=
  if embeddedIsNil && !f.embeddedNilGuard then .panic "indirection through nil pointer to embedded struct" else .ok

/-- decoding the body of a JSON request (`r.Body` is nil when the request was built without one) -/
def decodeBody (f : Facts) (bodyIsNil : Bool) : Outcome :=
  if bodyIsNil then (if f.nilBodyGuard then .issue else .panic "nil pointer dereference in the decoder") else .ok

def FactsOK (f : Facts) : Prop :=
  f.keyBufGuard = true ∧ f.nilProvGuard = true ∧ f.unexportedGuard = true ∧ f.emptySegGuard = true ∧ f.mapConvert = true ∧
  f.unwrapNilGuard = true ∧ f.embeddedNilGuard = true ∧ f.nilBodyGuard = true

instance (f : Facts) : Decidable (FactsOK f) := by unfold FactsOK; infer_instance

end Dyn
end Zog
