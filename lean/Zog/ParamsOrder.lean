import Zog.Msg

/-!
# The message does not depend on the order in which a Params map is enumerated   — C09, C11
`Params` is a Go map. `conf.NewDefaultFormatter` substitutes its entries in ascending key order
(`sortParams`), so the enumeration order of the map — any permutation of its entries — cannot show in
the message, even when a parameter's value contains another parameter's placeholder.
-/

namespace Zog

theorem eq_of_key_eq : ∀ (l : List (String × String)), (l.map (·.1)).Nodup →
    ∀ a b, a ∈ l → b ∈ l → a.1 = b.1 → a = b
  | [], _, _, _, ha, _, _ => by simp at ha
  | x :: xs, hn, a, b, ha, hb, hk => by
    simp only [List.map_cons, List.nodup_cons, List.mem_map, not_exists, not_and] at hn
    simp only [List.mem_cons] at ha hb
    rcases ha with rfl | ha <;> rcases hb with rfl | hb
    · rfl
    · exact absurd hk.symm (hn.1 b hb)
    · exact absurd hk (hn.1 a ha)
    · exact eq_of_key_eq xs hn.2 a b ha hb hk

/-- two enumerations of one map (permutations of each other, keys distinct) sort to the same list -/
theorem sortParams_perm (ps qs : List (String × String)) (h : ps.Perm qs)
    (hk : (ps.map (·.1)).Nodup) : sortParams ps = sortParams qs := by
  unfold sortParams
  have tr : ∀ a b c : String × String, decide (a.1 ≤ b.1) = true → decide (b.1 ≤ c.1) = true → decide (a.1 ≤ c.1) = true := by
    intro a b c h1 h2
    simp only [decide_eq_true_eq] at *
    exact String.le_trans h1 h2
  have tot : ∀ a b : String × String, (decide (a.1 ≤ b.1) || decide (b.1 ≤ a.1)) = true := by
    intro a b
    simp only [Bool.or_eq_true, decide_eq_true_eq]
    exact String.le_total a.1 b.1
  apply List.Perm.eq_of_pairwise (le := fun a b => decide (a.1 ≤ b.1))
  · intro a b ha hb h1 h2
    simp only [decide_eq_true_eq] at h1 h2
    have hkey : a.1 = b.1 := String.le_antisymm h1 h2
    have ha' : a ∈ ps := (List.mem_mergeSort).mp ha
    have hb' : b ∈ ps := h.symm.subset ((List.mem_mergeSort).mp hb)
    exact eq_of_key_eq ps hk a b ha' hb' hkey
  · exact List.pairwise_mergeSort tr tot ps
  · exact List.pairwise_mergeSort tr tot qs
  · exact (List.mergeSort_perm ps _).trans (h.trans (List.mergeSort_perm qs _).symm)

theorem substParams_perm (msg : String) (ps qs : List (String × String)) (h : ps.Perm qs)
    (hk : (ps.map (·.1)).Nodup) : substParams msg ps = substParams msg qs := by
  unfold substParams
  rw [sortParams_perm ps qs h hk]

/-- the default formatter's message is the same for every enumeration order of the issue's Params -/
theorem defaultFmt_perm (m : LangMap) (code dtype : String) (ps qs : List (String × String))
    (h : ps.Perm qs) (hk : (ps.map (·.1)).Nodup) :
    defaultFmt m code dtype ps = defaultFmt m code dtype qs := by
  unfold defaultFmt
  split
  · rfl
  · exact substParams_perm _ ps qs h hk

/- Without the sort the order matters: with Params {"min": "{{unit}}", "unit": "chars"} and the template
   "at least {{min}}", substituting min first gives "at least chars", unit first "at least {{unit}}"
   (defect D35 of the pinned tree; `String.replace` does not reduce in the kernel, so the witness is
   the demonstration test `TestD35_FormatterParamOrder`, not a `decide`). -/

end Zog
