import Zog.Clean

/-!
# "Success means valid" for every well-formed schema, PostTransforms included (helper for C01)
-/

namespace Zog
namespace Spec
open Engine (Prov provOf orderOf zipIdx3)

mutual
/-- every declared constraint held, at this node and below, on the value the node had WHEN ITS TESTS
    RAN (PostTransforms of the node itself run afterwards; those of its children before) -/
def ValidU (env : Env) (m : Mode) : Schema → Option String → List String → Val → DVal → Prop
  | .prim p, _, path, v, d => PrimSat m p v d (primBody env m p path v d {}).1
  | .custom c, _, _, v, d =>
    match m with
    | .validate => c.test.pred d = true
    | .parse => ∃ x, c.accept v = some x ∧ c.test.pred x = true
  | .ptr elem zp nn, tag, path, v, d =>
    if Engine.ptrAbsent m v d then nn = none
    else ValidU env m elem tag path v (d.pointee zp)
  | .pre ps inner, tag, path, v, d =>
    match m with
    | .parse => ps.accept v = true ∧ ∃ v', ps.run v = (v', none) ∧ ValidU env m inner tag path v' d
    | .validate => ∃ d', ps.runD d = (d', none) ∧ ValidU env m inner tag path v d'
  | .slice elem sm, _, path, v, d =>
    match sliceSrc m sm v d with
    | .skipped => True
    | .failed => False
    | .items ins ds =>
      (∀ x ∈ zipIdx3 ins ds 0, ValidU env m elem none (path ++ ["[" ++ toString x.2.2 ++ "]"]) x.1 x.2.1) ∧
      sm.tests.all (fun t => t.pred (sliceItems env m elem sm path ins ds {}).1) = true
  | .struct fs tests _, tag, path, v, d =>
    (match m with
     | .validate => ValidUFields env m tag .empty path d fs
     | .parse => ∃ prov, provOf v = some prov ∧ ValidUFields env m tag prov path d fs) ∧
    tests.all (fun t => t.pred (structBody env m fs tests tag path v d {}).1) = true
def ValidUFields (env : Env) (m : Mode) (tag : Option String) (prov : Prov) (path : List String) (d : DVal) : Fields → Prop
  | .nil => True
  | .cons k fm s rest =>
    ValidU env m s none (path ++ [fieldKeyOf m tag prov fm k]) (fieldInput m prov (fieldKeyOf m tag prov fm k)) (d.get fm.goName) ∧
    ValidUFields env m tag prov path d rest
end

theorem sliceLoop_children_clean (child : Child) (path : List String)
    (hc : ∀ p v d, CleanLocal (fun st => child p v d st))
    (hext : ∀ p v d st, Extends st (child p v d st).2) :
    ∀ (xs : List (Val × DVal × Nat)) (ds : List DVal), (sliceLoop child path xs ds {}).2.sink = [] →
      ∀ x ∈ xs, (child (path ++ ["[" ++ toString x.2.2 ++ "]"]) x.1 x.2.1 {}).2.sink = []
  | [], _, _, x, hx => by simp at hx
  | y :: rest, ds, h, x, hx => by
    simp only [sliceLoop] at h
    have hy : (child (path ++ ["[" ++ toString y.2.2 ++ "]"]) y.1 y.2.1 {}).2.sink = [] :=
      extends_clean (sliceLoop_extends child path hext rest _ _) h
    rcases List.mem_cons.mp hx with rfl | hx
    · exact hy
    · have hrest := ((sliceLoop_cleanLocal child path hc hext rest _).both _ hy (.inl h)).2
      exact sliceLoop_children_clean child path hc hext rest _ hrest x hx

theorem fieldLoop_children_clean (env : Env) (m : Mode) (fs : Fields) (tag : Option String) (prov : Prov) (path : List String)
    (hinj : fs.GoNamesInj) (d0 : DVal) :
    ∀ (ks : List String) (d : DVal), ks.Nodup →
      (∀ k ∈ ks, (fieldStep env m fs tag prov path k d).2 = (fieldStep env m fs tag prov path k d0).2) →
      (fieldLoop (fun k d st => procKey env m fs k tag prov path d st) ks d {}).2.sink = [] →
      ∀ k ∈ ks, (fieldStep env m fs tag prov path k d0).2.sink = []
  | [], _, _, _, _, k, hk => by simp at hk
  | a :: ks, d, hnd, hfr, h, k, hk => by
    simp only [fieldLoop] at h
    have ha : (procKey env m fs a tag prov path d {}).2.sink = [] :=
      extends_clean (fieldLoop_extends _ (fun k d st => procKey_extends env m fs k tag prov path d st) ks _ _) h
    have hrest := ((fieldLoop_cleanLocal (fun k d st => procKey env m fs k tag prov path d st)
      (fun k d => procKey_cleanLocal env m fs k tag prov path d)
      (fun k d st => procKey_extends env m fs k tag prov path d st) ks _).both _ ha (.inl h)).2
    rw [procKey_eq_fieldStep] at ha hrest
    obtain ⟨hna, hnd'⟩ := List.nodup_cons.mp hnd
    rcases List.mem_cons.mp hk with rfl | hk
    · rw [← hfr k List.mem_cons_self]; exact ha
    · refine fieldLoop_children_clean env m fs tag prov path hinj d0 ks _ hnd' ?_ hrest k hk
      intro b hb
      have hab : a ≠ b := fun e => hna (e ▸ hb)
      rw [(fieldStep_comm env m fs tag prov path hinj a b d hab).2]
      exact hfr b (List.mem_cons_of_mem _ hb)

end Spec
end Zog

namespace Zog
namespace Spec
open Engine (Prov provOf orderOf zipIdx3)

mutual
/-- **Success means valid, at every depth, for EVERY well-formed schema — PostTransforms included.** -/
theorem validU_of_clean (env : Env) (m : Mode) :
    ∀ (s : Schema), s.WF → ∀ (tag : Option String) (path : List String) (v : Val) (d : DVal),
      (proc env m s tag path v d {}).2.sink = [] → ValidU env m s tag path v d
  | .prim p, _, tag, path, v, d, h => by
    simp only [proc, prim] at h
    have hb := extends_clean (runPosts_extends env p.kind.dtype (render path) p.posts (primBody env m p path v d {})) h
    simp only [ValidU]
    exact primBody_sat env m p path v d {} hb
  | .custom c, _, tag, path, v, d, h => by
    unfold proc at h
    simp only [ValidU]
    cases m <;> simp only at h ⊢
    · cases hc : c.accept v with
      | none => simp [hc, emit] at h
      | some x =>
        simp only [hc] at h
        by_cases hp : c.test.pred x = true
        · exact ⟨x, rfl, hp⟩
        · simp [hp, emit] at h
    · by_cases hp : c.test.pred d = true
      · exact hp
      · simp [hp, emit] at h
  | .ptr elem zp nn, hw, tag, path, v, d, h => by
    simp only [Schema.WF] at hw
    unfold proc at h
    simp only [ValidU]
    cases ha : Engine.ptrAbsent m v d
    · simp only [ha, Bool.false_eq_true, ↓reduceIte] at h ⊢
      exact validU_of_clean env m elem hw tag path v (d.pointee zp) h
    · simp only [ha, ↓reduceIte] at h ⊢
      cases nn with
      | none => rfl
      | some t => simp [emit] at h
  | .pre ps inner, hw, tag, path, v, d, h => by
    simp only [Schema.WF] at hw
    unfold proc at h
    simp only [ValidU]
    cases m <;> simp only at h ⊢
    · cases ha : ps.accept v
      · simp [ha, emit] at h
      · simp only [ha, ↓reduceIte] at h
        rcases hr : ps.run v with ⟨v', e⟩
        cases e with
        | none =>
          simp only [hr] at h
          refine ⟨rfl, v', rfl, validU_of_clean env .parse inner hw tag path v' d ?_⟩
          exact ((proc_cleanLocal env .parse inner tag path v' d).both _ rfl (.inl h)).2
        | some e => simp [hr, emit] at h
    · rcases hr : ps.runD d with ⟨d', e⟩
      cases e with
      | none =>
        simp only [hr] at h
        refine ⟨d', rfl, validU_of_clean env .validate inner hw tag path v d' ?_⟩
        exact ((proc_cleanLocal env .validate inner tag path v d').both _ rfl (.inl h)).2
      | some e => simp [hr, emit] at h
  | .slice elem sm, hw, tag, path, v, d, h => by
    simp only [Schema.WF] at hw
    rw [proc_slice_eq] at h
    have hb := extends_clean (runPosts_extends env "slice" (render path) sm.posts _) h
    have items : ∀ (ins : List Val) (ds : List DVal), (sliceItems env m elem sm path ins ds {}).2.sink = [] →
        (∀ x ∈ zipIdx3 ins ds 0, ValidU env m elem none (path ++ ["[" ++ toString x.2.2 ++ "]"]) x.1 x.2.1) ∧
        sm.tests.all (fun t => t.pred (sliceItems env m elem sm path ins ds {}).1) = true := by
      intro ins ds hs
      simp only [sliceItems] at hs ⊢
      have hl : (sliceLoop (proc env m elem none) path (zipIdx3 ins ds 0) [] {}).2.sink = [] :=
        extends_clean (testAll_extends _ _ _ _ _ _) hs
      constructor
      · intro x hx
        exact validU_of_clean env m elem hw none _ x.1 x.2.1
          (sliceLoop_children_clean _ path (fun p v d => proc_cleanLocal env m elem none p v d)
            (fun p v d st => proc_extends env m elem none p v d st) _ [] hl x hx)
      · exact testAll_clean_all env "slice" (render path) sm.tests _ _ (by rw [hs, hl])
    simp only [ValidU, sliceSrc]
    unfold sliceBody at hb
    cases m <;> simp only at hb ⊢
    · by_cases ha : isParseZero v = true
      · simp only [ha, ↓reduceIte] at hb ⊢
        cases hdf : sm.dfltIn with
        | some xs => simp only [hdf] at hb ⊢; exact items xs _ hb
        | none =>
          simp only [hdf] at hb ⊢
          cases hr : sm.required with
          | none => simp
          | some r => simp [hr, emit] at hb
      · simp only [ha, Bool.false_eq_true, ↓reduceIte] at hb ⊢
        cases hco : sm.coerce v with
        | none => simp [hco, emit] at hb
        | some xs => simp only [hco] at hb ⊢; exact items xs _ hb
    · by_cases hce : d.elems.isEmpty = true
      · simp only [hce, ↓reduceIte] at hb ⊢
        cases hdf : sm.dfltD with
        | some ds => simp only [hdf] at hb ⊢; exact items _ ds hb
        | none =>
          simp only [hdf] at hb ⊢
          cases hr : sm.required with
          | none => simp
          | some r => simp [hr, emit] at hb
      · simp only [hce, Bool.false_eq_true, ↓reduceIte] at hb ⊢
        exact items _ _ hb
  | .struct fs tests posts, hw, tag, path, v, d, h => by
    simp only [Schema.WF] at hw
    obtain ⟨hkeys, hinj, hwf⟩ := hw
    rw [proc_struct_eq] at h
    have hb := extends_clean (runPosts_extends env "struct" (render path) posts _) h
    have fields : ∀ prov : Prov, (structFields env m fs tests tag prov path d {}).2.sink = [] →
        ValidUFields env m tag prov path d fs ∧
        tests.all (fun t => t.pred (structFields env m fs tests tag prov path d {}).1) = true := by
      intro prov hs
      simp only [structFields] at hs ⊢
      have hl : (fieldLoop (fun k d st => procKey env m fs k tag prov path d st) (orderOf (env.ω (render path)) fs.keys) d {}).2.sink = [] :=
        extends_clean (testAll_extends _ _ _ _ _ _) hs
      have hperm := orderOf_perm (env.ω (render path)) fs.keys
      have hclean := fieldLoop_children_clean env m fs tag prov path hinj d _ d (hperm.nodup_iff.mpr hkeys) (fun _ _ => rfl) hl
      constructor
      · exact validUFields_of_clean env m fs tag prov path d
          (fun k hk => hclean k (hperm.mem_iff.mpr hk)) .nil fs rfl hwf (by simpa [Fields.keys] using hkeys)
      · exact testAll_clean_all env "struct" (render path) tests _ _ (by rw [hs, hl])
    simp only [ValidU]
    unfold structBody at hb ⊢
    cases m <;> simp only at hb ⊢
    · cases hpv : provOf v with
      | none => simp [hpv, emit] at hb
      | some prov =>
        simp only [hpv] at hb ⊢
        have := fields prov hb
        exact ⟨⟨prov, rfl, this.1⟩, this.2⟩
    · exact fields .empty hb
theorem validUFields_of_clean (env : Env) (m : Mode) (fs : Fields) (tag : Option String) (prov : Prov) (path : List String) (d : DVal)
    (hclean : ∀ k ∈ fs.keys, (fieldStep env m fs tag prov path k d).2.sink = []) :
    ∀ (pre rest : Fields), fs = pre.append rest → rest.WF → (pre.keys ++ rest.keys).Nodup →
      ValidUFields env m tag prov path d rest
  | _, .nil, _, _, _ => by simp [ValidUFields]
  | pre, .cons k fm s rest, hfs, hw, hnd => by
    simp only [Fields.WF] at hw
    simp only [ValidUFields]
    have hk : k ∉ pre.keys := by
      simp only [Fields.keys] at hnd
      have := (List.nodup_append.mp hnd).2.2
      intro hmem
      exact this k hmem k List.mem_cons_self rfl
    have hfind : fs.find k = some (k, fm, s) := by rw [hfs]; exact find_of_split pre k fm s rest hk
    have hkin : k ∈ fs.keys := by rw [hfs, keys_append]; simp [Fields.keys]
    have hc := hclean k hkin
    unfold fieldStep at hc
    simp only [hfind] at hc
    constructor
    · apply validU_of_clean env m s hw.1 none
      cases m <;> exact hc
    · refine validUFields_of_clean env m fs tag prov path d hclean (snoc pre k fm s) rest ?_ hw.2 ?_
      · rw [hfs, snoc_append]
      · rw [snoc_keys]; simpa [Fields.keys, List.append_assoc] using hnd
end

end Spec
end Zog
