import Zog.Basic

/-!
# zhttp: source selection and `url.Values` lookup   — C15
The method / media-type tables are regenerated from `zhttp.Request`'s two `switch` statements
(`Zog.Gen.Facts`: `httpMethods`, `httpTypes`).
-/

namespace Zog
namespace Http

inductive Source where
  | query | json | form
deriving DecidableEq, Repr, Inhabited

/-- `strings.Cut(header, ";")`: the text before the first `;` -/
def mediaType (ct : List Char) : List Char := ct.takeWhile (· != ';')

def lookupC (tbl : List (List Char × Source)) (k : List Char) : Option Source :=
  match tbl with
  | [] => none
  | (k', v) :: rest => if k' = k then some v else lookupC rest k

/-- `zhttp.Request`: first the method table, else the media-type table, else the query string -/
def dispatch (methods types : List (List Char × Source)) (method ct : List Char) : Source :=
  match lookupC methods method with
  | some s => s
  | none => (lookupC types (mediaType ct)).getD .query

/-- `urlDataProvider.Get` -/
def urlGet (data : List (String × List String)) (key : String) : Val :=
  if key.length > 2 && key.endsWith "[]" then
    match lookupD data key with
    | some vs => .list (vs.map Val.str)
    | none => .nil
  else
    match lookupD data key with
    | some vs => if vs.length > 1 then .list (vs.map Val.str) else .str (vs.headD "")
    | none => .str ""

end Http
end Zog
