import Zog.Mono

/-!
# Every callback sees the path of the node it is attached to   — C12
`proc` at path `p` only logs callback events (tests, PostTransforms, custom functions, Preprocess
functions) whose path is the rendering of `p` extended by a chain of keys / slice positions: the
context handed to a callback names the callback's own node, at every depth, for every schema.
-/

namespace Zog
namespace Spec
open Engine (Prov provOf orderOf zipIdx3)

/-- `b` extends the log of `a` by events that all satisfy `P` -/
def LogExt (P : Event → Prop) (a b : St) : Prop := ∃ extra, b.log = a.log ++ extra ∧ ∀ e ∈ extra, P e

theorem LogExt.refl (P : Event → Prop) (a : St) : LogExt P a a := ⟨[], by simp, by simp⟩

theorem LogExt.trans {P : Event → Prop} {a b c : St} (h1 : LogExt P a b) (h2 : LogExt P b c) : LogExt P a c := by
  obtain ⟨e1, h1, p1⟩ := h1; obtain ⟨e2, h2, p2⟩ := h2
  refine ⟨e1 ++ e2, by rw [h2, h1, List.append_assoc], ?_⟩
  intro e he
  rcases List.mem_append.mp he with h | h
  · exact p1 e h
  · exact p2 e h

theorem LogExt.mono {P Q : Event → Prop} {a b : St} (h : LogExt P a b) (hpq : ∀ e, P e → Q e) : LogExt Q a b := by
  obtain ⟨e, h1, h2⟩ := h
  exact ⟨e, h1, fun x hx => hpq x (h2 x hx)⟩

theorem LogExt.emit {P : Event → Prop} (a : St) (i : Issue) : LogExt P a (emit a i) := ⟨[], by simp, by simp⟩

theorem LogExt.push {P : Event → Prop} (a : St) (e : Event) (h : P e) : LogExt P a { a with log := a.log ++ [e] } :=
  ⟨[e], rfl, by simpa using h⟩

theorem LogExt.logIf {P : Event → Prop} (c : Bool) (a : St) (e : Event) (h : P e) : LogExt P a (Spec.logIf c a e) := by
  cases c
  · exact LogExt.refl _ _
  · exact LogExt.push a e h

/-- the event belongs to a node at or below `root` -/
def EvBelow (root : List String) (e : Event) : Prop := ∃ suffix : List String, e.path = render (root ++ suffix)

theorem EvBelow.here (root : List String) (e : Event) (h : e.path = render root) : EvBelow root e := ⟨[], by simpa using h⟩

theorem EvBelow.lift (root : List String) (k : String) (e : Event) (h : EvBelow (root ++ [k]) e) : EvBelow root e := by
  obtain ⟨suffix, h⟩ := h
  exact ⟨k :: suffix, by simpa [List.append_assoc] using h⟩

theorem testAll_ev (env : Env) (dt : String) (path : List String) : ∀ (tests : List Test) (x : DVal) (st : St),
    LogExt (EvBelow path) st (testAll env dt (render path) tests x st)
  | [], _, st => LogExt.refl _ _
  | t :: ts, x, st => by
    unfold testAll
    have h1 : LogExt (EvBelow path) st (Spec.logIf t.cb st ⟨.test, t.id, render path, x⟩) :=
      LogExt.logIf _ _ _ (EvBelow.here _ _ rfl)
    by_cases hp : t.pred x = true
    · simp only [hp, ↓reduceIte]
      exact h1.trans (testAll_ev env dt path ts x _)
    · simp only [hp, Bool.false_eq_true, ↓reduceIte]
      exact (h1.trans (LogExt.emit _ _)).trans (testAll_ev env dt path ts x _)

theorem testCatch_ev (path : List String) (c : DVal) : ∀ (tests : List Test) (x : DVal) (st : St),
    LogExt (EvBelow path) st (testCatch (render path) c tests x st).2
  | [], _, st => LogExt.refl _ _
  | t :: ts, x, st => by
    unfold testCatch
    have h1 : LogExt (EvBelow path) st (Spec.logIf t.cb st ⟨.test, t.id, render path, x⟩) :=
      LogExt.logIf _ _ _ (EvBelow.here _ _ rfl)
    split
    · exact h1.trans (testCatch_ev path c ts x _)
    · exact h1

theorem tested_ev (env : Env) (dt : String) (path : List String) (ctch : Option DVal) (tests : List Test) (x : DVal) (st : St) :
    LogExt (EvBelow path) st (tested env dt (render path) ctch tests x st).2 := by
  unfold tested
  cases ctch with
  | none => exact testAll_ev env dt path tests x st
  | some c => exact testCatch_ev path c tests x st

theorem primBody_ev (env : Env) (m : Mode) (p : Prim) (path : List String) (v : Val) (d : DVal) (st : St) :
    LogExt (EvBelow path) st (primBody env m p path v d st).2 := by
  unfold primBody
  cases Engine.primAbsent m v d
  · simp only [Bool.false_eq_true, ↓reduceIte]
    cases m <;> simp only
    · cases p.coerce v with
      | none => cases p.ctch <;> first | exact LogExt.refl _ _ | exact LogExt.emit _ _
      | some x => exact tested_ev env _ path _ _ _ _
    · exact tested_ev env _ path _ _ _ _
  · simp only [↓reduceIte]
    cases p.dflt with
    | some x => exact tested_ev env _ path _ _ _ _
    | none =>
      cases p.required with
      | none => exact LogExt.refl _ _
      | some r => cases p.ctch <;> first | exact LogExt.refl _ _ | exact LogExt.emit _ _

theorem postLoop_ev (env : Env) (dt : String) (path : List String) : ∀ (posts : List Post) (x : DVal) (st : St),
    LogExt (EvBelow path) st (postLoop env dt (render path) posts x st).2
  | [], _, st => LogExt.refl _ _
  | p :: rest, x, st => by
    unfold postLoop
    have h1 : LogExt (EvBelow path) st { st with log := st.log ++ [⟨.post, p.id, render path, x⟩] } :=
      LogExt.push _ _ (EvBelow.here _ _ rfl)
    rcases p.run x with ⟨x', e⟩
    cases e with
    | none => exact h1.trans (postLoop_ev env dt path rest x' _)
    | some e => exact h1.trans (LogExt.emit _ _)

theorem runPosts_ev (env : Env) (dt : String) (path : List String) (posts : List Post) (o : Out) :
    LogExt (EvBelow path) o.2 (runPosts env dt (render path) posts o).2 := by
  unfold runPosts
  split
  · exact postLoop_ev env dt path posts _ _
  · exact LogExt.refl _ _

theorem sliceLoop_ev (child : Child) (path : List String)
    (hc : ∀ p v d st, LogExt (EvBelow p) st (child p v d st).2) :
    ∀ (xs : List (Val × DVal × Nat)) (ds : List DVal) (st : St), LogExt (EvBelow path) st (sliceLoop child path xs ds st).2
  | [], _, st => LogExt.refl _ _
  | x :: rest, ds, st => by
    unfold sliceLoop
    exact ((hc _ _ _ _).mono (fun e he => EvBelow.lift path _ e he)).trans (sliceLoop_ev child path hc rest _ _)

theorem fieldLoop_ev (step : String → DVal → St → Out) (path : List String)
    (hs : ∀ k d st, LogExt (EvBelow path) st (step k d st).2) :
    ∀ (ks : List String) (d : DVal) (st : St), LogExt (EvBelow path) st (fieldLoop step ks d st).2
  | [], _, st => LogExt.refl _ _
  | k :: ks, d, st => by
    unfold fieldLoop
    exact (hs _ _ _).trans (fieldLoop_ev step path hs ks _ _)

mutual
/-- **Every callback sees the path of its own node, at every depth, for every schema.** -/
theorem proc_ev (env : Env) (m : Mode) :
    ∀ (s : Schema) (tag : Option String) (path : List String) (v : Val) (d : DVal) (st : St),
      LogExt (EvBelow path) st (proc env m s tag path v d st).2
  | .prim p, tag, path, v, d, st => by
    simp only [proc, prim]
    exact (primBody_ev env m p path v d st).trans (runPosts_ev env _ path p.posts _)
  | .slice elem sm, tag, path, v, d, st => by
    unfold proc
    refine LogExt.trans ?_ (runPosts_ev env "slice" path sm.posts _)
    have sl := fun xs ds st => sliceLoop_ev (proc env m elem none) path
      (fun p v d st => proc_ev env m elem none p v d st) xs ds st
    cases m <;> simp only
    · by_cases ha : isParseZero v = true
      · simp only [ha, ↓reduceIte]
        cases sm.dfltIn with
        | some xs => exact (sl _ _ _).trans (testAll_ev env "slice" path sm.tests _ _)
        | none => cases sm.required <;> first | exact LogExt.refl _ _ | exact LogExt.emit _ _
      · simp only [ha, ↓reduceIte, Bool.false_eq_true]
        cases sm.coerce v with
        | none => exact LogExt.emit _ _
        | some xs => exact (sl _ _ _).trans (testAll_ev env "slice" path sm.tests _ _)
    · by_cases hce : d.elems.isEmpty = true
      · simp only [hce, ↓reduceIte]
        cases sm.dfltD with
        | some ds => exact (sl _ _ _).trans (testAll_ev env "slice" path sm.tests _ _)
        | none => cases sm.required <;> first | exact LogExt.refl _ _ | exact LogExt.emit _ _
      · simp only [hce, ↓reduceIte, Bool.false_eq_true]
        exact (sl _ _ _).trans (testAll_ev env "slice" path sm.tests _ _)
  | .ptr elem zp nn, tag, path, v, d, st => by
    unfold proc
    cases Engine.ptrAbsent m v d
    · simp only [Bool.false_eq_true, ↓reduceIte]
      exact proc_ev env m elem tag path v _ st
    · simp only [↓reduceIte]
      cases nn <;> first | exact LogExt.refl _ _ | exact LogExt.emit _ _
  | .struct fs tests posts, tag, path, v, d, st => by
    unfold proc
    refine LogExt.trans ?_ (runPosts_ev env "struct" path posts _)
    have fl := fun prov ks d st => fieldLoop_ev
      (fun k d st => procKey env m fs k tag prov path d st) path
      (fun k d st => procKey_ev env m fs k tag prov path d st) ks d st
    cases m <;> simp only
    · cases Engine.provOf v with
      | none => exact LogExt.emit _ _
      | some prov => exact (fl _ _ _ _).trans (testAll_ev env "struct" path tests _ _)
    · exact (fl _ _ _ _).trans (testAll_ev env "struct" path tests _ _)
  | .custom c, tag, path, v, d, st => by
    unfold proc
    cases m <;> simp only
    · cases c.accept v with
      | none => exact LogExt.emit _ _
      | some x =>
        have h1 : LogExt (EvBelow path) st { st with log := st.log ++ [⟨.custom, c.test.id, render path, x⟩] } :=
          LogExt.push _ _ (EvBelow.here _ _ rfl)
        by_cases hp : c.test.pred x = true
        · simp only [hp, ↓reduceIte]; exact h1
        · simp only [hp, ↓reduceIte, Bool.false_eq_true]; exact h1.trans (LogExt.emit _ _)
    · have h1 : LogExt (EvBelow path) st { st with log := st.log ++ [⟨.custom, c.test.id, render path, d⟩] } :=
        LogExt.push _ _ (EvBelow.here _ _ rfl)
      by_cases hp : c.test.pred d = true
      · simp only [hp, ↓reduceIte]; exact h1
      · simp only [hp, ↓reduceIte, Bool.false_eq_true]; exact h1.trans (LogExt.emit _ _)
  | .pre ps inner, tag, path, v, d, st => by
    unfold proc
    cases m <;> simp only
    · cases ps.accept v
      · exact LogExt.emit _ _
      · simp only [↓reduceIte]
        have h1 : LogExt (EvBelow path) st { st with log := st.log ++ [⟨.pre, ps.id, render path, .custom v⟩] } :=
          LogExt.push _ _ (EvBelow.here _ _ rfl)
        rcases ps.run v with ⟨v', e⟩
        cases e with
        | none => exact h1.trans (proc_ev env .parse inner tag path v' d _)
        | some e => exact h1.trans (LogExt.emit _ _)
    · have h1 : LogExt (EvBelow path) st { st with log := st.log ++ [⟨.pre, ps.id, render path, d⟩] } :=
        LogExt.push _ _ (EvBelow.here _ _ rfl)
      rcases ps.runD d with ⟨d', e⟩
      cases e with
      | none => exact h1.trans (proc_ev env .validate inner tag path v d' _)
      | some e => exact h1.trans (LogExt.emit _ _)
theorem procKey_ev (env : Env) (m : Mode) :
    ∀ (fs : Fields) (key : String) (tag : Option String) (prov : Prov) (path : List String) (d : DVal) (st : St),
      LogExt (EvBelow path) st (procKey env m fs key tag prov path d st).2
  | .nil, _, _, _, _, _, st => by unfold procKey; exact LogExt.refl _ _
  | .cons k fm s rest, key, tag, prov, path, d, st => by
    unfold procKey
    split
    · exact (proc_ev env m s none _ _ _ st).mono (fun e he => EvBelow.lift path _ e he)
    · exact procKey_ev env m rest key tag prov path d st
end

end Spec
end Zog
