import Zog.Schema

/-!
# Builder state machines   — C17
`StringSchema`'s fluent builder with its `isNot` flag, and the modifier setters common to every
primitive schema.  A chain of calls is folded into the schema value the engine runs.
-/

namespace Zog
namespace Builder

/-- `zconst.NotIssueCode`: flips the `not_` prefix -/
def notCode (c : String) : String :=
  if c.startsWith "not_" then (c.drop 4).toString else "not_" ++ c

/-- a builder call on a primitive schema -/
inductive Call where
  /-- `.Not()` -/
  | not
  /-- a built-in test method that goes through `addTest` (negatable): the test as the method builds
      it, and the effect of the options passed to that call (applied AFTER a pending negation) -/
  | test (t : Test) (opts : Test → Test)
  /-- `.TestFunc(...)` / `.Test(...)`: appended as is, does not look at `isNot` -/
  | testFunc (t : Test)
  | required (r : Test)
  | optional
  | default (d : DVal)
  | catch_ (d : DVal)
  | post (p : Post)

structure State where
  tests : List Test := []
  posts : List Post := []
  required : Option Test := none
  dflt : Option DVal := none
  ctch : Option DVal := none
  isNot : Bool := false

def negate (t : Test) : Test := { t with code := notCode t.code, pred := fun d => !t.pred d }

/-- one builder call (string.go `addTest`, `Not`, and the modifier setters) -/
def step (s : State) : Call → State
  | .not => { s with isNot := true }
  | .test t opts => if s.isNot then { s with tests := s.tests ++ [opts (negate t)], isNot := false }
                    else { s with tests := s.tests ++ [opts t] }
  | .testFunc t => { s with tests := s.tests ++ [t] }
  | .required r => { s with required := some r }
  | .optional => { s with required := none }
  | .default d => { s with dflt := some d }
  | .catch_ d => { s with ctch := some d }
  | .post p => { s with posts := s.posts ++ [p] }

def run (calls : List Call) (s : State := {}) : State := calls.foldl step s

/-- the schema value a chain builds -/
def toPrim (kind : PKind) (coerce : Val → Option DVal) (s : State) : Prim :=
  { kind, tests := s.tests, posts := s.posts, required := s.required, dflt := s.dflt, ctch := s.ctch, coerce }

end Builder
end Zog
