/-!
# A backtracking semantics for the regular expressions zog ships   — C20
`Re` is the fragment of RE2 syntax the two shipped patterns (`uuidRegex`, `emailRegex`) use;
`Re.run` gives, for a position in a text (previous character + remaining input), every position a
match of the expression can end at. `Re.search` is `regexp.MatchString` (a match anywhere).
The patterns themselves are REGENERATED from string.go into `Zog.Gen.Regex`. Core-only.
-/

namespace Zog
namespace Rx

inductive Re where
  | eps
  /-- character class as inclusive rune ranges -/
  | cls (rs : List (Nat × Nat))
  | cat (a b : Re)
  | alt (a b : Re)
  /-- `a{lo,hi}`; `hi = none`: unbounded -/
  | rep (a : Re) (lo : Nat) (hi : Option Nat)
  /-- `\b` -/
  | wordB
  /-- `^` and `$` without the multi-line flag: beginning / end of the text -/
  | bot
  | eot
deriving Repr

/-- a position: the previous character (none at the beginning of the text) and what is left -/
abbrev Pos := Option Char × List Char

def inRanges (rs : List (Nat × Nat)) (c : Char) : Bool := rs.any (fun r => r.1 ≤ c.toNat && c.toNat ≤ r.2)

/-- RE2's `\w`: ASCII letters, digits, underscore -/
def isWordChar (c : Char) : Bool := inRanges [(48, 57), (65, 90), (95, 95), (97, 122)] c

def atBoundary (p : Pos) : Bool :=
  (p.1.map isWordChar).getD false != (p.2.head?.map isWordChar).getD false

/-- between `lo` and `hi` iterations of `f` -/
def repN (f : Pos → List Pos) : Nat → Nat → Pos → List Pos
  | lo, 0, p => if lo = 0 then [p] else []
  | lo, hi + 1, p => (if lo = 0 then [p] else []) ++ (f p).flatMap (repN f (lo - 1) hi)

/-- every position a match of the expression starting at `p` can end at -/
def Re.run : Re → Pos → List Pos
  | .eps, p => [p]
  | .cls _, (_, []) => []
  | .cls rs, (_, x :: xs) => if inRanges rs x then [(some x, xs)] else []
  | .cat a b, p => (a.run p).flatMap b.run
  | .alt a b, p => a.run p ++ b.run p
  | .rep a lo hi, p => repN a.run lo (hi.getD (lo + p.2.length)) p
  | .wordB, p => if atBoundary p then [p] else []
  | .bot, p => if p.1.isNone then [p] else []
  | .eot, p => if p.2.isEmpty then [p] else []

/-- all positions of a text -/
def positions : Option Char → List Char → List Pos
  | prev, [] => [(prev, [])]
  | prev, c :: cs => (prev, c :: cs) :: positions (some c) cs

/-- `regexp.MatchString`: the expression matches somewhere in the text -/
def Re.search (r : Re) (cs : List Char) : Bool := (positions none cs).any (fun p => !(r.run p).isEmpty)

/-! ## exactly `n` characters of a class -/

/-- consume exactly `n` characters satisfying `p` -/
def takeN (p : Char → Bool) : Nat → Pos → Option Pos
  | 0, pos => some pos
  | _ + 1, (_, []) => none
  | n + 1, (_, c :: cs) => if p c then takeN p n (some c, cs) else none

theorem repN_cls_exact (rs : List (Nat × Nat)) : ∀ (n : Nat) (pos : Pos),
    repN (Re.cls rs).run n n pos = (takeN (inRanges rs) n pos).toList
  | 0, pos => by simp [repN, takeN]
  | n + 1, (prev, []) => by simp [repN, takeN, Re.run]
  | n + 1, (prev, c :: cs) => by
    simp only [repN, Nat.add_one_ne_zero, ↓reduceIte, List.nil_append, Nat.add_sub_cancel, Re.run, takeN]
    by_cases h : inRanges rs c = true
    · simp [h, repN_cls_exact rs n (some c, cs)]
    · simp [h]

end Rx
end Zog

namespace Zog
namespace Rx

deriving instance DecidableEq for Re

/-! ## `^ H{n1} \b - H{n2} \b - … H{nk} $` is the grammar "n1 hex, '-', n2 hex, '-', …, nk hex" -/

def hexRanges : List (Nat × Nat) := [(48, 57), (65, 70), (97, 102)]
def dashRanges : List (Nat × Nat) := [(45, 45)]

/-- `H{n1}\b-H{n2}\b-…H{nk}$` -/
def chainRe (cls : List (Nat × Nat)) : List Nat → Re
  | [] => .eot
  | [n] => .cat (.rep (.cls cls) n (some n)) .eot
  | n :: m :: ns => .cat (.rep (.cls cls) n (some n)) (.cat .wordB (.cat (.cls dashRanges) (chainRe cls (m :: ns))))

/-- the grammar: `n1` characters of the class, a dash, `n2` characters, …, end of text -/
def segs (p : Char → Bool) : List Nat → Pos → Bool
  | [], pos => pos.2.isEmpty
  | [n], pos => match takeN p n pos with
    | some (_, []) => true
    | _ => false
  | n :: m :: ns, pos => match takeN p n pos with
    | some (_, '-' :: r) => segs p (m :: ns) (some '-', r)
    | _ => false

theorem takeN_prev (p : Char → Bool) : ∀ (n : Nat) (pos q : Pos), 0 < n → takeN p n pos = some q → ∃ c, q.1 = some c ∧ p c = true
  | 0, _, _, h, _ => by omega
  | n + 1, (_, []), q, _, h => by simp [takeN] at h
  | n + 1, (_, c :: cs), q, _, h => by
    simp only [takeN] at h
    by_cases hc : p c = true
    · simp only [hc, ↓reduceIte] at h
      cases n with
      | zero =>
        simp only [takeN, Option.some.injEq] at h
        exact ⟨c, by rw [← h], hc⟩
      | succ k => exact takeN_prev p (k + 1) _ q (by omega) h
    · simp [hc] at h

theorem hex_is_word (c : Char) (h : inRanges hexRanges c = true) : isWordChar c = true := by
  simp only [inRanges, hexRanges, List.any_cons, List.any_nil, Bool.or_false, Bool.or_eq_true, Bool.and_eq_true,
    decide_eq_true_eq] at h
  simp only [isWordChar, inRanges, List.any_cons, List.any_nil, Bool.or_false, Bool.or_eq_true, Bool.and_eq_true,
    decide_eq_true_eq]
  omega

theorem dash_not_word : isWordChar '-' = false := by decide
theorem dash_in_dash : inRanges dashRanges '-' = true := by decide

theorem dash_only (c : Char) (h : inRanges dashRanges c = true) : c = '-' := by
  simp only [inRanges, dashRanges, List.any_cons, List.any_nil, Bool.or_false, Bool.and_eq_true, decide_eq_true_eq] at h
  apply Char.ext
  apply UInt32.toNat_inj.mp
  show c.toNat = 45
  omega

/-- the chain expression matches from a position iff the grammar accepts from that position -/
theorem chain_run (ns : List Nat) (hpos : ∀ n ∈ ns, 0 < n) : ∀ (pos : Pos),
    (!((chainRe hexRanges ns).run pos).isEmpty) = segs (inRanges hexRanges) ns pos := by
  induction ns with
  | nil => intro pos; simp only [chainRe, Re.run, segs]; split <;> simp_all
  | cons n rest ih =>
    intro pos
    cases rest with
    | nil =>
      simp only [chainRe, Re.run, Option.getD_some, repN_cls_exact, segs]
      cases h : takeN (inRanges hexRanges) n pos with
      | none => simp
      | some q =>
        obtain ⟨prev, r⟩ := q
        cases r <;> simp
    | cons m ms =>
      have ih' := ih (fun k hk => hpos k (List.mem_cons_of_mem _ hk))
      simp only [chainRe, Re.run, Option.getD_some, repN_cls_exact, segs]
      cases h : takeN (inRanges hexRanges) n pos with
      | none => simp
      | some q =>
        obtain ⟨c, hc1, hc2⟩ := takeN_prev _ n pos q (hpos n List.mem_cons_self) h
        obtain ⟨prev, r⟩ := q
        simp only at hc1
        subst hc1
        simp only [Option.toList_some, List.flatMap_cons, List.flatMap_nil, List.append_nil]
        cases r with
        | nil => simp [Re.run]
        | cons x xs =>
          by_cases hx : x = '-'
          · subst hx
            have hb : atBoundary (some c, '-' :: xs) = true := by
              simp [atBoundary, hex_is_word c hc2, dash_not_word]
            simp only [hb, ↓reduceIte, List.flatMap_cons, List.flatMap_nil, List.append_nil, Re.run, dash_in_dash]
            exact ih' (some '-', xs)
          · have hnd : inRanges dashRanges x = false := by
              cases hd : inRanges dashRanges x
              · rfl
              · exact absurd (dash_only x hd) hx
            have : ∀ (l : List Pos), (l.flatMap fun p => (Re.cat (Re.cls dashRanges) (chainRe hexRanges (m :: ms))).run p) = [] → True := fun _ _ => trivial
            by_cases hb : atBoundary (some c, x :: xs) = true
            · simp [hb, Re.run, hnd]
              split <;> simp_all
            · simp [hb]
              split <;> simp_all

end Rx
end Zog

namespace Zog
namespace Rx

theorem positions_some (c : Char) : ∀ (cs : List Char) (p : Pos), p ∈ positions (some c) cs → p.1.isSome = true
  | [], p, h => by simp [positions] at h; simp [h]
  | x :: xs, p, h => by
    simp only [positions, List.mem_cons] at h
    rcases h with rfl | h
    · rfl
    · exact positions_some x xs p h

/-- an expression that begins with `^` can only match at the beginning of the text -/
theorem search_bot (r : Re) (cs : List Char) : (Re.cat .bot r).search cs = !(r.run (none, cs)).isEmpty := by
  have hz : ∀ p : Pos, p.1.isSome = true → (Re.cat .bot r).run p = [] := by
    intro p hp
    obtain ⟨prev, rest⟩ := p
    cases prev with
    | none => simp at hp
    | some c => simp [Re.run]
  have h0 : (Re.cat .bot r).run (none, cs) = r.run (none, cs) := by simp [Re.run]
  unfold Re.search
  cases cs with
  | nil => simp [positions, h0]
  | cons c rest =>
    simp only [positions, List.any_cons, h0]
    have : (positions (some c) rest).any (fun p => !((Re.cat .bot r).run p).isEmpty) = false := by
      rw [List.any_eq_false]
      intro p hp
      simp [hz p (positions_some c rest p hp)]
    simp [this]

/-- the UUID grammar: 8-4-4-4-12 hexadecimal digits separated by dashes, nothing else -/
def uuidGrammar (cs : List Char) : Bool := segs (inRanges hexRanges) [8, 4, 4, 4, 12] (none, cs)

/-- **`^H{8}\b-H{4}\b-H{4}\b-H{4}\b-H{12}$` decides exactly the UUID grammar**, on every text -/
theorem uuid_regex_is_grammar (cs : List Char) :
    (Re.cat .bot (chainRe hexRanges [8, 4, 4, 4, 12])).search cs = uuidGrammar cs := by
  rw [search_bot, chain_run _ (by decide)]
  rfl

end Rx
end Zog

/-!
## Word semantics
For expressions without assertions (`\b`, `^`, `$`) a match does not depend on the context: the
positions `run` reaches are exactly those obtained by consuming a word of the expression's language.
-/

namespace Zog
namespace Rx

/-- concatenation of a list of words -/
def joinW : List (List Char) → List Char
  | [] => []
  | w :: ws => w ++ joinW ws

/-- the language of an assertion-free expression (assertions denote the empty language here;
    `NoAssert` excludes them) -/
def Wd : Re → List Char → Prop
  | .eps, w => w = []
  | .cls rs, w => ∃ x, w = [x] ∧ inRanges rs x = true
  | .cat a b, w => ∃ u v, w = u ++ v ∧ Wd a u ∧ Wd b v
  | .alt a b, w => Wd a w ∨ Wd b w
  | .rep a lo hi, w => ∃ ws : List (List Char), lo ≤ ws.length ∧ (∀ h, hi = some h → ws.length ≤ h) ∧
      w = joinW ws ∧ ∀ u ∈ ws, Wd a u
  | .wordB, _ => False
  | .bot, _ => False
  | .eot, _ => False

/-- no assertion, and every repeated sub-expression consumes at least one character per iteration -/
def NoAssert : Re → Prop
  | .eps => True
  | .cls _ => True
  | .cat a b => NoAssert a ∧ NoAssert b
  | .alt a b => NoAssert a ∧ NoAssert b
  | .rep a _ _ => NoAssert a ∧ ∀ w, Wd a w → w ≠ []
  | .wordB => False
  | .bot => False
  | .eot => False

/-- `rest` is reachable from `cs` -/
def Reach (r : Re) (prev : Option Char) (cs rest : List Char) : Prop := ∃ pv, (pv, rest) ∈ r.run (prev, cs)

/-- the iteration relation behind `repN` -/
inductive Iter (f : Pos → List Pos) : Nat → Pos → Pos → Prop
  | zero (p : Pos) : Iter f 0 p p
  | succ {n : Nat} {p m q : Pos} : m ∈ f p → Iter f n m q → Iter f (n + 1) p q

theorem mem_repN (f : Pos → List Pos) : ∀ (hi lo : Nat) (p q : Pos),
    q ∈ repN f lo hi p ↔ ∃ n, lo ≤ n ∧ n ≤ hi ∧ Iter f n p q
  | 0, lo, p, q => by
    simp only [repN]
    constructor
    · intro h
      split at h
      · rename_i h0
        simp only [List.mem_singleton] at h
        subst h; subst h0
        exact ⟨0, Nat.le_refl _, Nat.le_refl _, .zero _⟩
      · simp at h
    · rintro ⟨n, h1, h2, hi⟩
      have : n = 0 := by omega
      subst this
      have : lo = 0 := by omega
      subst this
      cases hi
      simp
  | hi + 1, lo, p, q => by
    simp only [repN, List.mem_append, List.mem_flatMap]
    constructor
    · rintro (h | ⟨m, hm, hq⟩)
      · split at h
        · rename_i h0
          simp only [List.mem_singleton] at h
          subst h; subst h0
          exact ⟨0, Nat.le_refl _, Nat.zero_le _, .zero _⟩
        · simp at h
      · obtain ⟨n, h1, h2, hit⟩ := (mem_repN f hi (lo - 1) m q).mp hq
        exact ⟨n + 1, by omega, by omega, .succ hm hit⟩
    · rintro ⟨n, h1, h2, hit⟩
      cases hit with
      | zero =>
        left
        have : lo = 0 := by omega
        simp [this]
      | succ hm hit' =>
        right
        rename_i n' m
        exact ⟨m, hm, (mem_repN f hi (lo - 1) m q).mpr ⟨n', by omega, by omega, hit'⟩⟩

end Rx
end Zog

namespace Zog
namespace Rx

theorem joinW_length_ge (ws : List (List Char)) (h : ∀ u ∈ ws, u ≠ []) : ws.length ≤ (joinW ws).length := by
  induction ws with
  | nil => simp [joinW]
  | cons w ws ih =>
    have hw : w ≠ [] := h w List.mem_cons_self
    have := ih (fun u hu => h u (List.mem_cons_of_mem _ hu))
    have hl : 0 < w.length := List.length_pos_iff.mpr hw
    simp only [joinW, List.length_cons, List.length_append]
    omega

/-- `n` iterations of an expression whose single matches are word-consumptions consume `n` words -/
theorem iter_words (a : Re)
    (iha : ∀ prev cs rest, Reach a prev cs rest ↔ ∃ w, cs = w ++ rest ∧ Wd a w) :
    ∀ (n : Nat) (prev : Option Char) (cs rest : List Char),
      (∃ pv, Iter a.run n (prev, cs) (pv, rest)) ↔
      ∃ ws : List (List Char), ws.length = n ∧ cs = joinW ws ++ rest ∧ ∀ u ∈ ws, Wd a u
  | 0, prev, cs, rest => by
    constructor
    · rintro ⟨pv, h⟩
      cases h
      exact ⟨[], rfl, by simp [joinW], by simp⟩
    · rintro ⟨ws, hl, hc, _⟩
      have : ws = [] := List.length_eq_zero_iff.mp hl
      subst this
      simp only [joinW, List.nil_append] at hc
      subst hc
      exact ⟨prev, .zero _⟩
  | n + 1, prev, cs, rest => by
    constructor
    · rintro ⟨pv, h⟩
      cases h with
      | succ hm hit =>
        rename_i m
        obtain ⟨mp, mcs⟩ := m
        obtain ⟨w, hw1, hw2⟩ := (iha prev cs mcs).mp ⟨mp, hm⟩
        obtain ⟨ws, hl, hc, hall⟩ := (iter_words a iha n mp mcs rest).mp ⟨pv, hit⟩
        refine ⟨w :: ws, by simp [hl], ?_, ?_⟩
        · simp [joinW, hw1, hc, List.append_assoc]
        · intro u hu
          rcases List.mem_cons.mp hu with rfl | hu
          · exact hw2
          · exact hall u hu
    · rintro ⟨ws, hl, hc, hall⟩
      cases ws with
      | nil => simp at hl
      | cons w ws =>
        simp only [joinW, List.append_assoc] at hc
        obtain ⟨mp, hm⟩ := (iha prev cs (joinW ws ++ rest)).mpr ⟨w, hc, hall w List.mem_cons_self⟩
        obtain ⟨pv, hit⟩ := (iter_words a iha n mp (joinW ws ++ rest) rest).mpr
          ⟨ws, by simpa using hl, rfl, fun u hu => hall u (List.mem_cons_of_mem _ hu)⟩
        exact ⟨pv, .succ hm hit⟩

/-- **Reaching is consuming a word of the language.** -/
theorem reach_iff_word : ∀ (r : Re), NoAssert r → ∀ (prev : Option Char) (cs rest : List Char),
    (Reach r prev cs rest ↔ ∃ w, cs = w ++ rest ∧ Wd r w)
  | .eps, _, prev, cs, rest => by
    simp only [Reach, Re.run, List.mem_singleton, Prod.mk.injEq, Wd]
    constructor
    · rintro ⟨pv, _, h⟩; exact ⟨[], by simp [h], rfl⟩
    · rintro ⟨w, h, rfl⟩; exact ⟨prev, rfl, by simpa using h.symm⟩
  | .cls rs, _, prev, cs, rest => by
    simp only [Reach, Wd]
    cases cs with
    | nil =>
      simp only [Re.run, List.not_mem_nil, exists_false, false_iff]
      rintro ⟨w, h, x, rfl, _⟩
      simp at h
    | cons x xs =>
      simp only [Re.run]
      constructor
      · rintro ⟨pv, h⟩
        by_cases hx : inRanges rs x = true
        · simp only [hx, ↓reduceIte, List.mem_singleton, Prod.mk.injEq] at h
          exact ⟨[x], by simp [h.2], x, rfl, hx⟩
        · simp [hx] at h
      · rintro ⟨w, h, y, rfl, hy⟩
        simp only [List.cons_append, List.nil_append, List.cons.injEq] at h
        obtain ⟨rfl, rfl⟩ := h
        exact ⟨some x, by simp [hy]⟩
  | .cat a b, hn, prev, cs, rest => by
    obtain ⟨ha, hb⟩ := hn
    simp only [Reach, Re.run, List.mem_flatMap, Wd]
    constructor
    · rintro ⟨pv, ⟨mp, mcs⟩, hm, hq⟩
      obtain ⟨u, hu1, hu2⟩ := (reach_iff_word a ha prev cs mcs).mp ⟨mp, hm⟩
      obtain ⟨v, hv1, hv2⟩ := (reach_iff_word b hb mp mcs rest).mp ⟨pv, hq⟩
      exact ⟨u ++ v, by simp [hu1, hv1, List.append_assoc], u, v, rfl, hu2, hv2⟩
    · rintro ⟨w, hw, u, v, rfl, hu, hv⟩
      obtain ⟨mp, hm⟩ := (reach_iff_word a ha prev cs (v ++ rest)).mpr ⟨u, by simpa [List.append_assoc] using hw, hu⟩
      obtain ⟨pv, hq⟩ := (reach_iff_word b hb mp (v ++ rest) rest).mpr ⟨v, rfl, hv⟩
      exact ⟨pv, (mp, v ++ rest), hm, hq⟩
  | .alt a b, hn, prev, cs, rest => by
    obtain ⟨ha, hb⟩ := hn
    simp only [Reach, Re.run, List.mem_append, Wd]
    constructor
    · rintro ⟨pv, h | h⟩
      · obtain ⟨w, h1, h2⟩ := (reach_iff_word a ha prev cs rest).mp ⟨pv, h⟩
        exact ⟨w, h1, .inl h2⟩
      · obtain ⟨w, h1, h2⟩ := (reach_iff_word b hb prev cs rest).mp ⟨pv, h⟩
        exact ⟨w, h1, .inr h2⟩
    · rintro ⟨w, h1, h2 | h2⟩
      · obtain ⟨pv, h⟩ := (reach_iff_word a ha prev cs rest).mpr ⟨w, h1, h2⟩
        exact ⟨pv, .inl h⟩
      · obtain ⟨pv, h⟩ := (reach_iff_word b hb prev cs rest).mpr ⟨w, h1, h2⟩
        exact ⟨pv, .inr h⟩
  | .rep a lo hi, hn, prev, cs, rest => by
    obtain ⟨ha, hne⟩ := hn
    have iha := reach_iff_word a ha
    simp only [Reach, Re.run, Wd]
    constructor
    · rintro ⟨pv, h⟩
      obtain ⟨n, h1, h2, hit⟩ := (mem_repN a.run _ lo (prev, cs) (pv, rest)).mp h
      obtain ⟨ws, hl, hc, hall⟩ := (iter_words a iha n prev cs rest).mp ⟨pv, hit⟩
      refine ⟨joinW ws, hc, ws, by omega, ?_, rfl, hall⟩
      intro h' hh
      subst hh
      simp only [Option.getD_some] at h2
      omega
    · rintro ⟨w, hw, ws, h1, h2, rfl, hall⟩
      obtain ⟨pv, hit⟩ := (iter_words a iha ws.length prev cs rest).mpr ⟨ws, rfl, hw, hall⟩
      refine ⟨pv, (mem_repN a.run _ lo (prev, cs) (pv, rest)).mpr ⟨ws.length, h1, ?_, hit⟩⟩
      cases hi with
      | some h' => simpa using h2 h' rfl
      | none =>
        simp only [Option.getD_none]
        have := joinW_length_ge ws (fun u hu => hne u (hall u hu))
        have : (joinW ws).length ≤ cs.length := by rw [hw]; simp
        omega
  | .wordB, hn, _, _, _ => by simp [NoAssert] at hn
  | .bot, hn, _, _, _ => by simp [NoAssert] at hn
  | .eot, hn, _, _, _ => by simp [NoAssert] at hn

end Rx
end Zog

/-! ## anchored expressions: `^ body $` -/

namespace Zog
namespace Rx

theorem run_cat_assoc (a b c : Re) (p : Pos) : (Re.cat a (.cat b c)).run p = (Re.cat (.cat a b) c).run p := by
  simp [Re.run, List.flatMap_assoc]

theorem cat_eot_nonempty (a : Re) (ha : NoAssert a) (prev : Option Char) (cs : List Char) :
    (!((Re.cat a .eot).run (prev, cs)).isEmpty) = true ↔ ∃ w, cs = w ∧ Wd a w := by
  have key := reach_iff_word a ha prev cs []
  simp only [List.append_nil] at key
  rw [← key]
  simp only [Re.run, Reach, Bool.not_eq_eq_eq_not, Bool.not_true, List.isEmpty_eq_false_iff_exists_mem, List.mem_flatMap]
  constructor
  · rintro ⟨q, ⟨mp, mcs⟩, hm, hq⟩
    by_cases he : mcs.isEmpty = true
    · have : mcs = [] := List.isEmpty_iff.mp he
      subst this
      exact ⟨mp, hm⟩
    · simp [he] at hq
  · rintro ⟨pv, h⟩
    exact ⟨(pv, []), (pv, []), h, by simp⟩

/-- `^ body $` matches a text iff the whole text is a word of `body` -/
theorem anchored_search (body : Re) (hb : NoAssert body) (cs : List Char) :
    (Re.cat .bot (.cat body .eot)).search cs = true ↔ Wd body cs := by
  rw [search_bot, cat_eot_nonempty body hb none cs]
  constructor
  · rintro ⟨w, rfl, h⟩; exact h
  · intro h; exact ⟨cs, rfl, h⟩

/-! ## languages of the building blocks -/

theorem wd_cls (rs : List (Nat × Nat)) (w : List Char) : Wd (.cls rs) w ↔ ∃ x, w = [x] ∧ inRanges rs x = true := Iff.rfl

theorem joinW_singletons (w : List Char) : joinW (w.map (fun c => [c])) = w := by
  induction w with
  | nil => rfl
  | cons c cs ih => simp [joinW, ih]

/-- `[class]{lo,hi}`: between `lo` and `hi` characters of the class -/
theorem wd_rep_cls (rs : List (Nat × Nat)) (lo : Nat) (hi : Option Nat) (w : List Char) :
    Wd (.rep (.cls rs) lo hi) w ↔ lo ≤ w.length ∧ (∀ h, hi = some h → w.length ≤ h) ∧ ∀ c ∈ w, inRanges rs c = true := by
  simp only [Wd]
  constructor
  · rintro ⟨ws, h1, h2, rfl, hall⟩
    have hlen : ∀ (ws : List (List Char)), (∀ u ∈ ws, ∃ x, u = [x] ∧ inRanges rs x = true) →
        (joinW ws).length = ws.length ∧ ∀ c ∈ joinW ws, inRanges rs c = true := by
      intro ws
      induction ws with
      | nil => intro _; simp [joinW]
      | cons u us ih =>
        intro h
        obtain ⟨x, rfl, hx⟩ := h u List.mem_cons_self
        have := ih (fun v hv => h v (List.mem_cons_of_mem _ hv))
        simp only [joinW, List.cons_append, List.nil_append, List.length_cons, this.1, List.mem_cons, true_and]
        rintro c (rfl | hc)
        · exact hx
        · exact this.2 c hc
    obtain ⟨e, hc⟩ := hlen ws hall
    exact ⟨by omega, fun h hh => by rw [e]; exact h2 h hh, hc⟩
  · rintro ⟨h1, h2, hall⟩
    refine ⟨w.map (fun c => [c]), by simpa using h1, fun h hh => by simpa using h2 h hh, (joinW_singletons w).symm, ?_⟩
    intro u hu
    obtain ⟨c, hc, rfl⟩ := List.mem_map.mp hu
    exact ⟨c, rfl, hall c hc⟩

/-- `(x)?` -/
theorem wd_opt (a : Re) (w : List Char) : Wd (.rep a 0 (some 1)) w ↔ w = [] ∨ Wd a w := by
  simp only [Wd]
  constructor
  · rintro ⟨ws, _, h2, rfl, hall⟩
    have := h2 1 rfl
    match ws, this, hall with
    | [], _, _ => left; rfl
    | [u], _, hall => right; simpa [joinW] using hall u (by simp)
    | _ :: _ :: _, h, _ => simp at h
  · rintro (rfl | h)
    · exact ⟨[], by simp, by simp, rfl, by simp⟩
    · exact ⟨[w], by simp, by simp, by simp [joinW], by simpa using h⟩

/-- `(x)*` -/
theorem wd_star (a : Re) (w : List Char) : Wd (.rep a 0 none) w ↔ ∃ ws, w = joinW ws ∧ ∀ u ∈ ws, Wd a u := by
  simp only [Wd]
  constructor
  · rintro ⟨ws, _, _, rfl, hall⟩; exact ⟨ws, rfl, hall⟩
  · rintro ⟨ws, rfl, hall⟩; exact ⟨ws, by simp, by simp, rfl, hall⟩

end Rx
end Zog

/-! ## the e-mail pattern -/

namespace Zog
namespace Rx

def localRanges : List (Nat × Nat) := [(33, 33), (35, 39), (42, 43), (45, 57), (61, 61), (63, 63), (65, 90), (94, 126)]
def alnumRanges : List (Nat × Nat) := [(48, 57), (65, 90), (97, 122)]
def midRanges : List (Nat × Nat) := [(45, 45), (48, 57), (65, 90), (97, 122)]
def atRanges : List (Nat × Nat) := [(64, 64)]
def dotRanges : List (Nat × Nat) := [(46, 46)]

/-- `(?:[a-zA-Z0-9-]{0,61}[a-zA-Z0-9])?` -/
def optTail : Re := .rep (.cat (.rep (.cls midRanges) 0 (some 61)) (.cls alnumRanges)) 0 (some 1)
/-- `(?:\.[a-zA-Z0-9](?:…)?)*` -/
def dotLabels : Re := .rep (.cat (.cls dotRanges) (.cat (.cls alnumRanges) optTail)) 0 none
def emailBody : Re :=
  .cat (.rep (.cls localRanges) 1 none) (.cat (.cls atRanges) (.cat (.cls alnumRanges) (.cat optTail dotLabels)))
/-- the pattern as `regexp/syntax` parses it (a flat concatenation ending in `$`) -/
def emailRe : Re :=
  .cat .bot (.cat (.rep (.cls localRanges) 1 none) (.cat (.cls atRanges) (.cat (.cls alnumRanges) (.cat optTail (.cat dotLabels .eot)))))

/-- a DNS-like label: a letter or digit, optionally followed by up to 61 letters, digits or hyphens
    and a final letter or digit (1 to 63 characters, no hyphen at either end) -/
def IsLabel (l : List Char) : Prop :=
  ∃ a tail, l = a :: tail ∧ inRanges alnumRanges a = true ∧
    (tail = [] ∨ ∃ mid b, tail = mid ++ [b] ∧ mid.length ≤ 61 ∧ (∀ c ∈ mid, inRanges midRanges c = true) ∧ inRanges alnumRanges b = true)

/-- the stated grammar: a non-empty local part of permitted characters, `@`, a label, and any number
    of further labels each preceded by a dot — nothing before, nothing after -/
def IsEmail (cs : List Char) : Prop :=
  ∃ (loc l0 : List Char) (ls : List (List Char)),
    cs = loc ++ '@' :: (l0 ++ joinW (ls.map (fun l => '.' :: l))) ∧
    1 ≤ loc.length ∧ (∀ c ∈ loc, inRanges localRanges c = true) ∧ IsLabel l0 ∧ ∀ l ∈ ls, IsLabel l

theorem single_range (n : Nat) (ch : Char) (hch : ch.toNat = n) (c : Char) (h : inRanges [(n, n)] c = true) : c = ch := by
  simp only [inRanges, List.any_cons, List.any_nil, Bool.or_false, Bool.and_eq_true, decide_eq_true_eq] at h
  apply Char.ext
  apply UInt32.toNat_inj.mp
  show c.toNat = ch.toNat
  omega

theorem wd_optTail (w : List Char) :
    Wd optTail w ↔ (w = [] ∨ ∃ mid b, w = mid ++ [b] ∧ mid.length ≤ 61 ∧ (∀ c ∈ mid, inRanges midRanges c = true) ∧ inRanges alnumRanges b = true) := by
  unfold optTail
  rw [wd_opt]
  constructor
  · rintro (h | ⟨u, v, rfl, hu, x, rfl, hx⟩)
    · exact .inl h
    · obtain ⟨_, h2, h3⟩ := (wd_rep_cls midRanges 0 (some 61) u).mp hu
      exact .inr ⟨u, x, rfl, h2 61 rfl, h3, hx⟩
  · rintro (h | ⟨mid, b, rfl, h1, h2, h3⟩)
    · exact .inl h
    · exact .inr ⟨mid, [b], rfl, (wd_rep_cls midRanges 0 (some 61) mid).mpr ⟨by omega, fun h hh => by simp at hh; omega, h2⟩, b, rfl, h3⟩

theorem wd_label (l : List Char) : Wd (.cat (.cls alnumRanges) optTail) l ↔ IsLabel l := by
  simp only [Wd, IsLabel]
  constructor
  · rintro ⟨u, v, rfl, ⟨a, rfl, ha⟩, hv⟩
    exact ⟨a, v, rfl, ha, (wd_optTail v).mp hv⟩
  · rintro ⟨a, tail, rfl, ha, ht⟩
    exact ⟨[a], tail, rfl, ⟨a, rfl, ha⟩, (wd_optTail tail).mpr ht⟩

theorem wd_dotLabels (w : List Char) :
    Wd dotLabels w ↔ ∃ ls : List (List Char), w = joinW (ls.map (fun l => '.' :: l)) ∧ ∀ l ∈ ls, IsLabel l := by
  unfold dotLabels
  rw [wd_star]
  constructor
  · rintro ⟨ws, rfl, hall⟩
    -- every word is '.' followed by a label
    have : ∀ (ws : List (List Char)), (∀ u ∈ ws, Wd (.cat (.cls dotRanges) (.cat (.cls alnumRanges) optTail)) u) →
        ∃ ls : List (List Char), ws = ls.map (fun l => '.' :: l) ∧ ∀ l ∈ ls, IsLabel l := by
      intro ws
      induction ws with
      | nil => intro _; exact ⟨[], rfl, by simp⟩
      | cons u us ih =>
        intro h
        obtain ⟨ls, rfl, hls⟩ := ih (fun v hv => h v (List.mem_cons_of_mem _ hv))
        obtain ⟨d, l, rfl, ⟨x, rfl, hx⟩, hl⟩ := h u List.mem_cons_self
        have hd : x = '.' := single_range 46 '.' rfl x hx
        subst hd
        refine ⟨l :: ls, by simp, ?_⟩
        intro l' hl'
        rcases List.mem_cons.mp hl' with rfl | hl'
        · exact (wd_label _).mp hl
        · exact hls l' hl'
    obtain ⟨ls, rfl, hls⟩ := this ws hall
    exact ⟨ls, rfl, hls⟩
  · rintro ⟨ls, rfl, hls⟩
    refine ⟨ls.map (fun l => '.' :: l), rfl, ?_⟩
    intro u hu
    obtain ⟨l, hl, rfl⟩ := List.mem_map.mp hu
    exact ⟨['.'], l, rfl, ⟨'.', rfl, by decide⟩, (wd_label l).mpr (hls l hl)⟩

/-- the language of the pattern's body is the stated grammar -/
theorem wd_emailBody (cs : List Char) : Wd emailBody cs ↔ IsEmail cs := by
  unfold emailBody IsEmail
  constructor
  · rintro ⟨loc, v, rfl, hloc, at_, v2, rfl, ⟨x, rfl, hx⟩, a, v3, rfl, ⟨y, rfl, hy⟩, o, s, rfl, ho, hs⟩
    have hx' : x = '@' := single_range 64 '@' rfl x hx
    subst hx'
    obtain ⟨h1, _, h3⟩ := (wd_rep_cls localRanges 1 none loc).mp hloc
    obtain ⟨ls, rfl, hls⟩ := (wd_dotLabels s).mp hs
    refine ⟨loc, y :: o, ls, by simp, h1, h3, ?_, hls⟩
    exact (wd_label (y :: o)).mp ⟨[y], o, rfl, ⟨y, rfl, hy⟩, ho⟩
  · rintro ⟨loc, l0, ls, rfl, h1, h3, hl0, hls⟩
    obtain ⟨u, o, hl0eq, ⟨y, rfl, hy⟩, ho⟩ := (wd_label l0).mpr hl0
    subst hl0eq
    refine ⟨loc, _, rfl, (wd_rep_cls localRanges 1 none loc).mpr ⟨h1, by simp, h3⟩, ['@'], _, rfl, ⟨'@', rfl, by decide⟩,
      [y], o ++ joinW (ls.map (fun l => '.' :: l)), by simp, ⟨y, rfl, hy⟩, o, _, rfl, ho, (wd_dotLabels _).mpr ⟨ls, rfl, hls⟩⟩

end Rx
end Zog

namespace Zog
namespace Rx

theorem run_cat_congr (a x y : Re) (h : ∀ p, x.run p = y.run p) (p : Pos) : (Re.cat a x).run p = (Re.cat a y).run p := by
  have : x.run = y.run := funext h
  simp [Re.run, this]

/-- `$` at the end of a right-nested concatenation can be pulled to the top -/
theorem pull_eot (a x y : Re) (h : ∀ p, x.run p = (Re.cat y .eot).run p) (p : Pos) :
    (Re.cat a x).run p = (Re.cat (.cat a y) .eot).run p := by
  rw [run_cat_congr a x _ h, run_cat_assoc]

theorem search_congr (r s : Re) (h : ∀ p, r.run p = s.run p) (cs : List Char) : r.search cs = s.search cs := by
  simp [Re.search, h]

theorem wd_cls_ne (rs : List (Nat × Nat)) (w : List Char) (h : Wd (.cls rs) w) : w ≠ [] := by
  obtain ⟨x, rfl, _⟩ := h; simp

theorem noAssert_optTail : NoAssert optTail := by
  refine ⟨⟨⟨trivial, wd_cls_ne _⟩, trivial⟩, ?_⟩
  rintro w ⟨u, v, rfl, _, hv⟩
  have := wd_cls_ne _ v hv
  simp [this]

theorem noAssert_emailBody : NoAssert emailBody := by
  refine ⟨⟨trivial, wd_cls_ne _⟩, trivial, trivial, noAssert_optTail, ⟨trivial, trivial, noAssert_optTail⟩, ?_⟩
  rintro w ⟨u, v, rfl, hu, _⟩
  have := wd_cls_ne _ u hu
  simp [this]

/-- **The shipped e-mail pattern decides exactly the stated grammar**, on every text. -/
theorem email_regex_is_grammar (cs : List Char) : emailRe.search cs = true ↔ IsEmail cs := by
  have h1 := pull_eot optTail (.cat dotLabels .eot) dotLabels (fun _ => rfl)
  have h2 := pull_eot (.cls alnumRanges) _ _ h1
  have h3 := pull_eot (.cls atRanges) _ _ h2
  have h4 := pull_eot (.rep (.cls localRanges) 1 none) _ _ h3
  have e : ∀ p, emailRe.run p = (Re.cat .bot (.cat emailBody .eot)).run p := run_cat_congr .bot _ _ h4
  rw [search_congr _ _ e, anchored_search emailBody noAssert_emailBody, wd_emailBody]

end Rx
end Zog
