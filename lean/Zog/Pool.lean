/-!
# Recycled objects   — C07 (isolation), C08 (sharing)

Two layers:
* **contents** — an object taken from a pool holds arbitrary previous contents ("dirt"); the
  acquiring constructor overrides exactly the fields it assigns (regenerated: `Gen.ctorAssigns`)
  and keeps the rest;
* **identity** — pooled issue objects have identities; the pool is a list of ids (duplicates
  representable), `Get` takes some id or allocates, `Put` adds one. A history is a list of
  operations; the ownership invariant says no id is in the pool twice or in the pool and in a
  result the caller still holds.
Core-only.
-/

namespace Zog
namespace Pool

/-! ## contents -/

/-- a pooled record: field name ↦ value (values are opaque) -/
abbrev Record := String → Nat

/-- what a constructor leaves in the object: assigned fields get the new value, the rest keep
    whatever the previous user left there -/
def reinit (assigned : List String) (dirt fresh : Record) : Record :=
  fun f => if assigned.contains f then fresh f else dirt f

/-! ## identity: the issue pool over a history -/

inductive Op where
  /-- a Parse/Validate call that records `k` issues (`take i` says whether the i-th acquisition is
      served from the pool — `sync.Pool` may also hand out a brand-new object at any time) -/
  | call (k : Nat) (take : List Bool)
  /-- hand result `r` back through CollectMap / CollectList / SanitizeAndCollect -/
  | collect (r : Nat)
  /-- a call starts (interleaving granularity, C08): it holds nothing yet -/
  | start
  /-- running call `r` acquires ONE object (so that acquisitions of concurrent calls interleave) -/
  | acq (r : Nat) (fromPool : Bool)

structure State where
  pool : List Nat := []
  /-- results the caller holds: the distinct issue objects in each (the `$first` entry aliases the
      first of them) -/
  live : List (List Nat) := []
  next : Nat := 0

/-- acquire one issue object -/
def acquire (s : State) (fromPool : Bool) : State × Nat :=
  match fromPool, s.pool with
  | true, id :: rest => ({ s with pool := rest }, id)
  | _, _ => ({ s with next := s.next + 1 }, s.next)

def acquireMany : State → Nat → List Bool → List Nat → State × List Nat
  | s, 0, _, acc => (s, acc.reverse)
  | s, k + 1, takes, acc =>
    let r := acquire s (takes.headD false)
    acquireMany r.1 k takes.tail (r.2 :: acc)

/-- `skipsFirst`: regenerated fact — CollectMap frees the `$first` alias separately or not -/
def step (skipsFirst : Bool) (s : State) : Op → State
  | .call k takes =>
    let r := acquireMany s k takes []
    { r.1 with live := r.1.live ++ [r.2] }
  | .collect r =>
    match s.live[r]? with
    | none => s
    | some ids =>
      -- every issue under its path key, plus (unless skipped) the `$first` alias once more
      let freed := if skipsFirst then ids else ids ++ ids.take 1
      { s with pool := s.pool ++ freed, live := s.live.set r [] }
  | .start => { s with live := s.live ++ [[]] }
  | .acq r b =>
    match s.live[r]? with
    | none => s
    | some ids =>
      let a := acquire s b
      { a.1 with live := a.1.live.set r (ids ++ [a.2]) }

def run (skipsFirst : Bool) (ops : List Op) : State := ops.foldl (step skipsFirst) {}

/-- `Issues.SanitizeMapAndCollect` / `SanitizeListAndCollect` on result `r`: the objects whose messages the
    helper reads, each with "the caller still owned it at the moment of the read" (it was not in the pool,
    where a concurrent call may take and rewrite it). `readFirst` is the regenerated order of the helper's
    two steps: read (Sanitize…) then free (Collect…), or the reverse. -/
def sanitizeAndCollect (skipsFirst readFirst : Bool) (s : State) (r : Nat) : State × List (Nat × Bool) :=
  let ids := (s.live[r]?).getD []
  let s' := step skipsFirst s (.collect r)
  let atRead := if readFirst then s else s'
  (s', ids.map fun id => (id, !atRead.pool.contains id))

/-- every issue object is owned exactly once: by the pool or by one live result -/
def Owned (s : State) : Prop := (s.pool ++ s.live.flatten).Nodup ∧ ∀ id ∈ s.pool ++ s.live.flatten, id < s.next

end Pool
end Zog
