import Zog.OrderAll
import Zog.Exact

/-!
# "The result is nil iff there is no violation" for every well-formed schema (helper for C02)
-/

namespace Zog
namespace Spec
open Engine (Prov provOf orderOf zipIdx3)

/-- every PostTransform of the list succeeds on `x` (and on what its predecessors made of it) -/
def PostsOK (env : Env) (dt ps : String) (posts : List Post) (x : DVal) : Prop :=
  (postLoop env dt ps posts x {}).2.sink = []

theorem runPosts_clean_iff (env : Env) (dt ps : String) (posts : List Post) (o : Out) :
    (runPosts env dt ps posts o).2.sink = [] ↔ (o.2.sink = [] ∧ PostsOK env dt ps posts o.1) := by
  unfold PostsOK
  constructor
  · intro h
    have ho := extends_clean (runPosts_extends env dt ps posts o) h
    refine ⟨ho, ?_⟩
    simp only [runPosts, ho, List.isEmpty_nil, ↓reduceIte] at h
    rw [postLoop_local] at h
    have : (o.2.app (postLoop env dt ps posts o.1 {}).2).sink = [] := h
    simpa [St.app, ho] using this
  · rintro ⟨ho, hp⟩
    simp only [runPosts, ho, List.isEmpty_nil, ↓reduceIte]
    rw [postLoop_local]
    show _ ++ _ = []
    rw [ho, hp]; rfl

theorem sliceLoop_clean_iffU (child : Child) (path : List String)
    (hc : ∀ p v d, CleanLocal (fun st => child p v d st))
    (hext : ∀ p v d st, Extends st (child p v d st).2) :
    ∀ (xs : List (Val × DVal × Nat)) (ds : List DVal), ((sliceLoop child path xs ds {}).2.sink = [] ↔
      ∀ x ∈ xs, (child (path ++ ["[" ++ toString x.2.2 ++ "]"]) x.1 x.2.1 {}).2.sink = [])
  | [], _ => by simp [sliceLoop]
  | y :: rest, ds => by
    constructor
    · exact sliceLoop_children_clean child path hc hext (y :: rest) ds
    · intro h
      have hy := h y List.mem_cons_self
      have hr := (sliceLoop_clean_iffU child path hc hext rest
        (ds ++ [(child (path ++ ["[" ++ toString y.2.2 ++ "]"]) y.1 y.2.1 {}).1])).mpr (fun x hx => h x (List.mem_cons_of_mem _ hx))
      obtain ⟨e, _, _⟩ := sliceLoop_cons_clean child path hc hext y rest ds (.inr ⟨hy, hr⟩)
      rw [e]
      show _ ++ _ = []
      rw [hy, hr]; rfl

theorem fieldLoop_clean_iffU (env : Env) (m : Mode) (fs : Fields) (tag : Option String) (prov : Prov) (path : List String)
    (hinj : fs.GoNamesInj) (d0 : DVal) :
    ∀ (ks : List String) (d : DVal), ks.Nodup →
      (∀ k ∈ ks, (fieldStep env m fs tag prov path k d).2 = (fieldStep env m fs tag prov path k d0).2) →
      ((fieldLoop (fun k d st => procKey env m fs k tag prov path d st) ks d {}).2.sink = [] ↔
       ∀ k ∈ ks, (fieldStep env m fs tag prov path k d0).2.sink = [])
  | [], _, _, _ => by simp [fieldLoop]
  | a :: ks, d, hnd, hfr => by
    constructor
    · exact fieldLoop_children_clean env m fs tag prov path hinj d0 (a :: ks) d hnd hfr
    · intro h
      obtain ⟨hna, hnd'⟩ := List.nodup_cons.mp hnd
      have ha : (procKey env m fs a tag prov path d {}).2.sink = [] := by
        rw [procKey_eq_fieldStep, hfr a List.mem_cons_self]
        exact h a List.mem_cons_self
      have hfr' : ∀ b ∈ ks, (fieldStep env m fs tag prov path b (procKey env m fs a tag prov path d {}).1).2 =
          (fieldStep env m fs tag prov path b d0).2 := by
        intro b hb
        have hab : a ≠ b := fun e => hna (e ▸ hb)
        rw [procKey_eq_fieldStep, (fieldStep_comm env m fs tag prov path hinj a b d hab).2]
        exact hfr b (List.mem_cons_of_mem _ hb)
      have hr := (fieldLoop_clean_iffU env m fs tag prov path hinj d0 ks _ hnd' hfr').mpr
        (fun k hk => h k (List.mem_cons_of_mem _ hk))
      obtain ⟨e, _, _⟩ := fieldLoop_cons_clean (fun k d st => procKey env m fs k tag prov path d st)
        (fun k d => procKey_cleanLocal env m fs k tag prov path d)
        (fun k d st => procKey_extends env m fs k tag prov path d st) a ks d (.inr ⟨ha, hr⟩)
      rw [e]
      show _ ++ _ = []
      rw [ha, hr]; rfl

mutual
/-- nothing is wrong at this node or below, and every PostTransform succeeds -/
def NoViolU (env : Env) (m : Mode) : Schema → Option String → List String → Val → DVal → Prop
  | .prim p, _, path, v, d =>
    PrimOK m p v d ∧ PostsOK env p.kind.dtype (render path) p.posts (primBody env m p path v d {}).1
  | .custom c, _, _, v, d =>
    match m with
    | .validate => c.test.pred d = true
    | .parse => ∃ x, c.accept v = some x ∧ c.test.pred x = true
  | .ptr elem zp nn, tag, path, v, d =>
    if Engine.ptrAbsent m v d then nn = none
    else NoViolU env m elem tag path v (d.pointee zp)
  | .pre ps inner, tag, path, v, d =>
    match m with
    | .parse => ps.accept v = true ∧ ∃ v', ps.run v = (v', none) ∧ NoViolU env m inner tag path v' d
    | .validate => ∃ d', ps.runD d = (d', none) ∧ NoViolU env m inner tag path v d'
  | .slice elem sm, _, path, v, d =>
    (match sliceSrc m sm v d with
     | .skipped => True
     | .failed => False
     | .items ins ds =>
       (∀ x ∈ zipIdx3 ins ds 0, NoViolU env m elem none (path ++ ["[" ++ toString x.2.2 ++ "]"]) x.1 x.2.1) ∧
       sm.tests.all (fun t => t.pred (sliceItems env m elem sm path ins ds {}).1) = true) ∧
    PostsOK env "slice" (render path) sm.posts (sliceBody env m elem sm path v d {}).1
  | .struct fs tests posts, tag, path, v, d =>
    ((match m with
      | .validate => NoViolUFields env m tag .empty path d fs
      | .parse => ∃ prov, provOf v = some prov ∧ NoViolUFields env m tag prov path d fs) ∧
     tests.all (fun t => t.pred (structBody env m fs tests tag path v d {}).1) = true) ∧
    PostsOK env "struct" (render path) posts (structBody env m fs tests tag path v d {}).1
def NoViolUFields (env : Env) (m : Mode) (tag : Option String) (prov : Prov) (path : List String) (d : DVal) : Fields → Prop
  | .nil => True
  | .cons k fm s rest =>
    NoViolU env m s none (path ++ [fieldKeyOf m tag prov fm k]) (fieldInput m prov (fieldKeyOf m tag prov fm k)) (d.get fm.goName) ∧
    NoViolUFields env m tag prov path d rest
end

end Spec
end Zog

namespace Zog
namespace Spec
open Engine (Prov provOf orderOf zipIdx3)

mutual
/-- **No issue iff no violation and no failing PostTransform — every well-formed schema.** -/
theorem cleanU_iff (env : Env) (m : Mode) :
    ∀ (s : Schema), s.WF → ∀ (tag : Option String) (path : List String) (v : Val) (d : DVal),
      ((proc env m s tag path v d {}).2.sink = [] ↔ NoViolU env m s tag path v d)
  | .prim p, _, tag, path, v, d => by
    simp only [proc, prim, NoViolU]
    rw [runPosts_clean_iff]
    have := primBody_clean_iff env m p path v d {}
    simp only at this
    rw [this]
  | .custom c, _, tag, path, v, d => by
    unfold proc
    simp only [NoViolU]
    cases m <;> simp only
    · cases hc : c.accept v with
      | none => simp [emit]
      | some x => by_cases hp : c.test.pred x = true <;> simp [hp, emit]
    · by_cases hp : c.test.pred d = true <;> simp [hp, emit]
  | .ptr elem zp nn, hw, tag, path, v, d => by
    simp only [Schema.WF] at hw
    unfold proc
    simp only [NoViolU]
    cases ha : Engine.ptrAbsent m v d
    · simp only [Bool.false_eq_true, ↓reduceIte]
      exact cleanU_iff env m elem hw tag path v (d.pointee zp)
    · simp only [↓reduceIte]
      cases nn with
      | none => simp
      | some t => simp [emit]
  | .pre ps inner, hw, tag, path, v, d => by
    simp only [Schema.WF] at hw
    unfold proc
    simp only [NoViolU]
    cases m <;> simp only
    · cases ha : ps.accept v
      · simp [emit]
      · simp only [↓reduceIte, true_and]
        rcases hr : ps.run v with ⟨v', e⟩
        cases e with
        | none =>
          simp only
          have ih := cleanU_iff env .parse inner hw tag path v' d
          have cl := proc_cleanLocal env .parse inner tag path v' d
          constructor
          · intro h
            exact ⟨v', rfl, ih.mp (cl.both _ rfl (.inl h)).2⟩
          · rintro ⟨v'', hv, hn⟩
            have : v'' = v' := by simpa using (Prod.mk.inj hv).1.symm
            subst this
            exact (cl.both { log := ([] : List Event) ++ [⟨.pre, ps.id, render path, .custom v⟩] } rfl (.inr (ih.mpr hn))).1
        | some e => simp [emit]
    · rcases hr : ps.runD d with ⟨d', e⟩
      cases e with
      | none =>
        simp only
        have ih := cleanU_iff env .validate inner hw tag path v d'
        have cl := proc_cleanLocal env .validate inner tag path v d'
        constructor
        · intro h
          exact ⟨d', rfl, ih.mp (cl.both _ rfl (.inl h)).2⟩
        · rintro ⟨d'', hv, hn⟩
          have : d'' = d' := by simpa using (Prod.mk.inj hv).1.symm
          subst this
          exact (cl.both { log := ([] : List Event) ++ [⟨.pre, ps.id, render path, d⟩] } rfl (.inr (ih.mpr hn))).1
      | some e => simp [emit]
  | .slice elem sm, hw, tag, path, v, d => by
    simp only [Schema.WF] at hw
    rw [proc_slice_eq, runPosts_clean_iff]
    simp only [NoViolU]
    -- the body is clean iff the match holds
    suffices hbody : (sliceBody env m elem sm path v d {}).2.sink = [] ↔
        (match sliceSrc m sm v d with
         | .skipped => True
         | .failed => False
         | .items ins ds =>
           (∀ x ∈ zipIdx3 ins ds 0, NoViolU env m elem none (path ++ ["[" ++ toString x.2.2 ++ "]"]) x.1 x.2.1) ∧
           sm.tests.all (fun t => t.pred (sliceItems env m elem sm path ins ds {}).1) = true) by
      rw [hbody]
    have items : ∀ (ins : List Val) (ds : List DVal), ((sliceItems env m elem sm path ins ds {}).2.sink = [] ↔
        ((∀ x ∈ zipIdx3 ins ds 0, NoViolU env m elem none (path ++ ["[" ++ toString x.2.2 ++ "]"]) x.1 x.2.1) ∧
        sm.tests.all (fun t => t.pred (sliceItems env m elem sm path ins ds {}).1) = true)) := by
      intro ins ds
      simp only [sliceItems]
      rw [testAll_local, app_sink_nil_iff,
        sliceLoop_clean_iffU _ path (fun p v d => proc_cleanLocal env m elem none p v d) (fun p v d st => proc_extends env m elem none p v d st)]
      have ht := testAll_clean_iff env "slice" (render path) sm.tests
        (DVal.slice (sliceLoop (proc env m elem none) path (zipIdx3 ins ds 0) [] {}).1) {}
      simp only at ht
      rw [ht]
      constructor
      · rintro ⟨h1, h2⟩
        exact ⟨fun x hx => (cleanU_iff env m elem hw none _ x.1 x.2.1).mp (h1 x hx), h2⟩
      · rintro ⟨h1, h2⟩
        exact ⟨fun x hx => (cleanU_iff env m elem hw none _ x.1 x.2.1).mpr (h1 x hx), h2⟩
    unfold sliceBody
    simp only [sliceSrc]
    cases m <;> simp only
    · by_cases ha : isParseZero v = true
      · simp only [ha, ↓reduceIte]
        cases hdf : sm.dfltIn with
        | some xs => exact items xs _
        | none => cases hr : sm.required <;> simp [emit]
      · simp only [ha, Bool.false_eq_true, ↓reduceIte]
        cases hco : sm.coerce v with
        | none => simp [emit]
        | some xs => exact items xs _
    · by_cases hce : d.elems.isEmpty = true
      · simp only [hce, ↓reduceIte]
        cases hdf : sm.dfltD with
        | some ds => exact items _ ds
        | none => cases hr : sm.required <;> simp [emit]
      · simp only [hce, Bool.false_eq_true, ↓reduceIte]
        exact items _ _
  | .struct fs tests posts, hw, tag, path, v, d => by
    simp only [Schema.WF] at hw
    obtain ⟨hkeys, hinj, hwf⟩ := hw
    rw [proc_struct_eq, runPosts_clean_iff]
    simp only [NoViolU]
    suffices hbody : (structBody env m fs tests tag path v d {}).2.sink = [] ↔
        ((match m with
          | .validate => NoViolUFields env m tag .empty path d fs
          | .parse => ∃ prov, provOf v = some prov ∧ NoViolUFields env m tag prov path d fs) ∧
         tests.all (fun t => t.pred (structBody env m fs tests tag path v d {}).1) = true) by
      rw [hbody]
    have fields : ∀ prov : Prov, ((structFields env m fs tests tag prov path d {}).2.sink = [] ↔
        (NoViolUFields env m tag prov path d fs ∧
        tests.all (fun t => t.pred (structFields env m fs tests tag prov path d {}).1) = true)) := by
      intro prov
      simp only [structFields]
      have hperm := orderOf_perm (env.ω (render path)) fs.keys
      rw [testAll_local, app_sink_nil_iff,
        fieldLoop_clean_iffU env m fs tag prov path hinj d _ d (hperm.nodup_iff.mpr hkeys) (fun _ _ => rfl)]
      have ht := testAll_clean_iff env "struct" (render path) tests
        (fieldLoop (fun k d st => procKey env m fs k tag prov path d st) (orderOf (env.ω (render path)) fs.keys) d {}).1 {}
      simp only at ht
      rw [ht]
      have hf := noViolUFields_iff env m fs tag prov path d .nil fs rfl hwf (by simpa [Fields.keys] using hkeys)
      rw [← hf]
      constructor
      · rintro ⟨h1, h2⟩
        exact ⟨fun k hk => h1 k (hperm.mem_iff.mpr hk), h2⟩
      · rintro ⟨h1, h2⟩
        exact ⟨fun k hk => h1 k (hperm.mem_iff.mp hk), h2⟩
    unfold structBody
    cases m <;> simp only
    · cases hpv : provOf v with
      | none => simp [emit]
      | some prov =>
        simp only [Option.some.injEq, exists_eq_left']
        exact fields prov
    · exact fields .empty
theorem noViolUFields_iff (env : Env) (m : Mode) (fs : Fields) (tag : Option String) (prov : Prov) (path : List String) (d : DVal) :
    ∀ (pre rest : Fields), fs = pre.append rest → rest.WF → (pre.keys ++ rest.keys).Nodup →
      ((∀ k ∈ rest.keys, (fieldStep env m fs tag prov path k d).2.sink = []) ↔ NoViolUFields env m tag prov path d rest)
  | _, .nil, _, _, _ => by simp [NoViolUFields, Fields.keys]
  | pre, .cons k fm s rest, hfs, hw, hnd => by
    simp only [Fields.WF] at hw
    simp only [NoViolUFields, Fields.keys, List.forall_mem_cons]
    have hk : k ∉ pre.keys := by
      simp only [Fields.keys] at hnd
      have := (List.nodup_append.mp hnd).2.2
      intro hmem
      exact this k hmem k List.mem_cons_self rfl
    have hfind : fs.find k = some (k, fm, s) := by rw [hfs]; exact find_of_split pre k fm s rest hk
    have ih := noViolUFields_iff env m fs tag prov path d (snoc pre k fm s) rest (by rw [hfs, snoc_append]) hw.2
      (by rw [snoc_keys]; simpa [Fields.keys, List.append_assoc] using hnd)
    rw [ih]
    have hs : (fieldStep env m fs tag prov path k d).2.sink = [] ↔
        NoViolU env m s none (path ++ [fieldKeyOf m tag prov fm k]) (fieldInput m prov (fieldKeyOf m tag prov fm k)) (d.get fm.goName) := by
      unfold fieldStep
      simp only [hfind]
      rw [← cleanU_iff env m s hw.1 none]
      cases m <;> rfl
    rw [hs]
end

end Spec
end Zog
