import Zog.Wire
import Zog.Spec
import Zog.Msg
import Zog.Gen.Tables
import Zog.Gen.Facts

/-!
# Driver: one case per line on stdin, one result line on stdout (core-only, compiled)
-/

open Zog Zog.Wire Zog.Sexp

def orderOracle? : Sexp → Option (String → List String)
  | .list (.atom "order" :: items) => do
    let tbl ← items.mapM fun it => match it with
      | .list (p :: ks) => do pure (← p.str?, ← ks.mapM Sexp.str?)
      | _ => none
    pure fun p => (lookupD tbl p).getD []
  | _ => none

def runEngine (args : List Sexp) : Option Sexp := do
  match args with
  | [id, .atom mode, schemaS, destS, inputS, tagS, orderS, extS] =>
    let m ← match mode with
      | "p" => some Mode.parse
      | "v" => some Mode.validate
      | _ => none
    let o ← oracle? extS
    let s ← schema? o schemaS
    let d ← dval? destS
    let v ← val? inputS
    let tag := match tagS with
      | .atom "-" => none
      | .atom t => some t
      | _ => none
    let ω ← orderOracle? orderS
    let env : Env := { fmt := defaultFmt Gen.enMap, ω := ω }
    let r := Engine.run env Gen.facts m s tag v d
    let sp := Spec.run env m s tag v d
    let pr (r : DVal × St) : Sexp :=
      node "res" [id, issueMapS (toIssueMap r.2.sink), node "dest" [dvalS r.1], node "log" (r.2.log.map eventS)]
    -- engine (mechanism model under the regenerated facts) and spec (reference semantics), tab-separated
    pure (.atom (toString (pr r) ++ "\t" ++ toString (pr sp)))
  | _ => none

/-- `(coerce ID KIND LAYOUT VAL EXT)`: one default coercer on one value -/
def runCoerce (args : List Sexp) : Option Sexp := do
  match args with
  | [id, kind, layout, valS, extS] =>
    let o ← oracle? extS
    let k ← pkind? kind
    let layout ← layout.str?
    let v ← val? valS
    if isParseZero v then pure (node "res" [id, .atom "absent"])
    else match defaultCoercer o.ext k layout v with
      | some d => pure (node "res" [id, node "ok" [dvalS d]])
      | none => pure (node "res" [id, .atom "err"])
  | _ => none

def dispatch (line : String) : String :=
  match Sexp.parse line with
  | none => "(bad-line)"
  | some sx =>
    match sx.tagged? with
    | some ("engine", args) =>
      match runEngine args with
      | some r => toString r
      | none => "(bad-case engine)"
    | some ("coerce", args) =>
      match runCoerce args with
      | some r => toString r
      | none => "(bad-case coerce)"
    | some (t, _) => s!"(bad-stream {t})"
    | none => "(bad-line)"

partial def loop (h : IO.FS.Stream) (out : IO.FS.Stream) : IO Unit := do
  let line ← h.getLine
  if line.isEmpty then return ()
  let l := line.trimAscii.toString
  if l != "" then
    out.putStrLn (dispatch l)
  loop h out

def main : IO Unit := do
  let stdin ← IO.getStdin
  let stdout ← IO.getStdout
  loop stdin stdout
  stdout.flush
