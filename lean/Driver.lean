import Zog.Wire
import Zog.Spec
import Zog.Builder
import Zog.Helpers
import Zog.Http
import Zog.Msg
import Zog.Gen.Tables
import Zog.Gen.Facts

/-!
# Driver: one case per line on stdin, one result line on stdout (core-only, compiled)
-/

open Zog Zog.Wire Zog.Sexp

def orderOracle? : Sexp → Option (String → List String)
  | .list (.atom "order" :: items) => do
    let tbl ← items.mapM fun it => match it with
      | .list (p :: ks) => do pure (← p.str?, ← ks.mapM Sexp.str?)
      | _ => none
    pure fun p => (lookupD tbl p).getD []
  | _ => none

/-- formatter in force: the default (English) table, an execution-level formatter for a language,
    or the i18n formatter with this execution's `lang` context value -/
def fmtOf : Sexp → Option (String → String → List (String × String) → String)
  | .list [.atom "fmt", .atom "default"] => some (defaultFmt Gen.defaultMap)
  | .list [.atom "fmt", .atom "exec", .atom "es"] => some (defaultFmt Gen.esMap)
  | .list [.atom "fmt", .atom "exec", .atom "en"] => some (defaultFmt Gen.enMap)
  | .list [.atom "fmt", .atom "i18nh", .list hist, .list ctx] => do
    let hist ← hist.mapM fun h => match h with
      | .atom "-" => some ({ langs := [("en", Gen.enMap), ("es", Gen.esMap)], dflt := "en" } : Install)
      | k => do pure { langs := [("en", Gen.enMap), ("es", Gen.esMap)], dflt := "en", key := some (← k.str?) }
    let ctx ← ctx.mapM fun kv => match kv with
      | .list [k, l] => do pure (← k.str?, some (← l.str?))
      | .list [k] => do pure (← k.str?, (none : Option String))   -- present, not a string
      | _ => none
    pure (installedFmt (defaultFmt Gen.defaultMap) hist ctx)
  | .list [.atom "fmt", .atom "i18n", .atom "-"] => some (i18nFmt [("en", Gen.enMap), ("es", Gen.esMap)] "en" none)
  | .list [.atom "fmt", .atom "i18n", l] => do
    let l ← l.str?
    pure (i18nFmt [("en", Gen.enMap), ("es", Gen.esMap)] "en" (some l))
  | _ => none

def runEngine (args : List Sexp) : Option Sexp := do
  match args with
  | [id, .atom mode, schemaS, destS, inputS, tagS, orderS, extS] => runEngine' id mode schemaS destS inputS tagS orderS extS (defaultFmt Gen.defaultMap)
  | [id, .atom mode, schemaS, destS, inputS, tagS, orderS, extS, fmtS] => do
    let f ← fmtOf fmtS
    runEngine' id mode schemaS destS inputS tagS orderS extS f
  | _ => none
where runEngine' (id : Sexp) (mode : String) (schemaS destS inputS tagS orderS extS : Sexp)
    (fmt : String → String → List (String × String) → String) : Option Sexp := do
    let m ← match mode with
      | "p" => some Mode.parse
      | "v" => some Mode.validate
      | _ => none
    let o ← oracle? extS
    let s ← schema? o schemaS
    let d ← dval? destS
    let v ← val? inputS
    let tag := match tagS with
      | .atom "-" => none
      | .atom t => some t
      | _ => none
    let ω ← orderOracle? orderS
    let env : Env := { fmt := fmt, ω := ω }
    let r := Engine.run env Gen.facts m s tag v d
    let sp := Spec.run env m s tag v d
    let pr (r : DVal × St) : Sexp :=
      node "res" [id, issueMapS (toIssueMap r.2.sink), node "dest" [dvalS r.1], node "log" (r.2.log.map eventS)]
    -- engine (mechanism model under the regenerated facts) and spec (reference semantics), tab-separated
    pure (.atom (toString (pr r) ++ "\t" ++ toString (pr sp)))

/-- `(coerce ID KIND LAYOUT VAL EXT)`: one default coercer on one value -/
def runCoerce (args : List Sexp) : Option Sexp := do
  match args with
  | [id, kind, layout, valS, extS] =>
    let o ← oracle? extS
    let k ← pkind? kind
    let layout ← layout.str?
    let v ← val? valS
    if isParseZero v then pure (node "res" [id, .atom "absent"])
    else match defaultCoercer o.ext k layout v with
      | some d => pure (node "res" [id, node "ok" [dvalS d]])
      | none => pure (node "res" [id, .atom "err"])
  | _ => none

/-- `(pred ID TEST DVAL EXT)`: one built-in test on one subject -/
def runPred (args : List Sexp) : Option Sexp := do
  match args with
  | [id, testS, subj, extS] =>
    let o ← oracle? extS
    let t ← test? o testS
    let d ← dval? subj
    pure (node "res" [id, mkBool (t.pred d), mkStr t.code, .list (t.params.map fun (k, v) => .list [mkStr k, mkStr v])])
  | _ => none

def call? (o : Oracle) : Sexp → Option Builder.Call
  | .list [.atom "not"] => some .not
  | .list [.atom "t", t] => do
    let (b, os) ← testParts? o t
    pure (.test b (fun x => applyOpts x os))
  | .list [.atom "tf", t] => do pure (.testFunc (← test? o t))
  | .list [.atom "req", id, os] => do pure (.required (requiredTest (← id.nat?) (← topts? os)))
  | .list [.atom "opt"] => some .optional
  | .list [.atom "dflt", x] => do pure (.default (← dval? x))
  | .list [.atom "catch", x] => do pure (.catch_ (← dval? x))
  | .list [.atom "post", p] => do pure (.post (← post? p))
  | _ => none

/-- `(chain ID MODE KIND COERCER (CALL...) DEST INPUT EXT)`: a builder chain folded by the builder
    model, then executed -/
def runChain (args : List Sexp) : Option Sexp := do
  match args with
  | [id, .atom mode, kind, .atom coercer, .list calls, destS, inputS, extS] =>
    let m ← match mode with
      | "p" => some Mode.parse
      | "v" => some Mode.validate
      | _ => none
    let o ← oracle? extS
    let k ← pkind? kind
    let calls ← calls.mapM (call? o)
    let co ← if coercer == "-" then some (defaultCoercer o.ext k "RFC3339") else namedCoercer coercer
    let p := Builder.toPrim k co (Builder.run calls)
    let d ← dval? destS
    let v ← val? inputS
    let env : Env := { fmt := defaultFmt Gen.defaultMap, ω := fun _ => [] }
    let r := Spec.run env m (.prim p) none v d
    pure (node "res" [id, issueMapS (toIssueMap r.2.sink), node "dest" [dvalS r.1], node "log" (r.2.log.map eventS)])
  | _ => none

def urlValues? : Sexp → Option (List (String × List String))
  | .list kvs => kvs.mapM fun kv => match kv with
    | .list (k :: vs) => do pure (← k.str?, ← vs.mapM Sexp.str?)
    | _ => none
  | _ => none

/-- the record a url.Values source presents: every key through `urlDataProvider.Get` -/
def urlRecord (data : List (String × List String)) : Val :=
  .flat (data.map fun (k, _) => (k, Http.urlGet data k))

/-- `(http ID METHOD CT QUERY FORM JSON SCHEMA DEST ORDER EXT)`: zhttp.Request then Parse -/
def runHttp (args : List Sexp) : Option Sexp := do
  match args with
  | [id, method, ct, queryS, formS, jsonS, schemaS, destS, orderS, extS] =>
    runHttp' id method ct queryS formS jsonS schemaS destS orderS extS (defaultFmt Gen.defaultMap)
  | [id, method, ct, queryS, formS, jsonS, schemaS, destS, orderS, extS, fmtS] => do
    let f ← fmtOf fmtS
    runHttp' id method ct queryS formS jsonS schemaS destS orderS extS f
  | _ => none
where runHttp' (id method ct queryS formS jsonS schemaS destS orderS extS : Sexp)
    (fmt : String → String → List (String × String) → String) : Option Sexp := do
    let method ← method.str?
    let ct ← ct.str?
    let o ← oracle? extS
    let s ← schema? o schemaS
    let d ← dval? destS
    let ω ← orderOracle? orderS
    let env : Env := { fmt := fmt, ω := ω }
    let src := Http.dispatch Gen.httpMethods Gen.httpTypes method.toList ct.toList
    -- decoded input (or the decoder's failure code) and the tag of the source
    let (decoded, tag) : (Except String Val × String) ← match src with
      | .query => do pure (.ok (urlRecord (← urlValues? queryS)), "query")
      | .form => match formS with
        | .atom "err" => pure (.error "invalid_form", "form")
        | .list [.atom "ok", vs] => do pure (.ok (urlRecord (← urlValues? vs)), "form")
        | _ => none
      | .json => match jsonS with
        | .atom "err" => pure (.error "invalid_json", "json")
        | .list [.atom "ok", v] => do
          let v ← val? v
          -- C15: an empty object decodes to a record in which every field is absent, whatever the root schema
          pure (.ok v, "json")
        | _ => none
    let r : DVal × St := match decoded with
      | .error code => (d, { sink := [{ code := code, path := "", dtype := "struct", params := [], message := env.fmt code "struct" [] }], log := [] })
      | .ok v => Spec.run env .parse s (some tag) v d
    -- known finding D40: what the same request gives if the empty JSON object is taken for NO record at a
    -- top-level pointer schema (reported next to the result so that the harness can tell D40 from anything else)
    let alt : List Sexp := match s, decoded with
      | .ptr .., .ok (.obj []) =>
        let r' := Spec.run env .parse s (some tag) Val.nil d
        [node "alt" [issueMapS (toIssueMap r'.2.sink), node "dest" [dvalS r'.1], node "log" (r'.2.log.map eventS)]]
      | _, _ => []
    pure (node "res" ([id, .atom (match src with | .query => "query" | .form => "form" | .json => "json"),
      issueMapS (toIssueMap r.2.sink), node "dest" [dvalS r.1], node "log" (r.2.log.map eventS)] ++ alt))

def fieldMap? : Sexp → Option Helpers.FieldMap
  | .list kvs => kvs.mapM fun kv => match kv with
    | .list [k, v] => do pure (← k.str?, ← v.nat?)
    | _ => none
  | _ => none

def keys? : Sexp → Option (List String)
  | .list ks => ks.mapM Sexp.str?
  | _ => none

def hop? : Sexp → Option Helpers.Op
  | .list [.atom "mk", f] => do pure (.mk (← fieldMap? f))
  | .list [.atom "test", i, t] => do pure (.test (← i.nat?) (← t.nat?))
  | .list [.atom "pick", i, ks] => do pure (.pick (← i.nat?) (← keys? ks))
  | .list [.atom "omit", i, ks] => do pure (.omitKeys (← i.nat?) (← keys? ks))
  | .list [.atom "extend", i, f] => do pure (.extend (← i.nat?) (← fieldMap? f))
  | .list [.atom "merge", a, b] => do pure (.merge (← a.nat?) (← b.nat?))
  | _ => none

def insertKV (k : String) (v : Nat) : List (String × Nat) → List (String × Nat)
  | [] => [(k, v)]
  | (k', v') :: rest => if k < k' then (k, v) :: (k', v') :: rest else (k', v') :: insertKV k v rest

/-- `(helpers ID OP...)`: the pure specification's view of every schema object after the program -/
def runHelpers (args : List Sexp) : Option Sexp := do
  match args with
  | id :: ops => do
    let ops ← ops.mapM hop?
    let s := Helpers.Pure.run ops
    pure (node "res" (id :: s.map fun o =>
      let fs := o.fields.foldl (fun acc kv => insertKV kv.1 kv.2 acc) []
      .list [.list (fs.map fun (k, v) => .list [mkStr k, mkNat v]), .list (o.tests.map mkNat)]))
  | _ => none

/-- `(path ID SEG...)`: PathBuilder.String on a segment stack -/
def runPath (args : List Sexp) : Option Sexp := do
  match args with
  | id :: segs => do
    let segs ← segs.mapM Sexp.str?
    pure (node "res" [id, mkStr (render segs)])
  | _ => none

def issue? : Sexp → Option Issue
  | .list [.atom "I", c, p, d, .list ps, m] => do
    let ps ← ps.mapM fun kv => match kv with
      | .list [k, v] => do pure (← k.str?, ← v.str?)
      | _ => none
    pure { code := ← c.str?, path := ← p.str?, dtype := ← d.str?, params := ps, message := ← m.str? }
  | _ => none

/-- `(imap ID ISSUE...)`: ErrsMap.Add over a sequence, then the sanitized map -/
def runIMap (args : List Sexp) : Option Sexp := do
  match args with
  | id :: iss => do
    let iss ← iss.mapM issue?
    let m := toIssueMap iss
    let san := m.map (fun p => (p.1, p.2.map (·.message)))
    let sorted := san.foldl (fun acc kv => insertSortedS kv.1 kv.2 acc) []
    pure (node "res" [id, issueMapS m, node "san" (sorted.map fun (k, ms) => .list (mkStr k :: ms.map mkStr))])
  | _ => none
where insertSortedS (k : String) (v : List String) : List (String × List String) → List (String × List String)
  | [] => [(k, v)]
  | (k', v') :: rest => if k < k' then (k, v) :: (k', v') :: rest else (k', v') :: insertSortedS k v rest

def dispatch (line : String) : String :=
  match Sexp.parse line with
  | none => "(bad-line)"
  | some sx =>
    match sx.tagged? with
    | some ("engine", args) =>
      match runEngine args with
      | some r => toString r
      | none => "(bad-case engine)"
    | some ("http", args) =>
      match runHttp args with
      | some r => toString r
      | none => "(bad-case http)"
    | some ("helpers", args) =>
      match runHelpers args with
      | some r => toString r
      | none => "(bad-case helpers)"
    | some ("chain", args) =>
      match runChain args with
      | some r => toString r
      | none => "(bad-case chain)"
    | some ("path", args) =>
      match runPath args with
      | some r => toString r
      | none => "(bad-case path)"
    | some ("imap", args) =>
      match runIMap args with
      | some r => toString r
      | none => "(bad-case imap)"
    | some ("pred", args) =>
      match runPred args with
      | some r => toString r
      | none => "(bad-case pred)"
    | some ("coerce", args) =>
      match runCoerce args with
      | some r => toString r
      | none => "(bad-case coerce)"
    | some (t, _) => s!"(bad-stream {t})"
    | none => "(bad-line)"

partial def loop (h : IO.FS.Stream) (out : IO.FS.Stream) : IO Unit := do
  let line ← h.getLine
  if line.isEmpty then return ()
  let l := line.trimAscii.toString
  if l != "" then
    out.putStrLn (dispatch l)
  loop h out

def main : IO Unit := do
  let stdin ← IO.getStdin
  let stdout ← IO.getStdout
  loop stdin stdout
  stdout.flush
