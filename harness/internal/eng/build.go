package eng

import (
	"errors"
	"fmt"
	"reflect"
	"strconv"
	"strings"
	"sync"
	"time"

	z "github.com/Oudwins/zog"
	p "github.com/Oudwins/zog/internals"
)

// Event: one callback invocation as observed on the real code.
type Event struct {
	Kind string // test post custom
	ID   int
	Path string
	Arg  D
}

type Recorder struct {
	// schema objects already built, by case node: a node that occurs at several positions of the
	// case tree is ONE zog schema object placed at several positions (C17 sharing)
	Built      map[*Node]z.ZogSchema
	Events     []Event
	Order      map[string][]string // struct path -> keys in visit order
	OrderPaths []string
	CtxSeen    []any
	CtxLeak    string
	// CtxExpect: the context values THIS execution passed (nil: none); every callback compares ctx.Get over
	// CtxUniverse with it
	CtxExpect map[string]any
	// Ptrs: the pointers callbacks were handed (C12: "a non-nil pointer to the destination"); compared after
	// the execution with the addresses of the destination's parts
	Ptrs []PtrObs
	// Root: the destination of the execution in progress
	Root reflect.Value
	// Sentinel: the one issue value shared by every "failissue shared" callback of the schema
	Sentinel *z.ZogIssue
	mu   sync.Mutex
}

// PtrObs: one pointer argument of a callback
type PtrObs struct {
	Kind string
	ID   int
	Path string
	Addr uintptr
	Type reflect.Type
	// Then: the pointer was the address of a part of the destination at the moment of the call (a later
	// callback may remove that part, e.g. shorten a slice)
	Then bool
}

func (r *Recorder) notePtr(kind string, id int, ctx z.Ctx, val any) {
	if val == nil {
		return
	}
	rv := reflect.ValueOf(val)
	if rv.Kind() != reflect.Pointer || rv.IsNil() || rv.Type().Elem().Size() == 0 {
		return
	}
	then := false
	if r.Root.IsValid() {
		set := map[addrKey]bool{}
		destAddrs(r.Root, set)
		then = set[addrKey{rv.Pointer(), rv.Type().Elem()}]
	}
	r.mu.Lock()
	r.Ptrs = append(r.Ptrs, PtrObs{kind, id, ctxPath(ctx), rv.Pointer(), rv.Type().Elem(), then})
	r.mu.Unlock()
}

type addrKey struct {
	a uintptr
	t reflect.Type
}

// destAddrs: the address and type of every addressable part of a destination (fields, elements, pointees)
func destAddrs(rv reflect.Value, out map[addrKey]bool) {
	if rv.CanAddr() {
		out[addrKey{rv.Addr().Pointer(), rv.Type()}] = true
	}
	switch rv.Kind() {
	case reflect.Pointer:
		if !rv.IsNil() {
			destAddrs(rv.Elem(), out)
		}
	case reflect.Struct:
		if rv.Type() != timeType {
			for i := 0; i < rv.NumField(); i++ {
				destAddrs(rv.Field(i), out)
			}
		}
	case reflect.Slice:
		for i := 0; i < rv.Len(); i++ {
			destAddrs(rv.Index(i), out)
		}
	}
}

// StrayPtr: the first callback pointer that was the address of a part of the destination neither when the
// callback ran nor when the execution ended ("" if none)
func (r *Recorder) StrayPtr(dest reflect.Value) string {
	if len(r.Ptrs) == 0 {
		return ""
	}
	set := map[addrKey]bool{}
	destAddrs(dest, set)
	for _, o := range r.Ptrs {
		if !o.Then && !set[addrKey{o.Addr, o.Type}] {
			return fmt.Sprintf("%s callback %d at %q was handed a *%s that is not the address of any part of the destination", o.Kind, o.ID, o.Path, o.Type)
		}
	}
	return ""
}

func (r *Recorder) addEvent(e Event) {
	r.mu.Lock()
	r.Events = append(r.Events, e)
	r.mu.Unlock()
}

func NewRecorder() *Recorder {
	return &Recorder{Order: map[string][]string{}, Built: map[*Node]z.ZogSchema{}}
}

func ctxPath(ctx z.Ctx) string {
	if sc, ok := ctx.(*p.SchemaCtx); ok && sc.Path != nil {
		return sc.Path.String()
	}
	return "?"
}

// argD canonicalises a callback argument: a pointer to (or a value of) the node's destination type.
func argD(n *Node, val any) D {
	if val == nil {
		return D{K: "nilarg"}
	}
	rv := reflect.ValueOf(val)
	want := n.GoType()
	if rv.Kind() == reflect.Pointer && rv.Type().Elem() != want && rv.Type().Elem() == n.GoTypeAlt() {
		want = n.GoTypeAlt()
	} else if rv.Type() != want && rv.Type() == n.GoTypeAlt() {
		want = n.GoTypeAlt()
	}
	if rv.Kind() == reflect.Pointer && rv.Type().Elem() == want {
		if rv.IsNil() {
			return D{K: "nilarg"}
		}
		return DOf(n, rv.Elem())
	}
	if rv.Type() == want {
		return DOf(n, rv)
	}
	return D{K: "nilarg"}
}

func (o TOpts) zopts() []z.TestOption {
	var out []z.TestOption
	if o.Code != nil {
		out = append(out, z.IssueCode(*o.Code))
	}
	if o.Path != nil {
		out = append(out, z.IssuePath(*o.Path))
	}
	if o.MsgFromParams {
		out = append(out, z.MessageFunc(func(e *z.ZogIssue, _ z.Ctx) {
			kv := map[string]string{}
			for k, v := range e.Params {
				kv[k] = fmt.Sprintf("%v", v)
			}
			e.SetMessage(RenderParams(kv))
		}))
	} else if o.Msg != nil {
		if len(*o.Msg)%2 == 1 {
			// the same option spelled as a MessageFunc
			msg := *o.Msg
			out = append(out, z.MessageFunc(func(e *z.ZogIssue, _ z.Ctx) { e.SetMessage(msg) }))
		} else {
			out = append(out, z.Message(*o.Msg))
		}
	}
	if o.HasParams {
		m := map[string]any{}
		for _, kv := range o.Params {
			m[kv[0]] = kv[1]
		}
		out = append(out, z.Params(m))
	}
	return out
}

// LeakKey: no execution of the harness ever passes this context value; the S-pool stream plants it in
// recycled objects
const LeakKey = "verif_leak"

// CtxUniverse: every context key any execution of the harness ever passes, plus the planted one
var CtxUniverse = []string{"k1", "k2", "k3", "lang", "locale", "a", "b", LeakKey}

func noteCtx(ctx z.Ctx, rec *Recorder) {
	for _, k := range CtxUniverse {
		got := ctx.Get(k)
		want, passed := rec.CtxExpect[k]
		if (got == nil) != !passed || (passed && got != want) {
			rec.mu.Lock()
			if passed {
				rec.CtxLeak = fmt.Sprintf("Get(%q)=%#v, this call passed %#v", k, got, want)
			} else {
				rec.CtxLeak = fmt.Sprintf("Get(%q)=%v, this call passed no value for it", k, got)
			}
			rec.mu.Unlock()
		}
	}
}

// reusedTest: one shared definition built with z.TestFunc, a by-value copy specialised per use site
func reusedTest(n *Node, t TestSpec, rec *Recorder) z.Test {
	shared := z.TestFunc("", fnTest(n, t, rec))
	cp := shared
	for _, o := range t.Opts.zopts() {
		o(&cp)
	}
	return cp
}

// rawTest: a test written as a raw z.Test{Func: ...} that reports its failure ITSELF through
// ctx.AddIssue(ctx.Issue()...) (docs: custom-tests), filling the issue exactly as the options would
func rawTest(n *Node, t TestSpec, rec *Recorder) z.Test {
	pred := fnTest(n, t, rec)
	o := t.Opts
	return z.Test{Func: func(val any, ctx z.Ctx) {
		if pred(val, ctx) {
			return
		}
		iss := ctx.Issue()
		if o.Code != nil {
			iss.SetCode(*o.Code)
		}
		if o.Path != nil && *o.Path != "" {
			iss.SetPath(*o.Path)
		}
		if o.HasParams {
			m := map[string]any{}
			for _, kv := range o.Params {
				m[kv[0]] = kv[1]
			}
			iss.SetParams(m)
		}
		if o.Msg != nil {
			iss.SetMessage(*o.Msg)
		}
		ctx.AddIssue(iss)
	}}
}

func builtTest(n *Node, t TestSpec, rec *Recorder) z.Test {
	if t.Raw {
		return rawTest(n, t, rec)
	}
	return reusedTest(n, t, rec)
}

func fnTest(n *Node, t TestSpec, rec *Recorder) z.BoolTFunc {
	return func(val any, ctx z.Ctx) bool {
		noteCtx(ctx, rec)
		rec.notePtr("test", t.ID, ctx, val)
		d := argD(n, val)
		rec.addEvent(Event{"test", t.ID, ctxPath(ctx), d})
		if d.K == "nilarg" {
			return false
		}
		return emod(d.Measure(), t.N) == t.R
	}
}

func bumpRV(rv reflect.Value) {
	switch rv.Kind() {
	case reflect.String:
		rv.SetString(rv.String() + "!")
	case reflect.Int, reflect.Int32, reflect.Int64:
		if rv.Int() < 1000000 {
			rv.SetInt(rv.Int() + 1)
		}
	case reflect.Bool:
		rv.SetBool(!rv.Bool())
	case reflect.Slice:
		if rv.Len() > 0 {
			rv.Set(rv.Slice(0, rv.Len()-1))
		}
	case reflect.Struct:
		if rv.Type() == timeType {
			rv.Set(reflect.ValueOf(rv.Interface().(time.Time).Add(time.Second)))
		}
	}
}

// bumpDeepRV modifies the first leaf reachable through first elements / pointees IN PLACE
func bumpDeepRV(rv reflect.Value) {
	switch rv.Kind() {
	case reflect.Slice:
		if rv.Len() > 0 {
			bumpDeepRV(rv.Index(0))
		}
	case reflect.Pointer:
		if !rv.IsNil() {
			bumpDeepRV(rv.Elem())
		}
	default:
		bumpRV(rv)
	}
}

func postFn(n *Node, ps PostSpec, rec *Recorder) z.PostTransform {
	return func(ptr any, ctx z.Ctx) error {
		noteCtx(ctx, rec)
		rec.notePtr("post", ps.ID, ctx, ptr)
		d := argD(n, ptr)
		rec.addEvent(Event{"post", ps.ID, ctxPath(ctx), d})
		var rv reflect.Value
		if ptr != nil {
			rv = reflect.ValueOf(ptr)
			if rv.Kind() == reflect.Pointer && !rv.IsNil() {
				rv = rv.Elem()
			} else {
				rv = reflect.Value{}
			}
		}
		switch ps.Kind {
		case "id":
			return nil
		case "inc":
			if rv.IsValid() {
				bumpRV(rv)
			}
			return nil
		case "incdeep":
			if rv.IsValid() {
				bumpDeepRV(rv)
			}
			return nil
		case "set":
			if rv.IsValid() {
				SetD(n, rv, ps.Set)
			}
			return nil
		case "fail":
			return errors.New("post failed")
		case "incfail":
			if rv.IsValid() {
				bumpRV(rv)
			}
			return errors.New("post failed")
		case "failissue":
			return ctx.Issue().SetCode(ps.Code).SetPath(ps.Path).SetDType(ps.DType).SetMessage(ps.Msg)
		case "failwrap":
			// an ordinary error whose Unwrap chain holds a ZogIssue (e.g. the result of running another schema
			// inside the callback): it is the RETURNED error that is reported, at the node's path
			return fmt.Errorf("inner schema rejected the value: %w", &z.ZogIssue{Code: "inner_code", Path: "inner.path", Dtype: "inner", Message: "inner message"})
		}
		return nil
	}
}

func reqOpts(n *Node) []z.TestOption { return n.Req.zopts() }

// NamedCoercer: the custom coercers of the case language (mirrored by Wire.namedCoercer on the Lean side)
func NamedCoercer(name string) func(any) (any, error) {
	switch name {
	case "plus100":
		return func(v any) (any, error) {
			// bounded so that the table function itself never overflows
			if n, ok := v.(int); ok && n > -1000000000000 && n < 1000000000000 {
				return n + 100, nil
			}
			return nil, fmt.Errorf("plus100: unsupported")
		}
	case "strlen":
		return func(v any) (any, error) {
			if s, ok := v.(string); ok {
				return len(s), nil
			}
			return nil, fmt.Errorf("strlen: unsupported")
		}
	case "sfx":
		return func(v any) (any, error) {
			if s, ok := v.(string); ok {
				return s + "~", nil
			}
			return nil, fmt.Errorf("sfx: unsupported")
		}
	case "yn":
		return func(v any) (any, error) {
			switch v {
			case "y":
				return true, nil
			case "n":
				return false, nil
			}
			return nil, fmt.Errorf("yn: unsupported")
		}
	case "len64", "len32", "const25", "const25f", "epoch1":
		// one per remaining constructor: the custom coercer replaces the constructor's own adapter and hands
		// over the destination type itself
		return func(v any) (any, error) {
			s, ok := v.(string)
			if !ok {
				return nil, fmt.Errorf("%s: unsupported", name)
			}
			switch name {
			case "len64":
				return int64(len(s)), nil
			case "len32":
				return int32(len(s)), nil
			case "const25":
				return 2.5, nil
			case "const25f":
				return float32(2.5), nil
			}
			return time.Unix(86400, 0).UTC(), nil
		}
	case "csv":
		return func(v any) (any, error) {
			switch x := v.(type) {
			case string:
				return strings.Split(x, ","), nil
			case []any:
				return x, nil
			}
			if v != nil && reflect.TypeOf(v).Kind() == reflect.Slice {
				return v, nil // typed slices are lists too
			}
			return nil, fmt.Errorf("csv: unsupported")
		}
	}
	panic("NamedCoercer " + name)
}

// schemaOpts: constructor options of a primitive / slice node
func schemaOpts(n *Node) []z.SchemaOption {
	if n.Coercer != "" && !n.CoercerViaPtr {
		return []z.SchemaOption{z.WithCoercer(NamedCoercer(n.Coercer))}
	}
	return nil
}

func numOf[T int | int32 | int64 | float64 | float32](d D) T {
	if d.K == "f" {
		return T(d.F)
	}
	return T(d.I)
}

func buildNum[T int | int32 | int64 | float64 | float32](s *z.NumberSchema[T], n *Node, rec *Recorder) z.ZogSchema {
	if n.Req != nil {
		s.Required(reqOpts(n)...)
	}
	if n.Dflt != nil {
		s.Default(numOf[T](*n.Dflt))
	}
	if n.Catch != nil {
		s.Catch(numOf[T](*n.Catch))
	}
	if n.Req != nil && n.ReqID%2 == 0 {
		s.Required(reqOpts(n)...) // builder calls commute: Required once more AFTER Default / Catch (last call wins, same options)
	}
	for _, t := range n.Tests {
		o := t.Opts.zopts()
		switch t.Name {
		case "cmp":
			a := numOf[T](t.Arg)
			switch t.Op {
			case "eq":
				s.EQ(a, o...)
			case "lt":
				s.LT(a, o...)
			case "lte":
				s.LTE(a, o...)
			case "gt":
				s.GT(a, o...)
			case "gte":
				s.GTE(a, o...)
			}
		case "oneof":
			xs := make([]T, len(t.Args))
			for i, a := range t.Args {
				xs[i] = numOf[T](a)
			}
			s.OneOf(xs, o...)
		case "fn":
			if t.Reuse || t.Raw {
				s.Test(builtTest(n, t, rec))
			} else {
				s.TestFunc(fnTest(n, t, rec), o...)
			}
		default:
			panic("num test " + t.Name)
		}
	}
	for _, ps := range n.Posts {
		s.PostTransform(postFn(n, ps, rec))
	}
	return s
}

// floatCtor: z.Float is the deprecated spelling of z.Float64
func floatCtor(n *Node) *z.NumberSchema[float64] {
	if len(n.Tests)%2 == 1 {
		return z.Float(schemaOpts(n)...)
	}
	return z.Float64(schemaOpts(n)...)
}

// Build constructs the real zog schema for a node through the public builder API.
func Build(n *Node, rec *Recorder) z.ZogSchema {
	if s, ok := rec.Built[n]; ok {
		return s
	}
	s := build1(n, rec)
	rec.Built[n] = s
	return s
}

func build1(n *Node, rec *Recorder) z.ZogSchema {
	switch n.Kind {
	case "prim":
		switch n.PK {
		case "str":
			s := z.String(schemaOpts(n)...)
			if n.Req != nil {
				s.Required(reqOpts(n)...)
			}
			if n.Dflt != nil {
				s.Default(n.Dflt.S)
			}
			if n.Catch != nil {
				s.Catch(n.Catch.S)
			}
			if n.Req != nil && n.ReqID%2 == 0 {
				s.Required(reqOpts(n)...) // builder calls commute: Required once more AFTER Default / Catch (last call wins, same options)
			}
			for _, t := range n.Tests {
				o := t.Opts.zopts()
				if t.Name == "fn" {
					if t.Reuse || t.Raw {
						s.Test(builtTest(n, t, rec))
					} else {
						s.TestFunc(fnTest(n, t, rec), o...)
					}
					continue
				}
				if t.Name == "min" {
					s.Min(int(t.N), o...)
					continue
				}
				if t.Name == "max" {
					s.Max(int(t.N), o...)
					continue
				}
				var ns z.NotStringSchema[string] = s
				if t.Not {
					ns = s.Not()
				}
				switch t.Name {
				case "len":
					ns.Len(int(t.N), o...)
				case "prefix":
					ns.HasPrefix(t.S, o...)
				case "suffix":
					ns.HasSuffix(t.S, o...)
				case "contains":
					ns.Contains(t.S, o...)
				case "upper":
					ns.ContainsUpper(o...)
				case "digit":
					ns.ContainsDigit(o...)
				case "special":
					ns.ContainsSpecial(o...)
				case "uuid":
					ns.UUID(o...)
				case "email":
					ns.Email(o...)
				case "oneof":
					ns.OneOf(sharedStrEnum(t.Args), o...)
				default:
					panic("str test " + t.Name)
				}
			}
			for _, ps := range n.Posts {
				s.PostTransform(postFn(n, ps, rec))
			}
			return s
		case "int":
			return buildNum(z.Int(schemaOpts(n)...), n, rec)
		case "i32":
			return buildNum(z.Int32(schemaOpts(n)...), n, rec)
		case "i64":
			return buildNum(z.Int64(schemaOpts(n)...), n, rec)
		case "f64":
			return buildNum(floatCtor(n), n, rec)
		case "f32":
			return buildNum(z.Float32(schemaOpts(n)...), n, rec)
		case "bool":
			s := z.Bool(schemaOpts(n)...)
			if n.Req != nil {
				s.Required(reqOpts(n)...)
			}
			if n.Dflt != nil {
				s.Default(n.Dflt.B)
			}
			if n.Catch != nil {
				s.Catch(n.Catch.B)
			}
			if n.Req != nil && n.ReqID%2 == 0 {
				s.Required(reqOpts(n)...) // builder calls commute: Required once more AFTER Default / Catch (last call wins, same options)
			}
			for _, t := range n.Tests {
				switch t.Name {
				case "booleq":
					if t.Op == "true" {
						s.True()
					} else if t.Op == "false" {
						s.False()
					} else {
						s.EQ(t.Arg.B)
					}
				case "fn":
					if t.Reuse || t.Raw {
						s.Test(builtTest(n, t, rec))
					} else {
						s.TestFunc(fnTest(n, t, rec), t.Opts.zopts()...)
					}
				default:
					panic("bool test " + t.Name)
				}
			}
			for _, ps := range n.Posts {
				s.PostTransform(postFn(n, ps, rec))
			}
			return s
		case "time":
			var s *z.TimeSchema
			if n.Layout != "" {
				s = z.Time(append(schemaOpts(n), z.Time.Format(n.Layout))...)
			} else {
				s = z.Time(schemaOpts(n)...)
			}
			if n.Req != nil {
				s.Required(reqOpts(n)...)
			} else if len(n.Tests)%2 == 0 {
				s.Required().Optional() // last call wins
			}
			if n.Dflt != nil {
				s.Default(n.Dflt.T)
			}
			if n.Catch != nil {
				s.Catch(n.Catch.T)
			}
			if n.Req != nil && n.ReqID%2 == 0 {
				s.Required(reqOpts(n)...) // builder calls commute: Required once more AFTER Default / Catch (last call wins, same options)
			}
			for _, t := range n.Tests {
				o := t.Opts.zopts()
				switch t.Name {
				case "tcmp":
					switch t.Op {
					case "gt":
						s.After(t.Arg.T, o...)
					case "lt":
						s.Before(t.Arg.T, o...)
					default:
						s.EQ(t.Arg.T, o...)
					}
				case "fn":
					if t.Reuse || t.Raw {
						s.Test(builtTest(n, t, rec))
					} else {
						s.TestFunc(fnTest(n, t, rec), o...)
					}
				default:
					panic("time test " + t.Name)
				}
			}
			for _, ps := range n.Posts {
				s.PostTransform(postFn(n, ps, rec))
			}
			return s
		}
	case "slice":
		s := z.Slice(Build(n.Elem, rec), schemaOpts(n)...)
		if n.Req != nil {
			s.Required(reqOpts(n)...)
		} else if len(n.Tests)%2 == 0 {
			s.Required().Optional() // last call wins
		}
		if n.SliceDfltD != nil {
			// the default is a Go slice of the destination type
			rv := reflect.New(n.GoType()).Elem()
			SetD(n, rv, *n.SliceDfltD)
			if rv.IsNil() {
				rv.Set(reflect.MakeSlice(n.GoType(), 0, 0))
			}
			s.Default(rv.Interface())
		}
		for _, t := range n.Tests {
			o := t.Opts.zopts()
			switch t.Name {
			case "min":
				s.Min(int(t.N), o...)
			case "max":
				s.Max(int(t.N), o...)
			case "len":
				s.Len(int(t.N), o...)
			case "slcontains":
				s.Contains(dGoValue(t.Arg), o...)
			case "fn":
				if t.Reuse || t.Raw {
					s.Test(builtTest(n, t, rec))
				} else {
					s.TestFunc(fnTest(n, t, rec), o...)
				}
			default:
				panic("slice test " + t.Name)
			}
		}
		for _, ps := range n.Posts {
			s.PostTransform(postFn(n, ps, rec))
		}
		return s
	case "pre":
		return buildPre(n, rec)
	case "ptr":
		s := z.Ptr(Build(n.Elem, rec))
		if n.Elem.Coercer != "" && n.Elem.CoercerViaPtr {
			z.WithCoercer(NamedCoercer(n.Elem.Coercer))(s) // Ptr passes the coercer through to the pointed-to schema
		}
		if n.NotNil != nil {
			s.NotNil(n.NotNil.zopts()...)
		}
		return s
	case "struct":
		sch := z.Schema{}
		built := make([]z.ZogSchema, len(n.Fields))
		for i, f := range n.Fields {
			built[i] = Build(f.S, rec)
		}
		if len(n.BuildOrder) == len(n.Fields) {
			for _, i := range n.BuildOrder {
				sch[n.Fields[i].Key] = built[i]
			}
		} else {
			for i, f := range n.Fields {
				sch[f.Key] = built[i]
			}
		}
		s := z.Struct(sch)
		switch len(n.Fields) % 3 { // deprecated no-ops
		case 0:
			s = s.Required()
		case 1:
			s = s.Optional()
		}
		for _, t := range n.Tests {
			if t.Name != "fn" {
				panic("struct test " + t.Name)
			}
			if t.Reuse || t.Raw {
				s.Test(builtTest(n, t, rec))
			} else {
				s.TestFunc(fnTest(n, t, rec), t.Opts.zopts()...)
			}
		}
		for _, ps := range n.Posts {
			s.PostTransform(postFn(n, ps, rec))
		}
		return s
	case "custom":
		t := n.CTest
		if n.CK == "int" {
			return z.CustomFunc(func(ptr *int, ctx z.Ctx) bool {
				rec.notePtr("custom", t.ID, ctx, ptr)
				d := argD(n, ptr)
				rec.addEvent(Event{"custom", t.ID, ctxPath(ctx), d})
				return d.K != "nilarg" && emod(d.Measure(), t.N) == t.R
			}, t.Opts.zopts()...)
		}
		return z.CustomFunc(func(ptr *string, ctx z.Ctx) bool {
			rec.notePtr("custom", t.ID, ctx, ptr)
			d := argD(n, ptr)
			rec.addEvent(Event{"custom", t.ID, ctxPath(ctx), d})
			return d.K != "nilarg" && emod(d.Measure(), t.N) == t.R
		}, t.Opts.zopts()...)
	}
	panic(fmt.Sprintf("Build: bad node %s/%s", n.Kind, n.PK))
}

// ---- exported pieces used by the builder stream ----

func (o TOpts) Zopts() []z.TestOption { return o.zopts() }

func FnTestFunc(n *Node, t TestSpec, rec *Recorder) z.BoolTFunc    { return fnTest(n, t, rec) }
func PostFunc(n *Node, ps PostSpec, rec *Recorder) z.PostTransform { return postFn(n, ps, rec) }

// ApplyStringTest adds one negatable / plain built-in string test; ns is the pending Not() receiver or nil.
func ApplyStringTest(s *z.StringSchema[string], ns z.NotStringSchema[string], t TestSpec) {
	o := t.Opts.zopts()
	if t.Name == "min" {
		s.Min(int(t.N), o...)
		return
	}
	if t.Name == "max" {
		s.Max(int(t.N), o...)
		return
	}
	if ns == nil {
		ns = s
	}
	switch t.Name {
	case "len":
		ns.Len(int(t.N), o...)
	case "prefix":
		ns.HasPrefix(t.S, o...)
	case "suffix":
		ns.HasSuffix(t.S, o...)
	case "contains":
		ns.Contains(t.S, o...)
	case "upper":
		ns.ContainsUpper(o...)
	case "digit":
		ns.ContainsDigit(o...)
	case "special":
		ns.ContainsSpecial(o...)
	case "uuid":
		ns.UUID(o...)
	case "email":
		ns.Email(o...)
	case "oneof":
		ns.OneOf(sharedStrEnum(t.Args), o...)
	default:
		panic("ApplyStringTest " + t.Name)
	}
}

func ApplyIntTest(s *z.NumberSchema[int], t TestSpec) {
	o := t.Opts.zopts()
	switch t.Name {
	case "cmp":
		a := int(t.Arg.I)
		switch t.Op {
		case "eq":
			s.EQ(a, o...)
		case "lt":
			s.LT(a, o...)
		case "lte":
			s.LTE(a, o...)
		case "gt":
			s.GT(a, o...)
		case "gte":
			s.GTE(a, o...)
		}
	case "oneof":
		xs := make([]int, len(t.Args))
		for i, a := range t.Args {
			xs[i] = int(a.I)
		}
		s.OneOf(xs, o...)
	default:
		panic("ApplyIntTest " + t.Name)
	}
}

// ---------- Preprocess ----------

func preErr(n *Node, rec *Recorder) error {
	if n.PreKind == "failissue" && n.PreIss.Code == "shared" {
		// ONE sentinel issue value for every node of the schema that fails this way (`var ErrDenied = &z.ZogIssue{...}`
		// returned from several callbacks): the library reports it as it is
		rec.mu.Lock()
		defer rec.mu.Unlock()
		if rec.Sentinel == nil {
			rec.Sentinel = &z.ZogIssue{Code: "shared"}
		}
		return rec.Sentinel
	}
	if n.PreKind == "failissue" {
		return &z.ZogIssue{Code: n.PreIss.Code, Path: n.PreIss.Path, Dtype: n.PreIss.DType, Message: n.PreIss.Msg}
	}
	if n.PreKind == "failwrap" {
		return fmt.Errorf("inner schema rejected the value: %w", &z.ZogIssue{Code: "inner_code", Path: "inner.path", Dtype: "inner", Message: "inner message"})
	}
	return errors.New("preprocess failed")
}

func valPre[T any](n *Node, rec *Recorder, inner z.ZogSchema, bump func(T) T) z.ZogSchema {
	return z.Preprocess(func(p *T, ctx z.Ctx) (T, error) {
		noteCtx(ctx, rec)
		rec.addEvent(Event{"pre", n.PreID, ctxPath(ctx), DOf(n.Elem, reflect.ValueOf(p).Elem())})
		switch n.PreKind {
		case "vinc":
			return bump(*p), nil
		case "vfail":
			return *p, errors.New(n.PreMsg)
		}
		return *p, nil
	}, inner)
}

func buildPre(n *Node, rec *Recorder) z.ZogSchema {
	inner := Build(n.Elem, rec)
	note := func(data any, ctx z.Ctx) {
		noteCtx(ctx, rec)
		v := VOfGo(data)
		rec.addEvent(Event{"pre", n.PreID, ctxPath(ctx), D{K: "cu", CV: &v}})
	}
	switch n.PreKind {
	case "idany":
		return z.Preprocess(func(data any, ctx z.Ctx) (any, error) { note(data, ctx); return data, nil }, inner)
	case "fail", "failissue", "failwrap":
		return z.Preprocess(func(data any, ctx z.Ctx) (any, error) { note(data, ctx); return data, preErr(n, rec) }, inner)
	case "atoi":
		return z.Preprocess(func(data string, ctx z.Ctx) (int, error) {
			note(data, ctx)
			k, err := strconv.Atoi(data)
			if err != nil {
				return 0, errors.New("not a number")
			}
			return k, nil
		}, inner)
	case "trim":
		return z.Preprocess(func(data string, ctx z.Ctx) (string, error) { note(data, ctx); return strings.TrimSpace(data), nil }, inner)
	case "mismatch":
		return z.Preprocess(func(data chan int, ctx z.Ctx) (int, error) { note(data, ctx); return 0, nil }, inner)
	case "vid", "vinc", "vfail":
		switch n.Elem.PK {
		case "int":
			return valPre(n, rec, inner, func(x int) int {
				if x < 1000000 {
					return x + 1
				}
				return x
			})
		case "str":
			return valPre(n, rec, inner, func(x string) string { return x + "!" })
		case "bool":
			return valPre(n, rec, inner, func(x bool) bool { return !x })
		}
	}
	panic("buildPre: " + n.PreKind + "/" + n.Elem.PK)
}

// sharedStrEnum: the enum of a string OneOf as ONE slice per distinct content for the whole process, with spare
// capacity — the way an application declares `var roles = append(base, ...)` once and hands it to several
// schemas. A schema only reads its enum; nothing an execution does may write into that memory.
var (
	enumMu    sync.Mutex
	strEnums  = map[string][]string{}
	enumCheck = map[string]string{}
)

func sharedStrEnum(args []D) []string {
	key := ""
	for _, a := range args {
		key += fmt.Sprintf("%q,", a.S)
	}
	enumMu.Lock()
	defer enumMu.Unlock()
	if xs, ok := strEnums[key]; ok {
		return xs
	}
	xs := make([]string, 0, len(args)+8)
	for _, a := range args {
		xs = append(xs, a.S)
	}
	strEnums[key] = xs
	return xs
}

// EnumsIntact reports an enum slice whose spare capacity has been written to ("" = all intact)
func EnumsIntact() string {
	enumMu.Lock()
	defer enumMu.Unlock()
	for key, xs := range strEnums {
		full := xs[:cap(xs)]
		for i := len(xs); i < len(full); i++ {
			if full[i] != "" {
				return fmt.Sprintf("the spare capacity of the enum slice [%s] handed to OneOf now holds %q at index %d", key, full[i], i)
			}
		}
	}
	return ""
}
