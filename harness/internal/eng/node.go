package eng

import (
	"fmt"
	"reflect"
	"sort"
	"strconv"
	"strings"

	"verif/harness/internal/sx"
)

type TOpts struct {
	Code      *string
	Path      *string
	Msg       *string
	Params    [][2]string // nil = not given
	HasParams bool
	// MsgFromParams: the test carries a MessageFunc that renders the issue's Params at the moment it is called
	// ("P[k=v ...]", keys sorted); the wire carries the rendering the test's own parameters must give
	MsgFromParams bool
}

func (o TOpts) Sx() *sx.Node {
	items := []*sx.Node{}
	if o.Code != nil {
		items = append(items, sx.T("code", sx.S(*o.Code)))
	}
	if o.Path != nil {
		items = append(items, sx.T("path", sx.S(*o.Path)))
	}
	if o.Msg != nil {
		items = append(items, sx.T("msg", sx.S(*o.Msg)))
	}
	if o.HasParams {
		kvs := []*sx.Node{}
		for _, kv := range o.Params {
			kvs = append(kvs, sx.L(sx.S(kv[0]), sx.S(kv[1])))
		}
		items = append(items, sx.T("params", kvs...))
	}
	return sx.T("o", items...)
}

type TestSpec struct {
	ID   int
	Not  bool
	Name string // min max len prefix suffix contains upper digit special uuid email oneof cmp booleq tcmp slcontains fn
	N    int64  // min/max/len bound; fn: Mod
	R    int64  // fn: Rem
	S    string // prefix/suffix/contains
	Op   string // cmp/tcmp operator
	Arg  D      // cmp / slcontains / tcmp argument
	Args []D    // oneof
	Opts TOpts
	// Reuse: the callback test is built once with z.TestFunc(code, fn), copied by value, the copy is
	// specialised with the options and registered with schema.Test(copy)
	Reuse bool
	// Raw: the callback test is a raw z.Test{Func} that adds its own issue through ctx.AddIssue
	Raw bool
}

func (t TestSpec) Sx(ext *Ext) *sx.Node {
	items := []*sx.Node{sx.I(int64(t.ID)), sx.B(t.Not), sx.A(t.Name)}
	switch t.Name {
	case "min", "max", "len":
		items = append(items, sx.I(t.N))
	case "prefix", "suffix", "contains":
		items = append(items, sx.S(t.S))
	case "oneof":
		for _, a := range t.Args {
			items = append(items, a.Sx())
			ext.NoteDisplayD(a, dGoValue(a))
		}
	case "cmp":
		items = append(items, sx.A(t.Op), t.Arg.Sx())
		ext.NoteDisplayD(t.Arg, dGoValue(t.Arg))
	case "booleq":
		items = append(items, sx.B(t.Arg.B))
	case "tcmp":
		items = append(items, sx.A(t.Op), sx.A(timeNs(t.Arg.T).String()), sx.S(fmt.Sprintf("%v", t.Arg.T)))
	case "slcontains":
		items = append(items, t.Arg.Sx())
		ext.NoteDisplayD(t.Arg, dGoValue(t.Arg))
	case "fn":
		items = append(items, sx.I(t.N), sx.I(t.R))
	}
	o := t.Opts
	if o.MsgFromParams {
		m := t.paramsRendering()
		o.Msg = &m
	}
	items = append(items, o.Sx())
	return sx.T("t", items...)
}

type PostSpec struct {
	ID    int
	Kind  string // id inc set fail incfail failissue
	Set   D
	Code  string
	Path  string
	Msg   string
	DType string
}

func (p PostSpec) Sx() *sx.Node {
	items := []*sx.Node{sx.I(int64(p.ID)), sx.A(p.Kind)}
	switch p.Kind {
	case "set":
		items = append(items, p.Set.Sx())
	case "failissue":
		items = append(items, sx.S(p.Code), sx.S(p.Path), sx.S(p.DType), sx.S(p.Msg))
	}
	return sx.T("p", items...)
}

type Field struct {
	Key    string
	GoName string
	Tags   [][2]string
	// Alt: this field's destination has the schema's SECOND Go type (GoTypeAlt) — used when one schema
	// object sits at several positions, so that each position may have its own destination type
	Alt bool
	S   *Node
}

func (f Field) TagString() string {
	parts := []string{}
	for _, t := range f.Tags {
		parts = append(parts, fmt.Sprintf("%s:%q", t[0], t[1]))
	}
	return strings.Join(parts, " ")
}

type Node struct {
	Kind string // prim slice ptr struct custom
	PK   string // str int i32 i64 f64 f32 bool time

	Req    *TOpts
	ReqID  int
	Dflt   *D
	Catch  *D
	Layout string
	// Coercer: named custom coercer installed with z.WithCoercer (prim: plus100 strlen sfx yn; slice: csv);
	// CoercerViaPtr: the option is applied to the enclosing Ptr schema (which passes it through) instead
	// of the primitive's constructor — the same schema either way
	Coercer       string
	CoercerViaPtr bool

	SliceDfltIn *V
	SliceDfltD  *D

	Tests []TestSpec
	Posts []PostSpec

	Elem   *Node
	NotNil *TOpts
	NNID   int

	Fields []Field
	// order in which fields are inserted into the z.Schema map (nil = declaration order)
	BuildOrder []int
	Extra      []string // extra Go fields (type int) the schema does not name

	CK    string // custom: int | str
	CTest TestSpec

	// pre: Preprocess(fn, Elem). Parse kinds: idany fail failissue atoi trim mismatch; Validate kinds: vid vinc vfail
	PreKind string
	PreID   int
	PreMsg  string
	PreIss  PostSpec // failissue: Code Path Msg DType

	rtype    reflect.Type
	rtypeAlt reflect.Type
}

func (n *Node) DType() string {
	switch n.Kind {
	case "prim":
		switch n.PK {
		case "str":
			return "string"
		case "bool":
			return "bool"
		case "time":
			return "time"
		default:
			return "number"
		}
	case "slice":
		return "slice"
	case "ptr", "pre":
		return n.Elem.DType()
	case "struct":
		return "struct"
	}
	return "custom"
}

func testsSx(ts []TestSpec, ext *Ext) *sx.Node {
	xs := make([]*sx.Node, len(ts))
	for i, t := range ts {
		xs[i] = t.Sx(ext)
	}
	return sx.L(xs...)
}

func postsSx(ps []PostSpec) *sx.Node {
	xs := make([]*sx.Node, len(ps))
	for i, p := range ps {
		xs[i] = p.Sx()
	}
	return sx.L(xs...)
}

func (n *Node) Sx(ext *Ext) *sx.Node {
	switch n.Kind {
	case "prim":
		mods := []*sx.Node{}
		if n.Req != nil {
			mods = append(mods, sx.T("req", sx.I(int64(n.ReqID)), n.Req.Sx()))
		}
		if n.Dflt != nil {
			mods = append(mods, sx.T("dflt", n.Dflt.Sx()))
		}
		if n.Catch != nil {
			mods = append(mods, sx.T("catch", n.Catch.Sx()))
		}
		if n.Layout != "" {
			mods = append(mods, sx.T("layout", sx.S(n.Layout)))
		}
		if n.Coercer != "" {
			mods = append(mods, sx.T("coercer", sx.A(n.Coercer)))
		}
		return sx.T("prim", sx.A(n.PK), sx.T("mods", mods...), testsSx(n.Tests, ext), postsSx(n.Posts))
	case "slice":
		mods := []*sx.Node{}
		if n.Req != nil {
			mods = append(mods, sx.T("req", sx.I(int64(n.ReqID)), n.Req.Sx()))
		}
		if n.SliceDfltIn != nil {
			mods = append(mods, sx.T("dflt", n.SliceDfltIn.Sx(), n.SliceDfltD.Sx()))
		}
		if n.Coercer != "" {
			mods = append(mods, sx.T("coercer", sx.A(n.Coercer)))
		}
		return sx.T("slice", n.Elem.Sx(ext), ZeroD(n.Elem).Sx(), sx.T("mods", mods...), testsSx(n.Tests, ext), postsSx(n.Posts))
	case "ptr":
		nn := sx.A("-")
		if n.NotNil != nil {
			nn = sx.T("nn", sx.I(int64(n.NNID)), n.NotNil.Sx())
		}
		return sx.T("ptr", n.Elem.Sx(ext), ZeroD(n.Elem).Sx(), nn)
	case "struct":
		fs := make([]*sx.Node, len(n.Fields))
		for i, f := range n.Fields {
			tags := []*sx.Node{}
			for _, t := range f.Tags {
				tags = append(tags, sx.L(sx.A(t[0]), sx.S(t[1])))
			}
			fs[i] = sx.L(sx.S(f.Key), sx.A(f.GoName), sx.L(tags...), f.S.Sx(ext))
		}
		return sx.T("struct", sx.L(fs...), testsSx(n.Tests, ext), postsSx(n.Posts))
	case "custom":
		return sx.T("custom", sx.A(n.CK), n.CTest.Sx(ext))
	case "pre":
		fn := []*sx.Node{}
		switch n.PreKind {
		case "vfail":
			fn = append(fn, sx.S(n.PreMsg))
		case "failissue":
			fn = append(fn, sx.S(n.PreIss.Code), sx.S(n.PreIss.Path), sx.S(n.PreIss.DType), sx.S(n.PreIss.Msg))
		}
		return sx.T("pre", sx.I(int64(n.PreID)), sx.T(n.PreKind, fn...), n.Elem.Sx(ext))
	}
	panic("Sx: bad node")
}

// ---------- external-function oracle ----------

// Ext collects the values of external functions (fmt %v, strconv.ParseFloat, time.Parse) on the
// arguments that occur in a case, computed by calling the standard library directly — never through zog.
type Ext struct {
	items   []*sx.Node
	seen    map[string]bool
	Layouts []string
}

func NewExt() *Ext { return &Ext{seen: map[string]bool{}, Layouts: []string{"RFC3339"}} }

func (e *Ext) add(n *sx.Node) {
	k := n.String()
	if !e.seen[k] {
		e.seen[k] = true
		e.items = append(e.items, n)
	}
}

func (e *Ext) NoteDisplayD(d D, goVal any) {
	if d.K == "p" {
		// %v of a pointer is an address: the parameter's rendering is not compared for pointer arguments
		e.add(sx.T("disp", d.Sx(), sx.S("<pointer>")))
		return
	}
	e.add(sx.T("disp", d.Sx(), sx.S(fmt.Sprintf("%v", goVal))))
}

func (e *Ext) NoteDisplayV(v V) {
	if v.HasPointer() {
		return // %v would print an address; no schema of the case language displays such a value
	}
	e.add(sx.T("disp", v.Sx(), sx.S(fmt.Sprintf("%v", v.Go()))))
}

func (e *Ext) Sx() *sx.Node { return sx.T("ext", e.items...) }

// dGoValue: the Go value a D literal stands for (for %v rendering of parameters)
func dGoValue(d D) any {
	switch d.K {
	case "s":
		return d.S
	case "i":
		switch d.NK {
		case "i32":
			return int32(d.I)
		case "i64":
			return int64(d.I)
		}
		return int(d.I)
	case "f":
		if d.NK == "f32" {
			return float32(d.F)
		}
		return d.F
	case "b":
		return d.B
	case "t":
		return d.T
	case "p":
		// a pointer to an int / string destination value (fresh allocation: a DISTINCT pointer to an equal value)
		if d.P == nil {
			return (*int)(nil)
		}
		switch d.P.K {
		case "i":
			x := int(d.P.I)
			return &x
		case "s":
			x := d.P.S
			return &x
		}
	}
	return nil
}

func oneOfGoValue(ds []D) any {
	out := make([]any, len(ds))
	for i, d := range ds {
		out[i] = dGoValue(d)
	}
	return out
}

// paramsRendering: what a MessageFunc that prints e.Params must see for this test ("P[k=v ...]", keys sorted)
func (t TestSpec) paramsRendering() string {
	kv := map[string]string{}
	if t.Opts.HasParams {
		for _, p := range t.Opts.Params {
			kv[p[0]] = p[1]
		}
	} else {
		switch t.Name {
		case "min", "max", "len":
			kv[t.Name] = strconv.FormatInt(t.N, 10)
		case "prefix", "suffix":
			kv[t.Name] = t.S
		case "contains":
			kv["contained"] = t.S
		}
	}
	return RenderParams(kv)
}

// ParamsRenderable: tests whose built-in parameters paramsRendering knows
func (t TestSpec) ParamsRenderable() bool {
	switch t.Name {
	case "min", "max", "len", "prefix", "suffix", "contains":
		return true
	}
	return false
}

func RenderParams(kv map[string]string) string {
	keys := make([]string, 0, len(kv))
	for k := range kv {
		keys = append(keys, k)
	}
	sort.Strings(keys)
	out := "P["
	for i, k := range keys {
		if i > 0 {
			out += " "
		}
		out += k + "=" + kv[k]
	}
	return out + "]"
}
