// Package eng: the S-engine stream — case description, real-zog execution, canonical results.
package eng

import (
	"fmt"
	"math"
	"math/big"
	"reflect"
	"sort"
	"strconv"
	"strings"
	"sync/atomic"
	"time"

	"verif/harness/internal/sx"
)

// ---------- input values (what is handed to Parse) ----------

type V struct {
	K    string // nil s i b f64 f32 t l o fl x
	S    string
	IK   string // int i64 i32 other
	I    int64
	B    bool
	F    float64
	T    time.Time
	L    []V
	O    []KV
	Desc string
	// Typed: a list whose elements all have one scalar Go type is handed over as a typed Go slice
	// ([]int, []string, []bool, []float64) instead of []any — the same list for the model
	Typed bool
}

type KV struct {
	K string
	V V
}

func VNil() V             { return V{K: "nil"} }
func VStr(s string) V     { return V{K: "s", S: s} }
func VInt(n int64) V      { return V{K: "i", IK: "int", I: n} }
func VBool(b bool) V      { return V{K: "b", B: b} }
func VF64(f float64) V    { return V{K: "f64", F: f} }
func VTime(t time.Time) V { return V{K: "t", T: t} }
func VList(xs ...V) V     { return V{K: "l", L: xs} }
func VObj(kvs ...KV) V    { return V{K: "o", O: kvs} }

// fvalSx renders the exact value of a float as (m e) with odd m, or nan/+inf/-inf/-0.
func fvalSx(f float64) *sx.Node {
	switch {
	case math.IsNaN(f):
		return sx.A("nan")
	case math.IsInf(f, 1):
		return sx.A("+inf")
	case math.IsInf(f, -1):
		return sx.A("-inf")
	case f == 0 && math.Signbit(f):
		return sx.A("-0")
	case f == 0:
		return sx.L(sx.I(0), sx.I(0))
	}
	fr, exp := math.Frexp(f) // f = fr * 2^exp, 0.5 <= |fr| < 1
	m := int64(fr * (1 << 53))
	e := exp - 53
	for m%2 == 0 {
		m /= 2
		e++
	}
	return sx.L(sx.I(m), sx.I(int64(e)))
}

func timeNs(t time.Time) *big.Int {
	// unix nanoseconds, exact (UnixNano overflows for year 1)
	ns := new(big.Int).Mul(big.NewInt(t.Unix()), big.NewInt(1000000000))
	return ns.Add(ns, big.NewInt(int64(t.Nanosecond())))
}

// timeIsZeroStruct: reflect.Value.IsZero on a time.Time (wall, ext, loc all zero)
func timeIsPlainUTC(t time.Time) bool {
	return t.Location() == time.UTC && reflect.ValueOf(t).FieldByName("loc").IsNil()
}

func timeSx(tag string, t time.Time) *sx.Node {
	return sx.T(tag, sx.A(timeNs(t).String()), sx.B(timeIsPlainUTC(t)))
}

func (v V) Sx() *sx.Node {
	switch v.K {
	case "nil":
		return sx.A("nil")
	case "s":
		return sx.T("s", sx.S(v.S))
	case "i":
		return sx.T("i", sx.A(v.IK), sx.I(v.I))
	case "b":
		return sx.T("b", sx.B(v.B))
	case "f64":
		return sx.T("f64", fvalSx(v.F))
	case "f32":
		return sx.T("f32", fvalSx(v.F))
	case "t":
		return timeSx("t", v.T)
	case "l":
		xs := make([]*sx.Node, len(v.L))
		for i, x := range v.L {
			xs[i] = x.Sx()
		}
		return sx.T("l", xs...)
	case "o", "fl", "so":
		xs := make([]*sx.Node, len(v.O))
		for i, kv := range v.O {
			xs[i] = sx.L(sx.S(kv.K), kv.V.Sx())
		}
		tag := v.K
		if tag == "so" {
			tag = "o" // a struct input presents the same record as a map
		}
		return sx.T(tag, xs...)
	case "x":
		return sx.T("x", sx.A(v.Desc))
	}
	panic("bad V kind " + v.K)
}

type unsupported struct{ X int }

// Go builds the Go value handed to zog.
func (v V) Go() any {
	switch v.K {
	case "nil":
		return nil
	case "s":
		return v.S
	case "i":
		switch v.IK {
		case "int":
			return int(v.I)
		case "i64":
			return int64(v.I)
		case "i32":
			return int32(v.I)
		default:
			return int8(v.I)
		}
	case "b":
		return v.B
	case "f64":
		return v.F
	case "f32":
		return float32(v.F)
	case "t":
		return v.T
	case "l":
		if v.Typed && len(v.L) > 0 {
			if ts := typedSlice(v.L); ts != nil {
				return ts
			}
		}
		out := make([]any, len(v.L))
		for i, x := range v.L {
			out[i] = x.Go()
		}
		return out
	case "so":
		// a Go STRUCT value as input: one exported field per entry (StructDataProvider)
		fs := make([]reflect.StructField, len(v.O))
		vals := make([]any, len(v.O))
		for i, kv := range v.O {
			vals[i] = kv.V.Go()
			t := reflect.TypeOf((*any)(nil)).Elem()
			if vals[i] != nil {
				t = reflect.TypeOf(vals[i])
			}
			fs[i] = reflect.StructField{Name: kv.K, Type: t}
		}
		sv := reflect.New(reflect.StructOf(fs)).Elem()
		for i, x := range vals {
			if x != nil {
				sv.Field(i).Set(reflect.ValueOf(x))
			}
		}
		if v.Typed {
			p := reflect.New(sv.Type())
			p.Elem().Set(sv)
			return p.Interface() // a pointer to the struct
		}
		return sv.Interface()
	case "o":
		if v.Typed && len(v.O) > 0 {
			if tm := typedMap(v.O); tm != nil {
				return tm
			}
		}
		out := make(map[string]any, len(v.O))
		for _, kv := range v.O {
			out[kv.K] = kv.V.Go()
		}
		return out
	case "x":
		// Go values of dynamic types the coercers' type switches do not list (each with a deterministic %v)
		switch {
		case v.Desc == "nsblank":
			return namedStr("  ")
		case strings.HasPrefix(v.Desc, "ns:"):
			return namedStr(strings.TrimPrefix(v.Desc, "ns:"))
		case strings.HasPrefix(v.Desc, "ni:"):
			n, _ := strconv.Atoi(strings.TrimPrefix(v.Desc, "ni:"))
			return namedInt(n)
		case v.Desc == "pnil":
			return (*string)(nil)
		case v.Desc == "u8":
			return uint8(7)
		}
		// a Go value of a type no coercer supports (and with a deterministic %v rendering)
		return unsupported{X: 3}
	}
	panic("bad V kind " + v.K)
}

// typedMap: map[string]string / int / bool / float64 when every value has that Go type, else nil
func typedMap(kvs []KV) any {
	vals := make([]V, len(kvs))
	for i, kv := range kvs {
		vals[i] = kv.V
	}
	switch ts := typedSlice(vals).(type) {
	case []string:
		out := map[string]string{}
		for i, kv := range kvs {
			out[kv.K] = ts[i]
		}
		return out
	case []int:
		out := map[string]int{}
		for i, kv := range kvs {
			out[kv.K] = ts[i]
		}
		return out
	case []bool:
		out := map[string]bool{}
		for i, kv := range kvs {
			out[kv.K] = ts[i]
		}
		return out
	case []float64:
		out := map[string]float64{}
		for i, kv := range kvs {
			out[kv.K] = ts[i]
		}
		return out
	}
	return nil
}

type namedStr string
type namedInt int

// typedSlice: []int / []string / []bool / []float64 when every element has that Go type, else nil
func typedSlice(l []V) any {
	kind := l[0].K
	if kind == "i" {
		kind = "i:" + l[0].IK
	}
	for _, x := range l {
		k := x.K
		if k == "i" {
			k = "i:" + x.IK
		}
		if k != kind {
			return nil
		}
	}
	switch kind {
	case "i:int":
		out := make([]int, len(l))
		for i, x := range l {
			out[i] = int(x.I)
		}
		return out
	case "s":
		out := make([]string, len(l))
		for i, x := range l {
			out[i] = x.S
		}
		return out
	case "b":
		out := make([]bool, len(l))
		for i, x := range l {
			out[i] = x.B
		}
		return out
	case "f64":
		out := make([]float64, len(l))
		for i, x := range l {
			out[i] = x.F
		}
		return out
	}
	return nil
}

// VOfGo reads back an input value handed to a callback (object keys sorted: canonical form).
func VOfGo(x any) V {
	switch t := x.(type) {
	case nil:
		return VNil()
	case string:
		return VStr(t)
	case int:
		return V{K: "i", IK: "int", I: int64(t)}
	case int64:
		return V{K: "i", IK: "i64", I: t}
	case int32:
		return V{K: "i", IK: "i32", I: int64(t)}
	case int8:
		return V{K: "i", IK: "other", I: int64(t)}
	case bool:
		return VBool(t)
	case float64:
		return VF64(t)
	case float32:
		return V{K: "f32", F: float64(t)}
	case time.Time:
		return VTime(t)
	case []any:
		out := V{K: "l"}
		for _, e := range t {
			out.L = append(out.L, VOfGo(e))
		}
		return out
	case map[string]any:
		out := V{K: "o"}
		for _, k := range sortedKeys(t) {
			out.O = append(out.O, KV{k, VOfGo(t[k])})
		}
		return out
	case unsupported:
		return V{K: "x", Desc: "chan"}
	case namedStr:
		if t == "  " {
			return V{K: "x", Desc: "nsblank"}
		}
		return V{K: "x", Desc: "ns:" + string(t)}
	case namedInt:
		return V{K: "x", Desc: "ni:" + strconv.Itoa(int(t))}
	case uint8:
		return V{K: "x", Desc: "u8"}
	case *string:
		if t == nil {
			return V{K: "x", Desc: "pnil"}
		}
		return V{K: "x", Desc: "unknown"}
	case []int, []string, []bool, []float64:
		// a typed slice is the same list for the model
		rv := reflect.ValueOf(x)
		out := V{K: "l"}
		for i := 0; i < rv.Len(); i++ {
			out.L = append(out.L, VOfGo(rv.Index(i).Interface()))
		}
		return out
	}
	// struct inputs (and pointers to them) read back as the record they present
	rv := reflect.ValueOf(x)
	ptr := false
	if rv.Kind() == reflect.Pointer && !rv.IsNil() && rv.Elem().Kind() == reflect.Struct {
		rv, ptr = rv.Elem(), true
	}
	if rv.Kind() == reflect.Map && rv.Type().Key().Kind() == reflect.String && rv.Type().Name() == "" {
		// a typed map (map[string]string, ...) is the same record for the model
		out := V{K: "o", Typed: true}
		keys := []string{}
		for _, k := range rv.MapKeys() {
			keys = append(keys, k.String())
		}
		sort.Strings(keys)
		for _, k := range keys {
			out.O = append(out.O, KV{k, VOfGo(rv.MapIndex(reflect.ValueOf(k)).Interface())})
		}
		return out
	}
	if rv.Kind() == reflect.Struct && rv.Type().Name() == "" {
		out := V{K: "so", Typed: ptr}
		for i := 0; i < rv.NumField(); i++ {
			if rv.Type().Field(i).IsExported() {
				out.O = append(out.O, KV{rv.Type().Field(i).Name, VOfGo(rv.Field(i).Interface())})
			}
		}
		sort.Slice(out.O, func(i, j int) bool { return out.O[i].K < out.O[j].K }) // canonical form, as for maps
		return out
	}
	return V{K: "x", Desc: "unknown"}
}

// HasPointer: the value contains a pointer (its %v rendering would print an address)
func (v V) HasPointer() bool {
	if v.K == "so" && v.Typed {
		return true
	}
	for _, x := range v.L {
		if x.HasPointer() {
			return true
		}
	}
	for _, kv := range v.O {
		if kv.V.HasPointer() {
			return true
		}
	}
	return false
}

// AsString: the string rendering a flat source would carry for this leaf
func (d D) AsString() string {
	switch d.K {
	case "s":
		return d.S
	case "i":
		return strconv.FormatInt(d.I, 10)
	case "f":
		return strconv.FormatFloat(d.F, 'g', -1, 64)
	case "b":
		return strconv.FormatBool(d.B)
	case "t":
		return d.T.Format(time.RFC3339)
	}
	return ""
}

// ---------- destination values ----------

type D struct {
	K  string // s i f b t sl st p cu nilarg
	S  string
	NK string // int i32 i64 f32 f64
	I  int64
	F  float64
	B  bool
	T  time.Time
	L  []D
	FS []DF
	P  *D // pointer target (nil = nil pointer)
	CV *V // custom
}

type DF struct {
	Name string
	D    D
}

func (d D) Sx() *sx.Node {
	switch d.K {
	case "s":
		return sx.T("s", sx.S(d.S))
	case "i":
		return sx.T("i", sx.A(d.NK), sx.I(d.I))
	case "f":
		return sx.T("f", sx.A(d.NK), fvalSx(d.F))
	case "b":
		return sx.T("b", sx.B(d.B))
	case "t":
		return timeSx("t", d.T)
	case "sl":
		xs := make([]*sx.Node, len(d.L))
		for i, x := range d.L {
			xs[i] = x.Sx()
		}
		return sx.T("sl", xs...)
	case "st":
		xs := make([]*sx.Node, len(d.FS))
		for i, f := range d.FS {
			xs[i] = sx.L(sx.A(f.Name), f.D.Sx())
		}
		return sx.T("st", xs...)
	case "p":
		if d.P == nil {
			return sx.T("p")
		}
		return sx.T("p", d.P.Sx())
	case "cu":
		return sx.T("cu", d.CV.Sx())
	case "nilarg":
		return sx.A("nilarg")
	}
	panic("bad D kind " + d.K)
}

// Measure: the integer the table-defined callback predicates look at (same definition as Wire.measure).
func (d D) Measure() int64 {
	switch d.K {
	case "s":
		return int64(len(d.S))
	case "i":
		return emod(d.I, 1009)
	case "f":
		if math.IsNaN(d.F) || math.IsInf(d.F, 0) {
			return 0
		}
		bf := new(big.Float).SetFloat64(d.F)
		bi, _ := bf.Int(nil)
		m := new(big.Int).Mod(bi, big.NewInt(1009)) // Euclidean for positive modulus
		return m.Int64()
	case "b":
		if d.B {
			return 1
		}
		return 0
	case "t":
		// floor division of unix ns by 1e9 (Lean Int./ is floor for positive divisor)
		return d.T.Unix()
	case "sl":
		return int64(len(d.L))
	case "st":
		var s int64
		for _, f := range d.FS {
			s += f.D.Measure()
		}
		return s
	case "p":
		if d.P == nil {
			return 0
		}
		return d.P.Measure()
	case "cu":
		switch d.CV.K {
		case "i":
			return emod(d.CV.I, 1009)
		case "s":
			return int64(len(d.CV.S))
		}
		return 0
	}
	return 0
}

func emod(a, m int64) int64 {
	if m == 0 {
		return a
	}
	if m < 0 {
		m = -m
	}
	r := a % m
	if r < 0 {
		r += m
	}
	return r
}

var timeType = reflect.TypeOf(time.Time{})

var emptyForm atomic.Int64

// GoType of the destination for a schema node.
// GoTypeAlt: a SECOND destination type for the same schema — every struct level has its fields in
// reverse order behind a padding field, so that same-named fields sit at different positions
// (a schema object may be used with any destination type that has its fields)
func (n *Node) GoTypeAlt() reflect.Type {
	switch n.Kind {
	case "pre":
		return n.Elem.GoTypeAlt()
	case "slice":
		return reflect.SliceOf(n.Elem.GoTypeAlt())
	case "ptr":
		return reflect.PointerTo(n.Elem.GoTypeAlt())
	case "struct":
		if n.rtypeAlt != nil {
			return n.rtypeAlt
		}
		fs := []reflect.StructField{{Name: "Zpad", Type: reflect.TypeOf(int(0))}}
		for _, e := range n.Extra {
			fs = append(fs, reflect.StructField{Name: e, Type: reflect.TypeOf(int(0))})
		}
		for i := len(n.Fields) - 1; i >= 0; i-- {
			f := n.Fields[i]
			ft := f.S.GoTypeAlt()
			if f.Alt {
				ft = f.S.GoType()
			}
			fs = append(fs, reflect.StructField{Name: f.GoName, Type: ft, Tag: reflect.StructTag(f.TagString())})
		}
		n.rtypeAlt = reflect.StructOf(fs)
		return n.rtypeAlt
	}
	return n.GoType()
}

func (n *Node) GoType() reflect.Type {
	switch n.Kind {
	case "pre":
		return n.Elem.GoType()
	case "prim":
		switch n.PK {
		case "str":
			return reflect.TypeOf("")
		case "int":
			return reflect.TypeOf(int(0))
		case "i32":
			return reflect.TypeOf(int32(0))
		case "i64":
			return reflect.TypeOf(int64(0))
		case "f64":
			return reflect.TypeOf(float64(0))
		case "f32":
			return reflect.TypeOf(float32(0))
		case "bool":
			return reflect.TypeOf(false)
		case "time":
			return timeType
		}
	case "slice":
		return reflect.SliceOf(n.Elem.GoType())
	case "ptr":
		return reflect.PointerTo(n.Elem.GoType())
	case "struct":
		if n.rtype != nil {
			return n.rtype
		}
		fs := make([]reflect.StructField, 0, len(n.Fields)+len(n.Extra))
		for _, f := range n.Fields {
			ft := f.S.GoType()
			if f.Alt {
				// this placement of a shared schema object has the OTHER destination type (same fields, other positions)
				ft = f.S.GoTypeAlt()
			}
			fs = append(fs, reflect.StructField{Name: f.GoName, Type: ft, Tag: reflect.StructTag(f.TagString())})
		}
		for _, e := range n.Extra {
			fs = append(fs, reflect.StructField{Name: e, Type: reflect.TypeOf(int(0))})
		}
		n.rtype = reflect.StructOf(fs)
		return n.rtype
	case "custom":
		if n.CK == "int" {
			return reflect.TypeOf(int(0))
		}
		return reflect.TypeOf("")
	}
	panic("GoType: bad node " + n.Kind + "/" + n.PK)
}

// DOf reads a destination value (schema-directed, so that Custom destinations are labelled).
func DOf(n *Node, rv reflect.Value) D {
	switch n.Kind {
	case "pre":
		return DOf(n.Elem, rv)
	case "prim":
		return dOfPlain(rv)
	case "slice":
		out := D{K: "sl"}
		for i := 0; i < rv.Len(); i++ {
			out.L = append(out.L, DOf(n.Elem, rv.Index(i)))
		}
		return out
	case "ptr":
		if rv.IsNil() {
			return D{K: "p"}
		}
		x := DOf(n.Elem, rv.Elem())
		return D{K: "p", P: &x}
	case "struct":
		out := D{K: "st"}
		for _, f := range n.Fields {
			out.FS = append(out.FS, DF{f.GoName, DOf(f.S, rv.FieldByName(f.GoName))})
		}
		for _, e := range n.Extra {
			out.FS = append(out.FS, DF{e, dOfPlain(rv.FieldByName(e))})
		}
		return out
	case "custom":
		var v V
		if n.CK == "int" {
			v = VInt(rv.Int())
		} else {
			v = VStr(rv.String())
		}
		return D{K: "cu", CV: &v}
	}
	panic("DOf")
}

func dOfPlain(rv reflect.Value) D {
	switch rv.Kind() {
	case reflect.String:
		return D{K: "s", S: rv.String()}
	case reflect.Int:
		return D{K: "i", NK: "int", I: rv.Int()}
	case reflect.Int32:
		return D{K: "i", NK: "i32", I: rv.Int()}
	case reflect.Int64:
		return D{K: "i", NK: "i64", I: rv.Int()}
	case reflect.Float64:
		return D{K: "f", NK: "f64", F: rv.Float()}
	case reflect.Float32:
		return D{K: "f", NK: "f32", F: rv.Float()}
	case reflect.Bool:
		return D{K: "b", B: rv.Bool()}
	case reflect.Struct:
		if rv.Type() == timeType {
			return D{K: "t", T: rv.Interface().(time.Time)}
		}
	}
	panic(fmt.Sprintf("dOfPlain: %v", rv.Kind()))
}

// SetD writes a D literal into a destination.
func SetD(n *Node, rv reflect.Value, d D) {
	for n != nil && n.Kind == "pre" {
		n = n.Elem
	}
	switch d.K {
	case "s":
		rv.SetString(d.S)
	case "i":
		rv.SetInt(d.I)
	case "f":
		rv.SetFloat(d.F)
	case "b":
		rv.SetBool(d.B)
	case "t":
		rv.Set(reflect.ValueOf(d.T))
	case "sl":
		// every other non-empty slice has spare capacity (an append-grown slice): its length is what counts
		s := reflect.MakeSlice(rv.Type(), len(d.L), len(d.L)+int(emptyForm.Add(1)%2)*3)
		for i, x := range d.L {
			SetD(n.Elem, s.Index(i), x)
		}
		if len(d.L) == 0 {
			// the three empty slices of Go, in turn: nil, empty without capacity, empty WITH spare capacity
			// (a reused buffer buf[:0]) — the same empty value for every rule of the library
			switch emptyForm.Add(1) % 3 {
			case 0:
				s = reflect.Zero(rv.Type())
			case 1:
				s = reflect.MakeSlice(rv.Type(), 0, 0)
			default:
				s = reflect.MakeSlice(rv.Type(), 0, 4)
			}
		}
		rv.Set(s)
	case "st":
		for _, f := range d.FS {
			var fn *Node
			for _, sf := range n.Fields {
				if sf.GoName == f.Name {
					fn = sf.S
				}
			}
			SetD(fn, rv.FieldByName(f.Name), f.D)
		}
	case "p":
		if d.P == nil {
			rv.Set(reflect.Zero(rv.Type()))
		} else {
			p := reflect.New(rv.Type().Elem())
			SetD(n.Elem, p.Elem(), *d.P)
			rv.Set(p)
		}
	case "cu":
		if d.CV.K == "i" {
			rv.SetInt(d.CV.I)
		} else {
			rv.SetString(d.CV.S)
		}
	}
}

// ZeroD is the zero value of the destination type of n.
func ZeroD(n *Node) D {
	return DOf(n, reflect.New(n.GoType()).Elem())
}

func sortedKeys[T any](m map[string]T) []string {
	ks := make([]string, 0, len(m))
	for k := range m {
		ks = append(ks, k)
	}
	sort.Strings(ks)
	return ks
}
