package eng

import (
	"fmt"
	"math"
	"strconv"
	"strings"
	"time"

	"verif/harness/internal/rng"
	"verif/harness/internal/sx"
)

// NoteParse records strconv.ParseFloat and time.Parse results for a string leaf.
func (e *Ext) NoteParse(s string) {
	if len(s) > 64 {
		return
	}
	f, err := strconv.ParseFloat(s, 64)
	if err != nil {
		e.add(sx.T("pf", sx.S(s), sx.A("err")))
	} else {
		e.add(sx.T("pf", sx.S(s), fvalSx(f)))
	}
	for _, l := range e.Layouts {
		layout := l
		if l == "RFC3339" {
			layout = time.RFC3339
		}
		t, err := time.Parse(layout, s)
		if err != nil {
			e.add(sx.T("pt", sx.S(l), sx.S(s), sx.A("err")))
		} else {
			e.add(sx.T("pt", sx.S(l), sx.S(s), sx.A(timeNs(t).String()), sx.B(timeIsPlainUTC(t))))
		}
	}
}

// ---------- generator ----------

type Gen struct {
	R      *rng.R
	nextID int
	// bias knobs
	CatchBias bool // put catching primitives next to failing non-primitives
	NoPosts   bool
	Populated bool // C13: fully populated values only
	NoExtra   bool // no destination fields outside the schema
	FmtModes  bool // vary the formatter level (execution formatter, i18n language)
	Share     bool // place one schema object at several positions
	// NearSuccess: every node is valid for its input except deliberately placed ones — catching primitives whose
	// catch triggers (no issue) and struct/slice nodes whose LAST test fails — so that a skipped constraint
	// turns a failing execution into a successful one (C01)
	NearSuccess bool
	// Prepop: Parse cases only, into a fully populated destination
	Prepop bool
	// Pre: wrap nodes below the top level in Preprocess schemas written for the case's mode
	Pre        bool
	mode       string
	forcedElem *Node
	// Coercers: install named custom coercers (WithCoercer) on some primitives / slices
	Coercers bool
	// TopAll: custom and Preprocess schemas also at the top level
	TopAll bool
	// Deep: schema trees up to depth 7 (paths of 6 and more segments), narrow below the top
	Deep bool
	// NestedDefaults: slices of slices with a nested Default, and PostTransforms that modify the first leaf of
	// the destination IN PLACE (kind incdeep)
	NestedDefaults bool
	// LongSlices: one slice per case has a length around a decimal / power-of-two boundary (9..11, 99..102,
	// 127..129, 255..257, and 999..1001 over primitives): element positions of every width in the paths
	LongSlices bool
	longUsed   bool
	// TopKind: kind of the root node ("" = any)
	TopKind string
}

// longLen picks the length of the long slice of a LongSlices case (0: not this slice)
func (g *Gen) longLen(elem *Node) int {
	if !g.LongSlices || g.longUsed {
		return 0
	}
	lens := []int{9, 10, 11, 99, 100, 101, 102, 110, 127, 128, 129, 255, 256, 257}
	if elem.Kind == "prim" {
		lens = append(lens, 999, 1000, 1001, 101, 101)
	} else if g.R.P(1, 2) {
		return 0
	}
	g.longUsed = true
	return rng.Pick(g.R, lens)
}

// AliasCase: Validate of an empty [][]T value against Slice(Slice(prim)) with a nested Default and in-place
// mutating PostTransforms — the shape on which a shallow copy of the default shows (C19)
func (g *Gen) AliasCase(id int) *Case {
	g.NestedDefaults = true
	r := g.R
	var n *Node
	for {
		inner := &Node{Kind: "slice", Elem: g.NodeOf("prim", 2)}
		pk := inner.Elem.PK
		if pk != "int" && pk != "str" && pk != "bool" {
			continue
		}
		inner.Posts = g.posts(inner)
		n = g.sliceOver(inner)
		if n.SliceDfltD != nil {
			break
		}
	}
	if len(n.Posts) == 0 || r.P(1, 2) {
		n.Posts = append(n.Posts, PostSpec{ID: g.id(), Kind: "incdeep", DType: "slice"})
	}
	c := &Case{ID: id, Schema: n}
	if r.P(3, 4) {
		c.Mode = "v"
		c.Dest = D{K: "sl"}
	} else {
		c.Mode = "p"
		c.Input = VNil()
		c.Dest = D{K: "sl"}
	}
	return c
}

// sliceOver builds a slice node over the given element node with the usual random modifiers
func (g *Gen) sliceOver(elem *Node) *Node {
	g.forcedElem = elem
	defer func() { g.forcedElem = nil }()
	return g.NodeOf("slice", 1)
}

func (g *Gen) id() int { g.nextID++; return g.nextID }

var strPool = []string{"", " ", "a", "ab", "abc", "Abc1", "x!", "hello", "héllo", "日本", "12", "7", "-3", "true", "on", "zz", " 5 ",
	"123e4567-e89b-12d3-a456-426614174000", "a@b.co", "A", "z9", "p_q", "\t", "0"}
var strPoolNonBlank = []string{"a", "ab", "abc", "Abc1", "x!", "hello", "héllo", "日本", "12", "zz", "a@b.co", "A", "z9"}

func sp(s string) *string { return &s }

func (g *Gen) topts() TOpts {
	r := g.R
	var o TOpts
	if r.P(15, 100) {
		o.Code = sp(rng.Pick(r, []string{"my_code", "min", "custom", ""}))
	}
	if r.P(10, 100) {
		o.Path = sp(rng.Pick(r, []string{"custom.path", "other", "a", ""}))
	}
	if r.P(15, 100) {
		o.Msg = sp(rng.Pick(r, []string{"custom message", "m", "{{min}} kept", ""}))
	}
	if r.P(5, 100) {
		o.HasParams = true
		o.Params = [][2]string{{"k", "v"}}
		if r.P(1, 2) {
			o.Params = [][2]string{{"min", "overridden"}, {"z", "1"}}
		}
		if r.P(1, 3) {
			// values that hold other parameters' placeholders: the substitution order shows in the message
			o.Params = [][2]string{{"min", "{{z}}"}, {"z", "{{min}}"}, {"max", "{{z}}"}, {"len", "{{a}}"}, {"a", "{{len}}{{z}}"}, {"gt", "{{z}}"}, {"lt", "{{a}}"}}
			// …for every number of parameters from two up (a formatter may treat small maps specially)
			o.Params = o.Params[:rng.Pick(r, []int{2, 2, 3, 4, 5, 7})]
		}
	}
	return o
}

func (g *Gen) fnTest() TestSpec {
	r := g.R
	mod := int64(rng.Pick(r, []int{1, 2, 2, 3, 3, 5}))
	rem := int64(r.Intn(int(mod)))
	if r.P(1, 6) {
		rem = mod // never satisfied
	}
	t := TestSpec{ID: g.id(), Name: "fn", N: mod, R: rem, Opts: g.topts(), Reuse: r.P(1, 3)}
	if !t.Reuse {
		t.Raw = r.P(1, 3)
	}
	return t
}

func (g *Gen) smallInt() int64 {
	r := g.R
	if r.P(1, 12) {
		return rng.Pick(r, []int64{1 << 31, -(1 << 31) - 1, 1<<31 - 1, 1 << 40, -(1 << 40), 1<<63 - 1, -(1 << 63)})
	}
	return int64(r.Range(-3, 12))
}

func (g *Gen) smallFloat() float64 {
	r := g.R
	return rng.Pick(r, []float64{0, 1, -1, 1.5, 2, 2.25, -0.5, 7, 10, 3.75, 100, 1e6})
}

func (g *Gen) aTime() time.Time {
	if g.R.P(1, 8) {
		// instants far from the epoch, on both sides of the range an int64 of nanoseconds can hold
		// (1677-09-21 .. 2262-04-11): "never expires" sentinels, historical dates
		return rng.Pick(g.R, []time.Time{
			time.Date(9999, 12, 31, 23, 59, 59, 0, time.UTC), time.Date(3000, 1, 1, 0, 0, 0, 0, time.UTC), time.Date(2262, 4, 11, 23, 47, 16, 0, time.UTC),
			time.Date(2262, 4, 12, 0, 0, 0, 0, time.UTC), time.Date(1677, 9, 21, 0, 12, 43, 0, time.UTC), time.Date(1677, 9, 20, 0, 0, 0, 0, time.UTC),
			time.Date(1000, 6, 1, 12, 0, 0, 0, time.UTC), time.Date(1, 1, 2, 0, 0, 0, 0, time.UTC)})
	}
	return time.Unix(int64(g.R.Range(0, 8))*86400*365, 0).UTC()
}

// zoned: the same instant, one time in three in another representation (a fixed zone east or west of UTC)
func (g *Gen) zoned(t time.Time) time.Time {
	switch g.R.Intn(6) {
	case 0:
		return t.In(time.FixedZone("E", 2*3600))
	case 1:
		return t.In(time.FixedZone("", -5*3600-1800))
	}
	return t
}

func (g *Gen) primD(pk string, allowZero bool) D {
	r := g.R
	switch pk {
	case "str":
		if allowZero {
			return D{K: "s", S: rng.Pick(r, strPool)}
		}
		return D{K: "s", S: rng.Pick(r, strPoolNonBlank)}
	case "int", "i64":
		n := g.smallInt()
		if !allowZero && n == 0 {
			n = 4
		}
		return D{K: "i", NK: pk, I: n}
	case "i32":
		n := int64(r.Range(-3, 12))
		if !allowZero && n == 0 {
			n = 4
		}
		if r.P(1, 10) {
			n = rng.Pick(r, []int64{math.MaxInt32, math.MaxInt32 - 1, math.MinInt32, math.MinInt32 + 1}) // the ends of the range are values like any other
		}
		return D{K: "i", NK: pk, I: n}
	case "f64", "f32":
		f := g.smallFloat()
		if !allowZero && f == 0 {
			f = 2.5
		}
		if r.P(1, 14) {
			// not-a-number and the infinities are float values like any other: every comparison with NaN is false
			f = rng.Pick(r, []float64{math.NaN(), math.NaN(), math.Inf(1), math.Inf(-1)})
		}
		return D{K: "f", NK: pk, F: f}
	case "bool":
		if !allowZero {
			return D{K: "b", B: true}
		}
		return D{K: "b", B: r.P(1, 2)}
	case "time":
		t := g.aTime()
		if allowZero && r.P(1, 5) {
			t = time.Time{}
		} else if r.P(1, 6) {
			// the year-1 instant WITH a location: present (not the Go zero value), although t.IsZero() is true
			t = rng.Pick(r, []time.Time{time.Time{}.In(time.FixedZone("X", 3600)), time.Unix(-62135596800, 0).In(time.FixedZone("Y", -18000))})
		}
		if !allowZero && t.Unix() == 0 {
			t = time.Unix(86400, 0).UTC() // (the year-1 instant with a location stays: it is a populated value)
		}
		if t.Location() == time.UTC && !t.IsZero() {
			t = g.zoned(t)
		}
		return D{K: "t", T: t}
	}
	panic("primD " + pk)
}

func (g *Gen) primTests(pk string) []TestSpec {
	r := g.R
	n := rng.Pick(r, []int{0, 0, 1, 1, 1, 2, 2, 3})
	var out []TestSpec
	for i := 0; i < n; i++ {
		if r.P(1, 4) {
			out = append(out, g.fnTest())
			continue
		}
		t := TestSpec{ID: g.id(), Opts: g.topts()}
		switch pk {
		case "str":
			t.Name = rng.Pick(r, []string{"min", "max", "len", "prefix", "suffix", "contains", "upper", "digit", "special", "uuid", "email", "oneof"})
			switch t.Name {
			case "min", "max", "len":
				t.N = int64(r.Range(0, 6))
			case "prefix", "suffix", "contains":
				t.S = rng.Pick(r, []string{"a", "ab", "", "é", "1", "x", "!"})
			case "oneof":
				k := r.Range(0, 3) // (an empty enum admits nothing)
				if r.P(1, 5) {
					k = r.Range(9, 20) // a long enum
				}
				for j := 0; j < k; j++ {
					t.Args = append(t.Args, D{K: "s", S: rng.Pick(r, strPool)})
				}
			}
			if t.Name != "min" && t.Name != "max" && r.P(1, 4) {
				t.Not = true
			}
			if t.ParamsRenderable() && r.P(1, 5) {
				t.Opts.Msg, t.Opts.MsgFromParams = nil, true // a MessageFunc that reads the issue's Params
			}
		case "int", "i32", "i64", "f64", "f32":
			if r.P(1, 5) {
				t.Name = "oneof"
				k := r.Range(0, 3)
				if r.P(1, 5) {
					k = r.Range(9, 20) // a long enum
				}
				for j := 0; j < k; j++ {
					t.Args = append(t.Args, g.primD(pk, true))
				}
			} else {
				t.Name = "cmp"
				t.Op = rng.Pick(r, []string{"eq", "lt", "lte", "gt", "gte"})
				t.Arg = g.primD(pk, true)
			}
		case "bool":
			t.Name = "booleq"
			t.Op = rng.Pick(r, []string{"true", "false", "eq"})
			t.Arg = D{K: "b", B: t.Op == "true" || (t.Op == "eq" && r.P(1, 2))}
			t.Opts = TOpts{}
		case "time":
			t.Name = "tcmp"
			t.Op = rng.Pick(r, []string{"gt", "lt", "eq"})
			t.Arg = D{K: "t", T: g.aTime()}
		}
		out = append(out, t)
		if r.P(1, 6) && t.Name != "booleq" && t.Name != "uuid" && t.Name != "email" && t.Name != "upper" && t.Name != "digit" && t.Name != "special" {
			// the same kind of test AGAIN, right after, with another argument (Contains("a").Contains("b"),
			// Min(5).Min(2), GT(1).GT(7)): two declared constraints, both hold on success
			t2 := t
			t2.ID = g.id()
			t2.Args = append([]D(nil), t.Args...)
			switch t.Name {
			case "min", "max", "len":
				t2.N = int64(r.Range(0, 6))
			case "prefix", "suffix", "contains":
				t2.S = rng.Pick(r, []string{"a", "ab", "b", "é", "1", "x", "!"})
			case "oneof":
				t2.Args = append(t2.Args, g.primD(pk, true))
			case "cmp":
				t2.Arg = g.primD(pk, true)
			case "tcmp":
				t2.Arg = D{K: "t", T: g.aTime()}
			}
			out = append(out, t2)
		}
	}
	return out
}

func (g *Gen) posts(n *Node) []PostSpec {
	r := g.R
	if g.NoPosts || g.NearSuccess || !r.P(1, 4) {
		return nil
	}
	k := r.Range(1, 2)
	var out []PostSpec
	for i := 0; i < k; i++ {
		ps := PostSpec{ID: g.id(), DType: n.DType()}
		ps.Kind = rng.Pick(r, []string{"id", "inc", "inc", "set", "fail", "incfail", "failissue", "failwrap"})
		if n.Kind == "struct" || n.Kind == "ptr" || n.Kind == "custom" {
			if ps.Kind == "set" || ps.Kind == "inc" || ps.Kind == "incfail" {
				ps.Kind = "id"
			}
		}
		if n.Kind == "slice" && g.NestedDefaults && r.P(1, 2) {
			ps.Kind = "incdeep"
		}
		if ps.Kind == "set" {
			if n.Kind == "prim" {
				ps.Set = g.primD(n.PK, true)
			} else {
				ps.Kind = "inc"
			}
		}
		if ps.Kind == "failissue" {
			ps.Code = rng.Pick(r, []string{"mine", "min", ""})
			ps.Path = rng.Pick(r, []string{"p.q", "", "a"})
			ps.Msg = rng.Pick(r, []string{"m", ""})
		}
		out = append(out, ps)
	}
	return out
}

// passThenFail gives a struct / slice node 0..3 always-passing tests and, half of the time, one
// never-passing test at the end
func (g *Gen) passThenFail(n *Node) {
	r := g.R
	for k := r.Range(0, 2); k > 0; k-- {
		t := g.fnTest()
		t.N, t.R, t.Opts = 1, 0, TOpts{}
		n.Tests = append(n.Tests, t)
	}
	if r.P(1, 2) {
		t := g.fnTest()
		t.N, t.R, t.Opts = 2, 2, TOpts{}
		n.Tests = append(n.Tests, t)
	}
}

var keyPool = []string{"a", "b", "c", "name", "age", "Zed", "tags", "inner", "x_1", "d", "e", "qty", "Alpha", "Beta"}

func isExportedIdent(k string) bool {
	if k == "" || k[0] < 'A' || k[0] > 'Z' {
		return false
	}
	for _, c := range k {
		if !(c == '_' || (c >= '0' && c <= '9') || (c >= 'a' && c <= 'z') || (c >= 'A' && c <= 'Z')) {
			return false
		}
	}
	return true
}

func upperFirst(k string) string {
	if k[0] >= 'a' && k[0] <= 'z' {
		return string(k[0]-32) + k[1:]
	}
	return k
}

func (g *Gen) Node(depth int) *Node {
	r := g.R
	var kind string
	if depth == 0 && g.TopAll && r.P(40, 100) {
		if r.P(1, 2) {
			return g.NodeOf("custom", 0)
		}
		// a Preprocess schema used directly: Parse(data F, dest *T) / Validate(*T)
		n := g.NodeOf("prim", 0)
		for n.PK != "int" && n.PK != "str" {
			n = g.NodeOf("prim", 0)
		}
		w := &Node{Kind: "pre", Elem: n, PreID: g.id()}
		if g.mode == "v" {
			w.PreKind = rng.Pick(r, []string{"vid", "vinc", "vinc", "vfail"})
			if w.PreKind == "vfail" {
				w.PreMsg = rng.Pick(r, []string{"boom", "bad value", ""})
			}
		} else if n.PK == "int" {
			w.PreKind = "atoi"
		} else {
			w.PreKind = "trim"
		}
		return w
	}
	if depth == 0 {
		kind = rng.Pick(r, []string{"struct", "struct", "struct", "struct", "struct", "slice", "slice", "ptr", "prim", "prim"})
	} else if g.Deep && depth < 6 {
		// long paths: chains of structs and slices
		kind = rng.Pick(r, []string{"struct", "struct", "struct", "slice", "slice", "ptr", "prim"})
	} else if depth >= 3 {
		kind = rng.Pick(r, []string{"prim", "prim", "prim", "prim", "custom"})
	} else {
		kind = rng.Pick(r, []string{"prim", "prim", "prim", "prim", "prim", "prim", "struct", "struct", "slice", "slice", "ptr", "ptr", "custom"})
	}
	n := g.NodeOf(kind, depth)
	if g.Pre && depth >= 1 && r.P(30, 100) {
		return g.wrapPre(n)
	}
	return n
}

// wrapPre wraps n in a Preprocess node whose function is written for the mode of the case being generated.
func (g *Gen) wrapPre(n *Node) *Node {
	r := g.R
	isPrim := func(pks ...string) bool {
		if n.Kind != "prim" {
			return false
		}
		for _, pk := range pks {
			if n.PK == pk {
				return true
			}
		}
		return false
	}
	w := &Node{Kind: "pre", Elem: n, PreID: g.id()}
	if g.mode == "v" {
		if !isPrim("int", "str", "bool") {
			return n
		}
		w.PreKind = rng.Pick(r, []string{"vid", "vinc", "vinc", "vfail"})
		if w.PreKind == "vfail" {
			w.PreMsg = rng.Pick(r, []string{"boom", "bad value", ""})
		}
		return w
	}
	switch {
	case isPrim("int"):
		w.PreKind = rng.Pick(r, []string{"atoi", "atoi", "atoi", "idany", "mismatch", "fail"})
	case isPrim("str"):
		w.PreKind = rng.Pick(r, []string{"trim", "trim", "idany", "fail", "failissue", "failwrap"})
	default:
		w.PreKind = rng.Pick(r, []string{"idany", "idany", "idany", "idany", "fail", "failissue", "failwrap"})
	}
	if w.PreKind == "failissue" {
		w.PreIss = PostSpec{Code: rng.Pick(r, []string{"pre_code", "custom", ""}), Path: rng.Pick(r, []string{"", "elsewhere", "a.b"}),
			Msg: rng.Pick(r, []string{"pre says no", ""}), DType: rng.Pick(r, []string{"string", "number", ""})}
		if r.P(1, 3) {
			w.PreIss = PostSpec{Code: "shared"} // the schema-wide sentinel issue value (no path, type or message of its own)
		}
	}
	return w
}

func (g *Gen) NodeOf(kind string, depth int) *Node {
	r := g.R
	n := &Node{Kind: kind}
	switch kind {
	case "prim":
		n.PK = rng.Pick(r, []string{"str", "str", "str", "int", "int", "int", "bool", "i32", "i64", "f64", "f64", "f32", "time"})
		if g.NearSuccess {
			n.PK = rng.Pick(r, []string{"str", "int", "int", "bool"})
			if r.P(1, 2) {
				// a catching node whose single test never passes: the catch triggers, nothing is reported
				d := g.primD(n.PK, true)
				n.Catch = &d
				t := g.fnTest()
				t.R = t.N
				t.Opts = TOpts{}
				n.Tests = []TestSpec{t}
				if r.P(1, 3) {
					o := TOpts{}
					n.Req = &o
					n.ReqID = g.id()
				}
			}
			return n
		}
		if r.P(40, 100) {
			o := g.topts()
			n.Req = &o
			n.ReqID = g.id()
		}
		if r.P(25, 100) {
			d := g.primD(n.PK, true)
			n.Dflt = &d
		}
		catchP := 30
		if g.CatchBias {
			catchP = 60
		}
		if r.P(catchP, 100) {
			d := g.primD(n.PK, true)
			n.Catch = &d
		}
		n.Tests = g.primTests(n.PK)
		n.Posts = g.posts(n)
		if n.PK == "time" && r.P(35, 100) {
			// (layouts with a zone element keep the input's offset: the documented coercion is time.Parse(layout, input))
			n.Layout = rng.Pick(r, []string{"2006-01-02", "20060102", "2006", "02/01/2006 15:04", "20060102150405", time.RFC3339, "2006-01-02 15:04:05 -0700", time.RFC3339Nano})
		}
		if g.Coercers && r.P(12, 100) {
			switch n.PK {
			case "int":
				n.Coercer = rng.Pick(r, []string{"plus100", "strlen"})
			case "str":
				n.Coercer = "sfx"
			case "bool":
				n.Coercer = "yn"
			case "i64":
				n.Coercer = "len64"
			case "i32":
				n.Coercer = "len32"
			case "f64":
				n.Coercer = "const25"
			case "f32":
				n.Coercer = "const25f"
			case "time":
				n.Coercer, n.Layout = "epoch1", ""
			}
		}
	case "slice":
		if g.forcedElem != nil {
			n.Elem = g.forcedElem
			g.forcedElem = nil
		} else {
			n.Elem = g.Node(depth + 1)
		}
		for n.Elem.Kind == "ptr" && n.Elem.Elem.Kind == "ptr" {
			n.Elem = g.Node(depth + 1)
		}
		if r.P(40, 100) {
			o := g.topts()
			n.Req = &o
			n.ReqID = g.id()
		}
		if g.Coercers && r.P(12, 100) {
			n.Coercer = "csv"
		}
		if n.Elem.Kind == "prim" && (n.Elem.PK == "int" || n.Elem.PK == "str" || n.Elem.PK == "bool") && r.P(20, 100) {
			k := r.Range(0, 3)
			vin := V{K: "l"}
			vd := D{K: "sl"}
			for i := 0; i < k; i++ {
				d := g.primD(n.Elem.PK, true)
				vd.L = append(vd.L, d)
				switch d.K {
				case "s":
					vin.L = append(vin.L, VStr(d.S))
				case "i":
					vin.L = append(vin.L, VInt(d.I))
				case "b":
					vin.L = append(vin.L, VBool(d.B))
				}
			}
			n.SliceDfltIn = &vin
			n.SliceDfltD = &vd
		}
		if e := n.Elem; n.SliceDfltIn == nil && e.Kind == "slice" && e.Elem.Kind == "prim" && (e.Elem.PK == "int" || e.Elem.PK == "str" || e.Elem.PK == "bool") && g.NestedDefaults && r.P(60, 100) {
			// a NESTED default ([][]T): the validated value must not share the default's inner slices
			vin := V{K: "l"}
			vd := D{K: "sl"}
			for i := r.Range(1, 2); i > 0; i-- {
				in := V{K: "l"}
				dd := D{K: "sl"}
				for j := r.Range(1, 3); j > 0; j-- {
					d := g.primD(e.Elem.PK, true)
					dd.L = append(dd.L, d)
					in.L = append(in.L, dToV(d))
				}
				vin.L = append(vin.L, in)
				vd.L = append(vd.L, dd)
			}
			n.SliceDfltIn = &vin
			n.SliceDfltD = &vd
		}
		k := rng.Pick(r, []int{0, 0, 1, 1, 2})
		if g.NearSuccess {
			g.passThenFail(n)
			k = 0
			n.Req = nil
			n.SliceDfltIn, n.SliceDfltD = nil, nil
		}
		for i := 0; i < k; i++ {
			if r.P(1, 3) {
				n.Tests = append(n.Tests, g.fnTest())
				continue
			}
			t := TestSpec{ID: g.id(), Opts: g.topts()}
			t.Name = rng.Pick(r, []string{"min", "max", "len", "slcontains"})
			t.N = int64(r.Range(0, 4))
			if t.Name == "slcontains" {
				if n.Elem.Kind == "prim" && (n.Elem.PK == "int" || n.Elem.PK == "str" || n.Elem.PK == "bool") {
					t.Arg = g.primD(n.Elem.PK, true)
				} else {
					t.Name = "min"
				}
			}
			n.Tests = append(n.Tests, t)
		}
		n.Posts = g.posts(n)
	case "ptr":
		n.Elem = g.Node(depth + 1)
		for n.Elem.Kind == "ptr" || n.Elem.Kind == "custom" {
			n.Elem = g.Node(depth + 1)
		}
		if n.Elem.Kind == "prim" && n.Elem.Coercer != "" && r.P(1, 2) {
			n.Elem.CoercerViaPtr = true
		}
		if !g.NearSuccess && r.P(40, 100) {
			o := g.topts()
			n.NotNil = &o
			n.NNID = g.id()
		}
	case "struct":
		nf := r.Range(1, 4)
		if g.Deep && depth >= 1 {
			nf = r.Range(1, 2)
		}
		perm := make([]int, len(keyPool))
		for i := range perm {
			perm[i] = i
		}
		r.Shuffle(len(perm), func(i, j int) { perm[i], perm[j] = perm[j], perm[i] })
		usedGo := map[string]bool{}
		for i := 0; i < nf; i++ {
			key := keyPool[perm[i]]
			gn := upperFirst(key)
			if usedGo[gn] {
				continue
			}
			usedGo[gn] = true
			f := Field{Key: key, GoName: gn}
			if r.P(30, 100) {
				zt := "z_" + key
				if r.P(1, 6) {
					zt += rng.Pick(r, []string{",omitempty", ",", ",x,y"}) // the zog tag is the key as it stands, commas included
				}
				f.Tags = append(f.Tags, [2]string{"zog", zt})
			}
			if r.P(20, 100) {
				f.Tags = append(f.Tags, [2]string{"json", "j_" + key})
			}
			if g.CatchBias && i%2 == 0 && depth < 2 {
				f.S = g.NodeOf(rng.Pick(r, []string{"slice", "struct", "ptr", "custom"}), depth+1)
			} else {
				f.S = g.Node(depth + 1)
			}
			n.Fields = append(n.Fields, f)
		}
		if g.Share && len(n.Fields) >= 2 && r.P(60, 100) {
			// one schema object used for two fields
			i, j := 0, 1+r.Intn(len(n.Fields)-1)
			n.Fields[j].S = n.Fields[i].S
			n.Fields[j].Alt = r.P(2, 3)
		}
		if !g.NoExtra && r.P(30, 100) {
			n.Extra = []string{"Zextra"}
		}
		k := rng.Pick(r, []int{0, 0, 0, 1, 2})
		if g.NearSuccess {
			g.passThenFail(n)
			k = 0
		}
		for i := 0; i < k; i++ {
			n.Tests = append(n.Tests, g.fnTest())
		}
		n.Posts = g.posts(n)
	case "custom":
		n.CK = rng.Pick(r, []string{"int", "str"})
		n.CTest = g.fnTest()
		if g.NearSuccess {
			n.CTest.N, n.CTest.R, n.CTest.Opts = 1, 0, TOpts{}
		}
	}
	return n
}

// effective key of a field when the input is a plain Go map (no source tag): zog tag, else schema key
func (f Field) MapKey() string {
	for _, t := range f.Tags {
		if t[0] == "zog" {
			return t[1]
		}
	}
	return f.Key
}

func dToV(d D) V {
	switch d.K {
	case "s":
		return VStr(d.S)
	case "i":
		return VInt(d.I)
	case "f":
		return VF64(d.F)
	case "b":
		return VBool(d.B)
	case "t":
		return VTime(d.T)
	}
	return VNil()
}

// Input generates an input for Parse: mostly valid for the schema, sometimes absent / wrongly typed.
func (g *Gen) Input(n *Node) V {
	r := g.R
	if g.NearSuccess {
		switch n.Kind {
		case "prim":
			if n.Req == nil && (r.P(1, 6) || (g.Prepop && r.P(1, 3))) {
				return VNil()
			}
			return dToV(g.primD(n.PK, false))
		case "custom":
			if n.CK == "int" {
				return VInt(int64(r.Range(1, 9)))
			}
			return VStr("abc")
		case "slice":
			out := V{K: "l"}
			for k := r.Range(1, 3); k > 0; k-- {
				out.L = append(out.L, g.Input(n.Elem))
			}
			return out
		case "ptr":
			return g.Input(n.Elem)
		case "struct":
			out := V{K: "o"}
			for _, f := range n.Fields {
				out.O = append(out.O, KV{f.MapKey(), g.Input(f.S)})
			}
			return out
		}
	}
	// absent-looking (strings.TrimSpace also strips the Unicode spaces)
	if r.P(12, 100) {
		return rng.Pick(r, []V{VNil(), VNil(), VNil(), VStr(""), VStr(""), VStr("  "), VStr(" \t"), VStr("\u00a0"), VStr("\u3000\u2003"), VStr("\u0085 ")})
	}
	switch n.Kind {
	case "pre":
		switch n.PreKind {
		case "atoi":
			return rng.Pick(r, []V{VStr(fmt.Sprint(g.smallInt())), VStr(fmt.Sprint(g.smallInt())), VStr(fmt.Sprint(g.smallInt())), VStr("+7"), VStr("zz"), VStr(" 5"), VInt(3), VStr("0")})
		case "trim":
			return rng.Pick(r, []V{VStr(rng.Pick(r, strPool)), VStr(" " + rng.Pick(r, strPool) + "\t"), VStr(rng.Pick(r, strPool)), VInt(4)})
		}
		return g.Input(n.Elem)
	case "prim":
		if r.P(8, 100) {
			return rng.Pick(r, []V{VList(VInt(1)), VObj(KV{"k", VInt(1)}), {K: "x", Desc: "chan"}, VStr("zz"),
				{K: "x", Desc: "ns:abc"}, {K: "x", Desc: "nsblank"}, {K: "x", Desc: "ns:12"}, {K: "x", Desc: "ns:true"}, {K: "x", Desc: "ni:5"}, {K: "x", Desc: "pnil"}, {K: "x", Desc: "u8"}})
		}
		if n.Coercer == "yn" && r.P(1, 2) {
			return VStr(rng.Pick(r, []string{"y", "n", "y", "Y"}))
		}
		switch n.Coercer {
		case "len64", "len32", "const25", "const25f", "epoch1":
			if r.P(2, 3) {
				return VStr(rng.Pick(r, strPoolNonBlank))
			}
		}
		switch n.PK {
		case "str":
			return rng.Pick(r, []V{VStr(rng.Pick(r, strPool)), VStr(rng.Pick(r, strPool)), VStr(rng.Pick(r, strPool)), VInt(g.smallInt()), VBool(r.P(1, 2)), VF64(g.smallFloat()),
				{K: "f32", F: float64(float32(rng.Pick(r, []float64{0.1, 3.14, 19.99, 1e-5, 1.5, 16777216})))}, {K: "i", IK: "i64", I: g.smallInt()}, {K: "i", IK: "i32", I: int64(int32(g.smallInt()))},
				VF64(rng.Pick(r, []float64{0.1, 1e21, 1e-7, 123456789.125}))})
		case "int", "i32", "i64":
			nn := g.smallInt()
			return rng.Pick(r, []V{VInt(nn), VInt(nn), VStr(fmt.Sprint(nn)), VStr(rng.Pick(r, []string{"+5", "007", "1_0", "0x10", " 5", "5.0", "9223372036854775808"})),
				VF64(float64(r.Range(-3, 12))), VF64(g.smallFloat()), VBool(r.P(1, 2)), {K: "i", IK: "i64", I: nn}, {K: "i", IK: "i32", I: int64(int32(nn))}, {K: "i", IK: "other", I: 3},
				VF64(rng.Pick(r, []float64{3e9, -3e9, 1e19, -1e19}))})
		case "f64", "f32":
			return rng.Pick(r, []V{VF64(g.smallFloat()), VF64(g.smallFloat()), VInt(g.smallInt()), VStr(rng.Pick(r, []string{"1.5", "2", "-0.25", "1e3", "zz", "1e400", "NaN", "nan", "1e300", "Inf", "-inf", "+Inf"})),
				{K: "f32", F: float64(float32(g.smallFloat()))}, {K: "i", IK: "i64", I: 3}, VF64(1e300), VF64(math.NaN()), VF64(math.Inf(-1))})
		case "bool":
			return rng.Pick(r, []V{VBool(true), VBool(false), VStr(rng.Pick(r, []string{"true", "false", "on", "off", "1", "0", "T", "F", "TRUE", "yes", "zz"})), VInt(int64(r.Range(0, 2)))})
		case "time":
			t := g.aTime()
			layout := time.RFC3339
			if n.Layout != "" {
				layout = n.Layout
				if strings.Contains(layout, "07") && r.P(1, 2) {
					// a layout with a zone element fed an instant written with a non-zero offset
					zt := t.In(time.FixedZone("", rng.Pick(r, []int{2 * 3600, -5 * 3600, 5*3600 + 1800})))
					return VStr(zt.Format(layout))
				}
			}
			return rng.Pick(r, []V{VTime(t), VTime(g.zoned(t)), VInt(t.Unix()), {K: "i", IK: "i64", I: t.Unix()}, VStr(t.Format(time.RFC3339)), VStr(g.zoned(t).Format(time.RFC3339)), VStr(t.Format(layout)), VStr(g.zoned(t).Format(layout)),
				VStr("2024-05-06"), VStr("zz"), VF64(1), VStr("20240131"), VStr("1733007600"), VStr("2024")})
		}
	case "slice":
		if n.Coercer == "csv" && r.P(1, 2) {
			return VStr(rng.Pick(r, []string{"a,b", "1,2,3", "x", ",", "true,n,y", "10, 20"}))
		}
		if n.Coercer == "csv" && r.P(1, 5) {
			// what the custom coercer rejects: its error becomes the node's coerce issue
			return rng.Pick(r, []V{VInt(5), VBool(true), VF64(1.5)})
		}
		if r.P(8, 100) {
			// scalar gets boxed
			if n.Elem.Kind == "prim" {
				return g.Input(n.Elem)
			}
			return VStr("zz")
		}
		k := rng.Pick(r, []int{0, 1, 2, 2, 3, 4})
		if g.Deep {
			k = rng.Pick(r, []int{2, 2, 3})
		}
		if l := g.longLen(n.Elem); l > 0 {
			k = l
		}
		out := V{K: "l"}
		for i := 0; i < k; i++ {
			out.L = append(out.L, g.Input(n.Elem))
		}
		if n.Elem.Kind == "prim" && r.P(1, 3) {
			// a typed Go slice of valid elements incl. zero values ([]int{9, 0, 7}, []bool{true, false}, ...)
			out.L = nil
			for i := 0; i < k; i++ {
				out.L = append(out.L, dToV(g.primD(n.Elem.PK, true)))
			}
			out.Typed = true
		}
		return out
	case "ptr":
		return g.Input(n.Elem)
	case "struct":
		if r.P(6, 100) {
			return rng.Pick(r, []V{VStr("zz"), VInt(3), VList()})
		}
		out := V{K: "o"}
		// one record in six is a TYPED Go map (map[string]string: every leaf as its string rendering)
		stringly := r.P(1, 6)
		for _, f := range n.Fields {
			if r.P(15, 100) {
				continue // missing key
			}
			if stringly && f.S.Kind == "prim" {
				d := g.primD(f.S.PK, true)
				out.O = append(out.O, KV{f.MapKey(), VStr(d.AsString())})
				continue
			}
			out.O = append(out.O, KV{f.MapKey(), g.Input(f.S)})
		}
		if stringly {
			out.Typed = true
			return out
		}
		if r.P(1, 5) {
			// a Go struct (or a pointer to one) as input: only exported field names can carry a value
			so := V{K: "so", Typed: r.P(1, 3)}
			for _, kv := range out.O {
				if isExportedIdent(kv.K) {
					so.O = append(so.O, kv)
				}
			}
			return so
		}
		if r.P(10, 100) {
			out.O = append(out.O, KV{"unknown_key", VInt(1)})
		}
		return out
	case "custom":
		if n.CK == "int" {
			return rng.Pick(r, []V{VInt(g.smallInt()), VInt(g.smallInt()), VStr("5"), VF64(2)})
		}
		return rng.Pick(r, []V{VStr(rng.Pick(r, strPool)), VStr(rng.Pick(r, strPool)), VInt(5)})
	}
	return VNil()
}

// DestValue generates a destination value: for Validate (the value under validation) or as the
// pre-populated destination of a Parse.
func (g *Gen) DestValue(n *Node, zeroP int) D {
	r := g.R
	if g.Populated {
		zeroP = 0
	}
	switch n.Kind {
	case "pre":
		return g.DestValue(n.Elem, zeroP)
	case "prim":
		if r.P(zeroP, 100) {
			return ZeroD(n)
		}
		return g.primD(n.PK, !g.Populated)
	case "slice":
		lo := 0
		if g.Populated {
			lo = 1
		}
		if r.P(zeroP, 100) {
			return D{K: "sl"}
		}
		k := r.Range(lo, 3)
		if l := g.longLen(n.Elem); l > 0 {
			k = l
		}
		out := D{K: "sl"}
		for i := 0; i < k; i++ {
			out.L = append(out.L, g.DestValue(n.Elem, zeroP))
		}
		return out
	case "ptr":
		if r.P(zeroP, 100) {
			return D{K: "p"}
		}
		x := g.DestValue(n.Elem, zeroP)
		return D{K: "p", P: &x}
	case "struct":
		out := D{K: "st"}
		for _, f := range n.Fields {
			out.FS = append(out.FS, DF{f.GoName, g.DestValue(f.S, zeroP)})
		}
		for _, e := range n.Extra {
			out.FS = append(out.FS, DF{e, D{K: "i", NK: "int", I: 777}})
		}
		return out
	case "custom":
		var v V
		if n.CK == "int" {
			v = VInt(g.smallInt())
		} else {
			v = VStr(rng.Pick(r, strPool))
		}
		return D{K: "cu", CV: &v}
	}
	panic("DestValue")
}

// sentinelZero: the zero destination with sentinel values in the extra fields of the top struct
func sentinelZero(n *Node) D {
	d := ZeroD(n)
	if n.Kind == "struct" {
		for i := range d.FS {
			for _, e := range n.Extra {
				if d.FS[i].Name == e {
					d.FS[i].D = D{K: "i", NK: "int", I: 777}
				}
			}
		}
	}
	return d
}

func collectLayouts(n *Node, set map[string]bool) {
	if n == nil {
		return
	}
	if n.Layout != "" {
		set[n.Layout] = true
	}
	collectLayouts(n.Elem, set)
	for _, f := range n.Fields {
		collectLayouts(f.S, set)
	}
}

// Case generates one engine case.
func (g *Gen) Case(id int) *Case {
	r := g.R
	c := &Case{ID: id}
	if g.Pre || g.TopAll {
		g.mode = "p"
		if r.P(45, 100) {
			g.mode = "v"
		}
	}
	c.Schema = g.Node(0)
	if g.TopKind != "" {
		c.Schema = g.NodeOf(g.TopKind, 0)
	}
	if g.FmtModes {
		c.Fmt = rng.Pick(r, []string{"", "", "exec:en", "exec:es", "i18n:-", "i18n:es", "i18n:en", "i18n:fr",
			"i18nh:locale:locale=es", "i18nh:locale:lang=es", "i18nh:locale,-:lang=es,locale=en", "i18nh:-,locale:lang=en,locale=es", "i18nh:a,b,-:a=es,b=es", "i18nh:a,b:a=es,lang=es", "i18nh:-:lang=~es", "i18nh:locale:locale=#7,lang=es"})
	}
	if g.Prepop {
		c.Mode = "p"
		c.Input = g.Input(c.Schema)
		saved := g.Populated
		g.Populated = true
		c.Dest = g.DestValue(c.Schema, 0)
		g.Populated = saved
		return c
	}
	fixedMode := g.Pre || g.TopAll
	if (!fixedMode && r.P(45, 100)) || (fixedMode && g.mode == "v") {
		c.Mode = "v"
		c.Dest = g.DestValue(c.Schema, 25)
	} else {
		c.Mode = "p"
		c.Input = g.Input(c.Schema)
		for c.Schema.Kind == "pre" && c.Input.K != "s" {
			c.Input = g.Input(c.Schema) // PreprocessSchema[string, T].Parse takes a string
		}
		if r.P(25, 100) {
			c.Dest = g.DestValue(c.Schema, 30)
		} else {
			c.Dest = sentinelZero(c.Schema)
		}
	}
	return c
}

// exported generator pieces (builder stream)
func (g *Gen) PrimTests(pk string) []TestSpec { return g.primTests(pk) }
func (g *Gen) Topts() TOpts                   { return g.topts() }
func (g *Gen) ID() int                        { return g.id() }
func (g *Gen) PrimD(pk string, z bool) D      { return g.primD(pk, z) }
func (g *Gen) Posts(n *Node) []PostSpec       { return g.posts(n) }
func (g *Gen) FnTest() TestSpec               { return g.fnTest() }
