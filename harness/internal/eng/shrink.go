package eng

// Shrinking of failing engine cases: every candidate is ONE step smaller than the case (a test, a
// PostTransform, a modifier, a struct field or half of a list removed — from the schema and, consistently,
// from the destination and the input). The caller re-executes candidates on the implementation and the
// model and keeps one that still fails.

func cloneD(d D) D {
	out := d
	if d.L != nil {
		out.L = make([]D, len(d.L))
		for i := range d.L {
			out.L[i] = cloneD(d.L[i])
		}
	}
	if d.FS != nil {
		out.FS = make([]DF, len(d.FS))
		for i := range d.FS {
			out.FS[i] = DF{d.FS[i].Name, cloneD(d.FS[i].D)}
		}
	}
	if d.P != nil {
		p := cloneD(*d.P)
		out.P = &p
	}
	if d.CV != nil {
		v := cloneV(*d.CV)
		out.CV = &v
	}
	return out
}

func cloneV(v V) V {
	out := v
	if v.L != nil {
		out.L = make([]V, len(v.L))
		for i := range v.L {
			out.L[i] = cloneV(v.L[i])
		}
	}
	if v.O != nil {
		out.O = make([]KV, len(v.O))
		for i := range v.O {
			out.O[i] = KV{v.O[i].K, cloneV(v.O[i].V)}
		}
	}
	return out
}

func cloneNode(n *Node, memo map[*Node]*Node) *Node {
	if n == nil {
		return nil
	}
	if c, ok := memo[n]; ok {
		return c // one schema object at several positions stays one object
	}
	c := *n
	memo[n] = &c
	c.rtype, c.rtypeAlt = nil, nil
	c.Tests = append([]TestSpec(nil), n.Tests...)
	c.Posts = append([]PostSpec(nil), n.Posts...)
	c.Extra = append([]string(nil), n.Extra...)
	c.BuildOrder = append([]int(nil), n.BuildOrder...)
	if n.Dflt != nil {
		d := cloneD(*n.Dflt)
		c.Dflt = &d
	}
	if n.Catch != nil {
		d := cloneD(*n.Catch)
		c.Catch = &d
	}
	if n.SliceDfltD != nil {
		d := cloneD(*n.SliceDfltD)
		c.SliceDfltD = &d
	}
	if n.SliceDfltIn != nil {
		v := cloneV(*n.SliceDfltIn)
		c.SliceDfltIn = &v
	}
	c.Elem = cloneNode(n.Elem, memo)
	c.Fields = make([]Field, len(n.Fields))
	for i, f := range n.Fields {
		c.Fields[i] = f
		c.Fields[i].Tags = append([][2]string(nil), f.Tags...)
		c.Fields[i].S = cloneNode(f.S, memo)
	}
	return &c
}

func cloneCase(c *Case) *Case {
	out := *c
	out.Schema = cloneNode(c.Schema, map[*Node]*Node{})
	out.Dest = cloneD(c.Dest)
	out.Input = cloneV(c.Input)
	return &out
}

type shrinkState struct {
	target int // the opportunity to apply (-1: only count)
	seen   int
	seenN  map[*Node]bool
}

func (s *shrinkState) hit() bool {
	s.seen++
	return s.seen-1 == s.target
}

// walk visits the node with every destination / input instance that belongs to it
func (s *shrinkState) walk(n *Node, ds []*D, vs []*V) {
	if n == nil {
		return
	}
	first := !s.seenN[n]
	s.seenN[n] = true
	if first {
		for i := range n.Tests {
			if s.hit() {
				n.Tests = append(n.Tests[:i:i], n.Tests[i+1:]...)
				return
			}
		}
		for i := range n.Posts {
			if s.hit() {
				n.Posts = append(n.Posts[:i:i], n.Posts[i+1:]...)
				return
			}
		}
		if n.Catch != nil && s.hit() {
			n.Catch = nil
			return
		}
		if n.Dflt != nil && s.hit() {
			n.Dflt = nil
			return
		}
		if (n.SliceDfltD != nil || n.SliceDfltIn != nil) && s.hit() {
			n.SliceDfltD, n.SliceDfltIn = nil, nil
			return
		}
		if n.Req != nil && s.hit() {
			n.Req = nil
			return
		}
		if n.NotNil != nil && s.hit() {
			n.NotNil = nil
			return
		}
		if n.Coercer != "" && s.hit() {
			n.Coercer, n.CoercerViaPtr = "", false
			return
		}
		if len(n.Extra) > 0 && s.hit() {
			for _, d := range ds {
				keep := d.FS[:0:0]
				for _, f := range d.FS {
					isExtra := false
					for _, e := range n.Extra {
						isExtra = isExtra || e == f.Name
					}
					if !isExtra {
						keep = append(keep, f)
					}
				}
				d.FS = keep
			}
			n.Extra = nil
			return
		}
	}
	switch n.Kind {
	case "pre":
		s.walk(n.Elem, ds, vs)
	case "ptr":
		var sub []*D
		for _, d := range ds {
			if d.K == "p" && d.P != nil {
				sub = append(sub, d.P)
			}
		}
		s.walk(n.Elem, sub, vs)
	case "slice":
		// halve / drop the last element of one list instance
		for _, d := range ds {
			if d.K == "sl" && len(d.L) > 0 {
				if len(d.L) > 2 && s.hit() {
					d.L = d.L[:len(d.L)/2]
					return
				}
				if s.hit() {
					d.L = d.L[:len(d.L)-1]
					return
				}
				if len(d.L) > 1 && s.hit() {
					d.L = d.L[1:]
					return
				}
			}
		}
		for _, v := range vs {
			if v.K == "l" && len(v.L) > 0 {
				if len(v.L) > 2 && s.hit() {
					v.L = v.L[:len(v.L)/2]
					return
				}
				if s.hit() {
					v.L = v.L[:len(v.L)-1]
					return
				}
				if len(v.L) > 1 && s.hit() {
					v.L = v.L[1:]
					return
				}
			}
		}
		var subD []*D
		var subV []*V
		for _, d := range ds {
			if d.K == "sl" {
				for i := range d.L {
					subD = append(subD, &d.L[i])
				}
			}
		}
		for _, v := range vs {
			if v.K == "l" {
				for i := range v.L {
					subV = append(subV, &v.L[i])
				}
			}
		}
		s.walk(n.Elem, subD, subV)
	case "struct":
		if first {
			for i := range n.Fields {
				if len(n.Fields) > 1 && s.hit() {
					f := n.Fields[i]
					n.Fields = append(n.Fields[:i:i], n.Fields[i+1:]...)
					n.BuildOrder = nil
					for _, d := range ds {
						keep := d.FS[:0:0]
						for _, df := range d.FS {
							if df.Name != f.GoName {
								keep = append(keep, df)
							}
						}
						d.FS = keep
					}
					for _, v := range vs {
						if v.K == "o" || v.K == "so" || v.K == "fl" {
							keep := v.O[:0:0]
							for _, kv := range v.O {
								if kv.K != f.MapKey() && kv.K != f.GoName {
									keep = append(keep, kv)
								}
							}
							v.O = keep
						}
					}
					return
				}
			}
		}
		for _, f := range n.Fields {
			var subD []*D
			var subV []*V
			for _, d := range ds {
				if d.K == "st" {
					for j := range d.FS {
						if d.FS[j].Name == f.GoName {
							subD = append(subD, &d.FS[j].D)
						}
					}
				}
			}
			for _, v := range vs {
				if v.K == "o" || v.K == "so" || v.K == "fl" {
					for j := range v.O {
						if v.O[j].K == f.MapKey() || (v.K == "so" && v.O[j].K == f.GoName) {
							subV = append(subV, &v.O[j].V)
						}
					}
				}
			}
			s.walk(f.S, subD, subV)
			if s.target >= 0 && s.seen > s.target {
				return
			}
		}
	}
}

// Reductions: every case one step smaller than c (independent deep copies)
func Reductions(c *Case) []*Case {
	count := &shrinkState{target: -1, seenN: map[*Node]bool{}}
	probe := cloneCase(c)
	count.walk(probe.Schema, []*D{&probe.Dest}, []*V{&probe.Input})
	var out []*Case
	for k := 0; k < count.seen; k++ {
		cc := cloneCase(c)
		st := &shrinkState{target: k, seenN: map[*Node]bool{}}
		st.walk(cc.Schema, []*D{&cc.Dest}, []*V{&cc.Input})
		out = append(out, cc)
	}
	return out
}

// Size: a rough measure of a case (schema nodes, tests, transforms, modifiers, list elements)
func (c *Case) Size() int {
	seen := map[*Node]bool{}
	var nodeSize func(n *Node) int
	nodeSize = func(n *Node) int {
		if n == nil || seen[n] {
			return 0
		}
		seen[n] = true
		s := 1 + len(n.Tests) + len(n.Posts) + len(n.Extra)
		for _, p := range []bool{n.Catch != nil, n.Dflt != nil, n.Req != nil, n.NotNil != nil, n.SliceDfltD != nil, n.Coercer != ""} {
			if p {
				s++
			}
		}
		s += nodeSize(n.Elem)
		for _, f := range n.Fields {
			s += 1 + nodeSize(f.S)
		}
		return s
	}
	var dSize func(d D) int
	dSize = func(d D) int {
		s := 0
		for _, x := range d.L {
			s += 1 + dSize(x)
		}
		for _, f := range d.FS {
			s += dSize(f.D)
		}
		if d.P != nil {
			s += dSize(*d.P)
		}
		return s
	}
	var vSize func(v V) int
	vSize = func(v V) int {
		s := 0
		for _, x := range v.L {
			s += 1 + vSize(x)
		}
		for _, kv := range v.O {
			s += vSize(kv.V)
		}
		return s
	}
	return nodeSize(c.Schema) + dSize(c.Dest) + vSize(c.Input)
}
