package eng

import (
	"fmt"
	"os"
	"reflect"
	"runtime/debug"
	"sort"
	"strconv"
	"strings"
	"time"

	"github.com/Oudwins/zog/conf"
	"github.com/Oudwins/zog/i18n"
	"github.com/Oudwins/zog/i18n/en"
	"github.com/Oudwins/zog/i18n/es"

	z "github.com/Oudwins/zog"
	p "github.com/Oudwins/zog/internals"

	"verif/harness/internal/sx"
)

type Case struct {
	ID     int
	Mode   string // p | v
	Schema *Node
	Dest   D // initial destination (Parse: usually zero + sentinels; Validate: the value)
	Input  V // Parse only
	Tag    string
	// Fmt: "" (global default formatter) | "exec:en" | "exec:es" (WithIssueFormatter) |
	// "i18n:-" | "i18n:<lang>" (i18n installed globally, WithCtxValue("lang", <lang>))
	Fmt string
	// AltDest: the destination is of the schema's SECOND destination type (GoTypeAlt)
	AltDest bool
	// WarmOther: before the case proper, the same schema object is executed once with the OTHER
	// destination type (schemas are reusable across destination types that have their fields)
	WarmOther bool
}

func (c *Case) destType() reflect.Type {
	if c.AltDest {
		return c.Schema.GoTypeAlt()
	}
	return c.Schema.GoType()
}

type Iss struct {
	Code, Path, DType, Msg string
	Params                 [][2]string
}

type Result struct {
	Panic  string
	Issues map[string][]Iss // by map key; primitives (list result) are folded into the same shape
	Dest   D
	Events []Event
	Order  map[string][]string
	// object identity facts about the returned issues (C07): number of distinct issue objects
	// outside $first, and whether $first aliases one of them
	DistinctObjs int
	FirstAliased bool
	NonFirst     int
	// the raw results, for handing back through the Collect helpers (S-pool)
	RawMap  z.ZogIssueMap
	RawList z.ZogIssueList
	// a callback saw a context value that this call did not set
	CtxLeak string
	// a callback was handed a pointer that is not the address of a part of the destination
	StrayPtr string
}

func issOf(i *z.ZogIssue) Iss {
	out := Iss{Code: i.Code, Path: i.Path, DType: i.Dtype, Msg: i.Message}
	for _, k := range sortedKeys(i.Params) {
		out.Params = append(out.Params, [2]string{k, fmt.Sprintf("%v", i.Params[k])})
	}
	return out
}

func (i Iss) Sx() *sx.Node {
	ps := []*sx.Node{}
	for _, kv := range i.Params {
		ps = append(ps, sx.L(sx.S(kv[0]), sx.S(kv[1])))
	}
	return sx.T("I", sx.S(i.Code), sx.S(i.Path), sx.S(i.DType), sx.L(ps...), sx.S(i.Msg))
}

func (r *Result) Sx(id int) *sx.Node {
	if r.Panic != "" {
		return sx.T("res", sx.I(int64(id)), sx.T("panic"))
	}
	keys := sortedKeys(r.Issues)
	ks := []*sx.Node{}
	for _, k := range keys {
		items := []*sx.Node{sx.S(k)}
		for _, i := range r.Issues[k] {
			items = append(items, i.Sx())
		}
		ks = append(ks, sx.L(items...))
	}
	evs := []*sx.Node{}
	for _, e := range r.Events {
		evs = append(evs, sx.T("E", sx.A(e.Kind), sx.I(int64(e.ID)), sx.S(e.Path), e.Arg.Sx()))
	}
	return sx.T("res", sx.I(int64(id)), sx.T("issues", ks...), sx.T("dest", r.Dest.Sx()), sx.T("log", evs...))
}

// listToMap folds a primitive's issue list into the map shape ErrsMap would have produced, so that
// one canonical form serves both result kinds.
func listToMap(l z.ZogIssueList) map[string][]Iss {
	if l == nil {
		return map[string][]Iss{}
	}
	out := map[string][]Iss{}
	for idx, i := range l {
		if idx == 0 {
			out["$first"] = []Iss{issOf(i)}
		}
		k := i.Path
		if k == "" {
			k = "$root"
		}
		out[k] = append(out[k], issOf(i))
	}
	return out
}

func mapToMap(m z.ZogIssueMap) map[string][]Iss {
	out := map[string][]Iss{}
	for k, l := range m {
		for _, i := range l {
			out[k] = append(out[k], issOf(i))
		}
	}
	return out
}

// Run executes the case on the real zog.
func Run(c *Case) (res *Result) {
	rec := NewRecorder()
	schema := Build(c.Schema, rec)
	var data any
	if c.Mode == "p" {
		data = c.Input.Go()
	}
	if c.WarmOther {
		w := *c
		w.AltDest, w.WarmOther = !c.AltDest, false
		runOn(schema, &w, rec, data)
		rec.Events, rec.Order, rec.OrderPaths, rec.CtxLeak, rec.Ptrs = nil, map[string][]string{}, nil, "", nil
		if c.Mode == "p" {
			data = c.Input.Go()
		}
	}
	return runOn(schema, c, rec, data)
}

// RunTwice executes the case twice on ONE schema object (fresh destination each time) and reports
// whether the input data was modified by the first execution.
func RunTwice(c *Case) (first, second *Result, inputChanged string) {
	rec := NewRecorder()
	schema := Build(c.Schema, rec)
	var data any
	if c.Mode == "p" {
		data = c.Input.Go()
	}
	before := fmt.Sprintf("%#v", data)
	first = runOn(schema, c, rec, data)
	after := fmt.Sprintf("%#v", data)
	if c.Mode == "p" && before != after && c.Input.K != "x" {
		inputChanged = "before " + before + " after " + after
	}
	rec.Events, rec.Order, rec.OrderPaths, rec.CtxLeak, rec.Ptrs = nil, map[string][]string{}, nil, "", nil
	// every other case: the caller hands the first result back to the library (Collect helpers) before
	// the second use — what the library does with a returned result must not change the schema either
	if c.ID%2 == 0 {
		if first.RawMap != nil {
			z.Issues.CollectMap(first.RawMap)
		} else if first.RawList != nil {
			z.Issues.CollectList(first.RawList)
		}
		first.RawMap, first.RawList = nil, nil
	}
	second = runOn(schema, c, rec, data)
	return
}

// ExecOpts: the execution options (and the global set-up they need) of the case's formatter mode
func (c *Case) ExecOpts() (opts []z.ExecOption, restore func()) { return c.execOpts() }

// CtxValues: the WithCtxValue pairs this case passes besides those of its formatter mode
func (c *Case) CtxValues() [][2]string {
	switch c.ID % 8 {
	case 1:
		return [][2]string{{"k1", fmt.Sprintf("v%d", c.ID)}}
	case 2:
		return [][2]string{{"k1", "first"}, {"k2", "b"}, {"k1", "last"}}
	case 3:
		return [][2]string{{"k2", "only"}}
	case 5:
		// falsy values are values: the empty string, 0, false (Get returns exactly what was passed)
		return [][2]string{{"k1", ""}, {"k2", "#0"}, {"k3", "!false"}}
	case 6:
		// a later empty value replaces an earlier one
		return [][2]string{{"k1", "first"}, {"k1", ""}, {"k2", "~"}}
	}
	return nil
}

// fmtCtxValues: the context values the formatter mode passes (execOpts)
func (c *Case) fmtCtxValues() (out [][2]string) {
	switch {
	case strings.HasPrefix(c.Fmt, "i18nh:"):
		parts := strings.SplitN(c.Fmt, ":", 3)
		if len(parts) == 3 && parts[2] != "" {
			for _, kv := range strings.Split(parts[2], ",") {
				k, l, _ := strings.Cut(kv, "=")
				out = append(out, [2]string{k, l})
			}
		}
	case strings.HasPrefix(c.Fmt, "i18n:"):
		if l := strings.TrimPrefix(c.Fmt, "i18n:"); l != "-" {
			out = append(out, [2]string{"lang", l})
		}
	}
	return
}

func (c *Case) execOpts() (opts []z.ExecOption, restore func()) {
	restore = func() {}
	switch {
	case c.Fmt == "exec:en":
		opts = append(opts, z.WithIssueFormatter(conf.NewDefaultFormatter(en.Map)))
	case c.Fmt == "exec:es":
		opts = append(opts, z.WithIssueFormatter(conf.NewDefaultFormatter(es.Map)))
	case strings.HasPrefix(c.Fmt, "i18nh:"):
		// "i18nh:<k1>,<k2>,...:<ctxkey>=<lang>,..." — a HISTORY of installations (each with WithLangKey(k), or
		// without the option for "-"), then an execution whose context names languages under the given keys
		old := conf.IssueFormatter
		restore = func() { conf.IssueFormatter = old }
		parts := strings.SplitN(c.Fmt, ":", 3)
		for _, k := range strings.Split(parts[1], ",") {
			if k == "-" {
				i18n.SetLanguagesErrsMap(map[string]i18n.LangMap{"en": en.Map, "es": es.Map}, "en")
			} else {
				i18n.SetLanguagesErrsMap(map[string]i18n.LangMap{"en": en.Map, "es": es.Map}, "en", i18n.WithLangKey(k))
			}
		}
		if len(parts) == 3 && parts[2] != "" {
			for _, kv := range strings.Split(parts[2], ",") {
				k, l, _ := strings.Cut(kv, "=")
				opts = append(opts, z.WithCtxValue(k, CtxValOf(l)))
			}
		}
	case strings.HasPrefix(c.Fmt, "i18n:"):
		old := conf.IssueFormatter
		i18n.SetLanguagesErrsMap(map[string]i18n.LangMap{"en": en.Map, "es": es.Map}, "en")
		restore = func() { conf.IssueFormatter = old }
		if l := strings.TrimPrefix(c.Fmt, "i18n:"); l != "-" {
			opts = append(opts, z.WithCtxValue("lang", l))
		}
	}
	return
}

func runOn(schema z.ZogSchema, c *Case, rec *Recorder, data any) (res *Result) {
	return runOnOpt(schema, c, rec, data, true)
}

func runOnOpt(schema z.ZogSchema, c *Case, rec *Recorder, data any, hook bool) (res *Result) {
	res = &Result{}
	var rawList z.ZogIssueList
	ltm := func(l z.ZogIssueList) map[string][]Iss { rawList = l; return listToMap(l) }
	opts, restore := c.execOpts()
	defer restore()
	if hook {
		// context values of this execution: those of the formatter mode plus the case's own
		// (a pure function of its id; a key given twice keeps the last value)
		kvs := c.fmtCtxValues()
		for _, kv := range c.CtxValues() {
			opts = append(opts, z.WithCtxValue(kv[0], CtxValOf(kv[1])))
			kvs = append(kvs, kv)
		}
		rec.CtxExpect = map[string]any{}
		for _, kv := range kvs {
			rec.CtxExpect[kv[0]] = CtxValOf(kv[1])
		}
	}
	if hook {
		p.VerifFieldHook = func(path, key string) {
			if _, ok := rec.Order[path]; !ok {
				rec.OrderPaths = append(rec.OrderPaths, path)
			}
			rec.Order[path] = append(rec.Order[path], key)
		}
		defer func() { p.VerifFieldHook = nil }()
	}
	dest := reflect.New(c.destType())
	SetD(c.Schema, dest.Elem(), c.Dest)
	rec.Root = dest.Elem()
	defer func() {
		if r := recover(); r != nil {
			if os.Getenv("VERIF_PANIC") != "" {
				fmt.Fprintf(os.Stderr, "panic: %v\n%s\n", r, debug.Stack())
			}
			res = &Result{Panic: fmt.Sprint(r), Events: rec.Events, Order: rec.Order}
		}
	}()
	var im map[string][]Iss
	switch s := schema.(type) {
	case z.ComplexZogSchema:
		if c.Mode == "p" {
			m := s.Parse(data, dest.Interface(), opts...)
			im = mapToMap(m)
			res.RawMap = m
			res.DistinctObjs, res.FirstAliased, res.NonFirst = identityFacts(m)
		} else {
			var m z.ZogIssueMap
			switch cs := s.(type) {
			case *z.StructSchema:
				m = cs.Validate(dest.Interface(), opts...)
			case *z.SliceSchema:
				m = cs.Validate(dest.Interface(), opts...)
			case *z.PointerSchema:
				m = cs.Validate(dest.Interface(), opts...)
			}
			im = mapToMap(m)
			res.RawMap = m
			res.DistinctObjs, res.FirstAliased, res.NonFirst = identityFacts(m)
		}
	case *z.StringSchema[string]:
		if c.Mode == "p" {
			im = ltm(s.Parse(data, dest.Interface().(*string), opts...))
		} else {
			im = ltm(s.Validate(dest.Interface().(*string), opts...))
		}
	case *z.NumberSchema[int]:
		if c.Mode == "p" {
			im = ltm(s.Parse(data, dest.Interface().(*int), opts...))
		} else {
			im = ltm(s.Validate(dest.Interface().(*int), opts...))
		}
	case *z.NumberSchema[int32]:
		if c.Mode == "p" {
			im = ltm(s.Parse(data, dest.Interface().(*int32), opts...))
		} else {
			im = ltm(s.Validate(dest.Interface().(*int32), opts...))
		}
	case *z.NumberSchema[int64]:
		if c.Mode == "p" {
			im = ltm(s.Parse(data, dest.Interface().(*int64), opts...))
		} else {
			im = ltm(s.Validate(dest.Interface().(*int64), opts...))
		}
	case *z.NumberSchema[float64]:
		if c.Mode == "p" {
			im = ltm(s.Parse(data, dest.Interface().(*float64), opts...))
		} else {
			im = ltm(s.Validate(dest.Interface().(*float64), opts...))
		}
	case *z.NumberSchema[float32]:
		if c.Mode == "p" {
			im = ltm(s.Parse(data, dest.Interface().(*float32), opts...))
		} else {
			im = ltm(s.Validate(dest.Interface().(*float32), opts...))
		}
	case *z.BoolSchema[bool]:
		if c.Mode == "p" {
			im = ltm(s.Parse(data, dest.Interface().(*bool), opts...))
		} else {
			im = ltm(s.Validate(dest.Interface().(*bool), opts...))
		}
	case *z.TimeSchema:
		if c.Mode == "p" {
			im = ltm(s.Parse(data, dest.Interface().(*time.Time), opts...))
		} else {
			im = ltm(s.Validate(dest.Interface().(*time.Time), opts...))
		}
	case *z.Custom[int]:
		if c.Mode == "p" {
			im = ltm(s.Parse(data, dest.Interface().(*int), opts...))
		} else {
			im = ltm(s.Validate(dest.Interface().(*int), opts...))
		}
	case *z.Custom[string]:
		if c.Mode == "p" {
			im = ltm(s.Parse(data, dest.Interface().(*string), opts...))
		} else {
			im = ltm(s.Validate(dest.Interface().(*string), opts...))
		}
	case *z.PreprocessSchema[string, int]:
		im = ltm(s.Parse(data.(string), dest.Interface().(*int), opts...))
	case *z.PreprocessSchema[string, string]:
		im = ltm(s.Parse(data.(string), dest.Interface().(*string), opts...))
	case *z.PreprocessSchema[*int, int]:
		im = ltm(s.Validate(dest.Interface().(*int), opts...))
	case *z.PreprocessSchema[*string, string]:
		im = ltm(s.Validate(dest.Interface().(*string), opts...))
	default:
		panic(fmt.Sprintf("Run: unsupported top-level schema %T", schema))
	}
	res.Issues = im
	if res.RawMap == nil {
		res.RawList = rawList
	}
	res.CtxLeak = rec.CtxLeak
	res.StrayPtr = rec.StrayPtr(dest.Elem())
	res.Dest = DOf(c.Schema, dest.Elem())
	res.Events = rec.Events
	res.Order = rec.Order
	return res
}

func identityFacts(m z.ZogIssueMap) (distinct int, firstAliased bool, total int) {
	seen := map[*z.ZogIssue]bool{}
	n := 0
	for k, l := range m {
		if k == "$first" {
			continue
		}
		for _, i := range l {
			seen[i] = true
			n++
		}
	}
	if f := m["$first"]; len(f) == 1 {
		firstAliased = seen[f[0]]
	}
	return len(seen), firstAliased, n
}

// Line renders the case for the Lean driver, with the visit orders observed on the real run.
func (c *Case) Line(order map[string][]string) string {
	ext := NewExt()
	ls := map[string]bool{}
	collectLayouts(c.Schema, ls)
	for _, l := range sortedKeys(ls) {
		ext.Layouts = append(ext.Layouts, l)
	}
	schema := c.Schema.Sx(ext)
	noteInputDisplays(c.Input, ext)
	ord := []*sx.Node{}
	paths := make([]string, 0, len(order))
	for k := range order {
		paths = append(paths, k)
	}
	sort.Strings(paths)
	for _, pth := range paths {
		items := []*sx.Node{sx.S(pth)}
		for _, k := range order[pth] {
			items = append(items, sx.S(k))
		}
		ord = append(ord, sx.L(items...))
	}
	tag := sx.A("-")
	if c.Tag != "" {
		tag = sx.A(c.Tag)
	}
	input := sx.A("nil")
	if c.Mode == "p" {
		input = c.Input.Sx()
	}
	items := []*sx.Node{sx.I(int64(c.ID)), sx.A(c.Mode), schema, c.Dest.Sx(), input, tag, sx.T("order", ord...), ext.Sx()}
	if f := c.FmtSx(); f != nil {
		items = append(items, f)
	}
	return sx.T("engine", items...).String()
}

// noteInputDisplays records fmt %v (String coercer), strconv.ParseFloat and time.Parse results for
// the leaves of the input — computed with the standard library, not through zog.
func noteInputDisplays(v V, ext *Ext) {
	switch v.K {
	case "f64", "f32", "t", "l", "o", "x":
		ext.NoteDisplayV(v)
		for _, x := range v.L {
			noteInputDisplays(x, ext)
		}
		for _, kv := range v.O {
			noteInputDisplays(kv.V, ext)
		}
	case "fl", "so":
		for _, kv := range v.O {
			noteInputDisplays(kv.V, ext)
		}
	case "s":
		ext.NoteParse(v.S)
		if strings.Contains(v.S, ",") {
			// the named slice coercer `csv` hands the pieces to the element schema
			for _, piece := range strings.Split(v.S, ",") {
				ext.NoteParse(piece)
			}
		}
	}
}

// RunBuilt executes a case on an already built schema.
func RunBuilt(schema z.ZogSchema, c *Case, rec *Recorder) *Result {
	var data any
	if c.Mode == "p" {
		data = c.Input.Go()
	}
	return runOn(schema, c, rec, data)
}

func NoteInput(v V, ext *Ext) { noteInputDisplays(v, ext) }

// RunBuiltData executes a Parse case on an already built schema with explicit input data
// (a data-provider factory such as zhttp.Request / zjson.Decode).
func RunBuiltData(schema z.ZogSchema, c *Case, rec *Recorder, data any) *Result {
	return runOn(schema, c, rec, data)
}

func SentinelZero(n *Node) D {
	if n.Kind == "ptr" || n.Kind == "pre" {
		return ZeroD(n)
	}
	return sentinelZero(n)
}

// RunBuiltQuiet executes a case on a shared, already built schema without installing the visit-order
// hook and without a shared recorder (safe to call from many goroutines).
func RunBuiltQuiet(schema z.ZogSchema, c *Case) *Result {
	var data any
	if c.Mode == "p" {
		data = c.Input.Go()
	}
	return runOnOpt(schema, c, NewRecorder(), data, false)
}

// FmtSx: the formatter mode of the case as the model reads it (nil: the global default formatter)
func (c *Case) FmtSx() *sx.Node {
	switch {
	case c.Fmt == "exec:en":
		return sx.T("fmt", sx.A("exec"), sx.A("en"))
	case c.Fmt == "exec:es":
		return sx.T("fmt", sx.A("exec"), sx.A("es"))
	case strings.HasPrefix(c.Fmt, "i18nh:"):
		parts := strings.SplitN(c.Fmt, ":", 3)
		var hist, ctx []*sx.Node
		for _, k := range strings.Split(parts[1], ",") {
			if k == "-" {
				hist = append(hist, sx.A("-"))
			} else {
				hist = append(hist, sx.S(k))
			}
		}
		if len(parts) == 3 && parts[2] != "" {
			for _, kv := range strings.Split(parts[2], ",") {
				k, l, _ := strings.Cut(kv, "=")
				if _, isStr := CtxValOf(l).(string); isStr {
					ctx = append(ctx, sx.L(sx.S(k), sx.S(l)))
				} else {
					ctx = append(ctx, sx.L(sx.S(k))) // present, but not a string
				}
			}
		}
		return sx.T("fmt", sx.A("i18nh"), sx.L(hist...), sx.L(ctx...))
	case c.Fmt == "i18n:-":
		return sx.T("fmt", sx.A("i18n"), sx.A("-"))
	case strings.HasPrefix(c.Fmt, "i18n:"):
		return sx.T("fmt", sx.A("i18n"), sx.S(strings.TrimPrefix(c.Fmt, "i18n:")))
	}
	return nil
}

// CtxValOf: the Go value of a context-value spec — "~es" a value of a named string type, "#7" an int,
// anything else the string itself
func CtxValOf(spec string) any {
	switch {
	case strings.HasPrefix(spec, "~"):
		return namedStr(spec[1:])
	case strings.HasPrefix(spec, "#"):
		n, _ := strconv.Atoi(spec[1:])
		return n
	case spec == "!false":
		return false
	case spec == "!true":
		return true
	}
	return spec
}
