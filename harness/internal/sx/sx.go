// Package sx: S-expressions, the wire format of the correspondence protocol.
package sx

import (
	"encoding/hex"
	"fmt"
	"strings"
)

type Node struct {
	Atom   string
	List   []*Node
	IsList bool
}

func A(s string) *Node    { return &Node{Atom: s} }
func L(xs ...*Node) *Node { return &Node{List: xs, IsList: true} }
func T(tag string, xs ...*Node) *Node {
	return &Node{List: append([]*Node{A(tag)}, xs...), IsList: true}
}
func S(s string) *Node { return A("#" + hex.EncodeToString([]byte(s))) }
func I(n int64) *Node  { return A(fmt.Sprintf("%d", n)) }
func B(b bool) *Node {
	if b {
		return A("1")
	}
	return A("0")
}

func (n *Node) String() string {
	var b strings.Builder
	n.write(&b)
	return b.String()
}

func (n *Node) write(b *strings.Builder) {
	if !n.IsList {
		b.WriteString(n.Atom)
		return
	}
	b.WriteByte('(')
	for i, x := range n.List {
		if i > 0 {
			b.WriteByte(' ')
		}
		x.write(b)
	}
	b.WriteByte(')')
}

func Parse(s string) (*Node, error) {
	var stack [][]*Node
	var cur []*Node
	tok := strings.Builder{}
	flush := func() {
		if tok.Len() > 0 {
			cur = append(cur, A(tok.String()))
			tok.Reset()
		}
	}
	for _, c := range s {
		switch c {
		case '(':
			flush()
			stack = append(stack, cur)
			cur = nil
		case ')':
			flush()
			if len(stack) == 0 {
				return nil, fmt.Errorf("unbalanced )")
			}
			n := &Node{List: cur, IsList: true}
			cur = append(stack[len(stack)-1], n)
			stack = stack[:len(stack)-1]
		case ' ', '\t', '\n', '\r':
			flush()
		default:
			tok.WriteRune(c)
		}
	}
	flush()
	if len(stack) != 0 || len(cur) != 1 {
		return nil, fmt.Errorf("bad sexp: %q", s)
	}
	return cur[0], nil
}

// Unhex decodes a #hex atom.
func (n *Node) Str() string {
	if n.IsList || !strings.HasPrefix(n.Atom, "#") {
		return ""
	}
	b, _ := hex.DecodeString(n.Atom[1:])
	return string(b)
}

// Tag returns the head atom of a list node.
func (n *Node) Tag() string {
	if n.IsList && len(n.List) > 0 && !n.List[0].IsList {
		return n.List[0].Atom
	}
	return ""
}

// Find returns the first child list whose head atom is tag.
func (n *Node) Find(tag string) *Node {
	for _, c := range n.List {
		if c.Tag() == tag {
			return c
		}
	}
	return nil
}
