// Package rng: one splitmix64 state from which every random choice of a run derives.
package rng

type R struct{ s uint64 }

// New: the state is a finalised hash of the seed (with a plain affine map, consecutive seeds would yield the
// same stream shifted by one step, and a sweep over seeds would revisit the same cases).
func New(seed uint64) *R {
	r := &R{s: seed*0x9E3779B97F4A7C15 + 0x1234567}
	r.s = r.U64() ^ (seed << 32)
	return r
}

func (r *R) U64() uint64 {
	r.s += 0x9E3779B97F4A7C15
	z := r.s
	z = (z ^ (z >> 30)) * 0xBF58476D1CE4E5B9
	z = (z ^ (z >> 27)) * 0x94D049BB133111EB
	return z ^ (z >> 31)
}

// Intn returns a number in [0,n).
func (r *R) Intn(n int) int {
	if n <= 0 {
		return 0
	}
	return int(r.U64() % uint64(n))
}

// P returns true with probability num/den.
func (r *R) P(num, den int) bool { return r.Intn(den) < num }

func (r *R) Range(lo, hi int) int { return lo + r.Intn(hi-lo+1) }

func Pick[T any](r *R, xs []T) T { return xs[r.Intn(len(xs))] }

// Fork derives an independent generator (so that one case's choices do not shift the next case's).
func (r *R) Fork() *R { return &R{s: r.U64()} }

func (r *R) Shuffle(n int, swap func(i, j int)) {
	for i := n - 1; i > 0; i-- {
		j := r.Intn(i + 1)
		swap(i, j)
	}
}
