package demos

// One reproduction per defect of DESIGN.md §9. On the pinned tree every test here FAILS
// (that is the demonstration against the real code); on the repaired tree every test
// passes, except the two recorded as known findings (D17, D19) which are skipped unless
// VERIF_DEMO_KNOWN=1.

import (
	"bytes"
	"errors"
	"fmt"
	"math"
	"net/http"
	"net/http/httptest"
	"os"
	"strings"
	"testing"
	"time"

	z "github.com/Oudwins/zog"
	"github.com/Oudwins/zog/conf"
	"github.com/Oudwins/zog/i18n"
	"github.com/Oudwins/zog/i18n/en"
	"github.com/Oudwins/zog/i18n/es"
	"github.com/Oudwins/zog/internals"
	"github.com/Oudwins/zog/parsers/zjson"
	"github.com/Oudwins/zog/zconst"
	"github.com/Oudwins/zog/zenv"
	"github.com/Oudwins/zog/zhttp"
)

func noPanic(t *testing.T, what string, f func()) {
	t.Helper()
	defer func() {
		if r := recover(); r != nil {
			t.Fatalf("%s panicked: %v", what, r)
		}
	}()
	f()
}

// D1: a caught sibling makes a later non-primitive sibling's issues vanish (map order dependent)
func TestD1_CatchLeaksToSiblingStruct(t *testing.T) {
	type D struct {
		A int
		B []int
	}
	s := z.Struct(z.Schema{"a": z.Int().Catch(7), "b": z.Slice(z.Int()).Required()})
	bad := 0
	for i := 0; i < 300; i++ {
		var d D
		errs := s.Parse(map[string]any{"a": "zz"}, &d)
		if len(errs["b"]) != 1 {
			bad++
		}
	}
	if bad > 0 {
		t.Fatalf("required issue of sibling b missing in %d/300 runs", bad)
	}
	// validate mode
	sv := z.Struct(z.Schema{"a": z.Int().Required().Catch(7), "b": z.Slice(z.Int()).Required()})
	bad = 0
	for i := 0; i < 300; i++ {
		d := D{}
		errs := sv.Validate(&d)
		if len(errs["b"]) != 1 {
			bad++
		}
	}
	if bad > 0 {
		t.Fatalf("validate: required issue of sibling b missing in %d/300 runs", bad)
	}
}

// D2: one caught slice element makes every later element take the catch value
func TestD2_CatchLeaksAcrossSliceElements(t *testing.T) {
	var out []int
	errs := z.Slice(z.Int().GT(5).Catch(99)).Parse([]any{1, 10, 20}, &out)
	if errs != nil || fmt.Sprint(out) != "[99 10 20]" {
		t.Fatalf("got %v errs=%v, want [99 10 20]", out, errs)
	}
	out2 := []int{1, 10, 20}
	errs = z.Slice(z.Int().GT(5).Catch(99)).Validate(&out2)
	if errs != nil || fmt.Sprint(out2) != "[99 10 20]" {
		t.Fatalf("validate got %v errs=%v, want [99 10 20]", out2, errs)
	}
}

// D3: WithCtxValue of one call is visible in the next
func TestD3_CtxValueLeak(t *testing.T) {
	var seen any
	s := z.String().TestFunc(func(v any, ctx z.Ctx) bool { seen = ctx.Get("k"); return true })
	var d string
	for i := 0; i < 50; i++ {
		s.Parse("x", &d, z.WithCtxValue("k", "secret"))
		s.Parse("x", &d)
		if seen != nil {
			t.Fatalf("second call saw ctx value %v", seen)
		}
	}
}

// D4: a coerce issue carries the params of an earlier, collected issue
func TestD4_CoerceIssueStaleParams(t *testing.T) {
	var n int
	for i := 0; i < 50; i++ {
		errs := z.Int().GT(5).Parse(1, &n)
		z.Issues.CollectList(errs)
		errs = z.Int().Parse("zz", &n)
		if len(errs) != 1 || errs[0].Params != nil {
			t.Fatalf("coerce issue has params %v", errs[0].Params)
		}
	}
}

// D5: `{}` through zjson panics in struct.process
func TestD5_EmptyJSONObject(t *testing.T) {
	type D struct{ A string }
	s := z.Struct(z.Schema{"a": z.String().Required()})
	noPanic(t, "parse {}", func() {
		var d D
		errs := s.Parse(zjson.Decode(strings.NewReader("{}")), &d)
		if len(errs["a"]) != 1 || errs["a"][0].Code != zconst.IssueCodeRequired {
			t.Fatalf("want required issue for a, got %v", errs)
		}
	})
}

// D6: schema keys longer than 32 bytes panic
func TestD6_LongKey(t *testing.T) {
	type D struct {
		Abcdefghijklmnopqrstuvwxyzabcdefghijklmn int
	}
	s := z.Struct(z.Schema{"abcdefghijklmnopqrstuvwxyzabcdefghijklmn": z.Int()})
	noPanic(t, "long key parse", func() {
		var d D
		s.Parse(map[string]any{"abcdefghijklmnopqrstuvwxyzabcdefghijklmn": 3}, &d)
		if d.Abcdefghijklmnopqrstuvwxyzabcdefghijklmn != 3 {
			t.Fatalf("not parsed")
		}
	})
	noPanic(t, "long key validate", func() {
		d := D{4}
		s.Validate(&d)
	})
}

type namedMap map[string]any
type namedStr string

// D7: named map types panic on type assertion
func TestD7_NamedMap(t *testing.T) {
	type D struct{ A string }
	s := z.Struct(z.Schema{"a": z.String()})
	noPanic(t, "named map", func() {
		var d D
		errs := s.Parse(namedMap{"a": "x"}, &d)
		if errs != nil || d.A != "x" {
			t.Fatalf("named map not parsed: %v %v", d, errs)
		}
	})
	noPanic(t, "map of named elem", func() {
		var d D
		s.Parse(map[string]namedStr{"a": "x"}, &d)
	})
}

// D8: struct input with an unexported field of the looked-up name panics
func TestD8_UnexportedField(t *testing.T) {
	type In struct{ a string }
	type D struct{ A string }
	s := z.Struct(z.Schema{"a": z.String()})
	noPanic(t, "unexported", func() {
		var d D
		s.Parse(In{a: "x"}, &d)
	})
}

// D9: an empty tag on a nested field panics in PathBuilder.String
func TestD9_EmptyTag(t *testing.T) {
	type In struct {
		A string `zog:""`
	}
	type D struct {
		In In
	}
	s := z.Struct(z.Schema{"in": z.Struct(z.Schema{"a": z.String().Min(5)})})
	noPanic(t, "empty tag", func() {
		var d D
		s.Parse(map[string]any{"in": map[string]any{"": "x"}}, &d)
	})
}

// D10: narrowing wraps or saturates silently
func TestD10_NumericRange(t *testing.T) {
	var i32 int32
	if errs := z.Int32().Parse("3000000000", &i32); errs == nil {
		t.Fatalf("Int32 accepted 3000000000 as %d", i32)
	}
	if errs := z.Int32().Parse(3e9, &i32); errs == nil {
		t.Fatalf("Int32 accepted 3e9 as %d", i32)
	}
	var i int
	if errs := z.Int().Parse(1e19, &i); errs == nil {
		t.Fatalf("Int accepted 1e19 as %d", i)
	}
	if errs := z.Int().Parse(math.NaN(), &i); errs == nil {
		t.Fatalf("Int accepted NaN as %d", i)
	}
	if errs := z.Int().Parse(math.Inf(1), &i); errs == nil {
		t.Fatalf("Int accepted +Inf as %d", i)
	}
	var i64 int64
	if errs := z.Int64().Parse(-1e19, &i64); errs == nil {
		t.Fatalf("Int64 accepted -1e19 as %d", i64)
	}
	var f32 float32
	if errs := z.Float32().Parse(1e300, &f32); errs == nil {
		t.Fatalf("Float32 accepted 1e300 as %v", f32)
	}
	if errs := z.Float32().Parse("1e300", &f32); errs == nil {
		t.Fatalf("Float32 accepted \"1e300\" as %v", f32)
	}
}

// D11: Time.Format is a no-op
func TestD11_TimeFormat(t *testing.T) {
	var tm time.Time
	errs := z.Time(z.Time.Format("2006-01-02")).Parse("2024-05-06", &tm)
	if errs != nil || tm.Year() != 2024 || tm.Month() != 5 || tm.Day() != 6 {
		t.Fatalf("Time.Format ignored: %v %v", tm, errs)
	}
}

// D12: number one_of template has a placeholder that is never bound
func TestD12_OneOfTemplate(t *testing.T) {
	for name, m := range map[string]zconst.LangMap{"en": en.Map, "es": es.Map} {
		var n int
		conf.IssueFormatter = conf.NewDefaultFormatter(m)
		errs := z.Int().OneOf([]int{1, 2}).Parse(5, &n)
		conf.IssueFormatter = conf.DefaultIssueFormatter
		if len(errs) != 1 || strings.Contains(errs[0].Message, "{{") {
			t.Fatalf("%s: unresolved placeholder in %q", name, errs[0].Message)
		}
	}
}

// D13: invalid_json / invalid_form issues have no type and no message
func TestD13_DecodeIssueDescribed(t *testing.T) {
	type D struct{ A string }
	s := z.Struct(z.Schema{"a": z.String()})
	var d D
	errs := s.Parse(zjson.Decode(strings.NewReader("{bad")), &d)
	if len(errs["$root"]) != 1 {
		t.Fatalf("want one root issue, got %v", errs)
	}
	if errs["$root"][0].Dtype == "" || errs["$root"][0].Message == "" {
		t.Fatalf("invalid_json issue has dtype %q message %q", errs["$root"][0].Dtype, errs["$root"][0].Message)
	}
	var pd *D
	errs = z.Ptr(s).Parse(zjson.Decode(strings.NewReader("{bad")), &pd)
	if len(errs["$root"]) != 1 || errs["$root"][0].Dtype == "" || errs["$root"][0].Message == "" {
		t.Fatalf("ptr: invalid_json issue not described: %v", errs)
	}
}

// D14: schemas derived by Pick share the tests backing array
func TestD14_PickSharesTests(t *testing.T) {
	type D struct{ A, B int }
	ran := map[string]int{}
	mk := func(id string) z.Test {
		return z.TestFunc(zconst.ZogIssueCode(id), func(v any, ctx z.Ctx) bool { ran[id]++; return true })
	}
	base := z.Struct(z.Schema{"a": z.Int(), "b": z.Int()})
	// give base spare capacity in its tests slice
	base.Test(mk("t0")).Test(mk("t1")).Test(mk("t2"))
	a := base.Pick("a").Test(mk("tA"))
	b := base.Pick("b").Test(mk("tB"))
	_ = b
	var d D
	a.Parse(map[string]any{"a": 1}, &d)
	if ran["tA"] != 1 || ran["tB"] != 0 {
		t.Fatalf("schema A ran tA=%d tB=%d (want 1, 0)", ran["tA"], ran["tB"])
	}
}

// D15: slices.validate stores the schema's default slice itself in the destination
func TestD15_DefaultAliased(t *testing.T) {
	s := z.Slice(z.Int()).Default([]int{1, 2, 3}).PostTransform(func(p any, ctx z.Ctx) error {
		(*p.(*[]int))[0]++
		return nil
	})
	var a []int
	s.Validate(&a)
	var b []int
	s.Validate(&b)
	if fmt.Sprint(a) != "[2 2 3]" || fmt.Sprint(b) != "[2 2 3]" {
		t.Fatalf("first run %v, second run %v: the schema default was modified through the destination", a, b)
	}
}

// D16: struct.validate hands nil to struct tests under a slice / pointer
func TestD16_StructTestArgValidate(t *testing.T) {
	type E struct{ A int }
	var got any = "unset"
	elem := z.Struct(z.Schema{"a": z.Int()}).TestFunc(func(v any, ctx z.Ctx) bool { got = v; return true })
	xs := []E{{1}}
	z.Slice(elem).Validate(&xs)
	if p, ok := got.(*E); !ok || p == nil {
		t.Fatalf("struct test under slice received %#v", got)
	}
	got = "unset"
	elem2 := z.Struct(z.Schema{"a": z.Int()}).PostTransform(func(v any, ctx z.Ctx) error { got = v; return nil })
	pe := &E{1}
	z.Ptr(elem2).Validate(&pe)
	if p, ok := got.(*E); !ok || p == nil {
		t.Fatalf("struct posttransform behind pointer received %#v", got)
	}
}

// D17 (known finding): nested structs lose the source tag / flat sources cannot feed nested structs
func TestD17_NestedEnv(t *testing.T) {
	if os.Getenv("VERIF_DEMO_KNOWN") == "" {
		t.Skip("known finding, not repaired")
	}
	type DB struct {
		Host string `env:"DB_HOST"`
	}
	type C struct{ DB DB }
	os.Setenv("DB_HOST", "h")
	defer os.Unsetenv("DB_HOST")
	var c C
	errs := z.Struct(z.Schema{"DB": z.Struct(z.Schema{"host": z.String().Required()})}).Parse(zenv.NewDataProvider(), &c)
	if errs != nil || c.DB.Host != "h" {
		t.Fatalf("nested env: %v %v", c, errs)
	}
}

// D18: struct PostTransform returning a *ZogIssue: Parse wraps it, Validate passes it through
func TestD18_PostTransformIssueBothModes(t *testing.T) {
	type D struct{ A int }
	s := z.Struct(z.Schema{"a": z.Int()}).PostTransform(func(v any, ctx z.Ctx) error {
		return ctx.Issue().SetCode("mine").SetPath("custom.path").SetMessage("m")
	})
	var d D
	pe := s.Parse(map[string]any{"a": 1}, &d)
	d2 := D{1}
	ve := s.Validate(&d2)
	key := func(m z.ZogIssueMap) string {
		var b bytes.Buffer
		for k, l := range m {
			if k == "$first" {
				continue
			}
			for _, i := range l {
				fmt.Fprintf(&b, "%s|%s|%s;", k, i.Code, i.Path)
			}
		}
		return b.String()
	}
	if key(pe) != key(ve) {
		t.Fatalf("parse %q vs validate %q", key(pe), key(ve))
	}
}

// D19 (known finding): PostTransform gating makes a struct-level test depend on visit order
func TestD19_OrderDependence(t *testing.T) {
	if os.Getenv("VERIF_DEMO_KNOWN") == "" {
		t.Skip("known finding, not repaired")
	}
	type D struct {
		A string
		B int
	}
	s := z.Struct(z.Schema{
		"a": z.String().PostTransform(func(p any, ctx z.Ctx) error { *p.(*string) = strings.ToUpper(*p.(*string)); return nil }),
		"b": z.Int().GT(5),
	}).TestFunc(func(v any, ctx z.Ctx) bool { return v.(*D).A == "X" }, z.IssueCode("a_upper"))
	seen := map[int]int{}
	for i := 0; i < 300; i++ {
		var d D
		errs := s.Parse(map[string]any{"a": "x", "b": 1}, &d)
		seen[len(errs["$root"])]++
	}
	if len(seen) != 1 {
		t.Fatalf("outcome depends on visit order: %v", seen)
	}
}

// D20: CollectMap frees the $first issue twice: the next call's first two issues are one object
func TestD20_CollectMapDoubleFree(t *testing.T) {
	type D struct{ A, B int }
	s := z.Struct(z.Schema{"a": z.Int().GT(5), "b": z.Int().LT(0)})
	for i := 0; i < 50; i++ {
		var d D
		errs := s.Parse(map[string]any{"a": 1, "b": 1}, &d)
		z.Issues.CollectMap(errs)
		errs = s.Parse(map[string]any{"a": 1, "b": 1}, &d)
		if errs["a"][0] == errs["b"][0] {
			t.Fatalf("issues under a and b are the same object")
		}
		if errs["a"][0].Code != "gt" || errs["b"][0].Code != "lt" {
			t.Fatalf("a=%v b=%v", errs["a"][0], errs["b"][0])
		}
	}
}

// D21: Ptr(Struct) fed by a JSON factory calls the factory twice
func TestD21_PtrStructJSON(t *testing.T) {
	type D struct{ Name string }
	s := z.Ptr(z.Struct(z.Schema{"name": z.String().Required()}))
	var d *D
	errs := s.Parse(zjson.Decode(strings.NewReader(`{"name":"bob"}`)), &d)
	if errs != nil || d == nil || d.Name != "bob" {
		t.Fatalf("valid body rejected: %v %v", d, errs)
	}
	req := httptest.NewRequest(http.MethodPost, "/", strings.NewReader(`{"name":"bob"}`))
	req.Header.Set("Content-Type", "application/json")
	d = nil
	errs = s.Parse(zhttp.Request(req), &d)
	if errs != nil || d == nil || d.Name != "bob" {
		t.Fatalf("zhttp: valid body rejected: %v %v", d, errs)
	}
}

// D22: typed maps present a missing key as a present zero value
func TestD22_TypedMapMissingKey(t *testing.T) {
	type D struct{ A, B int }
	s := z.Struct(z.Schema{"a": z.Int().Required(), "b": z.Int().Default(7)})
	var d D
	errs := s.Parse(map[string]int{"x": 1}, &d)
	if len(errs["a"]) != 1 || d.B != 7 {
		t.Fatalf("typed map: errs=%v d=%+v (want required issue for a, b=7)", errs, d)
	}
}

// D23: a PostTransform error on a node that has Catch is swallowed
func TestD23_PostTransformErrorCaught(t *testing.T) {
	var n int
	errs := z.Int().Catch(3).PostTransform(func(p any, ctx z.Ctx) error { return errors.New("boom") }).Parse(5, &n)
	if len(errs) != 1 {
		t.Fatalf("posttransform error not reported: %v", errs)
	}
	m := 5
	errs = z.Int().Catch(3).PostTransform(func(p any, ctx z.Ctx) error { return errors.New("boom") }).Validate(&m)
	if len(errs) != 1 {
		t.Fatalf("validate: posttransform error not reported: %v", errs)
	}
}

var _ = internals.ClearPools

// D25 (known finding): two nodes filing issues under one key: the order under that key follows the visit order
func TestD25_PerKeyOrder(t *testing.T) {
	if os.Getenv("VERIF_DEMO_KNOWN") == "" {
		t.Skip("known finding, not repaired")
	}
	type D struct{ A, B int }
	s := z.Struct(z.Schema{"a": z.Int().GT(5, z.IssuePath("x")), "b": z.Int().LT(0, z.IssuePath("x"))})
	seen := map[string]int{}
	for i := 0; i < 300; i++ {
		var d D
		errs := s.Parse(map[string]any{"a": 1, "b": 1}, &d)
		seen[errs["x"][0].Code+","+errs["x"][1].Code]++
	}
	if len(seen) != 1 {
		t.Fatalf("order of the issues under key x depends on the visit order: %v", seen)
	}
}

// D26: a missing list parameter (key ending in []) is presented as a present, empty list
func TestD26_MissingListParam(t *testing.T) {
	type D struct {
		Tags []string `query:"tags[]"`
	}
	s := z.Struct(z.Schema{"tags": z.Slice(z.String()).Required()})
	req := httptest.NewRequest("GET", "/?x=1", nil)
	var d D
	errs := s.Parse(zhttp.Request(req), &d)
	if len(errs["tags[]"]) != 1 || d.Tags != nil {
		t.Fatalf("missing tags[] treated as present: errs=%v d=%#v", errs, d)
	}
}

// D24: an empty input map names fields by the schema key, a non-empty one by the zog tag
func TestD24_EmptyProviderKey(t *testing.T) {
	type D struct {
		B int `zog:"z_b"`
	}
	s := z.Struct(z.Schema{"b": z.Int().Required()})
	var d D
	e1 := s.Parse(map[string]any{}, &d)
	e2 := s.Parse(map[string]any{"x": 1}, &d)
	if len(e1["z_b"]) != 1 || len(e2["z_b"]) != 1 {
		t.Fatalf("paths differ: empty map %v, non-empty map %v", e1, e2)
	}
}

type d27Inner struct{ Name string }
type d27In struct {
	*d27Inner
	Age int
}

// D27: a struct input whose schema key is a field promoted through a nil embedded pointer panics
func TestD27_NilEmbeddedPointer(t *testing.T) {
	type D struct {
		Name string
		Age  int
	}
	s := z.Struct(z.Schema{"Name": z.String(), "Age": z.Int()})
	noPanic(t, "nil embedded pointer", func() {
		var d D
		s.Parse(d27In{Age: 3}, &d)
		if d.Age != 3 || d.Name != "" {
			t.Fatalf("got %+v", d)
		}
	})
}

// D28: an issue of a z.CustomFunc schema (failing test without a Message, or a type mismatch) had an
// empty Message under the default formatter and both shipped languages
func TestD28_CustomSchemaMessage(t *testing.T) {
	c := z.CustomFunc(func(p *int, ctx z.Ctx) bool { return false })
	var n int
	for _, in := range []any{5, "zz"} {
		is := c.Parse(in, &n)
		if len(is) != 1 || is[0].Message == "" {
			t.Fatalf("input %v: issues %v (empty message)", in, is)
		}
	}
}

// D29: in Validate a slice Default was copied one level deep only: with a nested default ([][]string,
// []*int, ...) the validated value shared the default's inner memory, so a destination-mutating
// PostTransform changed the schema's default for every later use
func TestD29_NestedSliceDefaultShared(t *testing.T) {
	s := z.Slice(z.Slice(z.String())).Default([][]string{{"a", "b"}}).PostTransform(func(ptr any, ctx z.Ctx) error {
		v := ptr.(*[][]string)
		(*v)[0][0] = "MUTATED"
		return nil
	})
	var first, second [][]string
	s.Validate(&first)
	s.Validate(&second)
	if first[0][0] != "MUTATED" || second[0][0] != "MUTATED" || second[0][1] != "b" {
		t.Fatalf("unexpected values %v %v", first, second)
	}
	// the default itself must be untouched: a third use on a value without the PostTransform's effect
	probe := z.Slice(z.Slice(z.String()))
	_ = probe
	x := 7
	sp := z.Slice(z.Ptr(z.Int())).Default([]*int{&x}).PostTransform(func(ptr any, ctx z.Ctx) error {
		v := ptr.(*[]*int)
		*(*v)[0] = 99
		return nil
	})
	var p1 []*int
	sp.Validate(&p1)
	if x != 7 {
		t.Fatalf("the schema's default pointee was modified through the validated value: %d", x)
	}
}

// D29 (second half): the nested default must read the same on its second use
func TestD29_NestedSliceDefaultSecondUse(t *testing.T) {
	calls := 0
	var seen []string
	s := z.Slice(z.Slice(z.String())).Default([][]string{{"a"}}).PostTransform(func(ptr any, ctx z.Ctx) error {
		v := ptr.(*[][]string)
		seen = append(seen, (*v)[0][0])
		(*v)[0][0] = "MUTATED"
		calls++
		return nil
	})
	var a, b [][]string
	s.Validate(&a)
	s.Validate(&b)
	if calls != 2 || seen[0] != "a" || seen[1] != "a" {
		t.Fatalf("second use saw %v (the first use changed the default)", seen)
	}
}

// D30 (known finding): Custom[T].process stores the INPUT value itself in the destination; when T is a
// slice (or map) the destination aliases the caller's input, so a destination-mutating PostTransform of
// an enclosing struct makes Parse modify its input data
func TestD30_CustomAliasesInput(t *testing.T) {
	if os.Getenv("VERIF_DEMO_KNOWN") == "" {
		t.Skip("known finding D30 (set VERIF_DEMO_KNOWN=1 to run)")
	}
	type D struct{ Tags []string }
	s := z.Struct(z.Schema{"tags": z.CustomFunc(func(p *[]string, ctx z.Ctx) bool { return true })}).PostTransform(func(ptr any, ctx z.Ctx) error {
		ptr.(*D).Tags[0] = "MUTATED"
		return nil
	})
	in := map[string]any{"tags": []string{"a", "b"}}
	var d D
	s.Parse(in, &d)
	if in["tags"].([]string)[0] != "a" {
		t.Fatalf("Parse modified its input: %v", in)
	}
}

// D31: zjson.Decode read the first JSON value only: a body with anything after it was accepted
func TestD31_TrailingDataAfterJSON(t *testing.T) {
	type D struct{ Name string }
	s := z.Struct(z.Schema{"name": z.String().Required()})
	for _, body := range []string{`{"name":"x"} garbage`, `{"name":"x"}]`, `{"name":"x"}{"name":"y"}`} {
		var d D
		errs := s.Parse(zjson.Decode(strings.NewReader(body)), &d)
		if len(errs["$root"]) != 1 || errs["$root"][0].Code != "invalid_json" || d.Name != "" {
			t.Fatalf("body %q: issues %v dest %+v (want one invalid_json, destination untouched)", body, errs, d)
		}
	}
	var d D
	if errs := s.Parse(zjson.Decode(strings.NewReader("{\"name\":\"x\"} \n\t")), &d); errs != nil || d.Name != "x" {
		t.Fatalf("trailing white space must be accepted: %v %+v", errs, d)
	}
}

// D32 (known finding): a JSON integer beyond 2^53 is rounded by the float64 decoding of zjson and stored
// in an Int64 destination as a different number, without an issue
func TestD32_JSONBigInteger(t *testing.T) {
	if os.Getenv("VERIF_DEMO_KNOWN") == "" {
		t.Skip("known finding D32 (set VERIF_DEMO_KNOWN=1 to run)")
	}
	type D struct{ N int64 }
	var d D
	errs := z.Struct(z.Schema{"n": z.Int64()}).Parse(zjson.Decode(strings.NewReader(`{"n":9007199254740993}`)), &d)
	if errs == nil && d.N != 9007199254740993 {
		t.Fatalf("9007199254740993 was stored as %d without an issue", d.N)
	}
}

// D33: zhttp.Request on a JSON request built without a body panicked inside Parse
func TestD33_RequestWithoutBody(t *testing.T) {
	type D struct{ Name string }
	s := z.Struct(z.Schema{"name": z.String().Required()})
	noPanic(t, "request without a body", func() {
		req, _ := http.NewRequest("POST", "http://x/y", nil)
		req.Header.Set("Content-Type", "application/json")
		var d D
		errs := s.Parse(zhttp.Request(req), &d)
		if len(errs["$root"]) != 1 || errs["$root"][0].Code != "invalid_json" {
			t.Fatalf("issues %v (want one invalid_json)", errs)
		}
	})
}

// D34: a typed-nil pointer in the input, passed on unchanged by a Preprocess function, panicked inside Parse
func TestD34_PreprocessReturnsTypedNil(t *testing.T) {
	type D struct{ A int }
	s := z.Struct(z.Schema{"a": z.Preprocess(func(data any, ctx z.Ctx) (any, error) { return data, nil }, z.Int())})
	plain := z.Struct(z.Schema{"a": z.Int()})
	var np *string
	noPanic(t, "typed nil through Preprocess", func() {
		var d, e D
		errs := s.Parse(map[string]any{"a": np}, &d)
		want := plain.Parse(map[string]any{"a": np}, &e)
		if len(errs["a"]) != len(want["a"]) || (len(errs["a"]) == 1 && errs["a"][0].Code != want["a"][0].Code) {
			t.Fatalf("issues %v, without the Preprocess %v", errs, want)
		}
	})
}

// D35: the default formatter substituted Params in map iteration order; when one parameter's value holds
// another parameter's placeholder the message differed from run to run
func TestD35_FormatterParamOrder(t *testing.T) {
	s := z.String().Min(5, z.Params(map[string]any{"min": "{{unit}}", "unit": "chars"}))
	seen := map[string]bool{}
	for i := 0; i < 400; i++ {
		var d string
		errs := s.Parse("ab", &d)
		if len(errs) != 1 {
			t.Fatalf("issues %v", errs)
		}
		seen[errs[0].Message] = true
	}
	if len(seen) != 1 {
		t.Fatalf("the same call produced %d different messages: %v", len(seen), seen)
	}
}

// D36: options after the name in a source tag (`json:"name,omitempty"`) were taken as part of the key
func TestD36_TagOptions(t *testing.T) {
	type U struct {
		Name string `json:"name,omitempty"`
		Age  int    `json:",omitempty"`
	}
	s := z.Struct(z.Schema{"name": z.String().Required(), "age": z.Int().Required()})
	var u U
	errs := s.Parse(zjson.Decode(strings.NewReader(`{"name":"bob","age":3}`)), &u)
	if len(errs) != 0 || u.Name != "bob" || u.Age != 3 {
		t.Fatalf("issues %v dest %+v (want none, {bob 3})", errs, u)
	}
	// the issue key is the name part too
	errs = s.Parse(zjson.Decode(strings.NewReader(`{"age":3}`)), &u)
	if len(errs["name"]) != 1 {
		t.Fatalf("issues %v (want one under \"name\")", errs)
	}
}

// D37: Pick with a key the receiver does not have stored a nil field schema; executing the result panicked
func TestD37_PickMissingKey(t *testing.T) {
	base := z.Struct(z.Schema{"name": z.String().Required()})
	byHand := z.Struct(z.Schema{"name": z.String().Required()})
	for _, picked := range []*z.StructSchema{base.Pick("name", "nickname"), base.Pick(map[string]bool{"name": true, "nickname": true})} {
		picked := picked
		noPanic(t, "Pick of a key the schema does not have", func() {
			var d, e struct {
				Name     string
				Nickname string
			}
			got := picked.Parse(map[string]any{"name": "ann", "nickname": "x"}, &d)
			want := byHand.Parse(map[string]any{"name": "ann", "nickname": "x"}, &e)
			if len(got) != len(want) || d != e {
				t.Fatalf("picked: %v %+v, by hand: %v %+v", got, d, want, e)
			}
			if v := picked.Validate(&d); len(v) != 0 {
				t.Fatalf("validate: %v", v)
			}
		})
	}
}

// D38: a nil data-provider factory (a typed-nil internals.DpFactory) given as data was called
func TestD38_NilFactory(t *testing.T) {
	type D struct{ Name string }
	s := z.Struct(z.Schema{"name": z.String()})
	var f internals.DpFactory
	noPanic(t, "nil DpFactory into Struct", func() { var d D; s.Parse(f, &d) })
	noPanic(t, "nil DpFactory into Ptr(Struct)", func() { var d *D; z.Ptr(s).Parse(f, &d) })
}

// D39: with i18n installed, a language context value that is not a plain string panicked when an issue was formatted
func TestD39_LangValueNotAString(t *testing.T) {
	old := conf.IssueFormatter
	defer func() { conf.IssueFormatter = old }()
	i18n.SetLanguagesErrsMap(map[string]i18n.LangMap{"en": en.Map, "es": es.Map}, "en")
	type Lang string
	for _, v := range []any{Lang("es"), 7, []string{"es"}, (*string)(nil)} {
		v := v
		noPanic(t, fmt.Sprintf("lang context value %T", v), func() {
			var s string
			errs := z.String().Min(5).Parse("ab", &s, z.WithCtxValue("lang", v))
			if len(errs) != 1 || errs[0].Message != "string must contain at least 5 character(s)" {
				t.Fatalf("issues %v (want the default language's message)", errs)
			}
		})
	}
}

// D40 (known finding): the JSON body {} at a top-level Ptr(Struct) schema is taken for no record at all, where the
// same empty record as a Go map reports the required field (the repository's TestTopLevelOptionalStruct pins it)
func TestD40_EmptyObjectAtPtrRoot(t *testing.T) {
	if os.Getenv("VERIF_DEMO_KNOWN") == "" {
		t.Skip("known finding D40 (set VERIF_DEMO_KNOWN=1 to run)")
	}
	type U struct {
		Name string `json:"name"`
	}
	s := z.Ptr(z.Struct(z.Schema{"name": z.String().Required()}))
	var viaMap *U
	em := s.Parse(map[string]any{}, &viaMap)
	req := httptest.NewRequest("POST", "/", strings.NewReader(`{}`))
	req.Header.Set("Content-Type", "application/json")
	var viaJSON *U
	ej := s.Parse(zhttp.Request(req), &viaJSON)
	if len(em["name"]) != 1 || len(ej["name"]) != 1 || (viaMap == nil) != (viaJSON == nil) {
		t.Fatalf("the empty record: Go map gives %v (dest %v), the JSON body {} gives %v (dest %v)", em, viaMap, ej, viaJSON)
	}
}
