// Package demos holds one small reproduction per defect found on the pinned tree
// (DESIGN.md §9). Each test fails on the pinned tree and passes on the repaired tree.
package demos
