// conc (C08, supporting evidence): N goroutines use the SAME schema objects at the same time, each
// call with its own data and destination; every call's result is compared with the result the same
// call gave when it ran alone. Built with -race: a data race makes the process exit with status 66.
package main

import (
	"encoding/json"
	"flag"
	"fmt"
	"os"
	"reflect"
	"runtime"
	"sort"
	"strings"
	"sync"
	"sync/atomic"
	"time"

	z "github.com/Oudwins/zog"

	"github.com/Oudwins/zog/conf"
	"github.com/Oudwins/zog/i18n"
	"github.com/Oudwins/zog/i18n/en"
	"github.com/Oudwins/zog/i18n/es"
	"verif/harness/internal/eng"
	"verif/harness/internal/rng"
)

type job struct {
	c      *eng.Case
	schema z.ZogSchema
	rec    *eng.Recorder
	want   string
}

func canon(r *eng.Result, id int) string {
	// order-insensitive: the field visit order is random per struct visit
	if r.Panic != "" {
		return "panic"
	}
	keys := make([]string, 0, len(r.Issues))
	for k := range r.Issues {
		if k != "$first" {
			keys = append(keys, k)
		}
	}
	out := ""
	// sort keys and the issues under each key
	for i := 0; i < len(keys); i++ {
		for j := i + 1; j < len(keys); j++ {
			if keys[j] < keys[i] {
				keys[i], keys[j] = keys[j], keys[i]
			}
		}
	}
	for _, k := range keys {
		items := []string{}
		for _, is := range r.Issues[k] {
			items = append(items, fmt.Sprintf("%s|%s|%s|%v|%s", is.Code, is.Path, is.DType, is.Params, is.Msg))
		}
		for i := 0; i < len(items); i++ {
			for j := i + 1; j < len(items); j++ {
				if items[j] < items[i] {
					items[i], items[j] = items[j], items[i]
				}
			}
		}
		out += k + "=" + fmt.Sprint(items) + ";"
	}
	return out + " " + r.Dest.Sx().String()
}

func main() {
	seed := flag.Uint64("seed", 1, "seed")
	nSchemas := flag.Int("schemas", 40, "shared schema objects")
	workers := flag.Int("workers", 32, "goroutines")
	calls := flag.Int("calls", 20000, "calls in total")
	out := flag.String("out", "", "summary json")
	flag.Parse()

	root := rng.New(*seed)
	var jobs []*job
	for i := 0; i < *nSchemas; i++ {
		g := &eng.Gen{R: root.Fork(), NoPosts: true} // PostTransform gating is order dependent (known finding D19)
		if i%4 == 3 {
			// every entry point has its own boilerplate: Preprocess and Custom schemas at top level too
			g.TopAll, g.Pre = true, true
		}
		schemaNode := g.Node(0)
		if i%4 == 3 {
			schemaNode = g.Case(i).Schema
		}
		rec := eng.NewRecorder()
		schema := eng.Build(schemaNode, rec)
		// several inputs per shared schema
		for k := 0; k < 6; k++ {
			c := &eng.Case{ID: len(jobs), Schema: schemaNode}
			if g.R.P(1, 2) {
				c.Mode = "v"
				c.Dest = g.DestValue(schemaNode, 25)
			} else {
				c.Mode = "p"
				c.Input = g.Input(schemaNode)
				c.Dest = eng.ZeroD(schemaNode)
			}
			// the shared schema object serves two destination struct types (same fields, other positions)
			c.AltDest = k%2 == 1
			jobs = append(jobs, &job{c: c, schema: schema})
		}
	}
	// long slices: element indexes that no earlier call of this process has touched
	for i := 0; i < 8; i++ {
		n := &eng.Node{Kind: "slice", Elem: &eng.Node{Kind: "prim", PK: "int", Tests: []eng.TestSpec{{ID: 1, Name: "cmp", Op: "lt", Arg: eng.D{K: "i", NK: "int", I: 5}}}}}
		rec := eng.NewRecorder()
		schema := eng.Build(n, rec)
		for k := 0; k < 4; k++ {
			l := 150 + 97*i + 13*k
			in := eng.V{K: "l"}
			dst := eng.D{K: "sl"}
			for j := 0; j < l; j++ {
				in.L = append(in.L, eng.VInt(int64(j%11)))
				dst.L = append(dst.L, eng.D{K: "i", NK: "int", I: int64(j % 11)})
			}
			if k%2 == 0 {
				jobs = append(jobs, &job{c: &eng.Case{ID: len(jobs), Mode: "p", Schema: n, Input: in, Dest: eng.ZeroD(n)}, schema: schema})
			} else {
				jobs = append(jobs, &job{c: &eng.Case{ID: len(jobs), Mode: "v", Schema: n, Dest: dst}, schema: schema})
			}
		}
	}
	// COLD groups: schema objects whose very first uses happen at the same instant (goroutines released
	// together by one channel). State a schema initialises lazily on first use is first touched here.
	var cold [][]int
	for i := 0; i < *nSchemas; i++ {
		g := &eng.Gen{R: root.Fork(), NoPosts: true}
		schemaNode := g.Node(0)
		schema := eng.Build(schemaNode, eng.NewRecorder())
		var grp []int
		for k := 0; k < 4; k++ {
			c := &eng.Case{ID: len(jobs), Schema: schemaNode, Mode: "p", Input: g.Input(schemaNode), Dest: eng.ZeroD(schemaNode)}
			if k%2 == 1 {
				c.Mode, c.Input, c.Dest = "v", eng.V{}, g.DestValue(schemaNode, 25)
			}
			grp = append(grp, len(jobs))
			jobs = append(jobs, &job{c: c, schema: schema})
		}
		cold = append(cold, grp)
	}
	// long enums (OneOf with 9..40 values), strings and numbers, values inside and outside the enum
	for i := 0; i < 24; i++ {
		n := &eng.Node{Kind: "prim", PK: "str"}
		t := eng.TestSpec{ID: 1, Name: "oneof"}
		size := 9 + 3*i/2
		if i%2 == 0 {
			for j := 0; j < size; j++ {
				t.Args = append(t.Args, eng.D{K: "s", S: fmt.Sprintf("v%d", j)})
			}
		} else {
			n.PK = "int"
			for j := 0; j < size; j++ {
				t.Args = append(t.Args, eng.D{K: "i", NK: "int", I: int64(3 * j)})
			}
		}
		n.Tests = []eng.TestSpec{t}
		schema := eng.Build(n, eng.NewRecorder())
		var grp []int
		for k := 0; k < 6; k++ {
			c := &eng.Case{ID: len(jobs), Schema: n, Mode: "p", Dest: eng.ZeroD(n)}
			if n.PK == "str" {
				c.Input = eng.VStr(fmt.Sprintf("v%d", (k*5)%(size+2)))
			} else {
				c.Input = eng.VInt(int64(3 * ((k * 5) % (size + 2))))
			}
			grp = append(grp, len(jobs))
			jobs = append(jobs, &job{c: c, schema: schema})
		}
		cold = append(cold, grp)
	}
	// two schemas over ONE enum slice (shared by content, with spare capacity) with different Defaults, absent
	// inputs: whatever a schema does with its Default must stay out of the enum the application lent it
	for i := 0; i < 12; i++ {
		var grp []int
		for _, dflt := range []string{"x1", "x2", "a"} {
			d := eng.D{K: "s", S: dflt}
			n := &eng.Node{Kind: "prim", PK: "str", Dflt: &d}
			t := eng.TestSpec{ID: 1, Name: "oneof"}
			for j := 0; j < 3+i%3; j++ {
				t.Args = append(t.Args, eng.D{K: "s", S: fmt.Sprintf("e%d_%d", i, j)})
			}
			t.Args = append(t.Args, eng.D{K: "s", S: "a"})
			n.Tests = []eng.TestSpec{t}
			schema := eng.Build(n, eng.NewRecorder())
			for k := 0; k < 3; k++ {
				c := &eng.Case{ID: len(jobs), Schema: n, Mode: "p", Input: eng.VNil(), Dest: eng.ZeroD(n)}
				if k == 2 {
					c.Input = eng.VStr("a")
				}
				grp = append(grp, len(jobs))
				jobs = append(jobs, &job{c: c, schema: schema})
			}
		}
		cold = append(cold, grp)
	}
	for _, j := range jobs {
		j.c.Schema.GoType() // the harness caches reflect types lazily: do it before the goroutines start
		j.c.Schema.GoTypeAlt()
	}
	// NOTE: nothing has been executed yet. The concurrent phase runs FIRST, so that lazily initialised
	// shared state is first touched concurrently; the reference results are computed afterwards, alone.
	type obs struct {
		job int
		got string
	}
	var obsMu sync.Mutex
	var observed []obs
	var mism int64
	var done int64
	var firstMismatch atomic.Value
	var wg sync.WaitGroup
	for _, grp := range cold {
		start := make(chan struct{})
		var cw sync.WaitGroup
		for rep := 0; rep < 2; rep++ {
			for _, jid := range grp {
				cw.Add(1)
				go func(jid int) {
					defer cw.Done()
					<-start
					j := jobs[jid]
					got := canon(eng.RunBuiltQuiet(j.schema, j.c), j.c.ID)
					obsMu.Lock()
					observed = append(observed, obs{jid, got})
					obsMu.Unlock()
					atomic.AddInt64(&done, 1)
				}(jid)
			}
		}
		close(start)
		cw.Wait()
	}
	per := *calls / *workers
	for w := 0; w < *workers; w++ {
		wg.Add(1)
		go func(w int) {
			defer wg.Done()
			r := rng.New(*seed*1000 + uint64(w))
			for k := 0; k < per; k++ {
				jid := r.Intn(len(jobs))
				j := jobs[jid]
				res := eng.RunBuiltQuiet(j.schema, j.c)
				got := canon(res, j.c.ID)
				obsMu.Lock()
				observed = append(observed, obs{jid, got})
				obsMu.Unlock()
				// hand results back concurrently too
				if res.RawMap != nil && r.P(1, 2) {
					z.Issues.CollectMap(res.RawMap)
				} else if res.RawList != nil && r.P(1, 2) {
					z.Issues.CollectList(res.RawList)
				}
				atomic.AddInt64(&done, 1)
			}
		}(w)
	}
	wg.Wait()
	// reference: every job alone, after the concurrent phase
	for _, j := range jobs {
		j.want = canon(eng.RunBuiltQuiet(j.schema, j.c), j.c.ID)
	}
	for _, o := range observed {
		if o.got != jobs[o.job].want {
			mism++
			firstMismatch.CompareAndSwap(nil, fmt.Sprintf("case %d\nalone:      %.600s\nconcurrent: %.600s", o.job, jobs[o.job].want, o.got))
		}
	}
	// RAW ENTRY POINTS: every Parse / Validate entry point of every schema kind has its own copy of the
	// acquire / defer-release boilerplate; all of them overlap here, each result compared with the same call alone
	{
		// with i18n installed (as a server does once at start-up): the installed formatter is ONE closure shared by
		// every execution of the process; calls naming different languages overlap
		oldFmt := conf.IssueFormatter
		i18n.SetLanguagesErrsMap(map[string]i18n.LangMap{"en": en.Map, "es": es.Map}, "en")
		defer func() { conf.IssueFormatter = oldFmt }()
		eps := rawEntryPoints()
		got := make([][]string, len(eps))
		var mu sync.Mutex
		var rw sync.WaitGroup
		for w := 0; w < 8; w++ {
			rw.Add(1)
			go func(w int) {
				defer rw.Done()
				r := rng.New(*seed*77 + uint64(w))
				for k := 0; k < 1500; k++ {
					i := r.Intn(len(eps))
					res := eps[i].run()
					mu.Lock()
					got[i] = append(got[i], res)
					mu.Unlock()
					atomic.AddInt64(&done, 1)
				}
			}(w)
		}
		rw.Wait()
		for i, e := range eps {
			want := e.run()
			for _, g := range got[i] {
				if g != want {
					mism++
					firstMismatch.CompareAndSwap(nil, fmt.Sprintf("entry point %s\nalone:      %s\nconcurrent: %s", e.name, want, g))
					break
				}
			}
		}
	}
	if w := eng.EnumsIntact(); w != "" {
		mism++
		firstMismatch.CompareAndSwap(nil, "an execution wrote into the enum slice given to OneOf: "+w)
	}
	sum := map[string]any{"calls": done, "mismatches": mism, "workers": *workers, "shared_schemas": *nSchemas, "jobs": len(jobs), "cold_groups": len(cold)}
	if v := firstMismatch.Load(); v != nil {
		sum["first_mismatch"] = v
	}
	js, _ := json.MarshalIndent(sum, "", " ")
	if *out != "" {
		os.WriteFile(*out, js, 0o644)
	}
	fmt.Println(string(js))
	_ = reflect.TypeOf
	if mism > 0 {
		os.Exit(1)
	}
}

type entryPoint struct {
	name string
	run  func() string
}

func canonList(l z.ZogIssueList) string {
	items := []string{}
	for _, is := range l {
		items = append(items, fmt.Sprintf("%s|%s|%s", is.Path, is.Code, is.Message))
	}
	sort.Strings(items)
	return fmt.Sprint(items)
}

func canonMap(m z.ZogIssueMap) string {
	items := []string{}
	for k, l := range m {
		if k == "$first" {
			continue
		}
		for _, is := range l {
			items = append(items, fmt.Sprintf("%s=%s|%s|%s", k, is.Path, is.Code, is.Message))
		}
	}
	sort.Strings(items)
	return fmt.Sprint(items)
}

// rawEntryPoints: one failing call per Parse / Validate entry point of every schema kind, built with zog directly
func rawEntryPoints() []entryPoint {
	type rec struct {
		Name string
		Tags []string
		In   struct{ City string }
	}
	yield := func(v any, ctx z.Ctx) bool { runtime.Gosched(); return true }
	strct := z.Struct(z.Schema{"name": z.String().Required().TestFunc(yield).Min(3), "tags": z.Slice(z.String().TestFunc(yield).Min(2)), "in": z.Struct(z.Schema{"city": z.String().Required()})})
	bad := map[string]any{"name": "x", "tags": []any{"ok", "a", "b"}, "in": map[string]any{}}
	pre := z.Preprocess(func(v []any, ctx z.Ctx) ([]string, error) {
		out := []string{}
		for _, x := range v {
			out = append(out, fmt.Sprint(x))
		}
		runtime.Gosched() // user callbacks may block or yield: the call is descheduled while it holds its objects
		return out, nil
	}, z.Slice(z.String().Min(2).TestFunc(func(v any, ctx z.Ctx) bool { runtime.Gosched(); return true })))
	vpre := z.Preprocess(func(v *int, ctx z.Ctx) (int, error) { return *v, nil }, z.Int().GT(5))
	cust := z.CustomFunc(func(p *int, ctx z.Ctx) bool { return *p > 5 }, z.Message("too small"))
	// results handed back through the sugar helpers: many issues, each with its own message (the text the helper
	// returns is that of THIS call's issues, whatever other goroutines do to the issue pool meanwhile)
	own := z.MessageFunc(func(e *z.ZogIssue, ctx z.Ctx) {
		e.SetMessage(fmt.Sprintf("%s fails %s (this call's own text)", e.Path, e.Code))
	})
	many := z.Struct(z.Schema{"tags": z.Slice(z.String().Min(4, own)), "name": z.String().Min(9, own).Contains("@", own).HasPrefix("Z", own)})
	manyIn := map[string]any{"name": "x", "tags": []any{}}
	for k := 0; k < 120; k++ {
		manyIn["tags"] = append(manyIn["tags"].([]any), fmt.Sprintf("t%d", k))
	}
	type manyT struct {
		Name string
		Tags []string
	}
	sortedMap := func(m map[string][]string) string {
		ks := make([]string, 0, len(m))
		for k := range m {
			if k != "$first" { // which issue comes first follows the field visit order (known finding D25)
				ks = append(ks, k)
			}
		}
		sort.Strings(ks)
		var sb strings.Builder
		for _, k := range ks {
			fmt.Fprintf(&sb, "%s=%q;", k, m[k])
		}
		return sb.String()
	}
	return []entryPoint{
		{"Struct.Parse+SanitizeMapAndCollect", func() string { var d manyT; return sortedMap(z.Issues.SanitizeMapAndCollect(many.Parse(manyIn, &d))) }},
		{"Struct.Parse+SanitizeMap+CollectMap", func() string {
			var d manyT
			m := many.Parse(manyIn, &d)
			out := sortedMap(z.Issues.SanitizeMap(m))
			z.Issues.CollectMap(m)
			return out
		}},
		{"String.Parse+SanitizeListAndCollect", func() string {
			var d string
			return fmt.Sprintf("%q", z.Issues.SanitizeListAndCollect(z.String().Min(9, own).Contains("@", own).HasPrefix("Z", own).Email(own).URL(own).Parse("x", &d)))
		}},
		{"i18n es Struct.Parse", func() string { var d rec; return canonMap(strct.Parse(bad, &d, z.WithCtxValue(i18n.LangKey, "es"))) }},
		{"i18n en Struct.Validate", func() string {
			d := rec{Name: "x", Tags: []string{"a"}}
			return canonMap(strct.Validate(&d, z.WithCtxValue(i18n.LangKey, "en")))
		}},
		{"i18n es String.Validate", func() string {
			d := "ab"
			return canonList(z.String().Min(5).Email().Validate(&d, z.WithCtxValue(i18n.LangKey, "es")))
		}},
		{"i18n unknown Int.Parse", func() string {
			var d int
			return canonList(z.Int().GT(5).Parse(3, &d, z.WithCtxValue(i18n.LangKey, "fr")))
		}},
		// deriving from a shared base WHILE other goroutines execute it (and derive from it): the helpers only read
		// their operands
		{"derive Pick while executing", func() string {
			var d rec
			return canonMap(strct.Pick("name").Parse(bad, &d)) + fmt.Sprint(d)
		}},
		{"derive Omit while executing", func() string { var d rec; return canonMap(strct.Omit("tags").Parse(bad, &d)) + fmt.Sprint(d) }},
		{"derive Extend while executing", func() string {
			type recX struct {
				Name  string
				Tags  []string
				In    struct{ City string }
				Extra int
			}
			var d recX
			return canonMap(strct.Extend(z.Schema{"extra": z.Int().GT(5)}).Parse(map[string]any{"name": "x", "extra": 1}, &d))
		}},
		{"derive Merge while executing", func() string {
			var d rec
			a := z.Struct(z.Schema{"name": z.String().Min(3)}).Merge(strct)
			b := strct.Merge(z.Struct(z.Schema{"name": z.String().Min(3)}))
			return canonMap(a.Parse(bad, &d)) + " / " + canonMap(b.Parse(bad, &d))
		}},
		{"String.Parse", func() string { var d string; return canonList(z.String().Min(5).Email().Parse("ab", &d)) + d }},
		{"String.Validate", func() string { d := "ab"; return canonList(z.String().Min(5).Validate(&d)) }},
		{"Int.Parse", func() string { var d int; return canonList(z.Int().GT(5).LT(0).Parse(3, &d)) }},
		{"Int.Validate", func() string { d := 1; return canonList(z.Int().GT(5).Validate(&d)) }},
		{"Float32.Parse", func() string { var d float32; return canonList(z.Float32().GT(5).Parse("1.5", &d)) }},
		{"Int64.Validate", func() string { d := int64(1); return canonList(z.Int64().GT(5).Validate(&d)) }},
		{"Bool.Parse", func() string { var d bool; return canonList(z.Bool().True().Parse("false", &d)) }},
		{"Bool.Validate", func() string { d := true; return canonList(z.Bool().False().Validate(&d)) }},
		{"Time.Parse", func() string {
			var d time.Time
			return canonList(z.Time().After(time.Unix(9, 0)).Parse(time.Unix(5, 0), &d))
		}},
		{"Time.Validate", func() string { d := time.Unix(5, 0); return canonList(z.Time().After(time.Unix(9, 0)).Validate(&d)) }},
		{"Slice.Parse", func() string {
			var d []string
			return canonMap(z.Slice(z.String().Min(2)).Min(9).Parse([]any{"ok", "a", "b"}, &d)) + fmt.Sprint(d)
		}},
		{"Slice.Validate", func() string { d := []string{"ok", "a"}; return canonMap(z.Slice(z.String().Min(2)).Validate(&d)) }},
		{"Struct.Parse", func() string { var d rec; return canonMap(strct.Parse(bad, &d)) + fmt.Sprint(d) }},
		{"Struct.Validate", func() string { d := rec{Name: "x", Tags: []string{"a"}}; return canonMap(strct.Validate(&d)) }},
		{"Ptr.Parse", func() string { var d *rec; return canonMap(z.Ptr(strct).Parse(bad, &d)) }},
		{"Ptr.Validate", func() string { d := &rec{Name: "x", Tags: []string{"a"}}; return canonMap(z.Ptr(strct).Validate(&d)) }},
		{"Custom.Parse", func() string { var d int; return canonList(cust.Parse(1, &d)) }},
		{"Custom.Validate", func() string { d := 1; return canonList(cust.Validate(&d)) }},
		{"Preprocess.Parse", func() string { var d []string; return canonList(pre.Parse([]any{"ok", 1, "b"}, &d)) + fmt.Sprint(d) }},
		{"Preprocess.Validate", func() string { d := 1; return canonList(vpre.Validate(&d)) }},
	}
}
