package main

import (
	"fmt"
	"os"
	"sort"
	"strings"

	zp "github.com/Oudwins/zog/internals"

	"verif/harness/internal/eng"
	"verif/harness/internal/rng"
	"verif/harness/internal/sx"
)

// ---- projections of a result line, one per property ----

type resView struct {
	panic  bool
	issues *sx.Node
	dest   *sx.Node
	log    *sx.Node
}

func parseRes(line string) (*resView, error) {
	n, err := sx.Parse(line)
	if err != nil {
		return nil, err
	}
	if n.Tag() != "res" {
		return nil, fmt.Errorf("not a res line: %s", line)
	}
	v := &resView{}
	if n.Find("panic") != nil {
		v.panic = true
		return v, nil
	}
	v.issues, v.dest, v.log = n.Find("issues"), n.Find("dest"), n.Find("log")
	if v.issues == nil || v.dest == nil || v.log == nil {
		return nil, fmt.Errorf("malformed res line: %s", line)
	}
	return v, nil
}

// issue fields: (I code path dtype (params) msg)
func issueProj(i *sx.Node, fields string) string {
	parts := []string{}
	for _, f := range strings.Split(fields, ",") {
		switch f {
		case "code":
			parts = append(parts, i.List[1].Str())
		case "path":
			parts = append(parts, i.List[2].Str())
		case "dtype":
			parts = append(parts, i.List[3].Str())
		case "params":
			parts = append(parts, i.List[4].String())
		case "msg":
			parts = append(parts, i.List[5].Str())
		}
	}
	return strings.Join(parts, "|")
}

// issueKeysSorted: like issueKeys, but the issues under one key are compared as a multiset
func (v *resView) issueKeysSorted(fields string) string {
	var b strings.Builder
	for _, k := range v.issues.List[1:] {
		key := k.List[0].Str()
		if key == "$first" {
			continue
		}
		items := []string{}
		for _, i := range k.List[1:] {
			items = append(items, issueProj(i, fields))
		}
		sort.Strings(items)
		fmt.Fprintf(&b, "%s=[%s];", key, strings.Join(items, ","))
	}
	return b.String()
}

func (v *resView) issueKeys(withFirst bool, fields string, onlyCodes map[string]bool) string {
	var b strings.Builder
	for _, k := range v.issues.List[1:] {
		key := k.List[0].Str()
		if key == "$first" && !withFirst {
			continue
		}
		items := []string{}
		for _, i := range k.List[1:] {
			if onlyCodes != nil && !onlyCodes[i.List[1].Str()] {
				continue
			}
			items = append(items, issueProj(i, fields))
		}
		if len(items) == 0 && onlyCodes != nil {
			continue
		}
		fmt.Fprintf(&b, "%s=[%s];", key, strings.Join(items, ","))
	}
	return b.String()
}

func (v *resView) noIssues() bool { return !v.panic && v.issues != nil && len(v.issues.List) == 1 }

var requiredCodes = map[string]bool{"required": true, "not_nil": true}

func (v *resView) project(prop string) string {
	if v.panic {
		return "panic"
	}
	switch prop {
	case "C01":
		if v.noIssues() {
			return "ok " + v.dest.String()
		}
		return "issues"
	case "C02":
		return v.issueKeys(false, "code,path,dtype", nil)
	case "C03":
		if v.noIssues() {
			return "ok " + v.dest.String()
		}
		return "issues"
	case "C04":
		return v.issueKeys(false, "code,path", requiredCodes) + " " + v.dest.String() + " " + v.log.String()
	case "C05":
		return v.issueKeys(false, "code,path,dtype", nil) + " " + v.dest.String()
	case "C09":
		if v.noIssues() {
			return "ok " + v.dest.String()
		}
		return v.issueKeys(false, "code,path,dtype,params,msg", nil)
	case "C09m":
		if v.noIssues() {
			return "ok " + v.dest.String()
		}
		return v.issueKeysSorted("code,path,dtype,params,msg")
	case "C10":
		return v.issueKeys(true, "path", nil)
	case "C11":
		return v.issueKeys(true, "code,dtype,params,msg", nil)
	case "C12":
		return v.log.String() + " " + v.issueKeys(false, "code,path", nil)
	case "C17":
		return v.issueKeys(true, "path,code,dtype,params,msg", nil) + " " + v.dest.String() + " " + v.log.String()
	case "C13":
		return v.issueKeys(false, "path,code,dtype,msg", nil) + " " + v.dest.String()
	case "C19":
		return v.issueKeys(true, "path,code,dtype,params,msg", nil) + " " + v.dest.String() + " " + v.log.String()
	}
	return ""
}

var engineProps = []string{"C01", "C02", "C03", "C04", "C05", "C09", "C10", "C11", "C12", "C17", "C19"}

func nodeStats(n *eng.Node, depth int, h map[string]int, maxDepth *int) (nodes int, catches int, posts int) {
	if depth > *maxDepth {
		*maxDepth = depth
	}
	nodes = 1
	h["node_"+n.Kind]++
	if n.Catch != nil {
		catches++
	}
	posts += len(n.Posts)
	if n.Elem != nil {
		a, b, c := nodeStats(n.Elem, depth+1, h, maxDepth)
		nodes, catches, posts = nodes+a, catches+b, posts+c
	}
	for _, f := range n.Fields {
		a, b, c := nodeStats(f.S, depth+1, h, maxDepth)
		nodes, catches, posts = nodes+a, catches+b, posts+c
	}
	return
}

// engineGen configures the generator of case i of the engine stream (a pure function of variant and i)
func engineGen(g *eng.Gen, variant string, i int) {
	switch variant {
	case "fmt":
		g.FmtModes = true
	case "nearsuccess":
		g.NearSuccess = true
		g.Populated = true
	case "prepop":
		g.NearSuccess = true
		g.Prepop = true
	case "share":
		g.Share = true
		g.CatchBias = i%2 == 0
		g.NestedDefaults = i%3 == 0 // shared slice nodes with nested defaults and PostTransforms that write in place
	case "catch":
		g.CatchBias = true
	case "noposts":
		g.NoPosts = true
	case "pre":
		g.Pre = true
		g.CatchBias = i%3 == 1
	case "nested":
		g.NestedDefaults = true
	case "long":
		g.LongSlices = true
		g.CatchBias = i%4 == 1
		if i%2 == 0 {
			g.TopKind = "slice"
		}
	case "deep":
		g.Deep = true
		g.NoPosts = i%2 == 0
	case "retype":
		g.NearSuccess = i%2 == 0
		g.Populated = i%2 == 0
	case "api":
		// the less travelled parts of the public API: WithCoercer on every schema kind (also through Ptr),
		// custom and Preprocess schemas used directly
		g.Coercers = true
		g.TopAll = true
	default:
		if i%3 == 1 {
			g.CatchBias = true
		}
	}
}

// engineCase generates case i of the engine stream
func engineCase(g *eng.Gen, variant string, i int) *eng.Case {
	if variant == "nested" && i%3 == 0 {
		return g.AliasCase(i)
	}
	c := g.Case(i)
	if variant == "retype" {
		// one schema object, two destination struct types with the same fields at different positions:
		// first the other type, then the case proper
		c.WarmOther = true
		c.AltDest = i%2 == 0
	}
	return c
}

// regenerateEngineCase rebuilds case `idx` of the stream and executes it on the implementation.
func regenerateEngineCase(seed uint64, variant string, idx int) (string, string) {
	root := rng.New(seed)
	var g *eng.Gen
	for i := 0; i <= idx; i++ {
		g = &eng.Gen{R: root.Fork()}
	}
	engineGen(g, variant, idx)
	c := engineCase(g, variant, idx)
	res := eng.Run(c)
	return c.Line(res.Order), res.Sx(c.ID).String()
}

func streamEngine(seed uint64, n int, driver, corpus, dump, variant string) (*Summary, error) {
	sum := newSummary("engine", seed)
	sum.Rule = "random schema trees (prim/slice/ptr/struct/custom, depth<=4, <=4 fields, all modifier combinations, built-in and table-defined tests, PostTransforms) with mostly-valid inputs plus absent / wrongly typed ones, both modes; non-trivial = >=2 schema nodes and (>=1 issue or a catch/default/PostTransform present); distinct = distinct case line"
	root := rng.New(seed)
	var cases []*eng.Case
	var impls []*eng.Result
	var lines []string
	for i := 0; i < n; i++ {
		g := &eng.Gen{R: root.Fork()}
		engineGen(g, variant, i)
		c := engineCase(g, variant, i)
		if variant == "deep" {
			// cold pools: a fresh path builder has to grow while the deep path is being built
			zp.ClearPools()
		}
		res := eng.Run(c)
		cases = append(cases, c)
		impls = append(impls, res)
		lines = append(lines, c.Line(res.Order))
	}
	if dump != "" {
		os.WriteFile(dump, []byte(strings.Join(lines, "\n")+"\n"), 0o644)
	}
	if variant == "pre" {
		prePtrProbe(sum)
	}
	if variant == "api" {
		likeProbe(sum)
	}
	if variant == "api" || variant == "" {
		structInputProbe(sum)
	}
	if variant == "catch" || variant == "" {
		ctxLeakProbe(sum)
	}
	models, err := runDriver(driver, lines)
	if err != nil {
		return nil, err
	}
	distinct := map[string]bool{}
	for i, c := range cases {
		sum.Evaluations++
		implLine := impls[i].Sx(c.ID).String()
		// the driver prints the engine result (mechanism model under the regenerated facts) and the
		// spec result (reference semantics), tab-separated
		parts := strings.SplitN(models[i], "\t", 2)
		engineLine, modelLine := parts[0], parts[0]
		if len(parts) == 2 {
			modelLine = parts[1]
		}
		iv, err := parseRes(implLine)
		if err != nil {
			return nil, err
		}
		if impls[i].CtxLeak != "" {
			// direct oracle (C12): a callback's ctx.Get differed from exactly what this call passed
			sum.addViolation("C12", Mismatch{Case: lines[i], Impl: implLine, What: fmt.Sprintf("a callback's context differs from the values passed to this call (%v, formatter mode %q): %s", c.CtxValues(), c.Fmt, impls[i].CtxLeak)})
		}
		if impls[i].StrayPtr != "" {
			// direct oracle (C12): struct, slice, custom and PostTransform callbacks (and TestFuncs) get a pointer
			// to the destination of their node
			sum.addViolation("C12", Mismatch{Case: lines[i], Impl: implLine, What: impls[i].StrayPtr})
		}
		mv, err := parseRes(modelLine)
		if err != nil {
			sum.ModelErrors++
			sum.addMismatch("model", Mismatch{Case: lines[i], Impl: implLine, Model: modelLine, What: "driver could not run the case"})
			continue
		}
		// distribution
		md := 0
		nodes, catches, posts := nodeStats(c.Schema, 0, sum.Hist, &md)
		sum.Hist[fmt.Sprintf("depth_%d", md)]++
		sum.Hist["mode_"+c.Mode]++
		if iv.panic {
			sum.Hist["outcome_panic"]++
		} else if iv.noIssues() {
			sum.Hist["outcome_ok"]++
		} else {
			sum.Hist["outcome_issues"]++
			for _, k := range iv.issues.List[1:] {
				if k.List[0].Str() == "$first" {
					continue
				}
				for _, is := range k.List[1:] {
					sum.Hist["code_"+is.List[1].Str()]++
				}
			}
		}
		for p, ks := range impls[i].Order {
			_ = p
			sum.Hist[fmt.Sprintf("struct_visits_arity_%d", len(ks))]++
		}
		if nodes >= 2 && (!iv.noIssues() || catches > 0 || posts > 0) && !distinct[lines[i]] {
			distinct[lines[i]] = true
			sum.Nontrivial++
		}
		if len(sum.Samples) < 3 && nodes >= 3 {
			sum.Samples = append(sum.Samples, lines[i]+" => "+implLine)
		}
		if implLine != engineLine {
			sum.FullLineMismatches++
			if len(sum.Mismatches["engine-model"]) < 3 {
				sum.Mismatches["engine-model"] = append(sum.Mismatches["engine-model"], Mismatch{Case: lines[i], Impl: implLine, Model: engineLine, What: "full result line differs from the mechanism model"})
			}
		}
		if engineLine != modelLine {
			sum.Hist["engine_differs_from_spec"]++
		}
		if iv.panic && !mv.panic {
			// direct oracle (C06): the execution panicked on input data where the reference semantics returns a result
			sum.addViolation("C06", Mismatch{Case: lines[i], Impl: implLine + " " + impls[i].Panic, Model: modelLine, What: "the execution panicked: " + impls[i].Panic, Stream: "engine", Variant: variant, Seed: seed, Index: i})
		}
		for _, prop := range engineProps {
			ip, mp := iv.project(prop), mv.project(prop)
			if ip != mp {
				m := Mismatch{Case: lines[i], Impl: implLine, Model: modelLine, What: "projection " + prop + ": impl=" + ip + " model=" + mp,
					Stream: "engine", Variant: variant, Seed: seed, Index: i}
				if prop == shrinkProp && len(sum.Mismatches[prop]) < 2 {
					shrinkEngineCase(c, prop, driver, &m)
				}
				sum.addMismatch(prop, m)
			}
		}
	}
	if w := eng.EnumsIntact(); w != "" {
		sum.addViolation("C19", Mismatch{Case: "every case of this stream (enum slices are shared by content, with spare capacity)", What: "an execution wrote into the enum slice given to OneOf: " + w})
	}
	keys := make([]string, 0, len(sum.Hist))
	for k := range sum.Hist {
		keys = append(keys, k)
	}
	sort.Strings(keys)
	return sum, nil
}

// shrinkProp: the property whose first mismatches are shrunk (the one the check was started for)
var shrinkProp string

// shrinkEngineCase: greedy shrinking of a failing engine case. Every round generates all one-step reductions
// of the current case, executes them on the implementation and on the model, and moves to the first one whose
// projection for the property still differs. The result is recorded next to the original case.
func shrinkEngineCase(c *eng.Case, prop, driver string, m *Mismatch) {
	cur := c
	steps := 0
	var bestLine, bestImpl, bestModel, bestWhat string
	for round := 0; round < 80; round++ {
		cands := eng.Reductions(cur)
		if len(cands) == 0 {
			break
		}
		var lines []string
		var impls []string
		var ok []*eng.Case
		for _, cc := range cands {
			func() {
				defer func() { recover() }() // a candidate the harness cannot build is skipped
				res := eng.Run(cc)
				lines = append(lines, cc.Line(res.Order))
				impls = append(impls, res.Sx(cc.ID).String())
				ok = append(ok, cc)
			}()
		}
		if len(lines) == 0 {
			break
		}
		models, err := runDriver(driver, lines)
		if err != nil || len(models) != len(lines) {
			break
		}
		found := -1
		for k := range lines {
			parts := strings.SplitN(models[k], "\t", 2)
			modelLine := parts[len(parts)-1]
			iv, err1 := parseRes(impls[k])
			mv, err2 := parseRes(modelLine)
			if err1 != nil || err2 != nil {
				continue
			}
			ip, mp := iv.project(prop), mv.project(prop)
			if ip != mp {
				found = k
				bestLine, bestImpl, bestModel = lines[k], impls[k], modelLine
				bestWhat = "projection " + prop + ": impl=" + ip + " model=" + mp
				break
			}
		}
		if found < 0 {
			break
		}
		cur = ok[found]
		steps++
	}
	if steps > 0 {
		m.Shrunk, m.ShrunkImpl, m.ShrunkModel, m.ShrunkWhat, m.ShrunkSteps = bestLine, bestImpl, bestModel, bestWhat, steps
	}
}
