package main

// S-builder: random chains of builder calls on primitive schemas (fluent Not() chains, modifier
// re-ordering, options on individual tests, WithCoercer), applied call by call to the real builder
// and folded by the Lean builder model; both schemas are then executed on the same input.
// Sharing: one schema object placed at several positions is exercised by the engine stream
// (variant "share").

import (
	z "github.com/Oudwins/zog"

	"verif/harness/internal/eng"
	"verif/harness/internal/rng"
	"verif/harness/internal/sx"
)

type bcall struct {
	kind string // not t tf req opt dflt catch post
	t    eng.TestSpec
	o    eng.TOpts
	id   int
	d    eng.D
	p    eng.PostSpec
}

func (c bcall) sx(ext *eng.Ext) *sx.Node {
	switch c.kind {
	case "not":
		return sx.T("not")
	case "t":
		return sx.T("t", c.t.Sx(ext))
	case "tf":
		return sx.T("tf", c.t.Sx(ext))
	case "req":
		return sx.T("req", sx.I(int64(c.id)), c.o.Sx())
	case "opt":
		return sx.T("opt")
	case "dflt":
		return sx.T("dflt", c.d.Sx())
	case "catch":
		return sx.T("catch", c.d.Sx())
	case "post":
		return sx.T("post", c.p.Sx())
	}
	panic("bcall")
}

func genChain(g *eng.Gen, kind string) []bcall {
	r := g.R
	n := r.Range(1, 10)
	var out []bcall
	node := &eng.Node{Kind: "prim", PK: kind}
	for i := 0; i < n; i++ {
		switch r.Intn(9) {
		case 0, 1, 2:
			ts := g.PrimTests(kind)
			if len(ts) == 0 {
				continue
			}
			t := ts[0]
			if t.Name == "fn" {
				out = append(out, bcall{kind: "tf", t: t})
				continue
			}
			neg := t.Not
			t.Not = false
			if kind == "str" && neg {
				out = append(out, bcall{kind: "not"})
			}
			out = append(out, bcall{kind: "t", t: t})
		case 3:
			out = append(out, bcall{kind: "req", o: g.Topts(), id: g.ID()})
		case 4:
			out = append(out, bcall{kind: "opt"})
		case 5:
			out = append(out, bcall{kind: "dflt", d: g.PrimD(kind, true)})
		case 6:
			out = append(out, bcall{kind: "catch", d: g.PrimD(kind, true)})
		case 7:
			ps := g.Posts(node)
			if len(ps) > 0 {
				out = append(out, bcall{kind: "post", p: ps[0]})
			}
		case 8:
			out = append(out, bcall{kind: "tf", t: g.FnTest()})
		}
	}
	return out
}

// applyChain applies the calls one by one to the real builder.
func applyChain(kind, coercer string, calls []bcall, rec *eng.Recorder) z.ZogSchema {
	node := &eng.Node{Kind: "prim", PK: kind}
	var opts []z.SchemaOption
	if coercer != "-" {
		opts = append(opts, z.WithCoercer(eng.NamedCoercer(coercer)))
	}
	switch kind {
	case "str":
		s := z.String(opts...)
		var pendingNot z.NotStringSchema[string]
		for _, c := range calls {
			switch c.kind {
			case "not":
				pendingNot = s.Not()
			case "t":
				eng.ApplyStringTest(s, pendingNot, c.t)
				pendingNot = nil
			case "tf":
				s.TestFunc(eng.FnTestFunc(node, c.t, rec), c.t.Opts.Zopts()...)
			case "req":
				s.Required(c.o.Zopts()...)
			case "opt":
				s.Optional()
			case "dflt":
				s.Default(c.d.S)
			case "catch":
				s.Catch(c.d.S)
			case "post":
				s.PostTransform(eng.PostFunc(node, c.p, rec))
			}
		}
		return s
	case "int":
		s := z.Int(opts...)
		for _, c := range calls {
			switch c.kind {
			case "t":
				eng.ApplyIntTest(s, c.t)
			case "tf":
				s.TestFunc(eng.FnTestFunc(node, c.t, rec), c.t.Opts.Zopts()...)
			case "req":
				s.Required(c.o.Zopts()...)
			case "opt":
				s.Optional()
			case "dflt":
				s.Default(int(c.d.I))
			case "catch":
				s.Catch(int(c.d.I))
			case "post":
				s.PostTransform(eng.PostFunc(node, c.p, rec))
			}
		}
		return s
	case "bool":
		s := z.Bool(opts...)
		for _, c := range calls {
			switch c.kind {
			case "t":
				if c.t.Op == "true" {
					s.True()
				} else if c.t.Op == "false" {
					s.False()
				} else {
					s.EQ(c.t.Arg.B)
				}
			case "tf":
				s.TestFunc(eng.FnTestFunc(node, c.t, rec), c.t.Opts.Zopts()...)
			case "req":
				s.Required(c.o.Zopts()...)
			case "opt":
				s.Optional()
			case "dflt":
				s.Default(c.d.B)
			case "catch":
				s.Catch(c.d.B)
			case "post":
				s.PostTransform(eng.PostFunc(node, c.p, rec))
			}
		}
		return s
	}
	panic("applyChain kind " + kind)
}

func streamBuilder(seed uint64, n int, driver string) (*Summary, error) {
	sum := newSummary("builder", seed)
	sum.Rule = "random builder chains (1..10 calls: tests with options, Not() immediately followed by a negatable string test, TestFunc, Required/Optional/Default/Catch in any order and repetition, PostTransform, WithCoercer) on String/Int/Bool schemas, applied call by call to the real builder and folded by the Lean builder model, then executed (both modes); non-trivial = chain with a repeated modifier, a Not() or an option; distinct = distinct case line"
	root := rng.New(seed)
	var lines []string
	var impls []*eng.Result
	nontriv := []bool{}
	for i := 0; i < n; i++ {
		g := &eng.Gen{R: root.Fork()}
		kind := rng.Pick(g.R, []string{"str", "str", "int", "int", "bool"})
		coercer := "-"
		if g.R.P(1, 6) {
			switch kind {
			case "int":
				coercer = rng.Pick(g.R, []string{"plus100", "strlen"})
			case "str":
				coercer = "sfx"
			case "bool":
				coercer = "yn"
			}
		}
		calls := genChain(g, kind)
		node := &eng.Node{Kind: "prim", PK: kind}
		c := &eng.Case{ID: i, Schema: node}
		if g.R.P(1, 2) {
			c.Mode = "v"
			c.Dest = g.DestValue(node, 25)
		} else {
			c.Mode = "p"
			c.Input = g.Input(node)
			c.Dest = eng.ZeroD(node)
		}
		rec := eng.NewRecorder()
		schema := applyChain(kind, coercer, calls, rec)
		res := eng.RunBuilt(schema, c, rec)
		ext := eng.NewExt()
		cs := []*sx.Node{}
		mods := map[string]int{}
		interesting := false
		for _, bc := range calls {
			cs = append(cs, bc.sx(ext))
			mods[bc.kind]++
			if bc.kind == "not" || mods[bc.kind] > 1 {
				interesting = true
			}
		}
		eng.NoteInput(c.Input, ext)
		input := sx.A("nil")
		if c.Mode == "p" {
			input = c.Input.Sx()
		}
		lines = append(lines, sx.T("chain", sx.I(int64(i)), sx.A(c.Mode), sx.A(kind), sx.A(coercer), sx.L(cs...), c.Dest.Sx(), input, ext.Sx()).String())
		impls = append(impls, res)
		nontriv = append(nontriv, interesting)
	}
	models, err := runDriver(driver, lines)
	if err != nil {
		return nil, err
	}
	distinct := map[string]bool{}
	for i := range lines {
		sum.Evaluations++
		implLine := impls[i].Sx(i).String()
		if implLine != models[i] {
			sum.FullLineMismatches++
			sum.addMismatch("C17", Mismatch{Case: lines[i], Impl: implLine, Model: models[i], What: "the schema built by the real builder and the one built by the builder model behave differently"})
		}
		if nontriv[i] && !distinct[lines[i]] {
			distinct[lines[i]] = true
			sum.Nontrivial++
		}
		if len(sum.Samples) < 3 && nontriv[i] {
			sum.Samples = append(sum.Samples, lines[i]+" => "+implLine)
		}
	}
	return sum, nil
}
