// corr: the correspondence check. Generates cases from one PRNG seed, executes them on the real
// zog (built from /repo's working tree with -tags verif), pipes the same cases to the Lean driver,
// and compares the two result streams on the projection each property talks about.
package main

import (
	"bufio"
	"encoding/json"
	"flag"
	"fmt"
	"os"
	"os/exec"
	"strings"
)

type Summary struct {
	Stream             string                `json:"stream"`
	Seed               uint64                `json:"seed"`
	Evaluations        int                   `json:"evaluations"`
	Nontrivial         int                   `json:"distinct_nontrivial"`
	Rule               string                `json:"rule"`
	Samples            []string              `json:"samples"`
	Hist               map[string]int        `json:"histogram"`
	FullLineMismatches int                   `json:"full_line_mismatches"`
	Mismatches         map[string][]Mismatch `json:"mismatches"` // property -> projection mismatches (model vs implementation)
	Violations         map[string][]Mismatch `json:"violations"` // property -> failures of a direct oracle on the real code
	Known              map[string][]string   `json:"known"`      // property -> known-finding hits
	ModelErrors        int                   `json:"model_errors"`
	Exhaustive         bool                  `json:"exhaustive"`
}

type Mismatch struct {
	Case  string `json:"case"`
	Impl  string `json:"impl"`
	Model string `json:"model"`
	What  string `json:"what"`
	// how to regenerate and re-execute the case on the implementation (engine stream)
	Stream  string `json:"stream,omitempty"`
	Variant string `json:"variant,omitempty"`
	Seed    uint64 `json:"seed,omitempty"`
	Index   int    `json:"index"`
	// the same failure on a smaller case (engine stream: greedy one-step reductions that keep the projection different)
	Shrunk      string `json:"shrunk_case,omitempty"`
	ShrunkImpl  string `json:"shrunk_impl,omitempty"`
	ShrunkModel string `json:"shrunk_model,omitempty"`
	ShrunkWhat  string `json:"shrunk_what,omitempty"`
	ShrunkSteps int    `json:"shrunk_steps,omitempty"`
}

func newSummary(stream string, seed uint64) *Summary {
	return &Summary{Stream: stream, Seed: seed, Hist: map[string]int{}, Mismatches: map[string][]Mismatch{}, Violations: map[string][]Mismatch{}, Known: map[string][]string{}}
}

func (s *Summary) addMismatch(prop string, m Mismatch) {
	if len(s.Mismatches[prop]) < 5 {
		s.Mismatches[prop] = append(s.Mismatches[prop], m)
	} else {
		s.Hist["mismatch_overflow_"+prop]++
	}
}

func (s *Summary) addViolation(prop string, m Mismatch) {
	if len(s.Violations[prop]) < 5 {
		s.Violations[prop] = append(s.Violations[prop], m)
	} else {
		s.Hist["violation_overflow_"+prop]++
	}
}

// runDriver pipes lines to the Lean driver and returns its output lines.
func runDriver(driver string, lines []string) ([]string, error) {
	cmd := exec.Command(driver)
	cmd.Stdin = strings.NewReader(strings.Join(lines, "\n") + "\n")
	cmd.Stderr = os.Stderr
	out, err := cmd.Output()
	if err != nil {
		return nil, fmt.Errorf("driver: %v", err)
	}
	var res []string
	sc := bufio.NewScanner(strings.NewReader(string(out)))
	sc.Buffer(make([]byte, 1<<20), 1<<26)
	for sc.Scan() {
		res = append(res, sc.Text())
	}
	if len(res) != len(lines) {
		return res, fmt.Errorf("driver returned %d lines for %d cases", len(res), len(lines))
	}
	return res, nil
}

func main() {
	stream := flag.String("stream", "engine", "stream name")
	seed := flag.Uint64("seed", 1, "PRNG seed")
	n := flag.Int("n", 2000, "number of generated cases")
	driver := flag.String("driver", "/verif/lean/.lake/build/bin/driver", "Lean driver binary")
	out := flag.String("out", "", "summary JSON path")
	corpus := flag.String("corpus", "", "corpus file (case lines run first)")
	dump := flag.String("dump", "", "write all case lines here")
	variant := flag.String("variant", "", "generator variant")
	prop := flag.String("prop", "", "property the run is for (selects direct oracles)")
	replay := flag.String("replay", "", "replay file written by ./check")
	flag.Parse()
	shrinkProp = *prop
	if *replay != "" {
		os.Exit(doReplay(*replay, *driver))
	}

	var sum *Summary
	var err error
	switch *stream {
	case "engine":
		sum, err = streamEngine(*seed, *n, *driver, *corpus, *dump, *variant)
	case "front":
		sum, err = streamFront(*seed, *n, *driver)
	case "dyn":
		sum, err = streamDyn(*seed, *n)
	case "pool":
		sum, err = streamPool(*seed, *n)
	case "http":
		sum, err = streamHTTP(*seed, *n, *driver)
	case "helpers":
		sum, err = streamHelpers(*seed, *n, *driver)
	case "builder":
		sum, err = streamBuilder(*seed, *n, *driver)
	case "path":
		sum, err = streamPath(*seed, *n, *driver)
	case "msg":
		sum, err = streamMsg(*seed, *driver)
	case "preds":
		sum, err = streamPreds(*seed, *n, *driver, "")
	case "coerce":
		sum, err = streamCoerce(*seed, *n, *driver)
	case "order":
		sum, err = streamOrder(*seed, *n, *variant)
	case "modes":
		sum, err = streamModes(*seed, *n)
	case "alias":
		sum, err = streamAlias(*seed, *n)
	default:
		err = fmt.Errorf("unknown stream %q", *stream)
	}
	if err != nil {
		fmt.Fprintln(os.Stderr, "corr:", err)
		os.Exit(2)
	}
	js, _ := json.MarshalIndent(sum, "", " ")
	if *out != "" {
		os.WriteFile(*out, js, 0o644)
	} else {
		fmt.Println(string(js))
	}
}

// doReplay re-runs the case stored in a replay file on the model and prints both outputs.
func doReplay(path, driver string) int {
	raw, err := os.ReadFile(path)
	if err != nil {
		fmt.Fprintln(os.Stderr, err)
		return 2
	}
	var m map[string]any
	if err := json.Unmarshal(raw, &m); err != nil {
		fmt.Fprintln(os.Stderr, err)
		return 2
	}
	fmt.Printf("kind: %v\nwhat: %v\n", m["kind"], m["what"])
	c, _ := m["case"].(string)
	if c == "" {
		fmt.Println("(no case line in this replay file)")
		return 0
	}
	out, err := runDriver(driver, []string{c})
	if err != nil {
		fmt.Fprintln(os.Stderr, err)
		return 2
	}
	fmt.Printf("case:  %s\nimpl (recorded): %v\nmodel (now):     %s\n", c, m["impl"], out[0])
	// engine-stream cases are regenerated from (seed, variant, index) and re-executed on the implementation
	if st, _ := m["stream"].(string); st == "engine" {
		seed, _ := m["seed"].(float64)
		idx, _ := m["index"].(float64)
		variant, _ := m["variant"].(string)
		line, impl := regenerateEngineCase(uint64(seed), variant, int(idx))
		fmt.Printf("regenerated case (seed %d, variant %q, index %d): identical to the recorded line: %v\nimpl (now):      %s\n", uint64(seed), variant, int(idx), line == c, impl)
		out2, err := runDriver(driver, []string{line})
		if err == nil {
			parts := strings.SplitN(out2[0], "\t", 2)
			fmt.Printf("spec (now):      %s\n", parts[len(parts)-1])
			if parts[len(parts)-1] != impl {
				fmt.Println("RESULT: implementation and reference semantics still differ on this case")
				return 1
			}
			fmt.Println("RESULT: implementation and reference semantics agree on this case now")
		}
	}
	return 0
}
