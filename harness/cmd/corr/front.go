package main

// S-front (C14, C10): one logical record rendered as a Go map, a JSON document (zjson), a zhttp JSON
// body, a form, a query string and environment variables, with random struct tags per source.
// (1) every rendering is compared with the model run on what that front end presents (tag + values);
// (2) all renderings are compared with one another on the real code (destination, issues with paths
//     mapped back to schema keys).
// Nested struct schemas are included: the differences they show are known finding D17.

import (
	"fmt"
	"math"
	"net/http/httptest"
	"net/url"
	"os"
	"sort"
	"strings"
	"time"

	"github.com/Oudwins/zog/parsers/zjson"
	"github.com/Oudwins/zog/zenv"
	"github.com/Oudwins/zog/zhttp"

	"verif/harness/internal/eng"
	"verif/harness/internal/rng"
)

type leafVal struct {
	kind string // str int bool time
	s    string
	n    int64
	b    bool
	t    time.Time
	miss bool
	list []string // slice of strings
}

func (l leafVal) asString() string {
	switch l.kind {
	case "str":
		return l.s
	case "int":
		return fmt.Sprint(l.n)
	case "bool":
		return fmt.Sprint(l.b)
	case "time":
		return l.t.Format(time.RFC3339)
	}
	return ""
}

func tagOf(f eng.Field, src string) string {
	for _, t := range f.Tags {
		if t[0] == src {
			// the name in a source tag is what precedes its first comma; a tag without a name names nothing
			if name, _, _ := strings.Cut(t[1], ","); name != "" {
				return name
			}
		}
	}
	for _, t := range f.Tags {
		if t[0] == "zog" {
			return t[1]
		}
	}
	return f.Key
}

func streamFront(seed uint64, n int, driver string) (*Summary, error) {
	sum := newSummary("front", seed)
	sum.Rule = "random flat record schemas (1..5 fields of string/int (incl. integers beyond 2^53)/bool/time/[]string — half of the list fields under form/query parameters named k[], with lists of one element and blank elements —, Required/Default/tests, random json/form/query/env/zog tags, source tags with options after the name or without a name, names containing symbols and separators) and, one case in four, a nested struct field; one record rendered through 6 front ends (Go map, zjson, zhttp JSON, form, query, env — env values padded on either side with ASCII and non-ASCII Unicode white space), in half of the cases through ONE shared schema object with a rotating first front end; non-trivial = at least one tag differs from the schema key or a field is missing; distinct = distinct (schema, record)"
	root := rng.New(seed)
	var lines []string
	var impls []string
	var what []string
	var sharedObj []bool
	// altOf[i]: index of the line that runs case i with an ABSENT input (known finding D40), or -1
	var altOf []int
	distinct := map[string]bool{}
	envLock := func(kv map[string]string, f func()) {
		for k, v := range kv {
			os.Setenv(k, v)
		}
		defer func() {
			for k := range kv {
				os.Unsetenv(k)
			}
		}()
		f()
	}
	for i := 0; i < n; i++ {
		g := &eng.Gen{R: root.Fork(), NoPosts: true}
		r := g.R
		nf := r.Range(1, 5)
		schema := &eng.Node{Kind: "struct"}
		var vals []leafVal
		keys := []string{"a", "b", "name", "age", "ok", "when", "tags"}
		r.Shuffle(len(keys), func(x, y int) { keys[x], keys[y] = keys[y], keys[x] })
		tagged := false
		missing := false
		bigInt := false
		nested := i%4 == 3
		// one case in five: the record schema behind a top-level Ptr (every other one with NotNil)
		ptrRoot := i%5 == 2 && !nested
		for j := 0; j < nf; j++ {
			key := keys[j]
			f := eng.Field{Key: key, GoName: strings.ToUpper(key[:1]) + key[1:]}
			for _, src := range []string{"zog", "json", "form", "query", "env"} {
				if r.P(1, 3) {
					tv := fmt.Sprintf("%s_%s%d", src[:1], key, i%7)
					if src != "zog" && r.P(1, 4) {
						tv += rng.Pick(r, []string{",omitempty", ",omitempty,string", ","}) // options after the name
					} else if src != "zog" && r.P(1, 12) {
						tv = ",omitempty" // no name: the tag does not name the key
					} else if src != "zog" && r.P(1, 8) {
						// names made of symbols and separators are names like any other ($ref, a+b, x|y, "first name")
						deco := rng.Pick(r, []string{"$%s", "%s+x", "%s|y", "~%s", "%s z", "<%s>", "^%s", "%s=1", "%s@", "%s!", "#%s", "%s/%s"})
						if src == "env" && strings.Contains(deco, "=") {
							deco = "$%s"
						}
						tv = strings.ReplaceAll(deco, "%s", tv)
					} else if src == "zog" && r.P(1, 6) {
						tv += rng.Pick(r, []string{",omitempty", ",x"}) // the zog tag is the key as it stands
					}
					f.Tags = append(f.Tags, [2]string{src, tv})
					tagged = true
				}
			}
			kind := rng.Pick(r, []string{"str", "str", "int", "bool", "time", "strs"})
			lv := leafVal{kind: kind, miss: r.P(1, 5)}
			missing = missing || lv.miss
			switch kind {
			case "str":
				f.S = &eng.Node{Kind: "prim", PK: "str", Tests: g.PrimTests("str")}
				lv.s = rng.Pick(r, []string{"abc", "x", "hello world", "Abc1", "a@b.co", "12"})
			case "int":
				f.S = &eng.Node{Kind: "prim", PK: "int", Tests: g.PrimTests("int")}
				lv.n = int64(r.Range(-3, 12))
				if r.P(1, 6) {
					// integers a float64 cannot hold: the string front ends must hand the digits on unchanged
					lv.n = rng.Pick(r, []int64{9007199254740993, -9007199254740993, math.MaxInt64, math.MaxInt64 - 100, math.MinInt64, 1234567890123456789})
					bigInt = true
				}
			case "bool":
				f.S = &eng.Node{Kind: "prim", PK: "bool"}
				lv.b = r.P(1, 2)
			case "time":
				f.S = &eng.Node{Kind: "prim", PK: "time"}
				lv.t = time.Unix(int64(r.Range(1, 9))*86400*365, 0).UTC()
			case "strs":
				f.S = &eng.Node{Kind: "slice", Elem: &eng.Node{Kind: "prim", PK: "str"}}
				lv.kind = "strs"
				if r.P(1, 2) {
					// form / query parameters named k[] are always lists: with them a list of ONE element, and
					// blank elements, can be expressed through every front end that has lists
					var tags [][2]string
					for _, t := range f.Tags {
						if t[0] != "form" && t[0] != "query" {
							tags = append(tags, t)
						}
					}
					f.Tags = append(tags, [2]string{"form", fmt.Sprintf("f_%s%d[]", key, i%7)}, [2]string{"query", fmt.Sprintf("q_%s%d[]", key, i%7)})
					tagged = true
					for k := r.Range(1, 3); k > 0; k-- {
						lv.list = append(lv.list, rng.Pick(r, []string{"t1", "t2", "x", "", " ", "\t"}))
					}
					break
				}
				for k := r.Range(2, 3); k > 0; k-- {
					lv.list = append(lv.list, rng.Pick(r, []string{"t1", "t2", "x"}))
				}
			}
			for _, t := range f.S.Tests {
				_ = t
			}
			if f.S.Kind == "prim" {
				// no callbacks (fn tests) here: keep built-in tests only
				var ts []eng.TestSpec
				for _, t := range f.S.Tests {
					if t.Name != "fn" {
						ts = append(ts, t)
					}
				}
				f.S.Tests = ts
				if r.P(1, 2) {
					o := eng.TOpts{}
					f.S.Req = &o
					f.S.ReqID = g.ID()
				} else if r.P(1, 3) {
					d := g.PrimD(f.S.PK, true)
					f.S.Dflt = &d
				}
			}
			schema.Fields = append(schema.Fields, f)
			vals = append(vals, lv)
		}
		if nested {
			o := eng.TOpts{}
			inner := &eng.Node{Kind: "struct", Fields: []eng.Field{{Key: "city", GoName: "City", Tags: [][2]string{{"json", "j_city"}, {"env", "DB_CITY"}, {"form", "f_city"}, {"query", "q_city"}},
				S: &eng.Node{Kind: "prim", PK: "str", Req: &o, ReqID: g.ID()}}}}
			schema.Fields = append(schema.Fields, eng.Field{Key: "inner", GoName: "Inner", S: inner})
		}
		top := schema
		if ptrRoot {
			top = &eng.Node{Kind: "ptr", Elem: schema}
			if i%10 == 2 {
				top.NotNil, top.NNID = &eng.TOpts{}, g.ID()
			}
		}
		// ---- renderings ----
		type rendering struct {
			name  string
			tag   string
			data  func() any
			input eng.V
			env   map[string]string
		}
		var rs []rendering
		// Go map
		goMap := eng.V{K: "o"}
		jsonObj := map[string]any{}
		jsonV := eng.V{K: "o"}
		form := url.Values{}
		query := url.Values{}
		envs := map[string]string{}
		envV := eng.V{K: "fl"}
		for j, f := range schema.Fields {
			if j >= len(vals) {
				break
			}
			lv := vals[j]
			if lv.miss {
				continue
			}
			var mv, jv eng.V
			switch lv.kind {
			case "str":
				mv, jv = eng.VStr(lv.s), eng.VStr(lv.s)
				jsonObj[tagOf(f, "json")] = lv.s
			case "int":
				mv, jv = eng.VInt(lv.n), eng.VF64(float64(lv.n))
				jsonObj[tagOf(f, "json")] = lv.n
			case "bool":
				mv, jv = eng.VBool(lv.b), eng.VBool(lv.b)
				jsonObj[tagOf(f, "json")] = lv.b
			case "time":
				mv, jv = eng.VTime(lv.t), eng.VStr(lv.asString())
				jsonObj[tagOf(f, "json")] = lv.asString()
			case "strs":
				l := eng.V{K: "l"}
				for _, s := range lv.list {
					l.L = append(l.L, eng.VStr(s))
				}
				mv, jv = l, l
				jsonObj[tagOf(f, "json")] = lv.list
			}
			goMap.O = append(goMap.O, eng.KV{K: tagOf(f, "-"), V: mv})
			jsonV.O = append(jsonV.O, eng.KV{K: tagOf(f, "json"), V: jv})
			if lv.kind == "strs" {
				form[tagOf(f, "form")] = lv.list
				query[tagOf(f, "query")] = lv.list
				continue // env has no list syntax
			}
			form.Set(tagOf(f, "form"), lv.asString())
			query.Set(tagOf(f, "query"), lv.asString())
			// env values are trimmed of Unicode white space (strings.TrimSpace), ASCII or not, on either side
			envPads := []string{"", " ", " ", "\t", "\n ", "\u00a0", "\u0085", "\u2003", "\u3000", "\u00a0 ", " \u3000", "\u2028\u00a0", "\v\f"}
			envs[tagOf(f, "env")] = rng.Pick(r, envPads) + lv.asString() + rng.Pick(r, envPads)
			envV.O = append(envV.O, eng.KV{K: tagOf(f, "env"), V: eng.VStr(lv.asString())})
		}
		if nested {
			goMap.O = append(goMap.O, eng.KV{K: "inner", V: eng.VObj(eng.KV{K: "city", V: eng.VStr("X")})})
			jsonObj["inner"] = map[string]any{"j_city": "X"}
			jsonV.O = append(jsonV.O, eng.KV{K: "inner", V: eng.VObj(eng.KV{K: "j_city", V: eng.VStr("X")})})
			form.Set("f_city", "X")
			query.Set("q_city", "X")
			envs["DB_CITY"] = "X"
			envV.O = append(envV.O, eng.KV{K: "DB_CITY", V: eng.VStr("X")})
		}
		sort.Slice(jsonV.O, func(a, b int) bool { return jsonV.O[a].K < jsonV.O[b].K })
		jsonDoc := mustJSON(jsonObj)
		flatV := func(v url.Values) eng.V {
			out := eng.V{K: "fl"}
			ks := make([]string, 0, len(v))
			for k := range v {
				ks = append(ks, k)
			}
			sort.Strings(ks)
			for _, k := range ks {
				if len(v[k]) > 1 || strings.HasSuffix(k, "[]") && len(k) > 2 {
					l := eng.V{K: "l"}
					for _, s := range v[k] {
						l.L = append(l.L, eng.VStr(s))
					}
					out.O = append(out.O, eng.KV{K: k, V: l})
				} else {
					out.O = append(out.O, eng.KV{K: k, V: eng.VStr(v[k][0])})
				}
			}
			return out
		}
		rs = append(rs, rendering{name: "map", tag: "", data: func() any { return goMap.Go() }, input: goMap})
		// (a JSON integer beyond 2^53 is rounded by the decoder — known finding D32 —, so such records skip the JSON front ends)
		if !bigInt {
			rs = append(rs, rendering{name: "zjson", tag: "json", data: func() any { return zjson.Decode(strings.NewReader(jsonDoc)) }, input: jsonV})
			rs = append(rs, rendering{name: "zhttp-json", tag: "json", data: func() any {
				req := httptest.NewRequest("POST", "/", strings.NewReader(jsonDoc))
				req.Header.Set("Content-Type", "application/json")
				return zhttp.Request(req)
			}, input: jsonV})
		}
		rs = append(rs, rendering{name: "form", tag: "form", data: func() any {
			req := httptest.NewRequest("POST", "/", strings.NewReader(form.Encode()))
			req.Header.Set("Content-Type", "application/x-www-form-urlencoded")
			return zhttp.Request(req)
		}, input: flatV(form)})
		rs = append(rs, rendering{name: "query", tag: "query", data: func() any {
			return zhttp.Request(httptest.NewRequest("GET", "/?"+query.Encode(), nil))
		}, input: flatV(query)})
		rs = append(rs, rendering{name: "env", tag: "env", data: func() any { return zenv.NewDataProvider() }, input: envV, env: envs})

		// Half of the cases use ONE schema object for all front ends (a package-level schema served by several
		// handlers) and start with a different front end each time: nothing a front end does may change what
		// the schema does for the next one (C19).
		shared := i%2 == 0
		sharedRec := eng.NewRecorder()
		var sharedSchema = eng.Build(top, sharedRec)
		results := make([]*eng.Result, len(rs))
		for step := range rs {
			k := step
			if shared {
				k = (step + i/2) % len(rs)
			}
			rd := rs[k]
			c := &eng.Case{Mode: "p", Schema: top, Dest: eng.ZeroD(top), Input: rd.input, Tag: rd.tag}
			rec, zs := sharedRec, sharedSchema
			if !shared {
				rec = eng.NewRecorder()
				zs = eng.Build(top, rec)
			}
			rec.Events, rec.Order, rec.OrderPaths, rec.CtxLeak, rec.Ptrs = nil, map[string][]string{}, nil, "", nil
			run := func() { results[k] = eng.RunBuiltData(zs, c, rec, rd.data()) }
			if rd.env != nil {
				envLock(rd.env, run)
			} else {
				run()
			}
		}
		var norm []string
		var d40 []bool
		d40b := false
		first := len(lines)
		for k, rd := range rs {
			c := &eng.Case{ID: len(lines), Mode: "p", Schema: top, Dest: eng.ZeroD(top), Input: rd.input, Tag: rd.tag}
			res := results[k]
			lines = append(lines, c.Line(res.Order))
			impls = append(impls, res.Sx(c.ID).String())
			what = append(what, rd.name)
			sharedObj = append(sharedObj, shared)
			altOf = append(altOf, -1)
			// known finding D40: the empty JSON object at a top-level Ptr schema (candidate; confirmed below against
			// what the reference semantics gives for an absent input)
			d40 = append(d40, len(jsonObj) == 0 && rd.tag == "json")
			// normalised view for the cross-front-end comparison: issues keyed by schema key
			normParts := func(src string) []string {
				keymap := map[string]string{}
				for _, f := range schema.Fields {
					keymap[tagOf(f, src)] = f.Key
				}
				var parts []string
				for k, l := range res.Issues {
					if k == "$first" {
						continue
					}
					sk := k
					for tk, key := range keymap {
						if k == tk || strings.HasPrefix(k, tk+"[") || strings.HasPrefix(k, tk+".") {
							sk = key + k[len(tk):]
						}
					}
					for _, is := range l {
						parts = append(parts, sk+":"+is.Code+":"+is.DType)
					}
				}
				sort.Strings(parts)
				return parts
			}
			parts := normParts(rd.tag)
			if d40[k] && !ptrRoot && len(norm) > 0 && strings.Join(parts, ",")+" "+res.Dest.Sx().String() != norm[0] {
				// known finding D40 (b): the empty JSON record files its issues under the zog tag / schema key of the
				// field instead of the name in its json tag — taken as such only if reading the keys that way gives
				// exactly what the Go map gives
				if alt := normParts("-"); strings.Join(alt, ",")+" "+res.Dest.Sx().String() == norm[0] {
					parts = alt
					d40b = true
				}
			}
			sort.Strings(parts)
			hasList := false
			for _, lv := range vals {
				if lv.kind == "strs" && !lv.miss {
					hasList = true
				}
			}
			if rd.name == "env" && hasList {
				norm = append(norm, "") // env cannot express lists: not comparable
			} else {
				norm = append(norm, strings.Join(parts, ",")+" "+res.Dest.Sx().String())
			}
		}
		for k := range rs {
			if d40[k] {
				// (a) Ptr root: the same case with an absent input; (b) Struct root: the same case without a source tag
				ca := &eng.Case{ID: len(lines), Mode: "p", Schema: top, Dest: eng.ZeroD(top), Input: eng.VNil(), Tag: rs[k].tag}
				if !ptrRoot {
					ca.Input, ca.Tag = rs[k].input, ""
				}
				altOf[first+k] = len(lines)
				lines = append(lines, ca.Line(results[k].Order))
				impls = append(impls, "")
				what = append(what, "alt")
				sharedObj = append(sharedObj, false)
				altOf = append(altOf, -1)
			}
		}
		if ptrRoot {
			sum.Hist["ptr_root"]++
		}
		if len(jsonObj) == 0 {
			sum.Hist["empty_record"]++
		}
		sum.Hist[fmt.Sprintf("fields_%d", len(schema.Fields))]++
		if d40b {
			sum.Known["C14"] = appendUnique(sum.Known["C14"], d40Text)
			sum.Known["C10"] = appendUnique(sum.Known["C10"], d40Text)
			sum.Hist["known_D40_hits"]++
		}
		// (2) cross-front-end agreement
		ref := norm[0]
		for k := 1; k < len(norm); k++ {
			if norm[k] == "" || norm[k] == ref {
				continue
			}
			caseLine := lines[first]
			if d40[k] && results[k].Dest.K == "p" && results[k].Dest.P == nil {
				sum.Known["C14"] = appendUnique(sum.Known["C14"], d40Text)
				sum.Hist["known_D40_hits"]++
			} else if nested {
				sum.Known["C14"] = appendUnique(sum.Known["C14"], "D17 nested struct schemas lose the source tag / flat sources (form, query, env) cannot feed nested structs")
				sum.Known["C10"] = appendUnique(sum.Known["C10"], "D17 nested struct schemas lose the source tag / flat sources (form, query, env) cannot feed nested structs")
				sum.Hist["known_D17_hits"]++
			} else {
				sum.addViolation("C14", Mismatch{Case: caseLine, Impl: rs[k].name + ": " + norm[k], Model: "map: " + ref, What: "front ends disagree on the same record (" + rs[k].name + " vs map)"})
			}
		}
		if (tagged || missing) && !distinct[lines[first]] {
			distinct[lines[first]] = true
			sum.Nontrivial++
		}
	}
	// (1) every rendering against the model
	models, err := runDriver(driver, lines)
	if err != nil {
		return nil, err
	}
	for i := range lines {
		if what[i] == "alt" {
			continue
		}
		sum.Evaluations++
		sum.Hist["frontend_"+what[i]]++
		parts := strings.SplitN(models[i], "\t", 2)
		modelLine := parts[len(parts)-1]
		iv, err := parseRes(impls[i])
		if err != nil {
			return nil, err
		}
		mv, err := parseRes(modelLine)
		if err != nil {
			sum.addMismatch("C14", Mismatch{Case: lines[i], Impl: impls[i], Model: models[i], What: "driver could not run the case"})
			continue
		}
		ip := iv.issueKeys(true, "code,path,dtype", nil) + " " + iv.dest.String()
		mp := mv.issueKeys(true, "code,path,dtype", nil) + " " + mv.dest.String()
		if ip != mp && altOf[i] >= 0 {
			ap := strings.SplitN(models[altOf[i]], "\t", 2)
			if av, err := parseRes(ap[len(ap)-1]); err == nil && ip == av.issueKeys(true, "code,path,dtype", nil)+" "+av.dest.String() {
				sum.Known["C14"] = appendUnique(sum.Known["C14"], d40Text)
				sum.Hist["known_D40_hits"]++
				continue
			}
		}
		if ip != mp {
			props, note := []string{"C14", "C10"}, ""
			if sharedObj[i] {
				props = append(props, "C19")
				note = " (one schema object served every front end of this record, in rotating order)"
			}
			for _, p := range props {
				sum.addMismatch(p, Mismatch{Case: lines[i], Impl: impls[i], Model: modelLine, What: "front end " + what[i] + note + ": impl=" + ip + " model=" + mp})
			}
		}
		if len(sum.Samples) < 3 && i%37 == 5 {
			sum.Samples = append(sum.Samples, what[i]+": "+lines[i])
		}
	}
	return sum, nil
}

func mustJSON(v any) string {
	b, err := jsonMarshal(v)
	if err != nil {
		panic(err)
	}
	return string(b)
}
