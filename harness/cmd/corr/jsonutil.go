package main

import "encoding/json"

func jsonMarshal(v any) ([]byte, error) { return json.Marshal(v) }
