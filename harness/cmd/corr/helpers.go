package main

// S-helpers: random programs over Struct / Test / PostTransform / Pick / Omit / Extend / Merge on the
// real zog; afterwards EVERY schema object of the program is executed and what it is observed to be
// (which field schema sits under which key, which struct-level tests / PostTransforms run, in order)
// is compared with the pure specification computed by the Lean driver.

import (
	"fmt"
	"sort"
	"strings"

	z "github.com/Oudwins/zog"
	p "github.com/Oudwins/zog/internals"

	"verif/harness/internal/rng"
	"verif/harness/internal/sx"
)

type hop struct {
	kind   string
	i, j   int
	k, tmp int // merge3: third operand; index of the intermediate object base.Merge(j)
	t      int
	keys   []string
	fields [][2]any // key, schema id
	asMap  bool     // Pick/Omit given a map[string]bool (with some false entries) instead of strings
	// argv: explicit argument list (strings and map[string]bool values, several mentions of one key, `false`
	// entries before and after a string / `true` mention of the same key); the selection is still `keys`
	argv []any
}

// mixedArgs spreads the selected keys over string arguments and `true` entries of up to two maps, and adds
// `false` entries (which select nothing) for arbitrary keys — also for keys selected by an EARLIER or LATER
// argument: the selection is the union of the string and `true` mentions.
func mixedArgs(r *rng.R, keys []string) []any {
	var out []any
	cur := map[string]bool{}
	flush := func() {
		if len(cur) > 0 {
			out = append(out, cur)
			cur = map[string]bool{}
		}
	}
	for _, k := range keys {
		switch r.Intn(3) {
		case 0:
			flush()
			out = append(out, k)
		default:
			cur[k] = true
		}
		if r.P(1, 3) {
			flush()
		}
	}
	flush()
	// false mentions, as separate trailing / leading maps
	fm := map[string]bool{}
	for _, k := range helperKeys {
		if r.P(1, 2) {
			fm[k] = false
		}
	}
	if len(fm) > 0 {
		if r.P(1, 2) {
			out = append(out, fm)
		} else {
			out = append([]any{fm}, out...)
		}
	}
	return out
}

var helperKeys = []string{"a", "b", "c", "d"}

type helperDest struct{ A, B, C, D int }

func (o hop) sx() *sx.Node {
	fm := func() *sx.Node {
		xs := []*sx.Node{}
		for _, f := range o.fields {
			xs = append(xs, sx.L(sx.S(f[0].(string)), sx.I(int64(f[1].(int)))))
		}
		return sx.L(xs...)
	}
	ks := func() *sx.Node {
		xs := []*sx.Node{}
		for _, k := range o.keys {
			xs = append(xs, sx.S(k))
		}
		return sx.L(xs...)
	}
	switch o.kind {
	case "mk":
		return sx.T("mk", fm())
	case "test":
		return sx.T("test", sx.I(int64(o.i)), sx.I(int64(o.t)))
	case "pick":
		return sx.T("pick", sx.I(int64(o.i)), ks())
	case "omit":
		return sx.T("omit", sx.I(int64(o.i)), ks())
	case "extend":
		return sx.T("extend", sx.I(int64(o.i)), fm())
	case "merge":
		return sx.T("merge", sx.I(int64(o.i)), sx.I(int64(o.j)))
	case "merge3b":
		// second half of x.Merge(y, z): the model folds the operands one at a time
		return sx.T("merge", sx.I(int64(o.tmp)), sx.I(int64(o.k)))
	}
	panic("hop")
}

// runHelperProgram executes the program on the real zog. usePosts: the appended things are
// PostTransforms instead of Tests.
// warm: every schema object is EXECUTED (Parse and Validate) after each step of the program, so that
// schemas are derived from, and extended after, objects that have already been used.
func runHelperProgram(ops []hop, usePosts, warm bool) (string, string) {
	var fieldRan []string // "key=id"
	var testsRan []int
	fieldSchema := func(id int) z.ZogSchema {
		return z.Int().TestFunc(func(v any, ctx z.Ctx) bool {
			path := ctx.(*p.SchemaCtx).Path.String()
			fieldRan = append(fieldRan, fmt.Sprintf("%s=%d", path, id))
			return true
		})
	}
	schemaOf := func(fs [][2]any) z.Schema {
		s := z.Schema{}
		for _, f := range fs {
			s[f[0].(string)] = fieldSchema(f[1].(int))
		}
		return s
	}
	var objs []*z.StructSchema
	panicked := ""
	func() {
		defer func() {
			if r := recover(); r != nil {
				panicked = fmt.Sprint(r)
			}
		}()
		for _, o := range ops {
			switch o.kind {
			case "mk":
				if len(o.fields) == 0 && o.asMap {
					objs = append(objs, z.Struct(nil)) // a nil field map is a schema without fields too
				} else {
					objs = append(objs, z.Struct(schemaOf(o.fields)))
				}
			case "test":
				if o.i < len(objs) {
					id := o.t
					if usePosts {
						objs[o.i].PostTransform(func(ptr any, ctx z.Ctx) error { testsRan = append(testsRan, id); return nil })
					} else {
						objs[o.i].TestFunc(func(v any, ctx z.Ctx) bool { testsRan = append(testsRan, id); return true })
					}
				}
			case "pick", "omit":
				if o.i < len(objs) {
					var arg []any
					if o.argv != nil {
						arg = o.argv
					} else if o.asMap {
						m := map[string]bool{}
						for _, k := range helperKeys {
							m[k] = false
						}
						for _, k := range o.keys {
							m[k] = true
						}
						arg = []any{m}
					} else {
						for _, k := range o.keys {
							arg = append(arg, k)
						}
					}
					if o.kind == "pick" {
						objs = append(objs, objs[o.i].Pick(arg...))
					} else {
						objs = append(objs, objs[o.i].Omit(arg...))
					}
				}
			case "extend":
				if o.i < len(objs) {
					if len(o.fields) == 0 && o.asMap {
						objs = append(objs, objs[o.i].Extend(nil))
					} else {
						objs = append(objs, objs[o.i].Extend(schemaOf(o.fields)))
					}
				}
			case "merge":
				if o.i < len(objs) && o.j < len(objs) {
					objs = append(objs, objs[o.i].Merge(objs[o.j]))
				}
			case "merge3b":
				// ONE call with three operands; (the two-operand merge recorded just before is object o.tmp)
				if o.i < len(objs) && o.j < len(objs) && o.k < len(objs) {
					objs = append(objs, objs[o.i].Merge(objs[o.j], objs[o.k]))
				}
			}
			if warm {
				for _, s := range objs {
					var d helperDest
					s.Parse(map[string]any{"a": 1, "b": 1, "c": 1, "d": 1}, &d)
					s.Validate(&d)
				}
			}
		}
	}()
	if panicked != "" {
		return "", panicked
	}
	// observe every object
	items := []*sx.Node{}
	for _, s := range objs {
		fieldRan, testsRan = nil, nil
		var d helperDest
		func() {
			defer func() {
				if r := recover(); r != nil {
					panicked = fmt.Sprint(r)
				}
			}()
			s.Parse(map[string]any{"a": 1, "b": 1, "c": 1, "d": 1}, &d)
		}()
		sort.Strings(fieldRan)
		fs := []*sx.Node{}
		for _, f := range fieldRan {
			kv := strings.SplitN(f, "=", 2)
			var id int
			fmt.Sscanf(kv[1], "%d", &id)
			fs = append(fs, sx.L(sx.S(kv[0]), sx.I(int64(id))))
		}
		ts := []*sx.Node{}
		for _, t := range testsRan {
			ts = append(ts, sx.I(int64(t)))
		}
		items = append(items, sx.L(sx.L(fs...), sx.L(ts...)))
	}
	return sx.L(items...).String(), panicked
}

func streamHelpers(seed uint64, n int, driver string) (*Summary, error) {
	sum := newSummary("helpers", seed)
	sum.Rule = "random programs (3..14 ops) over Struct (also without fields: Schema{} and a nil Schema) / Test|PostTransform / Pick / Omit / Extend (also with nothing) / Merge with two and with three operands; bases are given several tests first so that their slices have spare capacity; siblings are derived from one base and extended in interleaved orders; Pick/Omit take strings, one map[string]bool, or a mixed argument list; a Pick in three also names keys its receiver does not have (strings, several maps, false entries for keys selected by another argument); afterwards every schema object is executed and observed; each program runs four times (Tests / PostTransforms x objects first executed at the end / every object executed after each step); non-trivial = at least two objects derived from one base, one of them extended afterwards; distinct = distinct program"
	root := rng.New(seed)
	var lines []string
	var progs [][]hop
	var nontriv []bool
	for c := 0; c < n; c++ {
		r := root.Fork()
		var ops []hop
		// pure tracking of keys per object for well-formed picks
		var keysOf [][]string
		nextSchema, nextTest := 0, 10
		mkFields := func() [][2]any {
			k := r.Range(1, 4)
			if r.P(1, 6) {
				k = 0 // a schema without fields (a tests-only mixin), an Extend that adds nothing
			}
			perm := []int{0, 1, 2, 3}
			r.Shuffle(4, func(i, j int) { perm[i], perm[j] = perm[j], perm[i] })
			var fs [][2]any
			for i := 0; i < k; i++ {
				fs = append(fs, [2]any{helperKeys[perm[i]], nextSchema})
				nextSchema++
			}
			return fs
		}
		keysFrom := func(fs [][2]any) []string {
			var ks []string
			for _, f := range fs {
				ks = append(ks, f[0].(string))
			}
			return ks
		}
		union := func(a, b []string) []string {
			m := map[string]bool{}
			for _, k := range a {
				m[k] = true
			}
			for _, k := range b {
				m[k] = true
			}
			var out []string
			for _, k := range helperKeys {
				if m[k] {
					out = append(out, k)
				}
			}
			return out
		}
		fs := mkFields()
		ops = append(ops, hop{kind: "mk", fields: fs, asMap: r.P(1, 2)})
		keysOf = append(keysOf, keysFrom(fs))
		for i := r.Range(0, 4); i > 0; i-- {
			ops = append(ops, hop{kind: "test", i: 0, t: nextTest})
			nextTest++
		}
		derivedFrom := map[int]int{}
		extendedAfter := false
		total := r.Range(3, 14)
		for len(ops) < total {
			i := r.Intn(len(keysOf))
			switch r.Intn(8) {
			case 0:
				fs := mkFields()
				ops = append(ops, hop{kind: "mk", fields: fs, asMap: r.P(1, 2)})
				keysOf = append(keysOf, keysFrom(fs))
			case 1, 2, 3:
				ops = append(ops, hop{kind: "test", i: i, t: nextTest})
				nextTest++
				if _, ok := derivedFrom[i]; ok {
					extendedAfter = true
				}
			case 4:
				var ks []string
				for _, k := range keysOf[i] {
					if r.P(1, 2) {
						ks = append(ks, k)
					}
				}
				kept := ks
				if r.P(1, 3) {
					// keys the receiver does not have select nothing
					has := map[string]bool{}
					for _, k := range keysOf[i] {
						has[k] = true
					}
					for _, k := range helperKeys {
						if !has[k] && r.P(1, 2) {
							ks = append(ks, k)
						}
					}
				}
				h := hop{kind: "pick", i: i, keys: ks, asMap: r.P(1, 3)}
				if r.P(1, 3) {
					h.argv = mixedArgs(r, ks)
				}
				ops = append(ops, h)
				derivedFrom[len(keysOf)] = i
				keysOf = append(keysOf, kept)
			case 5:
				var ks, rest []string
				for _, k := range keysOf[i] {
					if r.P(1, 3) {
						ks = append(ks, k)
					} else {
						rest = append(rest, k)
					}
				}
				if r.P(1, 4) {
					ks = append(ks, "zz") // omitting a key that is not there is harmless
				}
				h := hop{kind: "omit", i: i, keys: ks, asMap: r.P(1, 3)}
				if r.P(1, 3) {
					h.argv = mixedArgs(r, ks)
				}
				ops = append(ops, h)
				derivedFrom[len(keysOf)] = i
				keysOf = append(keysOf, rest)
			case 6:
				fs := mkFields()
				ops = append(ops, hop{kind: "extend", i: i, fields: fs, asMap: r.P(1, 2)})
				derivedFrom[len(keysOf)] = i
				keysOf = append(keysOf, union(keysOf[i], keysFrom(fs)))
			case 7:
				j := r.Intn(len(keysOf))
				ops = append(ops, hop{kind: "merge", i: i, j: j})
				derivedFrom[len(keysOf)] = i
				keysOf = append(keysOf, union(keysOf[i], keysOf[j]))
				if r.P(1, 2) {
					// x.Merge(y, z) in ONE call: must be (x merged with y) merged with z
					k := r.Intn(len(keysOf) - 1)
					tmp := len(keysOf) - 1
					ops = append(ops, hop{kind: "merge3b", i: i, j: j, k: k, tmp: tmp})
					derivedFrom[len(keysOf)] = i
					keysOf = append(keysOf, union(keysOf[tmp], keysOf[k]))
				}
			}
		}
		items := []*sx.Node{sx.I(int64(c))}
		for _, o := range ops {
			items = append(items, o.sx())
		}
		lines = append(lines, sx.T("helpers", items...).String())
		progs = append(progs, ops)
		nontriv = append(nontriv, len(derivedFrom) >= 2 && extendedAfter)
	}
	models, err := runDriver(driver, lines)
	if err != nil {
		return nil, err
	}
	distinct := map[string]bool{}
	for c, ops := range progs {
		m, err := sx.Parse(models[c])
		if err != nil || m.Tag() != "res" {
			sum.addMismatch("C16", Mismatch{Case: lines[c], Model: models[c], What: "driver could not run the program"})
			continue
		}
		want := sx.L(m.List[2:]...).String()
		for _, mode := range []struct{ usePosts, warm bool }{{false, false}, {true, false}, {false, true}, {true, true}} {
			usePosts := mode.usePosts
			sum.Evaluations++
			got, pn := runHelperProgram(ops, usePosts, mode.warm)
			what := "Tests"
			if usePosts {
				what = "PostTransforms"
			}
			if mode.warm {
				what += ", every object executed after each step"
			}
			if pn != "" {
				sum.addViolation("C16", Mismatch{Case: lines[c], What: "program panicked (" + what + "): " + pn})
				continue
			}
			if got != want {
				sum.addMismatch("C16", Mismatch{Case: lines[c], Impl: got, Model: want, What: "schema objects are not what the set semantics says (" + what + ")"})
				// the same PostTransforms in ANOTHER ORDER than they were declared in (C12)
				if usePosts {
					if g, err1 := sx.Parse(got); err1 == nil {
						if w, err2 := sx.Parse(want); err2 == nil && len(g.List) == len(w.List) {
							for k := range g.List {
								if len(g.List[k].List) != 2 || len(w.List[k].List) != 2 {
									continue
								}
								gs, ws := g.List[k].List[1].String(), w.List[k].List[1].String()
								gl, wl := []string{}, []string{}
								for _, x := range g.List[k].List[1].List {
									gl = append(gl, x.String())
								}
								for _, x := range w.List[k].List[1].List {
									wl = append(wl, x.String())
								}
								sort.Strings(gl)
								sort.Strings(wl)
								if gs != ws && strings.Join(gl, " ") == strings.Join(wl, " ") {
									sum.addMismatch("C12", Mismatch{Case: lines[c], Impl: got, Model: want, What: fmt.Sprintf("schema object %d runs its PostTransforms in another order than they were declared in (%s)", k, what)})
									break
								}
							}
						}
					}
				}
				// a schema object that runs FEWER field schemas or tests than it declares skips constraints (C01)
				if g, err1 := sx.Parse(got); err1 == nil {
					if w, err2 := sx.Parse(want); err2 == nil && len(g.List) == len(w.List) {
						for k := range g.List {
							missing := false // a declared test / transform that the object does not run (another one may run in its place)
							if len(g.List[k].List) == 2 && len(w.List[k].List) == 2 {
								ran := map[string]int{}
								for _, x := range g.List[k].List[1].List {
									ran[x.String()]++
								}
								for _, x := range w.List[k].List[1].List {
									if ran[x.String()] == 0 {
										missing = true
									}
									ran[x.String()]--
								}
							}
							if len(g.List[k].List) == 2 && len(w.List[k].List) == 2 &&
								(missing || len(g.List[k].List[0].List) < len(w.List[k].List[0].List) || len(g.List[k].List[1].List) < len(w.List[k].List[1].List)) {
								sum.addMismatch("C01", Mismatch{Case: lines[c], Impl: got, Model: want, What: fmt.Sprintf("schema object %d runs fewer field schemas / tests than it declares: a declared constraint is skipped because of an earlier builder call (%s)", k, what)})
								break
							}
						}
					}
				}
			}
		}
		if nontriv[c] && !distinct[lines[c]] {
			distinct[lines[c]] = true
			sum.Nontrivial++
		}
		sum.Hist[fmt.Sprintf("ops_%d", len(ops))]++
		if len(sum.Samples) < 3 && nontriv[c] {
			sum.Samples = append(sum.Samples, lines[c]+" => "+want)
		}
	}
	return sum, nil
}
