package main

// S-dyn (C06): a zoo of Go dynamic values and documents through every front end, on matching
// (schema, destination) pairs, under recover. For a matching pair no input may make Parse panic.

import (
	"encoding/json"
	"errors"
	"fmt"
	"math"
	"math/big"
	"net"
	"net/http"
	"net/url"
	"os"
	"strings"
	"time"

	z "github.com/Oudwins/zog"
	zi "github.com/Oudwins/zog/internals"
	"github.com/Oudwins/zog/parsers/zjson"
	"github.com/Oudwins/zog/zenv"
	"github.com/Oudwins/zog/zhttp"

	"verif/harness/internal/rng"
)

type dNamedMap map[string]any
type dNamedStrMap map[string]string
type dNamedBoolMap map[string]bool
type dNamedIntMap map[string]int
type dNamedFloatMap map[string]float64
type dNamedAnyMapMap map[string]dNamedMap
type dNamedStr string
type dNamedInt int
type dInner struct {
	City string `zog:"town" json:"j_city"`
	zip  string
	Tags []string
}
type dInput struct {
	Name  string
	name  string
	Age   int
	inner dInner
	Inner dInner
	Ptr   *dInner
	any   any
}
type dEmbInner struct{ Name string }
type dEmbedded struct {
	*dEmbInner
	Age int
}
type dEmbeddedVal struct {
	dEmbInner
	Age int
}

// value-receiver Stringer / error: calling the method through a nil pointer panics unless guarded (fmt guards it)
type dStringer struct{ s string }

func (d dStringer) String() string { return "S:" + d.s }

type dErrVal struct{ s string }

func (d dErrVal) Error() string { return "E:" + d.s }

// pointer-receiver Stringer that dereferences its receiver
type dPtrStringer struct{ s string }

func (d *dPtrStringer) String() string { return "P:" + d.s }

type dEmptyTag struct {
	A string `zog:""`
	B int    `json:""`
}
type dDest struct {
	Name  string
	Age   int
	Ok    bool
	When  time.Time
	Tags  []string
	Inner struct {
		City string `zog:"town" json:"j_city"`
		Zip  string
		Tags []string
	}
	Ptr                                              *dInner
	List                                             []struct{ A int }
	E                                                dEmptyTag
	Abcdefghijklmnopqrstuvwxyzabcdefghijklmnopqrstuv int
	Ébène                                            string
}

func dynSchema() *z.StructSchema {
	return z.Struct(z.Schema{
		"name":  z.String().Required().Min(2),
		"age":   z.Int().GT(0),
		"ok":    z.Bool(),
		"when":  z.Time(),
		"tags":  z.Slice(z.String().Min(1)),
		"inner": z.Struct(z.Schema{"city": z.String().Required(), "zip": z.String(), "tags": z.Slice(z.String())}),
		"ptr":   z.Ptr(z.Struct(z.Schema{"City": z.String(), "Tags": z.Slice(z.String())})),
		"Name":  z.String(),
		"list":  z.Slice(z.Struct(z.Schema{"a": z.Int().Required()})),
		"e":     z.Struct(z.Schema{"a": z.String().Min(5), "b": z.Int()}),
		"abcdefghijklmnopqrstuvwxyzabcdefghijklmnopqrstuv": z.Int().Required(),
		"Ébène": z.String(),
	})
}

// dynSchemaPre: the same record with every field behind a Preprocess function that hands its input on unchanged
func dynSchemaPre() *z.StructSchema {
	pass := func(v any, ctx z.Ctx) (any, error) { return v, nil }
	return z.Struct(z.Schema{
		"name":  z.Preprocess(pass, z.String().Required().Min(2)),
		"age":   z.Preprocess(pass, z.Int().GT(0)),
		"ok":    z.Preprocess(pass, z.Bool()),
		"when":  z.Preprocess(pass, z.Time()),
		"tags":  z.Preprocess(pass, z.Slice(z.Preprocess(pass, z.String().Min(1)))),
		"inner": z.Preprocess(pass, z.Struct(z.Schema{"city": z.String().Required(), "zip": z.String(), "tags": z.Slice(z.String())})),
		"ptr":   z.Preprocess(pass, z.Ptr(z.Struct(z.Schema{"City": z.String(), "Tags": z.Slice(z.String())}))),
		"list":  z.Slice(z.Preprocess(pass, z.Struct(z.Schema{"a": z.Int().Required()}))),
	})
}

func dynZoo() []any {
	var nilPtr *dInput
	var nilMap map[string]any
	var nilNamed dNamedMap
	var nilSlice []any
	var nilFactory zi.DpFactory
	pp := &dInput{Name: "x"}
	ppp := &pp
	ch := make(chan int)
	long := strings.Repeat("k", 40)
	var nilInner *dInner
	var nilInput *dInput
	pNilInput := &nilInput
	var nilTime *time.Time
	var nilDur *time.Duration
	var nilIP *net.IP
	var nilStringer *dStringer
	var nilErrVal *dErrVal
	var nilPtrStringer *dPtrStringer
	var nilURL *url.URL
	var nilBig *big.Int
	dur := 3 * time.Second
	out := []any{
		// typed nils (and non-nil values) of types with String() / Error() methods, alone and inside records
		nilFactory, map[string]any{"inner": nilFactory, "ptr": nilFactory, "list": []any{nilFactory}}, // a typed-nil data-provider factory
		nilTime, nilDur, nilIP, nilStringer, nilErrVal, nilPtrStringer, nilURL, nilBig, &dur, dStringer{"v"}, &dStringer{"p"}, dErrVal{"v"}, &dErrVal{"p"}, &dPtrStringer{"p"},
		net.IPv4(1, 2, 3, 4), big.NewInt(7), json.Number("12"), json.Number("zz"), []byte("bytes"), url.Values{"name": {"x"}}, errors.New("an error"),
		map[string]any{"name": nilTime, "when": nilTime, "age": nilDur, "ok": nilStringer, "tags": []any{nilStringer, nilErrVal, nilIP}, "Name": nilPtrStringer, "Ébène": nilErrVal},
		map[string]any{"name": nilStringer, "inner": map[string]any{"town": nilErrVal, "zip": nilDur}, "list": []any{map[string]any{"a": nilBig}}},
		map[string]fmt.Stringer{"name": nilStringer, "Name": nilTime}, map[string]error{"name": nilErrVal}, []fmt.Stringer{nilStringer, nilDur},
		// pointers whose INNER pointer is nil, at depth 2 and 3, top level and nested
		&nilInput, &pNilInput, map[string]any{"inner": &nilInner, "ptr": &nilInner, "e": &nilInput},
		// embedded struct pointers (nil and non-nil) promoting a schema key
		dEmbedded{Age: 3}, &dEmbedded{Age: 3}, dEmbedded{dEmbInner: &dEmbInner{Name: "n"}}, dEmbeddedVal{}, map[string]any{"inner": dEmbedded{}, "list": []any{dEmbedded{}}},
		nil, nilPtr, nilMap, nilNamed, nilSlice, pp, ppp, &ppp,
		map[string]any{}, map[string]any{"name": "bob", "age": 3, "inner": map[string]any{"town": "x"}},
		dNamedMap{"name": "bob", "inner": dNamedMap{"town": "x"}}, dNamedStrMap{"name": "bob"},
		map[string]dNamedStr{"name": "bob"}, map[string]dNamedInt{"age": 3}, map[string]int{"age": 3}, map[string]bool{"ok": true},
		map[string]float64{"age": math.NaN()}, map[string]string{"name": "a", "age": "zz", "when": "zz", "ok": "zz"},
		map[int]any{1: 2}, map[dNamedStr]any{"name": "x"}, map[string][]string{"tags": {"a"}}, map[string]map[string]any{"inner": {"town": 1}},
		map[string]*int{"age": nil}, map[string]chan int{"age": ch}, map[any]any{"name": "x"},
		dInput{Name: "n", name: "hidden", Age: 2}, &dInput{Name: "n"}, dEmptyTag{A: "x"}, struct{}{}, struct{ name string }{"x"}, struct{ Name chan int }{ch},
		"zz", "", "   ", 17, -1, 3.5, math.NaN(), math.Inf(1), math.Inf(-1), true, ch, func() {}, []any{1, "a", nil}, []string{"a"}, [2]int{1, 2},
		time.Now(), time.Time{}, &time.Time{}, complex(1, 2), uint64(math.MaxUint64), int8(-3), uintptr(1), "\xff\xfe", strings.Repeat("x", 1<<16),
		map[string]any{"name": "\xff\xfe", "age": math.MaxInt64, "when": math.MaxInt64, "tags": []any{nil, 1, "\xff", []any{}, map[string]any{}},
			"inner": "not a map", "ptr": 17, "list": []any{nil, 1, map[string]any{"a": "zz"}, map[string]any{}}, "e": map[string]any{"": "x"},
			long: "zz", "Ébène": 1},
		map[string]any{"name": nil, "age": nil, "ok": nil, "when": nil, "tags": nil, "inner": nil, "ptr": nil, "list": nil, "e": nil},
		map[string]any{"inner": dInput{}, "ptr": &dInner{zip: "z"}, "list": []dInner{{}}, "e": dEmptyTag{A: "abc"}, "tags": "scalar"},
		map[string]any{"inner": map[string]any{"town": []any{1}}, "e": map[string]any{"a": "x", "b": "zz"}, "when": "2024-01-02T03:04:05Z", "age": "9223372036854775808", "ok": 2},
		map[string]any{"tags": []any{strings.Repeat("a", 1000)}, "list": make([]any, 200)},
	}
	// every Go numeric kind (and named ones), at the edges of its range, alone, in records and in typed slices
	type dNamedI64 int64
	type dNamedF32 float32
	nums := []any{int(7), int8(math.MinInt8), int8(math.MaxInt8), int16(math.MinInt16), int16(math.MaxInt16), int32(math.MinInt32), int32(math.MaxInt32), int64(math.MinInt64), int64(math.MaxInt64), int64(30),
		uint(0), uint(math.MaxUint), uint8(200), uint16(math.MaxUint16), uint32(math.MaxUint32), uint64(math.MaxInt64), uint64(math.MaxInt64 + 1), uintptr(0),
		float32(12.5), float32(math.MaxFloat32), float32(math.Inf(1)), float32(math.NaN()), float32(1e19), float64(math.MaxFloat64), math.SmallestNonzeroFloat64, math.Inf(-1), math.NaN(), math.Copysign(0, -1), float64(1 << 63), -float64(1 << 63),
		complex64(1), complex128(complex(math.NaN(), 1)), dNamedI64(5), dNamedF32(2.5), dNamedInt(math.MaxInt), time.Duration(math.MaxInt64), time.Month(13), json.Number("1e400"), big.NewFloat(1.5)}
	out = append(out, nums...)
	for _, x := range nums {
		out = append(out, map[string]any{"name": x, "age": x, "ok": x, "when": x, "tags": []any{x}, "list": []any{map[string]any{"a": x}}, "inner": map[string]any{"town": x, "tags": x}})
	}
	out = append(out, []int64{1, math.MaxInt64}, []int32{1}, []uint8{1, 2}, []float32{1.5}, []uint64{math.MaxUint64}, map[string]int64{"age": 30}, map[string]uint{"age": 1}, map[string]float32{"age": 1.5},
		map[string]any{"tags": []int64{1, 2}, "list": []map[string]int64{{"a": 1}}}, [3]int{1, 2, 3}, [1]string{"a"}, map[string]any{"tags": [2]string{"a", "b"}})
	// named map types over every element kind the providers know, filled, empty and nil, alone / nested / behind pointers / in lists
	var nilBoolMap dNamedBoolMap
	for _, m := range []any{dNamedBoolMap{"ok": true}, dNamedBoolMap{}, nilBoolMap, dNamedIntMap{"age": 3}, dNamedIntMap{}, dNamedFloatMap{"age": 1.5}, dNamedStrMap{"name": "bob"}, dNamedStrMap{},
		dNamedAnyMapMap{"inner": {"town": "x"}}, map[string]bool{"ok": true}, map[string]float64{}, &dNamedBoolMap{"ok": false}} {
		out = append(out, m, map[string]any{"inner": m, "ptr": m, "list": []any{m}, "e": m}, []any{m}, &m)
	}
	// deep nesting
	deep := map[string]any{"town": "x"}
	for i := 0; i < 200; i++ {
		deep = map[string]any{"inner": deep}
	}
	out = append(out, deep)
	return out
}

func dynJSONDocs() []string {
	deep := strings.Repeat(`{"inner":`, 500) + `{}` + strings.Repeat(`}`, 500)
	return []string{`{}`, `[]`, `1`, `null`, `"s"`, `true`, ``, ` `, `{`, `{"name"`, `{"name":}`, `{"name":"bob"}`, `{"name":"bob","age":3,"ok":true,"when":"2024-01-02T03:04:05Z","tags":["a"],"inner":{"j_city":"x"},"ptr":{"City":"c"},"list":[{"a":1}],"e":{"":"x"}}`,
		`{"name":null,"age":null,"inner":null,"ptr":null,"list":null,"tags":null}`, `{"name":1e400}`, `{"age":1e400}`, `{"age":-0}`, `{"age":1.5e300}`, `{"age":"9223372036854775808"}`,
		`{"inner":[]}`, `{"inner":1}`, `{"ptr":[]}`, `{"list":{}}`, `{"list":[null,1,"a",{},[]]}`, `{"tags":{"a":1}}`, `{"tags":[[],{},null]}`, "{\"name\":\"\xff\"}", `{"name":"\ud800"}`, `{"\u0000":1}`,
		`{"abcdefghijklmnopqrstuvwxyzabcdefghijklmnopqrstuv":"zz"}`, `{"e":{"":""}}`, deep, `{"name":"a"} trailing`, `{"name":"a"}{"name":"b"}`, strings.Repeat("[", 10000)}
}

func streamDyn(seed uint64, n int) (*Summary, error) {
	sum := newSummary("dyn", seed)
	sum.Rule = "zoo of ~100 Go dynamic values (nil and typed nils incl. nil pointers of types with value-receiver String()/Error() methods, pointer chains, named and unnamed maps with every key/element kind, structs with unexported fields and empty tags, channels, functions, NaN/Inf, huge numbers, invalid UTF-8, 200-deep nesting, long strings) and ~35 JSON documents (incl. {}, non-objects, truncated, 500-deep, invalid UTF-8) through Parse / zjson / zhttp / zenv (incl. ~400 hostile query / form parameter NAMES: schema keys decorated with negative, signed, huge, nested and malformed indexes, dots, brackets; ~300 hostile environment VALUES: lone / unbalanced quotes, control bytes, separators, expansions, very long) on matching (schema, destination) pairs incl. a 48-byte schema key, a non-ASCII key and empty tags, plus random mutations of the zoo, each also with every field behind a Preprocess function that hands its input on unchanged; exhaustive over the zoo; non-trivial = every case; distinct = distinct (front end, value)"
	schema := dynSchema()
	prims := []func(v any) (string, any){
		func(v any) (string, any) { var d string; return "String", z.String().Required().Min(1).Parse(v, &d) },
		func(v any) (string, any) { var d int; return "Int", z.Int().GT(1).Parse(v, &d) },
		func(v any) (string, any) { var d int32; return "Int32", z.Int32().Parse(v, &d) },
		func(v any) (string, any) { var d float32; return "Float32", z.Float32().Parse(v, &d) },
		func(v any) (string, any) { var d float64; return "Float64", z.Float64().Parse(v, &d) },
		func(v any) (string, any) { var d bool; return "Bool", z.Bool().Parse(v, &d) },
		func(v any) (string, any) { var d time.Time; return "Time", z.Time().Parse(v, &d) },
		func(v any) (string, any) { var d []string; return "Slice", z.Slice(z.String()).Parse(v, &d) },
		func(v any) (string, any) { var d []dDest; return "SliceStruct", z.Slice(dynSchema()).Parse(v, &d) },
		func(v any) (string, any) { var d *dDest; return "PtrStruct", z.Ptr(dynSchema()).Parse(v, &d) },
		func(v any) (string, any) { var d *int; return "PtrInt", z.Ptr(z.Int()).NotNil().Parse(v, &d) },
		func(v any) (string, any) {
			var d int
			return "CustomInt", z.CustomFunc(func(p *int, ctx z.Ctx) bool { return *p > 0 }).Parse(v, &d)
		},
	}
	pass := func(v any, ctx z.Ctx) (any, error) { return v, nil }
	prims = append(prims,
		func(v any) (string, any) {
			var d []int
			return "Slice(Pre(Int))", z.Slice(z.Preprocess(pass, z.Int())).Parse([]any{v, 1}, &d)
		},
		func(v any) (string, any) {
			var d []string
			return "Slice(Pre(String))", z.Slice(z.Preprocess(pass, z.String())).Parse([]any{v}, &d)
		},
		func(v any) (string, any) {
			var d [][]string
			return "Slice(Pre(Slice))", z.Slice(z.Preprocess(pass, z.Slice(z.String()))).Parse([]any{v}, &d)
		},
		func(v any) (string, any) {
			var d []*int
			return "Slice(Pre(Ptr))", z.Slice(z.Preprocess(pass, z.Ptr(z.Int()))).Parse([]any{v}, &d)
		},
		func(v any) (string, any) {
			var d []dDest
			return "Slice(Pre(Struct))", z.Slice(z.Preprocess(pass, dynSchema())).Parse([]any{v}, &d)
		},
	)
	// slice-level tests over element types Go cannot compare with == (lists of lists, structs holding slices)
	type dTagged struct {
		Name string
		Tags []string
	}
	prims = append(prims,
		func(v any) (string, any) {
			var d [][]string
			return "Slice(Slice).Contains", z.Slice(z.Slice(z.String())).Contains([]string{"dev"}).Min(1).Parse(v, &d)
		},
		func(v any) (string, any) {
			var d [][]string
			return "Slice(Slice).Contains in a list", z.Slice(z.Slice(z.String())).Contains([]string{"dev"}).Parse([]any{v, []any{"dev"}, []any{}}, &d)
		},
		func(v any) (string, any) {
			var d []dTagged
			s := z.Slice(z.Struct(z.Schema{"name": z.String(), "tags": z.Slice(z.String())})).Contains(dTagged{Name: "owner", Tags: []string{"x"}})
			return "Slice(Struct).Contains", s.Parse([]any{v, map[string]any{"name": "owner", "tags": []any{"x"}}, map[string]any{"name": "guest"}}, &d)
		},
		func(v any) (string, any) {
			var d []*dTagged
			s := z.Slice(z.Ptr(z.Struct(z.Schema{"name": z.String(), "tags": z.Slice(z.String())}))).Contains(&dTagged{Name: "owner"})
			return "Slice(Ptr(Struct)).Contains", s.Parse([]any{v, map[string]any{"name": "owner"}}, &d)
		},
	)
	schemaPre := dynSchemaPre()
	guard := func(what string, f func()) {
		sum.Evaluations++
		sum.Nontrivial++
		defer func() {
			if r := recover(); r != nil {
				sum.addViolation("C06", Mismatch{Case: what, What: fmt.Sprintf("Parse panicked: %v", r)})
				sum.Hist["panic"]++
			}
		}()
		f()
	}
	zoo := dynZoo()
	for i, v := range zoo {
		desc := fmt.Sprintf("zoo[%d] %T", i, v)
		guard("Struct.Parse "+desc, func() { var d dDest; schema.Parse(v, &d) })
		guard("Struct(Preprocess fields).Parse "+desc, func() { var d dDest; schemaPre.Parse(v, &d) })
		guard("Struct.Validate-after-parse "+desc, func() { var d dDest; schema.Parse(v, &d); schema.Validate(&d) })
		for _, p := range prims {
			p := p
			guard("prim "+desc, func() { name, _ := p(v); _ = name })
		}
	}
	for i, doc := range dynJSONDocs() {
		desc := fmt.Sprintf("json[%d] %.60q", i, doc)
		guard("zjson Struct "+desc, func() { var d dDest; schema.Parse(zjson.Decode(strings.NewReader(doc)), &d) })
		guard("zjson Ptr(Struct) "+desc, func() { var d *dDest; z.Ptr(schema).Parse(zjson.Decode(strings.NewReader(doc)), &d) })
	}
	// requests without a body (http.NewRequest(method, url, nil): r.Body == nil), every method and content type
	for _, m := range []string{"GET", "POST", "PUT", "DELETE"} {
		for _, ct := range []string{"", "application/json", "application/x-www-form-urlencoded", "text/plain"} {
			m, ct := m, ct
			guard("zhttp request without a body "+m+" "+ct, func() {
				req, _ := http.NewRequest(m, "http://x/y?name=bob", nil)
				if ct != "" {
					req.Header.Set("Content-Type", ct)
				}
				var d dDest
				schema.Parse(zhttp.Request(req), &d)
			})
		}
	}
	// hostile parameter NAMES through the query and form front ends: every schema key with index-like, bracketed,
	// dotted, empty and very long decorations, alone and next to the plain parameter
	for _, key := range []string{"name", "age", "tags", "inner", "list", "ok", "when"} {
		for _, deco := range []string{"[]", "[0]", "[1]", "[-1]", "[-0]", "[+1]", "[00]", "[x]", "[", "]", "[][]", "[0][1]", "[99999999999999999999]", "[1023]", "[1024]", "[ 1]", "[1 ]", "[-9223372036854775808]",
			".", ".a", "..", "[0].a", "[].a", "%5B0%5D", "[\x00]", "[" + strings.Repeat("9", 400) + "]", ""} {
			for _, alsoPlain := range []bool{false, true} {
				q := url.Values{}
				q.Add(key+deco, "3")
				q.Add(key+deco, "zz")
				if alsoPlain {
					q.Add(key, "1")
				}
				enc := q.Encode()
				guard("zhttp query parameter named "+key+deco, func() {
					req, _ := http.NewRequest("GET", "http://x/y?"+enc, nil)
					var d dDest
					schema.Parse(zhttp.Request(req), &d)
				})
				guard("zhttp form parameter named "+key+deco, func() {
					req, _ := http.NewRequest("POST", "http://x/y", strings.NewReader(enc))
					req.Header.Set("Content-Type", "application/x-www-form-urlencoded")
					var d dDest
					schema.Parse(zhttp.Request(req), &d)
					var pd *dDest
					z.Ptr(schema).Parse(zhttp.Request(req), &pd)
				})
			}
		}
	}
	// environment
	for _, kv := range [][2]string{{"name", "bob"}, {"age", "zz"}, {"when", "\xff"}, {"tags", " a , b "}, {"Ébène", "x"}, {"abcdefghijklmnopqrstuvwxyzabcdefghijklmnopqrstuv", "9"}} {
		os.Setenv(kv[0], kv[1])
		guard("zenv "+kv[0], func() { var d dDest; schema.Parse(zenv.NewDataProvider(), &d) })
		os.Unsetenv(kv[0])
	}
	// hostile environment VALUES: quotes, lone and unbalanced, control bytes, separators, very long values
	for _, key := range []string{"name", "age", "ok", "when", "tags", "Ébène"} {
		for _, val := range []string{"\"", "'", " \" ", "\"\"", "''", "\"a", "a\"", "'a\"", "\"'", "`", "=", "==", "a=b", ",", ",,", " , ", ";", "\\", "\\n", "$", "${name}", "$(x)", "%", "%zz", "#", "\x01", "\x7f",
			"\xff\xfe", "\u00a0", "\u2028", "-", "+", ".", "e", "0x", "1e", "1e999999", "-0", "+-1", strings.Repeat("9", 5000), strings.Repeat("\"", 3), "true ", " false", "T", "2024-13-45", "0001-01-01T00:00:00Z"} {
			key, val := key, val
			guard(fmt.Sprintf("zenv %s=%q", key, val), func() {
				os.Setenv(key, val)
				defer os.Unsetenv(key)
				var d dDest
				schema.Parse(zenv.NewDataProvider(), &d)
				var pd *dDest
				z.Ptr(schema).Parse(zenv.NewDataProvider(), &pd)
			})
		}
	}
	// random mutations: nest zoo values into the record at random keys
	r := rng.New(seed)
	keys := []string{"name", "age", "ok", "when", "tags", "inner", "ptr", "list", "e", "abcdefghijklmnopqrstuvwxyzabcdefghijklmnopqrstuv", "Ébène", "town", "a", "", "unknown"}
	for i := 0; i < n; i++ {
		m := map[string]any{}
		for k := r.Range(1, 5); k > 0; k-- {
			v := zoo[r.Intn(len(zoo))]
			if r.P(1, 3) {
				v = []any{v, zoo[r.Intn(len(zoo))]}
			}
			if r.P(1, 4) {
				v = map[string]any{rng.Pick(r, keys): v}
			}
			m[rng.Pick(r, keys)] = v
		}
		guard(fmt.Sprintf("random record %d (seed %d)", i, seed), func() { var d dDest; schema.Parse(m, &d) })
		guard(fmt.Sprintf("random record %d (seed %d), fields behind a pass-through Preprocess", i, seed), func() { var d dDest; schemaPre.Parse(m, &d) })
	}
	if len(sum.Samples) == 0 {
		sum.Samples = []string{"Struct.Parse zoo[10] main.dNamedMap", "zjson Ptr(Struct) json[0] \"{}\"", "random record 0"}
	}
	sum.Exhaustive = true
	return sum, nil
}
