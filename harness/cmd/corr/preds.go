package main

// S-preds: every built-in test on subject x parameter grids — exhaustive over short strings on a
// boundary alphabet, lengths n-1/n/n+1, numbers around the parameter, equal instants in different
// zones — compared with the Lean predicates; URL and Match (external matchers) are compared with the
// standard library called directly.

import (
	"fmt"
	"math"
	"net/url"
	"regexp"
	"strings"
	"time"

	z "github.com/Oudwins/zog"

	"verif/harness/internal/eng"
	"verif/harness/internal/rng"
	"verif/harness/internal/sx"
)

// runOneTest builds a single-test schema of the right kind and reports (passed, issue code, params).
func runOneTest(kind string, t eng.TestSpec, subj eng.D, elemKind string) (pass bool, iss eng.Iss, panicked string) {
	var n *eng.Node
	if kind == "slice" && elemKind == "ptrint" {
		n = &eng.Node{Kind: "slice", Elem: &eng.Node{Kind: "ptr", Elem: &eng.Node{Kind: "prim", PK: "int"}}, Tests: []eng.TestSpec{t}}
	} else if kind == "slice" {
		n = &eng.Node{Kind: "slice", Elem: &eng.Node{Kind: "prim", PK: elemKind}, Tests: []eng.TestSpec{t}}
	} else {
		n = &eng.Node{Kind: "prim", PK: kind, Tests: []eng.TestSpec{t}}
	}
	c := &eng.Case{Mode: "v", Schema: n, Dest: subj}
	// blank / zero subjects are "absent" for Validate: hand them in as the Default so that the test runs
	if kind != "slice" && isZeroD(subj) {
		d := subj
		n.Dflt = &d
	}
	if kind == "slice" && len(subj.L) == 0 {
		d := subj
		in := eng.V{K: "l"}
		n.SliceDfltD = &d
		n.SliceDfltIn = &in
	}
	res := eng.Run(c)
	if res.Panic != "" {
		return false, eng.Iss{}, res.Panic
	}
	for k, l := range res.Issues {
		if k == "$first" {
			continue
		}
		for _, i := range l {
			return false, i, ""
		}
	}
	return true, eng.Iss{}, ""
}

func isZeroD(d eng.D) bool {
	switch d.K {
	case "s":
		return d.S == ""
	case "i":
		return d.I == 0
	case "f":
		return d.F == 0
	case "b":
		return !d.B
	case "t":
		return d.T.IsZero() && d.T.Location() == time.UTC
	}
	return false
}

var predAlphabet = []string{"/", "0", "9", ":", "@", "A", "Z", "[", "`", "a", "z", "{", "é", "日", "😀", " ", "-", "."}

func shortStrings(maxLen int, alphabet []string) []string {
	out := []string{""}
	level := []string{""}
	for l := 1; l <= maxLen; l++ {
		var next []string
		for _, p := range level {
			for _, a := range alphabet {
				next = append(next, p+a)
			}
		}
		out = append(out, next...)
		level = next
	}
	return out
}

func streamPreds(seed uint64, n int, driver string, tier string) (*Summary, error) {
	sum := newSummary("preds", seed)
	maxLen := 2
	if n > 20000 {
		maxLen = 3
	}
	sum.Rule = fmt.Sprintf("every built-in test: strings exhaustive up to length %d over an 18-symbol alphabet containing the ASCII range edges (/ 0 9 : @ A Z [ ` a z {) and 2/3/4-byte runes (for UUID and Email also a valid subject with every position replaced by every ASCII byte and by runes that case / width folding relates to ASCII: ſ K ı İ µ ß Å ａ Ａ ０ ...), and, for the character-class tests, every 2-byte rune and the 3- / 4-byte runes whose low byte sits on an edge of an ASCII class), x parameters (lengths 0..4, prefixes/substrings from the alphabet, OneOf sets); numbers at parameter-1/parameter/parameter+1 incl. NaN, +-0, +-Inf; times equal in different zones, and a 12 x 12 grid of bounds x values on both sides of the int64-nanosecond range (years 1 .. 9999); slices of length 0..4; plus %d random; non-trivial = every case (each decides one predicate on one subject); distinct = distinct case line", maxLen, n)
	r := rng.New(seed)
	type pc struct {
		kind, elem string
		t          eng.TestSpec
		subj       eng.D
	}
	var cases []pc
	id := 0
	mk := func(name string) eng.TestSpec { id++; return eng.TestSpec{ID: id, Name: name} }
	// strings
	subjects := shortStrings(maxLen, predAlphabet)
	subjects = append(subjects, "123e4567-e89b-12d3-a456-426614174000", "123E4567-E89B-12D3-A456-426614174000", "123e4567-e89b-12d3-a456-42661417400", "123e4567e89b12d3a456426614174000",
		"g23e4567-e89b-12d3-a456-426614174000", "123e4567-e89b-12d3-a456-426614174000 ", "a@b.co", "a@b", "a@b..co", "@b.co", "a@", "a b@c.d", "a@-b.co", "a@b-.co", "a.b+c@d-e.fg", "é@b.co",
		"a@"+string(make([]byte, 0)), "a@b.c"+fmt.Sprint(1e10), "x@"+repeat("a", 63)+".co", "x@"+repeat("a", 64)+".co", "hello world", "Hello, World!")
	var strTests []eng.TestSpec
	for _, k := range []int64{0, 1, 2, 3, 4, 5} {
		for _, nm := range []string{"min", "max", "len"} {
			t := mk(nm)
			t.N = k
			strTests = append(strTests, t)
		}
		t := mk("len")
		t.N = k
		t.Not = true
		strTests = append(strTests, t)
	}
	for _, a := range []string{"", "0", "A", "a", "é", "日", "a0", "zz", "/", "😀", "A/"} {
		for _, nm := range []string{"prefix", "suffix", "contains"} {
			t := mk(nm)
			t.S = a
			strTests = append(strTests, t)
			t2 := mk(nm)
			t2.S = a
			t2.Not = true
			strTests = append(strTests, t2)
		}
	}
	for _, nm := range []string{"upper", "digit", "special", "uuid", "email"} {
		strTests = append(strTests, mk(nm))
		t := mk(nm)
		t.Not = true
		strTests = append(strTests, t)
	}
	for _, set := range [][]string{{}, {"a"}, {"", "A"}, {"é", "0", "zz"}} { // (the empty enum admits nothing)
		t := mk("oneof")
		for _, s := range set {
			t.Args = append(t.Args, eng.D{K: "s", S: s})
		}
		strTests = append(strTests, t)
		t2 := t
		id++
		t2.ID = id
		t2.Not = true
		strTests = append(strTests, t2)
	}
	for _, t := range strTests {
		for _, s := range subjects {
			cases = append(cases, pc{"str", "", t, eng.D{K: "s", S: s}})
		}
	}
	// the character-class tests decide on CODE POINTS: every 2-byte rune, and the 3- / 4-byte runes whose low
	// byte sits on an edge of an ASCII class (U+0141 has the low byte of 'A', U+0130 that of '0', U+0121 that of '!')
	{
		var runes []rune
		for r := rune(0x80); r < 0x800; r++ {
			runes = append(runes, r)
		}
		edges := []rune{0x20, 0x21, 0x2F, 0x30, 0x39, 0x3A, 0x40, 0x41, 0x5A, 0x5B, 0x60, 0x61, 0x7A, 0x7B, 0x7E, 0x7F}
		for hi := rune(0x08); hi <= 0xFF; hi++ {
			if hi >= 0xD8 && hi <= 0xDF {
				continue // surrogates are not characters
			}
			for _, lo := range edges {
				runes = append(runes, hi<<8|lo)
			}
		}
		for _, lo := range edges {
			runes = append(runes, 0x1F600|lo, 0x10000|lo)
		}
		for _, t := range strTests {
			if t.Name != "upper" && t.Name != "digit" && t.Name != "special" {
				continue
			}
			for _, r := range runes {
				cases = append(cases, pc{"str", "", t, eng.D{K: "s", S: "a" + string(r) + "b"}})
			}
		}
	}
	// UUID / Email: a valid subject with every position replaced by every ASCII byte (control bytes included)
	for _, t := range strTests {
		var base string
		switch t.Name {
		case "uuid":
			base = "123e4567-e89b-12d3-A456-42661417400f"
		case "email":
			base = "ab.c+d@e-f.gh"
		default:
			continue
		}
		for pos := 0; pos < len(base); pos++ {
			for b := 0; b < 128; b++ {
				if byte(b) == base[pos] {
					continue
				}
				cases = append(cases, pc{"str", "", t, eng.D{K: "s", S: base[:pos] + string(rune(b)) + base[pos+1:]}})
			}
			// runes that case folding, width folding or compatibility mappings relate to ASCII letters and digits
			for _, ru := range []rune{'\u017f', '\u212a', '\u0131', '\u0130', '\u00b5', '\u00df', '\u212b', '\uff41', '\uff21', '\uff10', '\u00ff', '\u03a3', '\u03c2', '\u01c5', '\u0660', '\u2460', '\u00aa'} {
				cases = append(cases, pc{"str", "", t, eng.D{K: "s", S: base[:pos] + string(ru) + base[pos+1:]}})
			}
		}
	}
	// numbers
	intParams := []int64{-1, 0, 1, 5, math.MaxInt64, math.MinInt64, 1 << 31}
	for _, kind := range []string{"int", "i32", "i64"} {
		for _, p := range intParams {
			if kind == "i32" && (p > math.MaxInt32 || p < math.MinInt32) {
				continue
			}
			for _, op := range []string{"eq", "lt", "lte", "gt", "gte"} {
				t := mk("cmp")
				t.Op = op
				t.Arg = eng.D{K: "i", NK: kind, I: p}
				for _, d := range []int64{-1, 0, 1} {
					v := p + d
					if (d > 0 && v < p) || (d < 0 && v > p) { // overflow
						continue
					}
					if kind == "i32" && (v > math.MaxInt32 || v < math.MinInt32) {
						continue
					}
					cases = append(cases, pc{kind, "", t, eng.D{K: "i", NK: kind, I: v}})
				}
			}
		}
		t := mk("oneof")
		t.Args = []eng.D{{K: "i", NK: kind, I: 1}, {K: "i", NK: kind, I: -3}}
		for _, v := range []int64{1, -3, 0, 2} {
			cases = append(cases, pc{kind, "", t, eng.D{K: "i", NK: kind, I: v}})
		}
		te := mk("oneof") // the empty enum admits nothing
		te.Args = []eng.D{}
		for _, v := range []int64{1, 0} {
			cases = append(cases, pc{kind, "", te, eng.D{K: "i", NK: kind, I: v}})
		}
	}
	fl := []float64{0, math.Copysign(0, -1), 1, -1, 1.5, math.Nextafter(1.5, 2), math.Nextafter(1.5, 1), math.NaN(), math.Inf(1), math.Inf(-1), 1e300, 5e-324}
	for _, p := range fl {
		for _, op := range []string{"eq", "lt", "lte", "gt", "gte"} {
			t := mk("cmp")
			t.Op = op
			t.Arg = eng.D{K: "f", NK: "f64", F: p}
			for _, v := range fl {
				cases = append(cases, pc{"f64", "", t, eng.D{K: "f", NK: "f64", F: v}})
			}
		}
	}
	// bool
	for _, op := range []string{"true", "false", "eq"} {
		for _, b := range []bool{true, false} {
			t := mk("booleq")
			t.Op = op
			t.Arg = eng.D{K: "b", B: op == "true" || (op == "eq" && b)}
			for _, v := range []bool{true, false} {
				cases = append(cases, pc{"bool", "", t, eng.D{K: "b", B: v}})
			}
		}
	}
	// time: instants; the same instant in another zone
	base := time.Date(2024, 5, 6, 7, 8, 9, 0, time.UTC)
	zone := time.FixedZone("X", 3*3600)
	for _, op := range []string{"gt", "lt", "eq"} {
		for _, p := range []time.Time{base, base.In(zone)} {
			t := mk("tcmp")
			t.Op = op
			t.Arg = eng.D{K: "t", T: p}
			for _, v := range []time.Time{base, base.In(zone), base.Add(time.Nanosecond), base.Add(-time.Nanosecond), base.Add(time.Hour).In(zone), time.Unix(0, 0).UTC()} {
				cases = append(cases, pc{"time", "", t, eng.D{K: "t", T: v}})
			}
		}
	}
	// …and instants on both sides of the range an int64 of nanoseconds can hold (1677-09-21 .. 2262-04-11): the
	// full grid of bounds x values, against time.Time's own comparison
	far := []time.Time{time.Date(9999, 12, 31, 23, 59, 59, 0, time.UTC), time.Date(3000, 1, 1, 0, 0, 0, 0, time.UTC), time.Date(2262, 4, 11, 23, 47, 16, 854775807, time.UTC),
		time.Date(2262, 4, 11, 23, 47, 16, 854775808, time.UTC), time.Date(2262, 4, 12, 0, 0, 0, 0, zone), base, time.Unix(0, 0).UTC(), time.Date(1677, 9, 21, 0, 12, 43, 145224192, time.UTC),
		time.Date(1677, 9, 21, 0, 12, 43, 145224191, time.UTC), time.Date(1000, 6, 1, 12, 0, 0, 0, zone), time.Date(1, 1, 1, 0, 0, 0, 1, time.UTC), {}}
	for _, op := range []string{"gt", "lt", "eq"} {
		for _, p := range far {
			t := mk("tcmp")
			t.Op = op
			t.Arg = eng.D{K: "t", T: p}
			for _, v := range far {
				cases = append(cases, pc{"time", "", t, eng.D{K: "t", T: v}})
			}
		}
	}
	// slices
	for _, k := range []int64{0, 1, 2, 3, 4} {
		for _, nm := range []string{"min", "max", "len"} {
			t := mk(nm)
			t.N = k
			for l := 0; l <= 4; l++ {
				d := eng.D{K: "sl"}
				for i := 0; i < l; i++ {
					d.L = append(d.L, eng.D{K: "i", NK: "int", I: int64(i)})
				}
				cases = append(cases, pc{"slice", "int", t, d})
			}
		}
	}
	for _, x := range []int64{0, 2, 7} {
		t := mk("slcontains")
		t.Arg = eng.D{K: "i", NK: "int", I: x}
		for l := 0; l <= 3; l++ {
			d := eng.D{K: "sl"}
			for i := 0; i < l; i++ {
				d.L = append(d.L, eng.D{K: "i", NK: "int", I: int64(i)})
			}
			cases = append(cases, pc{"slice", "int", t, d})
		}
	}
	// slices of pointers: Contains is membership by DEEP equality (a distinct pointer to an equal value is a member)
	for _, x := range []int64{0, 2, 7} {
		t := mk("slcontains")
		xv := eng.D{K: "i", NK: "int", I: x}
		t.Arg = eng.D{K: "p", P: &xv}
		for l := 1; l <= 3; l++ {
			d := eng.D{K: "sl"}
			for i := 0; i < l; i++ {
				e := eng.D{K: "i", NK: "int", I: int64(i)}
				d.L = append(d.L, eng.D{K: "p", P: &e})
			}
			cases = append(cases, pc{"slice", "ptrint", t, d})
		}
	}
	// random strings against random string tests
	for i := 0; i < n; i++ {
		t := strTests[r.Intn(len(strTests))]
		l := r.Range(0, 8)
		s := ""
		for j := 0; j < l; j++ {
			s += rng.Pick(r, predAlphabet)
		}
		cases = append(cases, pc{"str", "", t, eng.D{K: "s", S: s}})
	}

	lines := make([]string, len(cases))
	impl := make([]string, len(cases))
	for i, c := range cases {
		ext := eng.NewExt()
		lines[i] = sx.T("pred", sx.I(int64(i)), c.t.Sx(ext), c.subj.Sx(), ext.Sx()).String()
		pass, iss, pn := runOneTest(c.kind, c.t, c.subj, c.elem)
		if pn != "" {
			impl[i] = "(panic " + pn + ")"
			continue
		}
		impl[i] = fmt.Sprintf("pass=%v", pass)
		if !pass {
			impl[i] += " code=" + iss.Code + " params=" + fmt.Sprint(iss.Params)
		}
	}
	models, err := runDriver(driver, lines)
	if err != nil {
		return nil, err
	}
	distinct := map[string]bool{}
	for i, c := range cases {
		sum.Evaluations++
		sum.Hist["test_"+c.t.Name]++
		m, err := sx.Parse(models[i])
		if err != nil || m.Tag() != "res" {
			sum.addMismatch("C20", Mismatch{Case: lines[i], Impl: impl[i], Model: models[i], What: "driver could not run the case"})
			continue
		}
		mpass := m.List[2].Atom == "1"
		mline := fmt.Sprintf("pass=%v", mpass)
		if !mpass {
			ps := [][2]string{}
			for _, kv := range m.List[4].List {
				ps = append(ps, [2]string{kv.List[0].Str(), kv.List[1].Str()})
			}
			mline += " code=" + m.List[3].Str() + " params=" + fmt.Sprint(ps)
		}
		if c.elem == "ptrint" {
			// the parameter's %v rendering is an address: compare pass/fail and the code only
			cut := func(s string) string {
				if k := strings.Index(s, " params="); k >= 0 {
					return s[:k]
				}
				return s
			}
			mline, impl[i] = cut(mline), cut(impl[i])
		}
		if mline != impl[i] {
			sum.FullLineMismatches++
			sum.addMismatch("C20", Mismatch{Case: lines[i], Impl: impl[i], Model: mline, What: "built-in test and model predicate disagree on " + c.t.Name})
			sum.addMismatch("C17", Mismatch{Case: lines[i], Impl: impl[i], Model: mline, What: "built-in test and model predicate disagree on " + c.t.Name})
		}
		if !distinct[lines[i]] {
			distinct[lines[i]] = true
			sum.Nontrivial++
		}
		if len(sum.Samples) < 3 && i%1013 == 7 {
			sum.Samples = append(sum.Samples, lines[i]+" => "+impl[i])
		}
	}
	// URL and Match: external matchers, compared with the standard library called directly
	re := regexp.MustCompile(`^a+b?$`)
	urlSubjects := append(append([]string{}, subjects[:min(len(subjects), 400)]...), "http://a.b", "https://x", "http://", "//a.b", "a.b", "mailto:x@y", "http://a b", "ftp://h/p?q#f", "http://[::1]:80", "%zz", "aab", "ab", "b", "aaa")
	// URL-shaped strings: an authority followed by every short string over the characters that delimit URL parts
	for _, base := range []string{"h://h", "http://example.com", "https://u:p@h:8443", "http://[::1]:80", "h:", "//h", "h://"} {
		for _, tail := range shortStrings(3, []string{"#", "?", "/", "%", "z", ":", "@", "[", "]", " ", "1", ".", "\\"}) {
			urlSubjects = append(urlSubjects, base+tail)
		}
	}
	for _, s := range urlSubjects {
		if s == "" {
			continue
		}
		var d string
		got := z.String().URL().Parse(s, &d) == nil
		u, err := url.Parse(s)
		want := err == nil && u.Scheme != "" && u.Host != ""
		if isBlankGo(s) {
			continue
		}
		sum.Evaluations++
		if got != want {
			sum.addViolation("C20", Mismatch{Case: "URL " + fmt.Sprintf("%q", s), What: fmt.Sprintf("URL test says %v, url.Parse with scheme and host says %v", got, want)})
		}
		if gotN := z.String().Not().URL().Parse(s, &d) == nil; gotN == want {
			sum.addViolation("C20", Mismatch{Case: "Not().URL " + fmt.Sprintf("%q", s), What: fmt.Sprintf("the negated URL test says %v, url.Parse with scheme and host says %v", gotN, want)})
		}
		gotM := z.String().Match(re).Parse(s, &d) == nil
		if gotM != re.MatchString(s) {
			sum.addViolation("C20", Mismatch{Case: "Match " + fmt.Sprintf("%q", s), What: "Match test disagrees with regexp.MatchString"})
		}
	}
	sum.Exhaustive = true
	return sum, nil
}

func isBlankGo(s string) bool {
	for _, r := range s {
		if !isGoSpaceRune(r) {
			return false
		}
	}
	return true
}

func repeat(s string, n int) string {
	out := ""
	for i := 0; i < n; i++ {
		out += s
	}
	return out
}
