package main

// S-http: zhttp.Request over methods x Content-Type values (with parameters) x body classes x query
// shapes, with a distinct sentinel value per source so that the parsed values reveal which source
// was read. The decoded form / JSON values handed to the model come from net/http and
// encoding/json called directly on a copy of the request — never through zog.

import (
	"encoding/json"
	"fmt"
	"net/http"
	"net/http/httptest"
	"net/url"
	"sort"
	"strings"

	"github.com/Oudwins/zog/zhttp"

	"verif/harness/internal/eng"
	"verif/harness/internal/rng"
	"verif/harness/internal/sx"
)

func urlValuesSx(v url.Values) *sx.Node {
	keys := make([]string, 0, len(v))
	for k := range v {
		keys = append(keys, k)
	}
	sort.Strings(keys)
	items := []*sx.Node{}
	for _, k := range keys {
		it := []*sx.Node{sx.S(k)}
		for _, x := range v[k] {
			it = append(it, sx.S(x))
		}
		items = append(items, sx.L(it...))
	}
	return sx.L(items...)
}

func jsonToV(x any) eng.V {
	switch t := x.(type) {
	case nil:
		return eng.VNil()
	case string:
		return eng.VStr(t)
	case float64:
		return eng.VF64(t)
	case bool:
		return eng.VBool(t)
	case []any:
		out := eng.V{K: "l"}
		for _, e := range t {
			out.L = append(out.L, jsonToV(e))
		}
		return out
	case map[string]any:
		out := eng.V{K: "o"}
		keys := make([]string, 0, len(t))
		for k := range t {
			keys = append(keys, k)
		}
		sort.Strings(keys)
		for _, k := range keys {
			out.O = append(out.O, eng.KV{K: k, V: jsonToV(t[k])})
		}
		return out
	}
	return eng.VNil()
}

var structRule = "struct_rule"

// optional: no field is required, so an empty record is a success unless the struct-level rule runs
// httpSchema: the root is a Struct (ptr 0), a Ptr(Struct) (1) or a Ptr(Struct).NotNil() (2)
func httpSchema(ptr int, optional ...bool) *eng.Node {
	wrap := func(st *eng.Node) *eng.Node {
		switch ptr {
		case 1:
			return &eng.Node{Kind: "ptr", Elem: st}
		case 2:
			return &eng.Node{Kind: "ptr", Elem: st, NotNil: &eng.TOpts{}, NNID: 8}
		}
		return st
	}
	req := eng.TOpts{}
	if len(optional) > 0 && optional[0] {
		st := &eng.Node{Kind: "struct", Fields: []eng.Field{
			{Key: "name", GoName: "Name", Tags: [][2]string{{"json", "j_name"}, {"form", "f_name"}, {"query", "q_name"}}, S: &eng.Node{Kind: "prim", PK: "str"}},
			{Key: "n", GoName: "N", Tags: [][2]string{{"zog", "num"}}, S: &eng.Node{Kind: "prim", PK: "int"}},
			{Key: "tags", GoName: "Tags", Tags: [][2]string{{"json", "tags"}, {"form", "tags[]"}, {"query", "tags[]"}}, S: &eng.Node{Kind: "slice", Elem: &eng.Node{Kind: "prim", PK: "str"}}},
			{Key: "one", GoName: "One", S: &eng.Node{Kind: "slice", Elem: &eng.Node{Kind: "prim", PK: "str"}}},
			// the shortest possible list parameter name: one byte before the [] suffix
			{Key: "two", GoName: "Two", Tags: [][2]string{{"form", "w[]"}, {"query", "w[]"}}, S: &eng.Node{Kind: "slice", Elem: &eng.Node{Kind: "prim", PK: "str"}}},
		}, Extra: []string{"Zextra"},
			Tests: []eng.TestSpec{{ID: 9, Name: "fn", N: 2, R: 2, Opts: eng.TOpts{Code: &structRule}}}}
		return wrap(st)
	}
	st := &eng.Node{Kind: "struct", Fields: []eng.Field{
		{Key: "name", GoName: "Name", Tags: [][2]string{{"json", "j_name"}, {"form", "f_name"}, {"query", "q_name"}}, S: &eng.Node{Kind: "prim", PK: "str", Req: &req, ReqID: 1}},
		{Key: "n", GoName: "N", Tags: [][2]string{{"zog", "num"}}, S: &eng.Node{Kind: "prim", PK: "int"}},
		{Key: "tags", GoName: "Tags", Tags: [][2]string{{"json", "tags"}, {"form", "tags[]"}, {"query", "tags[]"}}, S: &eng.Node{Kind: "slice", Elem: &eng.Node{Kind: "prim", PK: "str"}, Req: &req, ReqID: 2}},
		{Key: "one", GoName: "One", S: &eng.Node{Kind: "slice", Elem: &eng.Node{Kind: "prim", PK: "str"}}},
		// the shortest possible list parameter name: one byte before the [] suffix
		{Key: "two", GoName: "Two", Tags: [][2]string{{"form", "w[]"}, {"query", "w[]"}}, S: &eng.Node{Kind: "slice", Elem: &eng.Node{Kind: "prim", PK: "str"}}},
	}, Extra: []string{"Zextra"},
		// a struct-level rule that never holds: its issue must be there whenever the struct node runs at all
		Tests: []eng.TestSpec{{ID: 9, Name: "fn", N: 2, R: 2, Opts: eng.TOpts{Code: &structRule}}}}
	return wrap(st)
}

const d40Text = "D40 zjson hands the empty object {} over as a nil provider: a top-level Ptr(Struct) schema takes it for no record at all (nil pointer, no required issue), and a Struct root files the issues of the empty record under the zog tag / schema key instead of the json tag"

func streamHTTP(seed uint64, n int, driver string) (*Summary, error) {
	sum := newSummary("http", seed)
	sum.Rule = "product of 9 methods x 14 Content-Type values (bare, with parameters, with whitespace, unknown, empty) x 21 body classes (valid object, {}, truncated, array, number, null, empty, valid form, malformed form, object followed by text / a bracket / a second object, object followed by white space, forms with a single blank k[] value, objects surrounded by every kind of JSON white space incl. CR, and by bytes that are not JSON white space: BOM, VT, NBSP) x 11 query shapes (incl. the three-byte list parameter name w[]) (none, single, repeated, k[] list, other keys, a single blank / white-space k[] value, blank values) x {Struct, Ptr(Struct), Ptr(Struct).NotNil()} x {required fields, no required field} with a struct-level rule that never holds and a distinct sentinel per source, under a rotating formatter level (default, execution es/en, i18n es, i18n after a history of installations); exhaustive over the product when n is large, sampled otherwise; non-trivial = every case (each fixes one source choice); distinct = distinct case line"
	methods := []string{"GET", "HEAD", "POST", "PUT", "PATCH", "DELETE", "OPTIONS", "get", "CUSTOM"}
	ctypes := []string{"application/json", "application/json; charset=utf-8", "application/json;charset=utf-8", "application/json ;x=1", "application/x-www-form-urlencoded",
		"application/x-www-form-urlencoded; charset=UTF-8", "multipart/form-data; boundary=x", "text/plain", "", ";application/json", "Application/JSON", "application/jsonx", "application/json;", "text/plain; a=application/json"}
	bodies := []string{`{"j_name":"J","num":3,"tags":["tj1","tj2"],"one":"oj"}`, `{}`, `{"j_name":"J"`, `["j_name"]`, `17`, `null`, ``, `f_name=F&num=4&tags%5B%5D=tf1&tags%5B%5D=tf2&one=of`, `f_name=%zz&num=4`,
		`{"j_name":"J"} trailing`, `{"j_name":"J"}]`, `{"j_name":"J"}{"j_name":"K"}`, "{\"j_name\":\"J\",\"num\":7} \n\t ", `f_name=F&tags%5B%5D=`, `f_name=F&tags%5B%5D=++&one=`, `f_name=F&w%5B%5D=`, `f_name=F&w%5B%5D=v`,
		"\r\n{\"j_name\":\"J\",\"num\":8}\r\n", " \t\r\n {}", "\ufeff{\"j_name\":\"J\"}", "{\"j_name\":\"J\",\r\n\"num\":9}", "\x0b{}", "\u00a0{}"}
	queries := []string{"", "q_name=Q&num=5", "q_name=Q&q_name=Q2&one=a&one=b", "q_name=Q&tags%5B%5D=tq1", "zzz=1&f_name=QF&j_name=QJ", "q_name=Q&tags%5B%5D=", "q_name=Q&tags%5B%5D=%20&num=", "q_name=&tags%5B%5D=a&tags%5B%5D=", "q_name=Q&w%5B%5D=", "w%5B%5D=x&%5B%5D=y", "q_name=Q&w%5B%5D=a&w%5B%5D="}
	type combo struct {
		m, ct, body, q string
		ptr            int
		opt            bool // no field required: an empty record succeeds unless the struct-level rule runs
	}
	var combos []combo
	for _, m := range methods {
		for _, ct := range ctypes {
			for _, b := range bodies {
				for _, q := range queries {
					for _, p := range []int{0, 1, 2} {
						combos = append(combos, combo{m, ct, b, q, p, false}, combo{m, ct, b, q, p, true})
					}
				}
			}
		}
	}
	r := rng.New(seed)
	if n < len(combos) {
		r.Shuffle(len(combos), func(i, j int) { combos[i], combos[j] = combos[j], combos[i] })
		combos = combos[:n]
		// always there: the empty object and the empty / null bodies through the JSON route, on both schemas
		for _, b := range []string{`{}`, ``, `null`, "{\"j_name\":\"J\",\"num\":7} \n\t "} {
			for _, p := range []int{0, 1, 2} {
				for _, o := range []bool{false, true} {
					combos = append(combos, combo{"POST", "application/json", b, "", p, o}, combo{"PUT", "application/json; charset=utf-8", b, "q_name=Q", p, o})
				}
			}
		}
	} else {
		sum.Exhaustive = true
	}
	var lines []string
	var impls []string
	for i, c := range combos {
		mk := func() *http.Request {
			target := "/x"
			if c.q != "" {
				target += "?" + c.q
			}
			req := httptest.NewRequest("POST", target, strings.NewReader(c.body))
			req.Method = c.m
			if c.ct != "" {
				req.Header.Set("Content-Type", c.ct)
			}
			return req
		}
		schema := httpSchema(c.ptr, c.opt)
		cs := &eng.Case{ID: i, Mode: "p", Schema: schema, Dest: eng.SentinelZero(schema)}
		// the formatter level varies too: decode failures must get their message the way every issue does
		cs.Fmt = []string{"", "exec:es", "", "i18n:es", "i18nh:locale,-:lang=es,locale=en", "exec:en", ""}[i%7]
		rec := eng.NewRecorder()
		zs := eng.Build(schema, rec)
		res := eng.RunBuiltData(zs, cs, rec, zhttp.Request(mk()))
		// what the standard library says about this request, independently of zog
		q := mk().URL.Query()
		formS := sx.A("err")
		rf := mk()
		if err := rf.ParseForm(); err == nil {
			formS = sx.T("ok", urlValuesSx(rf.Form))
		}
		jsonS := sx.A("err")
		var m map[string]any
		// a well-formed body is ONE JSON value (json.Unmarshal rejects anything after it)
		if err := json.Unmarshal([]byte(c.body), &m); err == nil && m != nil {
			jsonS = sx.T("ok", jsonToV(map[string]any(m)).Sx())
		}
		ext := eng.NewExt()
		schemaS := schema.Sx(ext)
		// %v renderings of the values that can reach a String schema (lists from repeated params, JSON values)
		noteAll := func(v eng.V) { eng.NoteInput(v, ext) }
		for _, vs := range q {
			l := eng.V{K: "l"}
			for _, x := range vs {
				l.L = append(l.L, eng.VStr(x))
			}
			noteAll(l)
		}
		if rf.Form != nil {
			for _, vs := range rf.Form {
				l := eng.V{K: "l"}
				for _, x := range vs {
					l.L = append(l.L, eng.VStr(x))
				}
				noteAll(l)
			}
		}
		if m != nil {
			noteAll(jsonToV(map[string]any(m)))
		}
		ord := []*sx.Node{}
		for pth, ks := range res.Order {
			it := []*sx.Node{sx.S(pth)}
			for _, k := range ks {
				it = append(it, sx.S(k))
			}
			ord = append(ord, sx.L(it...))
		}
		items := []*sx.Node{sx.I(int64(i)), sx.S(c.m), sx.S(c.ct), urlValuesSx(q), formS, jsonS, schemaS, cs.Dest.Sx(), sx.T("order", ord...), ext.Sx()}
		if f := cs.FmtSx(); f != nil {
			items = append(items, f)
		}
		lines = append(lines, sx.T("http", items...).String())
		// which source did the real code read? revealed by the sentinel
		impls = append(impls, res.Sx(i).String())
	}
	models, err := runDriver(driver, lines)
	if err != nil {
		return nil, err
	}
	distinct := map[string]bool{}
	for i := range lines {
		sum.Evaluations++
		m, err := sx.Parse(models[i])
		if err != nil || m.Tag() != "res" {
			sum.addMismatch("C15", Mismatch{Case: lines[i], Impl: impls[i], Model: models[i], What: "driver could not run the case"})
			continue
		}
		src := m.List[2].Atom
		sum.Hist["source_"+src]++
		modelLine := sx.T("res", m.List[1], m.List[3], m.List[4], m.List[5]).String()
		iv, err := parseRes(impls[i])
		if err != nil {
			return nil, err
		}
		mv, err := parseRes(modelLine)
		if err != nil {
			return nil, err
		}
		if iv.panic {
			sum.addViolation("C15", Mismatch{Case: lines[i], Impl: impls[i], What: "zhttp request made Parse panic"})
			sum.addViolation("C06", Mismatch{Case: lines[i], Impl: impls[i], What: "zhttp request made Parse panic"})
			continue
		}
		ip := iv.issueKeys(true, "code,path,dtype,msg", nil) + " " + iv.dest.String()
		mp := mv.issueKeys(true, "code,path,dtype,msg", nil) + " " + mv.dest.String()
		if ip != mp && len(m.List) > 6 && m.List[6].Tag() == "alt" {
			// known finding D40: the empty JSON object at a top-level Ptr schema is taken for NO record (the pointer
			// stays nil, no field is looked at) instead of a record in which every field is absent
			a := m.List[6]
			av, err := parseRes(sx.T("res", m.List[1], a.List[1], a.List[2], a.List[3]).String())
			if err != nil {
				return nil, err
			}
			if ip == av.issueKeys(true, "code,path,dtype,msg", nil)+" "+av.dest.String() {
				for _, pid := range []string{"C15", "C14"} {
					sum.Known[pid] = appendUnique(sum.Known[pid], d40Text)
				}
				sum.Hist["known_D40_hits"]++
				continue
			}
		}
		if ip != mp {
			sum.addMismatch("C15", Mismatch{Case: lines[i], Impl: impls[i], Model: modelLine, What: fmt.Sprintf("model reads source %s; projection impl=%s model=%s", src, ip, mp)})
			// the record, presented through the front end the model (and the documentation) selects, gives another result (C14)
			sum.addMismatch("C14", Mismatch{Case: lines[i], Impl: impls[i], Model: modelLine, What: fmt.Sprintf("the %s source through zhttp does not give what the same record gives; projection impl=%s model=%s", src, ip, mp)})
			if iv.issueKeys(true, "path", nil) != mv.issueKeys(true, "path", nil) {
				// issues filed under other keys than the source's tags name (C10)
				sum.addMismatch("C10", Mismatch{Case: lines[i], Impl: impls[i], Model: modelLine, What: fmt.Sprintf("issue keys differ (source %s); projection impl=%s model=%s", src, ip, mp)})
			}
			if iv.noIssues() && !mv.noIssues() {
				// the implementation reports success where the reference semantics finds a violated test (C01, C02)
				sum.addMismatch("C01", Mismatch{Case: lines[i], Impl: impls[i], Model: modelLine, What: fmt.Sprintf("Parse reported no issue, the reference semantics does; projection impl=%s model=%s", ip, mp)})
				sum.addMismatch("C02", Mismatch{Case: lines[i], Impl: impls[i], Model: modelLine, What: fmt.Sprintf("Parse reported no issue, the reference semantics does; projection impl=%s model=%s", ip, mp)})
			}
			if iv.issueKeys(true, "code,path", nil) == mv.issueKeys(true, "code,path", nil) {
				// the same issues described differently (type, message): C11
				sum.addMismatch("C11", Mismatch{Case: lines[i], Impl: impls[i], Model: modelLine, What: fmt.Sprintf("messages differ; projection impl=%s model=%s", ip, mp)})
			}
		}
		if !distinct[lines[i]] {
			distinct[lines[i]] = true
			sum.Nontrivial++
		}
		if len(sum.Samples) < 3 && i%401 == 9 {
			sum.Samples = append(sum.Samples, lines[i]+" => "+impls[i])
		}
	}
	return sum, nil
}
