package main

// S-msg: every built-in test of every schema type (plus required / not_nil / coerce), forced to fail
// once, under every formatter level: global default, execution formatter (en, es), i18n with the
// language named in this execution's context (en, es, unknown -> default, none), and a test-level
// Message. Exhaustive over that product; compared on (code, dtype, params, message).

import (
	"fmt"
	"strings"
	"time"

	"verif/harness/internal/eng"
)

func msgCatalogue() []*eng.Case {
	var out []*eng.Case
	id := 0
	add := func(n *eng.Node, mode string, dest eng.D, in eng.V) {
		out = append(out, &eng.Case{Mode: mode, Schema: n, Dest: dest, Input: in})
	}
	tst := func(name string) eng.TestSpec { id++; return eng.TestSpec{ID: id, Name: name} }
	prim := func(pk string, t eng.TestSpec) *eng.Node {
		return &eng.Node{Kind: "prim", PK: pk, Tests: []eng.TestSpec{t}}
	}
	str := func(s string) eng.D { return eng.D{K: "s", S: s} }
	// string tests (failing subject "x" for positive, a matching subject for negated)
	type st struct {
		name string
		n    int64
		s    string
		args []string
		fail string // subject failing the positive test
		pass string // subject passing it (fails the negated test)
	}
	for _, s := range []st{{"min", 5, "", nil, "x", ""}, {"max", 1, "", nil, "xyz", ""}, {"len", 2, "", nil, "x", "xy"}, {"prefix", 0, "p", nil, "x", "px"}, {"suffix", 0, "p", nil, "x", "xp"},
		{"contains", 0, "p", nil, "x", "xpx"}, {"upper", 0, "", nil, "x", "X"}, {"digit", 0, "", nil, "x", "1"}, {"special", 0, "", nil, "x", "!"},
		{"uuid", 0, "", nil, "x", "123e4567-e89b-12d3-a456-426614174000"}, {"email", 0, "", nil, "x", "a@b.co"}, {"oneof", 0, "", []string{"a", "b"}, "x", "a"}} {
		t := tst(s.name)
		t.N, t.S = s.n, s.s
		for _, a := range s.args {
			t.Args = append(t.Args, str(a))
		}
		add(prim("str", t), "v", str(s.fail), eng.VNil())
		if s.pass != "" {
			t2 := t
			id++
			t2.ID = id
			t2.Not = true
			add(prim("str", t2), "v", str(s.pass), eng.VNil())
		}
	}
	// numbers
	for _, pk := range []string{"int", "f64"} {
		num := func(v float64) eng.D {
			if pk == "int" {
				return eng.D{K: "i", NK: "int", I: int64(v)}
			}
			return eng.D{K: "f", NK: "f64", F: v}
		}
		for _, c := range []struct {
			op   string
			p, v float64
		}{{"eq", 1, 2}, {"lt", 1, 2}, {"lte", 1, 2}, {"gt", 3, 2}, {"gte", 3, 2}} {
			t := tst("cmp")
			t.Op = c.op
			t.Arg = num(c.p)
			add(prim(pk, t), "v", num(c.v), eng.VNil())
		}
		t := tst("oneof")
		t.Args = []eng.D{num(1), num(3)}
		add(prim(pk, t), "v", num(2), eng.VNil())
		add(&eng.Node{Kind: "prim", PK: pk}, "p", num(0), eng.VStr("zz")) // coerce
		req := eng.TOpts{}
		id++
		add(&eng.Node{Kind: "prim", PK: pk, Req: &req, ReqID: id}, "p", num(0), eng.VNil())
	}
	// bool
	for _, op := range []string{"true", "false"} {
		t := tst("booleq")
		t.Op = op
		t.Arg = eng.D{K: "b", B: op == "true"}
		add(prim("bool", t), "p", eng.D{K: "b"}, eng.VBool(op != "true"))
	}
	add(&eng.Node{Kind: "prim", PK: "bool"}, "p", eng.D{K: "b"}, eng.VStr("zz"))
	// time
	t0 := time.Unix(1000, 0).UTC()
	for _, op := range []string{"gt", "lt", "eq"} {
		t := tst("tcmp")
		t.Op = op
		t.Arg = eng.D{K: "t", T: t0}
		v := t0
		if op == "eq" {
			v = t0.Add(time.Second)
		}
		add(prim("time", t), "v", eng.D{K: "t", T: v}, eng.VNil())
	}
	add(&eng.Node{Kind: "prim", PK: "time"}, "p", eng.D{K: "t", T: time.Time{}}, eng.VStr("zz"))
	// required for str / bool / time
	for _, pk := range []string{"str", "bool", "time"} {
		req := eng.TOpts{}
		id++
		n := &eng.Node{Kind: "prim", PK: pk, Req: &req, ReqID: id}
		add(n, "p", eng.ZeroD(n), eng.VNil())
	}
	// slices
	elem := &eng.Node{Kind: "prim", PK: "int"}
	one := eng.D{K: "sl", L: []eng.D{{K: "i", NK: "int", I: 1}}}
	for _, c := range []struct {
		name string
		n    int64
	}{{"min", 3}, {"max", 0}, {"len", 3}} {
		t := tst(c.name)
		t.N = c.n
		add(&eng.Node{Kind: "slice", Elem: elem, Tests: []eng.TestSpec{t}}, "v", one, eng.VNil())
	}
	tc := tst("slcontains")
	tc.Arg = eng.D{K: "i", NK: "int", I: 7}
	add(&eng.Node{Kind: "slice", Elem: elem, Tests: []eng.TestSpec{tc}}, "v", one, eng.VNil())
	req := eng.TOpts{}
	id++
	add(&eng.Node{Kind: "slice", Elem: elem, Req: &req, ReqID: id}, "p", eng.D{K: "sl"}, eng.VNil())
	// struct coerce; pointers not_nil for every inner type
	sn := &eng.Node{Kind: "struct", Fields: []eng.Field{{Key: "a", GoName: "A", S: &eng.Node{Kind: "prim", PK: "int"}}}}
	add(sn, "p", eng.ZeroD(sn), eng.VStr("zz"))
	for _, inner := range []*eng.Node{{Kind: "prim", PK: "str"}, {Kind: "prim", PK: "int"}, {Kind: "prim", PK: "bool"}, {Kind: "prim", PK: "time"},
		{Kind: "slice", Elem: elem}, sn} {
		nn := eng.TOpts{}
		id++
		pn := &eng.Node{Kind: "ptr", Elem: inner, NotNil: &nn, NNID: id}
		add(pn, "p", eng.D{K: "p"}, eng.VNil())
	}
	// z.CustomFunc schemas: a failing test (given a code) and a type mismatch (coerce)
	for _, ck := range []string{"int", "str"} {
		code := "custom"
		ct := tst("fn")
		ct.N, ct.R = 2, 2 // never passes
		ct.Opts.Code = &code
		cn := &eng.Node{Kind: "custom", CK: ck, CTest: ct}
		good, bad := eng.VInt(5), eng.VStr("zz")
		if ck == "str" {
			good, bad = eng.VStr("zz"), eng.VInt(5)
		}
		add(cn, "p", eng.ZeroD(cn), good)
		add(cn, "p", eng.ZeroD(cn), bad)
		// ...and through the schema's own Validate entry point
		add(cn, "v", eng.ZeroD(cn), eng.VNil())
	}
	// every top-level entry point builds its own execution context (and names the global formatter itself): the
	// remaining (schema kind, mode) pairs — Bool / Struct / Ptr in Validate, Preprocess in both modes
	{
		// (in Validate `false` is the absent value: only False() can fail there)
		tb := tst("booleq")
		tb.Op, tb.Arg = "false", eng.D{K: "b", B: false}
		add(prim("bool", tb), "v", eng.D{K: "b", B: true}, eng.VNil())
		t := tst("min")
		t.N = 5
		sv := &eng.Node{Kind: "struct", Fields: []eng.Field{{Key: "a", GoName: "A", S: prim("str", t)}}}
		add(sv, "v", eng.D{K: "st", FS: []eng.DF{{Name: "A", D: str("x")}}}, eng.VNil())
		nn := eng.TOpts{}
		id++
		pv := &eng.Node{Kind: "ptr", Elem: &eng.Node{Kind: "prim", PK: "int"}, NotNil: &nn, NNID: id}
		add(pv, "v", eng.D{K: "p"}, eng.VNil())
		t2 := tst("cmp")
		t2.Op, t2.Arg = "gt", eng.D{K: "i", NK: "int", I: 5}
		id++
		add(&eng.Node{Kind: "pre", PreKind: "atoi", PreID: id, Elem: prim("int", t2)}, "p", eng.D{K: "i", NK: "int"}, eng.VStr("3"))
		t3 := tst("cmp")
		t3.Op, t3.Arg = "gt", eng.D{K: "i", NK: "int", I: 5}
		id++
		add(&eng.Node{Kind: "pre", PreKind: "vid", PreID: id, Elem: prim("int", t3)}, "v", eng.D{K: "i", NK: "int", I: 3}, eng.VNil())
	}
	return out
}

func streamMsg(seed uint64, driver string) (*Summary, error) {
	sum := newSummary("msg", seed)
	sum.Rule = "every built-in test of every schema type incl. the Not() variants, required / not_nil (every inner type) / coerce, z.CustomFunc schemas (failing test, type mismatch), forced to fail once, x 13 formatter levels (incl. language values that are not strings) (global default, execution en/es, i18n none/en/es/unknown language, i18n after a HISTORY of installations with and without WithLangKey and a context naming languages under several keys) x {no test message, test-level Message}, plus every single-test case with a Params option of 2..4 parameters whose values hold each other's placeholders (3 formatter levels, each repeated 8 times); exhaustive over this product; non-trivial = every case (each produces exactly the issue under test); distinct = distinct case line"
	base := msgCatalogue()
	var cases []*eng.Case
	for _, c := range base {
		for _, f := range []string{"", "exec:en", "exec:es", "i18n:-", "i18n:en", "i18n:es", "i18n:fr",
			"i18nh:locale:locale=es", "i18nh:locale,-:lang=es,locale=en", "i18nh:-,locale:lang=en,locale=es", "i18nh:a,b,-:a=es,b=es", "i18nh:-:lang=~es", "i18nh:locale:locale=#7,lang=es"} {
			for _, withMsg := range []bool{false, true} {
				c2 := *c
				c2.Fmt = f
				if withMsg {
					n2 := *c.Schema
					if len(n2.Tests) == 1 {
						t := n2.Tests[0]
						m := "custom {{min}} message"
						if t.Name == "booleq" {
							continue // True()/False() take no options
						}
						t.Opts.Msg = &m
						n2.Tests = []eng.TestSpec{t}
					} else if n2.Req != nil {
						m := "custom required"
						o := eng.TOpts{Msg: &m}
						n2.Req = &o
					} else if n2.NotNil != nil {
						m := "custom not nil"
						o := eng.TOpts{Msg: &m}
						n2.NotNil = &o
					} else if n2.Kind == "custom" && c.Input.K == map[string]string{"int": "i", "str": "s"}[n2.CK] {
						m := "custom schema message"
						n2.CTest.Opts.Msg = &m
					} else {
						continue
					}
					c2.Schema = &n2
				}
				c2.ID = len(cases)
				cases = append(cases, &c2)
			}
		}
	}
	// the Params option replacing the test's own parameters by two to four parameters whose values hold each
	// other's placeholders (the test's own parameter name among them): the message must not depend on the order
	// in which a formatter walks the parameter map, for any number of parameters
	paramsFrom := len(cases)
	for _, c := range base {
		if len(c.Schema.Tests) != 1 || c.Schema.Tests[0].Name == "booleq" {
			continue
		}
		own := "a"
		for _, l := range eng.Run(c).Issues {
			for _, is := range l {
				if len(is.Params) > 0 {
					own = is.Params[0][0]
				}
			}
		}
		ring := [][2]string{{own, "{{z}}"}, {"z", "{{" + own + "}}"}, {"y", "{{z}}{{" + own + "}}"}, {"x", "{{y}}"}}
		for k := 2; k <= 4; k++ {
			for _, f := range []string{"", "exec:es", "i18n:es"} {
				c2 := *c
				c2.Fmt = f
				n2 := *c.Schema
				t := n2.Tests[0]
				t.Opts.HasParams = true
				t.Opts.Params = ring[:k]
				n2.Tests = []eng.TestSpec{t}
				c2.Schema = &n2
				c2.ID = len(cases)
				cases = append(cases, &c2)
			}
		}
	}
	lines := make([]string, len(cases))
	impls := make([]*eng.Result, len(cases))
	for i, c := range cases {
		impls[i] = eng.Run(c)
		lines[i] = c.Line(impls[i].Order)
		if i >= paramsFrom {
			// identical on every run (C09): the same call again and again
			first := impls[i].Sx(c.ID).String()
			for k := 0; k < 8; k++ {
				if again := eng.Run(c).Sx(c.ID).String(); again != first {
					for _, pid := range []string{"C09", "C11"} {
						sum.addViolation(pid, Mismatch{Case: lines[i], Impl: again, Model: first, What: "the same call gives another result when it is repeated (Impl: a later run, Model: the first run)"})
					}
					break
				}
			}
		}
	}
	models, err := runDriver(driver, lines)
	if err != nil {
		return nil, err
	}
	distinct := map[string]bool{}
	for i, c := range cases {
		sum.Evaluations++
		sum.Hist["fmt_"+c.Fmt]++
		implLine := impls[i].Sx(c.ID).String()
		parts := strings.SplitN(models[i], "\t", 2)
		modelLine := parts[len(parts)-1]
		iv, err := parseRes(implLine)
		if err != nil {
			return nil, err
		}
		mv, err := parseRes(modelLine)
		if err != nil {
			sum.addMismatch("C11", Mismatch{Case: lines[i], Impl: implLine, Model: models[i], What: "driver could not run the case"})
			continue
		}
		if iv.noIssues() || iv.panic {
			sum.addViolation("C11", Mismatch{Case: lines[i], Impl: implLine, What: "catalogue case did not produce its issue"})
			continue
		}
		ip, mp := iv.project("C11"), mv.project("C11")
		if ip != mp {
			sum.addMismatch("C11", Mismatch{Case: lines[i], Impl: implLine, Model: modelLine, What: "projection C11: impl=" + ip + " model=" + mp})
		}
		// direct oracle: message non-empty, no unresolved placeholder (unless the test's own message has one), code and type present
		for _, k := range iv.issues.List[1:] {
			for _, is := range k.List[1:] {
				code, dtype, msg := is.List[1].Str(), is.List[3].Str(), is.List[5].Str()
				own := strings.HasPrefix(msg, "custom ") || i >= paramsFrom
				if code == "" || dtype == "" || msg == "" || (!own && strings.Contains(msg, "{{")) {
					sum.addViolation("C11", Mismatch{Case: lines[i], Impl: implLine, What: fmt.Sprintf("issue not fully described: code=%q dtype=%q message=%q", code, dtype, msg)})
				}
			}
		}
		if !distinct[lines[i]] {
			distinct[lines[i]] = true
			sum.Nontrivial++
		}
		if len(sum.Samples) < 3 && i%97 == 3 {
			sum.Samples = append(sum.Samples, lines[i]+" => "+implLine)
		}
	}
	sum.Exhaustive = true
	return sum, nil
}
