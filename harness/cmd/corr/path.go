package main

// S-path: PathBuilder (random push/pop/render sequences), ErrsMap/ErrsList (random issue sequences),
// SanitizeMap/SanitizeList — the real internals against `render`, `toIssueMap`, `sanitizeMap`.

import (
	"fmt"
	"sort"

	z "github.com/Oudwins/zog"
	p "github.com/Oudwins/zog/internals"

	"verif/harness/internal/rng"
	"verif/harness/internal/sx"
)

func streamPath(seed uint64, n int, driver string) (*Summary, error) {
	sum := newSummary("path", seed)
	sum.Rule = "random PathBuilder op sequences (push key / push [i] / pop, <= 12 ops, keys incl. empty, dotted, bracketed and multi-byte ones) rendered after every op; random issue sequences (<= 8 issues over <= 4 paths incl. the root path) added to an ErrsMap and sanitized; non-trivial = path with >= 2 segments or map with >= 2 issues; distinct = distinct case line"
	r := rng.New(seed)
	var lines, impl []string
	segPool := []string{"a", "name", "[0]", "[12]", "x_1", "日本", "", "a.b", "[", "Zed", "$root", "k"}
	for i := 0; i < n; i++ {
		if i%2 == 0 {
			pb := p.NewPathBuilder()
			var stack []string
			ops := r.Range(1, 12)
			for j := 0; j < ops; j++ {
				if r.P(1, 4) && len(stack) > 0 {
					pb.Pop()
					stack = stack[:len(stack)-1]
				} else {
					s := rng.Pick(r, segPool)
					pb.Push(&s)
					stack = append(stack, s)
				}
				items := []*sx.Node{sx.I(int64(len(lines)))}
				for _, s := range stack {
					items = append(items, sx.S(s))
				}
				lines = append(lines, sx.T("path", items...).String())
				impl = append(impl, sx.T("res", sx.I(int64(len(impl))), sx.S(pb.String())).String())
			}
			pb.Free()
		} else {
			em := p.NewErrsMap()
			k := r.Range(0, 8)
			paths := []string{"", "a", "a.b", "xs[0]", "$root", "other"}
			items := []*sx.Node{sx.I(int64(len(lines)))}
			var all []*z.ZogIssue
			for j := 0; j < k; j++ {
				is := &z.ZogIssue{Code: rng.Pick(r, []string{"min", "required", "coerce", ""}), Path: rng.Pick(r, paths), Dtype: "string", Message: fmt.Sprintf("m%d", j)}
				em.Add(is.Path, is)
				all = append(all, is)
				items = append(items, sx.T("I", sx.S(is.Code), sx.S(is.Path), sx.S(is.Dtype), sx.L(), sx.S(is.Message)))
			}
			lines = append(lines, sx.T("imap", items...).String())
			// canonical map + sanitized map from the real helpers
			keys := []string{}
			for key := range em.M {
				keys = append(keys, key)
			}
			sort.Strings(keys)
			ks := []*sx.Node{}
			for _, key := range keys {
				it := []*sx.Node{sx.S(key)}
				for _, is := range em.M[key] {
					it = append(it, sx.T("I", sx.S(is.Code), sx.S(is.Path), sx.S(is.Dtype), sx.L(), sx.S(is.Message)))
				}
				ks = append(ks, sx.L(it...))
			}
			san := z.Issues.SanitizeMap(em.M)
			skeys := []string{}
			for key := range san {
				skeys = append(skeys, key)
			}
			sort.Strings(skeys)
			ss := []*sx.Node{}
			for _, key := range skeys {
				it := []*sx.Node{sx.S(key)}
				for _, m := range san[key] {
					it = append(it, sx.S(m))
				}
				ss = append(ss, sx.L(it...))
			}
			impl = append(impl, sx.T("res", sx.I(int64(len(impl))), sx.T("issues", ks...), sx.T("san", ss...)).String())
			// direct oracle: every issue exactly once outside $first, under the key of its path; $first = first
			cnt := 0
			for key, l := range em.M {
				if key == "$first" {
					continue
				}
				for _, is := range l {
					cnt++
					want := is.Path
					if want == "" {
						want = "$root"
					}
					if want != key {
						sum.addViolation("C10", Mismatch{Case: lines[len(lines)-1], What: fmt.Sprintf("issue with path %q filed under key %q", is.Path, key)})
					}
				}
			}
			if cnt != len(all) || (len(all) > 0 && (len(em.M["$first"]) != 1 || em.M["$first"][0] != all[0])) || (len(all) == 0 && em.M != nil) {
				sum.addViolation("C10", Mismatch{Case: lines[len(lines)-1], What: "issue map is not well-formed (count / $first)"})
			}
			em.Free()
		}
	}
	models, err := runDriver(driver, lines)
	if err != nil {
		return nil, err
	}
	distinct := map[string]bool{}
	for i := range lines {
		sum.Evaluations++
		if models[i] != impl[i] {
			sum.FullLineMismatches++
			sum.addMismatch("C10", Mismatch{Case: lines[i], Impl: impl[i], Model: models[i], What: "path / issue-map model and implementation disagree"})
		}
		n, _ := sx.Parse(lines[i])
		if len(n.List) >= 4 && !distinct[lines[i]] {
			distinct[lines[i]] = true
			sum.Nontrivial++
		}
		sum.Hist["kind_"+n.Tag()]++
		if len(sum.Samples) < 3 && i%211 == 5 {
			sum.Samples = append(sum.Samples, lines[i]+" => "+impl[i])
		}
	}
	return sum, nil
}
