package main

// S-pool (C07): a probe call must give the same result whatever happened before it — after dirty
// objects were planted in every recycled-object pool, and after random call histories with and
// without the Collect / SanitizeAndCollect helpers. The reference is the same probe on cleared pools.

import (
	"errors"
	"fmt"
	"runtime"
	"runtime/debug"
	"strings"

	z "github.com/Oudwins/zog"
	p "github.com/Oudwins/zog/internals"

	"verif/harness/internal/eng"
	"verif/harness/internal/rng"
)

func plantDirt() {
	for i := 0; i < 6; i++ {
		c := &p.ExecCtx{}
		c.Set(eng.LeakKey, "planted")
		c.Set("lang", "es")
		c.Fmter = func(e *p.ZogIssue, ctx p.Ctx) { e.SetMessage("STALE FORMATTER") }
		p.ExecCtxPool.Put(c)
	}
	for i := 0; i < 24; i++ {
		p.SchemaCtxPool.Put(&p.SchemaCtx{CanCatch: true, Exit: true, HasCaught: true, DType: "stale", Data: "stale", Test: &p.Test{IssueCode: "stale"}})
		p.ZogIssuePool.Put(&p.ZogIssue{Code: "stale", Path: "stale.path", Value: "stale", Dtype: "stale", Params: map[string]any{"stale": 1}, Message: "STALE MESSAGE", Err: errors.New("stale")})
	}
	for i := 0; i < 4; i++ {
		p.InternalIssueMapPool.Put(&p.ErrsMap{M: p.ZogIssueMap{"stale": {&p.ZogIssue{Code: "stale"}}}})
		p.InternalIssueListPool.Put(&p.ErrsList{List: p.ZogIssueList{&p.ZogIssue{Code: "stale"}}})
		pb := p.PathBuilder{"", "stale", "more"}
		p.PathBuilderPool.Put(&pb)
		sb := &strings.Builder{}
		sb.WriteString("STALE")
		p.StringBuilderPool.Put(sb)
	}
}

func probeLine(r *eng.Result, id int) string {
	s := r.Sx(id).String()
	if r.CtxLeak != "" {
		s += " ctxleak=" + r.CtxLeak
	}
	return s
}

func streamPool(seed uint64, n int) (*Summary, error) {
	sum := newSummary("pool", seed)
	sum.Rule = "probe = a random engine-stream case; (i) planted dirt: every exported pool pre-filled with objects whose every field holds stale values (context values incl. a language, catching flags, a formatter, issue fields, path segments), GOMAXPROCS(1) and GC off so that Get returns what was Put; (ii) random histories of 1..6 earlier calls, each optionally handed back through CollectMap/CollectList/SanitizeMapAndCollect/SanitizeListAndCollect/Collect; the probe must equal the same probe on cleared pools and its issues must be pairwise distinct objects; non-trivial = probe produces at least one issue or runs a callback; distinct = distinct probe line"
	old := runtime.GOMAXPROCS(1)
	defer runtime.GOMAXPROCS(old)
	gc := debug.SetGCPercent(-1)
	defer debug.SetGCPercent(gc)
	root := rng.New(seed)
	distinct := map[string]bool{}
	for i := 0; i < n; i++ {
		g := &eng.Gen{R: root.Fork(), NoPosts: i%3 == 0}
		c := g.Case(i)
		// reference: cleared pools. The visit order is random, so the comparison is on runs with equal orders.
		p.ClearPools()
		ref := eng.Run(c)
		refLine := probeLine(ref, i)
		line := c.Line(ref.Order)
		try := func(what string, prepare func()) {
			var got *eng.Result
			for k := 0; k < 40; k++ {
				p.ClearPools()
				prepare()
				got = eng.Run(c)
				if fmt.Sprint(got.Order) == fmt.Sprint(ref.Order) {
					break
				}
			}
			if fmt.Sprint(got.Order) != fmt.Sprint(ref.Order) {
				sum.Hist["skipped_order"]++
				return
			}
			sum.Evaluations++
			gl := probeLine(got, i)
			if gl != refLine {
				sum.addViolation("C07", Mismatch{Case: line, Impl: gl, Model: refLine, What: "probe result depends on " + what})
			}
			if got.RawMap != nil && (got.DistinctObjs != got.NonFirst || (got.NonFirst > 0 && !got.FirstAliased)) {
				sum.addViolation("C07", Mismatch{Case: line, Impl: gl, What: fmt.Sprintf("after %s the probe's issues are not pairwise distinct objects (%d objects for %d issues)", what, got.DistinctObjs, got.NonFirst)})
			}
		}
		try("planted pool contents", plantDirt)
		h := g.R.Fork()
		try("the earlier call history", func() {
			calls := h.Range(1, 6)
			for k := 0; k < calls; k++ {
				hg := &eng.Gen{R: h.Fork()}
				hc := hg.Case(k)
				hc.Fmt = rng.Pick(h, []string{"", "", "exec:es", "i18n:es"})
				r := eng.Run(hc)
				switch h.Intn(6) {
				case 0:
					if r.RawMap != nil {
						z.Issues.CollectMap(r.RawMap)
					}
				case 1:
					if r.RawMap != nil {
						z.Issues.SanitizeMapAndCollect(r.RawMap)
					}
				case 2:
					if r.RawList != nil {
						z.Issues.CollectList(r.RawList)
					}
				case 3:
					if r.RawList != nil {
						z.Issues.SanitizeListAndCollect(r.RawList)
					}
				case 4:
					for key, l := range r.RawMap {
						if key != "$first" && len(l) > 0 {
							z.Issues.Collect(l[0])
							break
						}
					}
				}
			}
		})
		nontriv := len(ref.Issues) > 0 || len(ref.Events) > 0
		if nontriv && !distinct[line] {
			distinct[line] = true
			sum.Nontrivial++
		}
		if len(sum.Samples) < 2 && nontriv {
			sum.Samples = append(sum.Samples, line+" => "+refLine)
		}
	}
	p.ClearPools()
	return sum, nil
}
