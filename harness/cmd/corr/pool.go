package main

// S-pool (C07): a probe call must give the same result whatever happened before it — after dirty
// objects were planted in every recycled-object pool, and after random call histories with and
// without the Collect / SanitizeAndCollect helpers. The reference is the same probe on cleared pools.

import (
	"errors"
	"fmt"
	"net/http/httptest"
	"reflect"
	"runtime"
	"runtime/debug"
	"sort"
	"strings"
	"sync"
	"time"

	"github.com/Oudwins/zog/parsers/zjson"
	"github.com/Oudwins/zog/zhttp"

	z "github.com/Oudwins/zog"
	p "github.com/Oudwins/zog/internals"

	"verif/harness/internal/eng"
	"verif/harness/internal/rng"
)

// plantDirt pre-fills every recycled-object pool with objects whose every settable field holds a stale
// value. The objects are obtained from the pools themselves and filled by reflection, so the harness
// does not name the pooled types' fields (it keeps building, and keeps planting dirt in fields added
// later, when those types are refactored).
func plantDirt() {
	plant := func(pool *sync.Pool, n int, extra func(o any)) {
		var objs []any
		for i := 0; i < n; i++ {
			objs = append(objs, pool.Get())
		}
		for _, o := range objs {
			dirtyAny(reflect.ValueOf(o), 2)
			if extra != nil {
				extra(o)
			}
			pool.Put(o)
		}
	}
	plant(&p.ExecCtxPool, 6, func(o any) {
		if c, ok := o.(interface{ Set(string, any) }); ok {
			c.Set(eng.LeakKey, "planted")
			c.Set("lang", "es")
		}
		if c, ok := o.(interface{ SetIssueFormatter(p.IssueFmtFunc) }); ok {
			c.SetIssueFormatter(func(e *p.ZogIssue, ctx p.Ctx) { e.SetMessage("STALE FORMATTER") })
		}
	})
	plant(&p.SchemaCtxPool, 24, nil)
	plant(&p.ZogIssuePool, 24, nil)
	plant(&p.InternalIssueMapPool, 4, nil)
	plant(&p.InternalIssueListPool, 4, nil)
	plant(&p.PathBuilderPool, 4, nil)
	plant(&p.StringBuilderPool, 4, func(o any) {
		if sb, ok := o.(*strings.Builder); ok {
			sb.WriteString("STALE")
		}
	})
}

// dirtyAny fills a pooled object (a pointer to a struct, slice or map) with stale content.
func dirtyAny(v reflect.Value, depth int) {
	if v.Kind() != reflect.Pointer || v.IsNil() {
		return
	}
	e := v.Elem()
	switch e.Kind() {
	case reflect.Struct:
		dirtyFields(e, depth)
	default:
		if e.CanSet() {
			if d, ok := staleValue(e.Type(), depth); ok {
				e.Set(d)
			}
		}
	}
}

// staleValue: a non-zero value of type t
func staleValue(t reflect.Type, depth int) (reflect.Value, bool) {
	switch t.Kind() {
	case reflect.Bool:
		return reflect.ValueOf(true).Convert(t), true
	case reflect.String:
		return reflect.ValueOf("stale").Convert(t), true
	case reflect.Int, reflect.Int32, reflect.Int64:
		return reflect.ValueOf(77).Convert(t), true
	case reflect.Interface:
		if t.NumMethod() == 0 {
			return reflect.ValueOf("stale"), true
		}
		if reflect.TypeOf(errors.New("")).Implements(t) {
			return reflect.ValueOf(errors.New("stale")), true
		}
	case reflect.Slice:
		if depth > 0 {
			if t.Elem().Kind() == reflect.String {
				// a path-like stack: leading "" then stale segments
				s := reflect.MakeSlice(t, 3, 3)
				s.Index(1).Set(reflect.ValueOf("stale").Convert(t.Elem()))
				s.Index(2).Set(reflect.ValueOf("more").Convert(t.Elem()))
				return s, true
			}
			if x, ok := staleValue(t.Elem(), depth-1); ok {
				s := reflect.MakeSlice(t, 1, 1)
				s.Index(0).Set(x)
				return s, true
			}
		}
	case reflect.Map:
		if depth > 0 && t.Key().Kind() == reflect.String {
			if x, ok := staleValue(t.Elem(), depth-1); ok {
				m := reflect.MakeMap(t)
				m.SetMapIndex(reflect.ValueOf("stale").Convert(t.Key()), x)
				return m, true
			}
		}
	case reflect.Pointer:
		if depth > 0 && t.Elem().Kind() == reflect.Struct && t.Elem().PkgPath() != "strings" && t.Elem().PkgPath() != "sync" {
			n := reflect.New(t.Elem())
			dirtyFields(n.Elem(), depth-1)
			return n, true
		}
	}
	return reflect.Value{}, false
}

// dirtyFields fills every settable field of a struct with a stale value.
func dirtyFields(v reflect.Value, depth int) {
	for i := 0; i < v.NumField(); i++ {
		f := v.Field(i)
		if !f.CanSet() {
			continue
		}
		if d, ok := staleValue(f.Type(), depth); ok {
			f.Set(d)
		}
	}
}

// ---- front-end calls whose issue comes from the data-provider factory (decode failures) ----

type decodeCall struct {
	front string // zjson | zhttp-json | zhttp-form
	body  string
	fmt   string
	ptr   bool
}

type decodeDest struct {
	Name string `json:"name"`
}

func (d decodeCall) run() z.ZogIssueMap {
	schema := z.Struct(z.Schema{"name": z.String().Required().Min(3)})
	c := &eng.Case{Fmt: d.fmt}
	opts, restore := c.ExecOpts()
	defer restore()
	var data any
	switch d.front {
	case "zjson":
		data = zjson.Decode(strings.NewReader(d.body))
	case "zhttp-json":
		req := httptest.NewRequest("POST", "/", strings.NewReader(d.body))
		req.Header.Set("Content-Type", "application/json")
		data = zhttp.Request(req)
	default:
		req := httptest.NewRequest("POST", "/", strings.NewReader(d.body))
		req.Header.Set("Content-Type", "application/x-www-form-urlencoded")
		data = zhttp.Request(req)
	}
	if d.ptr {
		var dst *decodeDest
		return z.Ptr(schema).Parse(data, &dst, opts...)
	}
	var dst decodeDest
	return schema.Parse(data, &dst, opts...)
}

func mapLine(m z.ZogIssueMap) string {
	keys := make([]string, 0, len(m))
	for k := range m {
		keys = append(keys, k)
	}
	sort.Strings(keys)
	var b strings.Builder
	for _, k := range keys {
		b.WriteString(k + "=[")
		for _, i := range m[k] {
			fmt.Fprintf(&b, "{%s|%s|%s|%v|%s|%v}", i.Code, i.Path, i.Dtype, i.Params, i.Message, i.Err != nil)
		}
		b.WriteString("];")
	}
	return b.String()
}

func genDecodeCall(r *rng.R) decodeCall {
	return decodeCall{
		front: rng.Pick(r, []string{"zjson", "zjson", "zhttp-json", "zhttp-form"}),
		body:  rng.Pick(r, []string{"null", "null", "{bad", "", "[]", `{"name":"ab"}`, `{"name":"abcd"}`, "name=%zz", "name=ab"}),
		fmt:   rng.Pick(r, []string{"", "", "exec:en", "exec:es", "i18n:es", "i18n:-"}),
		ptr:   r.P(1, 4),
	}
}

func probeLine(r *eng.Result, id int) string {
	s := r.Sx(id).String()
	if r.CtxLeak != "" {
		s += " ctxleak=" + r.CtxLeak
	}
	return s
}

// Two DIFFERENT struct types whose reflect.Type.String() is the same (handler-local types with one name):
// same field names at other positions and with other tags.
func sameNameFormA() any {
	type form struct {
		Name  string `zog:"full_name"`
		Email string
	}
	return &form{}
}

func sameNameFormB() any {
	type form struct {
		Email string `zog:"mail"`
		Name  string
	}
	return &form{}
}

// sameNameTypesProbe: one schema object used with destination type A and then with type B must treat B
// exactly as a fresh schema object does (returns a description of the difference, "" if none).
func sameNameTypesProbe() string {
	mk := func() *z.StructSchema {
		return z.Struct(z.Schema{"name": z.String().Required().Min(3), "email": z.String().Required().Contains("@")})
	}
	dataA := map[string]any{"full_name": "Ann", "email": "ann@example.com"}
	dataB := map[string]any{"mail": "bob@example.com", "name": "Bob"}
	run := func(s *z.StructSchema, data map[string]any, dest any) string {
		m := s.Parse(data, dest)
		return mapLine(m) + fmt.Sprintf(" %+v", reflect.ValueOf(dest).Elem().Interface())
	}
	for _, mode := range []string{"parse", "validate"} {
		shared := mk()
		var got, want string
		if mode == "parse" {
			run(shared, dataA, sameNameFormA())
			got = run(shared, dataB, sameNameFormB())
			want = run(mk(), dataB, sameNameFormB())
		} else {
			a, b1, b2 := sameNameFormA(), sameNameFormB(), sameNameFormB()
			shared.Parse(dataA, a)
			shared.Validate(a)
			fresh := mk()
			fresh.Parse(dataB, b1)
			fresh.Parse(dataB, b2)
			got = mapLine(shared.Validate(b1)) + fmt.Sprintf(" %+v", reflect.ValueOf(b1).Elem().Interface())
			want = mapLine(fresh.Validate(b2)) + fmt.Sprintf(" %+v", reflect.ValueOf(b2).Elem().Interface())
		}
		if got != want {
			return mode + ": after a call with another destination type of the same name: " + got + " ; a fresh schema object: " + want
		}
	}
	return ""
}

func streamPool(seed uint64, n int) (*Summary, error) {
	sum := newSummary("pool", seed)
	sum.Rule = "probe = a random engine-stream case; (i) planted dirt: every exported pool pre-filled with objects whose every field holds stale values (context values incl. a language, catching flags, a formatter, issue fields, path segments), GOMAXPROCS(1) and GC off so that Get returns what was Put; (ii) random histories of 1..6 earlier calls, each optionally handed back through CollectMap/CollectList/SanitizeMapAndCollect/SanitizeListAndCollect/Collect; the probe must equal the same probe on cleared pools and its issues must be pairwise distinct objects; non-trivial = probe produces at least one issue or runs a callback; distinct = distinct probe line"
	old := runtime.GOMAXPROCS(1)
	defer runtime.GOMAXPROCS(old)
	gc := debug.SetGCPercent(-1)
	defer debug.SetGCPercent(gc)
	root := rng.New(seed)
	distinct := map[string]bool{}
	sum.Evaluations++
	if diff := sameNameTypesProbe(); diff != "" {
		sum.addViolation("C07", Mismatch{Case: "Struct{name, email} parsed into handler-local `type form struct{Name `zog:\"full_name\"`; Email}` and then into another handler-local `type form struct{Email `zog:\"mail\"`; Name}`", What: "the result of a call depends on the destination type an EARLIER call with the same schema used", Impl: diff})
	}
	poolBalanceProbe(sum)
	nestedCallProbe(sum)
	for i := 0; i < n; i++ {
		if i%100 == 99 {
			runtime.GC() // the collector is off while a probe runs; collect between probes (every probe starts from cleared pools)
		}
		g := &eng.Gen{R: root.Fork(), NoPosts: i%3 == 0}
		c := g.Case(i)
		// reference: cleared pools. The visit order is random, so the comparison is on runs with equal orders.
		p.ClearPools()
		ref := eng.Run(c)
		refLine := probeLine(ref, i)
		line := c.Line(ref.Order)
		try := func(what string, prepare func()) {
			var got *eng.Result
			for k := 0; k < 40; k++ {
				p.ClearPools()
				prepare()
				got = eng.Run(c)
				if fmt.Sprint(got.Order) == fmt.Sprint(ref.Order) {
					break
				}
			}
			if fmt.Sprint(got.Order) != fmt.Sprint(ref.Order) {
				sum.Hist["skipped_order"]++
				return
			}
			sum.Evaluations++
			gl := probeLine(got, i)
			if gl != refLine {
				sum.addViolation("C07", Mismatch{Case: line, Impl: gl, Model: refLine, What: "probe result depends on " + what})
			}
			if got.RawMap != nil && (got.DistinctObjs != got.NonFirst || (got.NonFirst > 0 && !got.FirstAliased)) {
				sum.addViolation("C07", Mismatch{Case: line, Impl: gl, What: fmt.Sprintf("after %s the probe's issues are not pairwise distinct objects (%d objects for %d issues)", what, got.DistinctObjs, got.NonFirst)})
			}
		}
		try("planted pool contents", plantDirt)
		h := g.R.Fork()
		try("the earlier call history", func() {
			calls := h.Range(1, 6)
			for k := 0; k < calls; k++ {
				hg := &eng.Gen{R: h.Fork()}
				hc := hg.Case(k)
				hc.Fmt = rng.Pick(h, []string{"", "", "exec:es", "i18n:es"})
				r := eng.Run(hc)
				switch h.Intn(6) {
				case 0:
					if r.RawMap != nil {
						z.Issues.CollectMap(r.RawMap)
					}
				case 1:
					if r.RawMap != nil {
						z.Issues.SanitizeMapAndCollect(r.RawMap)
					}
				case 2:
					if r.RawList != nil {
						z.Issues.CollectList(r.RawList)
					}
				case 3:
					if r.RawList != nil {
						z.Issues.SanitizeListAndCollect(r.RawList)
					}
				case 4:
					for key, l := range r.RawMap {
						if key != "$first" && len(l) > 0 {
							z.Issues.Collect(l[0])
							break
						}
					}
				}
			}
		})
		nontriv := len(ref.Issues) > 0 || len(ref.Events) > 0
		if nontriv && !distinct[line] {
			distinct[line] = true
			sum.Nontrivial++
		}
		if len(sum.Samples) < 2 && nontriv {
			sum.Samples = append(sum.Samples, line+" => "+refLine)
		}
	}
	// ---- decode-failure calls: issues that come from a data-provider factory ----
	for i := 0; i < n; i++ {
		if i%100 == 99 {
			runtime.GC()
		}
		r := root.Fork()
		probe := genDecodeCall(r)
		p.ClearPools()
		want := mapLine(probe.run())
		p.ClearPools()
		type held struct {
			m    z.ZogIssueMap
			snap string
		}
		var live []held
		calls := r.Range(1, 5)
		desc := []string{}
		for k := 0; k < calls; k++ {
			var m z.ZogIssueMap
			if r.P(2, 3) {
				d := genDecodeCall(r)
				m = d.run()
				desc = append(desc, fmt.Sprintf("%+v", d))
			} else {
				hg := &eng.Gen{R: r.Fork()}
				res := eng.Run(hg.Case(k))
				m = res.RawMap
				desc = append(desc, "engine-case")
			}
			if m == nil {
				continue
			}
			if r.P(1, 3) {
				z.Issues.CollectMap(m)
				desc[len(desc)-1] += " +CollectMap"
			} else {
				live = append(live, held{m, mapLine(m)})
			}
		}
		got := probe.run()
		sum.Evaluations++
		caseDesc := fmt.Sprintf("history %v ; probe %+v", desc, probe)
		if gl := mapLine(got); gl != want {
			sum.addViolation("C07", Mismatch{Case: caseDesc, Impl: gl, Model: want, What: "a decode-failure probe depends on the earlier call history"})
		}
		// results the caller still holds: not aliased by the probe's issues, not modified by later calls
		for _, h := range live {
			if now := mapLine(h.m); now != h.snap {
				sum.addViolation("C07", Mismatch{Case: caseDesc, Impl: now, Model: h.snap, What: "a result still held by the caller was modified by a later call"})
			}
			for _, l := range h.m {
				for _, a := range l {
					for _, l2 := range got {
						for _, b := range l2 {
							if a == b {
								sum.addViolation("C07", Mismatch{Case: caseDesc, What: "the probe returned an issue object that an earlier, uncollected result still holds"})
							}
						}
					}
				}
			}
		}
		if !distinct[caseDesc] {
			distinct[caseDesc] = true
			sum.Nontrivial++
		}
	}
	p.ClearPools()
	return sum, nil
}

// poolBalanceProbe (C07, C08): every entry point of every schema kind, on cleared pools, one goroutine, GC off:
// after the call each pool must hold every object at most ONCE. An object that was put back twice would be
// handed to two executions at the same time later on.
func poolBalanceProbe(sum *Summary) {
	type ent struct {
		name string
		run  func()
	}
	type rec struct {
		Name string
		Tags []string
		When time.Time
	}
	strct := z.Struct(z.Schema{"name": z.String().Required().Min(3), "tags": z.Slice(z.String().Min(2)), "when": z.Time()})
	pass := func(v any, ctx z.Ctx) (any, error) { return v, nil }
	vpass := func(v *int, ctx z.Ctx) (int, error) { return *v, nil }
	ents := []ent{
		{"String.Parse", func() { var d string; z.String().Min(5).Parse("ab", &d); z.String().Parse("ok", &d) }},
		{"String.Validate", func() { d := "ab"; z.String().Min(5).Validate(&d) }},
		{"Int.Parse", func() { var d int; z.Int().GT(5).Parse("zz", &d); z.Int().Parse(3, &d) }},
		{"Int.Validate", func() { d := 1; z.Int().GT(5).Validate(&d) }},
		{"Float64.Parse", func() { var d float64; z.Float64().GT(5).Parse(1.5, &d) }},
		{"Float64.Validate", func() { d := 1.5; z.Float64().GT(5).Validate(&d) }},
		{"Int32.Validate", func() { d := int32(1); z.Int32().GT(5).Validate(&d) }},
		{"Bool.Parse", func() { var d bool; z.Bool().True().Parse("zz", &d); z.Bool().Parse(true, &d) }},
		{"Bool.Validate", func() { d := false; z.Bool().Required().Validate(&d) }},
		{"Time.Parse", func() { var d time.Time; z.Time().Parse("zz", &d); z.Time().Parse(time.Unix(5, 0), &d) }},
		{"Time.Validate", func() { d := time.Unix(5, 0); z.Time().After(time.Unix(9, 0)).Validate(&d); z.Time().Validate(&d) }},
		{"Slice.Parse", func() { var d []string; z.Slice(z.String().Min(2)).Min(3).Parse([]any{"a", "bb"}, &d) }},
		{"Slice.Validate", func() { d := []string{"a"}; z.Slice(z.String().Min(2)).Validate(&d) }},
		{"Struct.Parse", func() { var d rec; strct.Parse(map[string]any{"name": "x", "tags": []any{"a"}, "when": "zz"}, &d) }},
		{"Struct.Validate", func() { d := rec{Name: "x", Tags: []string{"a"}}; strct.Validate(&d) }},
		{"Ptr.Parse", func() {
			var d *rec
			z.Ptr(strct).NotNil().Parse(nil, &d)
			z.Ptr(strct).Parse(map[string]any{"name": "x"}, &d)
		}},
		{"Ptr.Validate", func() {
			d := &rec{Name: "x"}
			z.Ptr(strct).Validate(&d)
			var n *rec
			z.Ptr(strct).NotNil().Validate(&n)
		}},
		{"Custom.Parse", func() {
			var d int
			z.CustomFunc(func(p *int, ctx z.Ctx) bool { return *p > 5 }).Parse(1, &d)
			z.CustomFunc(func(p *int, ctx z.Ctx) bool { return true }).Parse("zz", &d)
		}},
		{"Custom.Validate", func() { d := 1; z.CustomFunc(func(p *int, ctx z.Ctx) bool { return *p > 5 }).Validate(&d) }},
		{"Preprocess.Parse", func() { var d any; z.Preprocess(pass, z.String().Min(5)).Parse("ab", &d) }},
		{"Preprocess.Validate", func() { d := 1; z.Preprocess(vpass, z.Int().GT(5)).Validate(&d) }},
	}
	pools := []struct {
		name string
		pool *sync.Pool
	}{{"ExecCtxPool", &p.ExecCtxPool}, {"SchemaCtxPool", &p.SchemaCtxPool}, {"InternalIssueListPool", &p.InternalIssueListPool}, {"InternalIssueMapPool", &p.InternalIssueMapPool},
		{"ZogIssuePool", &p.ZogIssuePool}, {"PathBuilderPool", &p.PathBuilderPool}}
	for _, e := range ents {
		sum.Evaluations++
		p.ClearPools()
		func() {
			defer func() { recover() }()
			e.run()
		}()
		for _, pl := range pools {
			seen := map[any]bool{}
			for k := 0; k < 12; k++ {
				o := pl.pool.Get()
				if seen[o] {
					sum.addViolation("C07", Mismatch{Case: e.name + " on cleared pools, then 12 objects taken from " + pl.name, What: "the pool holds one object twice: the call put it back two times, so two later executions can be handed the same object at the same time"})
					sum.addViolation("C08", Mismatch{Case: e.name + " on cleared pools, then 12 objects taken from " + pl.name, What: "the pool holds one object twice: the call put it back two times, so two overlapping executions can be handed the same object"})
					break
				}
				seen[o] = true
			}
		}
		sum.Hist["pool_balance_entry_points"]++
	}
	p.ClearPools()
}

// nestedCallProbe (C07): a user callback may run ANOTHER schema (delegate to it). Every entry point is executed
// with a callback that does so and with one that does not; the two results must be equal, and an unrelated call
// afterwards must be what it is on cleared pools.
func nestedCallProbe(sum *Summary) {
	type in struct{ City string }
	inner := z.Struct(z.Schema{"city": z.String().Required().Min(9)})
	nest := func() {
		var d in
		inner.Parse(map[string]any{"city": "x"}, &d)
		dd := in{City: "y"}
		inner.Validate(&dd)
		var s string
		z.String().Min(7).Parse("ab", &s)
	}
	type rec struct {
		Name string
		Tags []string
	}
	canonL := func(l z.ZogIssueList) string {
		out := []string{}
		for _, is := range l {
			out = append(out, fmt.Sprintf("%s|%s|%s", is.Path, is.Code, is.Message))
		}
		sort.Strings(out)
		return fmt.Sprint(out)
	}
	canonM := func(m z.ZogIssueMap) string {
		out := []string{}
		for k, l := range m {
			if k == "$first" {
				continue
			}
			for _, is := range l {
				out = append(out, fmt.Sprintf("%s=%s|%s|%s", k, is.Path, is.Code, is.Message))
			}
		}
		sort.Strings(out)
		return fmt.Sprint(out)
	}
	// every entry point, parameterised by the callback its tests / transforms call first
	eps := []struct {
		name string
		run  func(cb func()) string
	}{
		{"String.Parse", func(cb func()) string {
			var d string
			return canonL(z.String().TestFunc(func(v any, c z.Ctx) bool { cb(); return true }).Min(5).Parse("ab", &d))
		}},
		{"String.Validate", func(cb func()) string {
			d := "ab"
			return canonL(z.String().TestFunc(func(v any, c z.Ctx) bool { cb(); return true }).Min(5).Validate(&d))
		}},
		{"Int.Parse", func(cb func()) string {
			var d int
			return canonL(z.Int().TestFunc(func(v any, c z.Ctx) bool { cb(); return true }).GT(5).Parse(1, &d))
		}},
		{"Time.Validate", func(cb func()) string {
			d := time.Unix(5, 0)
			return canonL(z.Time().TestFunc(func(v any, c z.Ctx) bool { cb(); return true }).After(time.Unix(9, 0)).Validate(&d))
		}},
		{"Bool.Validate", func(cb func()) string {
			d := true
			return canonL(z.Bool().TestFunc(func(v any, c z.Ctx) bool { cb(); return true }).False().Validate(&d))
		}},
		{"Slice.Parse", func(cb func()) string {
			var d []string
			return canonM(z.Slice(z.String().TestFunc(func(v any, c z.Ctx) bool { cb(); return true }).Min(2)).Parse([]any{"ok", "a", "b"}, &d))
		}},
		{"Slice.Validate", func(cb func()) string {
			d := []string{"ok", "a", "b"}
			return canonM(z.Slice(z.String().TestFunc(func(v any, c z.Ctx) bool { cb(); return true }).Min(2)).Validate(&d))
		}},
		{"Struct.Parse", func(cb func()) string {
			var d rec
			s := z.Struct(z.Schema{"name": z.String().TestFunc(func(v any, c z.Ctx) bool { cb(); return true }).Min(3), "tags": z.Slice(z.String().Min(2))})
			return canonM(s.Parse(map[string]any{"name": "x", "tags": []any{"a", "bb", "c"}}, &d))
		}},
		{"Struct.Validate", func(cb func()) string {
			d := rec{Name: "x", Tags: []string{"a", "bb", "c"}}
			s := z.Struct(z.Schema{"name": z.String().Min(3), "tags": z.Slice(z.String().TestFunc(func(v any, c z.Ctx) bool { cb(); return true }).Min(2))})
			return canonM(s.Validate(&d))
		}},
		{"Ptr.Validate", func(cb func()) string {
			d := &rec{Name: "x", Tags: []string{"a"}}
			s := z.Ptr(z.Struct(z.Schema{"name": z.String().TestFunc(func(v any, c z.Ctx) bool { cb(); return true }).Min(3), "tags": z.Slice(z.String().Min(2))}))
			return canonM(s.Validate(&d))
		}},
		{"Ptr.Parse", func(cb func()) string {
			var d *rec
			s := z.Ptr(z.Struct(z.Schema{"name": z.String().Min(3), "tags": z.Slice(z.String().TestFunc(func(v any, c z.Ctx) bool { cb(); return true }).Min(2))}))
			return canonM(s.Parse(map[string]any{"name": "x", "tags": []any{"a", "b"}}, &d))
		}},
		{"Custom.Parse", func(cb func()) string {
			var d int
			return canonL(z.CustomFunc(func(p *int, c z.Ctx) bool { cb(); return *p > 5 }, z.Message("small")).Parse(1, &d))
		}},
		{"Preprocess.Parse", func(cb func()) string {
			var d []string
			pre := z.Preprocess(func(v []any, c z.Ctx) ([]string, error) { cb(); return []string{"ok", "a"}, nil }, z.Slice(z.String().Min(2)))
			return canonL(pre.Parse([]any{1}, &d))
		}},
		{"Struct.PostTransform", func(cb func()) string {
			var d rec
			s := z.Struct(z.Schema{"name": z.String(), "tags": z.Slice(z.String())}).PostTransform(func(p any, c z.Ctx) error { cb(); return fmt.Errorf("post failed") })
			return canonM(s.Parse(map[string]any{"name": "x"}, &d))
		}},
	}
	after := func() string {
		var d rec
		s := z.Struct(z.Schema{"name": z.String().Required().Min(3), "tags": z.Slice(z.String().Min(2))})
		var x string
		return canonM(s.Parse(map[string]any{"name": "x", "tags": []any{"ok", "a"}}, &d)) + canonL(z.String().Min(5).Parse("ab", &x))
	}
	p.ClearPools()
	wantAfter := after()
	for _, e := range eps {
		sum.Evaluations++
		p.ClearPools()
		plain := e.run(func() {})
		p.ClearPools()
		nested := e.run(nest)
		got := after()
		if nested != plain {
			sum.addViolation("C07", Mismatch{Case: e.name + " with a callback that runs another schema", What: "the result differs from the same call whose callback does not: " + nested + " vs " + plain})
		} else if got != wantAfter {
			sum.addViolation("C07", Mismatch{Case: "an unrelated call after " + e.name + " with a callback that runs another schema", What: "the later call differs from the same call on cleared pools: " + got + " vs " + wantAfter})
		}
		sum.Hist["nested_call_entry_points"]++
	}
	p.ClearPools()
}
