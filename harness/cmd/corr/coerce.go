package main

// S-coerce: (coercer, value) unit cases — every Go numeric type and string form at and around the
// bounds of every numeric destination, bool strings, times, scalars. Serves C03 (documented
// coercion) and C18 (no silent change of a number; exact big-number oracle).

import (
	"fmt"
	"math"
	"math/big"
	"reflect"
	"strconv"
	"strings"
	"time"

	"github.com/Oudwins/zog/parsers/zjson"

	z "github.com/Oudwins/zog"
	"github.com/Oudwins/zog/conf"

	"verif/harness/internal/eng"
	"verif/harness/internal/rng"
	"verif/harness/internal/sx"
)

type coerceCase struct {
	kind   string
	layout string
	v      eng.V
}

func runCoerceImpl(c coerceCase) (string, eng.D) {
	n := &eng.Node{Kind: "prim", PK: c.kind, Layout: c.layout}
	if c.layout == "RFC3339" {
		n.Layout = ""
	}
	cs := &eng.Case{Mode: "p", Schema: n, Dest: eng.ZeroD(n), Input: c.v}
	res := eng.Run(cs)
	if res.Panic != "" {
		return "panic", eng.D{}
	}
	if len(res.Issues) == 0 {
		return "ok", res.Dest
	}
	for k, l := range res.Issues {
		if k == "$first" {
			continue
		}
		for _, i := range l {
			if i.Code == "coerce" {
				return "err", eng.D{}
			}
		}
	}
	return "other", eng.D{}
}

func isParseZeroV(v eng.V) bool {
	if v.K == "nil" {
		return true
	}
	if v.K == "s" {
		for _, r := range v.S {
			if !isGoSpaceRune(r) {
				return false
			}
		}
		return true
	}
	return false
}

func isGoSpaceRune(r rune) bool {
	switch r {
	case '\t', '\n', '\v', '\f', '\r', ' ', 0x85, 0xA0, 0x1680, 0x2028, 0x2029, 0x202F, 0x205F, 0x3000:
		return true
	}
	return r >= 0x2000 && r <= 0x200A
}

// exactValue: the exact numeric value of an input, as a big.Float with enough precision (nil = not a
// number: NaN, or not numeric), plus ±Inf flags.
func exactValue(v eng.V) (val *big.Float, nan bool, inf int, numeric bool) {
	switch v.K {
	case "i":
		return new(big.Float).SetPrec(400).SetInt64(v.I), false, 0, true
	case "f64", "f32":
		if math.IsNaN(v.F) {
			return nil, true, 0, true
		}
		if math.IsInf(v.F, 1) {
			return nil, false, 1, true
		}
		if math.IsInf(v.F, -1) {
			return nil, false, -1, true
		}
		return new(big.Float).SetPrec(400).SetFloat64(v.F), false, 0, true
	case "s":
		// decimal / exponent strings: exact rational value
		r, ok := new(big.Rat).SetString(v.S)
		if !ok {
			return nil, false, 0, false
		}
		return new(big.Float).SetPrec(2000).SetRat(r), false, 0, true
	case "b":
		return nil, false, 0, false
	}
	return nil, false, 0, false
}

var (
	twoTo63  = new(big.Float).SetPrec(400).SetMantExp(big.NewFloat(1), 63)
	twoTo31  = new(big.Float).SetPrec(400).SetMantExp(big.NewFloat(1), 31)
	maxF32   = new(big.Float).SetPrec(400).SetFloat64(math.MaxFloat32)
	f32Round = new(big.Float).SetPrec(400).SetMantExp(big.NewFloat(1), 128) // 2^128
)

// c18Oracle: with exact arithmetic, is the outcome acceptable for property C18?
func c18Oracle(kind string, v eng.V, outcome string, got eng.D) string {
	switch kind {
	case "int", "i32", "i64", "f64", "f32":
	default:
		return ""
	}
	val, nan, inf, numeric := exactValue(v)
	if !numeric {
		return ""
	}
	isInt := kind == "int" || kind == "i32" || kind == "i64"
	if outcome != "ok" {
		return "" // a coerce issue is always acceptable
	}
	if isInt {
		if nan || inf != 0 {
			return fmt.Sprintf("NaN/Inf was turned into the integer %d", got.I)
		}
		// truncation toward zero
		t, _ := val.Int(nil)
		want := new(big.Int).Set(t)
		lo, hi := new(big.Int).Neg(new(big.Int).Lsh(big.NewInt(1), 63)), new(big.Int).Sub(new(big.Int).Lsh(big.NewInt(1), 63), big.NewInt(1))
		if kind == "i32" {
			lo, hi = big.NewInt(math.MinInt32), big.NewInt(math.MaxInt32)
		}
		if want.Cmp(lo) < 0 || want.Cmp(hi) > 0 {
			return fmt.Sprintf("value %s is outside the range of %s but was accepted as %d", want.String(), kind, got.I)
		}
		if !want.IsInt64() || want.Int64() != got.I {
			return fmt.Sprintf("exact value truncates to %s but the destination holds %d", want.String(), got.I)
		}
		return ""
	}
	// float destinations: correctly rounded, never ±Inf from a finite value
	if nan {
		if !math.IsNaN(got.F) {
			return "NaN became a number"
		}
		return ""
	}
	if inf != 0 {
		if !math.IsInf(got.F, inf) {
			return "Inf changed"
		}
		return ""
	}
	if math.IsInf(got.F, 0) || math.IsNaN(got.F) {
		return fmt.Sprintf("finite value %s became %v", val.Text('g', 30), got.F)
	}
	var want float64
	if kind == "f32" {
		w32, _ := val.Float32()
		want = float64(w32)
	} else {
		want, _ = val.Float64()
	}
	if want != got.F {
		return fmt.Sprintf("exact value %s rounds to %v but the destination holds %v", val.Text('g', 30), want, got.F)
	}
	return ""
}

func coerceGrid(r *rng.R, n int) []coerceCase {
	var out []coerceCase
	numKinds := []string{"int", "i32", "i64", "f64", "f32"}
	var ints []int64
	for _, k := range []uint{7, 15, 24, 31, 32, 53, 62} {
		for _, d := range []int64{-1, 0, 1} {
			ints = append(ints, (int64(1)<<k)+d, -(int64(1)<<k)+d)
		}
	}
	ints = append(ints, 0, 1, -1, 5, math.MaxInt64, math.MinInt64, math.MaxInt64-1, math.MinInt64+1)
	var floats []float64
	for _, k := range []int{7, 24, 31, 32, 53, 63, 64, 127, 128, 1000} {
		p := math.Ldexp(1, k)
		floats = append(floats, p, -p, math.Nextafter(p, 0), math.Nextafter(p, math.Inf(1)), -math.Nextafter(p, 0), p+0.5, p-0.5)
	}
	floats = append(floats, 0, math.Copysign(0, -1), 0.5, -0.5, 1.5, 2.999, -2.999, 3e9, -3e9, 1e19, -1e19, 1e300, -1e300, math.NaN(), math.Inf(1), math.Inf(-1),
		math.MaxFloat32, math.MaxFloat32*1.0000001, 3.4028235677973366e+38, 3.4028235e38, math.SmallestNonzeroFloat64, 1e-46, math.SmallestNonzeroFloat32, 0.1, 1.0/3)
	strs := []string{"0", "1", "-1", "+5", "007", "1_0", "0x10", " 5", "5 ", "5.0", "1e3", "1E3", "-0", "3000000000", "-3000000000", "2147483647", "2147483648", "-2147483648", "-2147483649",
		"9223372036854775807", "9223372036854775808", "-9223372036854775808", "-9223372036854775809", "1e19", "1e300", "1e400", "-1e400", "3.4028235e38", "3.4028236e38", "1e39", "NaN", "Inf", "-Inf", "inf", "nan",
		"1.5", ".5", "5.", "1e-400", "0.1", "zz", "12abc", "１２", "٣", "1,000", "1 000", "--1", "+-1", "", "  "}
	for _, k := range numKinds {
		for _, n := range ints {
			for _, ik := range []string{"int", "i64", "i32", "other"} {
				v := eng.V{K: "i", IK: ik, I: n}
				if ik == "i32" {
					v.I = int64(int32(n))
				}
				if ik == "other" {
					v.I = int64(int8(n))
				}
				out = append(out, coerceCase{k, "RFC3339", v})
			}
		}
		for _, f := range floats {
			out = append(out, coerceCase{k, "RFC3339", eng.VF64(f)})
			out = append(out, coerceCase{k, "RFC3339", eng.V{K: "f32", F: float64(float32(f))}})
		}
		for _, s := range strs {
			out = append(out, coerceCase{k, "RFC3339", eng.VStr(s)})
		}
		out = append(out, coerceCase{k, "RFC3339", eng.VBool(true)}, coerceCase{k, "RFC3339", eng.VBool(false)}, coerceCase{k, "RFC3339", eng.VList(eng.VInt(1))})
	}
	// bool
	for _, s := range []string{"on", "off", "true", "false", "1", "0", "t", "f", "T", "F", "TRUE", "FALSE", "True", "False", "yes", "no", "ON", "tRUE", "", " ", "2", "zz"} {
		out = append(out, coerceCase{"bool", "RFC3339", eng.VStr(s)})
	}
	for _, n := range []int64{0, 1, 2, -1} {
		out = append(out, coerceCase{"bool", "RFC3339", eng.VInt(n)}, coerceCase{"bool", "RFC3339", eng.V{K: "i", IK: "i64", I: n}})
	}
	out = append(out, coerceCase{"bool", "RFC3339", eng.VBool(true)}, coerceCase{"bool", "RFC3339", eng.VF64(1)})
	// string: any value to its %v
	for _, v := range []eng.V{eng.VStr("a"), eng.VStr(" a "), eng.VInt(42), eng.VBool(true), eng.VF64(1.5), eng.VF64(1e21), eng.VF64(100000), eng.V{K: "f32", F: 0.5},
		eng.VList(eng.VInt(1), eng.VStr("b")), eng.VObj(eng.KV{K: "k", V: eng.VInt(1)}), eng.VTime(time.Unix(1000, 0).UTC()), {K: "i", IK: "i64", I: -7}, {K: "x", Desc: "struct"}} {
		out = append(out, coerceCase{"str", "RFC3339", v})
	}
	// time
	t0 := time.Date(2024, 5, 6, 7, 8, 9, 0, time.UTC)
	// (layouts with a zone element given through Time.Format keep the offset the input was written with: the
	// documented coercion is time.Parse(layout, input))
	for _, layout := range []string{"RFC3339", "2006-01-02", "02/01/2006 15:04", time.RFC1123, "20060102", "2006", "150405", "20060102150405", time.RFC3339Nano, "2006-01-02 15:04:05 -0700", time.RFC1123Z} {
		for _, s := range []string{t0.Format(time.RFC3339), "2024-05-06", "06/05/2024 07:08", t0.Format(time.RFC1123), "2024-05-06T07:08:09+02:00", "zz", "2024-13-40", "2024-05-06T07:08:09.123456789Z",
			"2024-05-06 07:08:09 +0200", "2024-05-06 07:08:09 -0530", "2024-05-06 07:08:09 +0000", "2024-05-06T07:08:09.5-05:00", t0.In(time.FixedZone("", 3*3600)).Format(time.RFC1123Z),
			"20240131", "2024", "070809", "20240506070809", "1733007600", "0", "-5", "1e3"} {
			out = append(out, coerceCase{"time", layout, eng.VStr(s)})
		}
		out = append(out, coerceCase{"time", layout, eng.VTime(t0)}, coerceCase{"time", layout, eng.VInt(1715000000)}, coerceCase{"time", layout, eng.V{K: "i", IK: "i64", I: -5}},
			coerceCase{"time", layout, eng.VF64(1)}, coerceCase{"time", layout, eng.V{K: "i", IK: "i32", I: 5}})
	}
	// random numeric strings and floats
	for i := 0; i < n; i++ {
		k := rng.Pick(r, numKinds)
		switch r.Intn(3) {
		case 0:
			out = append(out, coerceCase{k, "RFC3339", eng.VF64(math.Float64frombits(r.U64()))})
		case 1:
			m := int64(r.U64())
			e := r.Range(-30, 320)
			out = append(out, coerceCase{k, "RFC3339", eng.VStr(strconv.FormatInt(m>>uint(r.Intn(60)), 10) + "e" + strconv.Itoa(e))})
		default:
			out = append(out, coerceCase{k, "RFC3339", eng.VInt(int64(r.U64()) >> uint(r.Intn(63)))})
		}
	}
	return out
}

// d32Probe: the fixed scenario of known finding D32; true when the number was silently changed
func d32Probe() bool {
	type D struct{ N int64 }
	var d D
	errs := z.Struct(z.Schema{"n": z.Int64()}).Parse(zjson.Decode(strings.NewReader(`{"n":9007199254740993}`)), &d)
	return errs == nil && d.N != 9007199254740993
}

func streamCoerce(seed uint64, n int, driver string) (*Summary, error) {
	sum := newSummary("coerce", seed)
	sum.Rule = "grid: 5 numeric kinds x (every Go integer kind at +-2^k+-1 for k in {7,15,24,31,32,53,62}, float64/float32 at +-2^k and neighbours, NaN/Inf/-0/subnormals, 50 string forms) + bool/string/time tables (exhaustive over the grid) + random floats/decimal-exponent strings; non-trivial = the value is present (not nil/blank); distinct = distinct (kind, layout, value)"
	globalOverrideProbe(sum)
	r := rng.New(seed)
	cases := coerceGrid(r, n)
	lines := make([]string, len(cases))
	impl := make([]string, len(cases))
	dests := make([]eng.D, len(cases))
	for i, c := range cases {
		ext := eng.NewExt()
		if c.layout != "RFC3339" {
			ext.Layouts = append(ext.Layouts, c.layout)
		}
		switch c.v.K {
		case "s":
			ext.NoteParse(c.v.S)
		case "i", "b", "nil":
		default:
			ext.NoteDisplayV(c.v)
		}
		lines[i] = sx.T("coerce", sx.I(int64(i)), sx.A(c.kind), sx.S(c.layout), c.v.Sx(), ext.Sx()).String()
		out, d := runCoerceImpl(c)
		dests[i] = d
		switch {
		case isParseZeroV(c.v):
			impl[i] = sx.T("res", sx.I(int64(i)), sx.A("absent")).String()
		case out == "ok":
			impl[i] = sx.T("res", sx.I(int64(i)), sx.T("ok", d.Sx())).String()
		case out == "err":
			impl[i] = sx.T("res", sx.I(int64(i)), sx.A("err")).String()
		default:
			impl[i] = sx.T("res", sx.I(int64(i)), sx.A(out)).String()
		}
		// direct oracle (C18): exact arithmetic
		if !isParseZeroV(c.v) {
			if why := c18Oracle(c.kind, c.v, out, d); why != "" {
				sum.addViolation("C18", Mismatch{Case: lines[i], Impl: impl[i], What: "numeric coercion changed a number: " + why})
			}
		}
	}
	models, err := runDriver(driver, lines)
	if err != nil {
		return nil, err
	}
	distinct := map[string]bool{}
	for i := range cases {
		sum.Evaluations++
		sum.Hist["kind_"+cases[i].kind]++
		m := models[i]
		switch {
		case reflect.DeepEqual(impl[i], m):
		default:
			sum.FullLineMismatches++
			for _, p := range []string{"C03", "C18"} {
				sum.addMismatch(p, Mismatch{Case: lines[i], Impl: impl[i], Model: m, What: "coercer model and implementation disagree"})
			}
		}
		if !isParseZeroV(cases[i].v) && !distinct[lines[i]] {
			distinct[lines[i]] = true
			sum.Nontrivial++
		}
		if len(sum.Samples) < 3 && i%97 == 5 {
			sum.Samples = append(sum.Samples, lines[i]+" => "+impl[i])
		}
		sum.Hist["outcome_"+func() string {
			n, _ := sx.Parse(impl[i])
			if n.List[2].IsList {
				return "ok"
			}
			return n.List[2].Atom
		}()]++
	}
	sum.Exhaustive = false
	// known finding D32: a JSON integer beyond 2^53 is rounded by encoding/json's float64 decoding before
	// zog sees it, and is then stored in an Int64 destination without an issue
	if d32Probe() {
		sum.Known["C18"] = appendUnique(sum.Known["C18"], "D32 a JSON integer beyond 2^53 (e.g. 9007199254740993) reaches the coercer as the rounded float64 (zjson decodes numbers to float64) and is stored in an Int64 destination as a different number, without an issue")
		sum.Hist["known_D32_hits"]++
	}
	_ = z.Int
	return sum, nil
}

// globalOverrideProbe (C03): the documented way to change coercion for every schema is to assign conf.Coercers.X.
// With an override installed that maps EVERY input to a marker value, every schema kind built afterwards — the
// adapters Int32 / Int64 / Float32 included, at top level, in structs, slices and behind pointers — must store
// the override's result (converted to the destination type) and report no issue.
func globalOverrideProbe(sum *Summary) {
	saved := conf.Coercers
	defer func() { conf.Coercers = saved }()
	conf.Coercers.Int = func(any) (any, error) { return 77, nil }
	conf.Coercers.Float64 = func(any) (any, error) { return 1500.0, nil }
	conf.Coercers.String = func(any) (any, error) { return "OVR", nil }
	conf.Coercers.Bool = func(any) (any, error) { return true, nil }
	mark := time.Unix(424242, 0).UTC()
	conf.Coercers.Time = func(any) (any, error) { return mark, nil }
	type rec struct {
		I   int
		I32 int32
		I64 int64
		F   float64
		F32 float32
		S   string
		B   bool
		T   time.Time
		L   []float32
		P   *int32
	}
	schema := z.Struct(z.Schema{"i": z.Int(), "i32": z.Int32(), "i64": z.Int64(), "f": z.Float64(), "f32": z.Float32(), "s": z.String(), "b": z.Bool(), "t": z.Time(),
		"l": z.Slice(z.Float32()), "p": z.Ptr(z.Int32())})
	in := map[string]any{"i": "zz", "i32": "zz", "i64": "zz", "f": "zz", "f32": "zz", "s": 5, "b": "zz", "t": "zz", "l": []any{"zz", "1.5"}, "p": "zz"}
	var d rec
	sum.Evaluations++
	errs := schema.Parse(in, &d)
	want := rec{I: 77, I32: 77, I64: 77, F: 1500, F32: 1500, S: "OVR", B: true, T: mark, L: []float32{1500, 1500}}
	p32 := int32(77)
	okPtr := d.P != nil && *d.P == p32
	got := d
	got.P = nil
	if len(errs) != 0 || !reflect.DeepEqual(got, want) || !okPtr {
		sum.addViolation("C03", Mismatch{Case: "conf.Coercers.{Int,Float64,String,Bool,Time} replaced by functions returning 77 / 1500 / OVR / true / a fixed time; Struct{Int, Int32, Int64, Float64, Float32, String, Bool, Time, Slice(Float32), Ptr(Int32)} built afterwards and parsed",
			What: fmt.Sprintf("a schema did not use the installed global coercer: issues %v, destination %+v (pointer ok: %v), want %+v", errs, got, okPtr, want)})
	}
}
